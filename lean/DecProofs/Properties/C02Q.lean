/-
  C02Q — fused multiply-add rounds the exact `x·y + z` once: the ℚ-level statements.

  `FinishSpec` / `FinishSpecStrict` are the declarative "correctly rounded delivery" clauses of
  `DecProofs.Core.Finish` / `DecProofs.Core.FinishUnique` (the strict one is single-valued, so it
  *characterises* the result).
-/
import DecProofs.Properties.C01Q
import DecProofs.Core.FinishUnique

namespace Dec.C02Q

open Dec.C01Q

/-! ### helpers -/

/-- the exact product of two finite numbers is the finite number with the product coefficient -/
theorem fval_mul (s1 : Bool) (c1 : Nat) (e1 : Int) (s2 : Bool) (c2 : Nat) (e2 : Int) :
    fval (s1 != s2) (c1 * c2) (e1 + e2) = fval s1 c1 e1 * fval s2 c2 e2 := by
  unfold fval; rw [zpow_add₀ ten_ne]; push_cast
  cases s1 <;> cases s2 <;> simp <;> ring

/-- `addFin_correct` with the tight clause -/
theorem addFin_correct_strict (mode : Mode) (s1 : Bool) (c1 : Nat) (e1 : Int) (s2 : Bool) (c2 : Nat) (e2 : Int)
    (pref : Int) :
    let V : ℚ := fval s1 c1 e1 + fval s2 c2 e2
    V ≠ 0 → FinishSpecStrict mode (decide (V < 0)) |V| pref (addFin mode s1 c1 e1 s2 c2 e2 pref) := by
  intro V
  obtain ⟨m, hm⟩ : ∃ m : Int, m = if e1 ≤ e2 then e1 else e2 := ⟨_, rfl⟩
  have hm1 : m ≤ e1 := by rw [hm]; split <;> omega
  have hm2 : m ≤ e2 := by rw [hm]; split <;> omega
  obtain ⟨S, hS⟩ : ∃ S : Int, S = sInt s1 (c1 * 10 ^ (e1 - m).toNat) + sInt s2 (c2 * 10 ^ (e2 - m).toNat) :=
    ⟨_, rfl⟩
  have hp : (0 : ℚ) < (10 : ℚ) ^ m := zpow_pos ten_pos _
  have hV : V = (S : ℚ) * (10 : ℚ) ^ m := by
    show fval s1 c1 e1 + fval s2 c2 e2 = _
    rw [fval_rescale s1 c1 hm1, fval_rescale s2 c2 hm2, hS]; push_cast; ring
  have hfin : addFin mode s1 c1 e1 s2 c2 e2 pref =
      if S = 0 then (zeroAt (zeroSumSign mode s1 s2) pref, 0)
      else finish mode (decide (S < 0)) S.natAbs 1 m pref := by
    rw [hS, hm]; rfl
  intro h0
  have hS0 : S ≠ 0 := by
    intro h; apply h0; rw [hV, h]; simp
  rw [hfin, if_neg hS0]
  have hsign : decide (V < 0) = decide (S < 0) := by
    apply decide_eq_decide.mpr
    rw [hV]
    constructor
    · intro h
      have : (S : ℚ) < 0 := by
        by_contra hc
        have : 0 ≤ (S : ℚ) * (10 : ℚ) ^ m := mul_nonneg (not_lt.mp hc) hp.le
        linarith
      exact_mod_cast this
    · intro h
      have : (S : ℚ) < 0 := by exact_mod_cast h
      exact mul_neg_of_neg_of_pos this hp
  have habs : |V| = ((S.natAbs : Nat) : ℚ) / ((1 : Nat) : ℚ) * (10 : ℚ) ^ m := by
    rw [hV, abs_mul, abs_of_pos hp, Nat.cast_natAbs, Int.cast_abs]; simp
  rw [hsign, habs]
  exact finish_spec_strict mode _ _ 1 m pref (by omega) (by omega)

theorem fmaD_fin (mode : Mode) (s1 : Bool) (c1 : Nat) (e1 : Int) (s2 : Bool) (c2 : Nat) (e2 : Int)
    (s3 : Bool) (c3 : Nat) (e3 : Int) :
    fmaD mode false (.fin s1 c1 e1) (.fin s2 c2 e2) (.fin s3 c3 e3) =
      addFin mode (s1 != s2) (c1 * c2) (e1 + e2) s3 c3 e3 (min (e1 + e2) e3) := by
  rw [Int.min_def]; rfl

/-! ### fma is correctly rounded, once -/

/-- **Fused multiply-add is correctly rounded — one rounding of the exact `x·y + z`.**  For finite operands
let `V = x·y + z` be computed exactly in ℚ.  If `V = 0` the result is an exact zero (no flag) whose sign
follows the IEEE rule for a zero sum of the product sign and the addend sign, and whose exponent is
`min (e1+e2) e3` (clamped into range).  Otherwise the result is the correct delivery of `V` in the sense of
`FinishSpec`: `V` itself, with the cohort exponent closest to `min (e1+e2) e3` and no flag, when `V` is a
member of the format; else `V` rounded once in `mode` (inexact; underflow / overflow as in `FinishSpec`). -/
theorem fma_correct (mode : Mode) (s1 : Bool) (c1 : Nat) (e1 : Int) (s2 : Bool) (c2 : Nat) (e2 : Int)
    (s3 : Bool) (c3 : Nat) (e3 : Int) :
    let V : ℚ := fval s1 c1 e1 * fval s2 c2 e2 + fval s3 c3 e3
    let out := fmaD mode false (.fin s1 c1 e1) (.fin s2 c2 e2) (.fin s3 c3 e3)
    (V = 0 → out = (zeroAt (zeroSumSign mode (s1 != s2) s3) (min (e1 + e2) e3), 0)) ∧
    (V ≠ 0 → FinishSpec mode (decide (V < 0)) |V| (min (e1 + e2) e3) out) := by
  intro V out
  show (V = 0 → fmaD mode false _ _ _ = _) ∧ (V ≠ 0 → FinishSpec _ _ _ _ (fmaD mode false _ _ _))
  rw [fmaD_fin]
  have := addFin_correct mode (s1 != s2) (c1 * c2) (e1 + e2) s3 c3 e3 (min (e1 + e2) e3)
  rw [fval_mul] at this
  exact this

/-- **… and the tight form**: for a non-zero exact `V = x·y + z`, an outcome is the model's `fma` result
*iff* it is the (single-valued) correct delivery of `V`: "rounds the exact `x·y + z` once" characterises the
result datum and the flags completely. -/
theorem fma_eq_iff (mode : Mode) (s1 : Bool) (c1 : Nat) (e1 : Int) (s2 : Bool) (c2 : Nat) (e2 : Int)
    (s3 : Bool) (c3 : Nat) (e3 : Int) (out : Datum × Flags) :
    let V : ℚ := fval s1 c1 e1 * fval s2 c2 e2 + fval s3 c3 e3
    V ≠ 0 →
    (fmaD mode false (.fin s1 c1 e1) (.fin s2 c2 e2) (.fin s3 c3 e3) = out ↔
      FinishSpecStrict mode (decide (V < 0)) |V| (min (e1 + e2) e3) out) := by
  intro V h0
  rw [fmaD_fin]
  have := addFin_correct_strict mode (s1 != s2) (c1 * c2) (e1 + e2) s3 c3 e3 (min (e1 + e2) e3)
  rw [fval_mul] at this
  exact (this h0).eq_iff (abs_pos.mpr h0) out

/-- the correct delivery of `V = x·y + z` in the tight sense -/
theorem fma_correct_strict (mode : Mode) (s1 : Bool) (c1 : Nat) (e1 : Int) (s2 : Bool) (c2 : Nat) (e2 : Int)
    (s3 : Bool) (c3 : Nat) (e3 : Int) :
    let V : ℚ := fval s1 c1 e1 * fval s2 c2 e2 + fval s3 c3 e3
    V ≠ 0 → FinishSpecStrict mode (decide (V < 0)) |V| (min (e1 + e2) e3)
      (fmaD mode false (.fin s1 c1 e1) (.fin s2 c2 e2) (.fin s3 c3 e3)) := by
  intro V h0
  exact (fma_eq_iff mode s1 c1 e1 s2 c2 e2 s3 c3 e3 _ h0).mp rfl

-- exact (1.2·0.5 + 0.25 = 0.85), inexact, exact cancellation to zero (sign by the mode)
example : fmaD .rne false (.fin false 12 (-1)) (.fin false 5 (-1)) (.fin false 25 (-2)) = (.fin false 85 (-2), 0) := by
  decide +kernel
example : fmaD .rne false (.fin false (P34 - 1) 0) (.fin false (P34 - 1) 0) (.fin false 1 0) =
    (.fin false 9999999999999999999999999999999998 34, fInexact) := by decide +kernel
example : fmaD .rdn false (.fin false 2 0) (.fin false 3 0) (.fin true 6 0) = (.fin true 0 0, 0) := by decide +kernel

/-- **"Rounds once" is not vacuous**: with `x = y = 10^33 + 1` and `z = -(10^33 + 2)·10^33`, the exact
`x·y + z` is `1`, which `fma` returns, whereas multiplying and then adding (two roundings) loses the final
`1` of the 67-digit product and returns `0` (or `10^33` when rounding upward) — in every rounding mode the
two result data differ. -/
theorem fma_not_double_rounding (mode : Mode) :
    (addD mode (mulD mode (.fin false (10 ^ 33 + 1) 0) (.fin false (10 ^ 33 + 1) 0)).1
        (.fin true (10 ^ 33 + 2) 33)).1 ≠
      (fmaD mode false (.fin false (10 ^ 33 + 1) 0) (.fin false (10 ^ 33 + 1) 0) (.fin true (10 ^ 33 + 2) 33)).1 := by
  cases mode <;> decide +kernel

example : fmaD .rne false (.fin false (10 ^ 33 + 1) 0) (.fin false (10 ^ 33 + 1) 0) (.fin true (10 ^ 33 + 2) 33) =
    (.fin false 1 0, 0) := by decide +kernel
example : addD .rne (mulD .rne (.fin false (10 ^ 33 + 1) 0) (.fin false (10 ^ 33 + 1) 0)).1 (.fin true (10 ^ 33 + 2) 33) =
    (.fin false 0 33, 0) := by decide +kernel

/-! ### degenerate addends / factors -/

/-- **A zero addend whose exponent does not lower the preferred exponent makes `fma` a multiplication**:
for a non-zero product and `z = ±0·10^e3` with `e3 ≥ e1 + e2`, `fma x y z = x · y`, result datum and flags. -/
theorem fma_zero_addend_is_mul (mode : Mode) (s1 : Bool) (c1 : Nat) (e1 : Int) (s2 : Bool) (c2 : Nat) (e2 : Int)
    (s3 : Bool) (e3 : Int) (hc : c1 * c2 ≠ 0) (he : e1 + e2 ≤ e3) :
    fmaD mode false (.fin s1 c1 e1) (.fin s2 c2 e2) (.fin s3 0 e3) = mulD mode (.fin s1 c1 e1) (.fin s2 c2 e2) := by
  have h1 : fmaD mode false (.fin s1 c1 e1) (.fin s2 c2 e2) (.fin s3 0 e3) =
      addFin mode (s1 != s2) (c1 * c2) (e1 + e2) s3 0 e3 (if e1 + e2 ≤ e3 then e1 + e2 else e3) := rfl
  have h2 : mulD mode (.fin s1 c1 e1) (.fin s2 c2 e2) =
      if c1 * c2 = 0 then (zeroAt (s1 != s2) (e1 + e2), 0)
      else finish mode (s1 != s2) (c1 * c2) 1 (e1 + e2) (e1 + e2) := rfl
  rw [h1, h2, if_neg hc, if_pos he]
  unfold addFin
  have hz : sInt s3 (0 * 10 ^ (e3 - (e1 + e2)).toNat) = 0 := by
    cases s3 <;> simp [sInt]
  have hpos : (0 : Int) < ((c1 * c2 : Nat) : Int) := by
    exact_mod_cast Nat.pos_of_ne_zero hc
  simp only [if_pos he, sub_self, Int.toNat_zero, pow_zero, Nat.mul_one, hz, add_zero]
  cases hs : (s1 != s2)
  · have e : sInt false (c1 * c2) = ((c1 * c2 : Nat) : Int) := by simp [sInt]
    rw [e, if_neg (by omega), Int.natAbs_natCast]
    have : decide (((c1 * c2 : Nat) : Int) < 0) = false := by
      simp only [decide_eq_false_iff_not]; omega
    rw [this]
  · have e : sInt true (c1 * c2) = -((c1 * c2 : Nat) : Int) := by simp [sInt]
    rw [e, if_neg (by omega), Int.natAbs_neg, Int.natAbs_natCast]
    have : decide (-((c1 * c2 : Nat) : Int) < 0) = true := by
      simp only [decide_eq_true_eq]; omega
    rw [this]

example : fmaD .rne false (.fin false 12 (-1)) (.fin true 5 (-1)) (.fin false 0 3) =
    mulD .rne (.fin false 12 (-1)) (.fin true 5 (-1)) :=
  fma_zero_addend_is_mul _ _ _ _ _ _ _ _ _ (by decide) (by decide)

/-- **`fma x 1 z` is the correctly rounded `x + z`** (ℚ level): with the unit `+1E0` as second factor, the
result is what `add_correct` prescribes for the exact sum `V = x + z`. -/
theorem fma_one_is_add (mode : Mode) (s1 : Bool) (c1 : Nat) (e1 : Int) (s3 : Bool) (c3 : Nat) (e3 : Int) :
    let V : ℚ := fval s1 c1 e1 + fval s3 c3 e3
    let out := fmaD mode false (.fin s1 c1 e1) (.fin false 1 0) (.fin s3 c3 e3)
    out = addD mode (.fin s1 c1 e1) (.fin s3 c3 e3) ∧
    (V = 0 → out = (zeroAt (zeroSumSign mode s1 s3) (min e1 e3), 0)) ∧
    (V ≠ 0 → FinishSpec mode (decide (V < 0)) |V| (min e1 e3) out) := by
  intro V out
  have h : out = addD mode (.fin s1 c1 e1) (.fin s3 c3 e3) := by
    show fmaD mode false _ _ _ = _
    simp [fmaD, addD]
  refine ⟨h, ?_⟩
  rw [h]
  exact add_correct mode s1 c1 e1 s3 c3 e3

example : fmaD .rne false (.fin false 1 0) (.fin false 1 0) (.fin false 25 (-1)) = (.fin false 35 (-1), 0) := by
  decide +kernel

end Dec.C02Q
