/-
  C01GenAddLoop35 — arm (A) of the rounding loop of `bid128_add` (bid128_add.rs `'roundC2: loop`), code level: two non-zero
  finite operands of EQUAL sign with `34 − q_L < delta < 34` whose padded first coefficient `B` plus the rounded second
  coefficient reaches `10^34` (`ArmACond` = the complement of `C01GenAddRound.Loop1Cond` for equal signs).

      add_loopA (H : RoundBlockSpec) … (h : ArmACond s1 c1 e1 s2 c2 e2) :
        bid128_add x y m f = .ok (encoding of (addD (md m) (dOf x) (dOf y)).1 , f ||| flags of addD)

  for all five rounding modes and every status word: the 35-digit sum `S = B + Rf ≥ 10^34` is rounded a second time with
  `BID_TEN2MK128[0] = (2^128 + 4)/10` (`prod_words4`, tests `midT4_eq`, `halfT4_eq`, `tmpS_eq`, `oddT4_eq`), the double
  rounding is repaired from the indicators of the first rounding (all 13 leaves of the source's table = `repair35`), the
  exponent becomes `e_L + k + 1`, then the early overflow exit of the nearest modes, the correction by the rounding mode
  (with the carry `10^34 ↦ 10^33` and the crossing `10^33 − 1 ↦ 10^34 − 1`), the directed overflow exits and the assembly
  (`keyPost` inside `loopA_code`: the text after the loop = `C01GenAddLoopMath.codeTail`, 11 leaves); also the boundary
  `S = 10^34 − 1` (one rounding, but the final correction may carry and overflow).  Number level: `C01GenAddLoopMath`
  (`add35_final`, `add1_final`).  The proof of the turn is `C01GenAddRound.loop1_code` (hkRound) with the same-sign end of
  the turn and the text after the loop replaced.

  OBSERVATION (not a defect): after the mode correction the code tests overflow only for the directed modes; a carry
  `10^34 − 1 ↦ 10^34` at the top exponent in mode nearest-away would be returned as the largest finite number.  It cannot
  happen: that carry needs `is_midpoint_gt_even` with `S = 10^34 − 1`, i.e. a tie rounded DOWN to an odd sum, but ties go to
  the even sum (`keyPost`'s hypothesis `hNAc`, discharged in `keyT` by parity).
-/
import DecProofs.Properties.C01GenAddRound
import DecProofs.Properties.C01GenAddLoopMath
namespace Dec.C01GenAddLoop35
open Dec.Rs Dec.Gen.Code Dec.C06GenFromInt Dec.C12GenNaN Dec.C01GenAdd Dec.C01GenAddLoop Dec.C01GenAddRound Dec.C01GenAddLoopMath
open Dec.C13GenPack (md)
open Dec.C01GenAdd.Sym Dec.C01GenAddLoop.Sym2
open Dec.C13GenNoncomp (bmod32 ten2k64_get)
set_option linter.unusedVariables false
set_option linter.unusedTactic false
set_option linter.unreachableTactic false
set_option linter.unusedSimpArgs false

set_option linter.unusedSectionVars false
/-- `BID_TEN2MK128[0] = (2^128 + 4) / 10` -/
def K4 : Nat := 34028236692093846346337460743176821146

theorem prod_split4 (T : Nat) (hT : T < 2^116) :
    T * 34028236692093846346337460743176821146 / 2^128 = T / 10 ∧
    T * 34028236692093846346337460743176821146 % 2^128 = (T / 10) * 4 + (T % 10) * 34028236692093846346337460743176821146 := by
  omega

/-- the two halves of the product `(S + 5)·BID_TEN2MK128[0]` -/
theorem prod_words4 (P : U256) (T : Nat) (hP : P.toNat' = T * K4) (hT : T < 2^116) :
    P.w3.toNat * 2^64 + P.w2.toNat = T / 10 ∧
    P.w1.toNat * 2^64 + P.w0.toNat = (T / 10) * 4 + (T % 10) * K4 := by
  have h0 := P.w0.toNat_lt; have h1 := P.w1.toNat_lt; have h2 := P.w2.toNat_lt; have h3 := P.w3.toNat_lt
  obtain ⟨e1, e2⟩ := prod_split4 T hT
  unfold Rs.U256.toNat' at hP
  unfold K4 at hP ⊢
  constructor
  · rw [← e1, ← hP]; omega
  · rw [← e2, ← hP]; omega

/-- the loop's test "f* − 1/2 > T*" (strict on the low word) -/
def tmpS (P : U256) : Bool :=
  (decide (P.w1 - 9223372036854775808 > 1844674407370955161) ||
    P.w1 - 9223372036854775808 == 1844674407370955161 && decide (P.w0 > 11068046444225730969))

section tests4
variable (P : U256) (q r : Nat) (hQ : P.w3.toNat * 2^64 + P.w2.toNat = q)
  (hF : P.w1.toNat * 2^64 + P.w0.toNat = q * 4 + r * K4) (hr : r < 10) (hq1 : 10^33 ≤ q) (hq2 : q < 2^111)
include hQ hF hr hq1 hq2

theorem midT4_eq : midT P = decide (r = 0) := by
  unfold midT
  rw [C01GenAdd.le128, C01GenAdd.ne128, hF, show (1844674407370955161 : UInt64).toNat * 2^64 + (11068046444225730969 : UInt64).toNat = Tst from rfl]
  unfold K4 Tst
  rw [Bool.eq_iff_iff]
  simp only [Bool.and_eq_true, decide_eq_true_eq]
  omega

theorem oddT4_eq : oddT P = decide (q % 2 = 1) := by
  unfold oddT
  rw [C06GenFromInt.test_field P.w2 1 1 1 0 1 (by rfl) (by rfl), decide_eq_decide]
  have := P.w2.toNat_lt
  omega

theorem halfT4_eq : halfT P = decide (5 ≤ r) := by
  unfold halfT
  rw [C13GenNoncomp.gt128, hF, show (9223372036854775808 : UInt64).toNat * 2^64 + (0 : UInt64).toNat = 2^127 from rfl]
  unfold K4
  rw [decide_eq_decide]
  omega

theorem tmpS_eq (h5 : 5 ≤ r) : tmpS P = decide (6 ≤ r) := by
  unfold tmpS
  have := P.w1.toNat_lt; have := P.w0.toNat_lt
  have hge : (9223372036854775808 : UInt64) ≤ P.w1 := by
    rw [UInt64.le_iff_toNat_le, show (9223372036854775808 : UInt64).toNat = 2^63 from rfl]
    unfold K4 at hF; omega
  rw [C13GenNoncomp.gt128, UInt64.toNat_sub_of_le _ _ hge, show (9223372036854775808 : UInt64).toNat = 2^63 from rfl,
    show (1844674407370955161 : UInt64).toNat * 2^64 + (11068046444225730969 : UInt64).toNat = Tst from rfl, decide_eq_decide]
  unfold K4 at hF
  unfold Tst
  omega
end tests4


/-- the quotient words decremented as the repair does it -/
theorem decQ (Q : U256) (q : Nat) (hQ : Q.w3.toNat * 2^64 + Q.w2.toNat = q) (hq : 1 ≤ q) :
    (if (Q.w2 - 1 == 18446744073709551615) = true then (⟨Q.w0, Q.w1, Q.w2 - 1, Q.w3 - 1⟩ : U256)
      else ⟨Q.w0, Q.w1, Q.w2 - 1, Q.w3⟩).w3.toNat * 2^64 +
    (if (Q.w2 - 1 == 18446744073709551615) = true then (⟨Q.w0, Q.w1, Q.w2 - 1, Q.w3 - 1⟩ : U256)
      else ⟨Q.w0, Q.w1, Q.w2 - 1, Q.w3⟩).w2.toNat = q - 1 := by
  have hd := dec_words Q.w3 Q.w2 (by rw [hQ]; exact hq)
  rw [hQ] at hd
  by_cases c : (Q.w2 - 1 == 18446744073709551615) = true
  · rw [if_pos c] at hd ⊢; exact hd
  · rw [if_neg c] at hd ⊢; exact hd

theorem flags_ioi (f : UInt32) :
    f ||| c_StatusFlags_BID_INEXACT_EXCEPTION ||| c_StatusFlags_BID_OVERFLOW_EXCEPTION ||| c_StatusFlags_BID_INEXACT_EXCEPTION
      = f ||| UInt32.ofNat (fOverflow ||| fInexact) := by
  rw [flags_io, UInt32.or_assoc]; rfl

/-- the overflow leaves of the text after the loop -/
theorem ovf_close (sa : UInt64) (f : UInt32) (tI : Bool) (resv : U128) (hi lo : UInt64) (D : Datum)
    (hD : (⟨lo, sa ||| 0 ||| hi⟩ : U128) = ofBits (encode D)) :
    (pure (if tI = true then
        (({ w0 := lo, w1 := ({ w0 := resv.w0, w1 := sa ||| 0 ||| hi } : U128).w1 } : U128),
          f ||| c_StatusFlags_BID_INEXACT_EXCEPTION ||| c_StatusFlags_BID_OVERFLOW_EXCEPTION |||
            c_StatusFlags_BID_INEXACT_EXCEPTION)
      else
        (({ w0 := lo, w1 := ({ w0 := resv.w0, w1 := sa ||| 0 ||| hi } : U128).w1 } : U128),
          f ||| c_StatusFlags_BID_INEXACT_EXCEPTION ||| c_StatusFlags_BID_OVERFLOW_EXCEPTION)) : Except String (U128 × UInt32)) =
      .ok (ofBits (encode D), f ||| UInt32.ofNat (fOverflow ||| fInexact)) := by
  rw [ite_pair, flags_ioi, flags_io, ite_self]
  exact congrArg (fun r => Except.ok (r, _)) hD

/-- the finite leaves of the text after the loop -/
theorem fin_close (sa y : UInt64) (f : UInt32) (tI : Bool) (resv : U128) (hi lo : UInt64) (sA : Bool) (C' Eb' : Nat)
    (has : sa.toNat = if sA then 2^63 else 0) (hy : y.toNat = Eb' * 2^49) (hE : Eb' < 12288)
    (hw : hi.toNat * 2^64 + lo.toNat = C') (hC : C' < 10^34) :
    (pure (if tI = true then
        (({ w0 := lo, w1 := ({ w0 := resv.w0, w1 := sa ||| y ||| hi } : U128).w1 } : U128),
          f ||| c_StatusFlags_BID_INEXACT_EXCEPTION)
      else (({ w0 := lo, w1 := ({ w0 := resv.w0, w1 := sa ||| y ||| hi } : U128).w1 } : U128), f)) :
        Except String (U128 × UInt32)) =
      .ok (ofBits (encode (.fin sA C' ((Eb' : Int) - 6176))), f ||| UInt32.ofNat (if tI then fInexact else 0)) := by
  rw [ite_pair]
  have : (if tI = true then f ||| c_StatusFlags_BID_INEXACT_EXCEPTION else f) = f ||| UInt32.ofNat (if tI then fInexact else 0) := by
    cases tI
    · simp
    · rfl
  rw [this]
  exact asm_ok sa y hi lo _ sA C' Eb' has hy (by omega) hw hC

/-- at an exponent above `eMax` the nearest modes give infinity whatever the correction does -/
theorem codeTail_near_ovf (m : RoundingMode) (sA : Bool) (Q : Nat) (E : Int) (lte gte ltm gtm ti : Bool) (hE : E > eMax)
    (hm : m = .NearestEven ∨ m = .NearestAway) :
    codeTail m sA Q E lte gte ltm gtm ti = (.inf sA, fOverflow ||| fInexact) := by
  have hd : dnB (!sA) sA m lte gtm = false := by
    unfold dnB; rcases hm with rfl | rfl <;> cases sA <;> simp
  have h2 : (corrCE m sA Q E lte gte ltm gtm).2 ≥ E := by
    unfold corrCE
    rw [hd]
    split_ifs <;> simp_all
  unfold codeTail
  rw [if_pos (by omega)]
  rcases hm with rfl | rfl <;> rfl

/-- the repaired quotient of a 35-digit sum below `2·10^34` has 34 digits and cannot carry -/
theorem repair35_range (S : Nat) (lte gte ltm gtm ti : Bool) (h1 : 10^34 ≤ S) (h2 : S < 2 * 10^34) :
    10^33 ≤ (repair35 S lte gte ltm gtm ti).1 ∧ (repair35 S lte gte ltm gtm ti).1 + 1 < 10^34 := by
  unfold repair35
  dsimp only
  split_ifs <;> dsimp only <;> omega

/-- the result of the same-sign arms of the loop, as the text after the loop applied to what the turn leaves: the rounded
sum `S = B + Rf` at exponent `EB + k` when it keeps 34 digits, the repaired quotient at `EB + k + 1` otherwise -/
def loopA_out (m : RoundingMode) (sA : Bool) (B av rv k EB : Nat) : Datum × Flags :=
  let h := 10 ^ k / 2
  let lte := decide (rv = h ∧ (B + av + 1) % 2 = 0)
  let gte := decide (rv = h ∧ (B + av + 1) % 2 = 1)
  let ltm := decide (0 < rv ∧ rv < h)
  let gtm := decide (h < rv)
  if B + firstR B av rv h < 10 ^ 34 then
    codeTail m sA (B + firstR B av rv h) (((EB + k : Nat) : Int) - 6176) lte gte ltm gtm (decide (rv ≠ 0))
  else
    let R := repair35 (B + firstR B av rv h) lte gte ltm gtm (decide (rv ≠ 0))
    codeTail m sA R.1 (((EB + k + 1 : Nat) : Int) - 6176) R.2.1 R.2.2.1 R.2.2.2.1 R.2.2.2.2.1 R.2.2.2.2.2

theorem loopA_code (H : RoundBlockSpec) (x y a b : U128) (m : RoundingMode) (f : UInt32)
    (hsp : ¬ ((x.w1 &&& c_MASK_SPECIAL == c_MASK_SPECIAL) || (y.w1 &&& c_MASK_SPECIAL == c_MASK_SPECIAL)) = true)
    (hx0 : ¬ (uH x == 0 && uL x == 0) = true) (hy0 : ¬ (uH y == 0 && uL y == 0) = true)
    (hab : Ordered x y a b)
    (D D1 : UInt32) (THI TLO : UInt64) (D' D1' : UInt32) (THI' TLO' : UInt64)
    (hTa : tblDD Dec.Gen.BID_NR_DIGITS (UInt64.ofInt (toI (nbOf (uH a) (uL a)))) = .ok ⟨D, THI, TLO, D1⟩)
    (hTb : tblDD Dec.Gen.BID_NR_DIGITS (UInt64.ofInt (toI (nbOf (uH b) (uL b)))) = .ok ⟨D', THI', TLO', D1'⟩)
    (sA sB : Bool) (cA cB QA QB EA EB k B av rv : Nat) (hsAB : sA = sB)
    (has : (a.w1 &&& c_MASK_SIGN).toNat = if sA then 2^63 else 0) (hbs : (b.w1 &&& c_MASK_SIGN).toNat = if sB then 2^63 else 0)
    (hac : (uH a).toNat * 2^64 + (uL a).toNat = cA) (hbc : (uH b).toNat * 2^64 + (uL b).toNat = cB)
    (hae : (uE a).toNat = EA * 2^49) (hbe : (uE b).toNat = EB * 2^49)
    (hqa : (qOf D D1 THI TLO (uH a) (uL a)).toInt = QA) (hqb : (qOf D' D1' THI' TLO' (uH b) (uL b)).toInt = QB)
    (hQAd : ndigits cA = QA) (hcA0 : 0 < cA) (hQA1 : 1 ≤ QA) (hQA : QA ≤ 34) (hQB1 : 1 ≤ QB) (hQB : QB ≤ 34)
    (hEA : EA < 12288) (hEle : EB ≤ EA) (hkE : (QA : Int) + EA - EB - 34 = k) (hk1 : 1 ≤ k) (hkQ : k + 1 ≤ QB)
    (hBd : cA * 10 ^ (34 - QA) = B) (hB1 : 10^33 ≤ B) (hB2 : B < 10^34) (hbP : cB < 10^34)
    (hcBe : cB / 10 ^ k = av ∧ cB % 10 ^ k = rv) (hrlt : rv < 10 ^ k)
    :
    bid128_add x y m f = .ok (ofBits (encode (loopA_out m sA B av rv k EB).1), f ||| UInt32.ofNat (loopA_out m sA B av rv k EB).2) := by
  have hEB : EB < 2^14 := by omega
  have hEA' : EA < 2^14 := by omega
  have hdl := delta_toInt _ _ (uE a) (uE b) _ _ _ _ hqa hqb hQA hQB hae hbe hEA' hEB
  have h34 : c_P34.toInt = 34 := by decide
  have hsig : (a.w1 &&& c_MASK_SIGN == b.w1 &&& c_MASK_SIGN) = (sA == sB) := (sign_eq_bools _ _ sA sB has hbs).1
  have hd1 : ¬ decide (deltaOf (qOf D D1 THI TLO (uH a) (uL a)) (qOf D' D1' THI' TLO' (uH b) (uL b)) (uE a) (uE b) ≥ c_P34) = true := by
    rw [i32_ge, hdl, h34]; simp only [decide_eq_true_eq]; omega
  have hd2 : decide (deltaOf (qOf D D1 THI TLO (uH a) (uL a)) (qOf D' D1' THI' TLO' (uH b) (uL b)) (uE a) (uE b) ≥ 0) = true := by
    rw [i32_ge, hdl, show (0 : Int32).toInt = 0 from by decide]; exact decide_eq_true (by omega)
  have hq2s : (c_P34 - 1 - qOf D' D1' THI' TLO' (uH b) (uL b)).toInt = 33 - (QB : Int) := by
    rw [Int32.toInt_sub, hqb, show (c_P34 - 1).toInt = 33 from by decide, bmod32 _ (by omega) (by omega)]
  have hq2t : (c_P34 - qOf D' D1' THI' TLO' (uH b) (uL b)).toInt = 34 - (QB : Int) := by
    rw [Int32.toInt_sub, hqb, h34, bmod32 _ (by omega) (by omega)]
  have hd3 : ¬ decide (deltaOf (qOf D D1 THI TLO (uH a) (uL a)) (qOf D' D1' THI' TLO' (uH b) (uL b)) (uE a) (uE b) ≤ c_P34 - 1 - qOf D' D1' THI' TLO' (uH b) (uL b)) = true := by
    rw [i32_le_lit, hdl, hq2s]; simp only [decide_eq_true_eq]; omega
  have hd4 : ¬ (deltaOf (qOf D D1 THI TLO (uH a) (uL a)) (qOf D' D1' THI' TLO' (uH b) (uL b)) (uE a) (uE b) == c_P34 - qOf D' D1' THI' TLO' (uH b) (uL b)) = true := by
    rw [beq_i32', hdl, hq2t]; simp only [decide_eq_true_eq]; omega
  add_front
  take_neg
  · rw [hq1, hq2, hea, heb]; exact hd1
  take_pos
  · rw [hq1, hq2, hea, heb]; exact hd2
  take_neg
  · rw [hq1, hq2, hea, heb]; exact hd3
  take_neg
  · rw [hq1, hq2, hea, heb]; exact hd4
  rw [← hq1] at hqa
  rw [← hq2] at hqb
  rw [← hal, ← hah] at hac
  rw [← hbl, ← hbh] at hbc
  rw [← hsa] at has
  rw [← hsb] at hbs
  rw [← hsa, ← hsb] at hsig
  rw [← hea] at hae
  rw [← heb] at hbe
  rw [← hq1, ← hq2, ← hea, ← heb] at hdl
  clear hd1 hd2 hd3 hd4 hTa hTb hsp hx0 hy0 hab hq2s hq2t
  clear hq1 hq2 hal hah hbl hbh hsa hsb hea heb
  have htt : true = true := rfl
  have hft : ¬ false = true := Bool.false_ne_true
  extract_lets -underBinder +onlyGivenNames x1 brk0
  have hx1 : x1.toInt = (k : Int) := by
    show (deltaOf q1 q2 ea eb + q2 - c_P34).toInt = _
    rw [Int32.toInt_sub, Int32.toInt_add, hdl, hqb, h34, bmod32 ((QA : Int) + EA - QB - EB + QB) (by omega) (by omega),
      bmod32 _ (by omega) (by omega)]
    omega
  refine Eq.trans (loop_first 4095 _ (fun _ _ _ => rfl) _ _) ?_
  head_zeta_vals
  clean_proj
  klet
  extract_lets -underBinder +onlyGivenNames J
  have hscale : (deltaOf q1 q2 ea eb - q1 + q2 - x1).toInt = ((34 - QA : Nat) : Int) := by
    rw [Int32.toInt_sub, Int32.toInt_add, Int32.toInt_sub, hdl, hqa, hqb, hx1,
      bmod32 ((QA : Int) + EA - QB - EB - QA) (by omega) (by omega),
      bmod32 ((QA : Int) + EA - QB - EB - QA + QB) (by omega) (by omega), bmod32 _ (by omega) (by omega)]
    omega
  generalize hscd : deltaOf q1 q2 ea eb - q1 + q2 - x1 = sc at hscale ⊢
  obtain ⟨P, hP, hK⟩ := scaleK_ok' q1 sc ah al cA QA (34 - QA) hac hqa hscale hQAd.symm hcA0 (by omega)
  kframe (refine Eq.trans (show _ = scaleK q1 sc ah al (fun C1 => J () C1) from by unfold scaleK; rfl) ?_)
  rw [hK]
  have hPB : P.w1.toNat * 2^64 + P.w0.toNat = B := words_of_toNat' P _ (by rw [hP, hBd])
  clear hK hP
  kframe (show J () P = _)
  unfold J
  head_zeta_vals
  klet
  extract_lets -underBinder +onlyGivenNames JT
  kname K hK
  obtain ⟨hz, hnz⟩ := sign_bools sa sA has
  have h1i : (1 : Int32).toInt = 1 := by decide
  have h0i : (0 : Int32).toInt = 0 := by decide
  have hEk : EB + k < 12288 := by omega
  obtain ⟨h, hh⟩ : ∃ h, 10 ^ k / 2 = h := ⟨_, rfl⟩
  have hout : loopA_out m sA B av rv k EB =
      if B + firstR B av rv h < 10 ^ 34 then
        codeTail m sA (B + firstR B av rv h) (((EB + k : Nat) : Int) - 6176) (decide (rv = h ∧ (B + av + 1) % 2 = 0))
          (decide (rv = h ∧ (B + av + 1) % 2 = 1)) (decide (0 < rv ∧ rv < h)) (decide (h < rv)) (decide (rv ≠ 0))
      else
        codeTail m sA (repair35 (B + firstR B av rv h) (decide (rv = h ∧ (B + av + 1) % 2 = 0))
            (decide (rv = h ∧ (B + av + 1) % 2 = 1)) (decide (0 < rv ∧ rv < h)) (decide (h < rv)) (decide (rv ≠ 0))).1
          (((EB + k + 1 : Nat) : Int) - 6176)
          (repair35 (B + firstR B av rv h) (decide (rv = h ∧ (B + av + 1) % 2 = 0))
            (decide (rv = h ∧ (B + av + 1) % 2 = 1)) (decide (0 < rv ∧ rv < h)) (decide (h < rv)) (decide (rv ≠ 0))).2.1
          (repair35 (B + firstR B av rv h) (decide (rv = h ∧ (B + av + 1) % 2 = 0))
            (decide (rv = h ∧ (B + av + 1) % 2 = 1)) (decide (0 < rv ∧ rv < h)) (decide (h < rv)) (decide (rv ≠ 0))).2.2.1
          (repair35 (B + firstR B av rv h) (decide (rv = h ∧ (B + av + 1) % 2 = 0))
            (decide (rv = h ∧ (B + av + 1) % 2 = 1)) (decide (0 < rv ∧ rv < h)) (decide (h < rv)) (decide (rv ≠ 0))).2.2.2.1
          (repair35 (B + firstR B av rv h) (decide (rv = h ∧ (B + av + 1) % 2 = 0))
            (decide (rv = h ∧ (B + av + 1) % 2 = 1)) (decide (0 < rv ∧ rv < h)) (decide (h < rv)) (decide (rv ≠ 0))).2.2.2.2.1
          (repair35 (B + firstR B av rv h) (decide (rv = h ∧ (B + av + 1) % 2 = 0))
            (decide (rv = h ∧ (B + av + 1) % 2 = 1)) (decide (0 < rv ∧ rv < h)) (decide (h < rv)) (decide (rv ≠ 0))).2.2.2.2.2 := by
    unfold loopA_out; rw [hh]
  generalize hRES : (Except.ok (ofBits (encode (loopA_out m sA B av rv k EB).1),
    f ||| UInt32.ofNat (loopA_out m sA B av rv k EB).2) : Except String (U128 × UInt32)) = RESULT
  -- the text after the loop: the correction by the rounding mode, the result
  have keyPost : ∀ (resv : U128) (tsv t64 tA tB : UInt64) (sc xv iv sv : Int32) (tI : Bool) (C1v C2v hfv : U128)
      (Qv Rv : U256) (lte gte ltm gtm spv : Bool) (yev : UInt64) (Q0 Eb : Nat),
      C1v.w1.toNat * 2^64 + C1v.w0.toNat = Q0 → yev.toNat = Eb * 2^49 → Eb ≤ 12288 → 10^33 ≤ Q0 → Q0 < 10^34 →
      (Eb = 12288 → m ≠ .NearestEven ∧ m ≠ .NearestAway) → (Eb = 12288 → Q0 + 1 < 10^34) →
      (Eb + 1 = 12288 → m = .NearestAway → upB (!sA) sA m ltm gte = true → Q0 + 1 < 10^34) → (Q0 = 10^33 → 1 ≤ Eb) →
      K (ForInStep.done (none, f, resv, sa, tsv, yev, t64, tA, tB, sc, xv, iv, sv, tI, C1v, C2v, hfv, Qv, Rv, lte, gte, ltm, gtm,
        spv, true)) = .ok (ofBits (encode (codeTail m sA Q0 ((Eb : Int) - 6176) lte gte ltm gtm tI).1),
          f ||| UInt32.ofNat (codeTail m sA Q0 ((Eb : Int) - 6176) lte gte ltm gtm tI).2) := by
    intro resv tsv t64 tA tB sc xv iv sv tI C1v C2v hfv Qv Rv lte gte ltm gtm spv yev Q0 Eb hv hyx hEb hQ1 hQ2 hEdir hcar hNAc hcr
    subst hK
    head_step
    take_neg
    · exact (by simp : ¬ (!true) = true)
    head_step
    clean_proj
    by_cases hm : (m != RoundingMode.NearestEven) = true
    · have hmne : m ≠ .NearestEven := by simpa using hm
      take_pos
      · exact hm
      extract_lets -underBinder +onlyGivenNames PJ
      have hPJ : ∀ (y hi lo : UInt64) (C' Eb' : Nat), hi.toNat * 2^64 + lo.toNat = C' → y.toNat = Eb' * 2^49 → Eb' ≤ 12288 →
          C' < 10^34 → (Eb' = 12288 → m ≠ .NearestAway) →
          PJ () y hi lo = .ok (ofBits (encode (if ((Eb' : Int) - 6176) > eMax then (overflowResult (md m) sA, fOverflow ||| fInexact)
              else ((.fin sA C' ((Eb' : Int) - 6176) : Datum), if tI then fInexact else 0)).1),
            f ||| UInt32.ofNat (if ((Eb' : Int) - 6176) > eMax then (overflowResult (md m) sA, fOverflow ||| fInexact)
              else ((.fin sA C' ((Eb' : Int) - 6176) : Datum), if tI then fInexact else 0)).2) := by
        intro y hi lo C' Eb' hw hy hEb' hC' hdir
        unfold PJ
        by_cases hov : Eb' = 12288
        · take_pos
          · rw [beq_iff_eq, ← UInt64.toNat_inj, hy, hov]; rfl
          have hE : ((Eb' : Int) - 6176 > eMax) := by unfold eMax; omega
          rw [if_pos hE]
          have hNA := hdir hov
          head_step
          by_cases hd : (m == RoundingMode.Downward && sa != 0 || m == RoundingMode.Upward && sa == 0) = true
          · take_pos
            · exact hd
            sym_exec!
            have hO : overflowResult (md m) sA = .inf sA := by
              rw [hz, hnz] at hd
              cases m <;> cases sA <;> first | rfl | exact absurd rfl hmne | exact absurd rfl hNA | exact absurd hd (by decide)
            show _ = Except.ok (ofBits (encode (overflowResult (md m) sA)), f ||| UInt32.ofNat (fOverflow ||| fInexact))
            rw [hO]
            exact ovf_close sa f tI resv _ _ _ (inf_word sa sA has)
          · take_neg
            · exact hd
            sym_exec!
            have hO : overflowResult (md m) sA = .fin sA (P34 - 1) eMax := by
              rw [hz, hnz] at hd
              cases m <;> cases sA <;> first | rfl | exact absurd rfl hmne | exact absurd rfl hNA | exact absurd rfl hd | (exfalso; exact hd (by decide))
            show _ = Except.ok (ofBits (encode (overflowResult (md m) sA)), f ||| UInt32.ofNat (fOverflow ||| fInexact))
            rw [hO]
            exact ovf_close sa f tI resv _ _ _ (maxfin_word sa sA has)
        · take_neg
          · rw [beq_iff_eq, ← UInt64.toNat_inj, hy]
            show ¬ Eb' * 2^49 = 12288 * 2^49
            omega
          have hE : ¬ ((Eb' : Int) - 6176 > eMax) := by unfold eMax; omega
          rw [if_neg hE]
          sym_exec!
          exact fin_close sa y f tI resv hi lo sA C' Eb' has hy (by omega) hw hC'
      have hNAdir : Eb = 12288 → m ≠ .NearestAway := fun h => (hEdir h).2
      have h128 : (10:Nat)^34 + 1 < 2^128 := by decide
      by_cases hup : upB (!sA) sA m ltm gte = true
      · take_pos
        · exact (show upB (sa == 0) (sa != 0) m ltm gte = true by rw [hz, hnz]; exact hup)
        have hv' := inc_words C1v.w1 C1v.w0 (by rw [hv]; omega)
        rw [hv] at hv'
        head_step
        sym_exec
        gen_args _ hiC
        head_step
        rw [← hhiC] at hv'
        have hcorr : corrCE m sA Q0 ((Eb : Int) - 6176) lte gte ltm gtm =
            if Q0 + 1 = 10 ^ 34 then (10 ^ 33, (Eb : Int) - 6176 + 1) else (Q0 + 1, (Eb : Int) - 6176) := by
          unfold corrCE; rw [if_pos ⟨hmne, hup⟩]
        by_cases hc : Q0 + 1 = 10 ^ 34
        · take_pos
          · rw [eq_words, hv', show (542101086242752 : UInt64).toNat * 2^64 + (4003012203950112768 : UInt64).toNat = 10^34 from by decide]
            exact decide_eq_true hc
          rw [if_pos hc] at hcorr
          have hEb1 : Eb < 12288 := by
            by_contra h; have := hcar (by omega); omega
          have hE' : (Eb : Int) - 6176 + 1 = ((Eb + 1 : Nat) : Int) - 6176 := by push_cast; ring
          rw [codeTail_of m sA Q0 _ lte gte ltm gtm tI _ _ hcorr, hE']
          exact hPJ _ _ _ (10 ^ 33) (Eb + 1) (by decide) (expP1 yev Eb hyx (by omega)) (by omega) (by decide)
            (fun h hna => by have := hNAc h hna hup; omega)
        · take_neg
          · rw [eq_words, hv', show (542101086242752 : UInt64).toNat * 2^64 + (4003012203950112768 : UInt64).toNat = 10^34 from by decide]
            simpa using hc
          rw [if_neg hc] at hcorr
          rw [codeTail_of m sA Q0 _ lte gte ltm gtm tI _ _ hcorr]
          exact hPJ _ _ _ (Q0 + 1) Eb hv' hyx hEb (by omega) hNAdir
      · take_neg
        · exact (show ¬ upB (sa == 0) (sa != 0) m ltm gte = true by rw [hz, hnz]; exact hup)
        have hup' : upB (!sA) sA m ltm gte = false := by simpa using hup
        head_step
        by_cases hdn : dnB (!sA) sA m lte gtm = true
        · take_pos
          · exact (show dnB (sa == 0) (sa != 0) m lte gtm = true by rw [hz, hnz]; exact hdn)
          have hv' := dec_words C1v.w1 C1v.w0 (by rw [hv]; omega)
          rw [hv] at hv'
          head_step
          sym_exec
          gen_args _ hiC
          head_step
          rw [← hhiC] at hv'
          have hcorr : corrCE m sA Q0 ((Eb : Int) - 6176) lte gte ltm gtm =
              if Q0 - 1 = 10 ^ 33 - 1 then (10 ^ 34 - 1, (Eb : Int) - 6176 - 1) else (Q0 - 1, (Eb : Int) - 6176) := by
            unfold corrCE; rw [if_neg (fun h => hup h.2), if_pos ⟨hmne, hdn⟩]
          by_cases hc : Q0 - 1 = 10 ^ 33 - 1
          · take_pos
            · rw [eq_words, hv', show (54210108624275 : UInt64).toNat * 2^64 + (4089650035136921599 : UInt64).toNat = 10^33 - 1 from by decide]
              exact decide_eq_true hc
            rw [if_pos hc] at hcorr
            have hEb0 : 1 ≤ Eb := hcr (by omega)
            have hE' : (Eb : Int) - 6176 - 1 = ((Eb - 1 : Nat) : Int) - 6176 := by omega
            have hy' : (yev - c_EXP_P1).toNat = (Eb - 1) * 2^49 := by
              have e49 : c_EXP_P1.toNat = 2^49 := rfl
              rw [UInt64.toNat_sub_of_le _ _ (by rw [UInt64.le_iff_toNat_le, hyx, e49]; omega), hyx, e49]
              omega
            rw [codeTail_of m sA Q0 _ lte gte ltm gtm tI _ _ hcorr, hE']
            exact hPJ _ _ _ (10 ^ 34 - 1) (Eb - 1) (by decide) hy' (by omega) (by decide) (fun h => by omega)
          · take_neg
            · rw [eq_words, hv', show (54210108624275 : UInt64).toNat * 2^64 + (4089650035136921599 : UInt64).toNat = 10^33 - 1 from by decide]
              simpa using hc
            rw [if_neg hc] at hcorr
            rw [codeTail_of m sA Q0 _ lte gte ltm gtm tI _ _ hcorr]
            exact hPJ _ _ _ (Q0 - 1) Eb hv' hyx hEb (by omega) hNAdir
        · take_neg
          · exact (show ¬ dnB (sa == 0) (sa != 0) m lte gtm = true by rw [hz, hnz]; exact hdn)
          have hcorr : corrCE m sA Q0 ((Eb : Int) - 6176) lte gte ltm gtm = (Q0, (Eb : Int) - 6176) := by
            unfold corrCE; rw [if_neg (fun h => hup h.2), if_neg (fun h => hdn h.2)]
          rw [codeTail_of m sA Q0 _ lte gte ltm gtm tI _ _ hcorr]
          exact hPJ _ _ _ Q0 Eb hv hyx hEb hQ2 hNAdir
    · have hme : m = .NearestEven := by
        cases m <;> first | rfl | exact absurd rfl hm
      take_neg
      · exact hm
      sym_exec!
      have hEb1 : Eb < 12288 := by
        by_contra h; exact (hEdir (by omega)).1 hme
      have hcorr : corrCE m sA Q0 ((Eb : Int) - 6176) lte gte ltm gtm = (Q0, (Eb : Int) - 6176) := by
        unfold corrCE; rw [if_neg (fun h => h.1 hme), if_neg (fun h => h.1 hme)]
      rw [codeTail_eq m sA Q0 _ lte gte ltm gtm tI _ _ hcorr (by unfold eMax; omega)]
      exact fin_close sa yev f tI resv _ _ sA Q0 Eb has hyx hEb1 hv hQ2
  -- the end of the turn and the text after the loop
  have hav : av < 10^34 := by rw [← hcBe.1]; exact lt_of_le_of_lt (Nat.div_le_self _ _) hbP
  have keyT : ∀ (tA tB : UInt64) (shv : Int32) (tI : Bool) (C2v hfv : U128) (R : U256) (lte gte ltm gtm : Bool) (Rf : Nat),
      R.w3.toNat * 2^64 + R.w2.toNat = Rf → Rf = firstR B av rv h → tI = decide (rv ≠ 0) →
      lte = decide (rv = h ∧ (B + av + 1) % 2 = 0) → gte = decide (rv = h ∧ (B + av + 1) % 2 = 1) →
      ltm = decide (0 < rv ∧ rv < h) → gtm = decide (h < rv) →
      (JT () tA tB shv tI C2v hfv R lte gte ltm gtm >>= K) = RESULT := by
    intro tA tB shv tI C2v hfv R lte gte ltm gtm Rf hR hRfe htI hlte hgte hltm hgtm
    have hRf : Rf ≤ av + 1 := by rw [hRfe]; unfold firstR; split <;> (try split) <;> omega
    have hRf0 : av ≤ Rf := by rw [hRfe]; unfold firstR; split <;> (try split) <;> omega
    unfold JT
    have h128 : (10:Nat)^34 + 10^34 + 10 < 2^128 := by decide
    have hsS : (sa == sb) = true := by rw [hsig, hsAB]; simp
    kframe take_pos
    · exact hsS
    kframe sym_exec
    kgen_args _ C1s
    replace hC1s : C1s = if decide (P.w0 + R.w2 < P.w0) = true then ⟨P.w0 + R.w2, P.w1 + R.w3 + 1⟩
        else ⟨P.w0 + R.w2, P.w1 + R.w3⟩ := hC1s
    have hv : C1s.w1.toNat * 2^64 + C1s.w0.toNat = B + Rf := by
      have h := sum_words P.w1 P.w0 R.w3 R.w2 (by rw [hPB, hR]; omega)
      unfold sumHi at h
      rw [hPB, hR] at h
      rw [hC1s]
      by_cases c : decide (P.w0 + R.w2 < P.w0) = true
      · rw [if_pos c] at h ⊢; exact h
      · rw [if_neg c] at h ⊢; exact h
    clear hC1s
    kframe head_step
    by_cases hbig : 10^34 ≤ B + Rf
    · kframe take_pos
      · show bigTest C1s.w1 C1s.w0 = true
        rw [bigTest_eq, hv]; exact decide_eq_true hbig
      kframe head_step
      kframe sym_exec
      kgen_args _ C5
      replace hC5 : C5 = if decide (C1s.w0 ≥ 18446744073709551611) = true then ⟨C1s.w0 + 5, C1s.w1 + 1⟩
          else ⟨C1s.w0 + 5, C1s.w1⟩ := hC5
      have hv5 : C5.w1.toNat * 2^64 + C5.w0.toNat = B + Rf + 5 := by
        have h := plus5_words C1s.w1 C1s.w0 (by rw [hv]; omega)
        rw [hv] at h
        rw [hC5]
        by_cases c : decide (C1s.w0 ≥ 18446744073709551611) = true
        · rw [if_pos c] at h ⊢; exact h
        · rw [if_neg c] at h ⊢; exact h
      clear hC5
      have hTK : tbl128 Gen.BID_TEN2MK128 (UInt64.ofInt (toI 0)) = .ok ⟨11068046444225730970, 1844674407370955161⟩ := by decide
      have hTR : tbl128 Gen.BID_TEN2MK128TRUNC (UInt64.ofInt (toI 0)) = .ok ⟨11068046444225730969, 1844674407370955161⟩ := by decide
      kframe head_step
      kframe take_call hTK
      obtain ⟨Q, hQm, hQv⟩ := Dec.C01GenArith.gen_mul_128x128_to_256 C5 ⟨11068046444225730970, 1844674407370955161⟩
      kframe take_call hQm
      have hmidE : (if (Q.w1 != 0 || Q.w0 != 0) = true then do
            let t1 ← tbl128 Gen.BID_TEN2MK128TRUNC (UInt64.ofInt (toI 0))
            if decide (Q.w1 < t1.w1) = true then pure true
              else do
                let t2 ← tbl128 Gen.BID_TEN2MK128TRUNC (UInt64.ofInt (toI 0))
                if (Q.w1 == t2.w1) = true then do
                    let t3 ← tbl128 Gen.BID_TEN2MK128TRUNC (UInt64.ofInt (toI 0))
                    pure (decide (Q.w0 ≤ t3.w0))
                  else pure false
          else pure false : Except String Bool) = .ok (midT Q) := by
        unfold midT
        rw [hTR]
        cases h1 : (Q.w1 != 0 || Q.w0 != 0) <;> cases h2 : decide (Q.w1 < 1844674407370955161) <;>
          cases h3 : (Q.w1 == 1844674407370955161) <;> simp [h1, h2, h3, bind, Except.bind, pure, Except.pure]
      kframe head_step
      kframe take_call hmidE
      klet
      extract_lets -underBinder +onlyGivenNames JE
      have hx1p : (x1 + 1).toInt = ((k + 1 : Nat) : Int) := by
        rw [Int32.toInt_add, hx1, h1i, bmod32 _ (by omega) (by omega)]; push_cast; ring
      have hS2 : B + Rf < 2 * 10^34 := by omega
      have keyEnd : ∀ (ti' : Bool) (Q' : U256) (lte' gte' ltm' gtm' : Bool) (Qn : Nat),
          Q'.w3.toNat * 2^64 + Q'.w2.toNat = Qn →
          repair35 (B + Rf) lte gte ltm gtm tI = (Qn, lte', gte', ltm', gtm', ti') →
          (JE () ti' Q' lte' gte' ltm' gtm' >>= K) = RESULT := by
        intro ti' Q' lte' gte' ltm' gtm' Qn hQ' hrep
        unfold JE
        kframe head_step
        have hyx1 := exp_plus eb (x1 + 1) EB (k + 1) hbe hx1p (by omega)
        obtain ⟨hQr1, hQr2⟩ := repair35_range (B + Rf) lte gte ltm gtm tI hbig hS2
        rw [hrep] at hQr1 hQr2
        have hge : ¬ B + firstR B av rv h < 10 ^ 34 := by rw [← hRfe]; omega
        by_cases hex : EB + (k + 1) = 12288 ∧ (m = .NearestEven ∨ m = .NearestAway)
        · kframe take_pos
          · rw [Bool.and_eq_true]
            constructor
            · rw [beq_iff_eq, ← UInt64.toNat_inj, hyx1, hex.1]; rfl
            · rcases hex.2 with rfl | rfl <;> rfl
          kframe head_step
          sym_exec
          subst hK
          head_step
          rw [← hRES, hout, if_neg hge, codeTail_near_ovf _ _ _ _ _ _ _ _ _ (by push_cast; unfold eMax; omega) hex.2, flags_io]
          refine congrArg (fun r => Except.ok (r, _)) ?_
          rw [← inf_word' sa sA has, UInt64.or_comm]
        · kframe take_neg
          · intro hc
            rw [Bool.and_eq_true, beq_iff_eq, ← UInt64.toNat_inj, hyx1] at hc
            apply hex
            refine ⟨?_, ?_⟩
            · have := hc.1
              rw [show c_EXP_MAX_P1.toNat = 12288 * 2^49 from rfl] at this
              omega
            · have := hc.2
              cases m <;> simp at this ⊢
          kframe head_step
          sym_exec
          rw [← hRES, hout, if_neg hge, ← hRfe, ← hlte, ← hgte, ← hltm, ← hgtm, ← htI, hrep]
          dsimp only
          refine keyPost _ _ _ _ _ _ _ _ _ ti' _ _ _ _ _ lte' gte' ltm' gtm' _ _ Qn (EB + k + 1) hQ'
            (by rw [hyx1, Nat.add_assoc]) (by omega) hQr1 (by omega)
            (fun he => ⟨fun h1 => hex ⟨by omega, Or.inl h1⟩, fun h1 => hex ⟨by omega, Or.inr h1⟩⟩)
            (fun _ => hQr2) (fun _ _ _ => hQr2) (fun _ => by omega)
      have hT5 : B + Rf + 5 < 2^116 := by omega
      have hK4 : (⟨11068046444225730970, 1844674407370955161⟩ : U128).toNat' = K4 := by decide
      have hC5n : C5.toNat' = B + Rf + 5 := by unfold Rs.U128.toNat'; omega
      obtain ⟨hQq, hQf⟩ := prod_words4 Q (B + Rf + 5) (by rw [hQv, hK4, hC5n]) hT5
      have hdm := Nat.div_add_mod (B + Rf + 5) 10
      have hrlt10 := Nat.mod_lt (B + Rf + 5) (show 10 > 0 by decide)
      generalize hqd : (B + Rf + 5) / 10 = q at hQq hQf hdm
      generalize hrd : (B + Rf + 5) % 10 = r at hQf hdm hrlt10
      have hq1 : 10^33 ≤ q := by omega
      have hq2 : q < 2^111 := by omega
      have hmid := midT4_eq Q q r hQq hQf hrlt10 hq1 hq2
      have hodd := oddT4_eq Q q r hQq hQf hrlt10 hq1 hq2
      have hhalf := halfT4_eq Q q r hQq hQf hrlt10 hq1 hq2
      by_cases hr0 : r = 0
      · kframe take_pos
        · rw [hmid]; exact decide_eq_true hr0
        kframe head_step
        cases hl : ltm
        · kframe take_neg
          · exact Bool.false_ne_true
          kframe head_step
          cases hg : gtm
          · kframe take_neg
            · exact Bool.false_ne_true
            kframe head_step
            cases hge' : gte
            · kframe take_neg
              · exact Bool.false_ne_true
              kframe head_step
              by_cases hqo : q % 2 = 1
              · kframe take_pos
                · exact (show oddT Q = true by rw [hodd]; exact decide_eq_true hqo)
                kframe sym_exec
                kgen_args _ Qd
                have hQdv : Qd.w3.toNat * 2^64 + Qd.w2.toNat = q - 1 := by rw [hQd]; exact decQ Q q hQq (by omega)
                kframe head_step
                exact keyEnd true Qd false true false false (q - 1) hQdv (by simp [repair35, hrd, hqd, hr0, hl, hg, hge', hqo])
              · kframe take_neg
                · exact (show ¬ oddT Q = true by rw [hodd]; simpa using hqo)
                kframe head_step
                exact keyEnd true Q true false false false q hQq (by simp [repair35, hrd, hqd, hr0, hl, hg, hge', hqo])
            · kframe take_pos
              · rfl
              kframe head_step
              exact keyEnd true Q false false true false q hQq (by simp [repair35, hrd, hqd, hr0, hl, hg, hge'])
          · kframe take_pos
            · rfl
            kframe sym_exec
            kgen_args _ Qd
            have hQdv : Qd.w3.toNat * 2^64 + Qd.w2.toNat = q - 1 := by rw [hQd]; exact decQ Q q hQq (by omega)
            kframe head_step
            exact keyEnd true Qd false false true false (q - 1) hQdv (by simp [repair35, hrd, hqd, hr0, hl, hg])
        · kframe take_pos
          · rfl
          kframe head_step
          exact keyEnd true Q false false false true q hQq (by simp [repair35, hrd, hqd, hr0, hl])
      · kframe take_neg
        · rw [hmid]; simpa using hr0
        kframe head_step
        by_cases h5 : 5 ≤ r
        · kframe take_pos
          · exact (show halfT Q = true by rw [hhalf]; exact decide_eq_true h5)
          kframe head_step
          kframe take_call hTR
          have htmpE : (if decide (Q.w1 - 9223372036854775808 > 1844674407370955161) = true then pure true
              else do
                let t2 ← tbl128 Gen.BID_TEN2MK128TRUNC (UInt64.ofInt (toI 0))
                if (Q.w1 - 9223372036854775808 == t2.w1) = true then do
                    let t3 ← tbl128 Gen.BID_TEN2MK128TRUNC (UInt64.ofInt (toI 0))
                    pure (decide (Q.w0 > t3.w0))
                  else pure false : Except String Bool) = .ok (tmpS Q) := by
            unfold tmpS
            rw [hTR]
            cases h2 : decide (Q.w1 - 9223372036854775808 > 1844674407370955161) <;>
              cases h3 : (Q.w1 - 9223372036854775808 == 1844674407370955161) <;>
              simp [h2, h3, bind, Except.bind, pure, Except.pure]
          have htmp := tmpS_eq Q q r hQq hQf hrlt10 hq1 hq2 h5
          kframe head_step
          kframe take_call htmpE
          have hQq2 : ({ w0 := Q.w0, w1 := Q.w1 - 9223372036854775808, w2 := Q.w2, w3 := Q.w3 } : U256).w3.toNat * 2^64 +
              ({ w0 := Q.w0, w1 := Q.w1 - 9223372036854775808, w2 := Q.w2, w3 := Q.w3 } : U256).w2.toNat = q := hQq
          by_cases h6 : 6 ≤ r
          · kframe take_pos
            · rw [htmp]; exact decide_eq_true h6
            kframe head_step
            exact keyEnd true _ false false true false q hQq2 (by simp [repair35, hrd, hqd, hr0, h5, h6])
          · kframe take_neg
            · rw [htmp]; simpa using h6
            kframe head_step
            cases hti' : tI
            · kframe take_neg
              · exact Bool.false_ne_true
              exact keyEnd false _ lte gte ltm gtm q hQq2 (by simp [repair35, hrd, hqd, hr0, h5, h6, hti'])
            · kframe take_pos
              · rfl
              kframe head_step
              cases hle' : lte
              · kframe take_neg
                · exact Bool.false_ne_true
                kframe head_step
                cases hge' : gte
                · kframe take_neg
                  · exact Bool.false_ne_true
                  exact keyEnd true _ false false ltm gtm q hQq2 (by simp [repair35, hrd, hqd, hr0, h5, h6, hti', hle', hge'])
                · kframe take_pos
                  · rfl
                  kframe head_step
                  exact keyEnd true _ false false true gtm q hQq2 (by simp [repair35, hrd, hqd, hr0, h5, h6, hti', hle', hge'])
              · kframe take_pos
                · rfl
                kframe head_step
                exact keyEnd true _ false gte ltm true q hQq2 (by simp [repair35, hrd, hqd, hr0, h5, h6, hti', hle'])
        · kframe take_neg
          · exact (show ¬ halfT Q = true by rw [hhalf]; simpa using h5)
          kframe head_step
          exact keyEnd true Q false false false true q hQq (by simp [repair35, hrd, hqd, hr0, h5])
    · kframe take_neg
      · show ¬ bigTest C1s.w1 C1s.w0 = true
        rw [bigTest_eq, hv]; simp only [decide_eq_true_eq]; omega
      kframe head_step
      have hyx := exp_plus eb x1 EB k hbe hx1 (by omega)
      kframe take_neg
      · intro h
        rw [Bool.and_eq_true, beq_iff_eq] at h
        have := congrArg UInt64.toNat h.1
        rw [hyx, show c_EXP_MAX_P1.toNat = 12288 * 2^49 from rfl] at this
        omega
      kframe head_step
      sym_exec
      have hlt : B + firstR B av rv h < 10 ^ 34 := by rw [← hRfe]; omega
      rw [← hRES, hout, if_pos hlt, ← hRfe, ← hlte, ← hgte, ← hltm, ← hgtm, ← htI]
      refine keyPost _ _ _ _ _ _ _ _ _ tI C1s _ _ _ _ lte gte ltm gtm _ _ (B + Rf) (EB + k) hv hyx (by omega) (by omega) (by omega)
        (fun h => by omega) (fun h => by omega) ?_ (fun _ => by omega)
      intro _ hna hupB
      subst hna
      have hg : gte = true := by
        unfold upB at hupB
        cases sA <;> simpa using hupB
      rw [hgte, decide_eq_true_eq] at hg
      have : Rf = av := by
        rw [hRfe]; unfold firstR
        rw [if_neg (by omega), if_pos hg]
      omega
  -- `QB ≥ 2`: the second coefficient is rounded to its leading digit by the reciprocal block
  have hxi : (x1 - 1).toInt = ((k - 1 : Nat) : Int) := by
    skip
    rw [Int32.toInt_sub, hx1, h1i, bmod32 _ (by omega) (by omega)]; omega
  have hcB34 : bh.toNat * 2^64 + bl.toNat < 10^34 := by rw [hbc]; exact hbP
  obtain ⟨m64, m128, KT, tr, mask0, oh0, sh0, hM64, hM128, hKT, hTR, hMK, hSH, hOH, hspec⟩ := H bh bl (k - 1) (by omega) hcB34
  obtain ⟨mask, sh, oh, hMK', hSH', hOH'⟩ := tabs_get (k - 1) (by omega)
  have e3 : 3 ≤ k - 1 → mask0 = mask ∧ sh0 = sh ∧ oh0 = oh := fun h3 =>
    ⟨Except.ok.inj ((hMK h3).symm.trans hMK'), Except.ok.inj ((hSH h3).symm.trans hSH'), Except.ok.inj ((hOH h3).symm.trans hOH')⟩
  rw [← idx_i32 (x1 - 1) (k - 1) hxi] at hM64 hKT hTR hMK' hSH' hOH'
  rw [hbc, show k - 1 + 1 = k from by omega, hcBe.1, hcBe.2] at hspec
  have hD := pow10_even k hk1
  rw [hh] at hspec hD
  clear hMK hSH hOH
  have hge : decide (x1 - 1 ≥ 0) = true := by
    rw [i32_ge, hxi, h0i]; exact decide_eq_true (by omega)
  kframe take_pos
  · exact hge
  have hspec' : ∀ R : U256, R.toNat' = (rbC2 (k - 1) bh bl m64 m128).toNat' * KT.toNat' →
      ((rbQ (k - 1) R sh).2.toNat * 2^64 + (rbQ (k - 1) R sh).1.toNat = if rv < h then av else av + 1) ∧
      rbGtHalf (k - 1) R (rbHf (k - 1) R mask) oh = decide (rv < h) ∧
      (rv < h → rbGtT (k - 1) R (rbHf (k - 1) R mask) oh tr = decide (0 < rv)) ∧
      rbMid R (rbHf (k - 1) R mask) tr = decide (rv = h) := by
    by_cases h3 : 3 ≤ k - 1
    · obtain ⟨rfl, rfl, rfl⟩ := e3 h3; exact hspec
    · intro R hR
      have hs := hspec R hR
      have e1 : rbQ (k - 1) R sh0 = rbQ (k - 1) R sh := by unfold rbQ; rw [if_neg h3, if_neg h3]
      have e2 : rbHf (k - 1) R mask0 = rbHf (k - 1) R mask := by
        unfold rbHf; rw [if_pos (show k - 1 ≤ 2 by omega), if_pos (show k - 1 ≤ 2 by omega)]
      have e4 : ∀ hfv, rbGtHalf (k - 1) R hfv oh0 = rbGtHalf (k - 1) R hfv oh := by
        intro hfv; unfold rbGtHalf; rw [if_pos (show k - 1 ≤ 2 by omega), if_pos (show k - 1 ≤ 2 by omega)]
      have e5 : ∀ hfv, rbGtT (k - 1) R hfv oh0 tr = rbGtT (k - 1) R hfv oh tr := by
        intro hfv; unfold rbGtT; rw [if_pos (show k - 1 ≤ 2 by omega), if_pos (show k - 1 ≤ 2 by omega)]
      rw [e1, e2, e4, e5] at hs
      exact hs
  clear hspec e3
  rw [← hD] at hrlt
  have c2 : decide (x1 - 1 ≤ 2) = decide (k - 1 ≤ 2) := by
    rw [i32_le_lit, hxi, show (2 : Int32).toInt = 2 from by decide, decide_eq_decide]; omega
  have c21 : decide (x1 - 1 ≤ 21) = decide (k - 1 ≤ 21) := by
    rw [i32_le_lit, hxi, show (21 : Int32).toInt = 21 from by decide, decide_eq_decide]; omega
  have c18 : decide (x1 - 1 ≤ 18) = decide (k - 1 ≤ 18) := by
    rw [i32_le_lit, hxi, show (18 : Int32).toInt = 18 from by decide, decide_eq_decide]; omega
  have c3 : decide (x1 - 1 ≥ 3) = decide (3 ≤ k - 1) := by
    rw [i32_ge, hxi, show (3 : Int32).toInt = 3 from by decide, decide_eq_decide]; omega
  klet
  extract_lets -underBinder +onlyGivenNames c2a c2b J1
  have key1 : ∀ C2' : U128, C2' = rbC2 (k - 1) bh bl m64 m128 →
      (J1 () C2' >>= K) = RESULT := by
    intro C2' hC2'
    obtain ⟨RR, hMul, hRR⟩ := C01GenArith.gen_mul_128x128_to_256 C2' KT
    rw [hC2'] at hRR
    obtain ⟨sQ, sG, sT, sM⟩ := hspec' RR hRR
    clear hspec' hRR
    unfold J1
    kframe head_step
    kframe sym_exec
    kgen_args _ hf
    kframe head_step
    kframe sym_exec
    kgen_args _ shv R2
    have eR0 : R2.w0 = RR.w0 := by
      rw [hR2]; split
      · split <;> rfl
      · rfl
    have eR1 : R2.w1 = RR.w1 := by
      rw [hR2]; split
      · split <;> rfl
      · rfl
    have eQ : (R2.w2, R2.w3) = rbQ (k - 1) RR sh := by
      rw [hR2, c3]; unfold rbQ
      by_cases h3 : 3 ≤ k - 1
      · rw [if_pos (decide_eq_true h3), if_pos h3]
        by_cases h64 : decide (sh < 64) = true
        · rw [if_pos h64, if_pos h64]
        · rw [if_neg h64, if_neg h64]
      · rw [if_neg (by simpa using h3), if_neg h3]
    have eHf : hf = rbHf (k - 1) RR mask := by
      rw [hhf, c2, c21]; unfold rbHf
      by_cases h2 : k - 1 ≤ 2
      · rw [if_pos (decide_eq_true h2), if_pos h2]
      · rw [if_neg (by simpa using h2), if_neg h2]
        by_cases h21 : k - 1 ≤ 21
        · rw [if_pos (decide_eq_true h21), if_pos h21]
        · rw [if_neg (by simpa using h21), if_neg h21]
    rw [← eHf] at sG sT sM
    have eQ2 : R2.w3.toNat * 2^64 + R2.w2.toNat = if rv < h then av else av + 1 := by
      rw [← sQ, ← eQ]
    clear hhf hR2 hshv sQ
    kframe head_beta
    klet
    extract_lets -underBinder +onlyGivenNames J3
    kframe take_neg
    · exact hft
    unfold J3
    kframe head_beta
    klet
    extract_lets -underBinder +onlyGivenNames J2
    have hh1 : 1 ≤ h := by
      have : 0 < 10 ^ k := Nat.pow_pos (by decide)
      omega
    have key2 : ∀ (tA tB : UInt64) (tI ltm0 gtm0 : Bool), tI = decide (rv ≠ 0) →
        ltm0 = (if (sa == sb) = true then decide (0 < rv ∧ rv < h) else decide (¬ rv < h)) →
        gtm0 = (if (sa == sb) = true then decide (¬ rv < h) else decide (0 < rv ∧ rv < h)) →
        (J2 () tA tB tI ltm0 gtm0 >>= K) = RESULT := by
      intro tA tB tI ltm0 gtm0 htI hltm0 hgtm0
      unfold J2
      kframe head_step
      kframe sym_exec
      unfold rbMid at sM
      have hparG : ¬ rv < h → (P.w0 + R2.w2 &&& 1 == 1) = decide ((B + av + 1) % 2 = 1) := by
        intro hnlt
        have e2 := eQ2
        rw [if_neg hnlt] at e2
        rw [(parity_word 0 (P.w0 + R2.w2)).1, decide_eq_decide]
        show (0 * 2^64 + (P.w0 + R2.w2).toNat) % 2 = 1 ↔ _
        rw [UInt64.toNat_add]
        omega
      by_cases hs : sA = sB
      · have hsS : (sa == sb) = true := by rw [hsig, hs]; simp
        rw [if_pos hsS] at hltm0 hgtm0
        have keyTs : ∀ (R : U256) (lte gte ltm gtm : Bool) (Rf : Nat), R.w3.toNat * 2^64 + R.w2.toNat = Rf → Rf ≤ av + 1 →
            lte = decide (rv = h ∧ (B + av + 1) % 2 = 0) → gte = decide (rv = h ∧ (B + av + 1) % 2 = 1) →
            ltm = decide (0 < rv ∧ rv < h) → gtm = decide (h < rv) →
            Rf = (if rv < h then av else if rv = h ∧ (B + av + 1) % 2 = 1 then av else av + 1) →
            (JT () tA tB shv tI C2' hf R lte gte ltm gtm >>= K) =
              RESULT := by
          intro R lte gte ltm gtm Rf hR hRf hlte hgte hltm hgtm hRfe
          exact keyT tA tB shv tI C2' hf R lte gte ltm gtm Rf hR (by rw [hRfe]; rfl) htI hlte hgte hltm hgtm
        khead_cases hM
        · kframe take_pos
          · exact hM
          rw [mid_glue, eR1, eR0, sM, decide_eq_true_eq] at hM
          have hnlt : ¬ rv < h := by omega
          have hpar := hparG hnlt
          rw [if_neg hnlt] at eQ2
          by_cases hodd : (B + av + 1) % 2 = 1
          · kframe take_pos
            · rw [hpar]; exact decide_eq_true hodd
            kframe sym_exec
            kgen_args _ Rd
            replace hRd : Rd = if (R2.w2 - 1 == 18446744073709551615) = true then ⟨R2.w0, R2.w1, R2.w2 - 1, R2.w3 - 1⟩
                else ⟨R2.w0, R2.w1, R2.w2 - 1, R2.w3⟩ := hRd
            have hRdv : Rd.w3.toNat * 2^64 + Rd.w2.toNat = av := by
              have hd := dec_words R2.w3 R2.w2 (by rw [eQ2]; omega)
              rw [eQ2, Nat.add_sub_cancel] at hd
              rw [hRd]
              by_cases c : (R2.w2 - 1 == 18446744073709551615) = true
              · rw [if_pos c] at hd ⊢; exact hd
              · rw [if_neg c] at hd ⊢; exact hd
            kframe head_step
            kframe take_pos
            · exact hsS
            kframe head_zeta
            exact keyTs Rd false true false false av hRdv (by omega)
              (decide_eq_false (fun hh => by have := hh.2; omega)).symm (decide_eq_true ⟨hM, hodd⟩).symm
              (decide_eq_false (by omega)).symm (decide_eq_false (by omega)).symm
              (by rw [if_neg hnlt, if_pos ⟨hM, hodd⟩])
          · kframe take_neg
            · rw [hpar]; simpa using hodd
            kframe sym_exec
            kframe head_zeta
            exact keyTs R2 _ _ false false (av + 1) eQ2 (by omega)
              (by rw [if_pos hsS]; exact (decide_eq_true ⟨hM, by omega⟩).symm)
              (by rw [if_pos hsS]; exact (decide_eq_false (fun hh => hodd hh.2)).symm)
              (decide_eq_false (by omega)).symm (decide_eq_false (by omega)).symm
              (by rw [if_neg hnlt, if_neg (fun hh => hodd hh.2)])
        · kframe take_neg
          · exact hM
          rw [mid_glue, eR1, eR0, sM, decide_eq_true_eq] at hM
          exact keyTs R2 false false ltm0 gtm0 _ eQ2 (by split <;> omega)
            (decide_eq_false (fun hh => hM hh.1)).symm (decide_eq_false (fun hh => hM hh.1)).symm
            hltm0 (by rw [hgtm0, decide_eq_decide]; omega)
            (by by_cases c : rv < h
                · rw [if_pos c, if_pos c]
                · rw [if_neg c, if_neg c, if_neg (fun hh => hM hh.1)])
      · exact absurd hsAB hs
    have hRHS : True := trivial
    have leafG : ∀ (Texp : Bool) (tA tB : UInt64), rv < h → Texp = decide (0 < rv) →
        ((if Texp = true then
            (if (sa == sb) = true then J2 () tA tB true true false else J2 () tA tB true false true)
          else J2 () tA tB false false false) >>= K)
          = RESULT := by
      intro Texp tA tB hlt hTe
      by_cases r0 : 0 < rv
      · rw [hTe, if_pos (decide_eq_true r0)]
        by_cases hS : (sa == sb) = true
        · rw [if_pos hS]
          exact key2 tA tB true true false (decide_eq_true (by omega)).symm
            (by rw [if_pos hS]; exact (decide_eq_true ⟨r0, hlt⟩).symm)
            (by rw [if_pos hS]; exact (decide_eq_false (not_not.2 hlt)).symm)
        · rw [if_neg hS]
          exact key2 tA tB true false true (decide_eq_true (by omega)).symm
            (by rw [if_neg hS]; exact (decide_eq_false (not_not.2 hlt)).symm)
            (by rw [if_neg hS]; exact (decide_eq_true ⟨r0, hlt⟩).symm)
      · rw [hTe, if_neg (by simpa using r0)]
        exact key2 tA tB false false false (decide_eq_false (by omega)).symm
          (by split
              · exact (decide_eq_false (fun hh => r0 hh.1)).symm
              · exact (decide_eq_false (not_not.2 hlt)).symm)
          (by split
              · exact (decide_eq_false (not_not.2 hlt)).symm
              · exact (decide_eq_false (fun hh => r0 hh.1)).symm)
    have leafL : ∀ (tA tB : UInt64), ¬ rv < h →
        ((if (sa == sb) = true then J2 () tA tB true false true else J2 () tA tB true true false) >>= K)
          = RESULT := by
      intro tA tB hlt
      by_cases hS : (sa == sb) = true
      · rw [if_pos hS]
        exact key2 tA tB true false true (decide_eq_true (by omega)).symm
          (by rw [if_pos hS]; exact (decide_eq_false (fun hh => hlt hh.2)).symm)
          (by rw [if_pos hS]; exact (decide_eq_true hlt).symm)
      · rw [if_neg hS]
        exact key2 tA tB true true false (decide_eq_true (by omega)).symm
          (by rw [if_neg hS]; exact (decide_eq_true hlt).symm)
          (by rw [if_neg hS]; exact (decide_eq_false (fun hh => hlt hh.2)).symm)
    clear key2
    unfold rbGtHalf at sG
    unfold rbGtT at sT
    by_cases h2 : k - 1 ≤ 2
    · have hr1 : decide (x1 - 1 ≤ 2) = true := by rw [c2]; exact decide_eq_true h2
      rw [if_pos h2] at sG sT
      rw [← eR1, ← eR0] at sG sT
      kframe take_pos
      · exact hr1
      khead_cases hG
      · kframe take_pos
        · exact hG
        rw [sG, decide_eq_true_eq] at hG
        have sT' := sT hG
        kframe sym_exec
        refine leafG _ (R2.w1 - 9223372036854775808) default hG ?_
        rw [or_glue]; exact sT'
      · kframe take_neg
        · exact hG
        rw [sG, decide_eq_true_eq] at hG
        kframe sym_exec
        exact leafL default default hG
    have hr1 : ¬ decide (x1 - 1 ≤ 2) = true := by rw [c2]; simpa using h2
    rw [if_neg h2] at sG sT
    kframe take_neg
    · exact hr1
    by_cases h21 : k - 1 ≤ 21
    · have hr2 : decide (x1 - 1 ≤ 21) = true := by rw [c21]; exact decide_eq_true h21
      rw [if_pos h21] at sG sT
      rw [← eR1, ← eR0] at sG sT
      kframe take_pos
      · exact hr2
      kframe sym_exec
      khead_cases hG
      · kframe take_pos
        · exact hG
        rw [g2_glue, sG, decide_eq_true_eq] at hG
        kframe sym_exec
        kframe head_step
        kframe sym_exec
        refine leafG _ (hf.w0 - oh) (if decide (hf.w0 - oh > hf.w0) = true then hf.w1 - 1 else hf.w1) hG ?_
        rw [t2_glue]; exact sT hG
      · kframe take_neg
        · exact hG
        rw [g2_glue, sG, decide_eq_true_eq] at hG
        kframe sym_exec
        exact leafL default default hG
    · have hr2 : ¬ decide (x1 - 1 ≤ 21) = true := by rw [c21]; simpa using h21
      rw [if_neg h21] at sG sT
      rw [← eR1, ← eR0] at sG sT
      kframe take_neg
      · exact hr2
      kframe sym_exec
      khead_cases hG
      · kframe take_pos
        · exact hG
        rw [or1_glue, sG, decide_eq_true_eq] at hG
        kframe sym_exec
        refine leafG _ default (hf.w1 - oh) hG ?_
        rw [t2_glue]; exact sT hG
      · kframe take_neg
        · exact hG
        rw [or1_glue, sG, decide_eq_true_eq] at hG
        kframe sym_exec
        exact leafL default default hG
  by_cases h18 : k - 1 ≤ 18
  · have hr18 : decide (x1 - 1 ≤ 18) = true := by rw [c18]; exact decide_eq_true h18
    have hM64' := hM64 h18
    kframe take_pos
    · exact hr18
    kframe sym_exec
    khead_cases hc
    · kframe take_pos
      · exact hc
      refine key1 _ ?_
      have hc' : decide (bl + m64 < bl) = true := hc
      unfold rbC2; rw [if_pos h18, if_pos hc']
    · kframe take_neg
      · exact hc
      refine key1 _ ?_
      have hc' : ¬ decide (bl + m64 < bl) = true := hc
      unfold rbC2; rw [if_pos h18, if_neg hc']
  · have hr18 : ¬ decide (x1 - 1 ≤ 18) = true := by rw [c18]; simpa using h18
    have hi19 : (x1 - 1 - 19).toInt = ((k - 1 - 19 : Nat) : Int) := by
      rw [Int32.toInt_sub, hxi, show (19 : Int32).toInt = 19 from by decide, bmod32 _ (by omega) (by omega)]; omega
    have hM128' := hM128 h18
    rw [← idx_i32 (x1 - 1 - 19) (k - 1 - 19) hi19] at hM128'
    kframe take_neg
    · exact hr18
    kframe sym_exec
    khead_cases hc
    · kframe take_pos
      · exact hc
      refine key1 _ ?_
      have hc' : decide (bl + m128.w0 < bl) = true := hc
      unfold rbC2; rw [if_neg h18, if_pos hc']
    · kframe take_neg
      · exact hc
      refine key1 _ ?_
      have hc' : ¬ decide (bl + m128.w0 < bl) = true := hc
      unfold rbC2; rw [if_neg h18, if_neg hc']

/-- **the model is `loopA_out`** (number level: `add1_final`, `add35_final`) -/
theorem loopA_out_eq (m : RoundingMode) (sA : Bool) (B av rv k EB : Nat) (eB : Int) (hEB : (EB : Int) - 6176 = eB)
    (hk : 1 ≤ k) (hrv : rv < 10 ^ k) (hB1 : 10^33 ≤ B) (hB2 : B < 10^34) (hav : av < 10^33) (he : -6176 ≤ eB)
    (hx : eB + k + 1 ≤ 6112) :
    finish (md m) sA (B * 10 ^ k + (av * 10 ^ k + rv)) 1 eB eB = loopA_out m sA B av rv k EB := by
  have hD := pow10_even k hk
  unfold loopA_out
  dsimp only
  generalize hh : 10 ^ k / 2 = h at hD ⊢
  have hr : rv < 2 * h := by rw [hD]; exact hrv
  have e1 : ((EB + k : Nat) : Int) - 6176 = eB + k := by omega
  have e2 : ((EB + k + 1 : Nat) : Int) - 6176 = eB + k + 1 := by omega
  rw [e1, e2]
  by_cases hS : B + firstR B av rv h < 10 ^ 34
  · rw [if_pos hS]
    exact add1_final m sA B av rv h k eB hD.symm hk hr hB1 _ _ _ _ rfl rfl rfl rfl hS he (by omega) _ rfl
  · rw [if_neg hS]
    exact add35_final m sA B av rv h k eB hD.symm hk hr hB2 hav _ _ _ _ rfl rfl rfl rfl (by omega) he hx _ rfl _ rfl

/-- operands in the code's order (`a` has the larger exponent), decoded, EQUAL SIGNS: `34 − q_b < delta < 34` and the padded
first coefficient plus `⌊C_b / 10^k⌋ + 1` reaches `10^34` — the complement of `Loop1Cond` for equal signs: the rounded sum
has 35 digits (second rounding and its repair), or it is `10^34 − 1` and the final correction may carry -/
theorem add_loopA_core (H : RoundBlockSpec) (x y a b : U128) (m : RoundingMode) (f : UInt32) (hab : Ordered x y a b)
    {sA sB : Bool} {cA cB : Nat} {eA eB : Int}
    (ha : decode (bitsOf a) = .fin sA cA eA) (hb : decode (bitsOf b) = .fin sB cB eB) (hcA : cA ≠ 0) (hcB : cB ≠ 0)
    (hlo : 34 < (ndigits cA : Int) + eA - eB) (hhi : (ndigits cA : Int) + eA - ndigits cB - eB < 34)
    (hsAB : sA = sB)
    (hdom : ¬ (cA * 10 ^ (34 - ndigits cA) + cB / 10 ^ ((ndigits cA : Int) + eA - eB - 34).toNat + 1 < 10^34)) :
    bid128_add x y m f =
      .ok (ofBits (encode (addFin (md m) sA cA eA sB cB eB (if eA ≤ eB then eA else eB)).1),
           f ||| UInt32.ofNat (addFin (md m) sA cA eA sB cB eB (if eA ≤ eB then eA else eB)).2) := by
  obtain ⟨ha1, hac, haP, hae, halo, hahi, has, -⟩ := fin_view a ha
  obtain ⟨hb1, hbc, hbP, hbe, hblo, hbhi, hbs, -⟩ := fin_view b hb
  have hcA0 : 0 < cA := Nat.pos_of_ne_zero hcA
  have hcB0 : 0 < cB := Nat.pos_of_ne_zero hcB
  have ha0 := nonzero_words hac hcA
  have hb0 := nonzero_words hbc hcB
  have hQA1 := ndigits_pos hcA0
  have hQB1 := ndigits_pos hcB0
  have hQA : ndigits cA ≤ 34 := (ndigits_le_iff hcA0).2 (by simpa [P34] using haP)
  have hQB : ndigits cB ≤ 34 := (ndigits_le_iff hcB0).2 (by simpa [P34] using hbP)
  have hbP' : cB < 10^34 := by simpa [P34] using hbP
  have hle : eB ≤ eA := by omega
  have hsp : ¬ ((x.w1 &&& c_MASK_SPECIAL == c_MASK_SPECIAL) || (y.w1 &&& c_MASK_SPECIAL == c_MASK_SPECIAL)) = true := by
    rcases hab with ⟨rfl, rfl, -⟩ | ⟨rfl, rfl, -⟩
    · exact not_special2 ha1 hb1
    · exact not_special2 hb1 ha1
  have hx0 : ¬ (uH x == 0 && uL x == 0) = true := by
    rcases hab with ⟨rfl, rfl, -⟩ | ⟨rfl, rfl, -⟩
    · exact ha0
    · exact hb0
  have hy0 : ¬ (uH y == 0 && uL y == 0) = true := by
    rcases hab with ⟨rfl, rfl, -⟩ | ⟨rfl, rfl, -⟩
    · exact hb0
    · exact ha0
  obtain ⟨D, D1, THI, TLO, hTa, hqa⟩ := digits_row (uH a) (uL a) (by rw [hac]; exact hcA0) (hi_lt hac haP)
  obtain ⟨D', D1', THI', TLO', hTb, hqb⟩ := digits_row (uH b) (uL b) (by rw [hbc]; exact hcB0) (hi_lt hbc hbP)
  rw [hac] at hqa
  rw [hbc] at hqb
  have hlo' := (ndigits_spec hcA0).1
  have hcAlt := lt_pow_ndigits cA
  have hcBlt := lt_pow_ndigits cB
  generalize hQAd : ndigits cA = QA at *
  generalize hQBd : ndigits cB = QB at *
  generalize hEAd : (eA + 6176).toNat = EA at *
  generalize hEBd : (eB + 6176).toNat = EB at *
  generalize hkd : ((QA : Int) + eA - eB - 34).toNat = k at *
  have hk1 : 1 ≤ k := by omega
  have hkQ : k + 1 ≤ QB := by omega
  have hkE : (QA : Int) + EA - EB - 34 = k := by omega
  have hEA : EA < 12288 := by omega
  have hEle : EB ≤ EA := by omega
  have hgap : (eA - eB).toNat = (34 - QA) + k := by omega
  have hB1 : 10^33 ≤ cA * 10 ^ (34 - QA) := by
    calc 10^33 = 10 ^ (QA - 1) * 10 ^ (34 - QA) := by rw [← Nat.pow_add]; congr 1; omega
      _ ≤ cA * 10 ^ (34 - QA) := Nat.mul_le_mul_right _ hlo'
  have hB2 : cA * 10 ^ (34 - QA) < 10^34 := by
    calc cA * 10 ^ (34 - QA) < 10 ^ QA * 10 ^ (34 - QA) := Nat.mul_lt_mul_of_pos_right hcAlt (Nat.pow_pos (by decide))
      _ = 10^34 := by rw [← Nat.pow_add]; congr 1; omega
  have hA : cA * 10 ^ (eA - eB).toNat = cA * 10 ^ (34 - QA) * 10 ^ k := by rw [hgap, Nat.pow_add, Nat.mul_assoc]
  generalize hBd : cA * 10 ^ (34 - QA) = B at *
  have hgt : cB < cA * 10 ^ (eA - eB).toNat := by
    rw [hA]
    have h1 : 10 ^ QB ≤ 10 ^ (33 + k) := Nat.pow_le_pow_right (by decide) (by omega)
    have h2 : 10^33 * 10^k ≤ B * 10^k := Nat.mul_le_mul_right _ hB1
    rw [Nat.pow_add] at h1
    omega
  have hp : 0 < 10 ^ k := Nat.pow_pos (by decide)
  have hdm := Nat.div_add_mod cB (10 ^ k)
  have hrlt := Nat.mod_lt cB hp
  have hcBe : cB = cB / 10 ^ k * 10 ^ k + cB % 10 ^ k := by rw [Nat.mul_comm]; exact hdm.symm
  rw [addFin_big (md m) sA cA eA sB cB eB hle hgt, hA]
  have hdiv : cB / 10 ^ k = cB / 10 ^ k ∧ cB % 10 ^ k = cB % 10 ^ k := ⟨rfl, rfl⟩
  generalize hav : cB / 10 ^ k = av at hdom hrlt hcBe hdiv ⊢
  generalize hrv : cB % 10 ^ k = rv at hdom hrlt hcBe hdiv ⊢
  have hav33 : av < 10^33 := by
    rw [← hav, Nat.div_lt_iff_lt_mul hp]
    have h1 : 10 ^ QB ≤ 10 ^ (33 + k) := Nat.pow_le_pow_right (by decide) (by omega)
    rw [Nat.pow_add] at h1
    omega
  have hS := loopA_code H x y a b m f hsp hx0 hy0 hab D D1 THI TLO D' D1' THI' TLO' hTa hTb sA sB cA cB QA QB EA EB k B av rv hsAB
    has hbs hac hbc hae hbe hqa hqb hQAd hcA0 hQA1 hQA hQB1 hQB hEA hEle hkE hk1 hkQ hBd hB1 hB2 hbP' ⟨hav, hrv⟩ hrlt
  rw [hS, if_pos hsAB]
  conv => rhs; rw [hcBe]
  rw [loopA_out_eq m sA B av rv k EB eB (by omega) hk1 hrlt hB1 hB2 hav33 hblo (by omega)]


/-- the complement of `C01GenAddRound.Loop1Cond` inside the loop's region for EQUAL signs (same definition as
`C01GenAddLoopB2.ArmACond`): with `H` the operand of the larger exponent and `L` the other one, `34 − q_L < delta < 34`,
equal signs, and `C_H·10^(34 − q_H) + ⌊C_L/10^k⌋ + 1 ≥ 10^34` -/
def ArmACond (s1 : Bool) (c1 : Nat) (e1 : Int) (s2 : Bool) (c2 : Nat) (e2 : Int) : Prop :=
  if e2 ≤ e1 then
    34 < (ndigits c1 : Int) + e1 - e2 ∧ (ndigits c1 : Int) + e1 - ndigits c2 - e2 < 34 ∧ s1 = s2 ∧
    ¬ (c1 * 10 ^ (34 - ndigits c1) + c2 / 10 ^ ((ndigits c1 : Int) + e1 - e2 - 34).toNat + 1 < 10^34)
  else
    34 < (ndigits c2 : Int) + e2 - e1 ∧ (ndigits c2 : Int) + e2 - ndigits c1 - e1 < 34 ∧ s2 = s1 ∧
    ¬ (c2 * 10 ^ (34 - ndigits c2) + c1 / 10 ^ ((ndigits c2 : Int) + e2 - e1 - 34).toNat + 1 < 10^34)

instance (s1 : Bool) (c1 : Nat) (e1 : Int) (s2 : Bool) (c2 : Nat) (e2 : Int) : Decidable (ArmACond s1 c1 e1 s2 c2 e2) := by
  unfold ArmACond; infer_instance

/-- **`bid128_add`, two non-zero numbers of equal sign in the rounding loop, the sum reaching `10^34`** (`ArmACond`): the
35-digit sum is rounded a second time by `BID_TEN2MK128[0]`, the double rounding is repaired from the indicators of the
first rounding, the mode correction and the overflow exits follow — and the result is `addD`, datum and flags, in all five
rounding modes (including the boundary sum `10^34 − 1` with a final carry, and overflow at the top exponent) -/
theorem add_loopA (H : RoundBlockSpec) (x y : U128) (m : RoundingMode) (f : UInt32) {s1 s2 : Bool} {c1 c2 : Nat} {e1 e2 : Int}
    (hx : decode (bitsOf x) = .fin s1 c1 e1) (hy : decode (bitsOf y) = .fin s2 c2 e2) (hc1 : c1 ≠ 0) (hc2 : c2 ≠ 0)
    (h : ArmACond s1 c1 e1 s2 c2 e2) :
    bid128_add x y m f =
      .ok (ofBits (encode (addD (md m) (decode (bitsOf x)) (decode (bitsOf y))).1),
           f ||| UInt32.ofNat (addD (md m) (decode (bitsOf x)) (decode (bitsOf y))).2) := by
  obtain ⟨-, -, -, hxe, hxlo, hxhi, -, -⟩ := fin_view x hx
  obtain ⟨-, -, -, hye, hylo, hyhi, -, -⟩ := fin_view y hy
  rw [hx, hy, addD_fin_fin]
  unfold ArmACond at h
  by_cases hle : e2 ≤ e1
  · rw [if_pos hle] at h
    have hab : Ordered x y x y := Or.inl ⟨rfl, rfl, by
      rw [decide_eq_true_eq, UInt64.lt_iff_toNat_lt, hxe, hye]; omega⟩
    exact add_loopA_core H x y x y m f hab hx hy hc1 hc2 h.1 h.2.1 h.2.2.1 h.2.2.2
  · rw [if_neg hle] at h
    have hab : Ordered x y y x := Or.inr ⟨rfl, rfl, by
      rw [decide_eq_true_eq, UInt64.lt_iff_toNat_lt, hxe, hye]; omega⟩
    rw [addFin_comm]
    exact add_loopA_core H x y y x m f hab hy hx hc2 hc1 h.1 h.2.1 h.2.2.1 h.2.2.2

-- 9999999999999999999999999999999999 + 5.5 = 10000000000000000000000000000000004.5: 35 digits, second rounding; by the theorem
example (H : RoundBlockSpec) : bid128_add ⟨0x378d8e63ffffffff, 0x3041ed09bead87c0⟩ ⟨55, 0x303e000000000000⟩ .NearestEven 0
    = .ok (ofBits (encode (.fin false (10^33) 1)), 0x20) := by
  rw [add_loopA H (s1 := false) (c1 := 10^34 - 1) (e1 := 0) (s2 := false) (c2 := 55) (e2 := -1) _ _ _ _ (by decide +kernel)
    (by decide +kernel) (by decide) (by decide) (by decide +kernel)]
  decide +kernel
-- the same sum upward, evaluated in the kernel directly on the translated routine: one more in the last place
example : bid128_add ⟨0x378d8e63ffffffff, 0x3041ed09bead87c0⟩ ⟨55, 0x303e000000000000⟩ .Upward 0
    = .ok (ofBits (encode (.fin false (10^33 + 1) 1)), 0x20) := by decide +kernel

end Dec.C01GenAddLoop35
