/-
  C02GenFma1112Fin — from "rounded once in the mode asked for, normalised to 34 digits" to `Dec.finish`
  (general lemmas for closing Cases (11)/(12) of `bid128_ext_fma`; the code side is C02GenFma1112.lean).

  `V·10^E0` is the exact magnitude, `D = 10^(ef − E0)` the unit of the exponent `ef` at which `10^33·D ≤ V < 10^34·D`.
-/
import DecProofs.Properties.C02GenFmaZA

set_option linter.unusedSimpArgs false
set_option linter.unusedVariables false

namespace Dec.C02GenFma1112Fin
open Dec Dec.C02GenFmaZ

/-- **`finish` on an exact 34-digit value, preferred exponent not above its exponent**: itself, or overflow above `emax` -/
theorem finish_exact34_pref (mode : Mode) (s : Bool) (N : Nat) (E pref : Int) (hN1 : 10 ^ 33 ≤ N) (hN2 : N < 10 ^ 34)
    (hE : eMin ≤ E) (hpref : pref ≤ E) :
    finish mode s N 1 E pref =
      if eMax < E then (overflowResult mode s, fOverflow ||| fInexact) else (.fin s N E, 0) := by
  have hil : ilog10Ratio N 1 = 33 := ilog_33 N 1 (by decide) (by omega) (by omega)
  rw [finish_eq, hil]
  unfold eMin at hE
  by_cases hbig : 33 + E > 7000
  · rw [if_pos hbig, if_pos (by unfold eMax; omega)]
  rw [if_neg hbig, if_neg (by omega)]
  have hx0 : fx0 (33 + E) = E := by unfold fx0 eMin; rw [if_neg (by omega)]; omega
  rw [hx0, Int.sub_self]
  have hnum : fnum N 0 = N := by unfold fnum; simp
  have hden : fden 1 0 = 1 := by unfold fden; simp
  rw [hnum, hden]
  by_cases hov : eMax < E
  · rw [if_pos hov, finishAt_exact_ovf _ _ _ _ _ _ _ (Nat.mod_one N) hov]
  · rw [if_neg hov, finishAt_exact _ _ _ _ _ _ _ (Nat.mod_one N) (by omega)]
    generalize trailingZeros 34 (N / 1) = tz
    have hcl : clampInt E (if E + (tz : Int) > eMax then eMax else E + tz) pref = E := by
      unfold clampInt
      split
      · rfl
      · split
        · split at * <;> omega
        · omega
    rw [hcl, Int.sub_self]
    simp

/-- rounding an exact multiple of the unit, in any mode: the quotient -/
theorem rounded_exact (mode : Mode) (s : Bool) (q D M : Nat) (hD : 0 < D) (h : RoundedInt mode s (q * D) D M) : M = q := by
  have e3 : ∀ a : Nat, 2 * a * D = 2 * (a * D) := fun a => Nat.mul_assoc _ _ _
  have key : M * D = q * D := by
    rcases Nat.lt_trichotomy M q with hlt | heq | hgt
    · exfalso
      have h1 : (M + 1) * D ≤ q * D := Nat.mul_le_mul_right D hlt
      rw [Nat.add_mul, Nat.one_mul] at h1
      cases mode <;> cases s <;> simp only [RoundedInt, if_true, if_false, Bool.false_eq_true, e3] at h <;> omega
    · rw [heq]
    · exfalso
      have h1 : (q + 1) * D ≤ M * D := Nat.mul_le_mul_right D hgt
      rw [Nat.add_mul, Nat.one_mul] at h1
      cases mode <;> cases s <;> simp only [RoundedInt, if_true, if_false, Bool.false_eq_true, e3] at h <;> omega
  exact Nat.eq_of_mul_eq_mul_right hD key

/-- **(A) rounded once and normalised ⇒ `finish`.**  `V·10^E0` the exact magnitude, `ef` the exponent at which it has 34
digits (`D = 10^(ef − E0)`), `(c2, e2)` its rounding in `mode` at `ef`, a carry to `10^34` renormalised to `10^33` at
`ef + 1`; `pref ≤ ef`: `finish` returns `(c2, e2)`, inexact iff `D ∤ V`, or the mode's overflow result above `emax`. -/
theorem finish_once (mode : Mode) (s : Bool) (V : Nat) (E0 ef pref : Int) (c2 : Nat) (e2 : Int)
    (hE : E0 ≤ ef) (hef : -6176 ≤ ef) (hV1 : 10 ^ 33 * 10 ^ (ef - E0).toNat ≤ V) (hV2 : V < 10 ^ 34 * 10 ^ (ef - E0).toNat)
    (hr : RoundedInt mode s V (10 ^ (ef - E0).toNat) (c2 * 10 ^ (e2 - ef).toNat))
    (h1 : ef ≤ e2) (h2 : e2 ≤ ef + 1) (hc2 : c2 < P34) (hwrap : e2 = ef + 1 → c2 = P33) (hpref : pref ≤ ef) :
    finish mode s V 1 E0 pref =
      if eMax < e2 then (overflowResult mode s, fOverflow ||| fInexact)
      else (.fin s c2 e2, if V % 10 ^ (ef - E0).toNat = 0 then 0 else fInexact) := by
  have hD : 0 < 10 ^ (ef - E0).toNat := Nat.pow_pos (by decide)
  by_cases hex : V % 10 ^ (ef - E0).toNat = 0
  · -- exact
    rw [if_pos hex]
    obtain ⟨D, hDd⟩ : ∃ D, D = 10 ^ (ef - E0).toNat := ⟨_, rfl⟩
    rw [← hDd] at hD hV1 hV2 hr hex
    obtain ⟨q, hq⟩ : ∃ q, V = q * D := ⟨V / D, by rw [Nat.mul_comm]; exact (Nat.mul_div_cancel' (Nat.dvd_of_mod_eq_zero hex)).symm⟩
    subst hq
    have hq1 : 10 ^ 33 ≤ q := Nat.le_of_mul_le_mul_right hV1 hD
    have hq2 : q < 10 ^ 34 := Nat.lt_of_mul_lt_mul_right hV2
    have hM := rounded_exact mode s q D _ hD hr
    have e34 : P34 = 10000000000000000000000000000000000 := rfl
    have e33 : P33 = 1000000000000000000000000000000000 := rfl
    have he2 : e2 = ef := by
      by_contra hne
      have h3 : e2 = ef + 1 := by omega
      rw [hwrap h3, h3, show ef + 1 - ef = 1 by omega] at hM
      have : P33 * 10 ^ (1 : Int).toNat = 10 ^ 34 := by decide
      omega
    subst he2
    rw [Int.sub_self, Int.toNat_zero, Nat.pow_zero, Nat.mul_one] at hM
    subst hM
    have hval : (((c2 * D : Nat) : ℚ)) / (1 : Nat) * (10 : ℚ) ^ E0 = ((c2 : Nat) : ℚ) / (1 : Nat) * (10 : ℚ) ^ e2 := by
      rw [hDd]
      have : e2 = E0 + ((e2 - E0).toNat : Int) := by omega
      generalize (e2 - E0).toNat = K at this ⊢
      rw [this, zpow_add₀ (by norm_num : (10 : ℚ) ≠ 0), zpow_natCast]
      push_cast
      ring
    rw [finish_congr mode s _ 1 c2 1 E0 e2 pref (Nat.mul_pos (by omega) hD) (by decide) (by omega) (by decide) hval]
    exact finish_exact34_pref mode s c2 e2 pref hq1 hq2 (by unfold eMin; exact hef) hpref
  · -- inexact
    rw [if_neg hex]
    have := finish_of_rounded mode s V E0 ef pref c2 e2 hE (by unfold eMin; exact hef) hex hV2 (Or.inr hV1) hr h1 h2 hc2 hwrap
    rw [this, if_neg (show ¬ V < 10 ^ 33 * 10 ^ (ef - E0).toNat from Nat.not_lt.2 hV1)]

/-- **(B) truthful indicators of a nearest-even rounding: one of them is set iff the rounding was inexact** -/
theorem ind_any_iff (s : Bool) (V D cf : Nat) (L G ML MG : Bool) (hD : 0 < D) (hne : RoundedInt .rne s V D cf)
    (hL : L = decide (cf * D < V ∧ 2 * V < 2 * (cf * D) + D)) (hG : G = decide (V < cf * D ∧ 2 * (cf * D) < 2 * V + D))
    (hML : ML = decide (2 * V + D = 2 * (cf * D))) (hMG : MG = decide (2 * V = 2 * (cf * D) + D)) :
    (L || G || ML || MG) = decide (V % D ≠ 0) := by
  have e3 : ∀ a : Nat, 2 * a * D = 2 * (a * D) := fun a => Nat.mul_assoc _ _ _
  simp only [RoundedInt, e3] at hne
  by_cases hex : V % D = 0
  · obtain ⟨q, hq⟩ : ∃ q, V = q * D := ⟨V / D, by rw [Nat.mul_comm]; exact (Nat.mul_div_cancel' (Nat.dvd_of_mod_eq_zero hex)).symm⟩
    subst hq
    have hcf : cf = q := rounded_exact .rne s q D cf hD (by simp only [RoundedInt, e3]; exact hne)
    subst hcf
    rw [show decide (cf * D % D ≠ 0) = false from by simp [hex]]
    subst hL hG hML hMG
    simp only [Bool.or_eq_false_iff, decide_eq_false_iff_not]
    omega
  · rw [show decide (V % D ≠ 0) = true from by simpa using hex]
    have hne' : V ≠ cf * D := fun h0 => hex (by rw [h0, Nat.mul_mod_left])
    subst hL hG hML hMG
    simp only [Bool.or_eq_true, decide_eq_true_eq]
    omega

/-- the status word of the block as `f ||| finish's flags` -/
theorem flags_once (f : UInt32) (ov any : Bool) :
    f ||| (if ov = true then (0x28 : UInt32) else if any = true then 0x20 else 0) =
      f ||| UInt32.ofNat (if ov = true then fOverflow ||| fInexact else if any = true then fInexact else 0) := by
  cases ov <;> cases any <;> rfl
end Dec.C02GenFma1112Fin
