/-
  C02GenFmaZ (part K: Case (1''B), the mathematics of one unit more / less) — see C02GenFmaZ.lean
-/
import DecProofs.Properties.C02GenFmaZJ
set_option linter.unusedSimpArgs false
set_option linter.unusedVariables false
set_option linter.unusedTactic false
set_option linter.unreachableTactic false
set_option linter.unnecessarySeqFocus false
namespace Dec.C02GenFmaZ
open Dec Dec.Rs Dec.Gen.Code Dec.C03GenCompare Dec.C02GenCorrection

/-! ## 15. Case (1''B): deliveries one unit above / below the padded `z` -/

open Dec Dec.Rs Dec.Gen.Code Dec.C03GenCompare Dec.C02GenCorrection

/-- equal signs, the product above half a unit (or at half a unit with `c` odd): nearest-even is `c + 1` -/
theorem deliv_add_up (s : Bool) (c c4 : Nat) (E4 ef : Int) (hE : E4 ≤ ef) (hef1 : -6176 ≤ ef) (hef2 : ef ≤ 20000)
    (hc4 : c4 < 10 ^ (ef - E4).toNat) (hup : 10 ^ (ef - E4).toNat < 2 * c4 ∨ (2 * c4 = 10 ^ (ef - E4).toNat ∧ c % 2 = 1))
    (hc : c < 10 ^ 34) (hl : 10 ^ 33 ≤ c) :
    Deliv s (c * 10 ^ (ef - E4).toNat + c4) E4 ef (c + 1) false (decide (10 ^ (ef - E4).toNat < 2 * c4))
      (decide (2 * c4 = 10 ^ (ef - E4).toNat)) false := by
  have hD : 0 < 10 ^ (ef - E4).toNat := Nat.pow_pos (by decide)
  obtain ⟨D, hDd⟩ : ∃ D, D = 10 ^ (ef - E4).toNat := ⟨_, rfl⟩
  rw [← hDd] at hD hc4 hup ⊢
  have e3 : ∀ a : Nat, 2 * a * D = 2 * (a * D) := fun a => Nat.mul_assoc _ _ _
  have h0 : 0 < c4 := by rcases hup with h | ⟨h, _⟩ <;> omega
  have hmod : (c * D + c4) % D = c4 := by rw [Nat.mul_comm, Nat.mul_add_mod, Nat.mod_eq_of_lt (by omega)]
  have h34 : (c + 1) * D ≤ 10 ^ 34 * D := Nat.mul_le_mul_right D (by omega)
  have h33 := Nat.mul_le_mul_right D hl
  have e1 : (c + 1) * D = c * D + D := by rw [Nat.add_mul, Nat.one_mul]
  rw [e1] at h34
  refine ⟨hE, hef1, hef2, ?_, ?_, ?_, ?_, ?_, by rw [P34_eq]; omega, ?_, ?_, by rw [← hDd, hmod]; omega, by rw [← hDd]; omega, ?_⟩
  all_goals rw [← hDd]
  · simp only [RoundedInt, e3, e1]
    refine ⟨by omega, fun ht => ?_⟩
    rcases hup with h | ⟨h, h'⟩
    · omega
    · omega
  · rw [e1]; simp <;> omega
  · rw [e1]; rw [decide_eq_decide]; omega
  · rw [e1]; rw [decide_eq_decide]; omega
  · rw [e1]; simp <;> omega
  · intro h; rw [e1]; omega
  · intro _ h; rw [Dec.C13PackHelpers.P33_eq'] at h; omega
  · right; omega

/-- equal signs, the product exactly half a unit, `c` even: nearest-even stays at `c` -/
theorem deliv_add_tie (s : Bool) (c c4 : Nat) (E4 ef : Int) (hE : E4 ≤ ef) (hef1 : -6176 ≤ ef) (hef2 : ef ≤ 20000)
    (htie : 2 * c4 = 10 ^ (ef - E4).toNat) (hev : c % 2 = 0) (hc : c < 10 ^ 34) (hl : 10 ^ 33 ≤ c) :
    Deliv s (c * 10 ^ (ef - E4).toNat + c4) E4 ef c false false false true := by
  have hD : 0 < 10 ^ (ef - E4).toNat := Nat.pow_pos (by decide)
  obtain ⟨D, hDd⟩ : ∃ D, D = 10 ^ (ef - E4).toNat := ⟨_, rfl⟩
  rw [← hDd] at hD htie ⊢
  have e3 : ∀ a : Nat, 2 * a * D = 2 * (a * D) := fun a => Nat.mul_assoc _ _ _
  have hmod : (c * D + c4) % D = c4 := by rw [Nat.mul_comm, Nat.mul_add_mod, Nat.mod_eq_of_lt (by omega)]
  have h34 : (c + 1) * D ≤ 10 ^ 34 * D := Nat.mul_le_mul_right D (by omega)
  have h33 := Nat.mul_le_mul_right D hl
  rw [Nat.add_mul, Nat.one_mul] at h34
  refine ⟨hE, hef1, hef2, ?_, ?_, ?_, ?_, ?_, by rw [P34_eq]; omega, ?_, ?_, by rw [← hDd, hmod]; omega, by rw [← hDd]; omega, ?_⟩
  all_goals rw [← hDd]
  · simp only [RoundedInt, e3]; exact ⟨by omega, fun _ => hev⟩
  · simp <;> omega
  · simp <;> omega
  · simp <;> omega
  · simp <;> omega
  · intro h; rw [P34_eq] at h; omega
  · intro h; omega
  · right; omega

/-- opposite signs, `c > 10^33`, the product above half a unit (or at half a unit with `c` odd): nearest-even is `c − 1` -/
theorem deliv_sub_dn (s : Bool) (c c4 : Nat) (E4 ef : Int) (hE : E4 ≤ ef) (hef1 : -6176 ≤ ef) (hef2 : ef ≤ 20000)
    (hc4 : c4 < 10 ^ (ef - E4).toNat) (hup : 10 ^ (ef - E4).toNat < 2 * c4 ∨ (2 * c4 = 10 ^ (ef - E4).toNat ∧ c % 2 = 1))
    (hc : c < 10 ^ 34) (hl : 10 ^ 33 < c) :
    Deliv s (c * 10 ^ (ef - E4).toNat - c4) E4 ef (c - 1) (decide (10 ^ (ef - E4).toNat < 2 * c4)) false false
      (decide (2 * c4 = 10 ^ (ef - E4).toNat)) := by
  have hD : 0 < 10 ^ (ef - E4).toNat := Nat.pow_pos (by decide)
  obtain ⟨D, hDd⟩ : ∃ D, D = 10 ^ (ef - E4).toNat := ⟨_, rfl⟩
  rw [← hDd] at hD hc4 hup ⊢
  have e3 : ∀ a : Nat, 2 * a * D = 2 * (a * D) := fun a => Nat.mul_assoc _ _ _
  have h0 : 0 < c4 := by rcases hup with h | ⟨h, _⟩ <;> omega
  have e1 : (c - 1) * D = c * D - D := by rw [Nat.sub_mul, Nat.one_mul]
  have hcD : D ≤ c * D := Nat.le_mul_of_pos_left D (by omega)
  have hmod : (c * D - c4) % D = D - c4 := by
    have : c * D - c4 = (c - 1) * D + (D - c4) := by rw [e1]; omega
    rw [this, Nat.mul_comm, Nat.mul_add_mod, Nat.mod_eq_of_lt (by omega)]
  have h34 : c * D ≤ 10 ^ 34 * D := Nat.mul_le_mul_right D (by omega)
  have h33 : (10 ^ 33 + 1) * D ≤ c * D := Nat.mul_le_mul_right D hl
  rw [Nat.add_mul, Nat.one_mul] at h33
  refine ⟨hE, hef1, hef2, ?_, ?_, ?_, ?_, ?_, by rw [P34_eq]; omega, ?_, ?_, by rw [← hDd, hmod]; omega, by rw [← hDd]; omega, ?_⟩
  all_goals rw [← hDd]
  · simp only [RoundedInt, e3, e1]
    refine ⟨by omega, fun ht => ?_⟩
    rcases hup with h | ⟨h, h'⟩
    · omega
    · omega
  · rw [e1]; rw [decide_eq_decide]; omega
  · rw [e1]; simp <;> omega
  · rw [e1]; simp <;> omega
  · rw [e1]; rw [decide_eq_decide]; omega
  · intro h; rw [P34_eq] at h; omega
  · intro h; rw [e1] at h; omega
  · right; omega

/-- opposite signs, `c > 10^33`, the product exactly half a unit, `c` even: nearest-even stays at `c` -/
theorem deliv_sub_tie (s : Bool) (c c4 : Nat) (E4 ef : Int) (hE : E4 ≤ ef) (hef1 : -6176 ≤ ef) (hef2 : ef ≤ 20000)
    (htie : 2 * c4 = 10 ^ (ef - E4).toNat) (hev : c % 2 = 0) (hc : c < 10 ^ 34) (hl : 10 ^ 33 < c) :
    Deliv s (c * 10 ^ (ef - E4).toNat - c4) E4 ef c false false true false := by
  have hD : 0 < 10 ^ (ef - E4).toNat := Nat.pow_pos (by decide)
  obtain ⟨D, hDd⟩ : ∃ D, D = 10 ^ (ef - E4).toNat := ⟨_, rfl⟩
  rw [← hDd] at hD htie ⊢
  have e3 : ∀ a : Nat, 2 * a * D = 2 * (a * D) := fun a => Nat.mul_assoc _ _ _
  have hcD : D ≤ c * D := Nat.le_mul_of_pos_left D (by omega)
  have hmod : (c * D - c4) % D = D - c4 := by
    have : c * D - c4 = (c - 1) * D + (D - c4) := by rw [Nat.sub_mul, Nat.one_mul]; omega
    rw [this, Nat.mul_comm, Nat.mul_add_mod, Nat.mod_eq_of_lt (by omega)]
  have h34 : c * D ≤ 10 ^ 34 * D := Nat.mul_le_mul_right D (by omega)
  have h33 : (10 ^ 33 + 1) * D ≤ c * D := Nat.mul_le_mul_right D hl
  rw [Nat.add_mul, Nat.one_mul] at h33
  refine ⟨hE, hef1, hef2, ?_, ?_, ?_, ?_, ?_, by rw [P34_eq]; omega, ?_, ?_, by rw [← hDd, hmod]; omega, by rw [← hDd]; omega, ?_⟩
  all_goals rw [← hDd]
  · simp only [RoundedInt, e3]; exact ⟨by omega, fun _ => hev⟩
  · simp <;> omega
  · simp <;> omega
  · simp <;> omega
  · simp <;> omega
  · intro h; rw [P34_eq] at h; omega
  · intro _ h; rw [Dec.C13PackHelpers.P33_eq'] at h; omega
  · right; omega

/-- **Case (1''B), equal signs, the mathematics**: the delivery by the comparison with half a unit; never tiny -/
theorem same_math (s : Bool) (c c4 : Nat) (E4 ef : Int) (hE : E4 ≤ ef) (hef1 : -6176 ≤ ef) (hef2 : ef ≤ 20000)
    (h0 : 0 < c4) (hc4 : c4 < 10 ^ (ef - E4).toNat) (hc : c < 10 ^ 34) (hl : 10 ^ 33 ≤ c) :
    Deliv s (c * 10 ^ (ef - E4).toNat + c4) E4 ef
      (sameCls c (decide (2 * c4 < 10 ^ (ef - E4).toNat)) (decide (2 * c4 = 10 ^ (ef - E4).toNat))
        (decide (10 ^ (ef - E4).toNat < 2 * c4))).1
      (sameCls c (decide (2 * c4 < 10 ^ (ef - E4).toNat)) (decide (2 * c4 = 10 ^ (ef - E4).toNat))
        (decide (10 ^ (ef - E4).toNat < 2 * c4))).2.2.2.1
      (sameCls c (decide (2 * c4 < 10 ^ (ef - E4).toNat)) (decide (2 * c4 = 10 ^ (ef - E4).toNat))
        (decide (10 ^ (ef - E4).toNat < 2 * c4))).2.2.2.2
      (sameCls c (decide (2 * c4 < 10 ^ (ef - E4).toNat)) (decide (2 * c4 = 10 ^ (ef - E4).toNat))
        (decide (10 ^ (ef - E4).toNat < 2 * c4))).2.1
      (sameCls c (decide (2 * c4 < 10 ^ (ef - E4).toNat)) (decide (2 * c4 = 10 ^ (ef - E4).toNat))
        (decide (10 ^ (ef - E4).toNat < 2 * c4))).2.2.1 ∧
    ¬ c * 10 ^ (ef - E4).toNat + c4 < 10 ^ 33 * 10 ^ (ef - E4).toNat := by
  refine ⟨?_, by have := Nat.mul_le_mul_right (10 ^ (ef - E4).toNat) hl; omega⟩
  unfold sameCls
  by_cases hlt : 2 * c4 < 10 ^ (ef - E4).toNat
  · rw [if_pos (by simpa using hlt)]
    exact deliv_add s c c4 E4 ef hE hef1 hef2 h0 hlt hc (Or.inr hl)
  · rw [if_neg (by simpa using hlt)]
    by_cases hinc : (decide (2 * c4 = 10 ^ (ef - E4).toNat) = true ∧ c % 2 = 1) ∨ decide (10 ^ (ef - E4).toNat < 2 * c4) = true
    · rw [if_pos hinc]
      have hup : 10 ^ (ef - E4).toNat < 2 * c4 ∨ (2 * c4 = 10 ^ (ef - E4).toNat ∧ c % 2 = 1) := by
        rcases hinc with ⟨a, b⟩ | a
        · exact Or.inr ⟨by simpa using a, b⟩
        · exact Or.inl (by simpa using a)
      have := deliv_add_up s c c4 E4 ef hE hef1 hef2 hc4 hup hc hl
      have hneg : (!decide (2 * c4 = 10 ^ (ef - E4).toNat)) = decide (10 ^ (ef - E4).toNat < 2 * c4) := by
        rw [Bool.eq_iff_iff]; simp; omega
      rw [hneg]
      exact this
    · rw [if_neg hinc]
      have htie : 2 * c4 = 10 ^ (ef - E4).toNat := by
        by_contra hne
        exact hinc (Or.inr (by simpa using (by omega : 10 ^ (ef - E4).toNat < 2 * c4)))
      have hev : c % 2 = 0 := by
        by_contra hne
        exact hinc (Or.inl ⟨by simpa using htie, by omega⟩)
      exact deliv_add_tie s c c4 E4 ef hE hef1 hef2 htie hev hc hl

open Dec.C08GenRoundIntegral (bind_ok' ite_true_bool ite_false_bool i32_add i32_sub i32_neg) in
/-- opposite signs (`c > 10^33`): the coefficient and the indicators `(ML, MG, L, G)`, by the comparison with half a unit -/
def diffCls (cf : Nat) (lt eq gt : Bool) : Nat × Bool × Bool × Bool × Bool :=
  if lt = true then (cf, false, false, false, true)
  else if (eq = true ∧ cf % 2 = 1) ∨ gt = true then (cf - 1, false, eq, !eq, false)
  else (cf, true, false, false, false)

open Dec.C08GenRoundIntegral (bind_ok' ite_true_bool ite_false_bool i32_add i32_sub i32_neg) in
/-- **Case (1''B), opposite signs: the classification** -/
theorem z2DiffCls_spec {α : Type} (l h z_sign zx : UInt64) (lt eq gt : Bool)
    (k : U128 → UInt64 → Bool → Bool → Bool → Bool → Except String α) (cf : Nat)
    (hP : h.toNat * 2^64 + l.toNat = cf) (hcf : 0 < cf) :
    ∃ (l' h' : UInt64),
      z2DiffCls ⟨l, h⟩ z_sign zx false false false false lt eq gt k =
        k ⟨l', h' ||| (z_sign ||| (zx &&& c_MASK_EXP))⟩ zx (diffCls cf lt eq gt).2.1 (diffCls cf lt eq gt).2.2.1
          (diffCls cf lt eq gt).2.2.2.1 (diffCls cf lt eq gt).2.2.2.2 ∧
      h'.toNat * 2^64 + l'.toNat = (diffCls cf lt eq gt).1 := by
  by_cases hlt : lt = true
  · have hc : diffCls cf lt eq gt = (cf, false, false, false, true) := by unfold diffCls; rw [if_pos hlt]
    rw [hc]
    refine ⟨l, h, ?_, hP⟩
    simp only [z2DiffCls, bind, pure, Except.pure, bind_ok', hlt, if_true]
  · by_cases hinc : (eq = true ∧ cf % 2 = 1) ∨ gt = true
    · have hc : diffCls cf lt eq gt = (cf - 1, false, eq, !eq, false) := by unfold diffCls; rw [if_neg hlt, if_pos hinc]
      rw [hc]
      have hb : (((eq && (((l &&& (1 : UInt64))) == (1 : UInt64)))) || gt) = true := by
        rw [odd_test l h cf hP]
        rcases hinc with ⟨a, b⟩ | a
        · simp [a, b]
        · simp [a]
      have hw := dec_words l h cf hP hcf
      refine ⟨l - 1, if (l - 1 == 0xffffffffffffffff) = true then h - 1 else h, ?_, hw⟩
      simp only [z2DiffCls, bind, pure, Except.pure, bind_ok', hlt, if_false, Bool.false_eq_true, hb, if_true]
      by_cases hz : (l - 1 == 0xffffffffffffffff) = true
      · simp only [hz, if_true]
        cases eq <;> rfl
      · simp only [hz, if_false, Bool.false_eq_true]
        cases eq <;> rfl
    · have hc : diffCls cf lt eq gt = (cf, true, false, false, false) := by unfold diffCls; rw [if_neg hlt, if_neg hinc]
      rw [hc]
      have hb : (((eq && (((l &&& (1 : UInt64))) == (1 : UInt64)))) || gt) = false := by
        rw [odd_test l h cf hP]
        cases eq <;> cases gt <;> simp at hinc ⊢
        · exact hinc
      refine ⟨l, h, ?_, hP⟩
      have hlt' : lt = false := by simpa using hlt
      simp only [z2DiffCls, bind, pure, Except.pure, bind_ok', hlt', if_false, Bool.false_eq_true, hb]

/-- **Case (1''B), opposite signs, `c > 10^33`, the mathematics** -/
theorem diff_math (s : Bool) (c c4 : Nat) (E4 ef : Int) (hE : E4 ≤ ef) (hef1 : -6176 ≤ ef) (hef2 : ef ≤ 20000)
    (h0 : 0 < c4) (hc4 : c4 < 10 ^ (ef - E4).toNat) (hc : c < 10 ^ 34) (hl : 10 ^ 33 < c) :
    Deliv s (c * 10 ^ (ef - E4).toNat - c4) E4 ef
      (diffCls c (decide (2 * c4 < 10 ^ (ef - E4).toNat)) (decide (2 * c4 = 10 ^ (ef - E4).toNat))
        (decide (10 ^ (ef - E4).toNat < 2 * c4))).1
      (diffCls c (decide (2 * c4 < 10 ^ (ef - E4).toNat)) (decide (2 * c4 = 10 ^ (ef - E4).toNat))
        (decide (10 ^ (ef - E4).toNat < 2 * c4))).2.2.2.1
      (diffCls c (decide (2 * c4 < 10 ^ (ef - E4).toNat)) (decide (2 * c4 = 10 ^ (ef - E4).toNat))
        (decide (10 ^ (ef - E4).toNat < 2 * c4))).2.2.2.2
      (diffCls c (decide (2 * c4 < 10 ^ (ef - E4).toNat)) (decide (2 * c4 = 10 ^ (ef - E4).toNat))
        (decide (10 ^ (ef - E4).toNat < 2 * c4))).2.1
      (diffCls c (decide (2 * c4 < 10 ^ (ef - E4).toNat)) (decide (2 * c4 = 10 ^ (ef - E4).toNat))
        (decide (10 ^ (ef - E4).toNat < 2 * c4))).2.2.1 ∧
    ¬ c * 10 ^ (ef - E4).toNat - c4 < 10 ^ 33 * 10 ^ (ef - E4).toNat := by
  refine ⟨?_, by
    have := Nat.mul_le_mul_right (10 ^ (ef - E4).toNat) (show 10 ^ 33 + 1 ≤ c from hl)
    rw [Nat.add_mul, Nat.one_mul] at this
    omega⟩
  unfold diffCls
  by_cases hlt : 2 * c4 < 10 ^ (ef - E4).toNat
  · rw [if_pos (by simpa using hlt)]
    exact deliv_sub s c c4 E4 ef hE hef1 hef2 h0 hlt (by omega) hc (Or.inr hl)
  · rw [if_neg (by simpa using hlt)]
    by_cases hinc : (decide (2 * c4 = 10 ^ (ef - E4).toNat) = true ∧ c % 2 = 1) ∨ decide (10 ^ (ef - E4).toNat < 2 * c4) = true
    · rw [if_pos hinc]
      have hup : 10 ^ (ef - E4).toNat < 2 * c4 ∨ (2 * c4 = 10 ^ (ef - E4).toNat ∧ c % 2 = 1) := by
        rcases hinc with ⟨a, b⟩ | a
        · exact Or.inr ⟨by simpa using a, b⟩
        · exact Or.inl (by simpa using a)
      have := deliv_sub_dn s c c4 E4 ef hE hef1 hef2 hc4 hup hc hl
      have hneg : (!decide (2 * c4 = 10 ^ (ef - E4).toNat)) = decide (10 ^ (ef - E4).toNat < 2 * c4) := by
        rw [Bool.eq_iff_iff]; simp; omega
      rw [hneg]
      exact this
    · rw [if_neg hinc]
      have htie : 2 * c4 = 10 ^ (ef - E4).toNat := by
        by_contra hne
        exact hinc (Or.inr (by simpa using (by omega : 10 ^ (ef - E4).toNat < 2 * c4)))
      have hev : c % 2 = 0 := by
        by_contra hne
        exact hinc (Or.inl ⟨by simpa using htie, by omega⟩)
      exact deliv_sub_tie s c c4 E4 ef hE hef1 hef2 htie hev hc hl


end Dec.C02GenFmaZ
