/-
  C03 (order part) — the comparison predicates return the truth value determined by the exact mathematical
  order of the operands: on numbers, the order of the rational values `fval`; members of one cohort compare
  equal; ±Inf bound everything; NaNs are unordered.  (Truth tables and flags: `DecProofs.Properties.C03`.)
-/
import DecProofs.Core.Cmp
import DecProofs.Properties.C03

namespace Dec.C03Order

/-! ### numbers: the four-way relation is the order of ℚ -/

/-- the numeric relation of two numbers is `compare` of their exact values — any coefficients, any exponents -/
theorem cmpD_fin (s1 : Bool) (c1 : Nat) (e1 : Int) (s2 : Bool) (c2 : Nat) (e2 : Int) :
    cmpD (.fin s1 c1 e1) (.fin s2 c2 e2) = some (compare (fval s1 c1 e1) (fval s2 c2 e2)) := by
  simp [cmpD, cmpFin_eq_compare]

/-- the same, stated on `Datum.val`: finite operands are compared by value -/
theorem cmpD_val (x y : Datum) (vx vy : ℚ) (hx : x.val = some vx) (hy : y.val = some vy) :
    cmpD x y = some (compare vx vy) := by
  cases x <;> simp [Datum.val] at hx
  cases y <;> simp [Datum.val] at hy
  subst hx hy
  exact cmpD_fin ..

/-- **C03 on numbers**: every one of the twelve predicate tables (the other eight predicates are aliases/signalling
forms of these) returns the truth value of the corresponding relation between the exact values -/
theorem predicates_by_value (x y : Datum) (vx vy : ℚ) (hx : x.val = some vx) (hy : y.val = some vy) :
    predTable "less" (cmpD x y) = some (decide (vx < vy)) ∧
    predTable "equal" (cmpD x y) = some (decide (vx = vy)) ∧
    predTable "greater" (cmpD x y) = some (decide (vx > vy)) ∧
    predTable "less_equal" (cmpD x y) = some (decide (vx ≤ vy)) ∧
    predTable "greater_equal" (cmpD x y) = some (decide (vx ≥ vy)) ∧
    predTable "not_equal" (cmpD x y) = some (decide (vx ≠ vy)) ∧
    predTable "not_less" (cmpD x y) = some (decide (¬ vx < vy)) ∧
    predTable "not_greater" (cmpD x y) = some (decide (¬ vx > vy)) ∧
    predTable "less_unordered" (cmpD x y) = some (decide (vx < vy)) ∧
    predTable "greater_unordered" (cmpD x y) = some (decide (vx > vy)) ∧
    predTable "ordered" (cmpD x y) = some true ∧
    predTable "unordered" (cmpD x y) = some false := by
  rw [cmpD_val x y vx vy hx hy]
  rcases lt_trichotomy vx vy with h | h | h
  · rw [compare_lt_iff_lt.2 h]
    simp only [gt_iff_lt, ge_iff_le, ne_eq, h, h.le, h.ne, h.not_gt, h.not_ge, not_true, not_false_eq_true,
      decide_true, decide_false]
    decide
  · rw [compare_eq_iff_eq.2 h]
    subst h
    simp only [gt_iff_lt, ge_iff_le, ne_eq, lt_irrefl, le_refl, not_true, not_false_eq_true,
      decide_true, decide_false]
    decide
  · rw [compare_gt_iff_gt.2 h]
    simp only [gt_iff_lt, ge_iff_le, ne_eq, h, h.le, h.ne', h.not_gt, h.not_ge, not_true, not_false_eq_true,
      decide_true, decide_false]
    decide

/-- the three basic predicates on numbers given by sign/coefficient/exponent -/
theorem less_equal_greater_fin (s1 : Bool) (c1 : Nat) (e1 : Int) (s2 : Bool) (c2 : Nat) (e2 : Int) :
    predTable "less" (cmpD (.fin s1 c1 e1) (.fin s2 c2 e2)) = some (decide (fval s1 c1 e1 < fval s2 c2 e2)) ∧
    predTable "equal" (cmpD (.fin s1 c1 e1) (.fin s2 c2 e2)) = some (decide (fval s1 c1 e1 = fval s2 c2 e2)) ∧
    predTable "greater" (cmpD (.fin s1 c1 e1) (.fin s2 c2 e2)) = some (decide (fval s1 c1 e1 > fval s2 c2 e2)) := by
  have h := predicates_by_value (.fin s1 c1 e1) (.fin s2 c2 e2) _ _ rfl rfl
  exact ⟨h.1, h.2.1, h.2.2.1⟩

example : (Datum.fin true 25 (-1)).val = some (-5/2) ∧ (Datum.fin false 3 0).val = some 3 := by
  constructor <;> norm_num [Datum.val, fval]
example : predTable "less" (cmpD (.fin true 25 (-1)) (.fin false 3 0)) = some true := by decide

/-! ### cohorts -/

/-- two representations of the same value compare equal -/
theorem same_value_equal (s1 : Bool) (c1 : Nat) (e1 : Int) (s2 : Bool) (c2 : Nat) (e2 : Int)
    (h : fval s1 c1 e1 = fval s2 c2 e2) : cmpD (.fin s1 c1 e1) (.fin s2 c2 e2) = some .eq := by
  simp [cmpD, (cmpFin_eq_iff ..).2 h]

/-- members of one cohort (`c·10^k × 10^(e−k)` and `c × 10^e`) compare equal, in either operand order -/
theorem cohort_equal (s : Bool) (c k : Nat) (e : Int) :
    cmpD (.fin s (c * 10 ^ k) (e - k)) (.fin s c e) = some .eq ∧
    cmpD (.fin s c e) (.fin s (c * 10 ^ k) (e - k)) = some .eq :=
  ⟨same_value_equal _ _ _ _ _ _ (fval_cohort s c k e), same_value_equal _ _ _ _ _ _ (fval_cohort s c k e).symm⟩

/-- so every predicate gives the same answer for all members of the cohorts of its operands -/
theorem cohort_invariant (name : String) (s : Bool) (c k : Nat) (e : Int) (y : Datum) :
    predTable name (cmpD (.fin s (c * 10 ^ k) (e - k)) y) = predTable name (cmpD (.fin s c e) y) ∧
    predTable name (cmpD y (.fin s (c * 10 ^ k) (e - k))) = predTable name (cmpD y (.fin s c e)) := by
  have hv := fval_cohort s c k e
  rcases y with ⟨s2, c2, e2⟩ | ⟨s2⟩ | _
  · simp only [cmpD, cmpFin_eq_compare, hv, and_self]
  · simp [cmpD]
  · simp [cmpD]

/-- zeros of either sign and any exponent are equal (restating `C03.zeros_equal` by value) -/
theorem zeros_equal_val (s1 s2 : Bool) (e1 e2 : Int) : fval s1 0 e1 = fval s2 0 e2 := by
  rw [fval_zero, fval_zero]

example : cmpD (.fin true (792 * 10 ^ 4) (1 - 4)) (.fin true 792 1) = some .eq := (cohort_equal true 792 4 1).1

/-! ### infinities and NaNs -/

/-- −Inf is below and +Inf above every number and each other; each infinity equals itself -/
theorem inf_bounds (s : Bool) (c : Nat) (e : Int) :
    predTable "less" (cmpD (.inf true) (.fin s c e)) = some true ∧
    predTable "less" (cmpD (.fin s c e) (.inf false)) = some true ∧
    predTable "greater" (cmpD (.inf false) (.fin s c e)) = some true ∧
    predTable "greater" (cmpD (.fin s c e) (.inf true)) = some true ∧
    predTable "less" (cmpD (.inf true) (.inf false)) = some true ∧
    predTable "equal" (cmpD (.inf true) (.inf true)) = some true ∧
    predTable "equal" (cmpD (.inf false) (.inf false)) = some true := by
  obtain ⟨h1, h2, h3, h4⟩ := C03.inf_bounds s c e
  rw [h1, h2, h3, h4]
  decide

/-- the numeric relation on all non-NaN data is the order of the extended rationals (−∞ = ⊥, +∞ = ⊤) -/
theorem cmpD_ext (x y : Datum) (hx : x.isNaN = false) (hy : y.isNaN = false) :
    cmpD x y = some (compare x.ext y.ext) := cmpD_eq_compare x y hx hy

/-- the basic predicates on all non-NaN data, by extended value -/
theorem less_equal_greater_ext (x y : Datum) (hx : x.isNaN = false) (hy : y.isNaN = false) :
    (predTable "less" (cmpD x y) = some true ↔ x.ext < y.ext) ∧
    (predTable "equal" (cmpD x y) = some true ↔ x.ext = y.ext) ∧
    (predTable "greater" (cmpD x y) = some true ↔ y.ext < x.ext) := by
  obtain ⟨h1, -, h3, -, -, h6, -⟩ := C03.pred_tables (cmpD x y)
  rw [h1, h3, h6, ← cmpD_lt_iff x y hx hy, ← cmpD_eq_iff_ext x y hx hy, ← cmpD_gt_iff x y hx hy]
  simp

/-- with a NaN operand: only `not_equal`, the `not_` and the `_unordered` predicates hold -/
theorem nan_operand (x y : Datum) (h : x.isNaN = true ∨ y.isNaN = true) :
    predTable "less" (cmpD x y) = some false ∧ predTable "equal" (cmpD x y) = some false ∧
    predTable "greater" (cmpD x y) = some false ∧ predTable "less_equal" (cmpD x y) = some false ∧
    predTable "greater_equal" (cmpD x y) = some false ∧ predTable "ordered" (cmpD x y) = some false ∧
    predTable "not_equal" (cmpD x y) = some true ∧ predTable "not_less" (cmpD x y) = some true ∧
    predTable "not_greater" (cmpD x y) = some true ∧ predTable "less_unordered" (cmpD x y) = some true ∧
    predTable "greater_unordered" (cmpD x y) = some true ∧ predTable "unordered" (cmpD x y) = some true := by
  rw [(C03.unordered_iff_nan x y).2 h]
  decide

example : predTable "less" (cmpD (.inf true) (.fin true (P34 - 1) 6111)) = some true := by decide

end Dec.C03Order
