/-
  C20 (generated-code level) — the Rust trait glue of /repo/src/d128.rs (`PartialEq`, `PartialOrd`, `Hash` for `d128`) as
  translated into `DecGen/Code.lean` (`Dec.Gen.Code.d128_eq`, `d128_partial_cmp`, `d128_lt/le/gt/ge`, `d128_hash`): for EVERY
  pair of 128-bit patterns each routine returns `.ok` (never panics) of what the specification-level model of
  `DecModel/Ops.lean` (`eqGlue`, `partialCmpGlue`, `hashKey`) says about the decoded operands — non-canonical encodings
  included — and therefore the laws proved about that model in `C20.lean` / `C20Order.lean` are laws of the source:
  `==` is an equivalence relation (all NaNs are one class, `+0 == -0`, cohort members are equal), `partial_cmp` is
  antisymmetric, agrees with `==`, and `<`, `<=`, `>`, `>=` agree with it on ALL operands (NaNs too); `<` and `<=` are
  transitive; `a == b` exactly when `hash(a) == hash(b)` as byte streams.

  The hasher is modelled by the translator as the list of bytes written so far.  `d128_hash x st = st ++ keyBytes (hashKey (dOf x))`:
  a class byte (3 NaN, 2 infinity, 0 zero, 1 other), for infinities and non-zero numbers the sign byte, and for non-zero
  numbers the 4 little-endian bytes of the exponent and the 16 of the coefficient after ALL trailing zeros have been moved
  into the exponent.  The `for _ in 0..4096` stripping loop always leaves through `break` (a non-zero coefficient below 10^34
  has at most 33 trailing zeros): the "loop fuel exhausted" exit is never taken.

  No deviation of the code from the specification-level model was found.
-/
import DecProofs.Properties.C03GenCompare
import DecProofs.Properties.C03GenCompare2
import DecProofs.Properties.C13GenNoncomp
import DecProofs.Properties.C20Order

set_option linter.unusedSimpArgs false
set_option linter.unusedVariables false

namespace Dec.C20GenGlue
open Dec.Rs Dec.Gen.Code
open Dec.C13GenNoncomp (bitsOf decodeW decode_bitsOf decodeW_cases)

/-- the datum a pair of words stands for (`bitsOf x = x.w1·2^64 + x.w0`, every pattern decodes) -/
abbrev dOf (x : U128) : Datum := decode (bitsOf x)

theorem dOf_WF (x : U128) : (dOf x).WF := decode_WF _

/-! ### the one-liners -/

theorem d128_is_nan_spec (x : U128) : d128_is_nan x = .ok (dOf x).isNaN := by
  unfold d128_is_nan
  rw [C13GenNoncomp.is_nan_spec]
theorem d128_is_infinite_spec (x : U128) : d128_is_infinite x = .ok (dOf x).isInf := by
  unfold d128_is_infinite
  rw [C13GenNoncomp.is_inf_spec]
theorem d128_is_zero_spec (x : U128) : d128_is_zero x = .ok (dOf x).isZero := by
  unfold d128_is_zero
  rw [C13GenNoncomp.is_zero_spec]
theorem d128_is_sign_minus_spec (x : U128) : d128_is_sign_minus x = .ok (dOf x).neg := by
  unfold d128_is_sign_minus
  rw [C13GenNoncomp.is_signed_spec]

/-! ### the quiet predicates, result only (the status word they return is dropped by the glue) -/

theorem q_unordered (x y : U128) (f : UInt32) :
    ∃ g, bid128_quiet_unordered x y f = .ok ((dOf x).isNaN || (dOf y).isNaN, g) :=
  ⟨_, C03GenCompare.quiet_unordered_spec x y f⟩
theorem q_ordered (x y : U128) (f : UInt32) :
    ∃ g, bid128_quiet_ordered x y f = .ok (!((dOf x).isNaN || (dOf y).isNaN), g) :=
  ⟨_, C03GenCompare.quiet_ordered_spec x y f⟩
theorem q_equal (x y : U128) (f : UInt32) :
    ∃ g, bid128_quiet_equal x y f = .ok (cmpD (dOf x) (dOf y) == some .eq, g) :=
  ⟨_, C03GenCompare.quiet_equal_spec x y f⟩
theorem q_less (x y : U128) (f : UInt32) :
    ∃ g, bid128_quiet_less x y f = .ok (cmpD (dOf x) (dOf y) == some .lt, g) :=
  ⟨_, C03GenCompare2.quiet_less_spec x y f⟩
theorem q_greater (x y : U128) (f : UInt32) :
    ∃ g, bid128_quiet_greater x y f = .ok (cmpD (dOf x) (dOf y) == some .gt, g) :=
  ⟨_, C03GenCompare.quiet_greater_spec x y f⟩

/-! ### 1. what each trait method returns -/

/-- **`d128::eq`** (`PartialEq`) returns the model's `eqGlue` of the decoded operands, for all pairs of patterns:
`true` for two NaNs (any sign, kind, payload), `false` for a NaN and a number, the numeric equality otherwise. -/
theorem d128_eq_spec (x y : U128) : d128_eq x y = .ok (eqGlue (dOf x) (dOf y)) := by
  obtain ⟨g1, h1⟩ := q_unordered x y c_StatusFlags_BID_EXACT_STATUS
  obtain ⟨g2, h2⟩ := q_ordered x y c_StatusFlags_BID_EXACT_STATUS
  obtain ⟨g3, h3⟩ := q_equal x y c_StatusFlags_BID_EXACT_STATUS
  unfold d128_eq
  simp only [bind, Except.bind]
  rw [d128_is_nan_spec, d128_is_nan_spec]; dsimp only
  unfold eqGlue
  cases hx : (dOf x).isNaN <;> cases hy : (dOf y).isNaN <;>
    simp only [Bool.and_true, Bool.and_false, Bool.or_true, Bool.or_false, Bool.false_eq_true, if_true, if_false,
      Bool.true_and, Bool.false_and, Bool.true_or, Bool.false_or, h1, h2, h3, hx, hy, pure, Except.pure, Bool.not_true,
      Bool.not_false]
example : d128_eq ⟨5, 0xfe00000000000001⟩ ⟨0, 0x7c00000000000000⟩ = .ok true := by decide +kernel
example : d128_eq ⟨10, 0x303e000000000000⟩ ⟨1, 0x3040000000000000⟩ = .ok true := by decide +kernel

/-- **`d128::partial_cmp`** (`PartialOrd`) returns the model's `partialCmpGlue`: `Some(Equal)` when `eq` holds (two NaNs
included), else `Some(Less)` / `Some(Greater)` by the numeric comparison, else (exactly one NaN) `None`. -/
theorem d128_partial_cmp_spec (x y : U128) :
    d128_partial_cmp x y = .ok (partialCmpGlue (dOf x) (dOf y)) := by
  obtain ⟨g1, h1⟩ := q_less x y c_StatusFlags_BID_EXACT_STATUS
  obtain ⟨g2, h2⟩ := q_greater x y g1
  unfold d128_partial_cmp
  simp only [bind, Except.bind]
  rw [d128_eq_spec]; dsimp only
  unfold partialCmpGlue
  cases he : eqGlue (dOf x) (dOf y)
  · simp only [Bool.false_eq_true, if_false]
    rw [h1]; dsimp only
    rcases hc : cmpD (dOf x) (dOf y) with _ | (_ | _ | _)
    all_goals
      simp only [hc] at h2 ⊢
      first
        | rfl
        | (rw [h2]; rfl)
  · simp only [if_true]; rfl
example : d128_partial_cmp ⟨5, 0xfe00000000000001⟩ ⟨0, 0x7c00000000000000⟩ = .ok (some .eq) := by decide +kernel
example : d128_partial_cmp ⟨5, 0xfe00000000000001⟩ ⟨1, 0x3040000000000000⟩ = .ok none := by decide +kernel
example : d128_partial_cmp ⟨9, 0x303e000000000000⟩ ⟨1, 0x3040000000000000⟩ = .ok (some .lt) := by decide +kernel

/-- **`d128::lt`** is the quiet `less` predicate: `true` exactly when the numeric comparison says Less; `false` whenever an
operand is a NaN (also for two NaNs). -/
theorem d128_lt_spec (x y : U128) : d128_lt x y = .ok (cmpD (dOf x) (dOf y) == some .lt) := by
  obtain ⟨g1, h1⟩ := q_less x y c_StatusFlags_BID_EXACT_STATUS
  unfold d128_lt
  simp only [bind, Except.bind]
  rw [h1]; rfl

/-- **`d128::gt`** is the quiet `greater` predicate. -/
theorem d128_gt_spec (x y : U128) : d128_gt x y = .ok (cmpD (dOf x) (dOf y) == some .gt) := by
  obtain ⟨g1, h1⟩ := q_greater x y c_StatusFlags_BID_EXACT_STATUS
  unfold d128_gt
  simp only [bind, Except.bind]
  rw [h1]; rfl

/-- **`d128::le`** is computed from `partial_cmp`: `true` exactly when that is `Some(Less)` or `Some(Equal)` — so `true`
for two NaNs, `false` for a NaN and a number (`C20Order.leGlue`). -/
theorem d128_le_spec (x y : U128) : d128_le x y = .ok (C20Order.leGlue (dOf x) (dOf y)) := by
  unfold d128_le
  simp only [bind, Except.bind]
  rw [d128_partial_cmp_spec]; dsimp only
  unfold C20Order.leGlue
  rcases partialCmpGlue (dOf x) (dOf y) with _ | (_ | _ | _) <;> rfl

/-- `>=` the same way: `Some(Greater)` or `Some(Equal)` -/
def geGlue (x y : Datum) : Bool := partialCmpGlue x y == some .gt || partialCmpGlue x y == some .eq

/-- **`d128::ge`** is computed from `partial_cmp`: `true` exactly when that is `Some(Greater)` or `Some(Equal)`. -/
theorem d128_ge_spec (x y : U128) : d128_ge x y = .ok (geGlue (dOf x) (dOf y)) := by
  unfold d128_ge
  simp only [bind, Except.bind]
  rw [d128_partial_cmp_spec]; dsimp only
  unfold geGlue
  rcases partialCmpGlue (dOf x) (dOf y) with _ | (_ | _ | _) <;> rfl
example : d128_le ⟨5, 0xfe00000000000001⟩ ⟨0, 0x7c00000000000000⟩ = .ok true
    ∧ d128_lt ⟨5, 0xfe00000000000001⟩ ⟨0, 0x7c00000000000000⟩ = .ok false
    ∧ d128_ge ⟨5, 0xfe00000000000001⟩ ⟨1, 0x3040000000000000⟩ = .ok false := by decide +kernel

/-! ### 2. the laws, about the source

`ok_inj` turns equations between `.ok` results into equations between the values. -/

theorem ok_inj {α : Type} {a b : α} : (Except.ok a : Except String α) = .ok b ↔ a = b :=
  ⟨fun h => by cases h; rfl, fun h => by rw [h]⟩

/-- `==` is reflexive on every pattern — NaNs included (this crate makes all NaNs equal) -/
theorem eq_refl (x : U128) : d128_eq x x = .ok true := by
  rw [d128_eq_spec, C20.eq_refl]
example : d128_eq ⟨5, 0xfe00000000000001⟩ ⟨5, 0xfe00000000000001⟩ = .ok true := by decide +kernel

/-- `==` is symmetric -/
theorem eq_symm (x y : U128) : d128_eq x y = d128_eq y x := by
  rw [d128_eq_spec, d128_eq_spec, C20Order.eq_symm]

/-- `==` is transitive, on all patterns -/
theorem eq_trans {x y z : U128} (h1 : d128_eq x y = .ok true) (h2 : d128_eq y z = .ok true) :
    d128_eq x z = .ok true := by
  rw [d128_eq_spec, ok_inj] at *
  exact C20Order.eq_trans h1 h2
example : d128_eq ⟨100, 0x303c000000000000⟩ ⟨10, 0x303e000000000000⟩ = .ok true
    ∧ d128_eq ⟨10, 0x303e000000000000⟩ ⟨1, 0x3040000000000000⟩ = .ok true
    ∧ d128_eq ⟨100, 0x303c000000000000⟩ ⟨1, 0x3040000000000000⟩ = .ok true := by decide +kernel

/-- a NaN is `==` to every NaN and to no number -/
theorem eq_nan (x y : U128) (hx : (dOf x).isNaN = true) : d128_eq x y = .ok (dOf y).isNaN := by
  rw [d128_eq_spec]
  cases hy : (dOf y).isNaN
  · rw [((C20.nan_classes (dOf x) (dOf y)).2 hx hy).1]
  · rw [(C20.nan_classes (dOf x) (dOf y)).1 hx hy]

/-- antisymmetry of `partial_cmp`: `a < b` exactly when `b > a` -/
theorem partial_cmp_lt_iff_gt (x y : U128) :
    d128_partial_cmp x y = .ok (some .lt) ↔ d128_partial_cmp y x = .ok (some .gt) := by
  rw [d128_partial_cmp_spec, d128_partial_cmp_spec, ok_inj, ok_inj, C20Order.partialCmp_lt_iff_gt]

/-- exchanging the operands mirrors the answer -/
theorem partial_cmp_swap (x y : U128) :
    d128_partial_cmp y x = (d128_partial_cmp x y).map (Option.map Ordering.swap) := by
  rw [d128_partial_cmp_spec, d128_partial_cmp_spec, C20Order.partialCmp_swap]; rfl

/-- `partial_cmp` answers `Equal` exactly when `==` holds -/
theorem partial_cmp_eq_iff (x y : U128) :
    d128_partial_cmp x y = .ok (some .eq) ↔ d128_eq x y = .ok true := by
  rw [d128_partial_cmp_spec, d128_eq_spec, ok_inj, ok_inj, C20.partialCmp_eq_iff]

/-- `a < b` agrees with `partial_cmp` on ALL operands: it is `true` exactly when `partial_cmp` is `Some(Less)` (for NaN
operands both sides say "no": `partial_cmp` of two NaNs is `Some(Equal)`, of a NaN and a number `None`, and `lt` is
`false`). -/
theorem lt_iff_partial_cmp (x y : U128) :
    d128_lt x y = .ok true ↔ d128_partial_cmp x y = .ok (some .lt) := by
  rw [d128_lt_spec, d128_partial_cmp_spec, ok_inj, ok_inj, C20Order.partialCmpGlue_lt_iff, beq_iff_eq]

/-- `a > b` agrees with `partial_cmp` on all operands -/
theorem gt_iff_partial_cmp (x y : U128) :
    d128_gt x y = .ok true ↔ d128_partial_cmp x y = .ok (some .gt) := by
  rw [d128_gt_spec, d128_partial_cmp_spec, ok_inj, ok_inj, C20Order.partialCmpGlue_gt_iff, beq_iff_eq]

/-- `a <= b` agrees with `partial_cmp` on all operands (it is computed from it) -/
theorem le_iff_partial_cmp (x y : U128) :
    d128_le x y = .ok true ↔
      (d128_partial_cmp x y = .ok (some .lt) ∨ d128_partial_cmp x y = .ok (some .eq)) := by
  rw [d128_le_spec, d128_partial_cmp_spec, ok_inj, ok_inj, ok_inj, C20Order.leGlue_iff]

/-- `a >= b` agrees with `partial_cmp` on all operands -/
theorem ge_iff_partial_cmp (x y : U128) :
    d128_ge x y = .ok true ↔
      (d128_partial_cmp x y = .ok (some .gt) ∨ d128_partial_cmp x y = .ok (some .eq)) := by
  rw [d128_ge_spec, d128_partial_cmp_spec, ok_inj, ok_inj, ok_inj]
  unfold geGlue
  simp only [Bool.or_eq_true, beq_iff_eq]

/-- hence `a <= b` is `a < b || a == b`, and `a >= b` is `a > b || a == b`, on all operands -/
theorem le_iff_lt_or_eq (x y : U128) :
    d128_le x y = .ok true ↔ (d128_lt x y = .ok true ∨ d128_eq x y = .ok true) := by
  rw [le_iff_partial_cmp, lt_iff_partial_cmp, partial_cmp_eq_iff]
theorem ge_iff_gt_or_eq (x y : U128) :
    d128_ge x y = .ok true ↔ (d128_gt x y = .ok true ∨ d128_eq x y = .ok true) := by
  rw [ge_iff_partial_cmp, gt_iff_partial_cmp, partial_cmp_eq_iff]

/-- `a < b` exactly when `b > a`; `a <= b` exactly when `b >= a` -/
theorem lt_iff_gt (x y : U128) : d128_lt x y = .ok true ↔ d128_gt y x = .ok true := by
  rw [lt_iff_partial_cmp, gt_iff_partial_cmp, partial_cmp_lt_iff_gt]
theorem le_iff_ge (x y : U128) : d128_le x y = .ok true ↔ d128_ge y x = .ok true := by
  rw [le_iff_lt_or_eq, ge_iff_gt_or_eq, lt_iff_gt, eq_symm x y]

/-- with a NaN operand: `<` and `>` are `false`; `<=` and `>=` are `true` exactly when the other operand is a NaN too
(because two NaNs are `==`); `partial_cmp` is `Some(Equal)` resp. `None`.  So `!(a < b)` is NOT `a >= b` when exactly one
operand is a NaN (both `a < b` and `a >= b` are `false`) — as for IEEE comparisons — while for two NaNs `a <= b`, `a >= b`
and `a == b` all hold, unlike IEEE. -/
theorem nan_left (x y : U128) (hx : (dOf x).isNaN = true) :
    d128_lt x y = .ok false ∧ d128_gt x y = .ok false ∧ d128_le x y = .ok (dOf y).isNaN
      ∧ d128_ge x y = .ok (dOf y).isNaN
      ∧ d128_partial_cmp x y = .ok (if (dOf y).isNaN then some .eq else none) := by
  have hc := cmpD_nan_left (dOf x) (dOf y) hx
  have hp : partialCmpGlue (dOf x) (dOf y) = if (dOf y).isNaN then some .eq else none := by
    rw [C20Order.partialCmpGlue_eq, hx, hc]; cases (dOf y).isNaN <;> rfl
  rw [d128_lt_spec, d128_gt_spec, d128_le_spec, d128_ge_spec, d128_partial_cmp_spec]
  unfold C20Order.leGlue geGlue
  rw [hp, hc]
  cases (dOf y).isNaN <;> exact ⟨rfl, rfl, rfl, rfl, rfl⟩
theorem nan_right (x y : U128) (hy : (dOf y).isNaN = true) :
    d128_lt x y = .ok false ∧ d128_gt x y = .ok false ∧ d128_le x y = .ok (dOf x).isNaN
      ∧ d128_ge x y = .ok (dOf x).isNaN
      ∧ d128_partial_cmp x y = .ok (if (dOf x).isNaN then some .eq else none) := by
  have hc := cmpD_nan_right (dOf x) (dOf y) hy
  have hp : partialCmpGlue (dOf x) (dOf y) = if (dOf x).isNaN then some .eq else none := by
    rw [C20Order.partialCmpGlue_eq, hy, hc]; cases (dOf x).isNaN <;> rfl
  rw [d128_lt_spec, d128_gt_spec, d128_le_spec, d128_ge_spec, d128_partial_cmp_spec]
  unfold C20Order.leGlue geGlue
  rw [hp, hc]
  cases (dOf x).isNaN <;> exact ⟨rfl, rfl, rfl, rfl, rfl⟩

/-- `<` is irreflexive and transitive -/
theorem lt_irrefl (x : U128) : d128_lt x x = .ok false := by
  rw [d128_lt_spec, ok_inj]
  cases hx : (dOf x).isNaN
  · rw [C20.cmpD_refl _ hx]; rfl
  · rw [cmpD_nan_left _ _ hx]; rfl
theorem lt_trans {x y z : U128} (h1 : d128_lt x y = .ok true) (h2 : d128_lt y z = .ok true) :
    d128_lt x z = .ok true := by
  rw [lt_iff_partial_cmp, d128_partial_cmp_spec, ok_inj] at *
  exact C20Order.partialCmp_trans_lt h1 h2
theorem gt_trans {x y z : U128} (h1 : d128_gt x y = .ok true) (h2 : d128_gt y z = .ok true) :
    d128_gt x z = .ok true := by
  rw [gt_iff_partial_cmp, d128_partial_cmp_spec, ok_inj] at *
  exact C20Order.partialCmp_trans_gt h1 h2

/-- `<=` is reflexive (all NaNs are equal), transitive, and antisymmetric up to `==` -/
theorem le_refl (x : U128) : d128_le x x = .ok true := by
  rw [d128_le_spec, C20Order.le_refl]
theorem le_trans {x y z : U128} (h1 : d128_le x y = .ok true) (h2 : d128_le y z = .ok true) :
    d128_le x z = .ok true := by
  rw [d128_le_spec, ok_inj] at *
  exact C20Order.le_trans h1 h2
theorem le_antisymm {x y : U128} (h1 : d128_le x y = .ok true) (h2 : d128_le y x = .ok true) :
    d128_eq x y = .ok true := by
  rw [d128_le_spec, ok_inj] at h1 h2
  rw [d128_eq_spec, ok_inj]
  exact C20Order.le_antisymm h1 h2
theorem ge_trans {x y z : U128} (h1 : d128_ge x y = .ok true) (h2 : d128_ge y z = .ok true) :
    d128_ge x z = .ok true := by
  rw [← le_iff_ge] at *
  exact le_trans h2 h1

/-- mixed transitivity: `a < b`, `b == c` give `a < c`; `a == b`, `b < c` give `a < c` -/
theorem lt_eq_trans {x y z : U128} (h1 : d128_lt x y = .ok true) (h2 : d128_eq y z = .ok true) :
    d128_lt x z = .ok true := by
  rw [← partial_cmp_eq_iff] at h2
  rw [lt_iff_partial_cmp, d128_partial_cmp_spec, ok_inj] at *
  exact C20Order.partialCmp_trans_lt_eq h1 h2
theorem eq_lt_trans {x y z : U128} (h1 : d128_eq x y = .ok true) (h2 : d128_lt y z = .ok true) :
    d128_lt x z = .ok true := by
  rw [← partial_cmp_eq_iff] at h1
  rw [lt_iff_partial_cmp, d128_partial_cmp_spec, ok_inj] at *
  exact C20Order.partialCmp_trans_eq_lt h1 h2
example : d128_lt ⟨0, 0xf800000000000000⟩ ⟨5, 0xb046000000000000⟩ = .ok true
    ∧ d128_lt ⟨5, 0xb046000000000000⟩ ⟨0, 0x3040000000000000⟩ = .ok true
    ∧ d128_lt ⟨0, 0xf800000000000000⟩ ⟨0, 0x3040000000000000⟩ = .ok true := by decide +kernel

/-! ### 3. `Hash`

The hasher is the list of bytes written.  First the bytes as a function of the (normalised) datum, then the stripping loop,
then `d128_hash` itself, then the law. -/

/-- `b as u8` -/
def b2u8 (b : Bool) : UInt8 := if b then 1 else 0

/-- the bytes `d128::hash` writes for a datum that is its own `hashKey`: class byte 3 (NaN) / 2 (infinity) / 0 (zero) /
1 (other); the sign byte for infinities and non-zero numbers; for non-zero numbers the exponent as the 4 little-endian
bytes of its `i32` two's complement and the coefficient as 16 little-endian bytes -/
def keyBytes : Datum → List UInt8
  | .nan _ _ _ => [3]
  | .inf s => [2, b2u8 s]
  | .fin s c e => if c = 0 then [0] else [1, b2u8 s] ++ leBytes (e % 4294967296).toNat 4 ++ leBytes c 16

/-- the bytes `d128::hash` feeds to the hasher for the pattern `x`: those of the model's `hashKey` of the decoded datum
(NaNs: one key; zeros: one key; non-zero numbers: sign, and exponent and coefficient with all trailing zeros of the
coefficient moved into the exponent; infinities: sign) -/
def key (x : U128) : List UInt8 := keyBytes (hashKey (dOf x))

example : key ⟨7920000, 0xb03a000000000000⟩ = [1, 1, 1, 0, 0, 0, 0x18, 0x03, 0, 0, 0, 0, 0, 0, 0, 0, 0, 0, 0, 0, 0, 0] := by
  decide +kernel
example : key ⟨5, 0xfe00000000000001⟩ = [3] ∧ key ⟨0, 0xb03a000000000000⟩ = [0] ∧ key ⟨9, 0xf800000000000000⟩ = [2, 1] := by
  decide +kernel

/-! #### the stripping loop -/

/-- the `for _ in 0..n { if coefficient % 10 != 0 { break } coefficient /= 10; exponent += 1 }` loop on its state -/
def stripIter : Nat → Nat × Int32 → Nat × Int32
  | 0, s => s
  | k + 1, s => if (!(s.1 % 10 == 0)) = true then s else stripIter k (s.1 / 10, s.2 + 1)

theorem forIn_list_strip {α} (l : List α) (f : α → Nat × Int32 → Except String (ForInStep (Nat × Int32)))
    (hf : ∀ a s, f a s = .ok (if (!(s.1 % 10 == 0)) = true then ForInStep.done s else ForInStep.yield (s.1 / 10, s.2 + 1))) :
    ∀ s, forIn l s f = .ok (stripIter l.length s) := by
  induction l with
  | nil => intro s; rfl
  | cons a t ih =>
    intro s
    rw [List.forIn_cons, hf]
    simp only [bind, Except.bind, List.length_cons, stripIter]
    by_cases hb : (!(s.1 % 10 == 0)) = true
    · simp only [hb, if_true]; rfl
    · simp only [hb, if_false]; exact ih _

theorem forIn_range_strip (n : Nat) (f : Nat → Nat × Int32 → Except String (ForInStep (Nat × Int32)))
    (hf : ∀ a s, f a s = .ok (if (!(s.1 % 10 == 0)) = true then ForInStep.done s else ForInStep.yield (s.1 / 10, s.2 + 1)))
    (s : Nat × Int32) : forIn [:n] s f = .ok (stripIter n s) := by
  rw [Std.Legacy.Range.forIn_eq_forIn_range', forIn_list_strip _ f hf]
  simp [Std.Legacy.Range.size]

theorem i32_add1 (a : Int32) (h : a.toInt + 1 < 2147483648) : (a + 1).toInt = a.toInt + 1 := by
  have := a.le_toInt
  rw [Int32.toInt_add, show (1 : Int32).toInt = 1 from by decide]
  simp only [Int.bmod]
  split <;> omega

/-- the loop removes exactly the trailing zeros `trailingZeros k` counts (at most `k`), adding their number to the
exponent (no `i32` wrap as long as `e + k` fits) -/
theorem stripIter_spec : ∀ (k c : Nat) (e : Int32), c ≠ 0 → e.toInt + k < 2147483648 →
    (stripIter k (c, e)).1 = c / 10 ^ trailingZeros k c
      ∧ (stripIter k (c, e)).2.toInt = e.toInt + trailingZeros k c := by
  intro k
  induction k with
  | zero => intro c e _ _; simp [stripIter, trailingZeros]
  | succ k ih =>
    intro c e hc he
    unfold stripIter trailingZeros
    by_cases h : c % 10 = 0
    · have hc10 : c / 10 ≠ 0 := by omega
      have he1 := i32_add1 e (by omega)
      obtain ⟨i1, i2⟩ := ih (c / 10) (e + 1) hc10 (by omega)
      simp only [h, beq_self_eq_true, Bool.not_true, Bool.false_eq_true, if_false, ne_eq, hc, not_false_eq_true,
        and_self, if_true]
      refine ⟨?_, ?_⟩
      · rw [i1, Nat.div_div_eq_div_mul, Nat.add_comm 1, Nat.pow_succ, Nat.mul_comm]
      · rw [i2, he1]; push_cast; omega
    · have hb : (!(c % 10 == 0)) = true := by simp [h]
      simp only [hb, if_true, h, and_false, if_false, Nat.pow_zero, Nat.div_one]
      exact ⟨trivial, by simp⟩

/-- more fuel than digits does not change the count -/
theorem trailingZeros_fuel : ∀ (f g n : Nat), f ≤ g → n ≠ 0 → n < 10 ^ f → trailingZeros g n = trailingZeros f n := by
  intro f
  induction f with
  | zero => intro g n _ hn hlt; simp at hlt; omega
  | succ f ih =>
    intro g n hfg hn hlt
    obtain ⟨g', rfl⟩ : ∃ g', g = g' + 1 := ⟨g - 1, by omega⟩
    unfold trailingZeros
    by_cases h : n % 10 = 0
    · have h10 : n / 10 ≠ 0 := by omega
      have hl : n / 10 < 10 ^ f := by rw [Nat.pow_succ] at hlt; omega
      simp only [ne_eq, hn, not_false_eq_true, h, and_self, if_true, ih g' (n / 10) (by omega) h10 hl]
    · simp only [h, and_false, if_false]

/-! #### `d128_hash` -/

theorem u8_of_bool (b : Bool) : UInt8.ofInt (toI b) = b2u8 b := by cases b <;> rfl

theorem toNat_ofInt32' (i : Int) : (UInt32.ofInt i).toNat = (i % 4294967296).toNat := by
  simp only [UInt32.ofInt, UInt32.toNat_ofNat']
  omega

/-- the shape of a pattern that is neither NaN, infinity nor zero: canonical, and its fields are the datum's -/
theorem nonzero_fin_fields (x : U128) (s : Bool) (c : Nat) (e : Int) (hD : dOf x = .fin s c e) (hc : c ≠ 0) :
    c = x.w1.toNat % 2 ^ 49 * 2 ^ 64 + x.w0.toNat ∧ c < P34
      ∧ e = ((x.w1.toNat / 2 ^ 49 % 2 ^ 14 : Nat) : Int) - 6176 := by
  have hdx : dOf x = decodeW x.w1.toNat x.w0.toNat := decode_bitsOf x
  rw [hdx] at hD
  rcases decodeW_cases x.w1.toNat x.w0.toNat with ⟨h1, h2, hd⟩ | ⟨h1, h2, h3, hd⟩ | ⟨h1, h2, h3, hd⟩ | ⟨h1, h2, hd⟩ |
    ⟨h1, h2, h3, hd⟩ | ⟨h1, h2, h3, hd⟩ <;> rw [hd] at hD <;> cases hD
  · exact absurd rfl hc
  · exact ⟨rfl, h3, rfl⟩
  · exact absurd rfl hc

/-- the two field extractions of `d128::hash` -/
theorem coeff_expr (x : U128) :
    (toI (x.w1 &&& c_MASK_COEFF)).toNat <<< 64 ||| (toI x.w0).toNat = x.w1.toNat % 2 ^ 49 * 2 ^ 64 + x.w0.toNat := by
  have hl : x.w0.toNat < 2 ^ 64 := x.w0.toNat_lt
  show (((x.w1 &&& 0x1ffffffffffff).toNat : Int)).toNat <<< 64 ||| ((x.w0.toNat : Int)).toNat = _
  rw [Int.toNat_natCast, Int.toNat_natCast, C13GenNoncomp.coeff_hi, ← Nat.shiftLeft_add_eq_or_of_lt hl, Nat.shiftLeft_eq]

theorem expo_expr (x : U128) :
    (Int32.ofInt (toI ((x.w1 &&& c_MASK_EXP) >>> 49)) - 6176).toInt
      = ((x.w1.toNat / 2 ^ 49 % 2 ^ 14 : Nat) : Int) - 6176 := by
  have hE : ((x.w1 &&& c_MASK_EXP) >>> 49).toNat = x.w1.toNat / 2 ^ 49 % 2 ^ 14 := by
    rw [UInt64.toNat_shiftRight, C13GenNoncomp.toNat_and_field x.w1 c_MASK_EXP 14 49 (by decide),
      show (49 : UInt64).toNat % 64 = 49 from by decide, Nat.shiftRight_eq_div_pow, Nat.mul_div_cancel _ (by decide)]
  have hlt : x.w1.toNat / 2 ^ 49 % 2 ^ 14 < 2 ^ 14 := Nat.mod_lt _ (by decide)
  show (Int32.ofInt ((((x.w1 &&& c_MASK_EXP) >>> 49).toNat : Nat) : Int) - 6176).toInt = _
  rw [hE, Int32.toInt_sub, Int32.toInt_ofInt, show (6176 : Int32).toInt = 6176 from by decide]
  generalize x.w1.toNat / 2 ^ 49 % 2 ^ 14 = E at *
  simp only [Int.bmod, Int32.size]
  split <;> split <;> omega

/-- **`d128::hash`** appends `key x` to the bytes written so far — for every pattern; in particular it never panics: the
"loop fuel exhausted" exit of the trailing-zero loop is never taken. -/
theorem d128_hash_spec (x : U128) (st : List UInt8) : d128_hash x st = .ok (st ++ key x) := by
  unfold d128_hash key
  simp only [bind, Except.bind]
  rw [d128_is_nan_spec]; dsimp only
  rcases hD : dOf x with ⟨s, c, e⟩ | ⟨s⟩ | ⟨s, g, p⟩
  · -- a number
    simp only [Datum.isNaN, Bool.false_eq_true, if_false]
    rw [d128_is_infinite_spec]; dsimp only
    rw [hD]
    simp only [Datum.isInf, Bool.false_eq_true, if_false]
    rw [d128_is_zero_spec]; dsimp only
    rw [hD]
    by_cases hc : c = 0
    · subst hc
      simp only [Datum.isZero, beq_self_eq_true, if_true, pure, Except.pure]
      rfl
    · have hz : (Datum.fin s c e).isZero = false := by simp [Datum.isZero, hc]
      simp only [hz, Bool.false_eq_true, if_false]
      obtain ⟨hcv, hcl, hev⟩ := nonzero_fin_fields x s c e hD hc
      rw [coeff_expr x, ← hcv]
      have he0 := expo_expr x
      rw [← hev] at he0
      generalize (Int32.ofInt (toI ((x.w1 &&& c_MASK_EXP) >>> 49)) - 6176) = e0 at he0 ⊢
      rw [forIn_range_strip 4096 _ (by intro a s; split <;> rfl)]
      dsimp only
      have hE : -6176 ≤ e ∧ e ≤ 6111 := by
        have := dOf_WF x; rw [hD] at this; exact ⟨this.2.1, this.2.2⟩
      obtain ⟨k1, k2⟩ := stripIter_spec 4096 c e0 hc (by omega)
      have hlt : c < 10 ^ 34 := by rw [← P34_eq]; exact hcl
      have htz : trailingZeros 4096 c = trailingZeros 34 c := trailingZeros_fuel 34 4096 c (by omega) hc hlt
      rw [htz] at k1 k2
      have hnz : (c / 10 ^ trailingZeros 34 c) % 10 ≠ 0 := trailingZeros_stripped 34 c hc hlt
      have hb : ((stripIter 4096 (c, e0)).1 % 10 == 0) = false := by rw [k1]; simp [hnz]
      simp only [hb, Bool.false_eq_true, if_false]
      rw [d128_is_sign_minus_spec]; dsimp only
      rw [hD, C20Order.hashKey_fin_nonzero s c e hc]
      have hq : c / 10 ^ trailingZeros 34 c ≠ 0 := by intro h0; rw [h0] at hnz; exact hnz rfl
      simp only [keyBytes, hq, if_false, pure, Except.pure, Datum.neg, u8_of_bool, toNat_ofInt32',
        k1, k2, he0, List.append_assoc, List.cons_append, List.nil_append]
      have hfin : toI (stripIter 4096 (c, e0)).2 = e + (trailingZeros 34 c : Int) := by
        show (stripIter 4096 (c, e0)).2.toInt = _
        rw [k2, he0]
      rw [hfin]
  · -- an infinity
    simp only [Datum.isNaN, Bool.false_eq_true, if_false]
    rw [d128_is_infinite_spec]; dsimp only
    rw [hD]
    simp only [Datum.isInf, if_true]
    rw [d128_is_sign_minus_spec]; dsimp only
    rw [hD]
    simp only [pure, Except.pure, Datum.neg, u8_of_bool, hashKey, keyBytes, List.append_assoc, List.cons_append,
      List.nil_append]
  · -- a NaN
    simp only [Datum.isNaN, if_true, pure, Except.pure]
    rfl

/-! #### the byte stream is a faithful image of the key -/

theorem leBytes_length (n k : Nat) : (leBytes n k).length = k := by simp [leBytes]

theorem leBytes_succ (n k : Nat) : leBytes n (k + 1) = leBytes n k ++ [UInt8.ofNat (n / 256 ^ k % 256)] := by
  simp [leBytes, List.range_succ]

/-- `k` little-endian bytes determine the number modulo `256^k` -/
theorem leBytes_inj : ∀ (k n m : Nat), leBytes n k = leBytes m k → n % 256 ^ k = m % 256 ^ k := by
  intro k
  induction k with
  | zero => intro n m _; simp [Nat.mod_one]
  | succ k ih =>
    intro n m h
    rw [leBytes_succ, leBytes_succ] at h
    obtain ⟨h1, h2⟩ := List.append_inj h (by rw [leBytes_length, leBytes_length])
    have h3 : UInt8.ofNat (n / 256 ^ k % 256) = UInt8.ofNat (m / 256 ^ k % 256) := by
      simpa using h2
    have h4 := congrArg UInt8.toNat h3
    simp only [UInt8.toNat_ofNat'] at h4
    have a : n / 256 ^ k % 256 = m / 256 ^ k % 256 := by omega
    rw [Nat.mod_pow_succ, Nat.mod_pow_succ, ih n m h1, a]

theorem b2u8_inj {a b : Bool} (h : b2u8 a = b2u8 b) : a = b := by
  cases a <;> cases b <;> first | rfl | (exact absurd h (by decide))

/-- what a `hashKey` looks like: one NaN, one zero, and numbers small enough for the byte fields -/
def KeyNorm : Datum → Prop
  | .nan s g p => s = false ∧ g = false ∧ p = 0
  | .inf _ => True
  | .fin s c e => (c = 0 → s = false ∧ e = 0) ∧ c < 2 ^ 128 ∧ -2147483648 ≤ e ∧ e < 2147483648

theorem hashKey_norm (d : Datum) (h : d.WF) : KeyNorm (hashKey d) := by
  rcases d with ⟨s, c, e⟩ | ⟨s⟩ | ⟨s, g, p⟩
  · by_cases hc : c = 0
    · subst hc; simp [hashKey, KeyNorm]
    · rw [C20Order.hashKey_fin_nonzero s c e hc]
      obtain ⟨h1, h2, h3⟩ := h
      have htz := trailingZeros_le 34 c
      have hle : c / 10 ^ trailingZeros 34 c ≤ c := Nat.div_le_self _ _
      have hq : c / 10 ^ trailingZeros 34 c ≠ 0 := by
        intro h0
        have hd := Nat.div_mul_cancel (trailingZeros_dvd 34 c)
        rw [h0] at hd; omega
      simp only [P34, eMin, eMax] at h1 h2 h3
      refine ⟨fun h0 => absurd h0 hq, by omega, by omega, by omega⟩
  · simp [hashKey, KeyNorm]
  · simp [hashKey, KeyNorm]

/-- on keys, the bytes determine the key -/
theorem keyBytes_inj {d1 d2 : Datum} (n1 : KeyNorm d1) (n2 : KeyNorm d2) (h : keyBytes d1 = keyBytes d2) : d1 = d2 := by
  rcases d1 with ⟨s1, c1, e1⟩ | ⟨s1⟩ | ⟨s1, g1, p1⟩ <;> rcases d2 with ⟨s2, c2, e2⟩ | ⟨s2⟩ | ⟨s2, g2, p2⟩
  · -- number, number
    obtain ⟨z1, l1, a1, b1⟩ := n1
    obtain ⟨z2, l2, a2, b2⟩ := n2
    unfold keyBytes at h
    by_cases hc1 : c1 = 0 <;> by_cases hc2 : c2 = 0
    · obtain ⟨rfl, rfl⟩ := z1 hc1; obtain ⟨rfl, rfl⟩ := z2 hc2; rw [hc1, hc2]
    · simp [hc1, hc2] at h
    · simp [hc1, hc2] at h
    · simp only [hc1, hc2, if_false, List.cons_append, List.nil_append, List.cons.injEq, true_and] at h
      obtain ⟨hs, hl⟩ := h
      obtain ⟨h4, h16⟩ := List.append_inj hl (by rw [leBytes_length, leBytes_length])
      have he := leBytes_inj 4 _ _ h4
      have hcc := leBytes_inj 16 _ _ h16
      have hs' := b2u8_inj hs
      norm_num at he hcc
      have : c1 = c2 := by omega
      have : e1 = e2 := by omega
      subst_vars; rfl
  · unfold keyBytes at h; by_cases hc1 : c1 = 0 <;> simp [hc1] at h
  · unfold keyBytes at h; by_cases hc1 : c1 = 0 <;> simp [hc1] at h
  · unfold keyBytes at h; by_cases hc2 : c2 = 0 <;> simp [hc2] at h
  · simp only [keyBytes, List.cons.injEq, and_true, true_and] at h
    rw [b2u8_inj h]
  · simp [keyBytes] at h
  · unfold keyBytes at h; by_cases hc2 : c2 = 0 <;> simp [hc2] at h
  · simp [keyBytes] at h
  · obtain ⟨rfl, rfl, rfl⟩ := n1; obtain ⟨rfl, rfl, rfl⟩ := n2; rfl

/-! #### the Hash law, about the source -/

/-- the key bytes of two patterns coincide exactly when the patterns are `==` -/
theorem key_eq_iff (x y : U128) : key x = key y ↔ d128_eq x y = .ok true := by
  rw [d128_eq_spec, ok_inj]
  constructor
  · intro h
    have := keyBytes_inj (hashKey_norm _ (dOf_WF x)) (hashKey_norm _ (dOf_WF y)) h
    exact C20Order.eq_of_hashKey_eq _ _ this
  · intro h
    unfold key
    rw [C20Order.hash_law _ _ (dOf_WF x) (dOf_WF y) h]

/-- **Hash law** (`k1 == k2 ⟹ hash(k1) == hash(k2)`): patterns that are `==` feed the same bytes to the hasher, from
any hasher state — all NaNs, all zeros, all members of a cohort. -/
theorem hash_eq_of_eq {x y : U128} (st : List UInt8) (h : d128_eq x y = .ok true) :
    d128_hash x st = d128_hash y st := by
  rw [d128_hash_spec, d128_hash_spec, (key_eq_iff x y).2 h]

/-- the converse: the byte stream is a complete invariant of `==` (no two unequal values are hashed alike) -/
theorem eq_of_hash_eq {x y : U128} (st : List UInt8) (h : d128_hash x st = d128_hash y st) :
    d128_eq x y = .ok true := by
  rw [d128_hash_spec, d128_hash_spec, ok_inj] at h
  exact (key_eq_iff x y).1 (List.append_cancel_left h)

theorem hash_eq_iff_eq (x y : U128) (st : List UInt8) :
    d128_hash x st = d128_hash y st ↔ d128_eq x y = .ok true :=
  ⟨eq_of_hash_eq st, hash_eq_of_eq st⟩

/-- `d128::hash` never panics -/
theorem hash_total (x : U128) (st : List UInt8) : ∃ r, d128_hash x st = .ok r := ⟨_, d128_hash_spec x st⟩

example : d128_hash ⟨7920000, 0xb03a000000000000⟩ [7] = d128_hash ⟨792, 0xb042000000000000⟩ [7] := by decide +kernel
example : d128_hash ⟨5, 0xfe00000000000001⟩ [] = .ok [3] ∧ d128_hash ⟨0, 0x7c00000000000000⟩ [] = .ok [3]
    ∧ d128_hash ⟨0, 0xb03a000000000000⟩ [] = .ok [0] ∧ d128_hash ⟨0, 0x3040000000000000⟩ [] = .ok [0] := by
  decide +kernel

end Dec.C20GenGlue
