import DecGen.Api
import DecProofs.Properties.C08GenRoundIntegral
import DecProofs.Properties.C08Q
import DecProofs.Properties.C11GenLogb
import DecProofs.Properties.C09GenQuantize
import DecProofs.Properties.C12GenNaN
import DecProofs.Properties.C01GenAddLoop
import DecProofs.Properties.C01GenSqrt

/-!
  SourceLevel3 — property-level theorems about the PUBLIC API of the source (`Dec.Gen.Api.run "<method>" mode flags args`) that
  only needed LIFTING of routine-level theorems, for rows of the method table that `SourceLevel.lean` / `SourceLevel2.lean`
  left open (`SourceLevel2.lean` is frozen; its table is superseded by the one below):

    §1 C08  `nearbyint`, `round_to_integral_exact`, `round_to_integral_ties_{toward_zero, toward_negative, toward_positive,
            to_even, to_away}` (C08GenRoundIntegral.*_spec): `<method>_spec`, `ri_meaning`, `ri_result` — unconditional;
    §2 C11  `logb` (C11GenLogb.logb_spec): `logb_spec`, `logb_cases` — unconditional;
    §3 C09  `quantize` on ALL operands (C09GenQuantize.quantize_spec — this closes "two finite operands, x ≠ 0"):
            `quantize_spec`, `quantize_result`, `quantize_property`, `quantize_same_quantum` — unconditional;
    §4      `fdim` (bid128_fdim.rs: quiet comparison with its flags discarded, then `+0E+0` or `bid128_sub`;
            C09GenQuantize.fdim_spec + C01GenAddLoop.bid128_sub_spec_partial): `fdim_le` unconditional (not `x > y`);
            `fdim_partial` on the proved region of `bid128_add`; `fdim_of_AddRounding` all inputs under the named hypothesis
            `C01GenAddLoop.AddRounding`;
    §5 C01  `square_root` (C01GenSqrt): `square_root_specials` (NaN, ±Inf, negative, ±0) and `square_root_exact` (perfect
            squares) unconditional; `square_root_of_LongOK` all inputs under the residual hypothesis
            `∀ C, 10^66 ≤ C → C < 10^68 → C01GenSqrt.LongOK C`;
    §6 C01  `multiplication`: `multiplication_zero` (a zero among two numbers) unconditional; `multiplication_is_fma`: on
            everything else the method IS `fused_multiply_add (y, x, +0E+6111)` (C01GenMul.mul_eq_fma).

  Every theorem holds for every 128-bit pattern (non-canonical ones included), every incoming status word and rounding mode,
  and says "returns normally" (`some (.ok …)`).  No deviation of the code from the model was found in the lifting.
  No `sorry`; axioms: the three standard ones.  Conditional theorems carry their hypothesis as an explicit argument.

  TABLE — all 123 dispatched methods → the theorem(s) stating the method's property about `Api.run` (file.name); hypotheses
  of conditional theorems in [ ].  For ALL 123: C14 / C15 (the status word on entry is only OR-ed into; results and raised
  bits do not depend on it; histories) is `C14GenHistory.api_frame`, `runHistory_frame`, `runHistory_flags`; the methods
  without a status word also `C14GenHistory.api_silent`.  `division` refers to C01GenDivFinal.lean (genCompare; being
  finished when this table was written — not imported here).

  encode_decimal                             SourceLevel.encode_decimal_spec, encode_decimal_datum, decode_encode_decimal, encode_decode_decimal
  decode_decimal                             SourceLevel.decode_decimal_spec, decode_decimal_datum, decode_encode_decimal, encode_decode_decimal
  abs                                        SourceLevel.abs_negate_spec
  class                                      SourceLevel.predicates_spec, class_consistent
  is_finite                                  SourceLevel.predicates_spec, class_consistent
  is_infinite                                SourceLevel.predicates_spec, class_consistent, noncanonical_treated
  is_nan                                     SourceLevel.predicates_spec, class_consistent
  is_normal                                  SourceLevel.predicates_spec, class_consistent, is_normal_iff
  is_signaling                               SourceLevel.predicates_spec, class_consistent
  is_sign_minus                              SourceLevel.predicates_spec, class_consistent
  is_subnormal                               SourceLevel.predicates_spec, class_consistent
  is_zero                                    SourceLevel.predicates_spec, class_consistent, noncanonical_treated
  negate                                     SourceLevel.abs_negate_spec
  same_quantum                               SourceLevel.same_quantum_spec, same_quantum_finite
  total_order                                SourceLevel.total_order_spec, total_order_refl, total_order_trans, total_order_total, total_order_antisymm, total_order_chain, total_order_cohort, total_order_nans
  total_order_mag                            SourceLevel.total_order_mag_spec
  fdim                                       SourceLevel3.fdim_partial, fdim_of_AddRounding, fdim_le  [fdim_partial: on `Proved` for x > y; fdim_of_AddRounding: all inputs under `AddRounding`; fdim_le unconditional]
  fused_multiply_add                         SourceLevel.fma_nan  — NaN operands only: numeric result OPEN
  fmod                                       C10GenFmodRem.api_fmod, fmod_property, invalid_property, yinf_property, far_property, fmod_accepted; NaN: SourceLevel.binary_nan
  frexp                                      SourceLevel.frexp_spec
  ldexp                                      SourceLevel.ldexp_spec, frame_scale
  llquantexp                                 SourceLevel.llquantexp_spec
  logb                                       SourceLevel3.logb_spec, logb_cases; NaN: SourceLevel.unary_nan
  lrint                                      SourceLevel.c_style_conversions
  llrint                                     SourceLevel.c_style_conversions
  lround                                     SourceLevel.c_style_conversions
  llround                                    SourceLevel.c_style_conversions
  log_b                                      SourceLevel2.log_b_spec, log_b_cases
  max_num                                    SourceLevel.max_num_spec, minmax_numbers, minmax_expected
  max_num_mag                                SourceLevel.max_num_mag_spec, minmax_numbers, minmax_expected
  min_num                                    SourceLevel.min_num_spec, minmax_numbers, minmax_expected
  min_num_mag                                SourceLevel.min_num_mag_spec, minmax_numbers, minmax_expected
  modf                                       SourceLevel2.modf_spec, modf_property, modf_specials, modf_accepted
  nearbyint                                  SourceLevel3.nearbyint_spec (+ ri_meaning, ri_result); NaN: SourceLevel.unary_nan
  next_after                                 SourceLevel.next_after_spec, next_accepted, binary_nan
  next_down                                  SourceLevel.next_down_spec, next_down_next_up, next_accepted, unary_nan
  next_toward                                SourceLevel.next_after_spec, next_accepted, binary_nan
  next_up                                    SourceLevel.next_up_spec, next_up_least, next_up_boundaries, next_down_next_up, next_accepted, unary_nan
  quantexp                                   SourceLevel.quantexp_spec
  quantize                                   SourceLevel3.quantize_spec, quantize_property, quantize_same_quantum, quantize_result  [all inputs]; SourceLevel.quantize_special, quantize_infinities, quantize_one_infinity, binary_nan
  quantum                                    SourceLevel.quantum_spec
  scaleb                                     SourceLevel.scaleb_spec, scaleb_in_range, scaleb_specials, frame_scale
  scalebln                                   SourceLevel.scalebln_spec, frame_scale
  square_root                                SourceLevel3.square_root_of_LongOK, square_root_specials, square_root_exact  [square_root_of_LongOK: all inputs under `LongOK`; square_root_specials, square_root_exact unconditional]; NaN: SourceLevel.unary_nan
  convert_to_i32_ties_to_even                SourceLevel2.convert_to_i32_ties_to_even_spec, convert_all, conv_meaning
  convert_to_i32_exact_ties_to_even          SourceLevel2.convert_to_i32_exact_ties_to_even_spec, convert_all, conv_meaning
  convert_to_i32_toward_negative             SourceLevel2.convert_to_i32_toward_negative_spec, convert_all, conv_meaning
  convert_to_i32_exact_toward_negative       SourceLevel2.convert_to_i32_exact_toward_negative_spec, convert_all, conv_meaning
  convert_to_i32_toward_positive             SourceLevel2.convert_to_i32_toward_positive_spec, convert_all, conv_meaning
  convert_to_i32_exact_toward_positive       SourceLevel2.convert_to_i32_exact_toward_positive_spec, convert_all, conv_meaning
  convert_to_i32_toward_zero                 SourceLevel2.convert_to_i32_toward_zero_spec, convert_all, conv_meaning
  convert_to_i32_exact_toward_zero           SourceLevel2.convert_to_i32_exact_toward_zero_spec, convert_all, conv_meaning
  convert_to_i32_ties_to_away                SourceLevel2.convert_to_i32_ties_to_away_spec, convert_all, conv_meaning
  convert_to_i32_exact_ties_to_away          SourceLevel2.convert_to_i32_exact_ties_to_away_spec, convert_all, conv_meaning
  convert_to_i64_toward_positive             SourceLevel2.convert_to_i64_toward_positive_spec, convert_all, conv_meaning
  convert_to_i64_toward_negative             SourceLevel2.convert_to_i64_toward_negative_spec, convert_all, conv_meaning
  convert_to_i64_toward_zero                 SourceLevel2.convert_to_i64_toward_zero_spec, convert_all, conv_meaning
  convert_to_i64_ties_to_even                SourceLevel2.convert_to_i64_ties_to_even_spec, convert_all, conv_meaning
  convert_to_i64_ties_to_away                SourceLevel2.convert_to_i64_ties_to_away_spec, convert_all, conv_meaning; SourceLevel.c_style_conversions
  convert_to_i64_exact_toward_positive       SourceLevel2.convert_to_i64_exact_toward_positive_spec, convert_all, conv_meaning; SourceLevel.c_style_conversions
  convert_to_i64_exact_toward_negative       SourceLevel2.convert_to_i64_exact_toward_negative_spec, convert_all, conv_meaning; SourceLevel.c_style_conversions
  convert_to_i64_exact_toward_zero           SourceLevel2.convert_to_i64_exact_toward_zero_spec, convert_all, conv_meaning; SourceLevel.c_style_conversions
  convert_to_i64_exact_ties_to_even          SourceLevel2.convert_to_i64_exact_ties_to_even_spec, convert_all, conv_meaning; SourceLevel.c_style_conversions
  convert_to_i64_exact_ties_to_away          SourceLevel2.convert_to_i64_exact_ties_to_away_spec, convert_all, conv_meaning; SourceLevel.c_style_conversions
  convert_to_u32_toward_positive             SourceLevel2.convert_to_u32_toward_positive_spec, convert_all, conv_meaning
  convert_to_u32_toward_negative             SourceLevel2.convert_to_u32_toward_negative_spec, convert_all, conv_meaning
  convert_to_u32_toward_zero                 SourceLevel2.convert_to_u32_toward_zero_spec, convert_all, conv_meaning
  convert_to_u32_ties_to_even                SourceLevel2.convert_to_u32_ties_to_even_spec, convert_all, conv_meaning
  convert_to_u32_ties_to_away                SourceLevel2.convert_to_u32_ties_to_away_spec, convert_all, conv_meaning
  convert_to_u32_exact_toward_positive       SourceLevel2.convert_to_u32_exact_toward_positive_spec, convert_all, conv_meaning
  convert_to_u32_exact_toward_negative       SourceLevel2.convert_to_u32_exact_toward_negative_spec, convert_all, conv_meaning
  convert_to_u32_exact_toward_zero           SourceLevel2.convert_to_u32_exact_toward_zero_spec, convert_all, conv_meaning
  convert_to_u32_exact_ties_to_even          SourceLevel2.convert_to_u32_exact_ties_to_even_spec, convert_all, conv_meaning
  convert_to_u32_exact_ties_to_away          SourceLevel2.convert_to_u32_exact_ties_to_away_spec, convert_all, conv_meaning
  convert_to_u64_toward_positive             SourceLevel2.convert_to_u64_toward_positive_spec, convert_all, conv_meaning
  convert_to_u64_toward_negative             SourceLevel2.convert_to_u64_toward_negative_spec, convert_all, conv_meaning
  convert_to_u64_toward_zero                 SourceLevel2.convert_to_u64_toward_zero_spec, convert_all, conv_meaning
  convert_to_u64_ties_to_even                SourceLevel2.convert_to_u64_ties_to_even_spec, convert_all, conv_meaning
  convert_to_u64_ties_to_away                SourceLevel2.convert_to_u64_ties_to_away_spec, convert_all, conv_meaning
  convert_to_u64_exact_toward_positive       SourceLevel2.convert_to_u64_exact_toward_positive_spec, convert_all, conv_meaning
  convert_to_u64_exact_toward_negative       SourceLevel2.convert_to_u64_exact_toward_negative_spec, convert_all, conv_meaning
  convert_to_u64_exact_toward_zero           SourceLevel2.convert_to_u64_exact_toward_zero_spec, convert_all, conv_meaning
  convert_to_u64_exact_ties_to_even          SourceLevel2.convert_to_u64_exact_ties_to_even_spec, convert_all, conv_meaning
  convert_to_u64_exact_ties_to_away          SourceLevel2.convert_to_u64_exact_ties_to_away_spec, convert_all, conv_meaning
  addition                                   C01GenAddLoop.api_addition_partial, addition_property_partial  [on `Proved (dOf x) (dOf y)`; all inputs under `AddRounding`: bid128_add_spec_partial']; NaN: SourceLevel.binary_nan
  division                                   C01GenDivFinal.api_division, quotient_property  [hypothesis `CornerMargin`]; unconditional there: api_division_of / quotient_property_of (per pair, given its corner condition), quotient_property_free, exact_property, div_by_zero_property, invalid_property, inf_property, zero_property, nan_property; NaN: SourceLevel.binary_nan
  multiplication                             SourceLevel3.multiplication_zero, multiplication_is_fma  [zero case; otherwise = fused_multiply_add (y, x, +0E+6111): OPEN there]; NaN: SourceLevel.binary_nan
  remainder                                  C10GenFmodRem.api_remainder, remainder_property, invalid_property, yinf_property, far_property, rem_accepted; NaN: SourceLevel.binary_nan
  subtraction                                C01GenAddLoop.api_subtraction_partial, subtraction_property_partial  [on `Proved (dOf x) (dOf y).negate`; all inputs under `AddRounding`]; NaN: SourceLevel.binary_nan
  compare_quiet_equal                        SourceLevel.compare_quiet_equal_spec, compare_exactly_one, compare_by_value, compare_nan_operand
  compare_quiet_greater                      SourceLevel.compare_quiet_greater_spec, compare_exactly_one, compare_by_value, compare_nan_operand
  compare_quiet_unordered                    SourceLevel.compare_quiet_unordered_spec, compare_exactly_one, compare_nan_operand
  compare_quiet_ordered                      SourceLevel.compare_quiet_ordered_spec
  compare_quiet_greater_equal                SourceLevel.compare_quiet_greater_equal_spec, compare_by_value
  compare_quiet_greater_unordered            SourceLevel.compare_quiet_greater_unordered_spec
  compare_quiet_less                         SourceLevel.compare_quiet_less_spec, compare_exactly_one, compare_by_value, compare_nan_operand
  compare_quiet_less_equal                   SourceLevel.compare_quiet_less_equal_spec, compare_by_value
  compare_quiet_less_unordered               SourceLevel.compare_quiet_less_unordered_spec
  compare_quiet_not_equal                    SourceLevel.compare_quiet_not_equal_spec, compare_by_value, compare_nan_operand
  compare_quiet_not_greater                  SourceLevel.compare_quiet_not_greater_spec
  compare_quiet_not_less                     SourceLevel.compare_quiet_not_less_spec
  compare_signaling_greater                  SourceLevel.compare_signaling_greater_spec, compare_by_value
  compare_signaling_greater_equal            SourceLevel.compare_signaling_greater_equal_spec
  compare_signaling_greater_unordered        SourceLevel.compare_signaling_greater_unordered_spec
  compare_signaling_less                     SourceLevel.compare_signaling_less_spec, compare_by_value
  compare_signaling_less_equal               SourceLevel.compare_signaling_less_equal_spec
  compare_signaling_less_unordered           SourceLevel.compare_signaling_less_unordered_spec
  compare_signaling_not_greater              SourceLevel.compare_signaling_not_greater_spec
  compare_signaling_not_less                 SourceLevel.compare_signaling_not_less_spec
  round_to_integral_exact                    SourceLevel3.round_to_integral_exact_spec (+ ri_meaning, ri_result); NaN: SourceLevel.unary_nan
  round_to_integral_ties_to_away             SourceLevel3.round_to_integral_ties_to_away_spec (+ ri_meaning, ri_result); NaN: SourceLevel.unary_nan
  round_to_integral_ties_to_even             SourceLevel3.round_to_integral_ties_to_even_spec (+ ri_meaning, ri_result); NaN: SourceLevel.unary_nan
  round_to_integral_ties_toward_negative     SourceLevel3.round_to_integral_ties_toward_negative_spec (+ ri_meaning, ri_result); NaN: SourceLevel.unary_nan
  round_to_integral_ties_toward_positive     SourceLevel3.round_to_integral_ties_toward_positive_spec (+ ri_meaning, ri_result); NaN: SourceLevel.unary_nan
  round_to_integral_ties_toward_zero         SourceLevel3.round_to_integral_ties_toward_zero_spec (+ ri_meaning, ri_result); NaN: SourceLevel.unary_nan
  eq                                         SourceLevel.eq_spec, eq_refl, eq_symm, eq_trans, eq_by_value, eq_nan, partial_cmp_agrees, hash_eq_iff_eq
  lt                                         SourceLevel.lt_spec, partial_cmp_agrees, lt_trans
  le                                         SourceLevel.le_spec, le_trans
  gt                                         SourceLevel.gt_spec, partial_cmp_agrees
  ge                                         SourceLevel.ge_spec
  partial_cmp                                SourceLevel.partial_cmp_spec, partial_cmp_agrees, partial_cmp_swap
  ne                                         SourceLevel.ne_spec
  hash                                       SourceLevel.hash_eq_iff_eq

  STILL OPEN (numeric result, beyond the NaN rule):
    fused_multiply_add        everything but NaN operands (C02GenFma* files: routine-level work in progress);
    multiplication            two non-zero numbers and infinite operands: = fused_multiply_add (y, x, +0E+6111) (§6);
  CONDITIONAL (proved relative to one named hypothesis each; unconditional on the stated sub-regions):
    addition, subtraction     `C01GenAddLoop.AddRounding` (the rounding loop `34 − q_L < delta < 34` and the power-of-ten
                              sub-case of `delta = 34`); unconditional on `Proved`;
    fdim                      the same hypothesis, needed only for `x > y` with `x − y` in that region (§4);
    division                  `C01GenDivFinal.CornerMargin` (the 256-bit division helper at its call sites);
    square_root               `C01GenSqrt.LongOK` (`bid_long_sqrt128` returns `⌊√C⌋` or `⌊√C⌋ + 1`) for inexact roots (§5).
-/
namespace Dec.SourceLevel3
open Dec.Rs Dec.Gen.Code Dec.Gen.Api Dec
open Dec.C06GenFromInt (ofBits bitsOf_ofBits ofBits_bitsOf eq_ofBits)
open Dec.C12GenNaN
open Dec.C08GenRoundIntegral (riD riFlags riFlagsX modeOf)

/-- the 128-bit pattern of a `d128` value (`w[1]·2^64 + w[0]`); the same function as the `bitsOf` of every `…Gen…` file -/
abbrev bitsOf (x : U128) : Nat := Dec.C06GenFromInt.bitsOf x
/-- the datum a value denotes -/
abbrev dOf (x : U128) : Datum := decode (bitsOf x)

/-- a result `ofBits (encode d)` for a well-formed `d` denotes `d` and is canonical -/
theorem result_datum {d : Datum} (w : d.WF) : dOf (ofBits (encode d)) = d ∧ isCanonical (bitsOf (ofBits (encode d))) = true := by
  unfold dOf
  rw [show bitsOf (ofBits (encode d)) = encode d from bitsOf_ofBits (encode_lt w)]
  exact ⟨decode_encode w, isCanonical_encode w⟩

/-! ## 1. `nearbyint`, `round_to_integral_exact` and the five fixed-direction `round_to_integral_*` (C08) -/

/-- what a round-to-integral method that does not signal inexact returns: the canonical pattern of `riD mode` (quiet NaN for a
NaN, else `toIntegralD mode`), `invalid` OR-ed in iff the operand is a signalling NaN -/
abbrev riOut (mode : Mode) (x : U128) (f : UInt32) : Option (Except String (List AVal × UInt32)) :=
  some (.ok ([.d (ofBits (encode (riD mode (dOf x))))], riFlags f (dOf x)))

/-- … and the inexact-signalling one: in addition `inexact` iff the value changed -/
abbrev riOutX (mode : Mode) (x : U128) (f : UInt32) : Option (Except String (List AVal × UInt32)) :=
  some (.ok ([.d (ofBits (encode (riD mode (dOf x))))], riFlagsX f mode (dOf x)))

/-- C08, `round_to_integral_ties_toward_zero`: "return the integral-valued decimal obtained by rounding the exact value in
that direction", toward zero; never inexact -/
theorem round_to_integral_ties_toward_zero_spec (m : RoundingMode) (f : UInt32) (x : U128) :
    run "round_to_integral_ties_toward_zero" m f [.d x] = riOut .rtz x f := by
  show some ((bid128_round_integral_zero x f).map _) = _
  rw [Dec.C08GenRoundIntegral.round_integral_zero_spec]; rfl

/-- C08, `round_to_integral_ties_toward_negative`: toward −∞ (floor); never inexact -/
theorem round_to_integral_ties_toward_negative_spec (m : RoundingMode) (f : UInt32) (x : U128) :
    run "round_to_integral_ties_toward_negative" m f [.d x] = riOut .rdn x f := by
  show some ((bid128_round_integral_negative x f).map _) = _
  rw [Dec.C08GenRoundIntegral.round_integral_negative_spec]; rfl

/-- C08, `round_to_integral_ties_toward_positive`: toward +∞ (ceiling); never inexact -/
theorem round_to_integral_ties_toward_positive_spec (m : RoundingMode) (f : UInt32) (x : U128) :
    run "round_to_integral_ties_toward_positive" m f [.d x] = riOut .rup x f := by
  show some ((bid128_round_integral_positive x f).map _) = _
  rw [Dec.C08GenRoundIntegral.round_integral_positive_spec]; rfl

/-- C08, `round_to_integral_ties_to_even`: to nearest, ties to even; never inexact -/
theorem round_to_integral_ties_to_even_spec (m : RoundingMode) (f : UInt32) (x : U128) :
    run "round_to_integral_ties_to_even" m f [.d x] = riOut .rne x f := by
  show some ((bid128_round_integral_nearest_even x f).map _) = _
  rw [Dec.C08GenRoundIntegral.round_integral_nearest_even_spec]; rfl

/-- C08, `round_to_integral_ties_to_away`: to nearest, ties away from zero; never inexact -/
theorem round_to_integral_ties_to_away_spec (m : RoundingMode) (f : UInt32) (x : U128) :
    run "round_to_integral_ties_to_away" m f [.d x] = riOut .rna x f := by
  show some ((bid128_round_integral_nearest_away x f).map _) = _
  rw [Dec.C08GenRoundIntegral.round_integral_nearest_away_spec]; rfl

/-- C08, `nearbyint`: rounds in the rounding mode given; never inexact -/
theorem nearbyint_spec (m : RoundingMode) (f : UInt32) (x : U128) :
    run "nearbyint" m f [.d x] = riOut (modeOf m) x f := by
  show some ((bid128_nearbyint x m f).map _) = _
  rw [Dec.C08GenRoundIntegral.nearbyint_spec]; rfl

/-- C08, `round_to_integral_exact`: rounds in the rounding mode given; "Only round-to-integral-exact raises inexact (exactly
when the value changed)" -/
theorem round_to_integral_exact_spec (m : RoundingMode) (f : UInt32) (x : U128) :
    run "round_to_integral_exact" m f [.d x] = riOutX (modeOf m) x f := by
  show some ((bid128_round_integral_exact x m f).map _) = _
  rw [Dec.C08GenRoundIntegral.round_integral_exact_spec]; rfl


theorem riD_WF (mode : Mode) {d : Datum} (h : d.WF) : (riD mode d).WF := by
  unfold riD
  cases d with
  | nan s g p => exact h
  | inf s => exact h
  | fin s c e =>
    show (toIntegralD mode (.fin s c e)).1.WF
    obtain ⟨hc, h1, h2⟩ := h
    by_cases he : 0 ≤ e
    · rw [Dec.C08.integral_unchanged mode s c e he]; exact ⟨hc, h1, h2⟩
    · rw [Dec.C08.integral_rounded mode s c e (by omega)]
      have hle := roundInt_le mode s (c / 10 ^ (-e).toNat) (c % 10 ^ (-e).toNat) (10 ^ (-e).toNat)
      have hk : 1 ≤ (-e).toNat := by omega
      have h10 : 10 ^ 1 ≤ 10 ^ (-e).toNat := Nat.pow_le_pow_right (by decide) hk
      have hq : c / 10 ^ (-e).toNat ≤ c / 10 := by
        rw [Nat.pow_one] at h10; exact Nat.div_le_div_left h10 (by decide)
      unfold P34 at hc
      show roundInt mode s (c / 10 ^ (-e).toNat) (c % 10 ^ (-e).toNat) (10 ^ (-e).toNat) < P34 ∧ eMin ≤ 0 ∧ (0 : Int) ≤ eMax
      unfold P34
      refine ⟨by omega, by unfold eMin; omega, by unfold eMax; omega⟩

/-- **what `riD` is** — the sentences of C08: a NaN comes back quiet (canonical payload); "infinities are returned as is";
"operands whose exponent is already non-negative are returned unchanged, all others come back as that integer with exponent
zero, zero results keep the operand's sign"; the integer is the exact value rounded in the direction `mode`
(`RoundedZ mode (value of x) n`: floor / ceiling / truncation / nearest with ties to even / nearest with ties away), and
the "changed" indicator of `toIntegralD` (the inexact flag of `round_to_integral_exact`) is true exactly when x is not an
integer -/
theorem ri_meaning (mode : Mode) (x : U128) :
    ((dOf x).isNaN = true → riD mode (dOf x) = quietNaN (dOf x)) ∧
    (∀ s, dOf x = .inf s → riD mode (dOf x) = .inf s) ∧
    (∀ s c e, dOf x = .fin s c e → ∀ n : Int, RoundedZ mode (fval s c e) n →
      ∃ k, riD mode (dOf x) = .fin s k (Dec.C08Q.resExp e) ∧ fval s k (Dec.C08Q.resExp e) = (n : ℚ) ∧ (0 ≤ e → k = c) ∧
        ((toIntegralD mode (dOf x)).2 = true ↔ ¬ IsInt (fval s c e))) := by
  refine ⟨?_, ?_, ?_⟩
  · intro h; unfold riD; rw [if_pos h]
  · intro s h; rw [h]; rfl
  · intro s c e h n hn
    rw [h]
    obtain ⟨k, h1, h2, h3, -, h5⟩ := Dec.C08Q.toIntegral_spec mode s c e n hn
    exact ⟨k, h1, h2, h3, h5⟩

/-- the result pattern is canonical and denotes `riD`; the flag words: `invalid` (0x01) iff the operand is a signalling NaN;
for `round_to_integral_exact` in addition `inexact` (0x20) iff the value changed -/
theorem ri_result (mode : Mode) (x : U128) (f : UInt32) :
    dOf (ofBits (encode (riD mode (dOf x)))) = riD mode (dOf x) ∧
    isCanonical (bitsOf (ofBits (encode (riD mode (dOf x))))) = true ∧
    riFlags f (dOf x) = (if (dOf x).isSNaN then f ||| 1 else f) ∧
    riFlagsX f mode (dOf x) = (if (dOf x).isSNaN then f ||| 1 else if (toIntegralD mode (dOf x)).2 then f ||| 0x20 else f) :=
  ⟨(result_datum (riD_WF mode (decode_WF _))).1, (result_datum (riD_WF mode (decode_WF _))).2, rfl, rfl⟩

-- −2.5: toward zero −2, floor −3, ceiling −2, to even −2, away −3; nearbyint in Upward: −2; all without a flag (status word
-- 8 on entry); round_to_integral_exact raises inexact; 7E+2 and −Inf come back as they are; an sNaN is quieted, invalid
example : run "round_to_integral_ties_toward_zero" .NearestEven 8 [.d ⟨25, 0xb03e000000000000⟩]
    = some (.ok ([.d ⟨2, 0xb040000000000000⟩], 8)) := by decide +kernel
example : run "round_to_integral_ties_toward_negative" .NearestEven 8 [.d ⟨25, 0xb03e000000000000⟩]
    = some (.ok ([.d ⟨3, 0xb040000000000000⟩], 8)) := by decide +kernel
example : run "round_to_integral_ties_toward_positive" .NearestEven 8 [.d ⟨25, 0xb03e000000000000⟩]
    = some (.ok ([.d ⟨2, 0xb040000000000000⟩], 8)) := by decide +kernel
example : run "round_to_integral_ties_to_even" .NearestEven 8 [.d ⟨25, 0xb03e000000000000⟩]
    = some (.ok ([.d ⟨2, 0xb040000000000000⟩], 8)) := by decide +kernel
example : run "round_to_integral_ties_to_away" .NearestEven 8 [.d ⟨25, 0xb03e000000000000⟩]
    = some (.ok ([.d ⟨3, 0xb040000000000000⟩], 8)) := by decide +kernel
example : run "nearbyint" .Upward 8 [.d ⟨25, 0xb03e000000000000⟩]
    = some (.ok ([.d ⟨2, 0xb040000000000000⟩], 8)) := by decide +kernel
example : run "round_to_integral_exact" .Upward 8 [.d ⟨25, 0xb03e000000000000⟩]
    = some (.ok ([.d ⟨2, 0xb040000000000000⟩], 0x28)) := by decide +kernel
example : run "round_to_integral_exact" .Downward 8 [.d ⟨7, 0x3044000000000000⟩]
    = some (.ok ([.d ⟨7, 0x3044000000000000⟩], 8)) := by decide +kernel
example : run "round_to_integral_ties_to_even" .NearestEven 8 [.d ⟨5, 0xf800000000000001⟩]
    = some (.ok ([.d ⟨0, 0xf800000000000000⟩], 8)) := by decide +kernel
example : run "nearbyint" .NearestEven 8 [.d ⟨5, 0xfe00000000000000⟩]
    = some (.ok ([.d ⟨5, 0xfc00000000000000⟩], 9)) := by decide +kernel
-- −0.3 upward: −0 (the sign is kept)
example : run "round_to_integral_ties_toward_positive" .NearestEven 0 [.d ⟨3, 0xb03e000000000000⟩]
    = some (.ok ([.d ⟨0, 0xb040000000000000⟩], 0)) := by decide +kernel
-- through the theorems
example : riD .rne (dOf ⟨25, 0xb03e000000000000⟩) = .fin true 2 0 := by decide +kernel

/-! ## 2. `logb` (C11) -/

/-- C11: "logb … return[s] the adjusted exponent (digits + exponent − 1) of any finite nonzero x exactly, with the standard's
zero/infinity/NaN results and flags": on every pattern and status word the method returns normally the canonical encoding of
`logbSpec`'s datum (`logbD`, and the NaN rule for a NaN) and ORs its flags into the status word -/
theorem logb_spec (m : RoundingMode) (f : UInt32) (x : U128) :
    run "logb" m f [.d x] = some (.ok ([.d (ofBits (encode (Dec.C11GenLogb.logbSpec (dOf x)).1))],
      f ||| UInt32.ofNat (Dec.C11GenLogb.logbSpec (dOf x)).2)) := by
  show some ((bid128_logb x f).map _) = _
  rw [Dec.C11GenLogb.logb_spec]; rfl

/-- … spelled out: a finite non-zero `±c·10^e` gives the integer `ndigits c + e − 1` as a decimal with exponent 0 and no
flag; a zero gives `−Inf` with division-by-zero (0x04); an infinity gives `+Inf`; a NaN comes back quiet, invalid iff it is
signalling -/
theorem logb_cases (m : RoundingMode) (f : UInt32) (x : U128) :
    (∀ s c e, dOf x = .fin s c e → c ≠ 0 →
      run "logb" m f [.d x] = some (.ok ([.d (ofBits (encode (fromIntD ((ndigits c : Int) + e - 1))))], f))) ∧
    (∀ s e, dOf x = .fin s 0 e → run "logb" m f [.d x] = some (.ok ([.d (ofBits (encode (.inf true)))], f ||| 4))) ∧
    (∀ s, dOf x = .inf s → run "logb" m f [.d x] = some (.ok ([.d (ofBits (encode (.inf false)))], f))) ∧
    ((dOf x).isNaN = true → run "logb" m f [.d x]
      = some (.ok ([.d (ofBits (encode (quietNaN (dOf x))))], if (dOf x).isSNaN then f ||| 1 else f))) := by
  have or0 : f ||| UInt32.ofNat 0 = f := UInt32.or_zero
  refine ⟨?_, ?_, ?_, ?_⟩
  · intro s c e hd hc
    rw [logb_spec, hd]
    have : Dec.C11GenLogb.logbSpec (.fin s c e) = (fromIntD ((ndigits c : Int) + e - 1), 0) := by
      unfold Dec.C11GenLogb.logbSpec logbD adjExp
      simp only [Datum.isNaN, Bool.false_eq_true, if_false, hc]
    rw [this, or0]
  · intro s e hd
    rw [logb_spec, hd]; rfl
  · intro s hd
    rw [logb_spec, hd]
    have : Dec.C11GenLogb.logbSpec (.inf s) = (.inf false, 0) := rfl
    rw [this, or0]
  · intro hn
    rw [logb_spec]
    have : Dec.C11GenLogb.logbSpec (dOf x) = (quietNaN (dOf x), if (dOf x).isSNaN then fInvalid else 0) := by
      unfold Dec.C11GenLogb.logbSpec; rw [if_pos hn]
    rw [this]
    cases (dOf x).isSNaN
    · simp only [Bool.false_eq_true, if_false]; rw [or0]
    · rfl

-- 12345·10^0: 4; 12345·10^−6176: −6172; a zero: −Inf, division by zero; −Inf: +Inf; status word 2 on entry
example : run "logb" .NearestEven 2 [.d ⟨12345, 0x3040000000000000⟩] = some (.ok ([.d ⟨4, 0x3040000000000000⟩], 2)) := by
  decide +kernel
example : run "logb" .NearestEven 2 [.d ⟨12345, 0⟩] = some (.ok ([.d ⟨6172, 0xb040000000000000⟩], 2)) := by decide +kernel
example : run "logb" .NearestEven 2 [.d ⟨0, 0x3040000000000000⟩] = some (.ok ([.d ⟨0, 0xf800000000000000⟩], 6)) := by
  decide +kernel
example : run "logb" .NearestEven 2 [.d ⟨0, 0xf800000000000000⟩] = some (.ok ([.d ⟨0, 0x7800000000000000⟩], 2)) := by
  decide +kernel
example (m : RoundingMode) (f : UInt32) : run "logb" m f [.d ⟨12345, 0x3040000000000000⟩]
    = some (.ok ([.d (ofBits (encode (fromIntD 4)))], f)) :=
  (logb_cases m f ⟨12345, 0x3040000000000000⟩).1 false 12345 0 (by decide +kernel) (by decide)


/-! ## 3. `quantize` (C09), all operands -/

abbrev md := Dec.C13GenPack.md
abbrev quantExpect := Dec.C09GenQuantize.quantExpect

/-- C09, `quantize`, every pair of patterns, rounding mode and status word: the method returns normally the canonical
encoding of `quantExpect`'s datum — the NaN rule for a NaN operand, else the model's `quantizeD` — and ORs its flags into
the status word.  (This contains `SourceLevel.quantize_special` and closes the remaining case: two finite operands,
`x ≠ 0`.) -/
theorem quantize_spec (m : RoundingMode) (f : UInt32) (x y : U128) :
    run "quantize" m f [.d x, .d y] = some (.ok ([.d (ofBits (encode (quantExpect (md m) (dOf x) (dOf y)).1))],
      f ||| UInt32.ofNat (quantExpect (md m) (dOf x) (dOf y)).2)) := by
  show some ((bid128_quantize x y m f).map _) = _
  rw [Dec.C09GenQuantize.quantize_spec]; rfl

/-- the result of `quantize` is canonical and denotes `quantExpect`'s datum -/
theorem quantize_result (m : RoundingMode) (x y : U128) :
    dOf (ofBits (encode (quantExpect (md m) (dOf x) (dOf y)).1)) = (quantExpect (md m) (dOf x) (dOf y)).1 ∧
    isCanonical (bitsOf (ofBits (encode (quantExpect (md m) (dOf x) (dOf y)).1))) = true :=
  result_datum (Dec.C09GenQuantize.quantExpect_WF (md m) _ _ (decode_WF _) (decode_WF _))

/-- C09: "For finite x and y, quantize(x, y) has exactly y's quantum exponent and the value of x rounded to that quantum in
the requested mode, raising inexact exactly when the value changed, or is a quiet NaN with invalid when the result would need
more than 34 digits".  `x = ±c₁·10^e₁`, `c₁ ≠ 0`, `y = ±c₂·10^e₂`:
* `e₁ < e₂` (digits are removed): the result is `±m·10^e₂` with the sign of x and `m` the quotient `c₁ / 10^(e₂−e₁)` rounded in
  the mode (`roundInt`, sign-aware for the directed modes); inexact (0x20) iff the remainder is non-zero;
* `e₂ ≤ e₁` (zeros are appended): `±(c₁·10^(e₁−e₂))·10^e₂` and no flag if that coefficient has at most 34 digits, else the
  default quiet NaN with invalid (0x01). -/
theorem quantize_property (m : RoundingMode) (f : UInt32) (x y : U128) (s1 s2 : Bool) (c1 c2 : Nat) (e1 e2 : Int)
    (hx : dOf x = .fin s1 c1 e1) (hy : dOf y = .fin s2 c2 e2) (hc : c1 ≠ 0) :
    (e1 < e2 → run "quantize" m f [.d x, .d y] = some (.ok ([.d (ofBits (encode (.fin s1
        (roundInt (md m) s1 (c1 / 10 ^ (e2 - e1).toNat) (c1 % 10 ^ (e2 - e1).toNat) (10 ^ (e2 - e1).toNat)) e2)))],
        if c1 % 10 ^ (e2 - e1).toNat = 0 then f else f ||| 0x20))) ∧
    (e2 ≤ e1 → c1 * 10 ^ (e1 - e2).toNat < 10 ^ 34 →
      run "quantize" m f [.d x, .d y] = some (.ok ([.d (ofBits (encode (.fin s1 (c1 * 10 ^ (e1 - e2).toNat) e2)))], f))) ∧
    (e2 ≤ e1 → ¬ c1 * 10 ^ (e1 - e2).toNat < 10 ^ 34 →
      run "quantize" m f [.d x, .d y] = some (.ok ([.d (ofBits (encode defaultNaN))], f ||| 1))) := by
  have or0 : f ||| UInt32.ofNat 0 = f := UInt32.or_zero
  have hq : quantExpect (md m) (dOf x) (dOf y) = quantizeD (md m) (.fin s1 c1 e1) (.fin s2 c2 e2) := by
    rw [hx, hy]; rfl
  refine ⟨?_, ?_, ?_⟩
  · intro h
    rw [quantize_spec, hq, Dec.C09.quantize_round (md m) s1 s2 c1 c2 e1 e2 hc h]
    by_cases hr : c1 % 10 ^ (e2 - e1).toNat = 0
    · simp only [hr, if_true]; rw [or0]
    · simp only [hr, if_false]; rfl
  · intro h hfit
    rw [quantize_spec, hq, Dec.C09.quantize_pad (md m) s1 s2 c1 c2 e1 e2 hc h, if_pos (by unfold P34; exact hfit)]
    simp only []; rw [or0]
  · intro h hfit
    rw [quantize_spec, hq, Dec.C09.quantize_pad (md m) s1 s2 c1 c2 e1 e2 hc h, if_neg (by unfold P34; exact hfit)]
    rfl

/-- C09: "so same_quantum(quantize(x, y), y) is always true when the result is finite": whenever the result `r` of
`quantize` on two finite operands is finite, it has y's exponent and x's sign (hence `same_quantum r y`,
`SourceLevel.same_quantum_finite`) -/
theorem quantize_same_quantum (m : RoundingMode) (x y : U128) (s1 s2 : Bool) (c1 c2 : Nat) (e1 e2 : Int)
    (hx : dOf x = .fin s1 c1 e1) (hy : dOf y = .fin s2 c2 e2) (s : Bool) (c : Nat) (e : Int)
    (hr : dOf (ofBits (encode (quantExpect (md m) (dOf x) (dOf y)).1)) = .fin s c e) :
    e = e2 ∧ s = s1 ∧ sameQuantumD (.fin s c e) (dOf y) = true := by
  rw [(quantize_result m x y).1] at hr
  have hq : quantExpect (md m) (dOf x) (dOf y) = quantizeD (md m) (.fin s1 c1 e1) (.fin s2 c2 e2) := by
    rw [hx, hy]; rfl
  rw [hq] at hr
  have h : quantizeD (md m) (.fin s1 c1 e1) (.fin s2 c2 e2) = (.fin s c e, (quantizeD (md m) (.fin s1 c1 e1) (.fin s2 c2 e2)).2) := by
    rw [← hr]
  obtain ⟨a, b⟩ := Dec.C09.quantize_exponent (md m) s1 s2 c1 c2 e1 e2 s c e _ h
  refine ⟨a, b, ?_⟩
  rw [hy]; exact Dec.C09.same_quantum_quantize (md m) s1 s2 c1 c2 e1 e2 s c e _ h

-- 1.2345 to the quantum of 0.01: 1.23 inexact (ties to even); 1.235 → 1.24 (tie to even), → 1.23 toward zero;
-- 5 to the quantum 10^−3: 5.000 exact (status word 8 untouched); to 10^−40: more than 34 digits, invalid
example : run "quantize" .NearestEven 0 [.d ⟨12345, 0x3038000000000000⟩, .d ⟨1, 0x303c000000000000⟩]
    = some (.ok ([.d ⟨123, 0x303c000000000000⟩], 0x20)) := by decide +kernel
example : run "quantize" .NearestEven 0 [.d ⟨1235, 0x303a000000000000⟩, .d ⟨1, 0x303c000000000000⟩]
    = some (.ok ([.d ⟨124, 0x303c000000000000⟩], 0x20)) := by decide +kernel
example : run "quantize" .TowardZero 0 [.d ⟨1235, 0x303a000000000000⟩, .d ⟨1, 0x303c000000000000⟩]
    = some (.ok ([.d ⟨123, 0x303c000000000000⟩], 0x20)) := by decide +kernel
example : run "quantize" .NearestEven 8 [.d ⟨5, 0x3040000000000000⟩, .d ⟨7, 0x303a000000000000⟩]
    = some (.ok ([.d ⟨5000, 0x303a000000000000⟩], 8)) := by decide +kernel
example : run "quantize" .NearestEven 0 [.d ⟨5, 0x3040000000000000⟩, .d ⟨7, 0x2ff0000000000000⟩]
    = some (.ok ([.d ⟨0, 0x7c00000000000000⟩], 1)) := by decide +kernel
example : quantExpect .rne (dOf ⟨12345, 0x3038000000000000⟩) (dOf ⟨1, 0x303c000000000000⟩) = (.fin false 123 (-2), fInexact) := by
  decide +kernel


/-! ## 4. `fdim` (compare, then subtract) — relative to the open part of `bid128_add` -/

open Dec.C01GenAddLoop (binSpec Proved AddRounding)

theorem plus_zero_word : ofBits (encode (.fin false 0 0)) = ⟨0, 0x3040000000000000⟩ := by decide +kernel

/-- `fdimD` on operands that are not NaNs: `x − y` if `x > y`, else `+0E+0` with no flag -/
theorem fdimD_cases (mode : Mode) (a b : Datum) :
    (cmpD a b = some .gt → fdimD mode a b = subD mode a b) ∧ (cmpD a b ≠ some .gt → fdimD mode a b = (.fin false 0 0, 0)) := by
  unfold fdimD
  constructor
  · intro h; rw [h]; rfl
  · intro h
    rw [if_neg]
    intro hh; exact h (by simpa using hh)

/-- **`bid128_fdim` = `fdimD`** (NaN rule for NaN operands) wherever the subtraction it ends in is in the proved region of
`bid128_add`: the hypothesis is needed only when `x > y` (for `x ≤ y`, infinities and zeros included, the result is
`+0E+0` and the status word is untouched — the flags of the internal comparison are discarded) -/
theorem fdim_routine_partial (x y : U128) (m : RoundingMode) (f : UInt32)
    (h : cmpD (dOf x) (dOf y) = some .gt → Proved (dOf x) (dOf y).negate) :
    bid128_fdim x y m f = .ok (binSpec (fdimD (md m)) x y f) := by
  rw [Dec.C09GenQuantize.fdim_spec]
  have dx : decode (Dec.C13GenNoncomp.bitsOf x) = dOf x := rfl
  have dy : decode (Dec.C13GenNoncomp.bitsOf y) = dOf y := rfl
  rw [dx, dy]
  by_cases hc : (dOf x).isNaN = false ∧ (dOf y).isNaN = false ∧ cmpD (dOf x) (dOf y) ≠ some .gt
  · rw [if_pos hc]
    unfold binSpec
    rw [show Dec.C01GenAddLoop.dOf x = dOf x from rfl, show Dec.C01GenAddLoop.dOf y = dOf y from rfl,
      if_neg (by rw [hc.1, hc.2.1]; decide), ((fdimD_cases (md m) _ _).2 hc.2.2), plus_zero_word]
    exact congrArg (fun g => Except.ok (_, g)) (UInt32.or_zero).symm
  · rw [if_neg hc]
    have hsub := Dec.C06GenFromInt.sub_eq x y m f
    rw [show (decode (Dec.C06GenFromInt.bitsOf y)) = dOf y from rfl] at hsub
    show bid128_add x (if (dOf y).isNaN = true then y else ofBits ((Dec.C06GenFromInt.bitsOf y + 2^127) % 2^128)) m f = _
    rw [← hsub]
    by_cases hn : ((dOf x).isNaN || (dOf y).isNaN) = true
    · have hP : Proved (Dec.C01GenAddLoop.dOf x) (Dec.C01GenAddLoop.dOf y).negate := by
        rcases Bool.or_eq_true _ _ ▸ hn with h1 | h1
        · exact Or.inl h1
        · exact Or.inr (Or.inl (by rw [Dec.C01GenAddLoop.negate_isNaN]; exact h1))
      rw [Dec.C01GenAddLoop.bid128_sub_spec_partial x y m f hP]
      unfold binSpec
      rw [if_pos hn, if_pos hn]
    · have hx : (dOf x).isNaN = false := by
        cases h1 : (dOf x).isNaN
        · rfl
        · rw [h1] at hn; exact absurd rfl hn
      have hy : (dOf y).isNaN = false := by
        cases h1 : (dOf y).isNaN
        · rfl
        · rw [h1, Bool.or_true] at hn; exact absurd rfl hn
      have hgt : cmpD (dOf x) (dOf y) = some .gt := by
        by_contra hne; exact hc ⟨hx, hy, hne⟩
      rw [Dec.C01GenAddLoop.bid128_sub_spec_partial x y m f (h hgt)]
      unfold binSpec
      rw [show Dec.C01GenAddLoop.dOf x = dOf x from rfl, show Dec.C01GenAddLoop.dOf y = dOf y from rfl,
        if_neg hn, if_neg hn, ((fdimD_cases (md m) _ _).1 hgt)]

/-- `d128::fdim` wherever the final subtraction is in the proved region (`C01GenAddLoop.Proved`: a NaN, an infinite or
zero operand, or two non-zero numbers outside the rounding loop of `bid128_add`) -/
theorem fdim_partial (m : RoundingMode) (f : UInt32) (x y : U128)
    (h : cmpD (dOf x) (dOf y) = some .gt → Proved (dOf x) (dOf y).negate) :
    run "fdim" m f [.d x, .d y] = some (.ok ([.d (binSpec (fdimD (md m)) x y f).1], (binSpec (fdimD (md m)) x y f).2)) := by
  show some ((bid128_fdim x y m f).map _) = _
  rw [fdim_routine_partial x y m f h]
  generalize binSpec (fdimD (md m)) x y f = p
  cases p; rfl

/-- `d128::fdim` on ALL inputs, relative to the one open piece of `bid128_add` (`C01GenAddLoop.AddRounding`: the rounding
loop and the power-of-ten sub-case of `delta = 34`) -/
theorem fdim_of_AddRounding (H : AddRounding) (m : RoundingMode) (f : UInt32) (x y : U128) :
    run "fdim" m f [.d x, .d y] = some (.ok ([.d (binSpec (fdimD (md m)) x y f).1], (binSpec (fdimD (md m)) x y f).2)) := by
  show some ((bid128_fdim x y m f).map _) = _
  have key : bid128_fdim x y m f = .ok (binSpec (fdimD (md m)) x y f) := by
    rcases Dec.C01GenAddLoop.proved_or_remaining (dOf x) (dOf y).negate with hp | hr
    · exact fdim_routine_partial x y m f (fun _ => hp)
    · -- the subtraction is in the open region: use the hypothesis through `bid128_sub_spec_partial'`
      rw [Dec.C09GenQuantize.fdim_spec]
      have dx : decode (Dec.C13GenNoncomp.bitsOf x) = dOf x := rfl
      have dy : decode (Dec.C13GenNoncomp.bitsOf y) = dOf y := rfl
      rw [dx, dy]
      have hsubspec := Dec.C01GenAddLoop.bid128_sub_spec_partial' H x y m f
      by_cases hc : (dOf x).isNaN = false ∧ (dOf y).isNaN = false ∧ cmpD (dOf x) (dOf y) ≠ some .gt
      · rw [if_pos hc]
        unfold binSpec
        rw [show Dec.C01GenAddLoop.dOf x = dOf x from rfl, show Dec.C01GenAddLoop.dOf y = dOf y from rfl,
          if_neg (by rw [hc.1, hc.2.1]; decide), ((fdimD_cases (md m) _ _).2 hc.2.2), plus_zero_word]
        exact congrArg (fun g => Except.ok (_, g)) (UInt32.or_zero).symm
      · rw [if_neg hc]
        have hsub := Dec.C06GenFromInt.sub_eq x y m f
        rw [show (decode (Dec.C06GenFromInt.bitsOf y)) = dOf y from rfl] at hsub
        show bid128_add x (if (dOf y).isNaN = true then y else ofBits ((Dec.C06GenFromInt.bitsOf y + 2^127) % 2^128)) m f = _
        rw [← hsub, hsubspec]
        unfold binSpec
        rw [show Dec.C01GenAddLoop.dOf x = dOf x from rfl, show Dec.C01GenAddLoop.dOf y = dOf y from rfl]
        by_cases hn : ((dOf x).isNaN || (dOf y).isNaN) = true
        · rw [if_pos hn, if_pos hn]
        · rw [if_neg hn, if_neg hn]
          have hx : (dOf x).isNaN = false := by
            cases h1 : (dOf x).isNaN
            · rfl
            · rw [h1] at hn; exact absurd rfl hn
          have hy : (dOf y).isNaN = false := by
            cases h1 : (dOf y).isNaN
            · rfl
            · rw [h1, Bool.or_true] at hn; exact absurd rfl hn
          have hgt : cmpD (dOf x) (dOf y) = some .gt := by
            by_contra hne; exact hc ⟨hx, hy, hne⟩
          rw [((fdimD_cases (md m) _ _).1 hgt)]
  rw [key]
  generalize binSpec (fdimD (md m)) x y f = p
  cases p; rfl

/-- unconditional: for operands that are not NaNs with `x ≤ y` (not `x > y`: equal, less, any infinities, zeros,
non-canonical patterns) `fdim` is `+0E+0` and the status word is untouched, in every mode -/
theorem fdim_le (m : RoundingMode) (f : UInt32) (x y : U128) (hx : (dOf x).isNaN = false) (hy : (dOf y).isNaN = false)
    (hle : cmpD (dOf x) (dOf y) ≠ some .gt) :
    run "fdim" m f [.d x, .d y] = some (.ok ([.d ⟨0, 0x3040000000000000⟩], f)) := by
  rw [fdim_partial m f x y (fun h => absurd h hle)]
  unfold binSpec
  rw [show Dec.C01GenAddLoop.dOf x = dOf x from rfl, show Dec.C01GenAddLoop.dOf y = dOf y from rfl,
    if_neg (by rw [hx, hy]; decide), ((fdimD_cases (md m) _ _).2 hle), plus_zero_word]
  exact congrArg (fun g => some (Except.ok ([AVal.d _], g))) UInt32.or_zero

-- fdim(5, 3) = 2; fdim(3, 5) = +0E+0; fdim(−Inf, 7.5) = +0E+0 (status word 0x20 untouched); fdim(sNaN, 1): NaN rule
example : run "fdim" .NearestEven 0x20 [.d ⟨5, 0x3040000000000000⟩, .d ⟨3, 0x3040000000000000⟩]
    = some (.ok ([.d ⟨2, 0x3040000000000000⟩], 0x20)) := by decide +kernel
example : run "fdim" .NearestEven 0x20 [.d ⟨3, 0x3040000000000000⟩, .d ⟨5, 0x3040000000000000⟩]
    = some (.ok ([.d ⟨0, 0x3040000000000000⟩], 0x20)) := by decide +kernel
example : run "fdim" .Downward 0x20 [.d ⟨0, 0xf800000000000000⟩, .d ⟨75, 0x303e000000000000⟩]
    = some (.ok ([.d ⟨0, 0x3040000000000000⟩], 0x20)) := by decide +kernel
example : run "fdim" .NearestEven 0x20 [.d ⟨9, 0xfe00000000000000⟩, .d ⟨1, 0x3040000000000000⟩]
    = some (.ok ([.d ⟨9, 0xfc00000000000000⟩], 0x21)) := by decide +kernel
example (m : RoundingMode) (f : UInt32) : run "fdim" m f [.d ⟨3, 0x3040000000000000⟩, .d ⟨5, 0x3040000000000000⟩]
    = some (.ok ([.d ⟨0, 0x3040000000000000⟩], f)) :=
  fdim_le m f _ _ (by decide +kernel) (by decide +kernel) (by decide +kernel)

/-! ## 5. `square_root` (C01) — the unconditional cases, and all operands relative to `LongOK` -/

open Dec.C01GenSqrt (LongOK)

/-- what the specification prescribes for `square_root`: the NaN rule for a NaN, else the canonical encoding of `sqrtD`'s
datum and `sqrtD`'s flags OR-ed in -/
def sqrtSpec (mode : Mode) (x : U128) (f : UInt32) : U128 × UInt32 :=
  if (dOf x).isNaN then (qnanU x, nanFlags f [dOf x])
  else (ofBits (encode (sqrtD mode (dOf x)).1), f ||| UInt32.ofNat (sqrtD mode (dOf x)).2)

/-- **`d128::square_root` on ALL inputs, relative to the residual hypothesis of `C01GenSqrt`** (`LongOK C`:
`bid_long_sqrt128` on a 256-bit `C` with `10^66 ≤ C < 10^68` does not fail and returns `⌊√C⌋` or `⌊√C⌋ + 1`): the method
returns normally `sqrtD`'s datum canonically encoded — the correctly rounded root, `C01Q.sqrt_correct` — and ORs
`sqrtD`'s flags (nothing / inexact / invalid) into the status word; NaN rule for a NaN -/
theorem square_root_of_LongOK (hL : ∀ C, 10 ^ 66 ≤ C → C < 10 ^ 68 → LongOK C) (m : RoundingMode) (f : UInt32) (x : U128) :
    run "square_root" m f [.d x] = some (.ok ([.d (sqrtSpec (md m) x f).1], (sqrtSpec (md m) x f).2)) := by
  show some ((bid128_sqrt x m f).map _) = _
  have key : bid128_sqrt x m f = .ok (sqrtSpec (md m) x f) := by
    unfold sqrtSpec
    by_cases hn : (dOf x).isNaN = true
    · rw [if_pos hn, sqrt_nan x m f hn]
      unfold nanFlags
      simp only [List.any_cons, List.any_nil, Bool.or_false]
    · rw [if_neg hn]
      exact Dec.C01GenSqrt.sqrt_spec_long_partial x m f (by simpa using hn) hL
  rw [key]
  generalize sqrtSpec (md m) x f = p
  cases p; rfl

/-- **unconditional**: NaN (NaN rule); `√(−Inf)` and `√(negative)`: the default quiet NaN with invalid ("sqrt of a negative",
C12); `√(+Inf) = +Inf`; `√(±0·10^e) = ±0·10^⌊e/2⌋` (sign kept, preferred exponent), no flag — for every pattern (canonical
or not), mode and status word -/
theorem square_root_specials (m : RoundingMode) (f : UInt32) (x : U128) :
    ((dOf x).isNaN = true → run "square_root" m f [.d x]
      = some (.ok ([.d (qnanU x)], if (dOf x).isSNaN then f ||| 1 else f))) ∧
    (dOf x = .inf true → run "square_root" m f [.d x] = some (.ok ([.d (ofBits (encode defaultNaN))], f ||| 1))) ∧
    (dOf x = .inf false → run "square_root" m f [.d x] = some (.ok ([.d (ofBits (encode (.inf false)))], f))) ∧
    (∀ c e, dOf x = .fin true c e → c ≠ 0 →
      run "square_root" m f [.d x] = some (.ok ([.d (ofBits (encode defaultNaN))], f ||| 1))) ∧
    (∀ s e, dOf x = .fin s 0 e →
      run "square_root" m f [.d x] = some (.ok ([.d (ofBits (encode (zeroAt s (Dec.halfFloor e))))], f))) := by
  refine ⟨?_, ?_, ?_, ?_, ?_⟩
  · intro h
    show some ((bid128_sqrt x m f).map _) = _
    rw [sqrt_nan x m f h]; rfl
  · intro h
    show some ((bid128_sqrt x m f).map _) = _
    rw [Dec.C01GenSqrt.sqrt_neg_inf x m f h]; rfl
  · intro h
    show some ((bid128_sqrt x m f).map _) = _
    rw [Dec.C01GenSqrt.sqrt_pos_inf x m f h]; rfl
  · intro c e h hc
    show some ((bid128_sqrt x m f).map _) = _
    rw [Dec.C01GenSqrt.sqrt_neg x m f h hc]; rfl
  · intro s e h
    show some ((bid128_sqrt x m f).map _) = _
    rw [Dec.C01GenSqrt.sqrt_zero x m f h]; rfl

/-- **unconditional, the exact roots**: a positive `c·10^e` (any pattern) whose coefficient — times 10 if `e` is odd — is a
perfect square `n²`: the method returns `+n·10^(e div 2)` (canonical; the preferred exponent) and raises nothing, in every
rounding mode; and that is `sqrtD` -/
theorem square_root_exact (m : RoundingMode) (f : UInt32) (x : U128) (c : Nat) (e : Int) (hx : dOf x = .fin false c e)
    (hc : c ≠ 0) (n : Nat) (hn : n * n = c * 10 ^ (e % 2).toNat) :
    run "square_root" m f [.d x] = some (.ok ([.d (ofBits (encode (.fin false n (e / 2))))], f)) ∧
    sqrtD (md m) (.fin false c e) = (.fin false n (e / 2), 0) := by
  obtain ⟨h1, h2⟩ := Dec.C01GenSqrt.sqrt_exact_root x m f hx hc n hn
  refine ⟨?_, h2⟩
  show some ((bid128_sqrt x m f).map _) = _
  rw [h1]; rfl

-- √1.44 = 1.2 (144E−2 ↦ 12E−1), √(4E+3) = √(40E+2) … not a square; √(16E+4) = 4E+2; √(−0E−5) = −0E−3; √(−1): invalid
example : run "square_root" .TowardZero 8 [.d ⟨144, 0x303c000000000000⟩] = some (.ok ([.d ⟨12, 0x303e000000000000⟩], 8)) := by
  decide +kernel
example : run "square_root" .NearestEven 8 [.d ⟨16, 0x3048000000000000⟩] = some (.ok ([.d ⟨4, 0x3044000000000000⟩], 8)) := by
  decide +kernel
example : run "square_root" .NearestEven 8 [.d ⟨0, 0xb036000000000000⟩] = some (.ok ([.d ⟨0, 0xb03a000000000000⟩], 8)) := by
  decide +kernel
example : run "square_root" .NearestEven 8 [.d ⟨1, 0xb040000000000000⟩] = some (.ok ([.d ⟨0, 0x7c00000000000000⟩], 9)) := by
  decide +kernel
-- √2 in ties-to-even: 1.414213562373095048801688724209698, inexact
example : run "square_root" .NearestEven 0 [.d ⟨2, 0x3040000000000000⟩]
    = some (.ok ([.d ⟨0xb43e0f0f10148022, 0x2ffe45b9e278cdf8⟩], 0x20)) := by decide +kernel
example : run "square_root" .Upward 0 [.d ⟨2, 0x3040000000000000⟩]
    = some (.ok ([.d ⟨0xb43e0f0f10148023, 0x2ffe45b9e278cdf8⟩], 0x20)) := by decide +kernel
example (m : RoundingMode) (f : UInt32) : run "square_root" m f [.d ⟨144, 0x303c000000000000⟩]
    = some (.ok ([.d (ofBits (encode (.fin false 12 ((-2 : Int) / 2))))], f)) :=
  (square_root_exact m f ⟨144, 0x303c000000000000⟩ 144 (-2) (by decide +kernel) (by decide) 12 (by decide +kernel)).1


/-! ## 6. `multiplication`: the zero case, and the reduction to `fused_multiply_add` -/

/-- C01, `multiplication`, a zero among two numbers (canonical zeros and non-canonical patterns): the zero with the XOR of
the signs and the exponent sum clamped into the format's range — `mulD` —, no flag, every mode -/
theorem multiplication_zero (m : RoundingMode) (f : UInt32) (x y : U128) (s1 s2 : Bool) (c1 c2 : Nat) (e1 e2 : Int)
    (hx : dOf x = .fin s1 c1 e1) (hy : dOf y = .fin s2 c2 e2) (hz : c1 = 0 ∨ c2 = 0) :
    run "multiplication" m f [.d x, .d y] = some (.ok ([.d (ofBits (encode (zeroAt (s1 != s2) (e1 + e2))))], f)) ∧
    mulD (md m) (dOf x) (dOf y) = (zeroAt (s1 != s2) (e1 + e2), 0) := by
  constructor
  · show some ((bid128_mul x y m f).map _) = _
    rw [Dec.C01GenMul.mul_zero x y m f hx hy hz]; rfl
  · have hp : c1 * c2 = 0 := by rcases hz with h | h <;> simp [h]
    rw [hx, hy]; simp only [mulD, hp, if_true]

/-- on everything else (a NaN or an infinity among the operands, or two non-zero numbers) `multiplication (x, y)` IS
`fused_multiply_add (y, x, +0E+6111)`: same result, same status word, same panic behaviour — the source has no
multiplication of its own; and there `fmaD (y, x, +0E+6111) = mulD (x, y)` (`C01GenMul.fmaD_z0_eq_mulD`), so multiplication
is correct exactly where the fused multiply-add is -/
theorem multiplication_is_fma (m : RoundingMode) (f : UInt32) (x y : U128)
    (h : ¬ ((dOf x).isFin = true ∧ (dOf y).isFin = true ∧ ((dOf x).isZero = true ∨ (dOf y).isZero = true))) :
    run "multiplication" m f [.d x, .d y] = run "fused_multiply_add" m f [.d y, .d x, .d ⟨0, 0x5ffe000000000000⟩] := by
  show some ((bid128_mul x y m f).map _) = some ((bid128_fma y x ⟨0, 0x5ffe000000000000⟩ m f).map _)
  rw [Dec.C01GenMul.mul_eq_fma x y m f h]; rfl

-- (−0) · 5E+6111 = −0E+6111 (the exponent sum clamped), status word 0x20 untouched; 2 · 3 = 6 through the fma
example : run "multiplication" .NearestEven 0x20 [.d ⟨0, 0xb040000000000000⟩, .d ⟨5, 0x5ffe000000000000⟩]
    = some (.ok ([.d ⟨0, 0xdffe000000000000⟩], 0x20)) := by decide +kernel
example : run "multiplication" .NearestEven 0 [.d ⟨2, 0x3040000000000000⟩, .d ⟨3, 0x3040000000000000⟩]
    = some (.ok ([.d ⟨6, 0x3040000000000000⟩], 0)) := by decide +kernel
example (m : RoundingMode) (f : UInt32) :
    run "multiplication" m f [.d ⟨2, 0x3040000000000000⟩, .d ⟨3, 0x3040000000000000⟩]
      = run "fused_multiply_add" m f [.d ⟨3, 0x3040000000000000⟩, .d ⟨2, 0x3040000000000000⟩, .d ⟨0, 0x5ffe000000000000⟩] :=
  multiplication_is_fma m f _ _ (by decide +kernel)

end Dec.SourceLevel3
