/-
  C10Bound — the results of IEEE remainder and fmod are always representable: for well-formed finite operands the
  coefficient the model computes (at exponent `min(e₁,e₂)`) is below 10^34, so "exact, no flag" (C10) is never in conflict
  with the format and no rounding / overflow / underflow handling is needed.

    e₂ ≤ e₁ :  Y = c₂ < 10^34 and |result| ≤ Y/2 (remainder), < Y (fmod)
    e₁ < e₂ :  X = c₁ < 10^34 and |result| ≤ X   (fmod: X % Y ≤ X;  remainder: r ≤ X, or Y − r ≤ r ≤ X when rounded up)
-/
import DecProofs.Properties.C10

namespace Dec.C10Bound
open Dec.C10

/-- The magnitude of the remainder is at most the magnitude of `x` and at most half that of `y`, on the common scale
`10^min(e₁,e₂)`: with `X = c₁·10^(e₁−m)`, `Y = c₂·10^(e₂−m)`, the result is `±r·10^m` with `r ≤ X` and `2r ≤ Y`. -/
theorem rem_coeff_le (s1 s2 : Bool) (c1 c2 : Nat) (e1 e2 : Int) (h : c2 ≠ 0) :
    ∃ (neg : Bool) (r : Nat),
      remD (.fin s1 c1 e1) (.fin s2 c2 e2) = (.fin neg r (min e1 e2), 0) ∧
      r ≤ c1 * 10 ^ (e1 - min e1 e2).toNat ∧ 2 * r ≤ c2 * 10 ^ (e2 - min e1 e2).toNat := by
  have hs := rem_spec s1 s2 c1 c2 e1 e2 h
  simp only [scaled] at hs
  rw [Int.min_def]
  obtain ⟨n, r, neg, heq, h2, hcase, -, -⟩ := hs
  refine ⟨neg, r, heq, ?_, h2⟩
  generalize c1 * 10 ^ (e1 - if e1 ≤ e2 then e1 else e2).toNat = X at *
  generalize c2 * 10 ^ (e2 - if e1 ≤ e2 then e1 else e2).toNat = Y at *
  rcases hcase with ⟨-, hX⟩ | ⟨-, hr0, hX⟩
  · omega
  · -- X + r = n·Y with r ≠ 0 forces n ≥ 1, so X ≥ Y − r ≥ r
    have hn : 0 < n := by
      rcases Nat.eq_zero_or_pos n with h0 | h0
      · subst h0; omega
      · exact h0
    have : Y ≤ n * Y := Nat.le_mul_of_pos_left Y hn
    omega

/-- The same for fmod: the result is `(sign of x)·r·10^m` with `r ≤ X` and `r < Y`. -/
theorem fmod_coeff_le (s1 s2 : Bool) (c1 c2 : Nat) (e1 e2 : Int) (h : c2 ≠ 0) :
    ∃ r : Nat,
      fmodD (.fin s1 c1 e1) (.fin s2 c2 e2) = (.fin s1 r (min e1 e2), 0) ∧
      r ≤ c1 * 10 ^ (e1 - min e1 e2).toNat ∧ r < c2 * 10 ^ (e2 - min e1 e2).toNat := by
  have hs := fmod_spec s1 s2 c1 c2 e1 e2 h
  simp only [scaled] at hs
  rw [Int.min_def]
  obtain ⟨heq, -, hlt⟩ := hs
  exact ⟨_, heq, Nat.mod_le _ _, hlt⟩

/-- on the common scale one of the two operands keeps its own coefficient -/
private theorem scale_cases (c1 c2 : Nat) (e1 e2 : Int) :
    c1 * 10 ^ (e1 - min e1 e2).toNat = c1 ∨ c2 * 10 ^ (e2 - min e1 e2).toNat = c2 := by
  rw [Int.min_def]
  by_cases hle : e1 ≤ e2
  · left; simp [hle]
  · right; simp [hle]

/-- **rem_representable.** For well-formed finite operands (coefficients below 10^34, exponents in range) with `y ≠ 0`, the
IEEE remainder is the finite datum `±r·10^min(e₁,e₂)` with `r < 10^34` and the exponent in range, and no flag is raised:
the exact remainder is always a member of the format at the smaller of the two exponents. -/
theorem rem_representable (s1 s2 : Bool) (c1 c2 : Nat) (e1 e2 : Int)
    (hx : (Datum.fin s1 c1 e1).WF) (hy : (Datum.fin s2 c2 e2).WF) (h : c2 ≠ 0) :
    ∃ (neg : Bool) (r : Nat),
      remD (.fin s1 c1 e1) (.fin s2 c2 e2) = (.fin neg r (min e1 e2), 0) ∧
      r < P34 ∧ eMin ≤ min e1 e2 ∧ min e1 e2 ≤ eMax := by
  obtain ⟨hc1, hl1, hu1⟩ := hx
  obtain ⟨hc2, hl2, hu2⟩ := hy
  obtain ⟨neg, r, heq, hrX, hrY⟩ := rem_coeff_le s1 s2 c1 c2 e1 e2 h
  refine ⟨neg, r, heq, ?_, by omega, by omega⟩
  rcases scale_cases c1 c2 e1 e2 with hc | hc
  · rw [hc] at hrX; omega
  · rw [hc] at hrY; omega

/-- **fmod_representable.** Likewise for fmod: the result is `(sign of x)·r·10^min(e₁,e₂)` with `r < 10^34`, exponent in range,
no flag. -/
theorem fmod_representable (s1 s2 : Bool) (c1 c2 : Nat) (e1 e2 : Int)
    (hx : (Datum.fin s1 c1 e1).WF) (hy : (Datum.fin s2 c2 e2).WF) (h : c2 ≠ 0) :
    ∃ r : Nat,
      fmodD (.fin s1 c1 e1) (.fin s2 c2 e2) = (.fin s1 r (min e1 e2), 0) ∧
      r < P34 ∧ eMin ≤ min e1 e2 ∧ min e1 e2 ≤ eMax := by
  obtain ⟨hc1, hl1, hu1⟩ := hx
  obtain ⟨hc2, hl2, hu2⟩ := hy
  obtain ⟨r, heq, hrX, hrY⟩ := fmod_coeff_le s1 s2 c1 c2 e1 e2 h
  refine ⟨r, heq, ?_, by omega, by omega⟩
  rcases scale_cases c1 c2 e1 e2 with hc | hc
  · rw [hc] at hrX; omega
  · rw [hc] at hrY; omega

/-- In `Datum.WF` form: remainder and fmod of well-formed finite operands, `y ≠ 0`, are well-formed and raise nothing. -/
theorem rem_fmod_WF (s1 s2 : Bool) (c1 c2 : Nat) (e1 e2 : Int)
    (hx : (Datum.fin s1 c1 e1).WF) (hy : (Datum.fin s2 c2 e2).WF) (h : c2 ≠ 0) :
    (remD (.fin s1 c1 e1) (.fin s2 c2 e2)).1.WF ∧ (remD (.fin s1 c1 e1) (.fin s2 c2 e2)).2 = 0 ∧
    (fmodD (.fin s1 c1 e1) (.fin s2 c2 e2)).1.WF ∧ (fmodD (.fin s1 c1 e1) (.fin s2 c2 e2)).2 = 0 := by
  obtain ⟨neg, r, heq, hr⟩ := rem_representable s1 s2 c1 c2 e1 e2 hx hy h
  obtain ⟨r', heq', hr'⟩ := fmod_representable s1 s2 c1 c2 e1 e2 hx hy h
  rw [heq, heq']
  exact ⟨hr, rfl, hr', rfl⟩

/-- non-vacuity: the hypotheses hold for the extreme case `e₁ ≪ e₂` (the scaled divisor `Y = 3·10^12000` is far outside the
format), largest coefficient; the remainder is still a 34-digit member of the format. -/
example : (Datum.fin false (P34 - 1) (-6000)).WF ∧ (Datum.fin true 3 6000).WF ∧ (3 : Nat) ≠ 0 := by
  refine ⟨?_, ?_, by decide⟩ <;> (unfold Datum.WF; decide)

example : remD (.fin false 7 3) (.fin false 20 0) = (.fin false 0 0, 0)
    ∧ remD (.fin false 7 0) (.fin true 4 3) = (.fin false 7 0, 0)            -- r = X kept (e₁ < e₂, 2r < Y)
    ∧ remD (.fin false 7 0) (.fin true 1 1) = (.fin true 3 0, 0)             -- Y − r = 3 < r = 7 ≤ X
    ∧ fmodD (.fin true (P34 - 1) 0) (.fin false 1 1) = (.fin true 9 0, 0) := by decide

end Dec.C10Bound
