/-
  C11 — scaling by powers of ten and exponent extraction are exact.
-/
import DecModel.Ops

namespace Dec.C11

/-- scaleb of a non-zero finite x is "the value x·10^n handed to the universal finishing step with
preferred exponent e+n": same coefficient whenever representable, zero padding only under the clamp,
otherwise the rounded overflow / gradual-underflow result -/
theorem scaleb_is_finish (mode : Mode) (n : Int) (s : Bool) (c : Nat) (e : Int) (h : c ≠ 0) :
    scalebD mode n (.fin s c e) = finish mode s c 1 (e + n) (e + n) := by
  simp [scalebD, h]

/-- zeros and special values keep their identity; a zero's exponent moves by n and is clamped -/
theorem scaleb_specials (mode : Mode) (n : Int) (s : Bool) (e : Int) :
    scalebD mode n (.fin s 0 e) = (zeroAt s (e + n), 0) ∧ scalebD mode n (.inf s) = (.inf s, 0) := by
  simp [scalebD]

/-- the 64-bit count of scalebln saturates to the 32-bit range, it never wraps -/
theorem scalbln_saturates (n : Int) :
    (n ≤ -2147483648 → clampI32 n = -2147483648) ∧ (2147483647 ≤ n → clampI32 n = 2147483647) ∧
    (-2147483648 ≤ n → n ≤ 2147483647 → clampI32 n = n) := by
  unfold clampI32 clampInt
  refine ⟨?_, ?_, ?_⟩ <;> intros <;> split <;> (try split) <;> omega

/-- logb: adjusted exponent as an exponent-0 integer; ±0 ↦ −Inf with division-by-zero; ±Inf ↦ +Inf -/
theorem logb_spec (s : Bool) (c : Nat) (e : Int) (h : c ≠ 0) :
    logbD (.fin s c e) = (fromIntD ((ndigits c : Int) + e - 1), 0) ∧
    logbD (.fin s 0 e) = (.inf true, fDivZero) ∧ logbD (.inf s) = (.inf false, 0) := by
  simp [logbD, h, adjExp]

theorem ilogb_spec (s g : Bool) (c p : Nat) (e : Int) (h : c ≠ 0) :
    ilogbD (.fin s c e) = ((ndigits c : Int) + e - 1, 0) ∧
    ilogbD (.fin s 0 e) = (-2147483648, fInvalid) ∧ ilogbD (.inf s) = (2147483647, fInvalid) ∧
    ilogbD (.nan s g p) = (-2147483648, fInvalid) := by
  simp [ilogbD, h, adjExp]

/-- frexp: fraction c·10^(−q) and exponent q+e; so fraction·10^exp has coefficient c and exponent e again -/
theorem frexp_spec (s : Bool) (c : Nat) (e : Int) (h : c ≠ 0) :
    frexpD (.fin s c e) = (.fin s c (-(ndigits c : Int)), (ndigits c : Int) + e) ∧
    (-(ndigits c : Int)) + ((ndigits c : Int) + e) = e := by
  constructor
  · simp [frexpD, h]
  · omega

example : (scalebD .rne 3 (.fin false 5 0)).1 = .fin false 5 3 := by decide

end Dec.C11
