/-
  C06GenToInt — the decimal → 32-bit signed integer conversions of bid128_to_int32.rs as translated in `DecGen/Code.lean`
  (`Dec.Gen.Code.bid128_to_int32_*`): for EVERY 128-bit pattern (non-canonical encodings included) and every incoming status
  word each routine returns, without panicking, exactly what the specification-level `Dec.toIntD` says
  (`specOut mode xflag x f`: the integer of `toIntD mode xflag (−2^31) (2^31−1) (−2^31) (decode (bitsOf x))` as an `Int32`,
  and the incoming word with the flags of `toIntD` or-ed in) — the judge's "convert_to_i32_*" expectations.

  This file: `to_int32_int_spec`, `to_int32_xint_spec`, `to_int32_floor_spec`, `to_int32_xfloor_spec`, `to_int32_ceil_spec`,
  `to_int32_xceil_spec`;  `C06GenToIntRN`: `to_int32_rnint_spec`, `to_int32_xrnint_spec`, `to_int32_rninta_spec`,
  `to_int32_xrninta_spec`.  `specOut_toInt`: the `Int32` returned has the integer of the model as its value.

  Method.  Every Rust routine is its own ~330-line copy of one case analysis.  The case analysis is cut into blocks written
  in continuation-passing style, each block being the text of the Rust code (`frontK` special values / zeros / digit
  count / exponent, `rangeK` the range test, `addHalfK` + `splitK` = `removeK` digit removal by reciprocal multiplication,
  `fracK` / `midK` the fraction tests, `resOf`, `posExpK`), and every translated routine is shown to BE the composition of
  the blocks with its own parameters — by `rfl` (`…_unfold`), so a slip in one copy shows up in its parameters.  Each block
  has a for-all-inputs specification (`frontK_spec`, `rangeK_spec`/`rangeK_sem`, `removeK_spec`, `fracK_spec`, `midK_spec`,
  …); the digit-removal analysis is done once on numbers (`recipForm`, `fracTests`, over the regenerated tables through
  `rowFacts_all`) and once on words (`split_words`).  The skeleton theorems `skelTFC_spec` (truncate / floor / ceiling) and
  `skelRN_spec` (to nearest) turn finite checks of a copy's parameters (`RangeOK`, `GlueOK`: `by decide`) into the theorem.

  Nothing was found that deviates from the specification.
-/
import DecGen.Code
import DecModel.Misc
import DecModel.Ops
import DecProofs.Properties.C03GenCompare
import DecProofs.Properties.C13GenNoncomp
import DecProofs.Properties.C02RoundHelpers
import DecProofs.TableFacts.Mechanisms
import Mathlib.Tactic.Ring
import Mathlib.Tactic.Linarith

set_option linter.unusedSimpArgs false
set_option linter.unusedVariables false
set_option linter.unnecessarySeqFocus false

namespace Dec.C06GenToInt
open Dec.Rs Dec.Gen.Code
open Dec.C03GenCompare (val128 val128_lt sigW sigF zeroP nzFin negW expW expW_lt inf_test steer_test coeff_hi gt128 zero128 toNat_and_field val128_sigF)
open Dec.C03GenCompare (val192 val256 mul_128x128_to_256_spec ite_ok)
open Dec.C03GenCompare (mul_64x64_to_128_spec tbl64_ten tbl128_ten int32_gt_lit ofInt_toNat_of_nonneg)
open Dec.C13GenNoncomp (float_exp tblDD_nr nr_q log2_shift log2_hi toI_u64 toI_u32 toI_i32 u64_ofInt_nat u32_ofInt_nat shr32 nr_bound i32_of_small)

/-! ### the blocks of the case analysis, in continuation-passing style (each is the text of the Rust routine) -/

/-- the digit count of a non-zero coefficient `C1 < 2^113`: bit length through the exponent field of an `f64`, then the
`BID_NR_DIGITS` table -/
def nrDigitsK {α : Type} (C1 : U128) (k : Int32 → Except String α) : Except String α := do
  let mut tmp1 : F64U := default
  let mut x_nr_bits : UInt32 := default
  let mut q : Int32 := default
  if (C1.w1 == (0 : UInt64)) then
    if (decide (C1.w0 ≥ (0x20000000000000 : UInt64))) then
      tmp1 := (F64U.ofU64 (UInt64.ofInt (toI ((C1.w0 >>> 0x20)))))
      x_nr_bits := ((0x21 : UInt32) + ((((((UInt32.ofInt (toI ((tmp1.bits >>> 0x34))))) &&& (0x7ff : UInt32))) - (0x3ff : UInt32))))
    else
      tmp1 := (F64U.ofU64 (UInt64.ofInt (toI C1.w0)))
      x_nr_bits := ((1 : UInt32) + ((((((UInt32.ofInt (toI ((tmp1.bits >>> 0x34))))) &&& (0x7ff : UInt32))) - (0x3ff : UInt32))))
  else
    tmp1 := (F64U.ofU64 (UInt64.ofInt (toI C1.w1)))
    x_nr_bits := ((0x41 : UInt32) + ((((((UInt32.ofInt (toI ((tmp1.bits >>> 0x34))))) &&& (0x7ff : UInt32))) - (0x3ff : UInt32))))
  q := (Int32.ofInt (toI ((← tblDD Dec.Gen.BID_NR_DIGITS (UInt64.ofInt (toI ((x_nr_bits - (1 : UInt32)))))).digits)))
  if (q == (0 : Int32)) then
    q := (Int32.ofInt (toI ((← tblDD Dec.Gen.BID_NR_DIGITS (UInt64.ofInt (toI ((x_nr_bits - (1 : UInt32)))))).digits1)))
    if (← (if (decide (C1.w1 > (← tblDD Dec.Gen.BID_NR_DIGITS (UInt64.ofInt (toI ((x_nr_bits - (1 : UInt32)))))).threshold_hi)) then pure true else (do pure ((← (if (C1.w1 == (← tblDD Dec.Gen.BID_NR_DIGITS (UInt64.ofInt (toI ((x_nr_bits - (1 : UInt32)))))).threshold_hi) then (do pure (decide (C1.w0 ≥ (← tblDD Dec.Gen.BID_NR_DIGITS (UInt64.ofInt (toI ((x_nr_bits - (1 : UInt32)))))).threshold_lo))) else pure false)))))) then
      q := (q + 1)
  k q

/-- front end of the conversions: NaN / infinity → invalid and `inv`; zero / non-canonical → `zero`; otherwise continue with the
sign word, the coefficient, its digit count and the unbiased exponent -/
def frontK {α : Type} (x : U128) (inv zero : Except String α)
    (k : UInt64 → U128 → Int32 → Int32 → Except String α) : Except String α :=
  if (((x.w1 &&& c_MASK_SPECIAL)) == c_MASK_SPECIAL) then inv
  else if ((((decide ((x.w1 &&& c_MASK_COEFF) > (0x1ed09bead87c0 : UInt64)))) || ((((x.w1 &&& c_MASK_COEFF) == (0x1ed09bead87c0 : UInt64)) && ((decide (x.w0 > (0x378d8e63ffffffff : UInt64))))))) || ((((x.w1 &&& (0x6000000000000000 : UInt64))) == (0x6000000000000000 : UInt64)))) then zero
  else if ((((x.w1 &&& c_MASK_COEFF) == (0 : UInt64))) && ((x.w0 == (0 : UInt64)))) then zero
  else nrDigitsK ⟨x.w0, x.w1 &&& c_MASK_COEFF⟩ (fun q =>
    k (x.w1 &&& c_MASK_SIGN) ⟨x.w0, x.w1 &&& c_MASK_COEFF⟩ q (Int32.ofInt (toI (((((x.w1 &&& c_MASK_EXP) >>> 0x31)) - (0x1820 : UInt64))))))


/-- the constants and comparison of a copy's range test at `q + exp = 10`: negative side `cN`, strict (`>`) iff `sN`;
positive side `cP`, `sP` -/
structure RangeP where
  cN : UInt64
  sN : Bool
  cP : UInt64
  sP : Bool

def cmp64 (s : Bool) (a b : UInt64) : Bool := if s then decide (a > b) else decide (a ≥ b)
def cmp128 (s : Bool) (A B : U128) : Bool :=
  (decide (A.w1 > B.w1)) || (((A.w1 == B.w1) && (if s then decide (A.w0 > B.w0) else decide (A.w0 ≥ B.w0))))

/-- `c · 10^(q − 11)` as the code computes it -/
def scaleC (tmp64 : UInt64) (q : Int32) : Except String U128 :=
  (if (decide ((q - (0xb : Int32)) ≤ (0x13 : Int32))) then (do pure (← mul_64x64_to_128MACH tmp64 (← tbl64 Dec.Gen.BID_TEN2K64 (UInt64.ofInt (toI ((q - (0xb : Int32)))))))) else (do pure (← mul_128x64_to_128 tmp64 (← tbl128 Dec.Gen.BID_TEN2K128 (UInt64.ofInt (toI ((q - (0x1f : Int32)))))))))

/-- range test: more than 10 integer digits → `inv`; exactly 10 → compare `10·|x|` with the copy's constant -/
def rangeK {α : Type} (P : RangeP) (x_sign : UInt64) (C1 : U128) (q exp : Int32) (inv : Except String α)
    (k : Except String α) : Except String α :=
  if decide (q + exp > (0xa : Int32)) then inv
  else if (q + exp == (0xa : Int32)) then
    if (x_sign != (0 : UInt64)) then
      if (decide (q ≤ (0xb : Int32))) then do
        let tmp64 := (C1.w0 * (← tbl64 Dec.Gen.BID_TEN2K64 (UInt64.ofInt (toI (((0xb : Int32) - q))))))
        if cmp64 P.sN tmp64 P.cN then inv else k
      else do
        let C ← scaleC P.cN q
        if cmp128 P.sN C1 C then inv else k
    else
      if (decide (q ≤ (0xb : Int32))) then do
        let tmp64 := (C1.w0 * (← tbl64 Dec.Gen.BID_TEN2K64 (UInt64.ofInt (toI (((0xb : Int32) - q))))))
        if cmp64 P.sP tmp64 P.cP then inv else k
      else do
        let C ← scaleC P.cP q
        if cmp128 P.sP C1 C then inv else k
  else k

/-- add half a unit of the last kept place (`5·10^(ind−1)`) to the coefficient -/
def addHalfK {α : Type} (C1_ : U128) (ind : Int32) (k : U128 → Except String α) : Except String α := do
  let mut C1 : U128 := C1_
  let mut tmp64 : UInt64 := default
  tmp64 := C1.w0
  if (decide (ind ≤ (0x13 : Int32))) then
    C1 := { C1 with w0 := (C1.w0 + (← tbl64 Dec.Gen.BID_MIDPOINT64 (UInt64.ofInt (toI ((ind - (1 : Int32))))))) }
  else
    C1 := { C1 with w0 := (C1.w0 + (← tbl128 Dec.Gen.BID_MIDPOINT128 (UInt64.ofInt (toI ((ind - (0x14 : Int32)))))).w0) }
    C1 := { C1 with w1 := (C1.w1 + (← tbl128 Dec.Gen.BID_MIDPOINT128 (UInt64.ofInt (toI ((ind - (0x14 : Int32)))))).w1) }
  if (decide (C1.w0 < tmp64)) then
    C1 := { C1 with w1 := (C1.w1 + 1) }
  k C1

/-- multiply by the reciprocal of `10^ind` and split the 256-bit product into the quotient `Cstar` (already shifted) and
the fraction `fstar` -/
def splitK {α : Type} (C1 : U128) (ind : Int32) (k : U128 → U256 → Except String α) : Except String α := do
  let mut Cstar : U128 := default
  let mut fstar : U256 := default
  let mut P256 : U256 := default
  let mut shift : Int32 := default
  P256 := (← mul_128x128_to_256 C1 (← tbl128 Dec.Gen.BID_TEN2MK128 (UInt64.ofInt (toI ((ind - (1 : Int32)))))))
  if (decide ((ind - (1 : Int32)) ≤ (0x15 : Int32))) then
    Cstar := { Cstar with w1 := P256.w3 }
    Cstar := { Cstar with w0 := P256.w2 }
    fstar := { fstar with w3 := (0 : UInt64) }
    fstar := { fstar with w2 := (P256.w2 &&& (← tbl64 Dec.Gen.BID_MASKHIGH128 (UInt64.ofInt (toI ((ind - (1 : Int32))))))) }
    fstar := { fstar with w1 := P256.w1 }
    fstar := { fstar with w0 := P256.w0 }
  else
    Cstar := { Cstar with w1 := (0 : UInt64) }
    Cstar := { Cstar with w0 := P256.w3 }
    fstar := { fstar with w3 := (P256.w3 &&& (← tbl64 Dec.Gen.BID_MASKHIGH128 (UInt64.ofInt (toI ((ind - (1 : Int32))))))) }
    fstar := { fstar with w2 := P256.w2 }
    fstar := { fstar with w1 := P256.w1 }
    fstar := { fstar with w0 := P256.w0 }
  shift := (← tblI32 Dec.Gen.BID_SHIFTRIGHT128 (UInt64.ofInt (toI ((ind - (1 : Int32))))))
  Cstar := { Cstar with w0 := (if (decide ((ind - (1 : Int32)) ≤ (0x15 : Int32))) then (((Cstar.w0 >>> (UInt64.ofInt (toI shift)))) ||| ((Cstar.w1 <<< (UInt64.ofInt (toI (((0x40 : Int32) - shift))))))) else (Cstar.w0 >>> (UInt64.ofInt (toI ((shift - (0x40 : Int32))))))) }
  k Cstar fstar

/-- digit removal: add half a unit of the last kept place, multiply by the reciprocal of `10^ind`, split the product -/
def removeK {α : Type} (C1 : U128) (ind : Int32) (k : U128 → U256 → Except String α) : Except String α :=
  addHalfK C1 ind (fun C1' => splitK C1' ind k)

/-- classification of the fraction: `kA` when it is above ½ by more than the reciprocal error (discarded part below the
midpoint, inexact), `kB` when above ½ but within the error (discarded part zero), `kC` otherwise -/
def fracK {α : Type} (fstar : U256) (ind : Int32) (kA kB kC : Except String α) : Except String α := do
  if (decide ((ind - (1 : Int32)) ≤ (2 : Int32))) then
    if ((decide (fstar.w1 > (0x8000000000000000 : UInt64))) || (((fstar.w1 == (0x8000000000000000 : UInt64)) && (decide (fstar.w0 > (0 : UInt64)))))) then
      let tmp64 := (fstar.w1 - (0x8000000000000000 : UInt64))
      if (← (if (decide (tmp64 > (← tbl128 Dec.Gen.BID_TEN2MK128TRUNC (UInt64.ofInt (toI ((ind - (1 : Int32)))))).w1)) then pure true else (do pure ((← (if (tmp64 == (← tbl128 Dec.Gen.BID_TEN2MK128TRUNC (UInt64.ofInt (toI ((ind - (1 : Int32)))))).w1) then (do pure (decide (fstar.w0 ≥ (← tbl128 Dec.Gen.BID_TEN2MK128TRUNC (UInt64.ofInt (toI ((ind - (1 : Int32)))))).w0))) else pure false)))))) then
        kA
      else
        kB
    else
      kC
  else
    if (decide ((ind - (1 : Int32)) ≤ (0x15 : Int32))) then
      if (← (if (← (if (decide (fstar.w3 > (0 : UInt64))) then pure true else (do pure ((← (if (fstar.w3 == (0 : UInt64)) then (do pure (decide (fstar.w2 > (← tbl64 Dec.Gen.BID_ONEHALF128 (UInt64.ofInt (toI ((ind - (1 : Int32))))))))) else pure false)))))) then pure true else (do pure (((← (if (fstar.w3 == (0 : UInt64)) then (do pure (fstar.w2 == (← tbl64 Dec.Gen.BID_ONEHALF128 (UInt64.ofInt (toI ((ind - (1 : Int32)))))))) else pure false)) && (((fstar.w1 != (0 : UInt64)) || (fstar.w0 != (0 : UInt64))))))))) then
        let tmp64 := (fstar.w2 - (← tbl64 Dec.Gen.BID_ONEHALF128 (UInt64.ofInt (toI ((ind - (1 : Int32)))))))
        let mut tmp64A := fstar.w3
        if (decide (tmp64 > fstar.w2)) then
          tmp64A := (tmp64A - 1)
        if (← (if (← (if ((tmp64A != (0 : UInt64)) || (tmp64 != (0 : UInt64))) then pure true else (do pure (decide (fstar.w1 > (← tbl128 Dec.Gen.BID_TEN2MK128TRUNC (UInt64.ofInt (toI ((ind - (1 : Int32)))))).w1))))) then pure true else (do pure ((← (if (fstar.w1 == (← tbl128 Dec.Gen.BID_TEN2MK128TRUNC (UInt64.ofInt (toI ((ind - (1 : Int32)))))).w1) then (do pure (decide (fstar.w0 > (← tbl128 Dec.Gen.BID_TEN2MK128TRUNC (UInt64.ofInt (toI ((ind - (1 : Int32)))))).w0))) else pure false)))))) then
          kA
        else
          kB
      else
        kC
    else
      if (← (if (decide (fstar.w3 > (← tbl64 Dec.Gen.BID_ONEHALF128 (UInt64.ofInt (toI ((ind - (1 : Int32)))))))) then pure true else (do pure (((fstar.w3 == (← tbl64 Dec.Gen.BID_ONEHALF128 (UInt64.ofInt (toI ((ind - (1 : Int32))))))) && ((((fstar.w2 != (0 : UInt64)) || (fstar.w1 != (0 : UInt64))) || (fstar.w0 != (0 : UInt64))))))))) then
        let tmp64 := (fstar.w3 - (← tbl64 Dec.Gen.BID_ONEHALF128 (UInt64.ofInt (toI ((ind - (1 : Int32)))))))
        if (← (if (← (if ((tmp64 != (0 : UInt64)) || (fstar.w2 != (0 : UInt64))) then pure true else (do pure (decide (fstar.w1 > (← tbl128 Dec.Gen.BID_TEN2MK128TRUNC (UInt64.ofInt (toI ((ind - (1 : Int32)))))).w1))))) then pure true else (do pure ((← (if (fstar.w1 == (← tbl128 Dec.Gen.BID_TEN2MK128TRUNC (UInt64.ofInt (toI ((ind - (1 : Int32)))))).w1) then (do pure (decide (fstar.w0 > (← tbl128 Dec.Gen.BID_TEN2MK128TRUNC (UInt64.ofInt (toI ((ind - (1 : Int32)))))).w0))) else pure false)))))) then
          kA
        else
          kB
      else
        kC

/-- the midpoint test: the fraction is non-zero and within the reciprocal error -/
def midK {α : Type} (fstar : U256) (ind : Int32) (kMid kNot : Except String α) : Except String α := do
  if (← (if ((((fstar.w3 == (0 : UInt64))) && ((fstar.w2 == (0 : UInt64)))) && (((fstar.w1 != (0 : UInt64)) || (fstar.w0 != (0 : UInt64))))) then (do pure ((← (if (decide (fstar.w1 < (← tbl128 Dec.Gen.BID_TEN2MK128TRUNC (UInt64.ofInt (toI ((ind - (1 : Int32)))))).w1)) then pure true else (do pure ((← (if (fstar.w1 == (← tbl128 Dec.Gen.BID_TEN2MK128TRUNC (UInt64.ofInt (toI ((ind - (1 : Int32)))))).w1) then (do pure (decide (fstar.w0 ≤ (← tbl128 Dec.Gen.BID_TEN2MK128TRUNC (UInt64.ofInt (toI ((ind - (1 : Int32)))))).w0))) else pure false)))))))) else pure false)) then kMid else kNot

/-- the signed result -/
def resOf (x_sign : UInt64) (w : UInt64) : Int32 :=
  (Int32.ofInt (toI (if (x_sign != (0 : UInt64)) then (-((Int64.ofInt (toI w)))) else (Int64.ofInt (toI w)))))

/-- the result for a positive exponent: `±C · 10^exp` -/
def posExpK {α : Type} (x_sign : UInt64) (C1 : U128) (exp : Int32) (k : Int32 → Except String α) : Except String α := do
  let v ← (if (x_sign != (0 : UInt64)) then (do pure ((-((Int64.ofInt (toI C1.w0)))) * ((Int64.ofInt (toI (← tbl64 Dec.Gen.BID_TEN2K64 (UInt64.ofInt (toI exp)))))))) else (do pure (Int64.ofInt (toI ((C1.w0 * (← tbl64 Dec.Gen.BID_TEN2K64 (UInt64.ofInt (toI exp)))))))))
  k (Int32.ofInt (toI v))

/-- the other way some copies write the positive-exponent result: the product is formed on `i64` on both sides -/
def posExpK' {α : Type} (x_sign : UInt64) (C1 : U128) (exp : Int32) (k : Int32 → Except String α) : Except String α := do
  let v ← (if (x_sign != (0 : UInt64)) then (do pure ((-((Int64.ofInt (toI C1.w0)))) * ((Int64.ofInt (toI (← tbl64 Dec.Gen.BID_TEN2K64 (UInt64.ofInt (toI exp)))))))) else (do pure (((Int64.ofInt (toI C1.w0))) * ((Int64.ofInt (toI (← tbl64 Dec.Gen.BID_TEN2K64 (UInt64.ofInt (toI exp)))))))))
  k (Int32.ofInt (toI v))

def INV (f : UInt32) : Except String (Int32 × UInt32) := .ok ((0x80000000 : Int32), f ||| c_StatusFlags_BID_INVALID_EXCEPTION)

def fin32 (f : UInt32) (r : Int32) : Except String (Int32 × UInt32) := .ok (r, f)


/-! ### `bid128_to_int32_int` is the composition of the blocks -/

/-! ### specifications of the blocks -/

/-- the table index the code derives from the exponent field of `v as f64`: bit length − 1 (offset by the word position) -/
theorem idx32 (v : UInt64) (K : UInt32) (h0 : 0 < v.toNat) (h53 : v.toNat < 2^53) (hK1 : 1 ≤ K.toNat) (hK2 : K.toNat ≤ 65) :
    UInt64.ofInt (toI ((K + (((UInt32.ofInt (toI ((F64U.ofU64 (UInt64.ofInt (toI v))).bits >>> 0x34))) &&& 0x7ff) - 0x3ff)) - 1))
      = UInt64.ofNat (K.toNat - 1 + v.toNat.log2) := by
  obtain ⟨f1, f2⟩ := float_exp v.toNat h0 h53
  have hl : v.toNat.log2 < 53 := (Nat.log2_lt (by omega)).2 h53
  have e1 : (UInt64.ofInt (toI v)) = v := by rw [toI_u64, u64_ofInt_nat, UInt64.ofNat_toNat]
  have e2 : ((F64U.ofU64 v).bits >>> 0x34).toNat = v.toNat.log2 + 1023 := by
    rw [UInt64.toNat_shiftRight, F64U.ofU64, UInt64.toNat_ofNat', Nat.mod_eq_of_lt (by omega),
      show (0x34 : UInt64).toNat % 64 = 52 from by decide, Nat.shiftRight_eq_div_pow, f1]
  have e3 : (K + (((UInt32.ofInt (toI ((F64U.ofU64 v).bits >>> 0x34))) &&& 0x7ff) - 0x3ff)).toNat = K.toNat + v.toNat.log2 := by
    rw [UInt32.toNat_add, UInt32.toNat_sub, UInt32.toNat_and, toI_u64, u32_ofInt_nat, UInt32.toNat_ofNat', e2,
      show (0x7ff : UInt32).toNat = 2^11 - 1 from by decide, Nat.and_two_pow_sub_one_eq_mod,
      show (0x3ff : UInt32).toNat = 1023 from by decide]
    omega
  rw [e1, toI_u32, UInt32.toNat_sub, e3, show (1 : UInt32).toNat = 1 from by decide, u64_ofInt_nat]
  congr 1
  omega


/-- the digit-count tail once the table row is known -/
def nrRow (D D1 : UInt32) (THI TLO : UInt64) (C1 : U128) : Int32 :=
  if Int32.ofInt (toI D) = 0 then
    (if THI.toNat * 2^64 + TLO.toNat ≤ C1.w1.toNat * 2^64 + C1.w0.toNat then Int32.ofInt (toI D1) + 1 else Int32.ofInt (toI D1))
  else Int32.ofInt (toI D)

theorem nrDigitsK_row {α : Type} (C1 : U128) (k : Int32 → Except String α) (i : Nat) (D D1 : UInt32) (THI TLO : UInt64)
    (hrow : tblDD Dec.Gen.BID_NR_DIGITS (UInt64.ofNat i) = .ok ⟨D, THI, TLO, D1⟩)
    (hidx : (if (C1.w1 == 0) = true then
        (if decide (C1.w0 ≥ 0x20000000000000) = true then
          UInt64.ofInt (toI (((0x21 : UInt32) + (((UInt32.ofInt (toI ((F64U.ofU64 (UInt64.ofInt (toI (C1.w0 >>> 0x20)))).bits >>> 0x34))) &&& 0x7ff) - 0x3ff)) - 1))
         else UInt64.ofInt (toI (((1 : UInt32) + (((UInt32.ofInt (toI ((F64U.ofU64 (UInt64.ofInt (toI C1.w0))).bits >>> 0x34))) &&& 0x7ff) - 0x3ff)) - 1)))
       else UInt64.ofInt (toI (((0x41 : UInt32) + (((UInt32.ofInt (toI ((F64U.ofU64 (UInt64.ofInt (toI C1.w1))).bits >>> 0x34))) &&& 0x7ff) - 0x3ff)) - 1)))
      = UInt64.ofNat i) :
    nrDigitsK C1 k = k (nrRow D D1 THI TLO C1) := by
  have := C1.w0.toNat_lt; have := TLO.toNat_lt
  unfold nrDigitsK nrRow
  simp only [bind, Except.bind, pure, Except.pure]
  have ev : ∀ (b : Except String Bool) (v : Bool), b = .ok v →
      (match b with
        | .error e => (.error e : Except String α)
        | .ok v_2 => if v_2 = true then k (Int32.ofInt (toI D1) + 1) else k (Int32.ofInt (toI D1))) =
      k (if v = true then Int32.ofInt (toI D1) + 1 else Int32.ofInt (toI D1)) := by
    intro b v hb; subst hb; cases v <;> rfl
  have key : (if decide (C1.w1 > THI) = true then Except.ok true
      else if (C1.w1 == THI) = true then Except.ok (decide (C1.w0 ≥ TLO)) else (Except.ok false : Except String Bool))
      = .ok (decide (THI.toNat * 2^64 + TLO.toNat ≤ C1.w1.toNat * 2^64 + C1.w0.toNat)) := by
    by_cases h1 : C1.w1 > THI
    · have : THI.toNat * 2^64 + TLO.toNat ≤ C1.w1.toNat * 2^64 + C1.w0.toNat := by
        rw [gt_iff_lt, UInt64.lt_iff_toNat_lt] at h1; omega
      simp only [h1, decide_true, if_true, this]
    · by_cases h2 : C1.w1 = THI
      · have : (THI.toNat * 2^64 + TLO.toNat ≤ C1.w1.toNat * 2^64 + C1.w0.toNat) ↔ C1.w0 ≥ TLO := by
          rw [ge_iff_le, UInt64.le_iff_toNat_le, h2]; omega
        rw [h2] at this
        simp only [h2, gt_iff_lt, UInt64.lt_irrefl, decide_false, Bool.false_eq_true, if_false, beq_self_eq_true, if_true]
        rw [decide_eq_decide.2 this]
      · have : ¬ THI.toNat * 2^64 + TLO.toNat ≤ C1.w1.toNat * 2^64 + C1.w0.toNat := by
          rw [gt_iff_lt, UInt64.lt_iff_toNat_lt] at h1
          rw [← UInt64.toNat_inj] at h2
          omega
        have h2' : (C1.w1 == THI) = false := by rw [beq_eq_false_iff_ne]; exact h2
        simp only [h1, decide_false, Bool.false_eq_true, if_false, h2', this]
  have fin : (if (Int32.ofInt (toI D) == 0) = true then
        k (if decide (THI.toNat * 2^64 + TLO.toNat ≤ C1.w1.toNat * 2^64 + C1.w0.toNat) = true
          then Int32.ofInt (toI D1) + 1 else Int32.ofInt (toI D1))
      else k (Int32.ofInt (toI D))) =
      k (if Int32.ofInt (toI D) = 0 then
        (if THI.toNat * 2^64 + TLO.toNat ≤ C1.w1.toNat * 2^64 + C1.w0.toNat then Int32.ofInt (toI D1) + 1 else Int32.ofInt (toI D1))
        else Int32.ofInt (toI D)) := by
    by_cases h0 : Int32.ofInt (toI D) = 0
    · simp only [h0, beq_self_eq_true, if_true, decide_eq_true_eq]
    · have h0' : (Int32.ofInt (toI D) == 0) = false := by rw [beq_eq_false_iff_ne]; exact h0
      simp only [h0', Bool.false_eq_true, if_false, h0]
  by_cases c1 : (C1.w1 == 0) = true
  · rw [if_pos c1] at hidx
    rw [if_pos c1]
    by_cases c2 : decide (C1.w0 ≥ 0x20000000000000) = true
    · rw [if_pos c2] at hidx
      rw [if_pos c2, hidx]
      simp only [hrow, key, ev _ _ rfl, fin]
    · rw [if_neg c2] at hidx
      rw [if_neg c2, hidx]
      simp only [hrow, key, ev _ _ rfl, fin]
  · rw [if_neg c1] at hidx
    rw [if_neg c1, hidx]
    simp only [hrow, key, ev _ _ rfl, fin]


theorem u64_beq0 (a : UInt64) : (a == 0) = decide (a.toNat = 0) := by
  rw [Bool.eq_iff_iff, beq_iff_eq, decide_eq_true_eq, ← UInt64.toNat_inj, UInt64.toNat_zero]

/-- **digit count**: for a non-zero coefficient below 2^113 the block continues with the number of decimal digits (as an
`Int32`); no table access panics -/
theorem nrDigitsK_spec (C1 : U128) (h0 : 0 < val128 C1) (hC : val128 C1 < 2^113) :
    ∃ Q : Int32, Q.toInt = (ndigits (val128 C1) : Int) ∧
      ∀ {α : Type} (k : Int32 → Except String α), nrDigitsK C1 k = k Q := by
  have hl := C1.w0.toNat_lt
  have hL : (val128 C1).log2 < 113 := (Nat.log2_lt (by omega)).2 hC
  have hq := nr_q (val128 C1) h0 hC
  refine ⟨_, hq, fun k => ?_⟩
  have hrow := tblDD_nr _ hL
  rw [nrDigitsK_row C1 k _ _ _ _ _ hrow]
  · rfl
  · unfold val128 at *
    by_cases c5 : C1.w1.toNat = 0
    · rw [if_pos (by rw [u64_beq0]; simpa using c5)]
      by_cases c6 : 2^53 ≤ C1.w0.toNat
      · rw [if_pos (by rw [Dec.C13GenNoncomp.u64_ge]; simpa using c6),
          idx32 _ 0x21 (by rw [shr32]; omega) (by rw [shr32]; omega) (by decide) (by decide)]
        rw [shr32, show UInt32.toNat 0x21 - 1 = 32 from by decide, log2_shift _ c6, c5]
        simp only [Nat.zero_mul, Nat.zero_add]
      · rw [if_neg (by rw [Dec.C13GenNoncomp.u64_ge]; simpa using c6),
          idx32 _ 1 (by omega) (by omega) (by decide) (by decide)]
        rw [show UInt32.toNat 1 - 1 = 0 from by decide, c5]
        simp only [Nat.zero_mul, Nat.zero_add]
    · rw [if_neg (by rw [u64_beq0]; simpa using c5),
        idx32 _ 0x41 (by omega) (by omega) (by decide) (by decide)]
      rw [show UInt32.toNat 0x41 - 1 = 64 from by decide, log2_hi _ _ c5 hl]


/-- the unbiased exponent as the code extracts it -/
theorem exp_toInt (w : UInt64) :
    (Int32.ofInt (toI (((w &&& c_MASK_EXP) >>> 0x31) - (0x1820 : UInt64)))).toInt = (expW w.toNat : Int) - 6176 := by
  have e : ((w &&& c_MASK_EXP) >>> 0x31).toNat = expW w.toNat := by
    unfold expW
    rw [UInt64.toNat_shiftRight, toNat_and_field w _ 14 49 (by decide), show (0x31 : UInt64).toNat % 64 = 49 from by decide,
      Nat.shiftRight_eq_div_pow, Nat.mul_div_cancel _ (by decide)]
  have hl := expW_lt w.toNat
  rw [Int32.toInt_ofInt, toI_u64, UInt64.toNat_sub, e, show (0x1820 : UInt64).toNat = 6176 from by decide]
  rw [show Int32.size = 2^32 from rfl]
  by_cases hge : 6176 ≤ expW w.toNat
  · have : ((2 ^ 64 - 6176 + expW w.toNat) % 2 ^ 64 : Nat) = expW w.toNat - 6176 := by omega
    rw [this, Int.bmod_eq_of_le (by omega) (by omega)]; omega
  · have : (((2 ^ 64 - 6176 + expW w.toNat) % 2 ^ 64 : Nat) : Int) = ((expW w.toNat : Int) - 6176) + (2^32 : Int) * ((2^32 : Nat) : Int) := by
      omega
    rw [this, Int.add_mul_bmod_self_right, Int.bmod_eq_of_le (by omega) (by omega)]


theorem sigF_eq (x : U128) : (⟨x.w0, x.w1 &&& c_MASK_COEFF⟩ : U128) = sigF x := rfl

/-- **front end**: NaN / infinity → `inv`; zeros (non-canonical encodings included) → `zero`; otherwise the continuation gets
the sign word, the coefficient words, the digit count of the coefficient and the unbiased exponent -/
theorem frontK_spec {α : Type} (x : U128) (inv zero : Except String α)
    (k : UInt64 → U128 → Int32 → Int32 → Except String α) :
    (x.w1.toNat / 2^59 % 16 = 15 → frontK x inv zero k = inv) ∧
    (x.w1.toNat / 2^59 % 16 ≠ 15 → zeroP x.w1.toNat x.w0.toNat → frontK x inv zero k = zero) ∧
    (nzFin x → ∃ Q E : Int32, Q.toInt = (ndigits (sigW x.w1.toNat x.w0.toNat) : Int) ∧
      E.toInt = (expW x.w1.toNat : Int) - 6176 ∧
      frontK x inv zero k = k (x.w1 &&& c_MASK_SIGN) (sigF x) Q E) := by
  have hl := x.w0.toNat_lt
  have e1 : ((x.w1 &&& c_MASK_SPECIAL) == c_MASK_SPECIAL) = decide (x.w1.toNat / 2^59 % 16 = 15) := inf_test x.w1
  have e2 : (decide ((x.w1 &&& c_MASK_COEFF) > (0x1ed09bead87c0 : UInt64)) ||
      ((x.w1 &&& c_MASK_COEFF) == (0x1ed09bead87c0 : UInt64) && decide (x.w0 > (0x378d8e63ffffffff : UInt64))) ||
      ((x.w1 &&& (0x6000000000000000 : UInt64)) == (0x6000000000000000 : UInt64)) ||
      ((x.w1 &&& c_MASK_COEFF) == (0 : UInt64) && x.w0 == (0 : UInt64))) = decide (zeroP x.w1.toNat x.w0.toNat) :=
    by rw [← Dec.C03GenCompare.zeroTest_eq x]; unfold Dec.C03GenCompare.zeroTest; rw [← steer_test]; rfl
  unfold frontK
  rw [e1]
  refine ⟨fun h => by rw [if_pos (by simpa using h)], fun h hz => ?_, fun ⟨h, hz⟩ => ?_⟩
  · rw [if_neg (by simpa using h)]
    by_cases c : ((decide ((x.w1 &&& c_MASK_COEFF) > (0x1ed09bead87c0 : UInt64)) ||
      ((x.w1 &&& c_MASK_COEFF) == (0x1ed09bead87c0 : UInt64) && decide (x.w0 > (0x378d8e63ffffffff : UInt64))) ||
      ((x.w1 &&& (0x6000000000000000 : UInt64)) == (0x6000000000000000 : UInt64)))) = true
    · rw [if_pos c]
    · rw [if_neg c]
      have : ((x.w1 &&& c_MASK_COEFF) == (0 : UInt64) && x.w0 == (0 : UInt64)) = true := by
        have := e2
        rw [Bool.not_eq_true] at c
        rw [c, Bool.false_or, decide_eq_true hz] at this
        exact this
      rw [if_pos this]
  · rw [if_neg (by simpa using h)]
    have e3 := e2
    rw [decide_eq_false hz, Bool.or_eq_false_iff] at e3
    rw [if_neg (by rw [e3.1]; decide), if_neg (by rw [e3.2]; decide), sigF_eq]
    have hz' := hz
    unfold zeroP at hz'
    have hs : 0 < sigW x.w1.toNat x.w0.toNat := by omega
    have hs' : sigW x.w1.toNat x.w0.toNat < 2^113 := by unfold sigW; omega
    rw [← val128_sigF] at hs hs'
    obtain ⟨Q, hQ, hk⟩ := nrDigitsK_spec (sigF x) hs hs'
    rw [val128_sigF] at hQ
    exact ⟨Q, _, hQ, exp_toInt x.w1, hk _⟩


/-! ### the range test -/

theorem mach_eq : @mul_64x64_to_128MACH = @mul_64x64_to_128 := rfl

/-- 64 × 128 → 128 bit multiplication (low 128 bits): exact when the product fits -/
theorem mul_128x64_to_128_spec (a : UInt64) (B : U128) (h : a.toNat * val128 B < 2^128) :
    ∃ r, mul_128x64_to_128 a B = .ok r ∧ val128 r = a.toNat * val128 B := by
  obtain ⟨m, hm, mv⟩ := mul_64x64_to_128_spec a B.w0
  refine ⟨⟨m.w0, m.w1 + a * B.w1⟩, ?_, ?_⟩
  · simp only [mul_128x64_to_128, mach_eq, bind, Except.bind, pure, Except.pure, hm]
  · have e : a.toNat * val128 B = a.toNat * B.w1.toNat * 2^64 + a.toNat * B.w0.toNat := by unfold val128; ring
    rw [e, ← mv] at h ⊢
    have := m.w0.toNat_lt; have := m.w1.toNat_lt
    simp only [val128, UInt64.toNat_add, UInt64.toNat_mul]
    generalize a.toNat * B.w1.toNat = t at *
    have hsum : t + m.w1.toNat < 2^64 := by
      apply Classical.byContradiction
      intro hc
      have := Nat.mul_le_mul_right (2^64) (Nat.le_of_not_lt hc)
      omega
    rw [Nat.mod_eq_of_lt (a := m.w1.toNat + t % 2^64) (by omega), Nat.mod_eq_of_lt (a := t) (by omega)]
    linarith


theorem i32_sub (a b : Int32) (h1 : -2^31 ≤ a.toInt - b.toInt) (h2 : a.toInt - b.toInt < 2^31) :
    (a - b).toInt = a.toInt - b.toInt := by
  rw [Int32.toInt_sub]; exact Int.bmod_eq_of_le (by omega) (by omega)

theorem i32_add (a b : Int32) (h1 : -2^31 ≤ a.toInt + b.toInt) (h2 : a.toInt + b.toInt < 2^31) :
    (a + b).toInt = a.toInt + b.toInt := by
  rw [Int32.toInt_add]; exact Int.bmod_eq_of_le (by omega) (by omega)

theorem i32_neg (a : Int32) (h1 : -2^31 < a.toInt) : (-a).toInt = -a.toInt := by
  have := a.toInt_lt; have := a.le_toInt
  rw [Int32.toInt_neg]; exact Int.bmod_eq_of_le (by omega) (by omega)

/-- table index from a small non-negative `Int32` -/
theorem idx_of_i32 (d : Int32) (g : Nat) (hd : d.toInt = g) : (UInt64.ofInt (toI d)).toNat = g := by
  have := d.toInt_lt
  show (UInt64.ofInt d.toInt).toNat = g
  rw [hd, ofInt_toNat_of_nonneg _ (by omega) (by omega)]; omega

/-- `c · 10^(q − 11)` for `12 ≤ q ≤ 34` and a constant below 2^36: exact, no panic -/
theorem scaleC_spec (c : UInt64) (q : Int32) (n : Nat) (hq : q.toInt = n) (h12 : 12 ≤ n) (h34 : n ≤ 34) (hc : c.toNat < 2^36) :
    ∃ r, scaleC c q = .ok r ∧ val128 r = c.toNat * 10 ^ (n - 11) := by
  unfold scaleC
  have d11 : (q - 0xb).toInt = ((n - 11 : Nat) : Int) := by
    rw [i32_sub _ _ (by rw [hq]; show (-2^31 : Int) ≤ n - 11; omega) (by rw [hq]; show (n : Int) - 11 < 2^31; omega), hq]
    show (n : Int) - 11 = _; omega
  by_cases h : q - 0xb ≤ 0x13
  · rw [if_pos (by simpa using h)]
    rw [Int32.le_iff_toInt_le, d11, show (0x13 : Int32).toInt = 19 from rfl] at h
    have hk := idx_of_i32 _ _ d11
    obtain ⟨t, ht, tv⟩ := tbl64_ten (UInt64.ofInt (toI (q - 0xb))) (by omega)
    obtain ⟨r, hr, rv⟩ := mul_64x64_to_128_spec c t
    refine ⟨r, ?_, ?_⟩
    · simp only [bind, Except.bind, pure, Except.pure, ht, mach_eq, hr]
    · show r.w1.toNat * 2^64 + r.w0.toNat = _
      rw [rv, tv, hk]
  · rw [if_neg (by simpa using h)]
    rw [Int32.le_iff_toInt_le, d11, show (0x13 : Int32).toInt = 19 from rfl] at h
    have d31 : (q - 0x1f).toInt = ((n - 31 : Nat) : Int) := by
      rw [i32_sub _ _ (by rw [hq]; show (-2^31 : Int) ≤ n - 31; omega) (by rw [hq]; show (n : Int) - 31 < 2^31; omega), hq]
      show (n : Int) - 31 = _; omega
    have hk := idx_of_i32 _ _ d31
    obtain ⟨t, ht, tv⟩ := tbl128_ten (UInt64.ofInt (toI (q - 0x1f))) (by omega)
    rw [hk, show n - 31 + 20 = n - 11 by omega] at tv
    have hb : c.toNat * 10 ^ (n - 11) < 2^128 := by
      calc c.toNat * 10 ^ (n - 11) < 2^36 * 10 ^ 23 :=
            Nat.mul_lt_mul_of_lt_of_le hc (Nat.pow_le_pow_right (by decide) (by omega)) (Nat.pow_pos (by decide))
        _ < 2^128 := by decide
    obtain ⟨r, hr, rv⟩ := mul_128x64_to_128_spec c t (by rw [tv]; exact hb)
    refine ⟨r, ?_, ?_⟩
    · simp only [bind, Except.bind, pure, Except.pure, ht, hr]
    · rw [rv, tv]


/-- the comparison of the range test on numbers: strict (`a > b`) or not (`a ≥ b`) -/
def cmpN (s : Bool) (a b : Nat) : Bool := if s then decide (b < a) else decide (b ≤ a)

theorem cmp64_eq (s : Bool) (a b : UInt64) : cmp64 s a b = cmpN s a.toNat b.toNat := by
  unfold cmp64 cmpN
  cases s <;> simp only [Bool.false_eq_true, if_true, if_false, decide_eq_decide, gt_iff_lt, ge_iff_le, UInt64.lt_iff_toNat_lt,
    UInt64.le_iff_toNat_le]

theorem cmp128_eq (s : Bool) (A B : U128) : cmp128 s A B = cmpN s (val128 A) (val128 B) := by
  have := A.w0.toNat_lt; have := B.w0.toNat_lt
  unfold cmp128 cmpN val128
  cases s <;> rw [Bool.eq_iff_iff] <;>
  simp only [Bool.false_eq_true, if_true, if_false, Bool.or_eq_true, Bool.and_eq_true, decide_eq_true_eq, beq_iff_eq, gt_iff_lt,
    ge_iff_le, UInt64.lt_iff_toNat_lt, UInt64.le_iff_toNat_le, ← UInt64.toNat_inj] <;> omega

theorem val128_small (A : U128) (h : val128 A < 2^64) : A.w1.toNat = 0 := by
  unfold val128 at h; omega

/-- **range test**: with `n` digits and exponent `e`: more than 10 integer digits → `inv`; exactly 10 → `inv` iff
`C·10^(11−n)` (that is `10·|x|`, scaled) passes the copy's comparison with its constant; otherwise continue -/
theorem rangeK_spec {α : Type} (P : RangeP) (xs : UInt64) (C1 : U128) (q exp : Int32) (inv k : Except String α)
    (n : Nat) (e : Int) (hq : q.toInt = n) (he : exp.toInt = e) (h1 : 1 ≤ n) (h34 : n ≤ 34)
    (hC : val128 C1 < 10 ^ n) (he1 : -10000 ≤ e) (he2 : e ≤ 10000)
    (hcN : P.cN.toNat < 2^36) (hcP : P.cP.toNat < 2^36) :
    rangeK P xs C1 q exp inv k =
      if 10 < (n : Int) + e then inv
      else if (n : Int) + e = 10 then
        (if xs ≠ 0 then
          (if cmpN P.sN (val128 C1 * 10 ^ (11 - n)) (P.cN.toNat * 10 ^ (n - 11)) = true then inv else k)
         else (if cmpN P.sP (val128 C1 * 10 ^ (11 - n)) (P.cP.toNat * 10 ^ (n - 11)) = true then inv else k))
      else k := by
  have hsum : (q + exp).toInt = (n : Int) + e := by rw [i32_add _ _ (by omega) (by omega), hq, he]
  unfold rangeK
  by_cases c1 : 10 < (n : Int) + e
  · rw [if_pos c1, if_pos (by rw [decide_eq_true_eq, int32_gt_lit, hsum]; exact c1)]
  rw [if_neg c1, if_neg (by rw [decide_eq_true_eq, int32_gt_lit, hsum]; exact c1)]
  by_cases c2 : (n : Int) + e = 10
  swap
  · rw [if_neg c2, if_neg (by rw [beq_iff_eq, ← Int32.toInt_inj, hsum]; exact c2)]
  rw [if_pos c2, if_pos (by rw [beq_iff_eq, ← Int32.toInt_inj, hsum]; exact c2)]
  -- the two sides are the same code with different parameters
  have side : ∀ (s : Bool) (c : UInt64), c.toNat < 2^36 →
      (if decide (q ≤ (0xb : Int32)) = true then
        (do let tmp64 := (C1.w0 * (← tbl64 Dec.Gen.BID_TEN2K64 (UInt64.ofInt (toI (((0xb : Int32) - q))))))
            if cmp64 s tmp64 c then inv else k)
       else (do let C ← scaleC c q
                if cmp128 s C1 C then inv else k)) =
      (if cmpN s (val128 C1 * 10 ^ (11 - n)) (c.toNat * 10 ^ (n - 11)) = true then inv else k) := by
    intro s c hc
    by_cases c3 : n ≤ 11
    · rw [if_pos (by rw [decide_eq_true_eq, Int32.le_iff_toInt_le, hq]; show (n : Int) ≤ 11; omega)]
      have d : ((0xb : Int32) - q).toInt = ((11 - n : Nat) : Int) := by
        rw [i32_sub _ _ (by rw [hq]; show (-2^31 : Int) ≤ 11 - n; omega) (by rw [hq]; show (11 : Int) - n < 2^31; omega), hq]
        show (11 : Int) - n = _; omega
      have hk := idx_of_i32 _ _ d
      obtain ⟨t, ht, tv⟩ := tbl64_ten (UInt64.ofInt (toI ((0xb : Int32) - q))) (by omega)
      rw [hk] at tv
      have hpow : 10 ^ n * 10 ^ (11 - n) = 10 ^ 11 := by rw [← Nat.pow_add]; congr 1; omega
      have hlt : val128 C1 * 10 ^ (11 - n) < 10 ^ 11 := by
        rw [← hpow]; exact Nat.mul_lt_mul_of_pos_right hC (Nat.pow_pos (by decide))
      have hC' : val128 C1 < 10 ^ 11 := Nat.lt_of_lt_of_le hC (Nat.pow_le_pow_right (by decide) c3)
      have hw1 : C1.w1.toNat = 0 := val128_small C1 (Nat.lt_trans hC' (by decide))
      have hv : val128 C1 = C1.w0.toNat := by unfold val128; rw [hw1, Nat.zero_mul, Nat.zero_add]
      simp only [bind, Except.bind, ht, cmp64_eq, UInt64.toNat_mul, tv]
      rw [← hv, Nat.mod_eq_of_lt (Nat.lt_trans hlt (by decide)), show n - 11 = 0 from Nat.sub_eq_zero_of_le c3, Nat.pow_zero, Nat.mul_one]
    · rw [if_neg (by rw [decide_eq_true_eq, Int32.le_iff_toInt_le, hq]; show ¬ (n : Int) ≤ 11; omega)]
      obtain ⟨r, hr, rv⟩ := scaleC_spec c q n hq (by omega) h34 hc
      simp only [bind, Except.bind, hr, cmp128_eq, rv]
      rw [show 11 - n = 0 from Nat.sub_eq_zero_of_le (Nat.le_of_lt (Nat.lt_of_not_le c3)), Nat.pow_zero, Nat.mul_one]
  by_cases c4 : xs ≠ 0
  · rw [if_pos c4, if_pos (by simpa [bne_iff_ne] using c4)]
    exact side P.sN P.cN hcN
  · rw [if_neg c4, if_neg (by simpa [bne_iff_ne] using c4)]
    exact side P.sP P.cP hcP


/-! ### the tables of the digit-removal stage -/

/-- shift amount, reciprocal, truncated reciprocal for removing `i + 1` digits -/
def shT (i : Nat) : Nat := Dec.Gen.BID_SHIFTRIGHT128.getD i 0
def kT (i : Nat) : Nat := Dec.Gen.BID_TEN2MK128.getD (2 * i) 0 + 2^64 * Dec.Gen.BID_TEN2MK128.getD (2 * i + 1) 0
def tT (i : Nat) : Nat := Dec.Gen.BID_TEN2MK128TRUNC.getD (2 * i) 0 + 2^64 * Dec.Gen.BID_TEN2MK128TRUNC.getD (2 * i + 1) 0

/-- everything the proofs use about row `i` of the tables, as one decidable statement -/
def rowFacts (i : Nat) : Bool :=
  let s := shT i; let K := kT i; let D := 10 ^ (i + 1)
  decide (2 ^ (128 + s) < K * D) && decide ((10 ^ 35 / D + 1) * (K * D - 2 ^ (128 + s)) < K) &&
  decide (tT i + 1 = K) && decide (K < 2^128) &&
  decide (Dec.Gen.BID_TEN2MK128[2 * i]? = some (K % 2^64)) && decide (Dec.Gen.BID_TEN2MK128[2 * i + 1]? = some (K / 2^64)) &&
  decide (Dec.Gen.BID_TEN2MK128TRUNC[2 * i]? = some (tT i % 2^64)) && decide (Dec.Gen.BID_TEN2MK128TRUNC[2 * i + 1]? = some (tT i / 2^64)) &&
  decide (Dec.Gen.BID_MASKHIGH128[i]? = some (2 ^ (s % 64) - 1)) &&
  decide (Dec.Gen.BID_ONEHALF128[i]? = some (if s % 64 = 0 then 0 else 2 ^ (s % 64 - 1))) &&
  decide (Dec.Gen.BID_SHIFTRIGHT128[i]? = some s) &&
  decide (if i ≤ 2 then s = 0 else if i ≤ 21 then 1 ≤ s ∧ s ≤ 63 else 65 ≤ s ∧ s ≤ 127) &&
  decide (if i < 19 then Dec.Gen.BID_MIDPOINT64[i]? = some (5 * 10 ^ i)
          else Dec.Gen.BID_MIDPOINT128[2 * (i - 19)]? = some (5 * 10 ^ i % 2^64) ∧
               Dec.Gen.BID_MIDPOINT128[2 * (i - 19) + 1]? = some (5 * 10 ^ i / 2^64))

theorem rowFacts_all : ∀ i, i < 34 → rowFacts i = true := by decide +kernel


/-! ### the reciprocal multiplication, on numbers -/

/-- with `K·D = 2^E + δ` (`K` the reciprocal of `D` rounded up) and enough slack, the product `Cp·K` has the quotient
`Cp / D` above bit `E` and the fraction bits `(Cp / D)·δ + (Cp mod D)·K` below -/
theorem recipForm (D K E δ Cp : Nat) (hD : 0 < D) (hK : K * D = 2 ^ E + δ) (hb : (Cp / D + 1) * δ < K) :
    Cp * K / 2 ^ E = Cp / D ∧ Cp * K % 2 ^ E = Cp / D * δ + Cp % D * K := by
  have e' := Nat.div_add_mod Cp D
  have hr' := Nat.mod_lt Cp hD
  generalize Cp / D = a' at *
  generalize Cp % D = r' at *
  have hP : Cp * K = 2 ^ E * a' + (a' * δ + r' * K) := by
    calc Cp * K = (D * a' + r') * K := by rw [e']
      _ = a' * (K * D) + r' * K := by rw [Nat.add_mul, Nat.mul_comm D a', Nat.mul_assoc, Nat.mul_comm D K]
      _ = a' * (2 ^ E + δ) + r' * K := by rw [hK]
      _ = 2 ^ E * a' + (a' * δ + r' * K) := by rw [Nat.mul_add, Nat.mul_comm a' (2 ^ E), Nat.add_assoc]
  have hb' : a' * δ + δ < K := by rw [Nat.add_mul, Nat.one_mul] at hb; exact hb
  have hrK : r' * K + K ≤ 2 ^ E + δ := by
    have : (r' + 1) * K ≤ D * K := Nat.mul_le_mul_right K hr'
    rw [Nat.add_mul, Nat.one_mul, Nat.mul_comm D K, hK] at this
    exact this
  have hX : a' * δ + r' * K < 2 ^ E := by omega
  constructor
  · rw [hP, Nat.mul_add_div (Nat.pow_pos (by decide)), Nat.div_eq_of_lt hX, Nat.add_zero]
  · rw [hP, Nat.mul_add_mod, Nat.mod_eq_of_lt hX]

/-- **fraction tests, on numbers.**  `D = 2h = 10^x`, `K·D = 2^E + δ`, `0 < δ`, enough slack; `a = C / D`, `r = C mod D`.
With `A` the bits of `(C + h)·K` above bit `E` and `F` those below:
`A = a` or `a + 1` (nearest, half up);  `F > 2^(E−1) ⇔ r < h`;  when `r < h`: `F − 2^(E−1) ≥ K − 1 ⇔ F − 2^(E−1) > K − 1 ⇔ 0 < r`;
`0 < F ≤ K − 1 ⇔ r = h`. -/
theorem fracTests (h K E δ C : Nat) (hh : 0 < h) (hK : K * (2 * h) = 2 ^ E + δ) (hδ : 0 < δ) (hE : 1 ≤ E)
    (hb : ((C + h) / (2 * h) + 1) * δ < K) :
    let A := (C + h) * K / 2 ^ E
    let F := (C + h) * K % 2 ^ E
    let r := C % (2 * h)
    A = (if r < h then C / (2 * h) else C / (2 * h) + 1) ∧
    (2 ^ (E - 1) < F ↔ r < h) ∧
    (r < h → (K - 1 ≤ F - 2 ^ (E - 1) ↔ 0 < r)) ∧
    (r < h → (K - 1 < F - 2 ^ (E - 1) ↔ 0 < r)) ∧
    ((0 < F ∧ F ≤ K - 1) ↔ r = h) ∧ (F ≤ K - 1 ↔ r = h) := by
  intro A F r
  obtain ⟨c1, c2, c3, c4, c5⟩ := Dec.C02RoundHelpers.core h K E δ C hh hK hδ hE hb
  obtain ⟨hA, hF⟩ := recipForm (2 * h) K E δ (C + h) (by omega) hK hb
  refine ⟨c1, c2, ?_, c3, ?_, c4⟩
  · -- `≥` instead of `>`: the value `K − 1` itself is not taken
    intro hr
    constructor
    · intro hge
      apply Classical.byContradiction
      intro h0
      have hr0 : r = 0 := by omega
      -- r = 0: (C + h) mod 2h = h, F = a'·δ + h·K, 2·h·K = 2^E + δ
      have hmod : (C + h) % (2 * h) = h := by
        have := Nat.div_add_mod C (2 * h)
        have e : C + h = 2 * h * (C / (2 * h)) + h := by
          show C + h = _; have : C % (2 * h) = 0 := hr0; omega
        rw [e, Nat.mul_add_mod, Nat.mod_eq_of_lt (by omega)]
      have hFv : F = (C + h) / (2 * h) * δ + h * K := by
        show (C + h) * K % 2 ^ E = _; rw [hF, hmod]
      have hpow : 2 ^ E = 2 * 2 ^ (E - 1) := by rw [← Nat.pow_succ']; congr 1; omega
      have hhK : 2 * (h * K) = 2 * 2 ^ (E - 1) + δ := by rw [← hpow, ← hK, Nat.mul_comm K, Nat.mul_assoc]
      have hb' : (C + h) / (2 * h) * δ + δ < K := by rw [Nat.add_mul, Nat.one_mul] at hb; exact hb
      generalize (C + h) / (2 * h) * δ = X at *
      generalize h * K = Y at *
      generalize 2 ^ (E - 1) = half at *
      omega
    · intro h0
      exact Nat.le_of_lt ((c3 hr).2 h0)
  · constructor
    · intro ⟨_, hle⟩; exact c4.1 hle
    · intro hr
      refine ⟨?_, c4.2 hr⟩
      -- r = h: (C + h) mod 2h = 0 and (C + h) / 2h ≥ 1, F = a'·δ > 0
      have hmod : (C + h) % (2 * h) = 0 := by
        have := Nat.div_add_mod C (2 * h)
        have e : C + h = 2 * h * (C / (2 * h) + 1) := by
          show C + h = _; have : C % (2 * h) = h := hr; rw [Nat.mul_add]; omega
        rw [e, Nat.mul_mod_right]
      have hdiv : 1 ≤ (C + h) / (2 * h) := by
        have : 2 * h ≤ C + h := by
          have := Nat.mod_le C (2 * h); have : C % (2 * h) = h := hr; omega
        exact (Nat.le_div_iff_mul_le (by omega)).2 (by omega)
      have hFv : F = (C + h) / (2 * h) * δ := by
        show (C + h) * K % 2 ^ E = _; rw [hF, hmod, Nat.zero_mul, Nat.add_zero]
      rw [hFv]
      exact Nat.mul_pos hdiv hδ


/-! ### table look-ups of the digit-removal stage -/

theorem tbl64_get (t : List Nat) (i : UInt64) (v : Nat) (h : t[i.toNat]? = some v) : tbl64 t i = .ok (UInt64.ofNat v) := by
  unfold tbl64; rw [h]

theorem tbl128_get (t : List Nat) (i : UInt64) (a b : Nat) (h0 : t[2 * i.toNat]? = some a) (h1 : t[2 * i.toNat + 1]? = some b) :
    tbl128 t i = .ok ⟨UInt64.ofNat a, UInt64.ofNat b⟩ := by
  unfold tbl128; rw [h0, h1]

theorem tblI32_get (t : List Nat) (i : UInt64) (v : Nat) (h : t[i.toNat]? = some v) (hv : v < 2^31) :
    ∃ r : Int32, tblI32 t i = .ok r ∧ r.toInt = v := by
  refine ⟨_, by unfold tblI32; rw [h], ?_⟩
  have e : (UInt64.ofNat v).toInt64.toInt = v := by
    rw [UInt64.toInt64_ofNat', Int64.toInt_ofNat_of_lt (by omega)]
  rw [e, Int32.toInt_ofInt_of_le (by omega) (by omega)]

theorem val128_ofNat (K : Nat) (h : K < 2^128) : val128 ⟨UInt64.ofNat (K % 2^64), UInt64.ofNat (K / 2^64)⟩ = K := by
  simp only [val128, UInt64.toNat_ofNat']
  omega

/-- the facts about row `i`, unpacked -/
theorem row (i : Nat) (hi : i < 34) :
    2 ^ (128 + shT i) < kT i * 10 ^ (i + 1) ∧
    (10 ^ 35 / 10 ^ (i + 1) + 1) * (kT i * 10 ^ (i + 1) - 2 ^ (128 + shT i)) < kT i ∧
    tT i + 1 = kT i ∧ kT i < 2^128 ∧
    Dec.Gen.BID_TEN2MK128[2 * i]? = some (kT i % 2^64) ∧ Dec.Gen.BID_TEN2MK128[2 * i + 1]? = some (kT i / 2^64) ∧
    Dec.Gen.BID_TEN2MK128TRUNC[2 * i]? = some (tT i % 2^64) ∧ Dec.Gen.BID_TEN2MK128TRUNC[2 * i + 1]? = some (tT i / 2^64) ∧
    Dec.Gen.BID_MASKHIGH128[i]? = some (2 ^ (shT i % 64) - 1) ∧
    Dec.Gen.BID_ONEHALF128[i]? = some (if shT i % 64 = 0 then 0 else 2 ^ (shT i % 64 - 1)) ∧
    Dec.Gen.BID_SHIFTRIGHT128[i]? = some (shT i) ∧
    (if i ≤ 2 then shT i = 0 else if i ≤ 21 then 1 ≤ shT i ∧ shT i ≤ 63 else 65 ≤ shT i ∧ shT i ≤ 127) ∧
    (if i < 19 then Dec.Gen.BID_MIDPOINT64[i]? = some (5 * 10 ^ i)
      else Dec.Gen.BID_MIDPOINT128[2 * (i - 19)]? = some (5 * 10 ^ i % 2^64) ∧
           Dec.Gen.BID_MIDPOINT128[2 * (i - 19) + 1]? = some (5 * 10 ^ i / 2^64)) := by
  have h := rowFacts_all i hi
  simp only [rowFacts, Bool.and_eq_true, decide_eq_true_eq] at h
  obtain ⟨⟨⟨⟨⟨⟨⟨⟨⟨⟨⟨⟨a1, a2⟩, a3⟩, a4⟩, a5⟩, a6⟩, a7⟩, a8⟩, a9⟩, a10⟩, a11⟩, a12⟩, a13⟩ := h
  exact ⟨a1, a2, a3, a4, a5, a6, a7, a8, a9, a10, a11, a12, a13⟩


/-! ### adding the midpoint -/

theorem idx_sub (ind : Int32) (c : Int32) (x cv : Nat) (hx : ind.toInt = x) (hc : c.toInt = cv) (hle : cv ≤ x) (hb : x < 2^20) :
    (UInt64.ofInt (toI (ind - c))).toNat = x - cv := by
  apply idx_of_i32
  rw [i32_sub _ _ (by rw [hx, hc]; omega) (by rw [hx, hc]; omega), hx, hc]; omega

theorem add_words (a0 a1 m0 m1 : Nat) (ha0 : a0 < 2^64) (hm0 : m0 < 2^64)
    (h : a1 * 2^64 + a0 + (m1 * 2^64 + m0) < 2^128) :
    ((a0 + m0) % 2^64 < a0 → ((a1 + m1) % 2^64 + 1) % 2^64 * 2^64 + (a0 + m0) % 2^64 = a1 * 2^64 + a0 + (m1 * 2^64 + m0)) ∧
    (¬ (a0 + m0) % 2^64 < a0 → (a1 + m1) % 2^64 * 2^64 + (a0 + m0) % 2^64 = a1 * 2^64 + a0 + (m1 * 2^64 + m0)) := by
  have hc : a1 + m1 + (a0 + m0) / 2^64 < 2^64 := by
    apply Nat.lt_of_mul_lt_mul_right (a := 2^64)
    have := Nat.div_add_mod (a0 + m0) (2^64)
    have : (a1 + m1 + (a0 + m0) / 2^64) * 2^64 ≤ a1 * 2^64 + a0 + (m1 * 2^64 + m0) := by
      rw [Nat.add_mul, Nat.add_mul]; omega
    calc (a1 + m1 + (a0 + m0) / 2^64) * 2^64 ≤ a1 * 2^64 + a0 + (m1 * 2^64 + m0) := this
      _ < 2^64 * 2^64 := by omega
  have hd := Nat.div_add_mod (a0 + m0) (2^64)
  have hq : (a0 + m0) / 2^64 ≤ 1 := by omega
  constructor
  · intro hlt
    have : (a0 + m0) / 2^64 = 1 := by omega
    rw [Nat.mod_eq_of_lt (a := a1 + m1) (by omega), Nat.mod_eq_of_lt (a := a1 + m1 + 1) (by omega)]
    rw [this] at hd
    linarith
  · intro hlt
    have : (a0 + m0) / 2^64 = 0 := by omega
    rw [Nat.mod_eq_of_lt (a := a1 + m1) (by omega)]
    rw [this] at hd
    linarith

/-- **adding the midpoint**: the block continues with `C + 5·10^(x−1)` (no panic, no wrap) -/
theorem addHalfK_spec {α : Type} (C1 : U128) (ind : Int32) (k : U128 → Except String α) (x : Nat)
    (hx : ind.toInt = x) (h1 : 1 ≤ x) (h34 : x ≤ 34) (hC : val128 C1 + 5 * 10 ^ (x - 1) < 2^128) :
    ∃ C1' : U128, addHalfK C1 ind k = k C1' ∧ val128 C1' = val128 C1 + 5 * 10 ^ (x - 1) := by
  have hl := C1.w0.toNat_lt
  obtain ⟨-, -, -, -, -, -, -, -, -, -, -, -, hmid⟩ := row (x - 1) (by omega)
  simp only [addHalfK, bind, Except.bind, pure, Except.pure]
  generalize hM : 5 * 10 ^ (x - 1) = M at *
  by_cases c : x ≤ 19
  · rw [if_pos (by rw [decide_eq_true_eq, Int32.le_iff_toInt_le, hx]; show (x : Int) ≤ 19; omega)]
    rw [if_pos (by omega)] at hmid
    have hk := idx_sub ind 1 x 1 hx rfl h1 (by omega)
    rw [tbl64_get _ _ _ (by rw [hk]; exact hmid)]
    have hMlt : M < 2^64 := by
      rw [← hM]
      calc 5 * 10 ^ (x - 1) ≤ 5 * 10 ^ 18 := Nat.mul_le_mul_left 5 (Nat.pow_le_pow_right (by decide) (by omega))
        _ < 2^64 := by decide
    obtain ⟨aw1, aw2⟩ := add_words C1.w0.toNat C1.w1.toNat M 0 hl hMlt (by unfold val128 at hC; omega)
    simp only []
    by_cases cy : C1.w0 + UInt64.ofNat M < C1.w0
    · rw [if_pos (by simpa using cy)]
      refine ⟨_, rfl, ?_⟩
      rw [UInt64.lt_iff_toNat_lt, UInt64.toNat_add, UInt64.toNat_ofNat', Nat.mod_eq_of_lt hMlt] at cy
      have := aw1 cy
      simp only [val128, UInt64.toNat_add, UInt64.toNat_ofNat', UInt64.toNat_one, Nat.mod_eq_of_lt hMlt]
      simp only [Nat.add_zero, Nat.zero_mul, Nat.zero_add, Nat.mod_eq_of_lt C1.w1.toNat_lt] at this
      exact this
    · rw [if_neg (by simpa using cy)]
      refine ⟨_, rfl, ?_⟩
      rw [UInt64.lt_iff_toNat_lt, UInt64.toNat_add, UInt64.toNat_ofNat', Nat.mod_eq_of_lt hMlt] at cy
      have := aw2 cy
      simp only [val128, UInt64.toNat_add, UInt64.toNat_ofNat', Nat.mod_eq_of_lt hMlt]
      simp only [Nat.add_zero, Nat.zero_mul, Nat.zero_add, Nat.mod_eq_of_lt C1.w1.toNat_lt] at this
      exact this
  · rw [if_neg (by rw [decide_eq_true_eq, Int32.le_iff_toInt_le, hx]; show ¬ (x : Int) ≤ 19; omega)]
    rw [if_neg (by omega), show x - 1 - 19 = x - 20 by omega] at hmid
    have hk := idx_sub ind 0x14 x 20 hx rfl (by omega) (by omega)
    rw [tbl128_get _ _ _ _ (by rw [hk]; exact hmid.1) (by rw [hk]; exact hmid.2)]
    simp only []
    have hMlt : M < 2^128 := by omega
    have hMs : M / 2^64 * 2^64 + M % 2^64 = M := by omega
    obtain ⟨aw1, aw2⟩ := add_words C1.w0.toNat C1.w1.toNat (M % 2^64) (M / 2^64) hl (by omega)
      (by unfold val128 at hC; omega)
    by_cases cy : C1.w0 + UInt64.ofNat (M % 2^64) < C1.w0
    · rw [if_pos (by simpa using cy)]
      refine ⟨_, rfl, ?_⟩
      rw [UInt64.lt_iff_toNat_lt, UInt64.toNat_add, UInt64.toNat_ofNat', Nat.mod_mod] at cy
      have := aw1 cy
      simp only [val128, UInt64.toNat_add, UInt64.toNat_ofNat', UInt64.toNat_one, Nat.mod_mod]
      rw [Nat.mod_eq_of_lt (a := M / 2^64) (by omega), this, hMs]
    · rw [if_neg (by simpa using cy)]
      refine ⟨_, rfl, ?_⟩
      rw [UInt64.lt_iff_toNat_lt, UInt64.toNat_add, UInt64.toNat_ofNat', Nat.mod_mod] at cy
      have := aw2 cy
      simp only [val128, UInt64.toNat_add, UInt64.toNat_ofNat', Nat.mod_mod]
      rw [Nat.mod_eq_of_lt (a := M / 2^64) (by omega), this, hMs]


/-! ### splitting the product -/

open Dec.RH (wd shl64 shr64) in
open Dec.C02RoundHelpers (funnelZ' shr_top and_mask modsplit) in
/-- word-level: the quotient word and the fraction of a 256-bit product `P` split at bit `128 + s`, as the code assembles them -/
theorem split_words (P : U256) (s : Nat) (sh : Int32) (hs : sh.toInt = s) (m : UInt64) (hm : m.toNat = 2 ^ (s % 64) - 1) :
    (s ≤ 63 →
      (val256 P / 2 ^ (128 + s) < 2^64 →
        (P.w2 >>> UInt64.ofInt (toI sh) ||| P.w3 <<< UInt64.ofInt (toI ((0x40 : Int32) - sh))).toNat = val256 P / 2 ^ (128 + s)) ∧
      val256 ⟨P.w0, P.w1, P.w2 &&& m, 0⟩ = val256 P % 2 ^ (128 + s)) ∧
    (65 ≤ s → s ≤ 127 →
      (P.w3 >>> UInt64.ofInt (toI (sh - (0x40 : Int32)))).toNat = val256 P / 2 ^ (128 + s) ∧
      val256 ⟨P.w0, P.w1, P.w2, P.w3 &&& m⟩ = val256 P % 2 ^ (128 + s)) := by
  have b0 := P.w0.toNat_lt; have b1 := P.w1.toNat_lt; have b2 := P.w2.toNat_lt; have b3 := P.w3.toNat_lt
  have hP : val256 P < 2^256 := by unfold val256; omega
  have w0 : wd (val256 P) 0 = P.w0.toNat := by unfold wd val256; omega
  have w1 : wd (val256 P) 1 = P.w1.toNat := by unfold wd val256; omega
  have w2 : wd (val256 P) 2 = P.w2.toNat := by unfold wd val256; omega
  have w3 : wd (val256 P) 3 = P.w3.toNat := by unfold wd val256; omega
  have low : val256 P % 2^128 = P.w1.toNat * 2^64 + P.w0.toNat := by unfold val256; omega
  have low3 : val256 P % 2^192 = P.w2.toNat * 2^128 + P.w1.toNat * 2^64 + P.w0.toNat := by unfold val256; omega
  constructor
  · intro h63
    have hk : (UInt64.ofInt (toI sh)).toNat = s := idx_of_i32 _ _ hs
    have hk' : (UInt64.ofInt (toI ((0x40 : Int32) - sh))).toNat = 64 - s := by
      apply idx_of_i32
      rw [i32_sub _ _ (by rw [hs]; show (-2^31 : Int) ≤ 64 - s; omega) (by rw [hs]; show (64 : Int) - s < 2^31; omega), hs]
      show (64 : Int) - s = _; omega
    constructor
    · intro hA
      rw [UInt64.toNat_or, UInt64.toNat_shiftRight, UInt64.toNat_shiftLeft, hk, hk']
      by_cases h0 : s = 0
      · subst h0
        have h3 : P.w3.toNat = 0 := by
          have : val256 P < 2^192 := by
            have := (Nat.div_lt_iff_lt_mul (Nat.pow_pos (by decide))).1 hA
            calc val256 P < 2^64 * 2^(128 + 0) := this
              _ = 2^192 := by decide
          unfold val256 at this; omega
        rw [h3]
        simp only [Nat.zero_mod, Nat.shiftRight_zero, Nat.sub_zero, Nat.mod_self, Nat.zero_shiftLeft, Nat.or_zero, Nat.add_zero]
        unfold val256; rw [h3]; omega
      · have := funnelZ' (val256 P) 2 s (128 + s) 0 (by omega) h63 (by omega)
        rw [w2, w3] at this
        unfold shr64 shl64 at this
        rw [this]
        unfold wd
        rw [Nat.mul_zero, Nat.pow_zero, Nat.div_one, Nat.mod_eq_of_lt hA]
    · have hm' : (P.w2 &&& m).toNat = val256 P / 2 ^ 128 % 2 ^ s := by
        rw [UInt64.toNat_and, hm, Nat.mod_eq_of_lt (by omega : s < 64), ← w2]
        exact and_mask (val256 P) 2 s (by omega)
      rw [modsplit, low]
      simp only [val256, hm', UInt64.toNat_zero]
      omega
  · intro h65 h127
    have hk : (UInt64.ofInt (toI (sh - (0x40 : Int32)))).toNat = s - 64 := by
      apply idx_of_i32
      rw [i32_sub _ _ (by rw [hs]; show (-2^31 : Int) ≤ s - 64; omega) (by rw [hs]; show (s : Int) - 64 < 2^31; omega), hs]
      show (s : Int) - 64 = _; omega
    constructor
    · rw [UInt64.toNat_shiftRight, hk]
      have := shr_top (val256 P) 3 (s - 64) (by omega) hP
      rw [w3] at this
      unfold shr64 at this
      rw [this]
      congr 2; omega
    · have hm' : (P.w3 &&& m).toNat = val256 P / 2 ^ 192 % 2 ^ (s - 64) := by
        rw [UInt64.toNat_and, hm, show s % 64 = s - 64 by omega, ← w3]
        exact and_mask (val256 P) 3 (s - 64) (by omega)
      rw [show 128 + s = 192 + (s - 64) by omega, modsplit, low3]
      simp only [val256, hm']
      omega


/-- **splitting the product**: with `Pv = C'·K_x` and `E = 128 + s_x`, the block continues with the quotient word
`Pv / 2^E` (when that fits a word) and the fraction `Pv mod 2^E` -/
theorem splitK_spec {α : Type} (C1 : U128) (ind : Int32) (k : U128 → U256 → Except String α) (x : Nat)
    (hx : ind.toInt = x) (h1 : 1 ≤ x) (h34 : x ≤ 34) :
    ∃ (Cs : U128) (fs : U256), splitK C1 ind k = k Cs fs ∧
      (val128 C1 * kT (x - 1) / 2 ^ (128 + shT (x - 1)) < 2^64 →
        Cs.w0.toNat = val128 C1 * kT (x - 1) / 2 ^ (128 + shT (x - 1))) ∧
      val256 fs = val128 C1 * kT (x - 1) % 2 ^ (128 + shT (x - 1)) := by
  obtain ⟨-, -, -, hK, hk0, hk1, -, -, hmask, -, hsh, hrange, -⟩ := row (x - 1) (by omega)
  have hk := idx_sub ind 1 x 1 hx rfl h1 (by omega)
  have d1 : (ind - 1).toInt = ((x - 1 : Nat) : Int) := by
    rw [i32_sub _ _ (by rw [hx]; show (-2^31 : Int) ≤ x - 1; omega) (by rw [hx]; show (x : Int) - 1 < 2^31; omega), hx]
    show (x : Int) - 1 = _; omega
  obtain ⟨P, hP, Pv⟩ := mul_128x128_to_256_spec C1 ⟨UInt64.ofNat (kT (x - 1) % 2^64), UInt64.ofNat (kT (x - 1) / 2^64)⟩
  rw [val128_ofNat _ hK] at Pv
  obtain ⟨sh, hsh', shv⟩ := tblI32_get _ (UInt64.ofInt (toI (ind - 1))) _ (by rw [hk]; exact hsh)
    (by split at hrange <;> [skip; split at hrange] <;> omega)
  have hmlt : 2 ^ (shT (x - 1) % 64) - 1 < 2^64 := by
    have : 2 ^ (shT (x - 1) % 64) ≤ 2 ^ 63 := Nat.pow_le_pow_right (by decide) (by omega)
    omega
  obtain ⟨sw1, sw2⟩ := split_words P (shT (x - 1)) sh shv (UInt64.ofNat (2 ^ (shT (x - 1) % 64) - 1))
    (by rw [UInt64.toNat_ofNat', Nat.mod_eq_of_lt hmlt])
  simp only [splitK, bind, Except.bind, pure, Except.pure]
  rw [tbl128_get _ _ _ _ (by rw [hk]; exact hk0) (by rw [hk]; exact hk1)]
  simp only [hP]
  rw [tbl64_get _ _ _ (by rw [hk]; exact hmask), hsh']
  by_cases c : x - 1 ≤ 21
  · have c' : decide (ind - 1 ≤ 0x15) = true := by
      rw [decide_eq_true_eq, Int32.le_iff_toInt_le, d1]; show ((x - 1 : Nat) : Int) ≤ 21; omega
    have hs63 : shT (x - 1) ≤ 63 := by
      by_cases c2 : x - 1 ≤ 2
      · rw [if_pos c2] at hrange; omega
      · rw [if_neg c2, if_pos c] at hrange; omega
    obtain ⟨q1, q2⟩ := sw1 hs63
    simp only [c', if_true]
    refine ⟨_, _, rfl, ?_, ?_⟩
    · intro hA; rw [← Pv] at hA ⊢; exact q1 hA
    · rw [← Pv]; exact q2
  · have c' : ¬ decide (ind - 1 ≤ 0x15) = true := by
      rw [decide_eq_true_eq, Int32.le_iff_toInt_le, d1]; show ¬ ((x - 1 : Nat) : Int) ≤ 21; omega
    have hs : 65 ≤ shT (x - 1) ∧ shT (x - 1) ≤ 127 := by
      rw [if_neg (by omega), if_neg c] at hrange; exact hrange
    obtain ⟨q1, q2⟩ := sw2 hs.1 hs.2
    simp only [c', if_false]
    refine ⟨_, _, rfl, ?_, ?_⟩
    · intro _; rw [← Pv]; exact q1
    · rw [← Pv]; exact q2


/-! ### digit removal: the interface used by the routines -/

/-- what the fraction tests need to know about the fraction words `fs`, in terms of the discarded part `r = C mod 10^x`
(`h = 5·10^(x−1)` the midpoint, `K_x` the reciprocal, `E = 128 + s_x` the split position) -/
structure FracOK (x r : Nat) (fs : U256) : Prop where
  lt : val256 fs < 2 ^ (128 + shT (x - 1))
  above : 2 ^ (128 + shT (x - 1) - 1) < val256 fs ↔ r < 5 * 10 ^ (x - 1)
  inexGe : r < 5 * 10 ^ (x - 1) → (kT (x - 1) - 1 ≤ val256 fs - 2 ^ (128 + shT (x - 1) - 1) ↔ 0 < r)
  inexGt : r < 5 * 10 ^ (x - 1) → (kT (x - 1) - 1 < val256 fs - 2 ^ (128 + shT (x - 1) - 1) ↔ 0 < r)
  mid : (0 < val256 fs ∧ val256 fs ≤ kT (x - 1) - 1) ↔ r = 5 * 10 ^ (x - 1)

theorem two_h (x : Nat) (h1 : 1 ≤ x) : 2 * (5 * 10 ^ (x - 1)) = 10 ^ x := by
  obtain ⟨j, rfl⟩ : ∃ j, x = j + 1 := ⟨x - 1, by omega⟩
  rw [Nat.add_sub_cancel, Nat.pow_succ]; omega

/-- **digit removal**: for a coefficient `C < 10^34` and `1 ≤ x ≤ 34` digits to remove, the block continues with the
coefficient rounded to nearest, half up (`C / 10^x`, plus one when the discarded part is at least half a unit), and with
fraction words on which the code's tests decide how the discarded part compares with 0 and with the midpoint -/
theorem removeK_spec {α : Type} (C1 : U128) (ind : Int32) (k : U128 → U256 → Except String α) (x : Nat)
    (hx : ind.toInt = x) (h1 : 1 ≤ x) (h34 : x ≤ 34) (hC : val128 C1 < 10 ^ 34) :
    ∃ (Cs : U128) (fs : U256), removeK C1 ind k = k Cs fs ∧
      ((if val128 C1 % 10 ^ x < 5 * 10 ^ (x - 1) then val128 C1 / 10 ^ x else val128 C1 / 10 ^ x + 1) < 2^64 →
        Cs.w0.toNat = (if val128 C1 % 10 ^ x < 5 * 10 ^ (x - 1) then val128 C1 / 10 ^ x else val128 C1 / 10 ^ x + 1)) ∧
      FracOK x (val128 C1 % 10 ^ x) fs := by
  obtain ⟨r1, r2, -, -, -, -, -, -, -, -, -, -, -⟩ := row (x - 1) (by omega)
  rw [show x - 1 + 1 = x by omega] at r1 r2
  have hh : 0 < 5 * 10 ^ (x - 1) := Nat.mul_pos (by decide) (Nat.pow_pos (by decide))
  have hhalf : 5 * 10 ^ (x - 1) ≤ 5 * 10 ^ 33 := Nat.mul_le_mul_left 5 (Nat.pow_le_pow_right (by decide) (by omega))
  have hsum : val128 C1 + 5 * 10 ^ (x - 1) < 10 ^ 35 := by
    calc val128 C1 + 5 * 10 ^ (x - 1) < 10 ^ 34 + 5 * 10 ^ 33 := Nat.add_lt_add_of_lt_of_le hC hhalf
      _ < 10 ^ 35 := by decide
  obtain ⟨C1', e1, v1⟩ := addHalfK_spec C1 ind (fun C1' => splitK C1' ind k) x hx h1 h34
    (Nat.lt_trans hsum (by decide))
  obtain ⟨Cs, fs, e2, qv, fv⟩ := splitK_spec C1' ind k x hx h1 h34
  have hD := two_h x h1
  generalize hK : kT (x - 1) = K at *
  generalize hE : 128 + shT (x - 1) = E at *
  have hKD : K * (2 * (5 * 10 ^ (x - 1))) = 2 ^ E + (K * 10 ^ x - 2 ^ E) := by rw [hD]; omega
  have hb : ((val128 C1 + 5 * 10 ^ (x - 1)) / (2 * (5 * 10 ^ (x - 1))) + 1) * (K * 10 ^ x - 2 ^ E) < K := by
    rw [hD]
    have : (val128 C1 + 5 * 10 ^ (x - 1)) / 10 ^ x ≤ 10 ^ 35 / 10 ^ x := Nat.div_le_div_right (Nat.le_of_lt hsum)
    calc ((val128 C1 + 5 * 10 ^ (x - 1)) / 10 ^ x + 1) * (K * 10 ^ x - 2 ^ E)
        ≤ (10 ^ 35 / 10 ^ x + 1) * (K * 10 ^ x - 2 ^ E) := Nat.mul_le_mul_right _ (by omega)
      _ < K := r2
  obtain ⟨t1, t2, t3, t4, t5, -⟩ := fracTests (5 * 10 ^ (x - 1)) K E (K * 10 ^ x - 2 ^ E) (val128 C1) hh hKD (by omega)
    (by omega) hb
  rw [hD] at t1 t2 t3 t4 t5
  rw [v1] at qv fv
  subst hK; subst hE
  refine ⟨Cs, fs, by unfold removeK; rw [e1, e2], ?_, ?_⟩
  · intro hA
    rw [← t1] at hA ⊢
    exact qv hA
  · rw [← fv] at t2 t3 t4 t5
    exact ⟨by rw [fv]; exact Nat.mod_lt _ (Nat.pow_pos (by decide)), t2, t3, t4, t5⟩


/-! ### the fraction tests -/

theorem u64_sub_toNat (a b : UInt64) (h : b.toNat ≤ a.toNat) : (a - b).toNat = a.toNat - b.toNat := by
  have := a.toNat_lt
  rw [UInt64.toNat_sub]; omega

theorem ite_tt (c d : Bool) : (if c = true then true else d) = (c || d) := by cases c <;> rfl
theorem ite_ff (c d : Bool) : (if c = true then d else false) = (c && d) := by cases c <;> rfl

/-- turn a Boolean combination of word comparisons into a statement about numbers -/
macro "words_omega" : tactic => `(tactic| (
  rw [Bool.eq_iff_iff, decide_eq_true_iff]
  simp only [Bool.or_eq_true, Bool.and_eq_true, decide_eq_true_eq, beq_iff_eq, bne_iff_ne, ne_eq, gt_iff_lt, ge_iff_le,
    UInt64.lt_iff_toNat_lt, UInt64.le_iff_toNat_le, ← UInt64.toNat_inj, UInt64.toNat_ofNat, UInt64.toNat_zero] at *
  omega))

/-- **fraction classification**: `kA` when the discarded part is non-zero and below the midpoint, `kB` when it is zero,
`kC` when it is at or above the midpoint -/
theorem fracK_spec {α : Type} (fs : U256) (ind : Int32) (kA kB kC : Except String α) (x r : Nat)
    (hx : ind.toInt = x) (h1 : 1 ≤ x) (h34 : x ≤ 34) (ok : FracOK x r fs) :
    fracK fs ind kA kB kC = if r < 5 * 10 ^ (x - 1) then (if 0 < r then kA else kB) else kC := by
  obtain ⟨-, -, hT1, hK, -, -, ht0, ht1, -, hoh, -, hrange, -⟩ := row (x - 1) (by omega)
  obtain ⟨hlt, habove, hge, hgt, -⟩ := ok
  have hk := idx_sub ind 1 x 1 hx rfl h1 (by omega)
  have d1 : (ind - 1).toInt = ((x - 1 : Nat) : Int) := by
    rw [i32_sub _ _ (by rw [hx]; show (-2^31 : Int) ≤ x - 1; omega) (by rw [hx]; show (x : Int) - 1 < 2^31; omega), hx]
    show (x : Int) - 1 = _; omega
  have hTlt : tT (x - 1) < 2^128 := by omega
  have hTr := tbl128_get _ (UInt64.ofInt (toI (ind - 1))) _ _ (by rw [hk]; exact ht0) (by rw [hk]; exact ht1)
  have hOH := tbl64_get _ (UInt64.ofInt (toI (ind - 1))) _ (by rw [hk]; exact hoh)
  have b0 := fs.w0.toNat_lt; have b1 := fs.w1.toNat_lt; have b2 := fs.w2.toNat_lt; have b3 := fs.w3.toNat_lt
  have hKT : kT (x - 1) - 1 = tT (x - 1) := by omega
  rw [hKT] at hge hgt
  simp only [fracK, bind, Except.bind, pure, Except.pure, hTr, hOH, ite_ok, ite_tt, ite_ff]
  clear hTr hOH ht0 ht1 hoh hKT hT1 hK
  generalize hF : val256 fs = F at *
  generalize hTv : tT (x - 1) = T at *
  have tv0 : (UInt64.ofNat (T % 2^64)).toNat = T % 2^64 := by rw [UInt64.toNat_ofNat', Nat.mod_mod]
  have tv1 : (UInt64.ofNat (T / 2^64)).toNat = T / 2^64 := by rw [UInt64.toNat_ofNat', Nat.mod_eq_of_lt (by omega)]
  generalize UInt64.ofNat (T % 2^64) = t0 at *
  generalize UInt64.ofNat (T / 2^64) = t1 at *
  have ht01 : T = t1.toNat * 2^64 + t0.toNat := by omega
  unfold val256 at hF
  -- the shape of the conclusion once the two tests are known
  have fin : ∀ (B1 B2 : Bool) (E : Nat), (128 + shT (x - 1) - 1 = E) → B1 = decide (2 ^ E < F) → (B1 = true → (B2 = decide (T < F - 2 ^ E) ∨ B2 = decide (T ≤ F - 2 ^ E))) →
      (if B1 = true then (if B2 = true then kA else kB) else kC) =
        if r < 5 * 10 ^ (x - 1) then (if 0 < r then kA else kB) else kC := by
    intro B1 B2 E hE e1 e2
    rw [hE] at habove hgt hge
    by_cases hr : r < 5 * 10 ^ (x - 1)
    · have hab := habove.2 hr
      have e1' : B1 = true := by rw [e1]; exact decide_eq_true hab
      rw [e1', if_pos hr, if_pos rfl]
      rcases e2 e1' with e2 | e2 <;> rw [e2]
      · by_cases h0 : 0 < r
        · rw [if_pos h0, decide_eq_true ((hgt hr).2 h0), if_pos rfl]
        · rw [if_neg h0, decide_eq_false (fun h => h0 ((hgt hr).1 h)), if_neg (by decide)]
      · by_cases h0 : 0 < r
        · rw [if_pos h0, decide_eq_true ((hge hr).2 h0), if_pos rfl]
        · rw [if_neg h0, decide_eq_false (fun h => h0 ((hge hr).1 h)), if_neg (by decide)]
    · rw [if_neg hr, e1, decide_eq_false (fun h => hr (habove.1 h)), if_neg (by decide)]
  by_cases c1 : x - 1 ≤ 2
  · -- E = 128
    have c1' : decide (ind - 1 ≤ 2) = true := by
      rw [decide_eq_true_eq, Int32.le_iff_toInt_le, d1]; show ((x - 1 : Nat) : Int) ≤ 2; omega
    rw [if_pos c1']
    rw [if_pos c1] at hrange
    rw [hrange] at hlt
    have h32 : fs.w3.toNat = 0 ∧ fs.w2.toNat = 0 := by omega
    apply fin _ _ 127 (by rw [hrange])
    · words_omega
    · intro hB1
      right
      have hhi : 2^63 ≤ fs.w1.toNat := by
        simp only [Bool.or_eq_true, Bool.and_eq_true, decide_eq_true_eq, beq_iff_eq, gt_iff_lt, UInt64.lt_iff_toNat_lt,
          ← UInt64.toNat_inj, UInt64.toNat_ofNat] at hB1
        omega
      have hsub : (fs.w1 - 9223372036854775808).toNat = fs.w1.toNat - 2^63 := u64_sub_toNat _ _ hhi
      generalize fs.w1 - 9223372036854775808 = d at *
      words_omega
  · have c1' : ¬ decide (ind - 1 ≤ 2) = true := by
      rw [decide_eq_true_eq, Int32.le_iff_toInt_le, d1]; show ¬ ((x - 1 : Nat) : Int) ≤ 2; omega
    rw [if_neg c1']
    rw [if_neg c1] at hrange
    by_cases c2 : x - 1 ≤ 21
    · -- E = 128 + s, 1 ≤ s ≤ 63
      have c2' : decide (ind - 1 ≤ 21) = true := by
        rw [decide_eq_true_eq, Int32.le_iff_toInt_le, d1]; show ((x - 1 : Nat) : Int) ≤ 21; omega
      rw [if_pos c2']
      rw [if_pos c2] at hrange
      have hs : shT (x - 1) % 64 = shT (x - 1) := Nat.mod_eq_of_lt (by omega)
      rw [hs, if_neg (show ¬ shT (x - 1) = 0 by omega)]
      generalize shT (x - 1) = s at *
      have hpow : 2 ^ (128 + s) = 2 ^ 128 * (2 * 2 ^ (s - 1)) := by
        rw [← Nat.pow_succ', ← Nat.pow_add]; congr 1; omega
      have hpow' : 2 ^ (128 + s - 1) = 2 ^ 128 * 2 ^ (s - 1) := by rw [← Nat.pow_add]; congr 1; omega
      have hoh : 2 ^ (s - 1) ≤ 2 ^ 62 := Nat.pow_le_pow_right (by decide) (by omega)
      have ohv : (UInt64.ofNat (2 ^ (s - 1))).toNat = 2 ^ (s - 1) := by
        rw [UInt64.toNat_ofNat', Nat.mod_eq_of_lt (by omega)]
      generalize UInt64.ofNat (2 ^ (s - 1)) = OH at *
      rw [hpow] at hlt
      generalize 2 ^ (s - 1) = oh at *
      have h3 : fs.w3.toNat = 0 := by
        apply Classical.byContradiction; intro h3
        have : 2 ^ 128 * (2 * oh) ≤ 2 ^ 128 * 2 ^ 64 := Nat.mul_le_mul_left _ (by omega)
        omega
      have hnb : (decide (fs.w3 > 0) || fs.w3 == 0 && decide (fs.w2 > OH) ||
          fs.w3 == 0 && fs.w2 == OH && (fs.w1 != 0 || fs.w0 != 0)) = true → OH.toNat ≤ fs.w2.toNat := by
        intro hB
        simp only [Bool.or_eq_true, Bool.and_eq_true, decide_eq_true_eq, beq_iff_eq, gt_iff_lt, UInt64.lt_iff_toNat_lt,
          ← UInt64.toNat_inj, UInt64.toNat_zero] at hB
        omega
      have shape : ∀ (B1 : Bool) (X Y : Except String α) (c : Prop) [Decidable c], (B1 = true → ¬ c) →
          (if B1 = true then (if c then X else Y) else kC) = (if B1 = true then Y else kC) := by
        intro B1 X Y c _ h
        by_cases hB : B1 = true
        · rw [if_pos hB, if_pos hB, if_neg (h hB)]
        · rw [if_neg hB, if_neg hB]
      rw [shape _ _ _ (decide (fs.w2 - OH > fs.w2) = true) (by
        intro hB
        have := hnb hB
        rw [decide_eq_true_eq, gt_iff_lt, UInt64.lt_iff_toNat_lt, u64_sub_toNat _ _ this]
        omega)]
      apply fin _ _ _ rfl
      · rw [hpow']; words_omega
      · intro hB1
        left
        have hle := hnb hB1
        have hsub : (fs.w2 - OH).toNat = fs.w2.toNat - OH.toNat := u64_sub_toNat _ _ hle
        generalize fs.w2 - OH = d at *
        rw [hpow']; words_omega
    · -- E = 128 + s, 65 ≤ s ≤ 127
      have c2' : ¬ decide (ind - 1 ≤ 21) = true := by
        rw [decide_eq_true_eq, Int32.le_iff_toInt_le, d1]; show ¬ ((x - 1 : Nat) : Int) ≤ 21; omega
      rw [if_neg c2']
      rw [if_neg c2] at hrange
      have hs : shT (x - 1) % 64 = shT (x - 1) - 64 := by omega
      rw [hs, if_neg (show ¬ shT (x - 1) - 64 = 0 by omega)]
      generalize shT (x - 1) = s at *
      have hpow : 2 ^ (128 + s) = 2 ^ 192 * (2 * 2 ^ (s - 64 - 1)) := by
        rw [← Nat.pow_succ', ← Nat.pow_add]; congr 1; omega
      have hpow' : 2 ^ (128 + s - 1) = 2 ^ 192 * 2 ^ (s - 64 - 1) := by rw [← Nat.pow_add]; congr 1; omega
      have hoh : 2 ^ (s - 64 - 1) ≤ 2 ^ 62 := Nat.pow_le_pow_right (by decide) (by omega)
      have ohv : (UInt64.ofNat (2 ^ (s - 64 - 1))).toNat = 2 ^ (s - 64 - 1) := by
        rw [UInt64.toNat_ofNat', Nat.mod_eq_of_lt (by omega)]
      generalize UInt64.ofNat (2 ^ (s - 64 - 1)) = OH at *
      rw [hpow] at hlt
      generalize 2 ^ (s - 64 - 1) = oh at *
      apply fin _ _ _ rfl
      · rw [hpow']; words_omega
      · intro hB1
        left
        have hle : OH.toNat ≤ fs.w3.toNat := by
          simp only [Bool.or_eq_true, Bool.and_eq_true, decide_eq_true_eq, beq_iff_eq, gt_iff_lt, UInt64.lt_iff_toNat_lt,
            ← UInt64.toNat_inj] at hB1
          omega
        have hsub : (fs.w3 - OH).toNat = fs.w3.toNat - OH.toNat := u64_sub_toNat _ _ hle
        generalize fs.w3 - OH = d at *
        rw [hpow']; words_omega


/-- **midpoint test**: `kMid` exactly when the discarded part is half a unit of the last kept place -/
theorem midK_spec {α : Type} (fs : U256) (ind : Int32) (kMid kNot : Except String α) (x r : Nat)
    (hx : ind.toInt = x) (h1 : 1 ≤ x) (h34 : x ≤ 34) (ok : FracOK x r fs) :
    midK fs ind kMid kNot = if r = 5 * 10 ^ (x - 1) then kMid else kNot := by
  obtain ⟨-, -, hT1, hK, -, -, ht0, ht1, -, -, -, -, -⟩ := row (x - 1) (by omega)
  obtain ⟨-, -, -, -, hmid⟩ := ok
  have hk := idx_sub ind 1 x 1 hx rfl h1 (by omega)
  have hTlt : tT (x - 1) < 2^128 := by omega
  have hTr := tbl128_get _ (UInt64.ofInt (toI (ind - 1))) _ _ (by rw [hk]; exact ht0) (by rw [hk]; exact ht1)
  have b0 := fs.w0.toNat_lt; have b1 := fs.w1.toNat_lt; have b2 := fs.w2.toNat_lt; have b3 := fs.w3.toNat_lt
  have hKT : kT (x - 1) - 1 = tT (x - 1) := by omega
  rw [hKT] at hmid
  simp only [midK, bind, Except.bind, pure, Except.pure, hTr, ite_ok, ite_tt, ite_ff]
  clear hTr ht0 ht1 hKT hT1 hK
  generalize hF : val256 fs = F at *
  generalize hTv : tT (x - 1) = T at *
  have tv0 : (UInt64.ofNat (T % 2^64)).toNat = T % 2^64 := by rw [UInt64.toNat_ofNat', Nat.mod_mod]
  have tv1 : (UInt64.ofNat (T / 2^64)).toNat = T / 2^64 := by rw [UInt64.toNat_ofNat', Nat.mod_eq_of_lt (by omega)]
  generalize UInt64.ofNat (T % 2^64) = t0 at *
  generalize UInt64.ofNat (T / 2^64) = t1 at *
  have ht01 : T = t1.toNat * 2^64 + t0.toNat := by omega
  unfold val256 at hF
  have e : (fs.w3 == 0 && fs.w2 == 0 && (fs.w1 != 0 || fs.w0 != 0) &&
      (decide (fs.w1 < t1) || fs.w1 == t1 && decide (fs.w0 ≤ t0))) = decide (0 < F ∧ F ≤ T) := by
    words_omega
  rw [e]
  by_cases hr : r = 5 * 10 ^ (x - 1)
  · rw [if_pos hr, decide_eq_true (hmid.2 hr), if_pos rfl]
  · rw [if_neg hr, decide_eq_false (fun h => hr (hmid.1 h)), if_neg (by decide)]


/-! ### model side: the magnitude of the rounded integer -/

/-- the magnitude of `roundToInt` -/
def magOf (mode : Mode) (s : Bool) (c : Nat) (e : Int) : Nat :=
  if e ≥ 0 then c * 10 ^ e.toNat
  else roundInt mode s (c / 10 ^ (-e).toNat) (c % 10 ^ (-e).toNat) (10 ^ (-e).toNat)

/-- was the datum already an integer? -/
def exactOf (c : Nat) (e : Int) : Bool := if e ≥ 0 then true else c % 10 ^ (-e).toNat == 0

theorem roundToInt_eq (mode : Mode) (s : Bool) (c : Nat) (e : Int) :
    roundToInt mode s c e = (sInt s (magOf mode s c e), exactOf c e) := by
  unfold roundToInt magOf exactOf
  split <;> rfl

/-- `toIntD` on a finite datum, for the 32-bit signed type: in range iff the magnitude is below `2^31` (`2^31 + 1` for a
negative number) -/
theorem toIntD_fin (mode : Mode) (xf s : Bool) (c : Nat) (e : Int) :
    toIntD mode xf (-2147483648) 2147483647 (-2147483648) (.fin s c e) =
      if magOf mode s c e < (if s then 2147483649 else 2147483648) then
        (sInt s (magOf mode s c e), if xf && !exactOf c e then fInexact else 0)
      else (-2147483648, fInvalid) := by
  simp only [toIntD, roundToInt_eq]
  generalize magOf mode s c e = m
  cases s
  · simp only [sInt, Bool.false_eq_true, if_false]
    by_cases h : m < 2147483648
    · rw [if_pos h, if_pos (by omega)]
    · rw [if_neg h, if_neg (by omega)]
  · simp only [sInt, if_true]
    by_cases h : m < 2147483649
    · rw [if_pos h, if_pos (by omega)]
    · rw [if_neg h, if_neg (by omega)]

theorem magOf_zero (mode : Mode) (s : Bool) (e : Int) : magOf mode s 0 e = 0 := by
  unfold magOf
  split
  · rw [Nat.zero_mul]
  · simp [roundInt, roundUp]

theorem exactOf_zero (e : Int) : exactOf 0 e = true := by
  unfold exactOf; split <;> simp


theorem roundInt_ge (mode : Mode) (s : Bool) (a r D : Nat) : a ≤ roundInt mode s a r D := by
  unfold roundInt; split <;> omega

theorem roundInt_le (mode : Mode) (s : Bool) (a r D : Nat) : roundInt mode s a r D ≤ a + 1 := by
  unfold roundInt; split <;> omega

theorem roundInt_exact (mode : Mode) (s : Bool) (a D : Nat) : roundInt mode s a 0 D = a := by
  simp [roundInt, roundUp]

theorem pow10_split (a b : Nat) (h : b ≤ a) : 10 ^ a = 10 ^ (a - b) * 10 ^ b := by
  rw [← Nat.pow_add]; congr 1; omega

/-- more than 10 integer digits: the rounded magnitude is at least `10^10`, whatever the direction -/
theorem magOf_big (mode : Mode) (s : Bool) (c : Nat) (e : Int) (hc : 0 < c) (h : 11 ≤ (ndigits c : Int) + e) :
    10 ^ 10 ≤ magOf mode s c e := by
  obtain ⟨hlo, -⟩ := ndigits_spec hc
  unfold magOf
  by_cases he : e ≥ 0
  · rw [if_pos he]
    have : 10 ^ 10 ≤ 10 ^ (ndigits c - 1 + e.toNat) := Nat.pow_le_pow_right (by decide) (by omega)
    calc 10 ^ 10 ≤ 10 ^ (ndigits c - 1 + e.toNat) := this
      _ = 10 ^ (ndigits c - 1) * 10 ^ e.toNat := Nat.pow_add ..
      _ ≤ c * 10 ^ e.toNat := Nat.mul_le_mul_right _ hlo
  · rw [if_neg he]
    refine Nat.le_trans ?_ (roundInt_ge ..)
    rw [Nat.le_div_iff_mul_le (Nat.pow_pos (by decide)), ← Nat.pow_add]
    exact Nat.le_trans (Nat.pow_le_pow_right (by decide) (by omega)) hlo

/-- at most 9 integer digits: the rounded magnitude is at most `10^9` -/
theorem magOf_small (mode : Mode) (s : Bool) (c : Nat) (e : Int) (hc : 0 < c) (h : (ndigits c : Int) + e ≤ 9) :
    magOf mode s c e ≤ 10 ^ 9 := by
  obtain ⟨-, hhi⟩ := ndigits_spec hc
  unfold magOf
  by_cases he : e ≥ 0
  · rw [if_pos he]
    have : c * 10 ^ e.toNat < 10 ^ ndigits c * 10 ^ e.toNat := Nat.mul_lt_mul_of_pos_right hhi (Nat.pow_pos (by decide))
    rw [← Nat.pow_add] at this
    exact Nat.le_of_lt (Nat.lt_of_lt_of_le this (Nat.pow_le_pow_right (by decide) (by omega)))
  · rw [if_neg he]
    refine Nat.le_trans (roundInt_le ..) ?_
    have : c / 10 ^ (-e).toNat < 10 ^ 9 := by
      rw [Nat.div_lt_iff_lt_mul (Nat.pow_pos (by decide)), ← Nat.pow_add]
      exact Nat.lt_of_lt_of_le hhi (Nat.pow_le_pow_right (by decide) (by omega))
    omega

/-- no integer digit: the quotient is 0 and the whole coefficient is discarded -/
theorem tiny (c : Nat) (e : Int) (hc : 0 < c) (h : (ndigits c : Int) + e ≤ 0) :
    e < 0 ∧ c / 10 ^ (-e).toNat = 0 ∧ c % 10 ^ (-e).toNat = c := by
  obtain ⟨-, hhi⟩ := ndigits_spec hc
  have hn := ndigits_pos hc
  have hlt : c < 10 ^ (-e).toNat := Nat.lt_of_lt_of_le hhi (Nat.pow_le_pow_right (by decide) (by omega))
  exact ⟨by omega, Nat.div_eq_of_lt hlt, Nat.mod_eq_of_lt hlt⟩


/-! ### the signed result -/

theorem i64_of_nat (m : Nat) (h : m < 2^63) : (Int64.ofInt (m : Int)).toInt = m :=
  Int64.toInt_ofInt_of_le (by omega) (by omega)

/-- the sign word is non-zero exactly for a negative operand -/
theorem sign_word (w : UInt64) : (w &&& c_MASK_SIGN != 0) = negW w.toNat := by
  have h := Dec.C03GenCompare.toNat_and_field w c_MASK_SIGN 1 63 (by decide)
  unfold negW
  rw [Bool.eq_iff_iff, bne_iff_ne, ne_eq, ← UInt64.toNat_inj, h, decide_eq_true_iff, UInt64.toNat_zero]
  omega

/-- the final conversion: a magnitude below `2^63` with the sign of the operand -/
theorem resOf_spec (xs w : UInt64) (s : Bool) (m : Nat) (hs : (xs != 0) = s) (hw : w.toNat = m) (hm : m < 2^63) :
    resOf xs w = Int32.ofInt (sInt s m) := by
  unfold resOf
  rw [hs]
  have e1 : toI w = (m : Int) := by show (w.toNat : Int) = m; rw [hw]
  rw [e1]
  cases s
  · simp only [Bool.false_eq_true, if_false, sInt]
    show Int32.ofInt (Int64.ofInt (m : Int)).toInt = _
    rw [i64_of_nat m hm]
  · simp only [if_true, sInt]
    show Int32.ofInt (-Int64.ofInt (m : Int)).toInt = _
    rw [Int64.toInt_neg, i64_of_nat m hm, Int.bmod_eq_of_le (by omega) (by omega)]


open Dec.C03GenCompare (tbl64_ten) in
/-- the result for a positive exponent: `±C·10^g`, computed without wrap-around -/
theorem posExpK_spec {α : Type} (xs : UInt64) (C1 : U128) (exp : Int32) (k : Int32 → Except String α) (s : Bool) (g : Nat)
    (hs : (xs != 0) = s) (hg : exp.toInt = g) (h19 : g ≤ 19) (h0 : 0 < C1.w0.toNat) (hm : C1.w0.toNat * 10 ^ g < 2^63) :
    posExpK xs C1 exp k = k (Int32.ofInt (sInt s (C1.w0.toNat * 10 ^ g))) := by
  have hk := idx_of_i32 _ _ hg
  obtain ⟨t, ht, tv⟩ := tbl64_ten (UInt64.ofInt (toI exp)) (by omega)
  rw [hk] at tv
  have hp : 0 < 10 ^ g := Nat.pow_pos (by decide)
  have hC : C1.w0.toNat < 2^63 := Nat.lt_of_le_of_lt (Nat.le_mul_of_pos_right _ hp) hm
  have hT : 10 ^ g < 2^63 := Nat.lt_of_le_of_lt (Nat.le_mul_of_pos_left _ h0) hm
  unfold posExpK
  rw [hs]
  cases s
  · simp only [Bool.false_eq_true, if_false, bind, Except.bind, pure, Except.pure, ht, sInt]
    congr 2
    show (Int64.ofInt ((C1.w0 * t).toNat : Int)).toInt = _
    rw [UInt64.toNat_mul, tv, Nat.mod_eq_of_lt (by omega), i64_of_nat _ hm]
  · simp only [if_true, bind, Except.bind, pure, Except.pure, ht, sInt]
    congr 2
    show ((-Int64.ofInt (C1.w0.toNat : Int)) * Int64.ofInt (t.toNat : Int)).toInt = _
    rw [Int64.toInt_mul, Int64.toInt_neg, i64_of_nat _ hC, tv, i64_of_nat _ hT,
      Int.bmod_eq_of_le (n := -(C1.w0.toNat : Int)) (by omega) (by omega)]
    have : (-(C1.w0.toNat : Int)) * ((10 ^ g : Nat) : Int) = -((C1.w0.toNat * 10 ^ g : Nat) : Int) := by
      push_cast; ring
    rw [this, Int.bmod_eq_of_le (by omega) (by omega)]


open Dec.C03GenCompare (tbl64_ten) in
theorem posExpK'_spec {α : Type} (xs : UInt64) (C1 : U128) (exp : Int32) (k : Int32 → Except String α) (s : Bool) (g : Nat)
    (hs : (xs != 0) = s) (hg : exp.toInt = g) (h19 : g ≤ 19) (h0 : 0 < C1.w0.toNat) (hm : C1.w0.toNat * 10 ^ g < 2^63) :
    posExpK' xs C1 exp k = k (Int32.ofInt (sInt s (C1.w0.toNat * 10 ^ g))) := by
  have hk := idx_of_i32 _ _ hg
  obtain ⟨t, ht, tv⟩ := tbl64_ten (UInt64.ofInt (toI exp)) (by omega)
  rw [hk] at tv
  have hp : 0 < 10 ^ g := Nat.pow_pos (by decide)
  have hC : C1.w0.toNat < 2^63 := Nat.lt_of_le_of_lt (Nat.le_mul_of_pos_right _ hp) hm
  have hT : 10 ^ g < 2^63 := Nat.lt_of_le_of_lt (Nat.le_mul_of_pos_left _ h0) hm
  unfold posExpK'
  rw [hs]
  cases s
  · simp only [Bool.false_eq_true, if_false, bind, Except.bind, pure, Except.pure, ht, sInt]
    congr 2
    show ((Int64.ofInt (C1.w0.toNat : Int)) * Int64.ofInt (t.toNat : Int)).toInt = _
    rw [Int64.toInt_mul, i64_of_nat _ hC, tv, i64_of_nat _ hT]
    have : ((C1.w0.toNat : Int)) * ((10 ^ g : Nat) : Int) = ((C1.w0.toNat * 10 ^ g : Nat) : Int) := by push_cast; ring
    rw [this, Int.bmod_eq_of_le (by omega) (by omega)]
  · simp only [if_true, bind, Except.bind, pure, Except.pure, ht, sInt]
    congr 2
    show ((-Int64.ofInt (C1.w0.toNat : Int)) * Int64.ofInt (t.toNat : Int)).toInt = _
    rw [Int64.toInt_mul, Int64.toInt_neg, i64_of_nat _ hC, tv, i64_of_nat _ hT,
      Int.bmod_eq_of_le (n := -(C1.w0.toNat : Int)) (by omega) (by omega)]
    have : (-(C1.w0.toNat : Int)) * ((10 ^ g : Nat) : Int) = -((C1.w0.toNat * 10 ^ g : Nat) : Int) := by
      push_cast; ring
    rw [this, Int.bmod_eq_of_le (by omega) (by omega)]

/-- what the skeletons need from the positive-exponent block -/
def PosExpOK (pe : UInt64 → U128 → Int32 → (Int32 → Except String (Int32 × UInt32)) → Except String (Int32 × UInt32)) : Prop :=
  ∀ (xs : UInt64) (C1 : U128) (exp : Int32) (k : Int32 → Except String (Int32 × UInt32)) (s : Bool) (g : Nat),
    (xs != 0) = s → exp.toInt = g → g ≤ 19 → 0 < C1.w0.toNat → C1.w0.toNat * 10 ^ g < 2^63 →
    pe xs C1 exp k = k (Int32.ofInt (sInt s (C1.w0.toNat * 10 ^ g)))

theorem posExpK_ok : PosExpOK posExpK := fun xs C1 exp k s g => posExpK_spec xs C1 exp k s g
theorem posExpK'_ok : PosExpOK posExpK' := fun xs C1 exp k s g => posExpK'_spec xs C1 exp k s g

/-! ### rounding directions on the magnitude, and the boundary test at ten integer digits -/

/-- how the magnitude is rounded: toward zero, away from zero, to nearest (ties to even / ties away) -/
inductive Dir | down | up | even | away
  deriving DecidableEq

def dirOf : Mode → Bool → Dir
  | .rtz, _ => .down
  | .rdn, s => if s then .up else .down
  | .rup, s => if s then .down else .up
  | .rne, _ => .even
  | .rna, _ => .away

/-- does the magnitude `a + r/D` go up to `a + 1`? -/
def incr (d : Dir) (aOdd : Bool) (r D : Nat) : Bool :=
  if r = 0 then false else
  match d with
  | .down => false
  | .up => true
  | .even => decide (2*r > D) || (decide (2*r = D) && aOdd)
  | .away => decide (2*r ≥ D)

theorem roundUp_eq (mode : Mode) (s aOdd : Bool) (r D : Nat) : roundUp mode s aOdd r D = incr (dirOf mode s) aOdd r D := by
  unfold roundUp incr dirOf
  cases mode <;> cases s <;> rfl

theorem roundInt_eq (mode : Mode) (s : Bool) (a r D : Nat) :
    roundInt mode s a r D = if incr (dirOf mode s) (a % 2 == 1) r D then a + 1 else a := by
  unfold roundInt; rw [roundUp_eq]

/-- the constant `c = 5·(2B − θ)` and the strictness a copy must use at ten integer digits for the rounding direction `d`,
`B` being the smallest magnitude out of range -/
def thrOK (d : Dir) (B c : Nat) (strict : Bool) : Prop :=
  match d with
  | .down => c = 10 * B ∧ strict = false
  | .up => c = 10 * B - 10 ∧ strict = true
  | .away => c = 10 * B - 5 ∧ strict = false
  | .even => c = 10 * B - 5 ∧ strict = decide (B % 2 = 1)

instance (d : Dir) (B c : Nat) (strict : Bool) : Decidable (thrOK d B c strict) := by
  unfold thrOK; cases d <;> infer_instance

/-- the boundary comparison when the quotient is just below the bound: the discarded part decides -/
theorem thr_mid (d : Dir) (B c : Nat) (strict : Bool) (hB : B = 2147483648 ∨ B = 2147483649) (ok : thrOK d B c strict)
    (r D' : Nat) (hD' : 0 < D') (hr : r < 10 * D') :
    cmpN strict ((B - 1) * (10 * D') + r) (c * D') = incr d ((B - 1) % 2 == 1) r (10 * D') := by
  unfold cmpN incr
  rcases hB with rfl | rfl <;> cases d <;> simp only [thrOK] at ok <;> obtain ⟨rfl, rfl⟩ := ok
  all_goals (by_cases h0 : r = 0)
  all_goals simp only [h0, if_true, if_false, Bool.false_eq_true, Nat.reduceMod, Nat.reduceSub, Nat.reduceMul, Nat.reduceBEq,
    decide_true, decide_false, Bool.and_true, Bool.and_false, Bool.or_false, Nat.add_zero, Nat.reduceEqDiff]
  all_goals rw [Bool.eq_iff_iff]
  all_goals simp only [decide_eq_true_eq, Bool.false_eq_true, Bool.or_eq_true, iff_false, iff_true, not_lt, not_le]
  all_goals omega


theorem thrOK_c (d : Dir) (B c : Nat) (strict : Bool) (ok : thrOK d B c strict) (hB : 2 ≤ B) :
    10 * B - 10 ≤ c ∧ c ≤ 10 * B ∧ (strict = true → c < 10 * B) := by
  cases d <;> simp only [thrOK] at ok <;> obtain ⟨rfl, hs⟩ := ok <;> refine ⟨by omega, by omega, ?_⟩ <;> intro h <;>
    first | omega | (rw [hs] at h; exact absurd h (by decide))

/-- the boundary comparison on `C = a·D + r`, `D = 10·D'`: `C ⋈ c·D'` says whether the rounded magnitude reaches `B` -/
theorem thr_div (d : Dir) (B c : Nat) (strict : Bool) (hB : B = 2147483648 ∨ B = 2147483649) (ok : thrOK d B c strict)
    (a r D' : Nat) (hD' : 0 < D') (hr : r < 10 * D') :
    cmpN strict (a * (10 * D') + r) (c * D') = decide (B ≤ if incr d (a % 2 == 1) r (10 * D') then a + 1 else a) := by
  obtain ⟨c1, c2, c3⟩ := thrOK_c d B c strict ok (by omega)
  rcases Nat.lt_trichotomy (a + 1) B with hlt | heq | hgt
  · -- a ≤ B − 2: far below
    have h1 : (a + 2) * (10 * D') ≤ B * (10 * D') := Nat.mul_le_mul_right _ (by omega)
    have h2 : (10 * B - 10) * D' ≤ c * D' := Nat.mul_le_mul_right _ c1
    have hR : ¬ B ≤ (if incr d (a % 2 == 1) r (10 * D') then a + 1 else a) := by split <;> omega
    rw [decide_eq_false hR]
    have e1 : B * (10 * D') = (10 * B - 10) * D' + 10 * D' := by
      rw [← Nat.mul_assoc, Nat.mul_comm B 10, ← Nat.add_mul]; congr 1; omega
    rw [Nat.add_mul, e1] at h1
    unfold cmpN
    generalize a * (10 * D') = X at *
    generalize (10 * B - 10) * D' = Y at *
    generalize c * D' = Z at *
    cases strict <;> simp only [Bool.false_eq_true, if_true, if_false, decide_eq_false_iff_not] <;> (try omega)
  · have ha : a = B - 1 := by omega
    subst ha
    rw [thr_mid d B c strict hB ok r D' hD' hr, show B - 1 + 1 = B by omega]
    cases incr d ((B - 1) % 2 == 1) r (10 * D')
    · simp only [Bool.false_eq_true, if_false]; symm; rw [decide_eq_false_iff_not]; omega
    · simp only [if_true]; symm; rw [decide_eq_true_eq]
  · -- a ≥ B
    have h1 : B * (10 * D') ≤ a * (10 * D') := Nat.mul_le_mul_right _ (by omega)
    have h2 : c * D' ≤ (10 * B) * D' := Nat.mul_le_mul_right _ c2
    have hR : B ≤ (if incr d (a % 2 == 1) r (10 * D') then a + 1 else a) := by split <;> omega
    rw [decide_eq_true hR]
    have e1 : B * (10 * D') = (10 * B) * D' := by rw [← Nat.mul_assoc, Nat.mul_comm B 10]
    rw [e1] at h1
    unfold cmpN
    cases strict
    · simp only [Bool.false_eq_true, if_false, decide_eq_true_eq]
      generalize a * (10 * D') = X at *; generalize (10 * B) * D' = Y at *; generalize c * D' = Z at *
      omega
    · have h3 : c * D' < (10 * B) * D' := Nat.mul_lt_mul_of_pos_right (c3 rfl) hD'
      simp only [if_true, decide_eq_true_eq]
      generalize a * (10 * D') = X at *; generalize (10 * B) * D' = Y at *; generalize c * D' = Z at *
      omega


/-- the boundary comparison on an integer magnitude `m`: `10·m ⋈ c` says whether `m` reaches `B` -/
theorem thr_int (d : Dir) (B c : Nat) (strict : Bool) (hB : B = 2147483648 ∨ B = 2147483649) (ok : thrOK d B c strict)
    (m : Nat) : cmpN strict (10 * m) c = decide (B ≤ m) := by
  unfold cmpN
  rcases hB with rfl | rfl <;> cases d <;> simp only [thrOK] at ok <;> obtain ⟨rfl, rfl⟩ := ok <;>
    simp only [Bool.false_eq_true, if_true, if_false, Nat.reduceMod, Nat.reduceEqDiff, decide_true, decide_false] <;>
    rw [decide_eq_decide] <;> omega

/-- **the range test at ten integer digits is right**: for the rounding direction of the copy, the comparison of
`C·10^(11−n)` with the copy's constant says whether the rounded magnitude reaches the bound `B` -/
theorem range10 (mode : Mode) (s : Bool) (B c : Nat) (strict : Bool) (hB : B = 2147483648 ∨ B = 2147483649)
    (ok : thrOK (dirOf mode s) B c strict) (C : Nat) (e : Int) (hC : 0 < C) (ht : (ndigits C : Int) + e = 10) :
    cmpN strict (C * 10 ^ (11 - ndigits C)) (c * 10 ^ (ndigits C - 11)) = decide (B ≤ magOf mode s C e) := by
  have hn := ndigits_pos hC
  unfold magOf
  by_cases he : e ≥ 0
  · rw [if_pos he, show ndigits C - 11 = 0 by omega, Nat.pow_zero, Nat.mul_one,
      show 11 - ndigits C = e.toNat + 1 by omega, Nat.pow_succ, ← Nat.mul_assoc, Nat.mul_comm _ 10]
    exact thr_int _ B c strict hB ok _
  · rw [if_neg he, show 11 - ndigits C = 0 by omega, Nat.pow_zero, Nat.mul_one, roundInt_eq]
    have hx : (-e).toNat = (ndigits C - 11) + 1 := by omega
    rw [hx, Nat.pow_succ, Nat.mul_comm _ 10]
    have hD' : 0 < 10 ^ (ndigits C - 11) := Nat.pow_pos (by decide)
    have := thr_div (dirOf mode s) B c strict hB ok (C / (10 * 10 ^ (ndigits C - 11))) (C % (10 * 10 ^ (ndigits C - 11)))
      (10 ^ (ndigits C - 11)) hD' (Nat.mod_lt _ (by omega))
    rw [Nat.mul_comm (C / _), Nat.div_add_mod] at this
    exact this


/-! ### the routines: common set-up -/

/-- the smallest magnitude out of the `i32` range, by sign -/
def bnd (s : Bool) : Nat := if s then 2147483649 else 2147483648

/-- a copy's range-test parameters are right for rounding mode `mode` -/
def RangeOK (P : RangeP) (mode : Mode) : Prop :=
  thrOK (dirOf mode true) (bnd true) P.cN.toNat P.sN ∧ thrOK (dirOf mode false) (bnd false) P.cP.toNat P.sP

instance (P : RangeP) (mode : Mode) : Decidable (RangeOK P mode) := by unfold RangeOK; infer_instance

/-- **range test, semantically**: the copy answers `inv` exactly when the rounded integer is out of range -/
theorem rangeK_sem {α : Type} (P : RangeP) (mode : Mode) (hP : RangeOK P mode) (xs : UInt64) (C1 : U128) (q exp : Int32)
    (inv k : Except String α) (s : Bool) (e : Int) (hs : (xs != 0) = s) (hC0 : 0 < val128 C1) (hC : val128 C1 < P34)
    (hq : q.toInt = (ndigits (val128 C1) : Int)) (he : exp.toInt = e) (he1 : -10000 ≤ e) (he2 : e ≤ 10000) :
    rangeK P xs C1 q exp inv k = if bnd s ≤ magOf mode s (val128 C1) e then inv else k := by
  obtain ⟨hN, hPp⟩ := hP
  have hn := ndigits_pos hC0
  obtain ⟨-, hhi⟩ := ndigits_spec hC0
  have hn34 : ndigits (val128 C1) ≤ 34 := by rw [ndigits_le_iff hC0]; simpa [P34] using hC
  have hcN : P.cN.toNat < 2^36 := by
    have := (thrOK_c _ _ _ _ hN (by decide)).2.1; simp only [bnd, if_true] at this; omega
  have hcP : P.cP.toNat < 2^36 := by
    have := (thrOK_c _ _ _ _ hPp (by decide)).2.1; simp only [bnd] at this; simp at this; omega
  rw [rangeK_spec P xs C1 q exp inv k _ e hq he hn hn34 hhi he1 he2 hcN hcP]
  by_cases c1 : 10 < (ndigits (val128 C1) : Int) + e
  · have := magOf_big mode s (val128 C1) e hC0 (by omega)
    rw [if_pos c1, if_pos (by unfold bnd; split <;> omega)]
  rw [if_neg c1]
  by_cases c2 : (ndigits (val128 C1) : Int) + e = 10
  · rw [if_pos c2]
    have hxs : (xs ≠ 0) ↔ s = true := by rw [← hs, bne_iff_ne]
    cases s
    · rw [if_neg (by rw [hxs]; decide), range10 mode false (bnd false) _ _ (Or.inl rfl) hPp _ e hC0 c2]
      simp only [decide_eq_true_eq]
    · rw [if_pos (by rw [hxs]), range10 mode true (bnd true) _ _ (Or.inr rfl) hN _ e hC0 c2]
      simp only [decide_eq_true_eq]
  · rw [if_neg c2]
    have := magOf_small mode s (val128 C1) e hC0 (by omega)
    rw [if_neg (by unfold bnd; split <;> omega)]


/-- the skeleton of the truncating / floor / ceiling conversions: the parts that differ are the range constants `P`, the
answer `small` for operands below one, and the treatment `rem` of the quotient and fraction after digit removal -/
def skelTFC (P : RangeP) (f : UInt32) (small : UInt64 → Except String (Int32 × UInt32))
    (rem : UInt64 → U128 → U256 → Int32 → Except String (Int32 × UInt32))
    (pe : UInt64 → U128 → Int32 → (Int32 → Except String (Int32 × UInt32)) → Except String (Int32 × UInt32))
    (x : U128) : Except String (Int32 × UInt32) :=
  frontK x (INV f) (.ok (0, f)) (fun x_sign C1 q exp =>
    rangeK P x_sign C1 q exp (INV f)
      (if decide (q + exp ≤ (0 : Int32)) then small x_sign
       else if decide (exp < (0 : Int32)) then removeK C1 (-exp) (fun Cstar fstar => rem x_sign Cstar fstar (-exp))
       else if (exp == (0 : Int32)) then fin32 f (resOf x_sign C1.w0)
       else pe x_sign C1 exp (fin32 f)))

/-- what the specification says the routine for `mode` / `xf` returns on `x` with incoming status word `f` -/
def specOut (mode : Mode) (xf : Bool) (x : U128) (f : UInt32) : Except String (Int32 × UInt32) :=
  .ok (Int32.ofInt (toIntD mode xf (-2147483648) 2147483647 (-2147483648) (decode (Dec.C03GenCompare.bitsOf x))).1,
    f ||| UInt32.ofNat (toIntD mode xf (-2147483648) 2147483647 (-2147483648) (decode (Dec.C03GenCompare.bitsOf x))).2)

/-- the integer of the model always fits an `i32` (it is in range or the indefinite value), so the `Int32` of `specOut`
has exactly that value (what `DecGen/Api.lean` compares: `r.toInt`) -/
theorem specOut_toInt (mode : Mode) (xf : Bool) (d : Datum) :
    (Int32.ofInt (toIntD mode xf (-2147483648) 2147483647 (-2147483648) d).1).toInt =
      (toIntD mode xf (-2147483648) 2147483647 (-2147483648) d).1 := by
  have h : -2147483648 ≤ (toIntD mode xf (-2147483648) 2147483647 (-2147483648) d).1 ∧
      (toIntD mode xf (-2147483648) 2147483647 (-2147483648) d).1 ≤ 2147483647 := by
    cases d with
    | fin s c e =>
      simp only [toIntD]
      split
      · simp_all
      · exact ⟨by decide, by decide⟩
    | inf s => simp [toIntD]
    | nan s g p => simp [toIntD]
  exact Int32.toInt_ofInt_of_le (by omega) (by omega)

/-- the inexact flag word: raised by the `x` variants when the discarded part is non-zero -/
def ixFlag (xf : Bool) (exact : Bool) : UInt32 := UInt32.ofNat (if xf && !exact then fInexact else 0)


open Dec.C03GenCompare (decode_bitsOf decodeW_kind nzFin_decode) in
/-- **the truncating / floor / ceiling skeleton is right** once its three parameters are:
the range constants fit the mode (`RangeOK`, a finite check); `small` is the rounded value of an operand below one;
`rem` is the rounded value after digit removal, given the half-up quotient and the fraction facts -/
theorem skelTFC_spec (P : RangeP) (mode : Mode) (xf : Bool) (f : UInt32) (small : UInt64 → Except String (Int32 × UInt32))
    (rem : UInt64 → U128 → U256 → Int32 → Except String (Int32 × UInt32))
    (pe : UInt64 → U128 → Int32 → (Int32 → Except String (Int32 × UInt32)) → Except String (Int32 × UInt32))
    (hP : RangeOK P mode) (hpe : PosExpOK pe)
    (hsmall : ∀ (xs : UInt64) (s : Bool) (C D : Nat), (xs != 0) = s → 0 < C → C < D →
      small xs = .ok (Int32.ofInt (sInt s (roundInt mode s 0 C D)), f ||| ixFlag xf false))
    (hrem : ∀ (xs : UInt64) (s : Bool) (Cs : U128) (fs : U256) (ind : Int32) (x a r : Nat), (xs != 0) = s → ind.toInt = x →
      1 ≤ x → x ≤ 34 → r < 10 ^ x → a ≤ 10 ^ 10 →
      Cs.w0.toNat = (if r < 5 * 10 ^ (x - 1) then a else a + 1) → FracOK x r fs →
      rem xs Cs fs ind = .ok (Int32.ofInt (sInt s (roundInt mode s a r (10 ^ x))), f ||| ixFlag xf (r == 0)))
    (x : U128) :
    skelTFC P f small rem pe x = specOut mode xf x f := by
  obtain ⟨f1, f2, f3⟩ := frontK_spec x (INV f) (.ok (0, f)) (fun x_sign C1 q exp =>
    rangeK P x_sign C1 q exp (INV f)
      (if decide (q + exp ≤ (0 : Int32)) then small x_sign
       else if decide (exp < (0 : Int32)) then removeK C1 (-exp) (fun Cstar fstar => rem x_sign Cstar fstar (-exp))
       else if (exp == (0 : Int32)) then fin32 f (resOf x_sign C1.w0)
       else pe x_sign C1 exp (fin32 f)))
  unfold skelTFC specOut
  rw [decode_bitsOf]
  rcases decodeW_kind x.w1.toNat x.w0.toNat with ⟨hN, s, p, hd⟩ | ⟨hN, hI, hd⟩ | ⟨hI, hz, e, hd⟩ | ⟨hI, hS, hlt, hpos, hd⟩
  · rw [f1 (by omega), hd]; rfl
  · rw [f1 hI, hd]; rfl
  · rw [f2 hI hz, hd, toIntD_fin, magOf_zero, exactOf_zero]
    have : (0 : Nat) < if decide (x.w1.toNat / 2 ^ 63 % 2 = 1) = true then 2147483649 else 2147483648 := by split <;> omega
    rw [if_pos this]
    cases decide (x.w1.toNat / 2 ^ 63 % 2 = 1) <;> cases xf <;>
      exact congrArg Except.ok (Prod.ext rfl (UInt32.or_zero).symm)
  · -- finite non-zero
    have hnz : nzFin x := ⟨hI, by unfold zeroP; omega⟩
    obtain ⟨Q, E, hQ, hE, hk⟩ := f3 hnz
    rw [hk, hd, toIntD_fin]
    clear f1 f2 f3 hk
    have hsw : ((x.w1 &&& c_MASK_SIGN) != 0) = decide (x.w1.toNat / 2 ^ 63 % 2 = 1) := sign_word x.w1
    have hv : val128 (sigF x) = sigW x.w1.toNat x.w0.toNat := Dec.C03GenCompare.val128_sigF x
    have hel := expW_lt x.w1.toNat
    generalize x.w1 &&& c_MASK_SIGN = xs at *
    generalize decide (x.w1.toNat / 2 ^ 63 % 2 = 1) = s at *
    generalize hC1 : sigF x = C1 at *
    generalize hCv : sigW x.w1.toNat x.w0.toNat = C at *
    generalize hev : ((x.w1.toNat / 2 ^ 49 % 2 ^ 14 : Nat) : Int) - 6176 = e at *
    have hE' : E.toInt = e := by rw [hE, ← hev]; rfl
    have he1 : -10000 ≤ e := by rw [← hev]; omega
    have he2 : e ≤ 10000 := by
      rw [← hev]; have : x.w1.toNat / 2 ^ 49 % 2 ^ 14 < 2^14 := Nat.mod_lt _ (by decide); omega
    rw [← hv] at hQ
    rw [rangeK_sem P mode hP xs C1 Q E _ _ s e hsw (by omega) (by omega) hQ hE' he1 he2, hv]
    rw [show (if s = true then 2147483649 else 2147483648) = bnd s from rfl]
    by_cases hin : bnd s ≤ magOf mode s C e
    · rw [if_pos hin, if_neg (show ¬ magOf mode s C e < bnd s by omega)]; rfl
    rw [if_neg hin, if_pos (show magOf mode s C e < bnd s by omega)]
    show _ = Except.ok (Int32.ofInt (sInt s (magOf mode s C e)), f ||| ixFlag xf (exactOf C e))
    have hn := ndigits_pos hpos
    obtain ⟨hlo, hhi⟩ := ndigits_spec hpos
    have hn34 : ndigits C ≤ 34 := by rw [ndigits_le_iff hpos]; simpa [P34] using hlt
    rw [hv] at hQ
    have ht10 : (ndigits C : Int) + e ≤ 10 := by
      apply Classical.byContradiction; intro hc
      have := magOf_big mode s C e hpos (by omega)
      unfold bnd at hin; split at hin <;> omega
    have hsum : (Q + E).toInt = (ndigits C : Int) + e := by rw [i32_add _ _ (by omega) (by omega), hQ, hE']
    by_cases c1 : (ndigits C : Int) + e ≤ 0
    · -- below one
      rw [if_pos (by rw [decide_eq_true_eq, Int32.le_iff_toInt_le, hsum]; exact c1)]
      obtain ⟨hneg, ha, hr⟩ := tiny C e hpos c1
      have hCD : C < 10 ^ (-e).toNat := by
        have := Nat.mod_lt C (Nat.pow_pos (n := (-e).toNat) (by decide : 0 < 10)); omega
      rw [hsmall xs s C (10 ^ (-e).toNat) hsw hpos hCD]
      unfold magOf exactOf
      rw [if_neg (by omega), if_neg (by omega), ha, hr]
      have : (C == 0) = false := by rw [beq_eq_false_iff_ne]; omega
      rw [this]
    rw [if_neg (by rw [decide_eq_true_eq, Int32.le_iff_toInt_le, hsum]; exact c1)]
    by_cases c2 : e < 0
    · -- digits to remove
      rw [if_pos (by rw [decide_eq_true_eq, Int32.lt_iff_toInt_lt, hE']; exact c2)]
      have hx : (-E).toInt = (((-e).toNat : Nat) : Int) := by rw [i32_neg _ (by omega), hE']; omega
      have hx1 : 1 ≤ (-e).toNat := by omega
      have hx34 : (-e).toNat ≤ 34 := by omega
      obtain ⟨Cs, fs, hk, hA, hF⟩ := removeK_spec C1 (-E) (fun Cstar fstar => rem xs Cstar fstar (-E)) (-e).toNat hx hx1 hx34
        (by rw [hv]; simpa [P34] using hlt)
      rw [hk, hv] at *
      have ha10 : C / 10 ^ (-e).toNat ≤ 10 ^ 10 := by
        apply Nat.le_of_lt
        rw [Nat.div_lt_iff_lt_mul (Nat.pow_pos (by decide)), ← Nat.pow_add]
        exact Nat.lt_of_lt_of_le hhi (Nat.pow_le_pow_right (by decide) (by omega))
      have hAlt : (if C % 10 ^ (-e).toNat < 5 * 10 ^ ((-e).toNat - 1) then C / 10 ^ (-e).toNat else C / 10 ^ (-e).toNat + 1) < 2^64 := by
        have : (10:Nat) ^ 10 + 1 < 2^64 := by decide
        split <;> omega
      rw [hrem xs s Cs fs (-E) (-e).toNat (C / 10 ^ (-e).toNat) (C % 10 ^ (-e).toNat) hsw hx hx1 hx34
        (Nat.mod_lt _ (Nat.pow_pos (by decide))) ha10 (hA hAlt) hF]
      unfold magOf exactOf
      rw [if_neg (by omega), if_neg (by omega)]
    rw [if_neg (by rw [decide_eq_true_eq, Int32.lt_iff_toInt_lt, hE']; exact c2)]
    have hC10 : C < 10 ^ 10 := Nat.lt_of_lt_of_le hhi (Nat.pow_le_pow_right (by decide) (by omega))
    have hw1 : C1.w1.toNat = 0 := val128_small C1 (by rw [hv]; exact Nat.lt_trans hC10 (by decide))
    have hw0 : C1.w0.toNat = C := by rw [← hv]; unfold val128; rw [hw1, Nat.zero_mul, Nat.zero_add]
    have hex : exactOf C e = true := by unfold exactOf; rw [if_pos (by omega)]
    have hfl : f ||| ixFlag xf true = f := by
      unfold ixFlag; cases xf <;> exact UInt32.or_zero
    rw [hex, hfl]
    by_cases c3 : e = 0
    · rw [if_pos (by rw [beq_iff_eq, ← Int32.toInt_inj, hE', c3]; rfl)]
      unfold fin32 magOf
      rw [if_pos (by omega), c3, resOf_spec xs C1.w0 s C hsw hw0 (Nat.lt_trans hC10 (by decide))]
      simp
    · rw [if_neg (by rw [beq_iff_eq, ← Int32.toInt_inj, hE']; exact c3)]
      have hm : C * 10 ^ e.toNat < 10 ^ 10 := by
        have : C * 10 ^ e.toNat < 10 ^ ndigits C * 10 ^ e.toNat := Nat.mul_lt_mul_of_pos_right hhi (Nat.pow_pos (by decide))
        rw [← Nat.pow_add] at this
        exact Nat.lt_of_lt_of_le this (Nat.pow_le_pow_right (by decide) (by omega))
      rw [hpe xs C1 E (fin32 f) s e.toNat hsw (by rw [hE']; omega) (by omega) (by omega)
        (by rw [hw0]; exact Nat.lt_trans hm (by decide)), hw0]
      unfold fin32 magOf
      rw [if_pos (by omega)]


/-! ### after digit removal: the correction of the half-up quotient (truncating / floor / ceiling copies) -/

/-- the final correction of the quotient word by the indicator flags, in the three ways the copies write it
(continuation-passing: `k` gets the corrected word) -/
def adjT {α : Type} (xs : UInt64) (lt gt mle mge : Bool) (w : UInt64) (k : UInt64 → Except String α) : Except String α :=
  if (mle || gt) then k (w - 1) else k w

def adjF {α : Type} (xs : UInt64) (lt gt mle mge : Bool) (w : UInt64) (k : UInt64 → Except String α) : Except String α :=
  if ((xs != (0 : UInt64)) && ((mge || lt))) then k (w + 1)
  else if ((xs == (0 : UInt64)) && ((mle || gt))) then k (w - 1) else k w

def adjC {α : Type} (xs : UInt64) (lt gt mle mge : Bool) (w : UInt64) (k : UInt64 → Except String α) : Except String α :=
  if ((xs != (0 : UInt64)) && ((mle || gt))) then k (w - 1)
  else if ((xs == (0 : UInt64)) && ((mge || lt))) then k (w + 1) else k w

/-- the flags a copy sets on each path, and whether it raises inexact there -/
structure GlueP where
  /-- fraction above ½ by more than the error (discarded part below the midpoint): lt, gt, inexact -/
  aLt : Bool
  aGt : Bool
  aIx : Bool
  /-- otherwise-not-above-½ path (discarded part at or above the midpoint) -/
  cLt : Bool
  cGt : Bool
  cIx : Bool
  /-- midpoint with odd quotient (quotient decremented): lt gt mle mge afterwards -/
  moLt : Bool
  moGt : Bool
  moMle : Bool
  moMge : Bool
  /-- midpoint with even quotient -/
  meLt : Bool
  meGt : Bool
  meMle : Bool
  meMge : Bool

/-- the treatment of quotient and fraction after digit removal, generic in the flags `G` and the correction `adj` -/
def remG (adj : UInt64 → Bool → Bool → Bool → Bool → UInt64 → (UInt64 → Except String (Int32 × UInt32)) → Except String (Int32 × UInt32))
    (G : GlueP) (f : UInt32) (xs : UInt64) (Cstar : U128) (fstar : U256) (ind : Int32) : Except String (Int32 × UInt32) :=
  let tail := fun (pf : UInt32) (lt gt : Bool) =>
    midK fstar ind
      (if (((Cstar.w0 &&& (1 : UInt64))) == (1 : UInt64)) then
        adj xs G.moLt G.moGt G.moMle G.moMge (Cstar.w0 - 1) (fun w => fin32 pf (resOf xs w))
       else adj xs G.meLt G.meGt G.meMle G.meMge Cstar.w0 (fun w => fin32 pf (resOf xs w)))
      (adj xs lt gt false false Cstar.w0 (fun w => fin32 pf (resOf xs w)))
  fracK fstar ind
    (tail (if G.aIx then f ||| c_StatusFlags_BID_INEXACT_EXCEPTION else f) G.aLt G.aGt)
    (tail f false false)
    (tail (if G.cIx then f ||| c_StatusFlags_BID_INEXACT_EXCEPTION else f) G.cLt G.cGt)

/-- the correction applied to the quotient word: −1, 0 or +1 -/
def applyD (δ : Int) (w : UInt64) : UInt64 := if δ = -1 then w - 1 else if δ = 1 then w + 1 else w

def adjTD (s lt gt mle mge : Bool) : Int := if (mle || gt) then -1 else 0
def adjFD (s lt gt mle mge : Bool) : Int := if (s && (mge || lt)) then 1 else if (!s && (mle || gt)) then -1 else 0
def adjCD (s lt gt mle mge : Bool) : Int := if (s && (mle || gt)) then -1 else if (!s && (mge || lt)) then 1 else 0

/-- a correction routine `adj` computes the correction `adjD` (as a function of the sign and the flags) -/
def AdjOK (adj : UInt64 → Bool → Bool → Bool → Bool → UInt64 → (UInt64 → Except String (Int32 × UInt32)) → Except String (Int32 × UInt32))
    (adjD : Bool → Bool → Bool → Bool → Bool → Int) : Prop :=
  ∀ (xs : UInt64) (s lt gt mle mge : Bool) (w : UInt64) (k : UInt64 → Except String (Int32 × UInt32)),
    (xs != 0) = s → adj xs lt gt mle mge w k = k (applyD (adjD s lt gt mle mge) w)

theorem adjT_ok : AdjOK adjT adjTD := by
  intro xs s lt gt mle mge w k hs
  unfold adjT adjTD applyD
  cases mle <;> cases gt <;> rfl

theorem beq_of_bne (xs : UInt64) (s : Bool) (hs : (xs != 0) = s) : (xs == 0) = !s := by
  rw [← hs]; simp [bne]

theorem adjF_ok : AdjOK adjF adjFD := by
  intro xs s lt gt mle mge w k hs
  unfold adjF adjFD applyD
  rw [hs, beq_of_bne xs s hs]
  cases s <;> cases lt <;> cases gt <;> cases mle <;> cases mge <;> rfl

theorem adjC_ok : AdjOK adjC adjCD := by
  intro xs s lt gt mle mge w k hs
  unfold adjC adjCD applyD
  rw [hs, beq_of_bne xs s hs]
  cases s <;> cases lt <;> cases gt <;> cases mle <;> cases mge <;> rfl

/-- where the discarded part lies -/
inductive Cls | zero | below | mid | above
  deriving DecidableEq

/-- the rounding increment by direction, parity of the quotient and class of the discarded part -/
def incrC (d : Dir) (aOdd : Bool) : Cls → Bool
  | .zero => false
  | .below => decide (d = .up)
  | .mid => match d with | .down => false | .up => true | .even => aOdd | .away => true
  | .above => decide (d ≠ .down)

theorem incr_cls (d : Dir) (aOdd : Bool) (r h : Nat) (hh : 0 < h) :
    incr d aOdd r (2 * h) =
      incrC d aOdd (if r = 0 then .zero else if r < h then .below else if r = h then .mid else .above) := by
  unfold incr
  by_cases h0 : r = 0
  · rw [if_pos h0, if_pos h0]; rfl
  rw [if_neg h0, if_neg h0]
  by_cases h1 : r < h
  · rw [if_pos h1]
    cases d <;> simp only [incrC, decide_true, decide_false, reduceCtorEq] <;>
      rw [Bool.eq_iff_iff] <;> simp only [Bool.or_eq_true, Bool.and_eq_true, decide_eq_true_eq, Bool.false_eq_true, iff_false] <;> omega
  rw [if_neg h1]
  by_cases h2 : r = h
  · rw [if_pos h2]
    subst h2
    cases d <;> simp only [incrC, Nat.lt_irrefl, decide_true, decide_false, Bool.false_or, Bool.true_and, Nat.le_refl, gt_iff_lt, ge_iff_le]
  · rw [if_neg h2]
    cases d <;> simp only [incrC, ne_eq, decide_true, decide_false, reduceCtorEq, not_true_eq_false, not_false_eq_true] <;>
      rw [Bool.eq_iff_iff] <;> simp only [Bool.or_eq_true, Bool.and_eq_true, decide_eq_true_eq, iff_true] <;> omega

/-- the finite check of a copy's flags and correction against the rounding mode -/
def GlueOK (adjD : Bool → Bool → Bool → Bool → Bool → Int) (G : GlueP) (mode : Mode) (xf : Bool) : Prop :=
  (∀ s aOdd : Bool,
    adjD s G.aLt G.aGt false false = (if incrC (dirOf mode s) aOdd .below then 1 else 0) ∧
    adjD s false false false false = 0 ∧
    1 + adjD s G.cLt G.cGt false false = (if incrC (dirOf mode s) aOdd .above then 1 else 0)) ∧
  (∀ s : Bool,
    adjD s G.moLt G.moGt G.moMle G.moMge = (if incrC (dirOf mode s) false .mid then 1 else 0) ∧
    1 + adjD s G.meLt G.meGt G.meMle G.meMge = (if incrC (dirOf mode s) true .mid then 1 else 0)) ∧
  G.aIx = xf ∧ G.cIx = xf

instance (adjD : Bool → Bool → Bool → Bool → Bool → Int) (G : GlueP) (mode : Mode) (xf : Bool) :
    Decidable (GlueOK adjD G mode xf) := by unfold GlueOK; infer_instance

theorem applyD_toNat (δ : Int) (w : UInt64) (m : Nat) (hw : w.toNat = m) (h1 : δ = -1 → 1 ≤ m) (hm : m + 1 < 2^64)
    (hδ : δ = -1 ∨ δ = 0 ∨ δ = 1) : ((applyD δ w).toNat : Int) = (m : Int) + δ := by
  unfold applyD
  rcases hδ with rfl | rfl | rfl
  · have := h1 rfl
    simp only [if_true]
    rw [u64_sub_toNat _ _ (by rw [hw]; exact this), hw]; show ((m - 1 : Nat) : Int) = _; omega
  · simp only [show ¬ ((0 : Int) = -1) by decide, show ¬ ((0 : Int) = 1) by decide, if_false, hw]; omega
  · simp only [show ¬ ((1 : Int) = -1) by decide, if_false, if_true]
    rw [UInt64.toNat_add, hw, show (1 : UInt64).toNat = 1 from rfl, Nat.mod_eq_of_lt hm]; omega

theorem odd_test (w : UInt64) : ((w &&& 1) == 1) = decide (w.toNat % 2 = 1) := by
  rw [Bool.eq_iff_iff, beq_iff_eq, decide_eq_true_iff, ← UInt64.toNat_inj, UInt64.toNat_and,
    show (1 : UInt64).toNat = 2^1 - 1 from rfl, Nat.and_two_pow_sub_one_eq_mod]
  rfl

theorem ix_pf (f : UInt32) (b xf : Bool) (h : b = xf) :
    (if b then f ||| c_StatusFlags_BID_INEXACT_EXCEPTION else f) = f ||| ixFlag xf false := by
  subst h; cases b
  · exact (UInt32.or_zero).symm
  · rfl

/-- **after digit removal, generically**: a copy whose correction routine and flags pass the finite check returns the
integer rounded in `mode`, and raises inexact as `xf` says -/
theorem remG_spec (adj : UInt64 → Bool → Bool → Bool → Bool → UInt64 → (UInt64 → Except String (Int32 × UInt32)) → Except String (Int32 × UInt32))
    (adjD : Bool → Bool → Bool → Bool → Bool → Int) (G : GlueP) (mode : Mode) (xf : Bool) (f : UInt32)
    (hadj : AdjOK adj adjD) (hG : GlueOK adjD G mode xf)
    (xs : UInt64) (s : Bool) (Cs : U128) (fs : U256) (ind : Int32) (x a r : Nat) (hs : (xs != 0) = s) (hx : ind.toInt = x)
    (h1 : 1 ≤ x) (h34 : x ≤ 34) (hr : r < 10 ^ x) (ha : a ≤ 10 ^ 10)
    (hA : Cs.w0.toNat = (if r < 5 * 10 ^ (x - 1) then a else a + 1)) (ok : FracOK x r fs) :
    remG adj G f xs Cs fs ind = .ok (Int32.ofInt (sInt s (roundInt mode s a r (10 ^ x))), f ||| ixFlag xf (r == 0)) := by
  obtain ⟨g1, g2, gaIx, gcIx⟩ := hG
  have hh : 0 < 5 * 10 ^ (x - 1) := Nat.mul_pos (by decide) (Nat.pow_pos (by decide))
  have ha' : a + 2 < 2^63 := by
    have : (10:Nat)^10 + 2 < 2^63 := by decide
    omega
  rw [roundInt_eq, ← two_h x h1, incr_cls _ _ r _ hh]
  unfold remG
  simp only []
  rw [fracK_spec fs ind _ _ _ x r hx h1 h34 ok]
  -- the common last step
  have fin : ∀ (pf : UInt32) (δ : Int) (w : UInt64) (m : Nat) (tgt : Bool) (ex : Bool), w.toNat = m → (δ = -1 → 1 ≤ m) → m ≤ a + 1 →
      (δ = -1 ∨ δ = 0 ∨ δ = 1) → (m : Int) + δ = (if tgt then a + 1 else a : Nat) → pf = f ||| ixFlag xf ex →
      fin32 pf (resOf xs (applyD δ w)) = .ok (Int32.ofInt (sInt s (if tgt then a + 1 else a)), f ||| ixFlag xf ex) := by
    intro pf δ w m tgt ex hw hd hm hδ htgt hpf
    have := applyD_toNat δ w m hw hd (by omega) hδ
    rw [htgt] at this
    unfold fin32
    rw [resOf_spec xs _ s _ hs (Int.ofNat_inj.1 this) (by split <;> omega), hpf]
  have adjv : ∀ sv lt gt mle mge, adjD sv lt gt mle mge = -1 ∨ adjD sv lt gt mle mge = 0 ∨ adjD sv lt gt mle mge = 1 → True :=
    fun _ _ _ _ _ _ => trivial
  by_cases c0 : r = 0
  · -- nothing discarded
    obtain ⟨-, gz, -⟩ := g1 s false
    rw [if_pos (by omega), if_neg (by omega), midK_spec fs ind _ _ x r hx h1 h34 ok, if_neg (by omega), if_pos c0,
      hadj xs s _ _ _ _ _ _ hs, gz]
    rw [if_pos (by omega)] at hA
    have : (r == 0) = true := by rw [c0]; rfl
    rw [this]
    exact fin f 0 Cs.w0 a false true hA (fun h => absurd h (by decide)) (by omega) (Or.inr (Or.inl rfl)) (by simp [incrC])
      (by unfold ixFlag; cases xf <;> exact (UInt32.or_zero).symm)
  rw [if_neg c0]
  have hex : (r == 0) = false := by rw [beq_eq_false_iff_ne]; exact c0
  rw [hex]
  by_cases c1 : r < 5 * 10 ^ (x - 1)
  · -- below the midpoint
    obtain ⟨gb, -, -⟩ := g1 s (a % 2 == 1)
    rw [if_pos c1, if_pos c1, if_pos (by omega), midK_spec fs ind _ _ x r hx h1 h34 ok, if_neg (by omega),
      hadj xs s _ _ _ _ _ _ hs, gb]
    rw [if_pos c1] at hA
    refine fin _ _ Cs.w0 a _ false hA ?_ (by omega) ?_ ?_ (ix_pf f _ xf gaIx)
    · split <;> intro h <;> exact absurd h (by decide)
    · split <;> simp
    · split <;> simp
  rw [if_neg c1, if_neg c1, midK_spec fs ind _ _ x r hx h1 h34 ok]
  rw [if_neg c1] at hA
  by_cases c2 : r = 5 * 10 ^ (x - 1)
  · -- the midpoint
    rw [if_pos c2, if_pos c2, odd_test, hA]
    by_cases codd : (a + 1) % 2 = 1
    · obtain ⟨gmo, -⟩ := g2 s
      have haodd : (a % 2 == 1) = false := by rw [beq_eq_false_iff_ne]; omega
      rw [if_pos (by simpa using codd), hadj xs s _ _ _ _ _ _ hs, gmo, haodd]
      refine fin _ _ (Cs.w0 - 1) a _ false (by rw [u64_sub_toNat _ _ (by rw [hA]; show 1 ≤ _; omega), hA]; rfl) ?_ (by omega) ?_ ?_
        (ix_pf f _ xf gcIx)
      · split <;> intro h <;> exact absurd h (by decide)
      · split <;> simp
      · split <;> simp
    · obtain ⟨-, gme⟩ := g2 s
      have haodd : (a % 2 == 1) = true := by rw [beq_iff_eq]; omega
      rw [if_neg (by simpa using codd), hadj xs s _ _ _ _ _ _ hs, haodd]
      refine fin _ _ Cs.w0 (a + 1) _ false hA ?_ (by omega) ?_ ?_ (ix_pf f _ xf gcIx)
      · intro _; omega
      · split at gme <;> omega
      · split at gme <;> split <;> simp_all <;> omega
  · -- above the midpoint
    obtain ⟨-, -, gab⟩ := g1 s (a % 2 == 1)
    rw [if_neg c2, if_neg c2, hadj xs s _ _ _ _ _ _ hs]
    refine fin _ _ Cs.w0 (a + 1) _ false hA ?_ (by omega) ?_ ?_ (ix_pf f _ xf gcIx)
    · intro _; omega
    · split at gab <;> omega
    · split at gab <;> split <;> simp_all <;> omega

def G_int : GlueP := ⟨false, false, false, false, true, false, false, false, false, false, false, false, true, false⟩
def P_int : RangeP := ⟨0x50000000a, false, 0x500000000, false⟩

set_option maxRecDepth 100000 in
theorem int_unfold' (x : U128) (f : UInt32) :
    bid128_to_int32_int x f = skelTFC P_int f (fun _ => .ok (0, f)) (remG adjT G_int f) posExpK x := rfl


/-- operands below one, for the directed modes: the magnitude is 1 when rounding away from zero, else 0; the `x` variants
raise inexact -/
theorem small_dir (mode : Mode) (xf : Bool) (f : UInt32) (v : UInt64 → Int32) (ix : Bool)
    (hdir : ∀ s, dirOf mode s = .down ∨ dirOf mode s = .up)
    (hv : ∀ (xs : UInt64) (s : Bool), (xs != 0) = s → v xs = Int32.ofInt (sInt s (if dirOf mode s = .up then 1 else 0)))
    (hix : ix = xf) :
    ∀ (xs : UInt64) (s : Bool) (C D : Nat), (xs != 0) = s → 0 < C → C < D →
      (.ok (v xs, if ix then f ||| c_StatusFlags_BID_INEXACT_EXCEPTION else f) : Except String (Int32 × UInt32)) =
        .ok (Int32.ofInt (sInt s (roundInt mode s 0 C D)), f ||| ixFlag xf false) := by
  intro xs s C D hs hC hD
  rw [hv xs s hs, ix_pf f ix xf hix, roundInt_eq]
  have : incr (dirOf mode s) (0 % 2 == 1) C D = decide (dirOf mode s = .up) := by
    unfold incr
    rw [if_neg (by omega)]
    rcases hdir s with h | h <;> rw [h] <;> rfl
  rw [this]
  by_cases h : dirOf mode s = .up
  · rw [if_pos h, decide_eq_true h, if_pos rfl]
  · rw [if_neg h, decide_eq_false h, if_neg (by decide)]

/-- **`bid128_to_int32_int`** (conversion with truncation, no inexact): for every 128-bit pattern and every incoming status
word the routine returns what the specification-level `toIntD .rtz false` says, and never panics -/
theorem to_int32_int_spec (x : U128) (f : UInt32) : bid128_to_int32_int x f = specOut .rtz false x f := by
  rw [int_unfold']
  exact skelTFC_spec P_int .rtz false f _ _ _ (by decide) posExpK_ok
    (small_dir .rtz false f (fun _ => 0) false (by decide) (by intro xs s _; cases s <;> rfl) rfl)
    (remG_spec adjT adjTD G_int .rtz false f adjT_ok (by decide)) x

-- 2.5, −2.5, 2147483647.5, −2147483648.5, −0.3, 123·10^7 (out of range), a NaN
example : bid128_to_int32_int ⟨0x19, 0x303e000000000000⟩ 0 = .ok (2, 0x0) := by rfl
example : bid128_to_int32_int ⟨0x19, 0xb03e000000000000⟩ 0 = .ok (-2, 0x0) := by rfl
example : bid128_to_int32_int ⟨0x4fffffffb, 0x303e000000000000⟩ 0 = .ok (2147483647, 0x0) := by rfl
example : bid128_to_int32_int ⟨0x500000005, 0xb03e000000000000⟩ 0 = .ok (-2147483648, 0x0) := by rfl
example : bid128_to_int32_int ⟨0x3, 0xb03e000000000000⟩ 0 = .ok (0, 0x0) := by rfl
example : bid128_to_int32_int ⟨0x7b, 0x304e000000000000⟩ 0 = .ok (1230000000, 0x0) := by rfl
example : bid128_to_int32_int ⟨7, 0x7c00000000000000⟩ 0x20 = .ok (-2147483648, 0x21) := by rfl


/-! ### the other truncating / floor / ceiling copies -/

def IX (f : UInt32) : UInt32 := f ||| c_StatusFlags_BID_INEXACT_EXCEPTION

def G_xint : GlueP := ⟨false, false, true, false, true, true, false, false, false, false, false, false, true, false⟩
def G_floor : GlueP := ⟨true, false, false, false, true, false, false, false, false, true, false, false, true, false⟩
def G_xfloor : GlueP := ⟨true, false, true, false, true, true, false, false, false, true, false, false, true, false⟩
def P_floor : RangeP := ⟨0x500000000, true, 0x500000000, false⟩
def P_ceil : RangeP := ⟨0x50000000a, false, 0x4fffffff6, true⟩

set_option maxRecDepth 100000 in
set_option maxHeartbeats 1000000 in
theorem xint_unfold (x : U128) (f : UInt32) :
    bid128_to_int32_xint x f = skelTFC P_int f (fun _ => .ok (0, IX f)) (remG adjT G_xint f) posExpK x := rfl

set_option maxRecDepth 100000 in
set_option maxHeartbeats 1000000 in
theorem floor_unfold (x : U128) (f : UInt32) :
    bid128_to_int32_floor x f =
      skelTFC P_floor f (fun xs => .ok (if (xs != (0 : UInt64)) then 0xffffffff else 0, f)) (remG adjF G_floor f) posExpK x := rfl

set_option maxRecDepth 100000 in
set_option maxHeartbeats 1000000 in
theorem xfloor_unfold (x : U128) (f : UInt32) :
    bid128_to_int32_xfloor x f =
      skelTFC P_floor f (fun xs => .ok (if (xs != (0 : UInt64)) then 0xffffffff else 0, IX f)) (remG adjF G_xfloor f) posExpK x := rfl

set_option maxRecDepth 100000 in
set_option maxHeartbeats 1000000 in
theorem ceil_unfold (x : U128) (f : UInt32) :
    bid128_to_int32_ceil x f =
      skelTFC P_ceil f (fun xs => .ok (if (xs != (0 : UInt64)) then 0 else 1, f)) (remG adjC G_floor f) posExpK x := rfl

set_option maxRecDepth 100000 in
set_option maxHeartbeats 1000000 in
theorem xceil_unfold (x : U128) (f : UInt32) :
    bid128_to_int32_xceil x f =
      skelTFC P_ceil f (fun xs => .ok (if (xs != (0 : UInt64)) then 0 else 1, IX f)) (remG adjC G_xfloor f) posExpK' x := rfl


theorem small_ix (mode : Mode) (f : UInt32) (v : UInt64 → Int32)
    (hdir : ∀ s, dirOf mode s = .down ∨ dirOf mode s = .up)
    (hv : ∀ (xs : UInt64) (s : Bool), (xs != 0) = s → v xs = Int32.ofInt (sInt s (if dirOf mode s = .up then 1 else 0))) :
    ∀ (xs : UInt64) (s : Bool) (C D : Nat), (xs != 0) = s → 0 < C → C < D →
      (.ok (v xs, IX f) : Except String (Int32 × UInt32)) =
        .ok (Int32.ofInt (sInt s (roundInt mode s 0 C D)), f ||| ixFlag true false) :=
  small_dir mode true f v true hdir hv rfl

theorem small_nx (mode : Mode) (f : UInt32) (v : UInt64 → Int32)
    (hdir : ∀ s, dirOf mode s = .down ∨ dirOf mode s = .up)
    (hv : ∀ (xs : UInt64) (s : Bool), (xs != 0) = s → v xs = Int32.ofInt (sInt s (if dirOf mode s = .up then 1 else 0))) :
    ∀ (xs : UInt64) (s : Bool) (C D : Nat), (xs != 0) = s → 0 < C → C < D →
      (.ok (v xs, f) : Except String (Int32 × UInt32)) =
        .ok (Int32.ofInt (sInt s (roundInt mode s 0 C D)), f ||| ixFlag false false) :=
  small_dir mode false f v false hdir hv rfl

/-- **`bid128_to_int32_xint`** (truncation, inexact signalled) -/
theorem to_int32_xint_spec (x : U128) (f : UInt32) : bid128_to_int32_xint x f = specOut .rtz true x f := by
  rw [xint_unfold]
  exact skelTFC_spec P_int .rtz true f _ _ _ (by decide) posExpK_ok
    (small_ix .rtz f (fun _ => 0) (by decide) (by intro xs s _; cases s <;> rfl))
    (remG_spec adjT adjTD G_xint .rtz true f adjT_ok (by decide)) x

-- 2.5, −2.5, 2147483647.5, −2147483648.5, −0.3, 123·10^7 (out of range), a NaN
example : bid128_to_int32_xint ⟨0x19, 0x303e000000000000⟩ 0 = .ok (2, 0x20) := by rfl
example : bid128_to_int32_xint ⟨0x19, 0xb03e000000000000⟩ 0 = .ok (-2, 0x20) := by rfl
example : bid128_to_int32_xint ⟨0x4fffffffb, 0x303e000000000000⟩ 0 = .ok (2147483647, 0x20) := by rfl
example : bid128_to_int32_xint ⟨0x500000005, 0xb03e000000000000⟩ 0 = .ok (-2147483648, 0x20) := by rfl
example : bid128_to_int32_xint ⟨0x3, 0xb03e000000000000⟩ 0 = .ok (0, 0x20) := by rfl
example : bid128_to_int32_xint ⟨0x7b, 0x304e000000000000⟩ 0 = .ok (1230000000, 0x0) := by rfl
example : bid128_to_int32_xint ⟨7, 0x7c00000000000000⟩ 0x20 = .ok (-2147483648, 0x21) := by rfl

/-- **`bid128_to_int32_floor`** (rounding toward −∞, no inexact) -/
theorem to_int32_floor_spec (x : U128) (f : UInt32) : bid128_to_int32_floor x f = specOut .rdn false x f := by
  rw [floor_unfold]
  exact skelTFC_spec P_floor .rdn false f _ _ _ (by decide) posExpK_ok
    (small_nx .rdn f (fun xs => if (xs != (0 : UInt64)) then 0xffffffff else 0) (by decide)
      (by intro xs s hs; rw [hs]; cases s <;> rfl))
    (remG_spec adjF adjFD G_floor .rdn false f adjF_ok (by decide)) x

-- 2.5, −2.5, 2147483647.5, −2147483648.5, −0.3, 123·10^7 (out of range), a NaN
example : bid128_to_int32_floor ⟨0x19, 0x303e000000000000⟩ 0 = .ok (2, 0x0) := by rfl
example : bid128_to_int32_floor ⟨0x19, 0xb03e000000000000⟩ 0 = .ok (-3, 0x0) := by rfl
example : bid128_to_int32_floor ⟨0x4fffffffb, 0x303e000000000000⟩ 0 = .ok (2147483647, 0x0) := by rfl
example : bid128_to_int32_floor ⟨0x500000005, 0xb03e000000000000⟩ 0 = .ok (-2147483648, 0x1) := by rfl
example : bid128_to_int32_floor ⟨0x3, 0xb03e000000000000⟩ 0 = .ok (-1, 0x0) := by rfl
example : bid128_to_int32_floor ⟨0x7b, 0x304e000000000000⟩ 0 = .ok (1230000000, 0x0) := by rfl
example : bid128_to_int32_floor ⟨7, 0x7c00000000000000⟩ 0x20 = .ok (-2147483648, 0x21) := by rfl

/-- **`bid128_to_int32_xfloor`** (rounding toward −∞, inexact signalled) -/
theorem to_int32_xfloor_spec (x : U128) (f : UInt32) : bid128_to_int32_xfloor x f = specOut .rdn true x f := by
  rw [xfloor_unfold]
  exact skelTFC_spec P_floor .rdn true f _ _ _ (by decide) posExpK_ok
    (small_ix .rdn f (fun xs => if (xs != (0 : UInt64)) then 0xffffffff else 0) (by decide)
      (by intro xs s hs; rw [hs]; cases s <;> rfl))
    (remG_spec adjF adjFD G_xfloor .rdn true f adjF_ok (by decide)) x

-- 2.5, −2.5, 2147483647.5, −2147483648.5, −0.3, 123·10^7 (out of range), a NaN
example : bid128_to_int32_xfloor ⟨0x19, 0x303e000000000000⟩ 0 = .ok (2, 0x20) := by rfl
example : bid128_to_int32_xfloor ⟨0x19, 0xb03e000000000000⟩ 0 = .ok (-3, 0x20) := by rfl
example : bid128_to_int32_xfloor ⟨0x4fffffffb, 0x303e000000000000⟩ 0 = .ok (2147483647, 0x20) := by rfl
example : bid128_to_int32_xfloor ⟨0x500000005, 0xb03e000000000000⟩ 0 = .ok (-2147483648, 0x1) := by rfl
example : bid128_to_int32_xfloor ⟨0x3, 0xb03e000000000000⟩ 0 = .ok (-1, 0x20) := by rfl
example : bid128_to_int32_xfloor ⟨0x7b, 0x304e000000000000⟩ 0 = .ok (1230000000, 0x0) := by rfl
example : bid128_to_int32_xfloor ⟨7, 0x7c00000000000000⟩ 0x20 = .ok (-2147483648, 0x21) := by rfl

/-- **`bid128_to_int32_ceil`** (rounding toward +∞, no inexact) -/
theorem to_int32_ceil_spec (x : U128) (f : UInt32) : bid128_to_int32_ceil x f = specOut .rup false x f := by
  rw [ceil_unfold]
  exact skelTFC_spec P_ceil .rup false f _ _ _ (by decide) posExpK_ok
    (small_nx .rup f (fun xs => if (xs != (0 : UInt64)) then 0 else 1) (by decide)
      (by intro xs s hs; rw [hs]; cases s <;> rfl))
    (remG_spec adjC adjCD G_floor .rup false f adjC_ok (by decide)) x

-- 2.5, −2.5, 2147483647.5, −2147483648.5, −0.3, 123·10^7 (out of range), a NaN
example : bid128_to_int32_ceil ⟨0x19, 0x303e000000000000⟩ 0 = .ok (3, 0x0) := by rfl
example : bid128_to_int32_ceil ⟨0x19, 0xb03e000000000000⟩ 0 = .ok (-2, 0x0) := by rfl
example : bid128_to_int32_ceil ⟨0x4fffffffb, 0x303e000000000000⟩ 0 = .ok (-2147483648, 0x1) := by rfl
example : bid128_to_int32_ceil ⟨0x500000005, 0xb03e000000000000⟩ 0 = .ok (-2147483648, 0x0) := by rfl
example : bid128_to_int32_ceil ⟨0x3, 0xb03e000000000000⟩ 0 = .ok (0, 0x0) := by rfl
example : bid128_to_int32_ceil ⟨0x7b, 0x304e000000000000⟩ 0 = .ok (1230000000, 0x0) := by rfl
example : bid128_to_int32_ceil ⟨7, 0x7c00000000000000⟩ 0x20 = .ok (-2147483648, 0x21) := by rfl

/-- **`bid128_to_int32_xceil`** (rounding toward +∞, inexact signalled) -/
theorem to_int32_xceil_spec (x : U128) (f : UInt32) : bid128_to_int32_xceil x f = specOut .rup true x f := by
  rw [xceil_unfold]
  exact skelTFC_spec P_ceil .rup true f _ _ _ (by decide) posExpK'_ok
    (small_ix .rup f (fun xs => if (xs != (0 : UInt64)) then 0 else 1) (by decide)
      (by intro xs s hs; rw [hs]; cases s <;> rfl))
    (remG_spec adjC adjCD G_xfloor .rup true f adjC_ok (by decide)) x

-- 2.5, −2.5, 2147483647.5, −2147483648.5, −0.3, 123·10^7 (out of range), a NaN
example : bid128_to_int32_xceil ⟨0x19, 0x303e000000000000⟩ 0 = .ok (3, 0x20) := by rfl
example : bid128_to_int32_xceil ⟨0x19, 0xb03e000000000000⟩ 0 = .ok (-2, 0x20) := by rfl
example : bid128_to_int32_xceil ⟨0x4fffffffb, 0x303e000000000000⟩ 0 = .ok (-2147483648, 0x1) := by rfl
example : bid128_to_int32_xceil ⟨0x500000005, 0xb03e000000000000⟩ 0 = .ok (-2147483648, 0x20) := by rfl
example : bid128_to_int32_xceil ⟨0x3, 0xb03e000000000000⟩ 0 = .ok (0, 0x20) := by rfl
example : bid128_to_int32_xceil ⟨0x7b, 0x304e000000000000⟩ 0 = .ok (1230000000, 0x0) := by rfl
example : bid128_to_int32_xceil ⟨7, 0x7c00000000000000⟩ 0x20 = .ok (-2147483648, 0x21) := by rfl


end Dec.C06GenToInt
