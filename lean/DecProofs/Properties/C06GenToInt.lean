/-
  C06GenToInt — the decimal → 32-bit integer conversions of bid128_to_int32.rs as translated in `DecGen/Code.lean`.
  (work in progress: header completed at the end)
-/
import DecGen.Code
import DecModel.Misc
import DecModel.Ops
import DecProofs.Properties.C03GenCompare
import DecProofs.Properties.C13GenNoncomp
import DecProofs.Properties.C02RoundHelpers
import DecProofs.TableFacts.Mechanisms

set_option linter.unusedSimpArgs false
set_option linter.unusedVariables false

namespace Dec.C06GenToInt
open Dec.Rs Dec.Gen.Code

/-! ### the blocks of the case analysis, in continuation-passing style (each is the text of the Rust routine) -/

/-- the digit count of a non-zero coefficient `C1 < 2^113`: bit length through the exponent field of an `f64`, then the
`BID_NR_DIGITS` table -/
def nrDigitsK {α : Type} (C1 : U128) (k : Int32 → Except String α) : Except String α := do
  let mut tmp1 : F64U := default
  let mut x_nr_bits : UInt32 := default
  let mut q : Int32 := default
  if (C1.w1 == (0 : UInt64)) then
    if (decide (C1.w0 ≥ (0x20000000000000 : UInt64))) then
      tmp1 := (F64U.ofU64 (UInt64.ofInt (toI ((C1.w0 >>> 0x20)))))
      x_nr_bits := ((0x21 : UInt32) + ((((((UInt32.ofInt (toI ((tmp1.bits >>> 0x34))))) &&& (0x7ff : UInt32))) - (0x3ff : UInt32))))
    else
      tmp1 := (F64U.ofU64 (UInt64.ofInt (toI C1.w0)))
      x_nr_bits := ((1 : UInt32) + ((((((UInt32.ofInt (toI ((tmp1.bits >>> 0x34))))) &&& (0x7ff : UInt32))) - (0x3ff : UInt32))))
  else
    tmp1 := (F64U.ofU64 (UInt64.ofInt (toI C1.w1)))
    x_nr_bits := ((0x41 : UInt32) + ((((((UInt32.ofInt (toI ((tmp1.bits >>> 0x34))))) &&& (0x7ff : UInt32))) - (0x3ff : UInt32))))
  q := (Int32.ofInt (toI ((← tblDD Dec.Gen.BID_NR_DIGITS (UInt64.ofInt (toI ((x_nr_bits - (1 : UInt32)))))).digits)))
  if (q == (0 : Int32)) then
    q := (Int32.ofInt (toI ((← tblDD Dec.Gen.BID_NR_DIGITS (UInt64.ofInt (toI ((x_nr_bits - (1 : UInt32)))))).digits1)))
    if (← (if (decide (C1.w1 > (← tblDD Dec.Gen.BID_NR_DIGITS (UInt64.ofInt (toI ((x_nr_bits - (1 : UInt32)))))).threshold_hi)) then pure true else (do pure ((← (if (C1.w1 == (← tblDD Dec.Gen.BID_NR_DIGITS (UInt64.ofInt (toI ((x_nr_bits - (1 : UInt32)))))).threshold_hi) then (do pure (decide (C1.w0 ≥ (← tblDD Dec.Gen.BID_NR_DIGITS (UInt64.ofInt (toI ((x_nr_bits - (1 : UInt32)))))).threshold_lo))) else pure false)))))) then
      q := (q + 1)
  k q

/-- front end of the conversions: NaN / infinity → invalid and `inv`; zero / non-canonical → `zero`; otherwise continue with the
sign word, the coefficient, its digit count and the unbiased exponent -/
def frontK {α : Type} (x : U128) (inv zero : Except String α)
    (k : UInt64 → U128 → Int32 → Int32 → Except String α) : Except String α :=
  if (((x.w1 &&& c_MASK_SPECIAL)) == c_MASK_SPECIAL) then inv
  else if ((((decide ((x.w1 &&& c_MASK_COEFF) > (0x1ed09bead87c0 : UInt64)))) || ((((x.w1 &&& c_MASK_COEFF) == (0x1ed09bead87c0 : UInt64)) && ((decide (x.w0 > (0x378d8e63ffffffff : UInt64))))))) || ((((x.w1 &&& (0x6000000000000000 : UInt64))) == (0x6000000000000000 : UInt64)))) then zero
  else if ((((x.w1 &&& c_MASK_COEFF) == (0 : UInt64))) && ((x.w0 == (0 : UInt64)))) then zero
  else nrDigitsK ⟨x.w0, x.w1 &&& c_MASK_COEFF⟩ (fun q =>
    k (x.w1 &&& c_MASK_SIGN) ⟨x.w0, x.w1 &&& c_MASK_COEFF⟩ q (Int32.ofInt (toI (((((x.w1 &&& c_MASK_EXP) >>> 0x31)) - (0x1820 : UInt64))))))


/-- the constants and comparison of a copy's range test at `q + exp = 10`: negative side `cN`, strict (`>`) iff `sN`;
positive side `cP`, `sP` -/
structure RangeP where
  cN : UInt64
  sN : Bool
  cP : UInt64
  sP : Bool

def cmp64 (s : Bool) (a b : UInt64) : Bool := if s then decide (a > b) else decide (a ≥ b)
def cmp128 (s : Bool) (A B : U128) : Bool :=
  (decide (A.w1 > B.w1)) || (((A.w1 == B.w1) && (if s then decide (A.w0 > B.w0) else decide (A.w0 ≥ B.w0))))

/-- `c · 10^(q − 11)` as the code computes it -/
def scaleC (tmp64 : UInt64) (q : Int32) : Except String U128 :=
  (if (decide ((q - (0xb : Int32)) ≤ (0x13 : Int32))) then (do pure (← mul_64x64_to_128MACH tmp64 (← tbl64 Dec.Gen.BID_TEN2K64 (UInt64.ofInt (toI ((q - (0xb : Int32)))))))) else (do pure (← mul_128x64_to_128 tmp64 (← tbl128 Dec.Gen.BID_TEN2K128 (UInt64.ofInt (toI ((q - (0x1f : Int32)))))))))

/-- range test: more than 10 integer digits → `inv`; exactly 10 → compare `10·|x|` with the copy's constant -/
def rangeK {α : Type} (P : RangeP) (x_sign : UInt64) (C1 : U128) (q exp : Int32) (inv : Except String α)
    (k : Except String α) : Except String α :=
  if decide (q + exp > (0xa : Int32)) then inv
  else if (q + exp == (0xa : Int32)) then
    if (x_sign != (0 : UInt64)) then
      if (decide (q ≤ (0xb : Int32))) then do
        let tmp64 := (C1.w0 * (← tbl64 Dec.Gen.BID_TEN2K64 (UInt64.ofInt (toI (((0xb : Int32) - q))))))
        if cmp64 P.sN tmp64 P.cN then inv else k
      else do
        let C ← scaleC P.cN q
        if cmp128 P.sN C1 C then inv else k
    else
      if (decide (q ≤ (0xb : Int32))) then do
        let tmp64 := (C1.w0 * (← tbl64 Dec.Gen.BID_TEN2K64 (UInt64.ofInt (toI (((0xb : Int32) - q))))))
        if cmp64 P.sP tmp64 P.cP then inv else k
      else do
        let C ← scaleC P.cP q
        if cmp128 P.sP C1 C then inv else k
  else k

/-- digit removal: add half a unit of the last kept place, multiply by the reciprocal of `10^ind`, split the product into
the quotient `Cstar` (already shifted) and the fraction `fstar` -/
def removeK {α : Type} (C1_ : U128) (ind : Int32) (k : U128 → U256 → Except String α) : Except String α := do
  let mut C1 : U128 := C1_
  let mut tmp64 : UInt64 := default
  let mut Cstar : U128 := default
  let mut fstar : U256 := default
  let mut P256 : U256 := default
  let mut shift : Int32 := default
  tmp64 := C1.w0
  if (decide (ind ≤ (0x13 : Int32))) then
    C1 := { C1 with w0 := (C1.w0 + (← tbl64 Dec.Gen.BID_MIDPOINT64 (UInt64.ofInt (toI ((ind - (1 : Int32))))))) }
  else
    C1 := { C1 with w0 := (C1.w0 + (← tbl128 Dec.Gen.BID_MIDPOINT128 (UInt64.ofInt (toI ((ind - (0x14 : Int32)))))).w0) }
    C1 := { C1 with w1 := (C1.w1 + (← tbl128 Dec.Gen.BID_MIDPOINT128 (UInt64.ofInt (toI ((ind - (0x14 : Int32)))))).w1) }
  if (decide (C1.w0 < tmp64)) then
    C1 := { C1 with w1 := (C1.w1 + 1) }
  P256 := (← mul_128x128_to_256 C1 (← tbl128 Dec.Gen.BID_TEN2MK128 (UInt64.ofInt (toI ((ind - (1 : Int32)))))))
  if (decide ((ind - (1 : Int32)) ≤ (0x15 : Int32))) then
    Cstar := { Cstar with w1 := P256.w3 }
    Cstar := { Cstar with w0 := P256.w2 }
    fstar := { fstar with w3 := (0 : UInt64) }
    fstar := { fstar with w2 := (P256.w2 &&& (← tbl64 Dec.Gen.BID_MASKHIGH128 (UInt64.ofInt (toI ((ind - (1 : Int32))))))) }
    fstar := { fstar with w1 := P256.w1 }
    fstar := { fstar with w0 := P256.w0 }
  else
    Cstar := { Cstar with w1 := (0 : UInt64) }
    Cstar := { Cstar with w0 := P256.w3 }
    fstar := { fstar with w3 := (P256.w3 &&& (← tbl64 Dec.Gen.BID_MASKHIGH128 (UInt64.ofInt (toI ((ind - (1 : Int32))))))) }
    fstar := { fstar with w2 := P256.w2 }
    fstar := { fstar with w1 := P256.w1 }
    fstar := { fstar with w0 := P256.w0 }
  shift := (← tblI32 Dec.Gen.BID_SHIFTRIGHT128 (UInt64.ofInt (toI ((ind - (1 : Int32))))))
  Cstar := { Cstar with w0 := (if (decide ((ind - (1 : Int32)) ≤ (0x15 : Int32))) then (((Cstar.w0 >>> (UInt64.ofInt (toI shift)))) ||| ((Cstar.w1 <<< (UInt64.ofInt (toI (((0x40 : Int32) - shift))))))) else (Cstar.w0 >>> (UInt64.ofInt (toI ((shift - (0x40 : Int32))))))) }
  k Cstar fstar

/-- classification of the fraction: `kA` when it is above ½ by more than the reciprocal error (discarded part below the
midpoint, inexact), `kB` when above ½ but within the error (discarded part zero), `kC` otherwise -/
def fracK {α : Type} (fstar : U256) (ind : Int32) (kA kB kC : Except String α) : Except String α := do
  if (decide ((ind - (1 : Int32)) ≤ (2 : Int32))) then
    if ((decide (fstar.w1 > (0x8000000000000000 : UInt64))) || (((fstar.w1 == (0x8000000000000000 : UInt64)) && (decide (fstar.w0 > (0 : UInt64)))))) then
      let tmp64 := (fstar.w1 - (0x8000000000000000 : UInt64))
      if (← (if (decide (tmp64 > (← tbl128 Dec.Gen.BID_TEN2MK128TRUNC (UInt64.ofInt (toI ((ind - (1 : Int32)))))).w1)) then pure true else (do pure ((← (if (tmp64 == (← tbl128 Dec.Gen.BID_TEN2MK128TRUNC (UInt64.ofInt (toI ((ind - (1 : Int32)))))).w1) then (do pure (decide (fstar.w0 ≥ (← tbl128 Dec.Gen.BID_TEN2MK128TRUNC (UInt64.ofInt (toI ((ind - (1 : Int32)))))).w0))) else pure false)))))) then
        kA
      else
        kB
    else
      kC
  else
    if (decide ((ind - (1 : Int32)) ≤ (0x15 : Int32))) then
      if (← (if (← (if (decide (fstar.w3 > (0 : UInt64))) then pure true else (do pure ((← (if (fstar.w3 == (0 : UInt64)) then (do pure (decide (fstar.w2 > (← tbl64 Dec.Gen.BID_ONEHALF128 (UInt64.ofInt (toI ((ind - (1 : Int32))))))))) else pure false)))))) then pure true else (do pure (((← (if (fstar.w3 == (0 : UInt64)) then (do pure (fstar.w2 == (← tbl64 Dec.Gen.BID_ONEHALF128 (UInt64.ofInt (toI ((ind - (1 : Int32)))))))) else pure false)) && (((fstar.w1 != (0 : UInt64)) || (fstar.w0 != (0 : UInt64))))))))) then
        let tmp64 := (fstar.w2 - (← tbl64 Dec.Gen.BID_ONEHALF128 (UInt64.ofInt (toI ((ind - (1 : Int32)))))))
        let mut tmp64A := fstar.w3
        if (decide (tmp64 > fstar.w2)) then
          tmp64A := (tmp64A - 1)
        if (← (if (← (if ((tmp64A != (0 : UInt64)) || (tmp64 != (0 : UInt64))) then pure true else (do pure (decide (fstar.w1 > (← tbl128 Dec.Gen.BID_TEN2MK128TRUNC (UInt64.ofInt (toI ((ind - (1 : Int32)))))).w1))))) then pure true else (do pure ((← (if (fstar.w1 == (← tbl128 Dec.Gen.BID_TEN2MK128TRUNC (UInt64.ofInt (toI ((ind - (1 : Int32)))))).w1) then (do pure (decide (fstar.w0 > (← tbl128 Dec.Gen.BID_TEN2MK128TRUNC (UInt64.ofInt (toI ((ind - (1 : Int32)))))).w0))) else pure false)))))) then
          kA
        else
          kB
      else
        kC
    else
      if (← (if (decide (fstar.w3 > (← tbl64 Dec.Gen.BID_ONEHALF128 (UInt64.ofInt (toI ((ind - (1 : Int32)))))))) then pure true else (do pure (((fstar.w3 == (← tbl64 Dec.Gen.BID_ONEHALF128 (UInt64.ofInt (toI ((ind - (1 : Int32))))))) && ((((fstar.w2 != (0 : UInt64)) || (fstar.w1 != (0 : UInt64))) || (fstar.w0 != (0 : UInt64))))))))) then
        let tmp64 := (fstar.w3 - (← tbl64 Dec.Gen.BID_ONEHALF128 (UInt64.ofInt (toI ((ind - (1 : Int32)))))))
        if (← (if (← (if ((tmp64 != (0 : UInt64)) || (fstar.w2 != (0 : UInt64))) then pure true else (do pure (decide (fstar.w1 > (← tbl128 Dec.Gen.BID_TEN2MK128TRUNC (UInt64.ofInt (toI ((ind - (1 : Int32)))))).w1))))) then pure true else (do pure ((← (if (fstar.w1 == (← tbl128 Dec.Gen.BID_TEN2MK128TRUNC (UInt64.ofInt (toI ((ind - (1 : Int32)))))).w1) then (do pure (decide (fstar.w0 > (← tbl128 Dec.Gen.BID_TEN2MK128TRUNC (UInt64.ofInt (toI ((ind - (1 : Int32)))))).w0))) else pure false)))))) then
          kA
        else
          kB
      else
        kC

/-- the midpoint test: the fraction is non-zero and within the reciprocal error -/
def midK {α : Type} (fstar : U256) (ind : Int32) (kMid kNot : Except String α) : Except String α := do
  if (← (if ((((fstar.w3 == (0 : UInt64))) && ((fstar.w2 == (0 : UInt64)))) && (((fstar.w1 != (0 : UInt64)) || (fstar.w0 != (0 : UInt64))))) then (do pure ((← (if (decide (fstar.w1 < (← tbl128 Dec.Gen.BID_TEN2MK128TRUNC (UInt64.ofInt (toI ((ind - (1 : Int32)))))).w1)) then pure true else (do pure ((← (if (fstar.w1 == (← tbl128 Dec.Gen.BID_TEN2MK128TRUNC (UInt64.ofInt (toI ((ind - (1 : Int32)))))).w1) then (do pure (decide (fstar.w0 ≤ (← tbl128 Dec.Gen.BID_TEN2MK128TRUNC (UInt64.ofInt (toI ((ind - (1 : Int32)))))).w0))) else pure false)))))))) else pure false)) then kMid else kNot

/-- the signed result -/
def resOf (x_sign : UInt64) (w : UInt64) : Int32 :=
  (Int32.ofInt (toI (if (x_sign != (0 : UInt64)) then (-((Int64.ofInt (toI w)))) else (Int64.ofInt (toI w)))))

/-- the result for a positive exponent: `±C · 10^exp` -/
def posExpK {α : Type} (x_sign : UInt64) (C1 : U128) (exp : Int32) (k : Int32 → Except String α) : Except String α := do
  let v ← (if (x_sign != (0 : UInt64)) then (do pure ((-((Int64.ofInt (toI C1.w0)))) * ((Int64.ofInt (toI (← tbl64 Dec.Gen.BID_TEN2K64 (UInt64.ofInt (toI exp)))))))) else (do pure (Int64.ofInt (toI ((C1.w0 * (← tbl64 Dec.Gen.BID_TEN2K64 (UInt64.ofInt (toI exp)))))))))
  k (Int32.ofInt (toI v))

def INV (f : UInt32) : Except String (Int32 × UInt32) := .ok ((0x80000000 : Int32), f ||| c_StatusFlags_BID_INVALID_EXCEPTION)

def fin32 (f : UInt32) (r : Int32) : Except String (Int32 × UInt32) := .ok (r, f)


/-! ### `bid128_to_int32_int` is the composition of the blocks -/

def skel_int (x : U128) (f : UInt32) : Except String (Int32 × UInt32) :=
  frontK x (INV f) (.ok (0, f)) (fun x_sign C1 q exp =>
    rangeK ⟨0x50000000a, false, 0x500000000, false⟩ x_sign C1 q exp (INV f)
      (if decide (q + exp ≤ (0 : Int32)) then .ok (0, f)
       else if decide (exp < (0 : Int32)) then
         removeK C1 (-exp) (fun Cstar fstar =>
           let tail := fun (g : Bool) =>
             midK fstar (-exp)
               (if (((Cstar.w0 &&& (1 : UInt64))) == (1 : UInt64)) then fin32 f (resOf x_sign (Cstar.w0 - 1))
                else fin32 f (resOf x_sign (Cstar.w0 - 1)))
               (if g then fin32 f (resOf x_sign (Cstar.w0 - 1)) else fin32 f (resOf x_sign Cstar.w0))
           fracK fstar (-exp) (tail false) (tail false) (tail true))
       else if (exp == (0 : Int32)) then fin32 f (resOf x_sign C1.w0)
       else posExpK x_sign C1 exp (fin32 f)))

set_option maxRecDepth 100000 in
theorem int_unfold (x : U128) (f : UInt32) : bid128_to_int32_int x f = skel_int x f := rfl

end Dec.C06GenToInt
