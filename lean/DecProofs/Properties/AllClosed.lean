/-
  AllClosed — the last named hypothesis of the development, discharged everywhere it was carried.

  `C01GenAddSpec.addRounding : AddRounding` (the rounding loop of `bid128_add`: both arms) closes the statements that were stated
  under `AddRounding` / `LoopRestRounding` while that proof was in progress: `fdim` on all operands, and the G-level statement of
  C15 for ALL 123 dispatched methods.  (Addition and subtraction themselves: `C01GenAddSpec.bid128_add_spec`, `bid128_sub_spec`,
  `api_addition`, `api_subtraction`, `addition_property`, `subtraction_property`.)  After this file no theorem of the development
  about the translated source carries a hypothesis about the source.
-/
import DecProofs.Properties.C01GenAddSpec
import DecProofs.Properties.SourceLevel3
import DecProofs.Properties.C15GenTotal2

namespace Dec.AllClosed
open Dec Dec.Rs Dec.Gen.Code Dec.Gen.Api
open Dec.C13GenPack (md)
open Dec.C01GenAddLoop (binSpec)

/-- `fdim` of the translated source, all operands, modes and status words: the NaN rule, else `fdimD` (x − y rounded once when
x > y, else +0) -/
theorem api_fdim (m : RoundingMode) (f : UInt32) (x y : U128) :
    run "fdim" m f [.d x, .d y] = some (.ok ([.d (binSpec (fdimD (md m)) x y f).1], (binSpec (fdimD (md m)) x y f).2)) :=
  Dec.SourceLevel3.fdim_of_AddRounding Dec.C01GenAddSpec.addRounding m f x y

/-- **C15 about the source, all 123 dispatched methods**: for every method of the regenerated dispatch `Api.run`, every argument
list of the method's shape (all bit patterns, every `Int`), every rounding mode and every status word, the translated source
returns `.ok` — no table index out of range, no exhausted loop, no failed cast, no `unwrap` of `None`. -/
theorem total_all : ∀ p ∈ Dec.C15GenTotal.allMethods, Dec.C15GenTotal.TotalAt p :=
  Dec.C15GenTotal.total_all' Dec.C01GenAddSpec.addRounding

end Dec.AllClosed
