/-
  C08GenRiNearest — `bid128_round_integral_nearest_even` and `bid128_round_integral_nearest_away` as translated in
  `DecGen/Code.lean` compute `toIntegralD .rne / .rna` of the decoded operand, for ALL 128-bit patterns and status words
  (`round_integral_nearest_even_spec`, `round_integral_nearest_away_spec`).
-/
import DecProofs.Properties.C08GenRiBase
import DecGen.T_BID_MIDPOINT64
import DecGen.T_BID_MIDPOINT128

set_option linter.unusedSimpArgs false
set_option linter.unusedVariables false

namespace Dec.C08GenRoundIntegral
open Dec.Rs Dec.Gen.Code Dec.C03GenCompare

/-! ## Round to nearest -/

/-- digit removal of `bid128_round_integral_nearest_away` (the translated block) -/
def awayMain (C1_ : U128) (x_sign : UInt64) (exp : Int32) (pfpsf_ : UInt32) : Except String (U128 × UInt32) := do
  let mut res : U128 := default
  let mut fstar : U256 := default
  let mut shift : Int32 := default
  let mut ind : Int32 := default
  let mut tmp64 : UInt64 := default
  let mut P256 : U256 := default
  let mut C1 : U128 := C1_
  let mut pfpsf : UInt32 := pfpsf_
  ind := (-exp)
  tmp64 := C1.w0
  if (decide (ind ≤ (0x13 : Int32))) then
    C1 := { C1 with w0 := (C1.w0 + (← tbl64 Dec.Gen.BID_MIDPOINT64 (UInt64.ofInt (toI ((ind - (1 : Int32))))))) }
  else
    C1 := { C1 with w0 := (C1.w0 + (← tbl128 Dec.Gen.BID_MIDPOINT128 (UInt64.ofInt (toI ((ind - (0x14 : Int32)))))).w0) }
    C1 := { C1 with w1 := (C1.w1 + (← tbl128 Dec.Gen.BID_MIDPOINT128 (UInt64.ofInt (toI ((ind - (0x14 : Int32)))))).w1) }
  if (decide (C1.w0 < tmp64)) then
    C1 := { C1 with w1 := (C1.w1 + 1) }
  P256 := (← mul_128x128_to_256 C1 (← tbl128 Dec.Gen.BID_TEN2MK128 (UInt64.ofInt (toI ((ind - (1 : Int32)))))))
  if (decide ((ind - (1 : Int32)) ≤ (2 : Int32))) then
    res := { res with w1 := P256.w3 }
    res := { res with w0 := P256.w2 }
  else
    if (decide ((ind - (1 : Int32)) ≤ (0x15 : Int32))) then
      shift := (← tblI32 Dec.Gen.BID_SHIFTRIGHT128 (UInt64.ofInt (toI ((ind - (1 : Int32))))))
      res := { res with w0 := (((P256.w3 <<< (UInt64.ofInt (toI (((0x40 : Int32) - shift)))))) ||| ((P256.w2 >>> (UInt64.ofInt (toI shift))))) }
      res := { res with w1 := (P256.w3 >>> (UInt64.ofInt (toI shift))) }
    else
      shift := (← tblI32 Dec.Gen.BID_SHIFTRIGHT128 (UInt64.ofInt (toI ((ind - (1 : Int32))))))
      res := { res with w1 := (0 : UInt64) }
      res := { res with w0 := (P256.w3 >>> (UInt64.ofInt (toI ((shift - (0x40 : Int32)))))) }
  res := { res with w1 := (res.w1 ||| (x_sign ||| (0x3040000000000000 : UInt64))) }
  return (res, pfpsf)

/-- digit removal of `bid128_round_integral_nearest_even` (the translated block) -/
def evenMain (C1_ : U128) (x_sign : UInt64) (exp : Int32) (pfpsf_ : UInt32) : Except String (U128 × UInt32) := do
  let mut res : U128 := default
  let mut fstar : U256 := default
  let mut shift : Int32 := default
  let mut ind : Int32 := default
  let mut tmp64 : UInt64 := default
  let mut P256 : U256 := default
  let mut C1 : U128 := C1_
  let mut pfpsf : UInt32 := pfpsf_
  ind := (-exp)
  tmp64 := C1.w0
  if (decide (ind ≤ (0x13 : Int32))) then
    C1 := { C1 with w0 := (C1.w0 + (← tbl64 Dec.Gen.BID_MIDPOINT64 (UInt64.ofInt (toI ((ind - (1 : Int32))))))) }
  else
    C1 := { C1 with w0 := (C1.w0 + (← tbl128 Dec.Gen.BID_MIDPOINT128 (UInt64.ofInt (toI ((ind - (0x14 : Int32)))))).w0) }
    C1 := { C1 with w1 := (C1.w1 + (← tbl128 Dec.Gen.BID_MIDPOINT128 (UInt64.ofInt (toI ((ind - (0x14 : Int32)))))).w1) }
  if (decide (C1.w0 < tmp64)) then
    C1 := { C1 with w1 := (C1.w1 + 1) }
  P256 := (← mul_128x128_to_256 C1 (← tbl128 Dec.Gen.BID_TEN2MK128 (UInt64.ofInt (toI ((ind - (1 : Int32)))))))
  if (decide ((ind - (1 : Int32)) ≤ (2 : Int32))) then
    res := { res with w1 := P256.w3 }
    res := { res with w0 := P256.w2 }
    if (← (if (((res.w0 &&& (1 : UInt64))) == (1 : UInt64)) then (do pure ((← (if ((decide (P256.w1 < ((← tbl128 Dec.Gen.BID_TEN2MK128 (UInt64.ofInt (toI ((ind - (1 : Int32)))))).w1)))) then pure true else (do pure ((← (if ((P256.w1 == (← tbl128 Dec.Gen.BID_TEN2MK128 (UInt64.ofInt (toI ((ind - (1 : Int32)))))).w1)) then (do pure ((decide (P256.w0 < (← tbl128 Dec.Gen.BID_TEN2MK128 (UInt64.ofInt (toI ((ind - (1 : Int32)))))).w0)))) else pure false)))))))) else pure false)) then
      res := { res with w0 := (res.w0 - 1) }
  else
    if (decide ((ind - (1 : Int32)) ≤ (0x15 : Int32))) then
      shift := (← tblI32 Dec.Gen.BID_SHIFTRIGHT128 (UInt64.ofInt (toI ((ind - (1 : Int32))))))
      res := { res with w1 := (P256.w3 >>> (UInt64.ofInt (toI shift))) }
      res := { res with w0 := (((P256.w3 <<< (UInt64.ofInt (toI (((0x40 : Int32) - shift)))))) ||| ((P256.w2 >>> (UInt64.ofInt (toI shift))))) }
      fstar := { fstar with w2 := (P256.w2 &&& (← tbl64 Dec.Gen.BID_MASKHIGH128 (UInt64.ofInt (toI ((ind - (1 : Int32))))))) }
      fstar := { fstar with w1 := P256.w1 }
      fstar := { fstar with w0 := P256.w0 }
      if (← (if ((((res.w0 &&& (1 : UInt64))) == (1 : UInt64)) && (fstar.w2 == (0 : UInt64))) then (do pure ((← (if (decide (fstar.w1 < (← tbl128 Dec.Gen.BID_TEN2MK128 (UInt64.ofInt (toI ((ind - (1 : Int32)))))).w1)) then pure true else (do pure ((← (if (fstar.w1 == (← tbl128 Dec.Gen.BID_TEN2MK128 (UInt64.ofInt (toI ((ind - (1 : Int32)))))).w1) then (do pure (decide (fstar.w0 < (← tbl128 Dec.Gen.BID_TEN2MK128 (UInt64.ofInt (toI ((ind - (1 : Int32)))))).w0))) else pure false)))))))) else pure false)) then
        res := { res with w0 := (res.w0 - 1) }
    else
      shift := ((← tblI32 Dec.Gen.BID_SHIFTRIGHT128 (UInt64.ofInt (toI ((ind - (1 : Int32)))))) - (0x40 : Int32))
      res := { res with w1 := (0 : UInt64) }
      res := { res with w0 := (P256.w3 >>> (UInt64.ofInt (toI shift))) }
      fstar := { fstar with w3 := (P256.w3 &&& (← tbl64 Dec.Gen.BID_MASKHIGH128 (UInt64.ofInt (toI ((ind - (1 : Int32))))))) }
      fstar := { fstar with w2 := P256.w2 }
      fstar := { fstar with w1 := P256.w1 }
      fstar := { fstar with w0 := P256.w0 }
      if (← (if (((((res.w0 &&& (1 : UInt64))) == (1 : UInt64)) && (fstar.w3 == (0 : UInt64))) && (fstar.w2 == (0 : UInt64))) then (do pure ((← (if (decide (fstar.w1 < (← tbl128 Dec.Gen.BID_TEN2MK128 (UInt64.ofInt (toI ((ind - (1 : Int32)))))).w1)) then pure true else (do pure ((← (if (fstar.w1 == (← tbl128 Dec.Gen.BID_TEN2MK128 (UInt64.ofInt (toI ((ind - (1 : Int32)))))).w1) then (do pure (decide (fstar.w0 < (← tbl128 Dec.Gen.BID_TEN2MK128 (UInt64.ofInt (toI ((ind - (1 : Int32)))))).w0))) else pure false)))))))) else pure false)) then
        res := { res with w0 := (res.w0 - 1) }
  res := { res with w1 := (res.w1 ||| (x_sign ||| (0x3040000000000000 : UInt64))) }
  return (res, pfpsf)

/-- the addition of the midpoint `5·10^(x−1)` to the coefficient (the translated block; the same in every nearest variant) -/
def addMid (C1_ : U128) (exp : Int32) : Except String U128 := do
  let mut C1 : U128 := C1_
  let mut tmp64 : UInt64 := default
  let mut ind : Int32 := default
  ind := (-exp)
  tmp64 := C1.w0
  if (decide (ind ≤ (0x13 : Int32))) then
    C1 := { C1 with w0 := (C1.w0 + (← tbl64 Dec.Gen.BID_MIDPOINT64 (UInt64.ofInt (toI ((ind - (1 : Int32))))))) }
  else
    C1 := { C1 with w0 := (C1.w0 + (← tbl128 Dec.Gen.BID_MIDPOINT128 (UInt64.ofInt (toI ((ind - (0x14 : Int32)))))).w0) }
    C1 := { C1 with w1 := (C1.w1 + (← tbl128 Dec.Gen.BID_MIDPOINT128 (UInt64.ofInt (toI ((ind - (0x14 : Int32)))))).w1) }
  if (decide (C1.w0 < tmp64)) then
    C1 := { C1 with w1 := (C1.w1 + 1) }
  return C1

/-- `bid128_round_integral_nearest_away` after the midpoint has been added (the translated block) -/
def awayTail (C1_ : U128) (x_sign : UInt64) (exp : Int32) (pfpsf_ : UInt32) : Except String (U128 × UInt32) := do
  let mut res : U128 := default
  let mut fstar : U256 := default
  let mut shift : Int32 := default
  let mut ind : Int32 := default
  let mut tmp64 : UInt64 := default
  let mut P256 : U256 := default
  let mut C1 : U128 := C1_
  let mut pfpsf : UInt32 := pfpsf_
  ind := (-exp)
  P256 := (← mul_128x128_to_256 C1 (← tbl128 Dec.Gen.BID_TEN2MK128 (UInt64.ofInt (toI ((ind - (1 : Int32)))))))
  if (decide ((ind - (1 : Int32)) ≤ (2 : Int32))) then
    res := { res with w1 := P256.w3 }
    res := { res with w0 := P256.w2 }
  else
    if (decide ((ind - (1 : Int32)) ≤ (0x15 : Int32))) then
      shift := (← tblI32 Dec.Gen.BID_SHIFTRIGHT128 (UInt64.ofInt (toI ((ind - (1 : Int32))))))
      res := { res with w0 := (((P256.w3 <<< (UInt64.ofInt (toI (((0x40 : Int32) - shift)))))) ||| ((P256.w2 >>> (UInt64.ofInt (toI shift))))) }
      res := { res with w1 := (P256.w3 >>> (UInt64.ofInt (toI shift))) }
    else
      shift := (← tblI32 Dec.Gen.BID_SHIFTRIGHT128 (UInt64.ofInt (toI ((ind - (1 : Int32))))))
      res := { res with w1 := (0 : UInt64) }
      res := { res with w0 := (P256.w3 >>> (UInt64.ofInt (toI ((shift - (0x40 : Int32)))))) }
  res := { res with w1 := (res.w1 ||| (x_sign ||| (0x3040000000000000 : UInt64))) }
  return (res, pfpsf)

/-- `bid128_round_integral_nearest_even` after the midpoint has been added (the translated block) -/
def evenTail (C1_ : U128) (x_sign : UInt64) (exp : Int32) (pfpsf_ : UInt32) : Except String (U128 × UInt32) := do
  let mut res : U128 := default
  let mut fstar : U256 := default
  let mut shift : Int32 := default
  let mut ind : Int32 := default
  let mut tmp64 : UInt64 := default
  let mut P256 : U256 := default
  let mut C1 : U128 := C1_
  let mut pfpsf : UInt32 := pfpsf_
  ind := (-exp)
  P256 := (← mul_128x128_to_256 C1 (← tbl128 Dec.Gen.BID_TEN2MK128 (UInt64.ofInt (toI ((ind - (1 : Int32)))))))
  if (decide ((ind - (1 : Int32)) ≤ (2 : Int32))) then
    res := { res with w1 := P256.w3 }
    res := { res with w0 := P256.w2 }
    if (← (if (((res.w0 &&& (1 : UInt64))) == (1 : UInt64)) then (do pure ((← (if ((decide (P256.w1 < ((← tbl128 Dec.Gen.BID_TEN2MK128 (UInt64.ofInt (toI ((ind - (1 : Int32)))))).w1)))) then pure true else (do pure ((← (if ((P256.w1 == (← tbl128 Dec.Gen.BID_TEN2MK128 (UInt64.ofInt (toI ((ind - (1 : Int32)))))).w1)) then (do pure ((decide (P256.w0 < (← tbl128 Dec.Gen.BID_TEN2MK128 (UInt64.ofInt (toI ((ind - (1 : Int32)))))).w0)))) else pure false)))))))) else pure false)) then
      res := { res with w0 := (res.w0 - 1) }
  else
    if (decide ((ind - (1 : Int32)) ≤ (0x15 : Int32))) then
      shift := (← tblI32 Dec.Gen.BID_SHIFTRIGHT128 (UInt64.ofInt (toI ((ind - (1 : Int32))))))
      res := { res with w1 := (P256.w3 >>> (UInt64.ofInt (toI shift))) }
      res := { res with w0 := (((P256.w3 <<< (UInt64.ofInt (toI (((0x40 : Int32) - shift)))))) ||| ((P256.w2 >>> (UInt64.ofInt (toI shift))))) }
      fstar := { fstar with w2 := (P256.w2 &&& (← tbl64 Dec.Gen.BID_MASKHIGH128 (UInt64.ofInt (toI ((ind - (1 : Int32))))))) }
      fstar := { fstar with w1 := P256.w1 }
      fstar := { fstar with w0 := P256.w0 }
      if (← (if ((((res.w0 &&& (1 : UInt64))) == (1 : UInt64)) && (fstar.w2 == (0 : UInt64))) then (do pure ((← (if (decide (fstar.w1 < (← tbl128 Dec.Gen.BID_TEN2MK128 (UInt64.ofInt (toI ((ind - (1 : Int32)))))).w1)) then pure true else (do pure ((← (if (fstar.w1 == (← tbl128 Dec.Gen.BID_TEN2MK128 (UInt64.ofInt (toI ((ind - (1 : Int32)))))).w1) then (do pure (decide (fstar.w0 < (← tbl128 Dec.Gen.BID_TEN2MK128 (UInt64.ofInt (toI ((ind - (1 : Int32)))))).w0))) else pure false)))))))) else pure false)) then
        res := { res with w0 := (res.w0 - 1) }
    else
      shift := ((← tblI32 Dec.Gen.BID_SHIFTRIGHT128 (UInt64.ofInt (toI ((ind - (1 : Int32)))))) - (0x40 : Int32))
      res := { res with w1 := (0 : UInt64) }
      res := { res with w0 := (P256.w3 >>> (UInt64.ofInt (toI shift))) }
      fstar := { fstar with w3 := (P256.w3 &&& (← tbl64 Dec.Gen.BID_MASKHIGH128 (UInt64.ofInt (toI ((ind - (1 : Int32))))))) }
      fstar := { fstar with w2 := P256.w2 }
      fstar := { fstar with w1 := P256.w1 }
      fstar := { fstar with w0 := P256.w0 }
      if (← (if (((((res.w0 &&& (1 : UInt64))) == (1 : UInt64)) && (fstar.w3 == (0 : UInt64))) && (fstar.w2 == (0 : UInt64))) then (do pure ((← (if (decide (fstar.w1 < (← tbl128 Dec.Gen.BID_TEN2MK128 (UInt64.ofInt (toI ((ind - (1 : Int32)))))).w1)) then pure true else (do pure ((← (if (fstar.w1 == (← tbl128 Dec.Gen.BID_TEN2MK128 (UInt64.ofInt (toI ((ind - (1 : Int32)))))).w1) then (do pure (decide (fstar.w0 < (← tbl128 Dec.Gen.BID_TEN2MK128 (UInt64.ofInt (toI ((ind - (1 : Int32)))))).w0))) else pure false)))))))) else pure false)) then
        res := { res with w0 := (res.w0 - 1) }
  res := { res with w1 := (res.w1 ||| (x_sign ||| (0x3040000000000000 : UInt64))) }
  return (res, pfpsf)

def rnaFin (x : U128) (f : UInt32) (s e : UInt64) (C : U128) : Except String (U128 × UInt32) :=
  if decide (e ≤ 0x2ffa000000000000) = true then .ok (⟨0, s ||| 0x3040000000000000⟩, f)
  else
    withQ C fun q =>
      if decide (expOf e ≥ 0) = true then .ok (⟨x.w0, x.w1⟩, f)
      else if decide (q + expOf e ≥ 0) = true then awayMain C s (expOf e) f
      else .ok (⟨0, s ||| 0x3040000000000000⟩, f)

def rneFin (x : U128) (f : UInt32) (s e : UInt64) (C : U128) : Except String (U128 × UInt32) :=
  if decide (e ≤ 0x2ffa000000000000) = true then .ok (⟨0, s ||| 0x3040000000000000⟩, f)
  else
    withQ C fun q =>
      if decide (expOf e ≥ 0) = true then .ok (⟨x.w0, x.w1⟩, f)
      else if decide (q + expOf e ≥ 0) = true then evenMain C s (expOf e) f
      else .ok (⟨0, s ||| 0x3040000000000000⟩, f)

theorem rna_unfold (x : U128) (f : UInt32) :
    bid128_round_integral_nearest_away x f = frontEnd x f (rnaFin x f) := by
  simp only [bid128_round_integral_nearest_away, frontEnd, rnaFin, awayMain, specialRes, zeroRes, withQ, expOf, bind, Except.bind,
    pure, Except.pure, beq_self_eq_true, Bool.and_self, if_true]

theorem rne_unfold (x : U128) (f : UInt32) :
    bid128_round_integral_nearest_even x f = frontEnd x f (rneFin x f) := by
  simp only [bid128_round_integral_nearest_even, frontEnd, rneFin, evenMain, specialRes, zeroRes, withQ, expOf, bind, Except.bind,
    pure, Except.pure, beq_self_eq_true, Bool.and_self, if_true]

/-- splitting a nearest variant into the midpoint addition and the rest: the two table cases and the carry -/
syntax "ri_mid " term:max term:max " [" ident,* "]" : tactic
macro_rules
  | `(tactic| ri_mid $C $exp [$defs,*]) => `(tactic|
    (simp only [$[$defs:ident],*, addMid, bind, pure, Except.pure, Except.bind]
     by_cases c19 : decide (-$exp ≤ 19) = true
     · simp only [c19, if_true]
       generalize tbl64 Dec.Gen.BID_MIDPOINT64 _ = M
       cases M with
       | error e => rfl
       | ok m =>
         simp only []
         by_cases hcar : decide (($C).w0 + m < ($C).w0) = true
         · simp only [hcar, if_true]
         · simp only [hcar, if_false, Bool.false_eq_true]
     · simp only [c19, if_false, Bool.false_eq_true]
       generalize tbl128 Dec.Gen.BID_MIDPOINT128 _ = M
       cases M with
       | error e => rfl
       | ok m =>
         simp only []
         by_cases hcar : decide (($C).w0 + m.w0 < ($C).w0) = true
         · simp only [hcar, if_true]
         · simp only [hcar, if_false, Bool.false_eq_true]))

theorem awayMain_eq (C : U128) (S : UInt64) (exp : Int32) (f : UInt32) :
    awayMain C S exp f = (addMid C exp).bind fun C' => awayTail C' S exp f := by
  ri_mid C exp [awayMain, awayTail]

theorem evenMain_eq (C : U128) (S : UInt64) (exp : Int32) (f : UInt32) :
    evenMain C S exp f = (addMid C exp).bind fun C' => evenTail C' S exp f := by
  ri_mid C exp [evenMain, evenTail]


/-! ### the midpoint tables -/

theorem mid64_length : Dec.Gen.BID_MIDPOINT64.length = 19 := by decide
theorem mid128_length : Dec.Gen.BID_MIDPOINT128.length = 38 := by decide

theorem mid_rows : (List.range 19).all (fun i =>
    decide (Dec.Gen.BID_MIDPOINT64.getD i 0 = 5 * 10 ^ i) &&
    decide (Dec.Gen.BID_MIDPOINT128.getD (i * 2 + 1) 0 * 2 ^ 64 + Dec.Gen.BID_MIDPOINT128.getD (i * 2 + 0) 0 = 5 * 10 ^ (i + 19)) &&
    decide (Dec.Gen.BID_MIDPOINT128.getD (i * 2 + 0) 0 < 2 ^ 64) && decide (Dec.Gen.BID_MIDPOINT128.getD (i * 2 + 1) 0 < 2 ^ 64)) = true := by
  decide +kernel

theorem tbl64_mid (k : UInt64) (i : Nat) (hk : k.toNat = i) (hi : i < 19) :
    ∃ m, tbl64 Dec.Gen.BID_MIDPOINT64 k = .ok m ∧ m.toNat = 5 * 10 ^ i := by
  have h := List.all_eq_true.1 mid_rows i (List.mem_range.2 hi)
  simp only [Bool.and_eq_true, decide_eq_true_eq] at h
  unfold tbl64
  rw [hk, getElem?_getD _ _ (by rw [mid64_length]; exact hi)]
  refine ⟨_, rfl, ?_⟩
  rw [UInt64.toNat_ofNat', h.1.1.1]
  have : 10 ^ i ≤ 10 ^ 18 := Nat.pow_le_pow_right (by decide) (by omega)
  omega

theorem tbl128_mid (k : UInt64) (i : Nat) (hk : k.toNat = i) (hi : i < 19) :
    ∃ m, tbl128 Dec.Gen.BID_MIDPOINT128 k = .ok m ∧ val128 m = 5 * 10 ^ (i + 19) := by
  have h := List.all_eq_true.1 mid_rows i (List.mem_range.2 hi)
  simp only [Bool.and_eq_true, decide_eq_true_eq] at h
  obtain ⟨⟨⟨_, h2⟩, h3⟩, h4⟩ := h
  unfold tbl128
  rw [hk, Nat.mul_comm 2 i, ← Nat.add_zero (i * 2), getElem?_getD _ _ (by rw [mid128_length]; omega), Nat.add_zero,
    getElem?_getD _ _ (by rw [mid128_length]; omega)]
  refine ⟨_, rfl, ?_⟩
  simp only [val128, UInt64.toNat_ofNat', Nat.add_zero] at h2 h3 ⊢
  rw [Nat.mod_eq_of_lt h3, Nat.mod_eq_of_lt h4]
  exact h2

/-- **the midpoint addition**: for a coefficient `c < 10^34` and `1 ≤ x ≤ 34`, the two-word addition with its carry yields
`c + 5·10^(x−1)`; no table index is out of range -/
theorem addMid_spec (C : U128) (exp : Int32) (c x : Nat) (hc : val128 C = c) (hlt : c < P34) (hx1 : 1 ≤ x) (hx2 : x ≤ 34)
    (hexp : exp.toInt = -(x : Int)) : ∃ C', addMid C exp = .ok C' ∧ val128 C' = c + 5 * 10 ^ (x - 1) := by
  have h0 := C.w0.toNat_lt
  have hneg : (-exp).toInt = (x : Int) := by rw [i32_neg _ (by omega), hexp]; omega
  have c19 : (decide (-exp ≤ 19) = true) ↔ x ≤ 19 := by
    rw [decide_eq_true_eq, Int32.le_iff_toInt_le, hneg, show (19 : Int32).toInt = 19 from rfl]; omega
  unfold val128 at hc
  subst hc
  have hP : C.w1.toNat * 2^64 + C.w0.toNat < 10 ^ 34 := hlt
  have hw1 : C.w1.toNat < 2^49 := by omega
  by_cases b : x ≤ 19
  · have hidx : (UInt64.ofInt (toI (-exp - 1))).toNat = x - 1 :=
      u64_of_i32 _ _ (by rw [i32_sub _ _ (by omega) (by decide), hneg]; show (x : Int) - 1 = _; omega)
    obtain ⟨m, hm, mv⟩ := tbl64_mid _ (x - 1) hidx (by omega)
    simp only [addMid, bind, pure, Except.pure, bind_ok', hm, c19.2 b, if_true]
    have hmlt := m.toNat_lt
    by_cases hcar : C.w0 + m < C.w0
    · rw [if_pos (by simpa using hcar)]
      refine ⟨_, rfl, ?_⟩
      rw [UInt64.lt_iff_toNat_lt, UInt64.toNat_add] at hcar
      simp only [val128, UInt64.toNat_add, UInt64.toNat_one]
      omega
    · rw [if_neg (by simpa using hcar)]
      refine ⟨_, rfl, ?_⟩
      rw [UInt64.lt_iff_toNat_lt, UInt64.toNat_add] at hcar
      simp only [val128, UInt64.toNat_add]
      omega
  · have hidx : (UInt64.ofInt (toI (-exp - 20))).toNat = x - 20 :=
      u64_of_i32 _ _ (by rw [i32_sub _ _ (by omega) (by decide), hneg]; show (x : Int) - 20 = _; omega)
    obtain ⟨m, hm, mv⟩ := tbl128_mid _ (x - 20) hidx (by omega)
    rw [show x - 20 + 19 = x - 1 by omega] at mv
    simp only [addMid, bind, pure, Except.pure, bind_ok', hm, if_neg (fun h => b (c19.1 h)), if_false]
    have hm0 := m.w0.toNat_lt
    have hmv : val128 m ≤ 5 * 10 ^ 33 := by
      rw [mv]; exact Nat.mul_le_mul_left 5 (Nat.pow_le_pow_right (by decide) (by omega))
    unfold val128 at mv hmv
    have mv' := mv.symm
    clear mv
    have hm1 : m.w1.toNat < 2^49 := by omega
    generalize 10 ^ (x - 1) = g at *
    by_cases hcar : C.w0 + m.w0 < C.w0
    · rw [if_pos (by simpa using hcar)]
      refine ⟨_, rfl, ?_⟩
      rw [UInt64.lt_iff_toNat_lt, UInt64.toNat_add] at hcar
      simp only [val128, UInt64.toNat_add, UInt64.toNat_one]
      rw [mv']
      clear mv'
      omega
    · rw [if_neg (by simpa using hcar)]
      refine ⟨_, rfl, ?_⟩
      rw [UInt64.lt_iff_toNat_lt, UInt64.toNat_add] at hcar
      simp only [val128, UInt64.toNat_add]
      rw [mv']
      clear mv'
      omega

-- the midpoint addition with a carry into the high word (x = 1: + 5), and with the two-word midpoint 5·10^19 (x = 20)
example : addMid ⟨0xfffffffffffffffd, 7⟩ (-1) = .ok ⟨2, 8⟩ := by rfl
example : addMid ⟨1, 0⟩ (-20) = .ok ⟨0xb5e3af16b1880001, 2⟩ := by rfl

namespace Recip
variable {C : U128} {exp : Int32} {c x : Nat} {t : U128} {v : U256} {sh : Int32} {mk oh : UInt64} {sN δ : Nat}

theorem lt128 (a1 a0 c1 c0 : UInt64) :
    (decide (a1 < c1) || (a1 == c1 && decide (a0 < c0))) = decide (a1.toNat * 2^64 + a0.toNat < c1.toNat * 2^64 + c0.toNat) := by
  have h1 := a0.toNat_lt; have h2 := c0.toNat_lt
  rw [Bool.eq_iff_iff]
  simp only [Bool.or_eq_true, Bool.and_eq_true, decide_eq_true_iff, beq_iff_eq, UInt64.lt_iff_toNat_lt, ← UInt64.toNat_inj]
  omega

theorem frac_lt (R : Recip C exp c x t v sh mk oh sN δ) :
    c * val128 t % 2 ^ (128 + sN) < val128 t ↔ c % 10 ^ x = 0 := by
  have := R.frac_ge
  constructor
  · intro h; by_contra h'; exact absurd (this.2 h') (by omega)
  · intro h; by_contra h'; exact (this.1 (by omega)) h

/-- the code's midpoint test `f* < K`, first case -/
theorem ltA (R : Recip C exp c x t v sh mk oh sN δ) (hx : x ≤ 3) :
    (decide (v.w1 < t.w1) || v.w1 == t.w1 && decide (v.w0 < t.w0)) = decide (c % 10 ^ x = 0) := by
  rw [lt128, decide_eq_decide, ← R.frac_lt, ← R.fA hx]
  rfl

/-- the code's midpoint test `f* < K`, second case -/
theorem ltB (R : Recip C exp c x t v sh mk oh sN δ) (hx1 : 3 < x) (hx2 : x ≤ 22) :
    (v.w2 &&& mk == 0 && (decide (v.w1 < t.w1) || v.w1 == t.w1 && decide (v.w0 < t.w0))) = decide (c % 10 ^ x = 0) := by
  have h0 := v.w0.toNat_lt; have h1 := v.w1.toNat_lt; have k0 := t.w0.toNat_lt; have k1 := t.w1.toNat_lt
  rw [lt128, Bool.eq_iff_iff, decide_eq_true_eq, ← R.frac_lt, ← R.fB hx1 hx2]
  simp only [Bool.and_eq_true, beq_iff_eq, decide_eq_true_eq, ← UInt64.toNat_inj, UInt64.toNat_zero, val128]
  omega

/-- the code's midpoint test `f* < K`, third case -/
theorem ltC (R : Recip C exp c x t v sh mk oh sN δ) (hx : 22 < x) :
    (v.w3 &&& mk == 0 && (v.w2 == 0 && (decide (v.w1 < t.w1) || v.w1 == t.w1 && decide (v.w0 < t.w0))))
      = decide (c % 10 ^ x = 0) := by
  have h0 := v.w0.toNat_lt; have h1 := v.w1.toNat_lt; have k0 := t.w0.toNat_lt; have k1 := t.w1.toNat_lt
  rw [lt128, Bool.eq_iff_iff, decide_eq_true_eq, ← R.frac_lt, ← R.fC hx]
  simp only [Bool.and_eq_true, beq_iff_eq, decide_eq_true_eq, ← UInt64.toNat_inj, UInt64.toNat_zero, val128]
  omega

end Recip

/-! ### the model side -/

theorem half_pow (x : Nat) (hx : 1 ≤ x) : 10 ^ x = 2 * (5 * 10 ^ (x - 1)) := by
  obtain ⟨k, rfl⟩ : ∃ k, x = k + 1 := ⟨x - 1, by omega⟩
  rw [Nat.pow_succ, Nat.add_sub_cancel]; omega

/-- nearest, ties away: add half and truncate -/
theorem rna_formula (s : Bool) (c D H : Nat) (hD : D = 2 * H) (hH : 0 < H) :
    roundInt .rna s (c / D) (c % D) D = (c + H) / D := by
  have hDpos : 0 < D := by omega
  have hdm := Nat.div_add_mod c D
  have hr := Nat.mod_lt c hDpos
  generalize c / D = q at *
  generalize c % D = r at *
  have e : c + H = D * q + (r + H) := by omega
  rw [e, Nat.mul_add_div hDpos]
  by_cases h2 : D ≤ 2 * r
  · have : (r + H) / D = 1 := by
      apply Nat.div_eq_of_lt_le <;> omega
    rw [this]
    have hr0 : r ≠ 0 := by omega
    simp [roundInt, roundUp, hr0, h2]
  · have : (r + H) / D = 0 := Nat.div_eq_of_lt (by omega)
    rw [this]
    by_cases hr0 : r = 0
    · simp [roundInt, roundUp, hr0]
    · simp [roundInt, roundUp, hr0, h2]

/-- nearest, ties to even: add half and truncate; on an exact tie (no remainder left) an odd quotient is decremented -/
theorem rne_formula (s : Bool) (c D H : Nat) (hD : D = 2 * H) (hH : 0 < H) :
    roundInt .rne s (c / D) (c % D) D =
      if (c + H) % D = 0 ∧ (c + H) / D % 2 = 1 then (c + H) / D - 1 else (c + H) / D := by
  have hDpos : 0 < D := by omega
  have hdm := Nat.div_add_mod c D
  have hr := Nat.mod_lt c hDpos
  generalize c / D = q at *
  generalize c % D = r at *
  have e : c + H = D * q + (r + H) := by omega
  rw [e, Nat.mul_add_div hDpos, Nat.mul_add_mod]
  by_cases h2 : D ≤ 2 * r
  · have e1 : (r + H) / D = 1 := by
      apply Nat.div_eq_of_lt_le <;> omega
    have e2 : (r + H) % D = r + H - D := by
      rw [Nat.mod_eq_sub_mod (by omega), Nat.mod_eq_of_lt (by omega)]
    rw [e1, e2]
    have hr0 : r ≠ 0 := by omega
    by_cases h3 : D = 2 * r
    · -- tie
      have hz : r + H - D = 0 := by omega
      rw [hz]
      by_cases hq : q % 2 = 1
      · have : (q + 1) % 2 ≠ 1 := by omega
        simp [roundInt, roundUp, hr0, h3, hq, this]
      · have : (q + 1) % 2 = 1 := by omega
        simp [roundInt, roundUp, hr0, hq, this]
        omega
    · have hz : r + H - D ≠ 0 := by omega
      have h4 : D < 2 * r := by omega
      simp [roundInt, roundUp, hr0, hz, h4]
  · have e1 : (r + H) / D = 0 := Nat.div_eq_of_lt (by omega)
    have e2 : (r + H) % D = r + H := Nat.mod_eq_of_lt (by omega)
    rw [e1, e2]
    have hz : r + H ≠ 0 := by omega
    by_cases hr0 : r = 0
    · simp [roundInt, roundUp, hr0]
      intro h; omega
    · have h5 : ¬ D < 2 * r := by omega
      have h6 : ¬ 2 * r = D := by omega
      simp [roundInt, roundUp, hr0, hz, h5, h6]


/-! ### nearest, ties away -/

theorem quot_lt (c x : Nat) (hc : c < 10 ^ 35) (hx : 1 ≤ x) : c / 10 ^ x < 2 ^ 113 := by
  have h1 : c / 10 ^ x ≤ c / 10 ^ 1 := Nat.div_le_div_left (Nat.pow_le_pow_right (by decide) hx) (by decide)
  have h2 : c / 10 ^ 1 < 10 ^ 34 := by omega
  exact Nat.lt_of_le_of_lt h1 (Nat.lt_trans h2 (by decide))

/-- **`bid128_round_integral_nearest_away` after the midpoint addition**: `⌊c' / 10^x⌋` for `c' < 10^35`, `1 ≤ x ≤ 34` -/
theorem awayTail_spec (C : U128) (S : UInt64) (exp : Int32) (f : UInt32) (s : Bool) (c x : Nat)
    (hc : val128 C = c) (hlt : c < 10 ^ 35) (hx1 : 1 ≤ x) (hx2 : x ≤ 34) (hexp : exp.toInt = -(x : Int))
    (hS : S.toNat = if s then 2^63 else 0) :
    awayTail C S exp f = .ok (ofBits (encode (.fin s (c / 10 ^ x) 0)), f) := by
  obtain ⟨t, v, sh, mk, oh, sN, δ, R⟩ := recip_exists C exp c x hc hlt hx1 hx2 hexp
  have hm := quot_lt c x hlt hx1
  simp only [awayTail, bind, pure, Except.pure, bind_ok', ite_ok, R.ht, R.hv, R.hsh, ite_true_bool, ite_false_bool,
    Bool.decide_eq_true]
  by_cases b1 : x ≤ 3
  · rw [if_pos (R.c1.2 b1), mk_result S s hS ⟨v.w2, v.w3⟩ _ (R.qA b1) hm]
  · rw [if_neg (fun h => b1 (R.c1.1 h))]
    by_cases b2 : x ≤ 22
    · rw [if_pos (R.c2.2 b2)]
      exact congrArg (fun r => Except.ok (r, f)) (mk_result S s hS _ _ (R.qB (by omega) b2) hm)
    · rw [if_neg (fun h => b2 (R.c2.1 h))]
      exact congrArg (fun r => Except.ok (r, f)) (mk_result S s hS _ _ (R.qC (by omega)) hm)

/-! ### nearest, ties to even -/

theorem even_finish (S : UInt64) (s : Bool) (hS : S.toNat = if s then 2^63 else 0) (r : U128) (q rem : Nat)
    (hq : val128 r = q) (hlt : q < 2^113) (f : UInt32) :
    (if (r.w0 &&& 1 == 1 && decide (rem = 0)) = true then ((⟨r.w0 - 1, r.w1 ||| (S ||| 0x3040000000000000)⟩ : U128), f)
      else (⟨r.w0, r.w1 ||| (S ||| 0x3040000000000000)⟩, f))
      = (ofBits (encode (.fin s (if rem = 0 ∧ q % 2 = 1 then q - 1 else q) 0)), f) := by
  have h0 := r.w0.toNat_lt
  have hpar : (r.w0 &&& 1 == 1) = decide (q % 2 = 1) := by
    rw [Bool.eq_iff_iff, beq_iff_eq, decide_eq_true_eq, ← UInt64.toNat_inj, Dec.C06GenFromInt.and_low _ _ 1 (by rfl), ← hq]
    unfold val128
    show r.w0.toNat % 2 ^ 1 = 1 ↔ _
    omega
  rw [hpar]
  by_cases h : rem = 0 ∧ q % 2 = 1
  · rw [if_pos (by simp [h.1, h.2]), if_pos h]
    have hd : val128 ⟨r.w0 - 1, r.w1⟩ = q - 1 := by
      have h1 : 1 ≤ r.w0.toNat := by unfold val128 at hq; omega
      simp only [val128] at hq ⊢
      rw [UInt64.toNat_sub_of_le _ _ (by rw [UInt64.le_iff_toNat_le]; exact h1)]
      show r.w1.toNat * 2^64 + (r.w0.toNat - 1) = _
      omega
    rw [mk_result S s hS ⟨r.w0 - 1, r.w1⟩ _ hd (by omega)]
  · rw [if_neg (by simpa [and_comm] using h), if_neg h, mk_result S s hS r q hq hlt]

/-- **`bid128_round_integral_nearest_even` after the midpoint addition**: `⌊c' / 10^x⌋`, decremented when it is odd and
nothing was discarded (the midpoint test `f* < K` in its three word-position forms is exactly "remainder zero") -/
theorem evenTail_spec (C : U128) (S : UInt64) (exp : Int32) (f : UInt32) (s : Bool) (c x : Nat)
    (hc : val128 C = c) (hlt : c < 10 ^ 35) (hx1 : 1 ≤ x) (hx2 : x ≤ 34) (hexp : exp.toInt = -(x : Int))
    (hS : S.toNat = if s then 2^63 else 0) :
    evenTail C S exp f = .ok (ofBits (encode (.fin s
      (if c % 10 ^ x = 0 ∧ c / 10 ^ x % 2 = 1 then c / 10 ^ x - 1 else c / 10 ^ x) 0)), f) := by
  obtain ⟨t, v, sh, mk, oh, sN, δ, R⟩ := recip_exists C exp c x hc hlt hx1 hx2 hexp
  have hm := quot_lt c x hlt hx1
  simp only [evenTail, bind, pure, Except.pure, bind_ok', ite_ok, R.ht, R.hv, R.hsh, R.hmk, ite_true_bool, ite_false_bool,
    Bool.decide_eq_true, Bool.and_assoc]
  by_cases b1 : x ≤ 3
  · rw [if_pos (R.c1.2 b1), R.ltA b1]
    exact congrArg Except.ok (even_finish S s hS ⟨v.w2, v.w3⟩ _ _ (R.qA b1) hm f)
  · rw [if_neg (fun h => b1 (R.c1.1 h))]
    by_cases b2 : x ≤ 22
    · rw [if_pos (R.c2.2 b2), R.ltB (by omega) b2]
      exact congrArg Except.ok (even_finish S s hS _ _ _ (R.qB (by omega) b2) hm f)
    · rw [if_neg (fun h => b2 (R.c2.1 h)), R.ltC (by omega)]
      exact congrArg Except.ok (even_finish S s hS _ _ _ (R.qC (by omega)) hm f)


/-! ### the two routines -/

/-- a number of magnitude below one tenth rounds to zero in both nearest modes -/
theorem tiny_nearest (mode : Mode) (hmode : mode = .rna ∨ mode = .rne) (s : Bool) (c x : Nat) (hx : 1 ≤ x) (h : c < 10 ^ (x - 1)) :
    roundInt mode s (c / 10 ^ x) (c % 10 ^ x) (10 ^ x) = 0 := by
  have hp := half_pow x hx
  have hlt : c < 10 ^ x := by omega
  rw [Nat.div_eq_of_lt hlt, Nat.mod_eq_of_lt hlt]
  have h1 : ¬ 10 ^ x ≤ 2 * c := by omega
  have h2 : ¬ 10 ^ x < 2 * c := by omega
  have h3 : ¬ 2 * c = 10 ^ x := by omega
  rcases hmode with rfl | rfl <;> by_cases hc : c = 0 <;> simp [roundInt, roundUp, hc, h1, h2, h3]

/-- **`bid128_round_integral_nearest_away` on finite non-zero operands** -/
theorem rnaFin_spec (x : U128) (f : UInt32) (s : Bool) (c E : Nat) (hv : FinView x s c E) :
    rnaFin x f (x.w1 &&& c_MASK_SIGN) (x.w1 &&& c_MASK_EXP) ⟨x.w0, x.w1 &&& c_MASK_COEFF⟩
      = .ok (ofBits (encode (riD .rna (decode (bitsOf x)))), riFlags f (decode (bitsOf x))) := by
  obtain ⟨hdec, hpos, hlt, hE, hS, he, hc, henc⟩ := hv
  have h34 := ndigits_le_34 c hlt
  rw [hdec, riFlags_fin]
  unfold rnaFin
  by_cases t1 : E ≤ 6141
  · rw [if_pos ((expword_le _ E he 0x2ffa000000000000 6141 (by decide)).2 t1), riD_neg_exp _ _ _ _ (by omega),
      tiny_nearest .rna (Or.inl rfl) s c _ (by omega) (lt_pow_of_digits c _ (by omega)), mk_zero _ s hS]
  · rw [if_neg (fun h => t1 ((expword_le _ E he 0x2ffa000000000000 6141 (by decide)).1 h))]
    obtain ⟨q, hq, qv⟩ := countQ_spec ⟨x.w0, x.w1 &&& c_MASK_COEFF⟩ (by rw [hc]; exact hpos)
      (by rw [hc]; exact Nat.lt_trans hlt (by decide))
    rw [hc] at qv
    have hexp := expOf_toInt _ E hE he
    simp only [withQ_eq, hq, Except.bind]
    by_cases t2 : 6176 ≤ E
    · rw [if_pos (by rw [decide_eq_true_eq, ge_iff_le, Int32.le_iff_toInt_le, hexp]; show (0 : Int) ≤ _; omega),
        riD_nonneg_exp _ _ _ _ t2, ← henc]
      exact congrArg (fun r => Except.ok (r, f)) (Dec.C06GenFromInt.ofBits_bitsOf x).symm
    · rw [if_neg (by rw [decide_eq_true_eq, ge_iff_le, Int32.le_iff_toInt_le, hexp]; show ¬ (0 : Int) ≤ _; omega),
        riD_neg_exp _ _ _ _ (by omega)]
      have hsum : (q + expOf (x.w1 &&& c_MASK_EXP)).toInt = (ndigits c : Int) + ((E : Int) - 6176) := by
        rw [i32_add _ _ (by omega) (by omega), qv, hexp]
      by_cases t3 : 6176 ≤ ndigits c + E
      · rw [if_pos (by rw [decide_eq_true_eq, ge_iff_le, Int32.le_iff_toInt_le, hsum]; show (0 : Int) ≤ _; omega)]
        have hx1 : 1 ≤ 6176 - E := by omega
        have hexp' : (expOf (x.w1 &&& c_MASK_EXP)).toInt = -((6176 - E : Nat) : Int) := by rw [hexp]; omega
        obtain ⟨C', hadd, hval⟩ := addMid_spec _ _ c (6176 - E) hc hlt hx1 (by omega) hexp'
        have hH : 5 * 10 ^ (6176 - E - 1) ≤ 5 * 10 ^ 33 :=
          Nat.mul_le_mul_left 5 (Nat.pow_le_pow_right (by decide) (by omega))
        have hP : c < 10 ^ 34 := hlt
        rw [awayMain_eq, hadd]
        simp only [Except.bind]
        rw [awayTail_spec C' _ _ f s _ (6176 - E) hval (by omega) hx1 (by omega) hexp' hS,
          rna_formula s c _ _ (half_pow _ hx1) (Nat.mul_pos (by decide) (Nat.pow_pos (by decide)))]
      · rw [if_neg (by rw [decide_eq_true_eq, ge_iff_le, Int32.le_iff_toInt_le, hsum]; show ¬ (0 : Int) ≤ _; omega),
          tiny_nearest .rna (Or.inl rfl) s c _ (by omega) (lt_pow_of_digits c _ (by omega)), mk_zero _ s hS]

/-- **`bid128_round_integral_nearest_away`** (round to integral, to nearest, ties away from zero), ALL 128-bit patterns, every
incoming status word: the canonical encoding of `toIntegralD .rna` of the decoded operand (`2.5 ↦ 3`, `−2.5 ↦ −3`, `0.4 ↦ 0`
with the operand's sign); `invalid` iff the operand is a signalling NaN, nothing else (inexact is not raised); never panics. -/
theorem round_integral_nearest_away_spec (x : U128) (f : UInt32) :
    bid128_round_integral_nearest_away x f =
      .ok (ofBits (encode (riD .rna (decode (bitsOf x)))), riFlags f (decode (bitsOf x))) := by
  rw [rna_unfold]
  rcases frontEnd_cases .rna x f (rnaFin x f) with h | ⟨s, c, E, hv, h⟩
  · exact h.1
  · rw [h]; exact rnaFin_spec x f s c E hv

/-- **`bid128_round_integral_nearest_even` on finite non-zero operands** -/
theorem rneFin_spec (x : U128) (f : UInt32) (s : Bool) (c E : Nat) (hv : FinView x s c E) :
    rneFin x f (x.w1 &&& c_MASK_SIGN) (x.w1 &&& c_MASK_EXP) ⟨x.w0, x.w1 &&& c_MASK_COEFF⟩
      = .ok (ofBits (encode (riD .rne (decode (bitsOf x)))), riFlags f (decode (bitsOf x))) := by
  obtain ⟨hdec, hpos, hlt, hE, hS, he, hc, henc⟩ := hv
  have h34 := ndigits_le_34 c hlt
  rw [hdec, riFlags_fin]
  unfold rneFin
  by_cases t1 : E ≤ 6141
  · rw [if_pos ((expword_le _ E he 0x2ffa000000000000 6141 (by decide)).2 t1), riD_neg_exp _ _ _ _ (by omega),
      tiny_nearest .rne (Or.inr rfl) s c _ (by omega) (lt_pow_of_digits c _ (by omega)), mk_zero _ s hS]
  · rw [if_neg (fun h => t1 ((expword_le _ E he 0x2ffa000000000000 6141 (by decide)).1 h))]
    obtain ⟨q, hq, qv⟩ := countQ_spec ⟨x.w0, x.w1 &&& c_MASK_COEFF⟩ (by rw [hc]; exact hpos)
      (by rw [hc]; exact Nat.lt_trans hlt (by decide))
    rw [hc] at qv
    have hexp := expOf_toInt _ E hE he
    simp only [withQ_eq, hq, Except.bind]
    by_cases t2 : 6176 ≤ E
    · rw [if_pos (by rw [decide_eq_true_eq, ge_iff_le, Int32.le_iff_toInt_le, hexp]; show (0 : Int) ≤ _; omega),
        riD_nonneg_exp _ _ _ _ t2, ← henc]
      exact congrArg (fun r => Except.ok (r, f)) (Dec.C06GenFromInt.ofBits_bitsOf x).symm
    · rw [if_neg (by rw [decide_eq_true_eq, ge_iff_le, Int32.le_iff_toInt_le, hexp]; show ¬ (0 : Int) ≤ _; omega),
        riD_neg_exp _ _ _ _ (by omega)]
      have hsum : (q + expOf (x.w1 &&& c_MASK_EXP)).toInt = (ndigits c : Int) + ((E : Int) - 6176) := by
        rw [i32_add _ _ (by omega) (by omega), qv, hexp]
      by_cases t3 : 6176 ≤ ndigits c + E
      · rw [if_pos (by rw [decide_eq_true_eq, ge_iff_le, Int32.le_iff_toInt_le, hsum]; show (0 : Int) ≤ _; omega)]
        have hx1 : 1 ≤ 6176 - E := by omega
        have hexp' : (expOf (x.w1 &&& c_MASK_EXP)).toInt = -((6176 - E : Nat) : Int) := by rw [hexp]; omega
        obtain ⟨C', hadd, hval⟩ := addMid_spec _ _ c (6176 - E) hc hlt hx1 (by omega) hexp'
        have hH : 5 * 10 ^ (6176 - E - 1) ≤ 5 * 10 ^ 33 :=
          Nat.mul_le_mul_left 5 (Nat.pow_le_pow_right (by decide) (by omega))
        have hP : c < 10 ^ 34 := hlt
        rw [evenMain_eq, hadd]
        simp only [Except.bind]
        rw [evenTail_spec C' _ _ f s _ (6176 - E) hval (by omega) hx1 (by omega) hexp' hS,
          rne_formula s c _ _ (half_pow _ hx1) (Nat.mul_pos (by decide) (Nat.pow_pos (by decide)))]
      · rw [if_neg (by rw [decide_eq_true_eq, ge_iff_le, Int32.le_iff_toInt_le, hsum]; show ¬ (0 : Int) ≤ _; omega),
          tiny_nearest .rne (Or.inr rfl) s c _ (by omega) (lt_pow_of_digits c _ (by omega)), mk_zero _ s hS]

/-- **`bid128_round_integral_nearest_even`** (round to integral, to nearest, ties to even), ALL 128-bit patterns, every
incoming status word: the canonical encoding of `toIntegralD .rne` of the decoded operand (`2.5 ↦ 2`, `3.5 ↦ 4`,
`−0.5 ↦ −0`); `invalid` iff the operand is a signalling NaN, nothing else (inexact is not raised); never panics. -/
theorem round_integral_nearest_even_spec (x : U128) (f : UInt32) :
    bid128_round_integral_nearest_even x f =
      .ok (ofBits (encode (riD .rne (decode (bitsOf x)))), riFlags f (decode (bitsOf x))) := by
  rw [rne_unfold]
  rcases frontEnd_cases .rne x f (rneFin x f) with h | ⟨s, c, E, hv, h⟩
  · exact h.1
  · rw [h]; exact rneFin_spec x f s c E hv

-- 2.5 ↦ 2 (even), 3.5 ↦ 4, 2.5 ↦ 3 (away), −0.5 ↦ −0 (even), −0.5 ↦ −1 (away); 0.5·10^0 with 34 digits: 5·10^33 E−34 ↦ 0 / 1
example : bid128_round_integral_nearest_even ⟨25, 0x303e000000000000⟩ 0 = .ok (⟨2, 0x3040000000000000⟩, 0) := by
  rw [round_integral_nearest_even_spec]; decide +kernel
example : bid128_round_integral_nearest_even ⟨35, 0x303e000000000000⟩ 0 = .ok (⟨4, 0x3040000000000000⟩, 0) := by rfl
example : bid128_round_integral_nearest_away ⟨25, 0x303e000000000000⟩ 0 = .ok (⟨3, 0x3040000000000000⟩, 0) := by
  rw [round_integral_nearest_away_spec]; decide +kernel
example : bid128_round_integral_nearest_even ⟨5, 0xb03e000000000000⟩ 0 = .ok (⟨0, 0xb040000000000000⟩, 0) := by rfl
example : bid128_round_integral_nearest_away ⟨5, 0xb03e000000000000⟩ 0 = .ok (⟨1, 0xb040000000000000⟩, 0) := by rfl
example : bid128_round_integral_nearest_even ⟨0x1bc6c73200000000, 0x2ffcf684df56c3e0⟩ 0 = .ok (⟨0, 0x3040000000000000⟩, 0) := by rfl
example : bid128_round_integral_nearest_away ⟨0x1bc6c73200000000, 0x2ffcf684df56c3e0⟩ 0 = .ok (⟨1, 0x3040000000000000⟩, 0) := by rfl


end Dec.C08GenRoundIntegral
