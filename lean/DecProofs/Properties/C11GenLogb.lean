/-
  C11 (generated-code level) — the translated `bid128_ilogb` and `bid128_logb` (`DecGen/Code.lean`, from bid128_ilogb.rs /
  bid128_logb.rs) against `Dec.ilogbD` / `Dec.logbD`, for all patterns and status words.

  Headlines
  * `ilogb_spec x f` : `bid128_ilogb x f = .ok (Int32.ofInt (ilogbD d).1, f ||| ofNat (ilogbD d).2)`, `d = decode (bitsOf x)`
    — every 128-bit pattern, every incoming status word; in particular no panic (no `f32` failure, both table indices
    in range).  `ilogb_judge` : `ilogbD` is the judge's `"log_b"` expectation.
  * `logb_spec x f`  : `bid128_logb x f = .ok (ofBits (encode (logbSpec d).1), f ||| ofNat (logbSpec d).2)` where
    `logbSpec` = NaN rule, else `logbD`.  `logb_judge` : that is the judge's `"logb"` expectation.
  * `fx_expfield` : the float part.  For `0 < C = c1·2^64 + c0`, `c1 < 2^60`, the chain
    `(c1 as f32)·2^64 + (c0 as f32)` succeeds and its exponent field is `⌊log₂ C⌋ + 127` or `⌊log₂ C⌋ + 128`, the latter
    only with `C ≥ 2^(L+1) − ⌈2^(L+1)/2^20⌉`; that is what `estDigits_mechanism` / `estDigits_mechanism_over` need.

  Route
  1. `rn24 n` = `n` rounded to 24 significant bits (ties to even) as a natural number; `fb n = floatBitsOfNat 23 127 n`
     has exponent field `log2 (rn24 n) + 127` (`fb_struct`, `fb_expfield`); scaling by `2^k` only moves the exponent
     field (`fb_scale`, `rn24_scale`); `2^24·rn24 n ≤ (2^24+1)·n` (`rn24_le`), `rn24 n ∈ [2^log2 n, 2^(log2 n+1)]`.
  2. `fpRound 23 8 M E false = some (fb M + E·2^23)` while the result is normal (`fpRound_eq`): the model's rounding of an
     exact `M·2^E` is the integer conversion moved by `E` binades.  With `decode_normal` this evaluates `fpMul`/`fpAdd`.
  3. `fx_bits`: the chain's result is exactly `fb (rn24 c1 · 2^64 + rn24 c0)`.
  4. `fx_binade`, `fx_close`: the triple rounding stays in `[2^L, 2^(L+1)]` and is within `2^-20` relative of `C`.
  5. table reads (`est_read`, `p10_read`: per-entry facts by `decide +kernel` over the generated tables, nothing copied),
     the signed-difference comparison (`d_tests`), `est_digits` (the estimate corrected by one comparison = `ndigits`).
  6. `ilogb_finite`, `ilogb_special`, `ilogb_spec`.   7. `logb_norm`, `logb_spec`.

  No deviation of the code from `ilogbD` / `logbD` was found.
-/
import DecProofs.Properties.C11GenScale
import DecProofs.Properties.C06GenFromInt
import DecProofs.TableFacts.NrDigits
namespace Dec.C11GenLogb
open Dec.Rs

set_option linter.unusedVariables false
set_option linter.unusedSimpArgs false
set_option linter.unnecessarySeqFocus false


/-- `⌊log₂ n⌋` is determined by the binade `2^l ≤ n < 2^(l+1)` -/
theorem log2_unique (n l : Nat) (h1 : 2 ^ l ≤ n) (h2 : n < 2 ^ (l + 1)) : Nat.log2 n = l := by
  have hn : n ≠ 0 := by have := Nat.pow_pos (n := l) (by decide : 0 < 2); omega
  have a : l ≤ n.log2 := (Nat.le_log2 hn).2 h1
  have b : n.log2 < l + 1 := (Nat.log2_lt hn).2 h2
  omega

/-- `⌊log₂ (n·2^k)⌋ = ⌊log₂ n⌋ + k` -/
theorem log2_mul_pow (n k : Nat) (hn : 0 < n) : Nat.log2 (n * 2 ^ k) = Nat.log2 n + k := by
  have hn' : n ≠ 0 := by omega
  apply log2_unique
  · rw [Nat.pow_add]; exact Nat.mul_le_mul_right _ (Nat.log2_self_le hn')
  · have : n < 2 ^ (n.log2 + 1) := Nat.lt_log2_self
    calc n * 2 ^ k < 2 ^ (n.log2 + 1) * 2 ^ k := Nat.mul_lt_mul_of_pos_right this (Nat.pow_pos (by decide))
      _ = 2 ^ (n.log2 + k + 1) := by rw [← Nat.pow_add]; congr 1; omega

/-! ## 1. Rounding a natural number to 24 significant bits -/

/-- `n as f32`, as bits -/
abbrev fb (n : Nat) : Nat := floatBitsOfNat 23 127 n

/-- the rounded 24-bit significand of `n ≥ 2^24` (in `[2^23, 2^24]`; `2^24` = carry into the next binade) -/
def rq (n : Nat) : Nat :=
  let sh := Nat.log2 n - 23
  let q := n / 2 ^ sh
  let r := n % 2 ^ sh
  let half := 2 ^ (sh - 1)
  if (decide (r > half) || (r == half && q % 2 == 1)) = true then q + 1 else q

/-- `n` rounded to 24 significant bits, ties to even: the value of `n as f32` -/
def rn24 (n : Nat) : Nat := if Nat.log2 n ≤ 23 then n else rq n * 2 ^ (Nat.log2 n - 23)

/-- `0 as f32` is `+0.0` -/
theorem fb_zero : fb 0 = 0 := rfl

/-- below 2^24 the conversion is exact: exponent field `log2 n + 127`, the leading one dropped from the shifted significand -/
theorem fb_small (n : Nat) (hn : 0 < n) (hl : Nat.log2 n ≤ 23) :
    fb n = (Nat.log2 n + 127) * 2 ^ 23 + (n * 2 ^ (23 - Nat.log2 n) - 2 ^ 23) := by
  unfold fb floatBitsOfNat
  rw [if_neg (by omega)]
  simp only [hl, if_true]

/-- from 2^24 on: the rounded 24-bit significand `rq n` added onto the exponent field (a carry `rq n = 2^24` bumps it) -/
theorem fb_big (n : Nat) (hl : 23 < Nat.log2 n) :
    fb n = (Nat.log2 n + 127) * 2 ^ 23 + (rq n - 2 ^ 23) := by
  have hn : n ≠ 0 := by intro h; subst h; simp [Nat.log2] at hl
  unfold fb floatBitsOfNat rq
  rw [if_neg hn]
  simp only [show ¬ Nat.log2 n ≤ 23 by omega, if_false]

/-- the truncated significand of `n ≥ 2^24` lies in `[2^23, 2^24)` -/
theorem q_range (n : Nat) (hl : 23 < Nat.log2 n) :
    2 ^ 23 ≤ n / 2 ^ (Nat.log2 n - 23) ∧ n / 2 ^ (Nat.log2 n - 23) < 2 ^ 24 := by
  have hn : n ≠ 0 := by intro h; subst h; simp [Nat.log2] at hl
  have h1 := Nat.log2_self_le hn
  have h2 : n < 2 ^ (n.log2 + 1) := Nat.lt_log2_self
  obtain ⟨sh, hsh⟩ : ∃ sh, Nat.log2 n = sh + 23 := ⟨Nat.log2 n - 23, by omega⟩
  rw [hsh] at h1 h2 ⊢
  simp only [Nat.add_sub_cancel]
  have hp : 0 < 2 ^ sh := Nat.pow_pos (by decide)
  constructor
  · rw [Nat.le_div_iff_mul_le hp, ← Nat.pow_add, Nat.add_comm]; exact h1
  · rw [Nat.div_lt_iff_lt_mul hp, ← Nat.pow_add]
    have : 24 + sh = sh + 23 + 1 := by omega
    rw [this]; exact h2

/-- the rounded significand stays in `[2^23, 2^24]` -/
theorem rq_range (n : Nat) (hl : 23 < Nat.log2 n) : 2 ^ 23 ≤ rq n ∧ rq n ≤ 2 ^ 24 := by
  obtain ⟨a, b⟩ := q_range n hl
  unfold rq
  simp only
  split <;> omega

/-- `rn24` stays in the binade of `n` (its upper end included) -/
theorem rn24_binade (n : Nat) (hn : 0 < n) : 2 ^ Nat.log2 n ≤ rn24 n ∧ rn24 n ≤ 2 ^ (Nat.log2 n + 1) := by
  have hn' : n ≠ 0 := by omega
  unfold rn24
  by_cases hl : Nat.log2 n ≤ 23
  · rw [if_pos hl]
    exact ⟨Nat.log2_self_le hn', Nat.le_of_lt Nat.lt_log2_self⟩
  · rw [if_neg hl]
    obtain ⟨a, b⟩ := rq_range n (by omega)
    obtain ⟨sh, hsh⟩ : ∃ sh, Nat.log2 n = sh + 23 := ⟨Nat.log2 n - 23, by omega⟩
    rw [hsh]
    simp only [Nat.add_sub_cancel]
    constructor
    · rw [Nat.pow_add, Nat.mul_comm]; exact Nat.mul_le_mul_right _ a
    · have : sh + 23 + 1 = 24 + sh := by omega
      rw [this, Nat.pow_add]; exact Nat.mul_le_mul_right _ b

/-- integers below 2^24 are representable -/
theorem rn24_small (n : Nat) (h : n < 2 ^ 24) : rn24 n = n := by
  unfold rn24
  by_cases hn : n = 0
  · subst hn; rfl
  · rw [if_pos]
    have := (Nat.log2_lt hn).2 h
    omega

/-- rounding up costs at most half a unit of the last place: `rn24 n ≤ n + n / 2^24` -/
theorem rn24_le (n : Nat) : 2 ^ 24 * rn24 n ≤ (2 ^ 24 + 1) * n := by
  unfold rn24
  by_cases hl : Nat.log2 n ≤ 23
  · rw [if_pos hl]; omega
  · rw [if_neg hl]
    have hn : n ≠ 0 := by intro h; subst h; simp [Nat.log2] at hl
    obtain ⟨a, b⟩ := q_range n (by omega)
    obtain ⟨sh, hsh⟩ : ∃ sh, Nat.log2 n = sh + 24 := ⟨Nat.log2 n - 24, by omega⟩
    have hs : Nat.log2 n - 23 = sh + 1 := by omega
    unfold rq
    simp only [hs, Nat.add_sub_cancel] at a b ⊢
    have hdm := Nat.div_add_mod n (2 ^ (sh + 1))
    have hr : n % 2 ^ (sh + 1) < 2 ^ (sh + 1) := Nat.mod_lt _ (Nat.pow_pos (by decide))
    have hp : 2 ^ (sh + 1) = 2 * 2 ^ sh := by rw [Nat.pow_succ]; ring
    rw [hp] at hdm hr a b ⊢
    generalize n / (2 * 2 ^ sh) = q at *
    generalize n % (2 * 2 ^ sh) = r at *
    generalize 2 ^ sh = h at *
    have hq : 2 ^ 23 * (2 * h) ≤ 2 * h * q := by rw [Nat.mul_comm (2 * h) q]; exact Nat.mul_le_mul_right _ a
    split
    · rename_i hup
      have hrh : h ≤ r := by
        simp only [Bool.or_eq_true, Bool.and_eq_true, decide_eq_true_eq, beq_iff_eq] at hup
        rcases hup with h1 | h1 <;> omega
      nlinarith
    · nlinarith

/-- the rounded significand does not change under scaling by `2^k` (already ≥ 2^24) -/
theorem rq_scale_big (n k : Nat) (hl : 23 < Nat.log2 n) : rq (n * 2 ^ k) = rq n := by
  have hn : 0 < n := by
    rcases Nat.eq_zero_or_pos n with h | h
    · subst h; simp [Nat.log2] at hl
    · exact h
  obtain ⟨sh, hsh⟩ : ∃ sh, Nat.log2 n = sh + 24 := ⟨Nat.log2 n - 24, by omega⟩
  unfold rq
  rw [log2_mul_pow n k hn, hsh]
  have e1 : sh + 24 + k - 23 = (sh + 1) + k := by omega
  have e2 : sh + 24 - 23 = sh + 1 := by omega
  have e3 : sh + 1 + k - 1 = sh + k := by omega
  simp only [e1, e2, e3, Nat.add_sub_cancel]
  have hk : 0 < 2 ^ k := Nat.pow_pos (by decide)
  have q1 : n * 2 ^ k / 2 ^ (sh + 1 + k) = n / 2 ^ (sh + 1) := by
    rw [Nat.pow_add, Nat.mul_div_mul_right _ _ hk]
  have r1 : n * 2 ^ k % 2 ^ (sh + 1 + k) = n % 2 ^ (sh + 1) * 2 ^ k := by
    rw [Nat.pow_add, Nat.mul_mod_mul_right]
  rw [q1, r1, Nat.pow_add 2 sh k]
  have c1 : (n % 2 ^ (sh + 1) * 2 ^ k > 2 ^ sh * 2 ^ k) ↔ (n % 2 ^ (sh + 1) > 2 ^ sh) :=
    ⟨fun h => Nat.lt_of_mul_lt_mul_right h, fun h => Nat.mul_lt_mul_of_pos_right h hk⟩
  have c2 : (n % 2 ^ (sh + 1) * 2 ^ k = 2 ^ sh * 2 ^ k) ↔ (n % 2 ^ (sh + 1) = 2 ^ sh) :=
    ⟨fun h => Nat.eq_of_mul_eq_mul_right hk h, fun h => by rw [h]⟩
  simp only [c1, beq_iff_eq, c2, decide_eq_decide.2 c1, Bool.or_eq_true, Bool.and_eq_true, decide_eq_true_eq]

/-- a number below 2^24 scaled beyond 24 bits: the significand is the number itself, left-aligned -/
theorem rq_scale_small (n k : Nat) (hn : 0 < n) (hl : Nat.log2 n ≤ 23) (hk : 23 < Nat.log2 n + k) :
    rq (n * 2 ^ k) = n * 2 ^ (23 - Nat.log2 n) := by
  obtain ⟨d, hd⟩ : ∃ d, 23 = Nat.log2 n + d := ⟨23 - Nat.log2 n, by omega⟩
  obtain ⟨j, hj⟩ : ∃ j, k = d + (j + 1) := ⟨k - d - 1, by omega⟩
  unfold rq
  rw [log2_mul_pow n k hn]
  have e1 : Nat.log2 n + k - 23 = j + 1 := by omega
  have e2 : 23 - Nat.log2 n = d := by omega
  simp only [e1, e2, Nat.add_sub_cancel]
  have hp : 0 < 2 ^ (j + 1) := Nat.pow_pos (by decide)
  have hnk : n * 2 ^ k = n * 2 ^ d * 2 ^ (j + 1) := by rw [hj, Nat.pow_add]; ring
  rw [hnk, Nat.mul_div_cancel _ hp, Nat.mul_mod_left]
  have h0 : ¬ (0 > 2 ^ j) := by omega
  have h1 : ¬ (0 = 2 ^ j) := by have := Nat.pow_pos (n := j) (by decide : 0 < 2); omega
  simp [h0, h1]

/-- **scaling by a power of two moves the exponent field only** -/
theorem fb_scale (n k : Nat) (hn : 0 < n) : fb (n * 2 ^ k) = fb n + k * 2 ^ 23 := by
  have hnk : 0 < n * 2 ^ k := Nat.mul_pos hn (Nat.pow_pos (by decide))
  have hlog := log2_mul_pow n k hn
  by_cases hl : Nat.log2 n ≤ 23
  · by_cases hk : Nat.log2 n + k ≤ 23
    · rw [fb_small _ hnk (by rw [hlog]; exact hk), fb_small _ hn hl, hlog]
      have e : n * 2 ^ k * 2 ^ (23 - (Nat.log2 n + k)) = n * 2 ^ (23 - Nat.log2 n) := by
        rw [Nat.mul_assoc, ← Nat.pow_add]; congr 2; omega
      rw [e]
      have hge : 2 ^ 23 ≤ n * 2 ^ (23 - Nat.log2 n) := by
        have := Nat.mul_le_mul_right (2 ^ (23 - Nat.log2 n)) (Nat.log2_self_le (by omega : n ≠ 0))
        rw [← Nat.pow_add] at this
        have e' : Nat.log2 n + (23 - Nat.log2 n) = 23 := by omega
        rw [e'] at this; exact this
      generalize n * 2 ^ (23 - Nat.log2 n) = X at *
      ring_nf
    · rw [fb_big _ (by rw [hlog]; omega), fb_small _ hn hl, hlog, rq_scale_small n k hn hl (by omega)]
      have hge : 2 ^ 23 ≤ n * 2 ^ (23 - Nat.log2 n) := by
        have := Nat.mul_le_mul_right (2 ^ (23 - Nat.log2 n)) (Nat.log2_self_le (by omega : n ≠ 0))
        rw [← Nat.pow_add] at this
        have e' : Nat.log2 n + (23 - Nat.log2 n) = 23 := by omega
        rw [e'] at this; exact this
      generalize n * 2 ^ (23 - Nat.log2 n) = X at *
      ring_nf
  · rw [fb_big _ (by rw [hlog]; omega), fb_big _ (by omega), hlog, rq_scale_big n k (by omega)]
    ring

/-- rounding to 24 bits commutes with scaling by `2^k` -/
theorem rn24_scale (n k : Nat) (hn : 0 < n) : rn24 (n * 2 ^ k) = rn24 n * 2 ^ k := by
  have hlog := log2_mul_pow n k hn
  unfold rn24
  rw [hlog]
  by_cases hl : Nat.log2 n ≤ 23
  · by_cases hk : Nat.log2 n + k ≤ 23
    · rw [if_pos hk, if_pos hl]
    · rw [if_neg hk, if_pos hl, rq_scale_small n k hn hl (by omega), Nat.mul_assoc, ← Nat.pow_add]
      congr 2; omega
  · rw [if_neg (by omega), if_neg hl, rq_scale_big n k (by omega), Nat.mul_assoc, ← Nat.pow_add]
    congr 2; omega

/-- the structure of `n as f32` for `n > 0`: exponent field `⌊log₂ (rn24 n)⌋ + 127`, significand `m` with
`m · 2^(⌊log₂ (rn24 n)⌋ − 23) = rn24 n` (written without negative exponents) -/
theorem fb_struct (n : Nat) (hn : 0 < n) :
    ∃ m, 2 ^ 23 ≤ m ∧ m < 2 ^ 24 ∧ fb n = (Nat.log2 (rn24 n) + 126) * 2 ^ 23 + m ∧
      m * 2 ^ (Nat.log2 (rn24 n) + 126) = rn24 n * 2 ^ 149 := by
  have hn' : n ≠ 0 := by omega
  by_cases hl : Nat.log2 n ≤ 23
  · have hV : rn24 n = n := by unfold rn24; rw [if_pos hl]
    have hge : 2 ^ 23 ≤ n * 2 ^ (23 - Nat.log2 n) := by
      have := Nat.mul_le_mul_right (2 ^ (23 - Nat.log2 n)) (Nat.log2_self_le hn')
      rw [← Nat.pow_add] at this
      have e' : Nat.log2 n + (23 - Nat.log2 n) = 23 := by omega
      rw [e'] at this; exact this
    have hlt : n * 2 ^ (23 - Nat.log2 n) < 2 ^ 24 := by
      have := Nat.mul_lt_mul_of_pos_right (Nat.lt_log2_self (n := n)) (Nat.pow_pos (n := 23 - Nat.log2 n) (by decide : 0 < 2))
      rw [← Nat.pow_add] at this
      have e' : Nat.log2 n + 1 + (23 - Nat.log2 n) = 24 := by omega
      rw [e'] at this; exact this
    refine ⟨n * 2 ^ (23 - Nat.log2 n), hge, hlt, ?_, ?_⟩
    · rw [hV, fb_small n hn hl]
      generalize n * 2 ^ (23 - Nat.log2 n) = X at *
      ring_nf; omega
    · rw [hV, Nat.mul_assoc, ← Nat.pow_add]; congr 2; omega
  · have hl' : 23 < Nat.log2 n := by omega
    obtain ⟨a, b⟩ := rq_range n hl'
    obtain ⟨sh, hsh⟩ : ∃ sh, Nat.log2 n = sh + 23 := ⟨Nat.log2 n - 23, by omega⟩
    have hV : rn24 n = rq n * 2 ^ sh := by
      unfold rn24; rw [if_neg hl, hsh]; simp only [Nat.add_sub_cancel]
    by_cases hc : rq n = 2 ^ 24
    · -- carry into the next binade
      have hV' : rn24 n = 2 ^ (sh + 24) := by rw [hV, hc, ← Nat.pow_add]; congr 1; omega
      refine ⟨2 ^ 23, le_refl _, by norm_num, ?_, ?_⟩
      · rw [hV', Nat.log2_two_pow, fb_big n hl', hc, hsh]; ring_nf
      · rw [hV', Nat.log2_two_pow, ← Nat.pow_add, ← Nat.pow_add]; congr 1; omega
    · have hlog : Nat.log2 (rn24 n) = sh + 23 := by
        rw [hV]
        apply log2_unique
        · rw [Nat.pow_add, Nat.mul_comm]; exact Nat.mul_le_mul_right _ a
        · have : sh + 23 + 1 = 24 + sh := by omega
          rw [this, Nat.pow_add]
          exact Nat.mul_lt_mul_of_pos_right (by omega) (Nat.pow_pos (by decide))
      refine ⟨rq n, a, by omega, ?_, ?_⟩
      · rw [hlog, fb_big n hl', hsh]
        generalize rq n = X at *
        ring_nf; omega
      · rw [hlog, hV, Nat.mul_assoc, ← Nat.pow_add]

/-- the exponent field of `n as f32` -/
theorem fb_expfield (n : Nat) (hn : 0 < n) : fb n / 2 ^ 23 = Nat.log2 (rn24 n) + 127 := by
  obtain ⟨m, h1, h2, h3, _⟩ := fb_struct n hn
  rw [h3]; omega

-- 2^24 + 1 is a tie and goes to the even neighbour 2^24; 2^24 + 3 is a tie and goes up to 2^24 + 4;
-- 2^25 − 1 carries into the next binade
example : rn24 (2 ^ 24 + 1) = 2 ^ 24 ∧ rn24 (2 ^ 24 + 3) = 2 ^ 24 + 4 ∧ rn24 (2 ^ 25 - 1) = 2 ^ 25 := by decide +kernel
example : fb 1 = 0x3f800000 ∧ fb 3 = 0x40400000 ∧ fb (2 ^ 24 + 1) = 0x4b800000 ∧ fb (2 ^ 64 - 1) = 0x5f800000 := by
  decide +kernel
example : fb (12345 * 2 ^ 7) = fb 12345 + 7 * 2 ^ 23 := fb_scale 12345 7 (by decide)

/-! ## 2. Decoding and rounding in the `f32` model of `RustPrelude` -/

/-- the pattern 0 decodes as significand 0 at the subnormal exponent -/
theorem decode_zero : fpDecode 23 8 0 = some (0, -149) := by decide

/-- decoding a normal pattern given by exponent field `X + 1` and significand `m` (hidden bit included) -/
theorem decode_normal (X m : Nat) (h1 : 2 ^ 23 ≤ m) (h2 : m < 2 ^ 24) (hX : X ≤ 253) :
    fpDecode 23 8 (X * 2 ^ 23 + m) = some (m, (X : Int) - 149) := by
  unfold fpDecode
  have a : (X * 2 ^ 23 + m) / 2 ^ 23 % 2 ^ 8 = X + 1 := by omega
  have b : (X * 2 ^ 23 + m) % 2 ^ 23 = m - 2 ^ 23 := by omega
  have c : (X * 2 ^ 23 + m) / 2 ^ (23 + 8) = 0 := by omega
  simp only [a, b, c]
  have h3 : ((X + 1 == 2 ^ 8 - 1) = false) := by rw [beq_eq_false_iff_ne]; omega
  have h4 : ((X + 1 == 0) = false) := by rw [beq_eq_false_iff_ne]; omega
  simp only [bne_self_eq_false, Bool.false_eq_true, if_false, h3, h4]
  simp only [Option.some.injEq, Prod.mk.injEq]
  constructor
  · omega
  · norm_num; omega

/-- **one rounding in the model = `as f32` of the significand, exponent field shifted**: for `M > 0` with
`−126 ≤ E + ⌊log₂ M⌋ ≤ 126` (a normal result, no overflow) -/
theorem fpRound_eq (M : Nat) (E : Int) (hM : 0 < M) (hlo : -126 ≤ E + Nat.log2 M) (hhi : E + Nat.log2 M ≤ 126) :
    fpRound 23 8 M E false = some ((fb M : Int) + E * 2 ^ 23).toNat := by
  have hM' : M ≠ 0 := by omega
  unfold fpRound
  have hb : (M == 0) = false := by rw [beq_eq_false_iff_ne]; exact hM'
  simp only [hb, Bool.false_eq_true, if_false]
  have e0 : max (E + (Nat.log2 M : Int) - (23 : Nat)) (1 - ((2 : Int) ^ (8 - 1) - 1) - (23 : Nat))
      = E + (Nat.log2 M : Int) - 23 := by
    norm_num; omega
  simp only [e0]
  by_cases hl : Nat.log2 M ≤ 23
  · have hc : E + (Nat.log2 M : Int) - 23 ≤ E := by omega
    have hsh : (E - (E + (Nat.log2 M : Int) - 23)).toNat = 23 - Nat.log2 M := by omega
    simp only [hc, if_true, hsh]
    have hge : 2 ^ 23 ≤ M * 2 ^ (23 - Nat.log2 M) := by
      have := Nat.mul_le_mul_right (2 ^ (23 - Nat.log2 M)) (Nat.log2_self_le hM')
      rw [← Nat.pow_add] at this
      have e' : Nat.log2 M + (23 - Nat.log2 M) = 23 := by omega
      rw [e'] at this; exact this
    have hlt : M * 2 ^ (23 - Nat.log2 M) < 2 ^ 24 := by
      have := Nat.mul_lt_mul_of_pos_right (Nat.lt_log2_self (n := M)) (Nat.pow_pos (n := 23 - Nat.log2 M) (by decide : 0 < 2))
      rw [← Nat.pow_add] at this
      have e' : Nat.log2 M + 1 + (23 - Nat.log2 M) = 24 := by omega
      rw [e'] at this; exact this
    rw [fb_small M hM hl]
    generalize M * 2 ^ (23 - Nat.log2 M) = q at *
    simp only [Bool.false_eq_true, if_false, hge, ge_iff_le, if_true]
    norm_num
    constructor <;> omega
  · have hc : ¬ (E + (Nat.log2 M : Int) - 23 ≤ E) := by omega
    have hsh : (E + (Nat.log2 M : Int) - 23 - E).toNat = Nat.log2 M - 23 := by omega
    simp only [hc, if_false, hsh]
    obtain ⟨a, b⟩ := rq_range M (by omega)
    rw [fb_big M (by omega)]
    have hrq : (if (decide (M % 2 ^ (Nat.log2 M - 23) > 2 ^ (Nat.log2 M - 23 - 1)) ||
          (M % 2 ^ (Nat.log2 M - 23) == 2 ^ (Nat.log2 M - 23 - 1) &&
            (false || M / 2 ^ (Nat.log2 M - 23) % 2 == 1))) = true
        then M / 2 ^ (Nat.log2 M - 23) + 1 else M / 2 ^ (Nat.log2 M - 23)) = rq M := by
      unfold rq; simp only [Bool.false_or]
    rw [hrq]
    generalize rq M = q at *
    simp only [a, ge_iff_le, if_true]
    norm_num
    constructor <;> omega

/-- `0x5f800000` is `2^64` (`2^23 · 2^41`) -/
theorem decode_two64 : fpDecode 23 8 0x5f800000 = some (2 ^ 23, 41) := by decide

/-- a 24-bit significand has `⌊log₂⌋ = 23` -/
theorem log2_sig (m : Nat) (h1 : 2 ^ 23 ≤ m) (h2 : m < 2 ^ 24) : Nat.log2 m = 23 := log2_unique m 23 h1 h2

/-- a 24-bit significand converts exactly, exponent field 150 -/
theorem fb_sig (m : Nat) (h1 : 2 ^ 23 ≤ m) (h2 : m < 2 ^ 24) : fb m = 149 * 2 ^ 23 + m := by
  rw [fb_small m (by omega) (by rw [log2_sig m h1 h2]), log2_sig m h1 h2]; omega

/-- rounding `n < 2^k` to 24 bits does not go beyond `2^k` -/
theorem rn24_lt (n k : Nat) (hn : 0 < n) (h : n < 2 ^ k) : Nat.log2 (rn24 n) ≤ k := by
  obtain ⟨_, b⟩ := rn24_binade n hn
  have hl : Nat.log2 n < k := (Nat.log2_lt (by omega)).2 h
  have hpos : rn24 n ≠ 0 := by
    have := (rn24_binade n hn).1
    have := Nat.pow_pos (n := Nat.log2 n) (by decide : 0 < 2); omega
  have : rn24 n < 2 ^ (k + 1) := by
    calc rn24 n ≤ 2 ^ (Nat.log2 n + 1) := b
      _ ≤ 2 ^ k := Nat.pow_le_pow_right (by decide) (by omega)
      _ < 2 ^ (k + 1) := Nat.pow_lt_pow_right (by decide) (by omega)
  have := (Nat.log2_lt hpos).2 this
  omega

/-- `fpMul` on two decodable operands with a representable rounded product (avoids unfolding `fpRound` under a `match`) -/
theorem fpMul_of_decode (a b m1 m2 r : Nat) (e1 e2 : Int) (h1 : fpDecode 23 8 a = some (m1, e1))
    (h2 : fpDecode 23 8 b = some (m2, e2)) (hr : fpRound 23 8 (m1 * m2) (e1 + e2) false = some r) :
    fpMul 23 8 a b = .ok r := by
  unfold fpMul; rw [h1, h2]; simp only [hr]

/-- `fpAdd` of two non-negative decodable operands with a representable rounded sum -/
theorem fpAdd_of_decode (a b m1 m2 r : Nat) (e1 e2 : Int) (h1 : fpDecode 23 8 a = some (m1, e1))
    (h2 : fpDecode 23 8 b = some (m2, e2))
    (hr : fpRound 23 8 (m1 * 2 ^ (e1 - min e1 e2).toNat + m2 * 2 ^ (e2 - min e1 e2).toNat) (min e1 e2) false = some r) :
    fpAdd 23 8 a b = .ok r := by
  unfold fpAdd; rw [h1, h2]; simp only [hr]

/-- multiplying `n as f32` by `2^64` (the constant `0x5f800000`): the exponent field moves by 64 -/
theorem fpMul_two64 (n : Nat) (hn : 0 < n) (h : n < 2 ^ 60) :
    fpMul 23 8 (fb n) 0x5f800000 = .ok (fb n + 64 * 2 ^ 23) := by
  obtain ⟨m, h1, h2, h3, _⟩ := fb_struct n hn
  have hlv := rn24_lt n 60 hn h
  have hlog : Nat.log2 (m * 2 ^ 23) = 46 := by rw [log2_mul_pow m 23 (by omega), log2_sig m h1 h2]
  have hd : fpDecode 23 8 (fb n) = some (m, ((Nat.log2 (rn24 n) + 126 : Nat) : Int) - 149) := by
    rw [h3]; exact decode_normal _ m h1 h2 (by omega)
  have hr := fpRound_eq (m * 2 ^ 23) (((Nat.log2 (rn24 n) + 126 : Nat) : Int) - 149 + 41) (by omega)
    (by rw [hlog]; push_cast; omega) (by rw [hlog]; push_cast; omega)
  rw [fpMul_of_decode _ _ _ _ _ _ _ hd decode_two64 hr, fb_scale m 23 (by omega), fb_sig m h1 h2, h3]
  apply congrArg Except.ok
  push_cast; omega

/-- `0.0 · 2^64 = 0.0` -/
theorem fpMul_zero : fpMul 23 8 0 0x5f800000 = .ok 0 := by decide

/-- the sum of two decoded operands, rounded once -/
theorem fpAdd_eq (P B m1 k1 m2 k2 : Nat) (hP : fpDecode 23 8 P = some (m1, (k1 : Int) - 149))
    (hB : fpDecode 23 8 B = some (m2, (k2 : Int) - 149)) (hN : 0 < m1 * 2 ^ k1 + m2 * 2 ^ k2)
    (hlo : 23 ≤ Nat.log2 (m1 * 2 ^ k1 + m2 * 2 ^ k2)) (hhi : Nat.log2 (m1 * 2 ^ k1 + m2 * 2 ^ k2) ≤ 275) :
    fpAdd 23 8 P B = .ok (fb (m1 * 2 ^ k1 + m2 * 2 ^ k2) - 149 * 2 ^ 23) := by
  obtain ⟨k, hk⟩ : ∃ k : Nat, k = min k1 k2 := ⟨_, rfl⟩
  have hmin : min ((k1 : Int) - 149) ((k2 : Int) - 149) = (k : Int) - 149 := by omega
  apply fpAdd_of_decode P B m1 m2 _ _ _ hP hB
  rw [hmin]
  have d1 : ((k1 : Int) - 149 - ((k : Int) - 149)).toNat = k1 - k := by omega
  have d2 : ((k2 : Int) - 149 - ((k : Int) - 149)).toNat = k2 - k := by omega
  rw [d1, d2]
  have hNk : m1 * 2 ^ k1 + m2 * 2 ^ k2 = (m1 * 2 ^ (k1 - k) + m2 * 2 ^ (k2 - k)) * 2 ^ k := by
    rw [Nat.add_mul, Nat.mul_assoc, Nat.mul_assoc, ← Nat.pow_add, ← Nat.pow_add]
    congr 3 <;> omega
  have hM : 0 < m1 * 2 ^ (k1 - k) + m2 * 2 ^ (k2 - k) := by
    rcases Nat.eq_zero_or_pos (m1 * 2 ^ (k1 - k) + m2 * 2 ^ (k2 - k)) with h | h
    · rw [hNk, h] at hN; simp at hN
    · exact h
  have hlog := log2_mul_pow _ k hM
  rw [← hNk] at hlog
  rw [fpRound_eq _ _ hM (by omega) (by omega), hNk, fb_scale _ k hM]
  apply congrArg some
  have := (fb_struct _ hM).choose_spec.2.2.1
  omega

/-! ## 3. The chain `fx = (CX.w[1] as f32) * 2^64 + (CX.w[0] as f32)` -/

/-- `rn24 0 = 0` -/
theorem rn24_zero : rn24 0 = 0 := rfl

/-- decoding `n as f32` with the exponent field moved by `j` -/
theorem dec_val (n j : Nat) (hn : n < 2 ^ 64) (hj : j = 0 ∨ (j = 64 ∧ n < 2 ^ 60)) :
    ∃ (m k : Nat), fpDecode 23 8 (if n = 0 then 0 else fb n + j * 2 ^ 23) = some (m, (k : Int) - 149) ∧
      m * 2 ^ k = rn24 n * 2 ^ j * 2 ^ 149 ∧ (if n = 0 then 0 else fb n + j * 2 ^ 23) < 2 ^ 32 := by
  by_cases h0 : n = 0
  · subst h0
    refine ⟨0, 0, ?_, by simp [rn24_zero], by simp⟩
    simp only [if_true]; exact decode_zero
  · rw [if_neg h0]
    have hn0 : 0 < n := by omega
    obtain ⟨m, h1, h2, h3, h4⟩ := fb_struct n hn0
    have hlv : Nat.log2 (rn24 n) + j ≤ 124 := by
      rcases hj with rfl | ⟨rfl, h60⟩
      · have := rn24_lt n 64 hn0 hn; omega
      · have := rn24_lt n 60 hn0 h60; omega
    refine ⟨m, Nat.log2 (rn24 n) + 126 + j, ?_, ?_, ?_⟩
    · have : fb n + j * 2 ^ 23 = (Nat.log2 (rn24 n) + 126 + j) * 2 ^ 23 + m := by rw [h3]; ring
      rw [this]
      exact decode_normal _ m h1 h2 (by omega)
    · rw [Nat.pow_add, ← Nat.mul_assoc, h4]; ring
    · rw [h3]; omega

/-- the translated cast `x as u64` of a `u64` is the identity -/
theorem u64_cast_id (x : UInt64) : UInt64.ofInt (toI x) = x := by
  rw [← UInt64.toNat_inj, C13GenPack.toNat_ofInt]
  simp only [toI, PackH.wordOfI32]
  have := x.toNat_lt; omega

/-- **the bits of `fx`**: the translated chain `F32U.add (F32U.mul (ofU64 c1) 2^64) (ofU64 c0)` never fails for a
coefficient `0 < c1·2^64 + c0` with `c1 < 2^60`, and its result is `S as f32` for the natural number
`S = rn24 c1 · 2^64 + rn24 c0` — each of the two conversions rounds once, the multiplication is exact, the addition rounds
once. -/
theorem fx_bits (c1 c0 : UInt64) (h1 : c1.toNat < 2 ^ 60) (hC : 0 < c1.toNat + c0.toNat) :
    ∃ P, F32U.mul (F32U.ofU64 (UInt64.ofInt (toI c1))) (⟨(0x5f800000 : UInt32)⟩ : F32U) = .ok P ∧
      F32U.add P (F32U.ofU64 (UInt64.ofInt (toI c0)))
        = .ok ⟨UInt32.ofNat (fb (rn24 c1.toNat * 2 ^ 64 + rn24 c0.toNat))⟩ := by
  rw [u64_cast_id, u64_cast_id]
  obtain ⟨m1, k1, hd1, hv1, hb1⟩ := dec_val c1.toNat 64 c1.toNat_lt (Or.inr ⟨rfl, h1⟩)
  obtain ⟨m2, k2, hd2, hv2, hb2⟩ := dec_val c0.toNat 0 c0.toNat_lt (Or.inl rfl)
  simp only [Nat.zero_mul, Nat.add_zero, Nat.pow_zero, Nat.mul_one, ite_self] at hd2 hv2 hb2
  have hfb0 : (if c0.toNat = 0 then 0 else fb c0.toNat) = fb c0.toNat := by
    split
    · rename_i h; rw [h]; rfl
    · rfl
  rw [hfb0] at hd2 hb2
  -- the product
  have hmul : F32U.mul (F32U.ofU64 c1) (⟨(0x5f800000 : UInt32)⟩ : F32U)
      = .ok ⟨UInt32.ofNat (if c1.toNat = 0 then 0 else fb c1.toNat + 64 * 2 ^ 23)⟩ := by
    unfold F32U.mul F32U.ofU64
    have hb : (UInt32.ofNat (fb c1.toNat)).toNat = fb c1.toNat := by
      rw [UInt32.toNat_ofNat']
      apply Nat.mod_eq_of_lt
      by_cases h0 : c1.toNat = 0
      · rw [h0]; decide
      · rw [if_neg h0] at hb1; omega
    have hc : (0x5f800000 : UInt32).toNat = 0x5f800000 := by decide
    simp only [hb, hc]
    by_cases h0 : c1.toNat = 0
    · rw [h0, if_pos rfl, fb_zero, fpMul_zero]; rfl
    · rw [if_neg h0, fpMul_two64 _ (by omega) h1]; rfl
  refine ⟨_, hmul, ?_⟩
  unfold F32U.add F32U.ofU64
  have hbP : (UInt32.ofNat (if c1.toNat = 0 then 0 else fb c1.toNat + 64 * 2 ^ 23)).toNat
      = (if c1.toNat = 0 then 0 else fb c1.toNat + 64 * 2 ^ 23) := by
    rw [UInt32.toNat_ofNat']; exact Nat.mod_eq_of_lt hb1
  have hbB : (UInt32.ofNat (fb c0.toNat)).toNat = fb c0.toNat := by
    rw [UInt32.toNat_ofNat']; exact Nat.mod_eq_of_lt hb2
  simp only [hbP, hbB]
  -- the sum
  have hN : m1 * 2 ^ k1 + m2 * 2 ^ k2 = (rn24 c1.toNat * 2 ^ 64 + rn24 c0.toNat) * 2 ^ 149 := by
    rw [hv1, hv2]; ring
  have hS : 0 < rn24 c1.toNat * 2 ^ 64 + rn24 c0.toNat := by
    rcases Nat.eq_zero_or_pos c1.toNat with h | h
    · have h0 : 0 < c0.toNat := by omega
      have := (rn24_binade _ h0).1
      have := Nat.pow_pos (n := Nat.log2 c0.toNat) (by decide : 0 < 2)
      omega
    · have := (rn24_binade _ h).1
      have := Nat.pow_pos (n := Nat.log2 c1.toNat) (by decide : 0 < 2)
      have hp : 0 < rn24 c1.toNat := by omega
      exact Nat.add_pos_left (Nat.mul_pos hp (by norm_num)) _
  have hSlt : rn24 c1.toNat * 2 ^ 64 + rn24 c0.toNat < 2 ^ 126 := by
    have a : rn24 c1.toNat ≤ 2 ^ 60 := by
      rcases Nat.eq_zero_or_pos c1.toNat with h | h
      · rw [h, rn24_zero]; norm_num
      · have := (rn24_binade _ h).2
        have hl : Nat.log2 c1.toNat < 60 := (Nat.log2_lt (by omega)).2 h1
        exact le_trans this (Nat.pow_le_pow_right (by decide) (by omega))
    have b : rn24 c0.toNat ≤ 2 ^ 64 := by
      rcases Nat.eq_zero_or_pos c0.toNat with h | h
      · rw [h, rn24_zero]; norm_num
      · have := (rn24_binade _ h).2
        have hl : Nat.log2 c0.toNat < 64 := (Nat.log2_lt (by omega)).2 c0.toNat_lt
        exact le_trans this (Nat.pow_le_pow_right (by decide) (by omega))
    omega
  have hlogS : Nat.log2 (rn24 c1.toNat * 2 ^ 64 + rn24 c0.toNat) < 126 := (Nat.log2_lt (by omega)).2 hSlt
  have hlogN := log2_mul_pow _ 149 hS
  rw [← hN] at hlogN
  have hadd := fpAdd_eq _ _ m1 k1 m2 k2 hd1 hd2 (by rw [hN]; exact Nat.mul_pos hS (by norm_num)) (by omega) (by omega)
  rw [hadd, hN, fb_scale _ 149 hS]
  simp only [Except.map, Nat.add_sub_cancel]

/-! ## 4. Where the exponent of `fx` can land -/

/-- just above a power of two (less than half a unit of the last place above it), rounding goes back down to it -/
theorem rn24_near (t B : Nat) (ht : 24 ≤ t) (hB : B < 2 ^ (t - 24)) : rn24 (2 ^ t + B) = 2 ^ t := by
  obtain ⟨sh, rfl⟩ : ∃ sh, t = sh + 24 := ⟨t - 24, by omega⟩
  simp only [Nat.add_sub_cancel] at hB
  have hp : 2 ^ (sh + 24) = 2 ^ 23 * 2 ^ (sh + 1) := by rw [← Nat.pow_add]; congr 1; omega
  have hp1 : 2 ^ (sh + 1) = 2 * 2 ^ sh := by rw [Nat.pow_succ]; ring
  have hlog : Nat.log2 (2 ^ (sh + 24) + B) = sh + 24 := by
    apply log2_unique
    · omega
    · have : 2 ^ (sh + 24 + 1) = 2 * 2 ^ (sh + 24) := by rw [Nat.pow_succ]; ring
      have h2 : 2 ^ sh ≤ 2 ^ (sh + 24) := Nat.pow_le_pow_right (by decide) (by omega)
      omega
  unfold rn24
  rw [hlog, if_neg (by omega)]
  unfold rq
  rw [hlog]
  have e1 : sh + 24 - 23 = sh + 1 := by omega
  simp only [e1, Nat.add_sub_cancel]
  have hBlt : B < 2 ^ (sh + 1) := by omega
  have hq : (2 ^ (sh + 24) + B) / 2 ^ (sh + 1) = 2 ^ 23 := by
    rw [hp, Nat.mul_comm, Nat.mul_add_div (Nat.pow_pos (by decide)), Nat.div_eq_of_lt hBlt, Nat.add_zero]
  have hr : (2 ^ (sh + 24) + B) % 2 ^ (sh + 1) = B := by
    rw [hp, Nat.mul_comm, Nat.mul_add_mod, Nat.mod_eq_of_lt hBlt]
  rw [hq, hr]
  have h1 : ¬ (B > 2 ^ sh) := by omega
  have h2 : ¬ (B = 2 ^ sh) := by omega
  have hb : (B == 2 ^ sh) = false := by rw [beq_eq_false_iff_ne]; exact h2
  simp only [h1, hb, decide_false, Bool.false_and, Bool.or_self, Bool.false_eq_true, if_false, hp]

/-- powers of two are representable -/
theorem rn24_pow2 (t : Nat) : rn24 (2 ^ t) = 2 ^ t := by
  by_cases ht : 24 ≤ t
  · have := rn24_near t 0 ht (Nat.pow_pos (by decide))
    simpa using this
  · apply rn24_small
    exact Nat.pow_lt_pow_right (by decide) (by omega)

/-- values between `2^L` and `2^(L+1)` round into `[2^L, 2^(L+1)]` -/
theorem rn24_between (S L : Nat) (h1 : 2 ^ L ≤ S) (h2 : S ≤ 2 ^ (L + 1)) : 2 ^ L ≤ rn24 S ∧ rn24 S ≤ 2 ^ (L + 1) := by
  rcases Nat.lt_or_ge S (2 ^ (L + 1)) with h | h
  · have hlog := log2_unique S L h1 h
    have := rn24_binade S (by have := Nat.pow_pos (n := L) (by decide : 0 < 2); omega)
    rw [hlog] at this; exact this
  · have : S = 2 ^ (L + 1) := by omega
    rw [this, rn24_pow2]
    exact ⟨Nat.pow_le_pow_right (by decide) (by omega), le_refl _⟩

/-- **the value of `fx` lies in `[2^L, 2^(L+1)]`** for `L = ⌊log₂ C⌋`: the three roundings can carry the sum up to the
next power of two but never above it, and never below `2^L` -/
theorem fx_binade (c1 c0 : Nat) (hc0 : c0 < 2 ^ 64) (hC : 0 < c1 * 2 ^ 64 + c0) :
    2 ^ Nat.log2 (c1 * 2 ^ 64 + c0) ≤ rn24 (rn24 c1 * 2 ^ 64 + rn24 c0) ∧
      rn24 (rn24 c1 * 2 ^ 64 + rn24 c0) ≤ 2 ^ (Nat.log2 (c1 * 2 ^ 64 + c0) + 1) := by
  have hB : rn24 c0 ≤ 2 ^ 64 := by
    rcases Nat.eq_zero_or_pos c0 with h | h
    · rw [h, rn24_zero]; norm_num
    · have := (rn24_binade _ h).2
      have hl : Nat.log2 c0 < 64 := (Nat.log2_lt (by omega)).2 hc0
      exact le_trans this (Nat.pow_le_pow_right (by decide) (by omega))
  rcases Nat.eq_zero_or_pos c1 with h1 | h1
  · subst h1
    simp only [Nat.zero_mul, Nat.zero_add, rn24_zero] at hC ⊢
    obtain ⟨a, b⟩ := rn24_binade c0 hC
    exact rn24_between _ _ a b
  · obtain ⟨a, b⟩ := rn24_binade c1 h1
    have hl1 := Nat.log2_self_le (by omega : c1 ≠ 0)
    have hl2 : c1 < 2 ^ (Nat.log2 c1 + 1) := Nat.lt_log2_self
    have hL : Nat.log2 (c1 * 2 ^ 64 + c0) = Nat.log2 c1 + 64 := by
      apply log2_unique
      · rw [Nat.pow_add]
        exact Nat.le_trans (Nat.mul_le_mul_right (2 ^ 64) hl1) (Nat.le_add_right _ _)
      · have e : 2 ^ (Nat.log2 c1 + 64 + 1) = 2 ^ (Nat.log2 c1 + 1) * 2 ^ 64 := by
          rw [← Nat.pow_add]
        rw [e]
        have h' : (c1 + 1) * 2 ^ 64 ≤ 2 ^ (Nat.log2 c1 + 1) * 2 ^ 64 := Nat.mul_le_mul_right _ hl2
        rw [Nat.add_mul, Nat.one_mul] at h'
        exact Nat.lt_of_lt_of_le (Nat.add_lt_add_left hc0 _) h'
    rw [hL]
    have e1 : 2 ^ (Nat.log2 c1 + 64) = 2 ^ Nat.log2 c1 * 2 ^ 64 := Nat.pow_add _ _ _
    have e2 : 2 ^ (Nat.log2 c1 + 64 + 1) = 2 ^ (Nat.log2 c1 + 1) * 2 ^ 64 := by
      rw [← Nat.pow_add]
    rcases Nat.lt_or_ge (rn24 c1) (2 ^ (Nat.log2 c1 + 1)) with hlt | hge
    · apply rn24_between
      · rw [e1]
        exact Nat.le_trans (Nat.mul_le_mul_right (2 ^ 64) a) (Nat.le_add_right _ _)
      · rw [e2]
        have h' : (rn24 c1 + 1) * 2 ^ 64 ≤ 2 ^ (Nat.log2 c1 + 1) * 2 ^ 64 := Nat.mul_le_mul_right _ hlt
        rw [Nat.add_mul, Nat.one_mul] at h'
        exact Nat.le_trans (Nat.add_le_add_left hB _) h'
    · have hA : rn24 c1 = 2 ^ (Nat.log2 c1 + 1) := by omega
      -- then c1 ≥ 2^24
      have h24 : 24 ≤ Nat.log2 c1 := by
        by_contra hcon
        have : c1 < 2 ^ 24 := by
          calc c1 < 2 ^ (Nat.log2 c1 + 1) := hl2
            _ ≤ 2 ^ 24 := Nat.pow_le_pow_right (by decide) (by omega)
        rw [rn24_small c1 this] at hA
        omega
      rw [hA, ← e2]
      have hBlt : rn24 c0 < 2 ^ (Nat.log2 c1 + 64 + 1 - 24) := by
        have : 2 ^ 65 ≤ 2 ^ (Nat.log2 c1 + 64 + 1 - 24) := Nat.pow_le_pow_right (by decide) (by omega)
        omega
      rw [rn24_near _ _ (by omega) hBlt]
      exact ⟨Nat.pow_le_pow_right (by decide) (by omega), le_refl _⟩

/-- when `fx` lands on the next power of two, the coefficient is within a relative `2^-22` of it -/
theorem fx_close (c1 c0 T : Nat) (hT : rn24 (rn24 c1 * 2 ^ 64 + rn24 c0) = T) (hlt : c1 * 2 ^ 64 + c0 < T) :
    T - TF.cdiv T (2 ^ 20) ≤ c1 * 2 ^ 64 + c0 := by
  have h1 := rn24_le (rn24 c1 * 2 ^ 64 + rn24 c0)
  have h2 := rn24_le c1
  have h3 := rn24_le c0
  rw [hT] at h1
  unfold TF.cdiv
  generalize rn24 c1 = A at *
  generalize rn24 c0 = B at *
  omega

open Dec.Rs Dec.Gen.Code Dec.C13GenPack Dec.C13PackHelpers Dec.TableFacts Dec.TF
open Dec.C06GenFromInt (ofBits ofBits_encode_int)

/-- **the exponent field of `fx`** (the float part of `bid128_ilogb`): for every coefficient `0 < C = c1·2^64 + c0` with
`c1 < 2^60` (in particular every `0 < C < 10^34`) the translated chain `(c1 as f32)·2^64 + (c0 as f32)` does not fail and
the biased exponent field `(bits >> 23) & 0xff` of its result is `⌊log₂ C⌋ + 127` or `⌊log₂ C⌋ + 128`; the second case
occurs only when the three roundings carry to the power of two `2^(⌊log₂ C⌋+1)`, and then `C` is within a relative
`2^-20` below that power (`fx_close`) -/
theorem fx_expfield (c1 c0 : UInt64) (h1 : c1.toNat < 2 ^ 60) (hC : 0 < c1.toNat * 2 ^ 64 + c0.toNat) :
    ∃ P fx, F32U.mul (F32U.ofU64 (UInt64.ofInt (toI c1))) (⟨(0x5f800000 : UInt32)⟩ : F32U) = .ok P ∧
      F32U.add P (F32U.ofU64 (UInt64.ofInt (toI c0))) = .ok fx ∧
      (fx.bits.toNat / 2 ^ 23 % 2 ^ 8 = Nat.log2 (c1.toNat * 2 ^ 64 + c0.toNat) + 127 ∨
       (fx.bits.toNat / 2 ^ 23 % 2 ^ 8 = Nat.log2 (c1.toNat * 2 ^ 64 + c0.toNat) + 128 ∧
        2 ^ (Nat.log2 (c1.toNat * 2 ^ 64 + c0.toNat) + 1)
          - cdiv (2 ^ (Nat.log2 (c1.toNat * 2 ^ 64 + c0.toNat) + 1)) (2 ^ 20) ≤ c1.toNat * 2 ^ 64 + c0.toNat)) := by
  obtain ⟨P, hm, ha⟩ := fx_bits c1 c0 h1 (by omega)
  refine ⟨P, _, hm, ha, ?_⟩
  have hSpos : 0 < rn24 c1.toNat * 2 ^ 64 + rn24 c0.toNat := by
    rcases Nat.eq_zero_or_pos c1.toNat with h | h
    · have h0 : 0 < c0.toNat := by omega
      have h2 := (rn24_binade _ h0).1
      have h3 := Nat.pow_pos (n := Nat.log2 c0.toNat) (by decide : 0 < 2)
      exact Nat.add_pos_right _ (Nat.lt_of_lt_of_le h3 h2)
    · have h2 := (rn24_binade _ h).1
      have h3 := Nat.pow_pos (n := Nat.log2 c1.toNat) (by decide : 0 < 2)
      have hp : 0 < rn24 c1.toNat := Nat.lt_of_lt_of_le h3 h2
      exact Nat.add_pos_left (Nat.mul_pos hp (by norm_num)) _
  obtain ⟨a, b⟩ := fx_binade c1.toNat c0.toNat c0.toNat_lt hC
  have hlt : c1.toNat * 2 ^ 64 + c0.toNat < 2 ^ (Nat.log2 (c1.toNat * 2 ^ 64 + c0.toNat) + 1) := Nat.lt_log2_self
  have hL : Nat.log2 (c1.toNat * 2 ^ 64 + c0.toNat) < 124 := (Nat.log2_lt (by omega)).2 (by have := c0.toNat_lt; omega)
  obtain ⟨m, hm1, hm2, hst, _⟩ := fb_struct _ hSpos
  have hf := fx_close c1.toNat c0.toNat _ rfl
  generalize hLd : Nat.log2 (c1.toNat * 2 ^ 64 + c0.toNat) = L at *
  generalize hF : rn24 (rn24 c1.toNat * 2 ^ 64 + rn24 c0.toNat) = F at *
  have hX : Nat.log2 F = L ∨ (Nat.log2 F = L + 1 ∧ F = 2 ^ (L + 1)) := by
    rcases Nat.lt_or_ge F (2 ^ (L + 1)) with h | h
    · exact Or.inl (log2_unique F L a h)
    · have hFe : F = 2 ^ (L + 1) := by omega
      exact Or.inr ⟨by rw [hFe, Nat.log2_two_pow], hFe⟩
  have hbits : (UInt32.ofNat (fb (rn24 c1.toNat * 2 ^ 64 + rn24 c0.toNat))).toNat / 2 ^ 23 % 2 ^ 8 = Nat.log2 F + 127 := by
    rw [UInt32.toNat_ofNat', hst]
    have : Nat.log2 F + 126 < 2 ^ 8 - 1 := by rcases hX with h | ⟨h, _⟩ <;> omega
    omega
  show (UInt32.ofNat _).toNat / 2 ^ 23 % 2 ^ 8 = _ ∨ _
  rw [hbits]
  rcases hX with h | ⟨h, hFe⟩
  · left; omega
  · right
    refine ⟨by omega, ?_⟩
    rw [← hFe]
    exact hf (by omega)

-- the carry case: C = 2^64 − 1 has ⌊log₂ C⌋ = 63, but `C as f32` is 2^64, exponent field 64 + 127
example : fb (rn24 0 * 2 ^ 64 + rn24 (2 ^ 64 - 1)) / 2 ^ 23 = 63 + 128 := by decide +kernel
example : F32U.add ⟨0⟩ (F32U.ofU64 0xffffffffffffffff) = .ok ⟨0x5f800000⟩ := by decide +kernel

/-! ## 5. The table look-ups and the comparison of `bid128_ilogb` -/

/-- the index `((fx.bits >> 23) & 0xff) − 0x7f` as `usize`, for `fx = S as f32` -/
theorem idx_toNat (S : Nat) (hS : 0 < S) (hX : Nat.log2 (rn24 S) ≤ 126) :
    (UInt64.ofInt (toI (((UInt32.ofNat (fb S)) >>> 23 &&& 255) - 127))).toNat = Nat.log2 (rn24 S) := by
  obtain ⟨m, h1, h2, h3, _⟩ := fb_struct S hS
  have hlt : fb S < 2 ^ 32 := by rw [h3]; omega
  have hb : (UInt32.ofNat (fb S)).toNat = fb S := by rw [UInt32.toNat_ofNat']; exact Nat.mod_eq_of_lt hlt
  have a : ((UInt32.ofNat (fb S)) >>> 23 &&& 255).toNat = Nat.log2 (rn24 S) + 127 := by
    rw [UInt32.toNat_and, UInt32.toNat_shiftRight, hb]
    have e1 : (23 : UInt32).toNat % 32 = 23 := by decide
    have e2 : (255 : UInt32).toNat = 2 ^ 8 - 1 := by decide
    rw [e1, e2, Nat.and_two_pow_sub_one_eq_mod, Nat.shiftRight_eq_div_pow, h3]
    omega
  have b : (((UInt32.ofNat (fb S)) >>> 23 &&& 255) - 127).toNat = Nat.log2 (rn24 S) := by
    rw [UInt32.toNat_sub, a]
    have : (127 : UInt32).toNat = 127 := by decide
    rw [this]; omega
  rw [C13GenPack.toNat_ofInt]
  simp only [toI, PackH.wordOfI32, b]
  omega

/-- `BID_ESTIMATE_DECIMAL_DIGITS`: 129 entries, each below 2^31 (checked on the generated table) -/
theorem est_len : Dec.Gen.BID_ESTIMATE_DECIMAL_DIGITS.length = 129 ∧
    Dec.Gen.BID_ESTIMATE_DECIMAL_DIGITS.all (· < 2 ^ 31) = true := by decide +kernel
/-- `BID_POWER10_INDEX_BINEXP_128` (flattened): 250 words, each below 2^64, the high words of the first 125 entries below 2^63 -/
theorem p10_len : Dec.Gen.BID_POWER10_INDEX_BINEXP_128.length = 250 ∧
    Dec.Gen.BID_POWER10_INDEX_BINEXP_128.all (· < 2 ^ 64) = true ∧
    (List.range 125).all (fun i => decide (Dec.Gen.BID_POWER10_INDEX_BINEXP_128.getD (2 * i + 1) 0 < 2 ^ 63)) = true := by
  decide +kernel

/-- `BID_ESTIMATE_DECIMAL_DIGITS[i]` as an `i32` -/
theorem est_read (i : UInt64) (hi : i.toNat < 129) :
    ∃ d : Int32, tblI32 Dec.Gen.BID_ESTIMATE_DECIMAL_DIGITS i = .ok d ∧
      d.toInt = Dec.Gen.BID_ESTIMATE_DECIMAL_DIGITS.getD i.toNat 0 := by
  unfold tblI32
  have hlen := est_len.1
  rw [getElem?_getD _ _ (by rw [hlen]; exact hi)]
  refine ⟨_, rfl, ?_⟩
  have hv : Dec.Gen.BID_ESTIMATE_DECIMAL_DIGITS.getD i.toNat 0 < 2 ^ 31 := by
    have h := est_len.2
    rw [List.all_eq_true] at h
    have := h (Dec.Gen.BID_ESTIMATE_DECIMAL_DIGITS[i.toNat]'(by rw [hlen]; exact hi)) (List.getElem_mem _)
    simp only [decide_eq_true_eq] at this
    rw [List.getD_eq_getElem?_getD, List.getElem?_eq_getElem (by rw [hlen]; exact hi), Option.getD_some]
    exact this
  generalize Dec.Gen.BID_ESTIMATE_DECIMAL_DIGITS.getD i.toNat 0 = v at *
  have : (UInt64.ofNat v).toInt64.toInt = v := by
    show (UInt64.ofNat v).toBitVec.toInt = v
    rw [BitVec.toInt_eq_toNat_cond]
    have : (UInt64.ofNat v).toBitVec.toNat = v := by
      show (UInt64.ofNat v).toNat = v
      rw [UInt64.toNat_ofNat', Nat.mod_eq_of_lt (by omega)]
    rw [this]; split <;> omega
  rw [this, Int32.toInt_ofInt_of_le (by omega) (by omega)]

/-- `BID_POWER10_INDEX_BINEXP_128[i]` -/
theorem p10_read (i : UInt64) (hi : i.toNat < 125) :
    ∃ T : U128, tbl128 Dec.Gen.BID_POWER10_INDEX_BINEXP_128 i = .ok T ∧
      T.w1.toNat * 2 ^ 64 + T.w0.toNat = entry Dec.Gen.BID_POWER10_INDEX_BINEXP_128 2 i.toNat ∧ T.w1.toNat < 2 ^ 63 := by
  have hlen := p10_len.1
  rw [tbl128_eq _ _ (by rw [hlen]; omega)]
  refine ⟨_, rfl, ?_⟩
  have hall := p10_len.2.1
  rw [List.all_eq_true] at hall
  have hw : ∀ j, j < 250 → Dec.Gen.BID_POWER10_INDEX_BINEXP_128.getD j 0 < 2 ^ 64 := by
    intro j hj
    have := hall (Dec.Gen.BID_POWER10_INDEX_BINEXP_128[j]'(by rw [hlen]; exact hj)) (List.getElem_mem _)
    simp only [decide_eq_true_eq] at this
    rw [List.getD_eq_getElem?_getD, List.getElem?_eq_getElem (by rw [hlen]; exact hj), Option.getD_some]
    exact this
  have a := hw (2 * i.toNat) (by omega)
  have b' := hw (2 * i.toNat + 1) (by omega)
  have b : Dec.Gen.BID_POWER10_INDEX_BINEXP_128.getD (2 * i.toNat + 1) 0 < 2 ^ 63 := by
    have := List.all_eq_true.1 p10_len.2.2 i.toNat (List.mem_range.2 hi)
    simpa using this
  simp only [UInt64.toNat_ofNat']
  rw [Nat.mod_eq_of_lt (by omega), Nat.mod_eq_of_lt (by omega)]
  refine ⟨?_, b⟩
  unfold entry
  simp only [List.range, List.range.loop, List.foldr]
  have : i.toNat * 2 + 0 = 2 * i.toNat := by omega
  have : i.toNat * 2 + 1 = 2 * i.toNat + 1 := by omega
  simp only [*]
  omega

/-- the signed test `D > 0` / `D == 0` on `D = (a − b) as i64` for words below 2^63 is the unsigned comparison -/
theorem d_tests (a b : UInt64) (ha : a.toNat < 2 ^ 63) (hb : b.toNat < 2 ^ 63) :
    decide (Int64.ofInt (toI (a - b)) > 0) = decide (a.toNat > b.toNat) ∧
      (Int64.ofInt (toI (a - b)) == 0) = decide (a.toNat = b.toNat) := by
  have hv : (Int64.ofInt (toI (a - b))).toInt = (a.toNat : Int) - b.toNat := by
    simp only [toI]
    rw [Int64.toInt_ofInt, UInt64.toNat_sub]
    unfold Int.bmod
    simp only [Int64.size]
    norm_num
    split <;> omega
  constructor
  · have : Int64.ofInt (toI (a - b)) > 0 ↔ a.toNat > b.toNat := by
      rw [gt_iff_lt, Int64.lt_iff_toInt_lt, hv]
      have : (0 : Int64).toInt = 0 := by decide
      rw [this]; omega
    rw [Bool.eq_iff_iff]; simp only [decide_eq_true_eq]; exact this
  · have : Int64.ofInt (toI (a - b)) = 0 ↔ a.toNat = b.toNat := by
      rw [← Int64.toInt_inj, hv]
      have : (0 : Int64).toInt = 0 := by decide
      rw [this]; omega
    rw [Bool.eq_iff_iff]; simp only [beq_iff_eq, decide_eq_true_eq]; exact this

/-! ## 6. `bid128_ilogb` -/

/-- the exponent bias constant is 6176 -/
theorem bias_toInt : c_DECIMAL_EXPONENT_BIAS_128.toInt = 6176 := by decide

/-- the digit count `bid128_ilogb` obtains: the estimate table at the exponent of `fx`, corrected by one comparison, is
the number of decimal digits -/
theorem est_digits (c1 c0 : Nat) (hc0 : c0 < 2 ^ 64) (hC0 : 0 < c1 * 2 ^ 64 + c0) (hC : c1 * 2 ^ 64 + c0 < 10 ^ 34) :
    Nat.log2 (rn24 (rn24 c1 * 2 ^ 64 + rn24 c0)) ≤ 113 ∧
    estDigitsAt Dec.Gen.BID_ESTIMATE_DECIMAL_DIGITS Dec.Gen.BID_POWER10_INDEX_BINEXP_128
      (Nat.log2 (rn24 (rn24 c1 * 2 ^ 64 + rn24 c0))) (c1 * 2 ^ 64 + c0) = ndigits (c1 * 2 ^ 64 + c0) := by
  obtain ⟨a, b⟩ := fx_binade c1 c0 hc0 hC0
  have h113 : c1 * 2 ^ 64 + c0 < 2 ^ 113 := lt_trans hC (by norm_num)
  have hL : Nat.log2 (c1 * 2 ^ 64 + c0) < 113 := (Nat.log2_lt (by omega)).2 h113
  have hlo := Nat.log2_self_le (by omega : c1 * 2 ^ 64 + c0 ≠ 0)
  have hhi : c1 * 2 ^ 64 + c0 < 2 ^ (Nat.log2 (c1 * 2 ^ 64 + c0) + 1) := Nat.lt_log2_self
  generalize hF : rn24 (rn24 c1 * 2 ^ 64 + rn24 c0) = F at *
  generalize hLd : Nat.log2 (c1 * 2 ^ 64 + c0) = L at *
  rw [ndigits_eq_slow]
  rcases Nat.lt_or_ge F (2 ^ (L + 1)) with hlt | hge
  · have hX : Nat.log2 F = L := log2_unique F L a hlt
    rw [hX]
    refine ⟨by omega, ?_⟩
    have := estDigits_mechanism hC0 h113
    unfold estDigitsLookup at this
    rw [hLd] at this
    exact this
  · have hFe : F = 2 ^ (L + 1) := by omega
    have hX : Nat.log2 F = L + 1 := by rw [hFe, Nat.log2_two_pow]
    rw [hX]
    refine ⟨by omega, ?_⟩
    apply estDigits_mechanism_over (by omega) (by omega) _ hhi hC0
    rw [← hFe]
    exact fx_close c1 c0 F hF (by rw [hFe]; exact hhi)

set_option maxHeartbeats 1000000 in
/-- **`bid128_ilogb` on a finite non-zero operand** (given what the unpacker returned): the biased exponent minus the
bias, minus one, plus the number of decimal digits of the coefficient; status word untouched; no panic (the `f32`
operations stay finite, both table indices are in range) -/
theorem ilogb_finite (x : U128) (f : UInt32) (r sg : UInt64) (ex : Int32) (co : U128)
    (hu : unpack_BID128_value 0 0 default x = .ok (r, sg, ex, co)) (hr : (r == 0) = false)
    (hex : 0 ≤ ex.toInt ∧ ex.toInt ≤ 12287) (hC0 : 0 < bitsOf co) (hC : bitsOf co < 10 ^ 34) :
    bid128_ilogb x f = .ok (Int32.ofInt (ex.toInt - 6176 - 1 + ndigits (bitsOf co)), f) := by
  have hb : bitsOf co = co.w1.toNat * 2 ^ 64 + co.w0.toNat := rfl
  rw [hb] at hC0 hC ⊢
  have hc1 : co.w1.toNat < 2 ^ 60 := by
    have : (10 : Nat) ^ 34 < 2 ^ 113 := by norm_num
    omega
  obtain ⟨Pm, hmul, hadd⟩ := fx_bits co.w1 co.w0 hc1 (by omega)
  obtain ⟨hX, hdig⟩ := est_digits co.w1.toNat co.w0.toNat co.w0.toNat_lt hC0 hC
  have hSpos : 0 < rn24 co.w1.toNat * 2 ^ 64 + rn24 co.w0.toNat := by
    rcases Nat.eq_zero_or_pos co.w1.toNat with h1 | h1
    · have h0 : 0 < co.w0.toNat := by omega
      have h2 := (rn24_binade _ h0).1
      have h3 := Nat.pow_pos (n := Nat.log2 co.w0.toNat) (by decide : 0 < 2)
      exact Nat.add_pos_right _ (Nat.lt_of_lt_of_le h3 h2)
    · have := (rn24_binade _ h1).1
      have := Nat.pow_pos (n := Nat.log2 co.w1.toNat) (by decide : 0 < 2)
      have hp : 0 < rn24 co.w1.toNat := by omega
      exact Nat.add_pos_left (Nat.mul_pos hp (by norm_num)) _
  obtain ⟨S, hS⟩ : ∃ S, S = rn24 co.w1.toNat * 2 ^ 64 + rn24 co.w0.toNat := ⟨_, rfl⟩
  rw [← hS] at hadd hX hdig hSpos
  have hidx := idx_toNat S hSpos (by omega)
  generalize hI : UInt64.ofInt (toI (((UInt32.ofNat (fb S)) >>> 23 &&& 255) - 127)) = I at hidx
  obtain ⟨d, hd, hdv⟩ := est_read I (by omega)
  obtain ⟨T, hT, hTv, hT1⟩ := p10_read I (by omega)
  have hco1 : co.w1.toNat < 2 ^ 63 := by omega
  obtain ⟨t1, t2⟩ := d_tests co.w1 T.w1 hco1 hT1
  unfold bid128_ilogb
  simp only [hu, hr, hmul, hadd, hI, hd, hT, t1, t2, bind, Except.bind, pure, Except.pure, set_status_flags,
    Bool.false_eq_true, if_false, ge_iff_le, UInt64.le_iff_toNat_le]
  -- the comparison with the tabulated power of ten
  rw [hidx] at hdv hTv
  unfold estDigitsAt at hdig
  rw [← hTv] at hdig
  have hge : (co.w1.toNat * 2 ^ 64 + co.w0.toNat ≥ T.w1.toNat * 2 ^ 64 + T.w0.toNat) ↔
      (co.w1.toNat > T.w1.toNat ∨ (co.w1.toNat = T.w1.toNat ∧ T.w0.toNat ≤ co.w0.toNat)) := by
    have := co.w0.toNat_lt; have := T.w0.toNat_lt
    omega
  have hbias := bias_toInt
  have h1i : (1 : Int32).toInt = 1 := by decide
  have hnd : ndigits (co.w1.toNat * 2 ^ 64 + co.w0.toNat) ≤ 34 := (@ndigits_le_iff _ 34 hC0).2 hC
  have hd35 : (d.toInt : Int) ≤ 40 ∧ 0 ≤ d.toInt := by
    rw [hdv]; split at hdig <;> omega
  have hsub : ∀ v : Int32, 0 ≤ v.toInt → v.toInt ≤ 41 →
      (ex - c_DECIMAL_EXPONENT_BIAS_128 - 1 + v).toInt = ex.toInt - 6176 - 1 + v.toInt := by
    intro v hv0 hv1
    rw [i32_add, i32_sub, i32_sub, hbias, h1i, wrapI32_id (ex.toInt - 6176) (by omega) (by omega),
      wrapI32_id (ex.toInt - 6176 - 1) (by omega) (by omega),
      wrapI32_id (ex.toInt - 6176 - 1 + v.toInt) (by omega) (by omega)]
  by_cases hg : co.w1.toNat > T.w1.toNat
  · simp only [hg, decide_true, if_true]
    apply congrArg Except.ok
    congr 1
    rw [← Int32.toInt_inj, hsub _ (by rw [i32_add, h1i, wrapI32_id _ (by omega) (by omega)]; omega)
      (by rw [i32_add, h1i, wrapI32_id _ (by omega) (by omega)]; omega), i32_add, h1i,
      wrapI32_id _ (by omega) (by omega), Int32.toInt_ofInt_of_le (by omega) (by omega)]
    rw [if_pos (hge.2 (Or.inl hg))] at hdig
    omega
  · simp only [hg, decide_false, Bool.false_eq_true, if_false]
    by_cases he : co.w1.toNat = T.w1.toNat
    · have hde : decide (co.w1.toNat = T.w1.toNat) = true := by rw [decide_eq_true_eq]; exact he
      simp only [hde, if_true]
      by_cases hl : T.w0.toNat ≤ co.w0.toNat
      · simp only [hl, decide_true, if_true]
        apply congrArg Except.ok
        congr 1
        rw [← Int32.toInt_inj, hsub _ (by rw [i32_add, h1i, wrapI32_id _ (by omega) (by omega)]; omega)
          (by rw [i32_add, h1i, wrapI32_id _ (by omega) (by omega)]; omega), i32_add, h1i,
          wrapI32_id _ (by omega) (by omega), Int32.toInt_ofInt_of_le (by omega) (by omega)]
        rw [if_pos (hge.2 (Or.inr ⟨he, hl⟩))] at hdig
        omega
      · simp only [hl, decide_false, Bool.false_eq_true, if_false]
        apply congrArg Except.ok
        congr 1
        rw [← Int32.toInt_inj, hsub _ hd35.2 (by omega), Int32.toInt_ofInt_of_le (by omega) (by omega)]
        rw [if_neg (fun h => by rcases hge.1 h with h' | h' <;> omega)] at hdig
        omega
    · have hde : decide (co.w1.toNat = T.w1.toNat) = false := by rw [decide_eq_false_iff_not]; exact he
      simp only [hde, Bool.false_eq_true, if_false]
      apply congrArg Except.ok
      congr 1
      rw [← Int32.toInt_inj, hsub _ hd35.2 (by omega), Int32.toInt_ofInt_of_le (by omega) (by omega)]
      rw [if_neg (fun h => by rcases hge.1 h with h' | h' <;> omega)] at hdig
      omega

/-- `bid128_ilogb` when the unpacker returns 0 (zero, infinity, NaN): `i32::MAX` for an infinity, else `i32::MIN`; invalid -/
theorem ilogb_special (x : U128) (f : UInt32) (sg : UInt64) (ex : Int32) (co : U128)
    (hu : unpack_BID128_value 0 0 default x = .ok (0, sg, ex, co)) :
    bid128_ilogb x f = .ok ((if (x.w1 &&& 8935141660703064064 == 8646911284551352320) = true then 2147483647
        else Int32.ofInt (toI (2147483648 : UInt32))), f ||| c_StatusFlags_BID_INVALID_EXCEPTION) := by
  unfold bid128_ilogb
  simp only [hu, bind, Except.bind, pure, Except.pure, set_status_flags, beq_self_eq_true, if_true]

/-- the test `(x.w[1] & MASK_ANY_INF) == MASK_INF` recognises exactly the infinities -/
theorem inf_test (x : U128) :
    (x.w1 &&& 8935141660703064064 == 8646911284551352320) = (decode (bitsOf x)).isInf := by
  have h0 := x.w0.toNat_lt; have h1 := x.w1.toNat_lt
  have e1 : (8935141660703064064 : UInt64).toNat = 0x7c00000000000000 := by decide
  have e2 : (8646911284551352320 : UInt64).toNat = 0x7800000000000000 := by decide
  rw [u64_beq, UInt64.toNat_and, e1, e2, mask_7c00]
  unfold bitsOf
  by_cases hg : x.w1.toNat / 2 ^ 61 % 4 = 3
  · by_cases hs : x.w1.toNat / 2 ^ 59 % 16 = 15
    · by_cases h58 : x.w1.toNat / 2 ^ 58 % 2 = 0
      · rw [decode_words_inf _ _ h0 h1 hs h58]
        simp only [Datum.isInf, beq_iff_eq]; omega
      · rw [decode_words_nan _ _ h0 h1 hs (by omega)]
        simp only [Datum.isInf, beq_eq_false_iff_ne]; omega
    · rw [decode_words_large _ _ h0 h1 hg hs]
      simp only [Datum.isInf, beq_eq_false_iff_ne]; omega
  · rw [unpack_fin _ _ h0 h1 hg]
    simp only [Datum.isInf, beq_eq_false_iff_ne]; omega

/-- rewriting the flag constant under `|||` -/
theorem flags_or (f : UInt32) (c : UInt32) (n : Nat) (h : c = UInt32.ofNat n) : f ||| c = f ||| UInt32.ofNat n := by rw [h]

/-- **`bid128_ilogb` (translated source), all patterns, all status words**: never panics; returns exactly `ilogbD`'s
integer and flags: the adjusted exponent `q − 1 + e` of a finite non-zero operand with no flag, `i32::MAX` for an infinity,
`i32::MIN` for a zero or a NaN, each of those three with invalid. -/
theorem ilogb_spec (x : U128) (f : UInt32) :
    bid128_ilogb x f = .ok (Int32.ofInt (ilogbD (decode (bitsOf x))).1, f ||| UInt32.ofNat (ilogbD (decode (bitsOf x))).2) := by
  obtain ⟨r, sg, ex, co, hu, hsg, hmatch⟩ := C13GenPack.unpack_value_spec 0 0 default x
  have hW := decode_WF (bitsOf x)
  have hinf := inf_test x
  have hmin : Int32.ofInt (toI (2147483648 : UInt32)) = Int32.ofInt (-2147483648) := by decide
  have hmax : (2147483647 : Int32) = Int32.ofInt 2147483647 := by decide
  have hinv : c_StatusFlags_BID_INVALID_EXCEPTION = UInt32.ofNat fInvalid := by decide
  cases hd : decode (bitsOf x) with
  | nan s g p =>
    rw [hd] at hmatch hinf
    obtain ⟨_, hr, _⟩ := hmatch
    subst hr
    rw [ilogb_special x f sg ex co hu, hinf, hinv]
    simp only [Datum.isInf, Bool.false_eq_true, if_false, ilogbD, hmin]
  | inf s =>
    rw [hd] at hmatch hinf
    obtain ⟨_, hr, _⟩ := hmatch
    subst hr
    rw [ilogb_special x f sg ex co hu, hinf, hinv]
    simp only [Datum.isInf, if_true, ilogbD, hmax]
  | fin s c e =>
    rw [hd] at hmatch hW hinf
    obtain ⟨hex, hco, hrc⟩ := hmatch
    obtain ⟨hc34, hemin, hemax⟩ : c < 10 ^ 34 ∧ -6176 ≤ e ∧ e ≤ 6111 := by
      simpa [Datum.WF, P34_eq', eMin, eMax] using hW
    have hbits : bitsOf co = c := by
      have := w128_val c
      rw [← hco] at this
      rw [bitsOf_eq]; exact this
    by_cases hc : c = 0
    · have hr : r = 0 := by
        by_contra h; exact (hrc.1 h) hc
      subst hr
      rw [ilogb_special x f sg ex co hu, hinf, hinv]
      simp only [Datum.isInf, Bool.false_eq_true, if_false, ilogbD, hc, hmin, if_true]
    · have hr : (r == 0) = false := by
        rw [u64_beq_zero, decide_eq_false_iff_not, ← u64_eq_zero]; exact hrc.2 hc
      rw [ilogb_finite x f r sg ex co hu hr (by omega) (by omega) (by omega), hbits]
      simp only [ilogbD, hc, if_false, adjExp]
      have : ex.toInt - 6176 - 1 + (ndigits c : Int) = (ndigits c : Int) + e - 1 := by omega
      rw [this]
      have hz : f ||| UInt32.ofNat 0 = f := by
        rw [← UInt32.toNat_inj, UInt32.toNat_or]; simp
      rw [hz]

example : bid128_ilogb ⟨12345, 0x3040000000000000⟩ 0 = .ok (4, 0) := by
  rw [ilogb_spec]; apply congrArg Except.ok; decide +kernel
example : bid128_ilogb ⟨0, 0x7800000000000000⟩ 4 = .ok (2147483647, 5) := by rfl
example : bid128_ilogb ⟨0, 0x3040000000000000⟩ 0 = .ok (-2147483648, 1) := by rfl
-- the carry case of `fx_expfield` (C = 2^64 − 1, `fx` = 2^64): the digit count is still right (20 digits)
example : bid128_ilogb ⟨0xffffffffffffffff, 0x3040000000000000⟩ 0 = .ok (19, 0) := by
  rw [ilogb_spec]; apply congrArg Except.ok; decide +kernel

/-! ## 7. `bid128_logb` -/

/-- the test `(x.w[1] & MASK_INF) == MASK_INF` recognises exactly the infinities and NaNs -/
theorem special_test (x : U128) :
    (x.w1 &&& 8646911284551352320 == 8646911284551352320) = !(decode (bitsOf x)).isFin := by
  have h0 := x.w0.toNat_lt; have h1 := x.w1.toNat_lt
  have e2 : (8646911284551352320 : UInt64).toNat = 0x7800000000000000 := by decide
  rw [u64_beq, UInt64.toNat_and, e2, mask_7800]
  unfold bitsOf
  by_cases hg : x.w1.toNat / 2 ^ 61 % 4 = 3
  · by_cases hs : x.w1.toNat / 2 ^ 59 % 16 = 15
    · by_cases h58 : x.w1.toNat / 2 ^ 58 % 2 = 0
      · rw [decode_words_inf _ _ h0 h1 hs h58]
        simp only [Datum.isFin, Bool.not_false, beq_iff_eq]; omega
      · rw [decode_words_nan _ _ h0 h1 hs (by omega)]
        simp only [Datum.isFin, Bool.not_false, beq_iff_eq]; omega
    · rw [decode_words_large _ _ h0 h1 hg hs]
      simp only [Datum.isFin, Bool.not_true, beq_eq_false_iff_ne]; omega
  · rw [unpack_fin _ _ h0 h1 hg]
    simp only [Datum.isFin, Bool.not_true, beq_eq_false_iff_ne]; omega

/-- what the judge expects of `logb`: the NaN rule (quieted canonical NaN, invalid exactly for a signalling one), otherwise
`Dec.logbD` -/
def logbSpec (d : Datum) : Datum × Flags :=
  if d.isNaN then (quietNaN d, if d.isSNaN then fInvalid else 0) else logbD d

/-- `bid128_logb` in terms of what the unpacker and `bid128_ilogb` returned -/
theorem logb_norm (x : U128) (f : UInt32) (r sg : UInt64) (ex : Int32) (co : U128) (ires : Int32) (f2 : UInt32)
    (hu : unpack_BID128_value 0 0 default x = .ok (r, sg, ex, co))
    (hi : bid128_ilogb x f = .ok (ires, f2)) :
    bid128_logb x f = .ok
      (if (r == 0) = true then
        if (decode (bitsOf x)).isFin then (⟨0, 17870283321406128128⟩, f ||| c_StatusFlags_BID_ZERO_DIVIDE_EXCEPTION)
        else (⟨co.w0, if (decode (bitsOf x)).isInf then co.w1 &&& c_QUIET_MASK64 &&& 9223372036854775807
                else co.w1 &&& c_QUIET_MASK64⟩, f ||| C11GenScale.frontFlags x)
      else if ires.toInt < 0 then (⟨UInt64.ofInt (toI (-ires)), 12700150949184798720⟩, f2)
        else (⟨UInt64.ofInt (toI ires), 3476778912330022912⟩, f2)) := by
  have hs : (ires &&& Int32.ofInt (toI (2147483648 : UInt32)) == Int32.ofInt (toI (2147483648 : UInt32)))
      = decide (ires.toInt < 0) := C06GenFromInt.int32_sign_test ires
  have hsn : (x.w1 &&& 9079256848778919936 == 9079256848778919936) = (x.w1 &&& c_SNAN_MASK64 == c_SNAN_MASK64) := rfl
  have hz : ∀ g : UInt32, g ||| 0 = g := fun g => by
    rw [← UInt32.toNat_inj, UInt32.toNat_or]; simp
  have hz' : ∀ g : UInt32, 0 ||| g = g := fun g => by
    rw [← UInt32.toNat_inj, UInt32.toNat_or]; simp
  unfold bid128_logb
  simp only [hu, hi, bind, Except.bind, pure, Except.pure, set_status_flags, ok_ite, ite_prod, ite_u128, ite_self, hs,
    special_test, inf_test, hsn]
  unfold C11GenScale.frontFlags
  apply congrArg Except.ok
  by_cases hr : (r == 0) = true
  · simp only [hr, if_true]
    cases (decode (bitsOf x)).isFin
    · simp only [Bool.not_false, if_true, Bool.false_eq_true, if_false]
      by_cases hq : (x.w1 &&& c_SNAN_MASK64 == c_SNAN_MASK64) = true
      · simp only [hq, if_true, hz']
      · simp only [hq, Bool.false_eq_true, if_false, hz]
    · simp only [Bool.not_true, Bool.false_eq_true, if_false, if_true]
  · simp only [hr, Bool.false_eq_true, if_false, decide_eq_true_eq]

/-- negating a non-minimal `i32` -/
theorem i32_neg_toInt (n : Int32) (h : -2147483648 < n.toInt) : (-n).toInt = -n.toInt := by
  have h2 := Int32.toInt_lt n
  rw [Int32.toInt_neg, bmod_eq_wrap, wrapI32_id _ (by omega) (by omega)]

/-- **`bid128_logb` (translated source), all patterns, all status words**: never panics; returns exactly the canonical
encoding of the judge's expected datum and ORs exactly the expected flags into the status word: quieted canonical NaN
for a NaN (invalid exactly for a signalling one), `+∞` for either infinity, `−∞` with zero-divide for a zero, and for a
finite non-zero operand the adjusted exponent `q − 1 + e` as a decimal integer with exponent 0, no flag. -/
theorem logb_spec (x : U128) (f : UInt32) :
    bid128_logb x f = .ok (ofBits (encode (logbSpec (decode (bitsOf x))).1),
      f ||| UInt32.ofNat (logbSpec (decode (bitsOf x))).2) := by
  obtain ⟨r, sg, ex, co, hu, hsg, hmatch⟩ := C13GenPack.unpack_value_spec 0 0 default x
  have hW := decode_WF (bitsOf x)
  rw [logb_norm x f r sg ex co _ _ hu (ilogb_spec x f), C11GenScale.frontFlags_eq]
  apply congrArg Except.ok
  have hz : f ||| UInt32.ofNat 0 = f := by
    rw [← UInt32.toNat_inj, UInt32.toNat_or]; simp
  have hdz : c_StatusFlags_BID_ZERO_DIVIDE_EXCEPTION = UInt32.ofNat fDivZero := by decide
  cases hd : decode (bitsOf x) with
  | nan s g p =>
    rw [hd] at hmatch hW
    obtain ⟨_, hr, hco⟩ := hmatch
    subst hr
    obtain ⟨_, hq⟩ := C11GenScale.special_words co (.nan s g p) hW rfl hco
    simp only [beq_self_eq_true, if_true, Datum.isFin, Datum.isInf, Bool.false_eq_true, if_false, logbSpec,
      Datum.isNaN, hq]
  | inf s =>
    rw [hd] at hmatch hW
    obtain ⟨_, hr, hco⟩ := hmatch
    subst hr
    obtain ⟨_, hq⟩ := C11GenScale.special_words co (.inf s) hW rfl hco
    have hq0 := congrArg U128.w0 hq
    have hq1 := congrArg U128.w1 hq
    simp only at hq0 hq1
    simp only [beq_self_eq_true, if_true, Datum.isFin, Datum.isInf, Bool.false_eq_true, if_false, logbSpec,
      Datum.isNaN, Datum.isSNaN, logbD, hz, hq0, hq1]
    cases s <;> exact congrArg (fun t => (t, f)) (by decide)
  | fin s c e =>
    rw [hd] at hmatch hW
    obtain ⟨hex, hco, hrc⟩ := hmatch
    obtain ⟨hc34, hemin, hemax⟩ : c < 10 ^ 34 ∧ -6176 ≤ e ∧ e ≤ 6111 := by
      simpa [Datum.WF, P34_eq', eMin, eMax] using hW
    by_cases hc : c = 0
    · have hr : r = 0 := by
        by_contra h; exact (hrc.1 h) hc
      subst hr
      simp only [beq_self_eq_true, if_true, Datum.isFin, logbSpec, Datum.isNaN, Bool.false_eq_true, if_false, logbD, hc,
        hdz]
      apply congrArg (fun t => (t, f ||| UInt32.ofNat fDivZero))
      decide
    · have hr : (r == 0) = false := by
        rw [u64_beq_zero, decide_eq_false_iff_not, ← u64_eq_zero]; exact hrc.2 hc
      have hq : ndigits c ≤ 34 := (ndigits_le_iff (by omega)).2 hc34
      have hq1 : 0 < ndigits c := ndigits_pos (by omega)
      simp only [hr, Bool.false_eq_true, if_false, ilogbD, hc, logbSpec, Datum.isNaN, logbD, hz, fromIntD]
      have hA : adjExp c e = (ndigits c : Int) + e - 1 := rfl
      generalize adjExp c e = A at hA ⊢
      have hA1 : -6176 ≤ A := by omega
      have hA2 : A ≤ 6144 := by omega
      have hAi : (Int32.ofInt A).toInt = A := by
        rw [Int32.toInt_ofInt, show Int32.size = 2 ^ 32 from rfl, bmod_eq_wrap, wrapI32_id _ (by omega) (by omega)]
      have hlt : A.natAbs < 2 ^ 64 := by omega
      rw [hAi, ofBits_encode_int _ _ hlt]
      by_cases hn : A < 0
      · simp only [hn, if_true, decide_true]
        apply congrArg (fun t : UInt64 => (({ w0 := t, w1 := 12700150949184798720 } : U128), f))
        rw [← UInt64.toNat_inj, ofInt_nonneg _ (by rw [i32_neg_toInt _ (by omega), hAi]; omega),
          i32_neg_toInt _ (by omega), hAi, UInt64.toNat_ofNat']
        omega
      · simp only [hn, if_false, decide_false, Bool.false_eq_true]
        apply congrArg (fun t : UInt64 => (({ w0 := t, w1 := 3476778912330022912 } : U128), f))
        rw [← UInt64.toNat_inj, ofInt_nonneg _ (by rw [hAi]; omega), hAi, UInt64.toNat_ofNat']
        omega

/-- on everything that is not a NaN, `logbSpec` is `logbD` -/
theorem logbSpec_of_not_nan (d : Datum) (h : d.isNaN = false) : logbSpec d = logbD d := by
  unfold logbSpec; rw [h]; rfl

/-- `logbSpec` is literally the judge's expectation for `"logb"` (the `un … exactD (logbD ·)` of `DecModel/Ops.lean`):
one admissible result, the canonical encoding of `(logbSpec d).1`, raising `(logbSpec d).2` -/
theorem logbSpec_judge (x : Nat) :
    un x (fun a => exactD (logbD a)) = exactD (logbSpec (decode x)) := by
  unfold un nanRule logbSpec exactD
  cases h : (decode x).isNaN <;> simp [h]

/-- `ilogbD` is the judge's expectation for `"log_b"` -/
theorem ilogb_judge (x : Nat) (mode : Mode) :
    expectCore "log_b" mode [.d x] = exactly [.i (ilogbD (decode x)).1] (ilogbD (decode x)).2 := by rfl
/-- `logbSpec` is the judge's expectation for `"logb"` (through `expectCore`) -/
theorem logb_judge (x : Nat) (mode : Mode) :
    expectCore "logb" mode [.d x] = exactD (logbSpec (decode x)) := by
  rw [← logbSpec_judge]; rfl

-- 12345·10^0: adjusted exponent 4
example : bid128_logb ⟨12345, 0x3040000000000000⟩ 0 = .ok (⟨4, 0x3040000000000000⟩, 0) := by
  rw [logb_spec]; apply congrArg Except.ok; decide +kernel
-- 12345·10^-6176 (subnormal): −6172, incoming status word preserved
example : bid128_logb ⟨12345, 0x0000000000000000⟩ 2 = .ok (⟨6172, 0xb040000000000000⟩, 2) := by
  rw [logb_spec]; apply congrArg Except.ok; decide +kernel
-- the largest finite number: 6144
example : bid128_logb ⟨0x378d8e63ffffffff, 0x5fffed09bead87c0⟩ 0 = .ok (⟨6144, 0x3040000000000000⟩, 0) := by
  rw [logb_spec]; apply congrArg Except.ok; decide +kernel
example : bid128_ilogb ⟨0x378d8e63ffffffff, 0x5fffed09bead87c0⟩ 0 = .ok (6144, 0) := by
  rw [ilogb_spec]; apply congrArg Except.ok; decide +kernel
-- −0: −∞ with zero-divide; −∞ with trailing bits: +∞ canonical; negative signalling NaN: quieted, sign kept, invalid
example : bid128_logb ⟨0, 0xb040000000000000⟩ 0 = .ok (⟨0, 0xf800000000000000⟩, 4) := by rfl
example : bid128_logb ⟨7, 0xf800000000000001⟩ 0 = .ok (⟨0, 0x7800000000000000⟩, 0) := by rfl
example : bid128_logb ⟨5, 0xfe00400000000000⟩ 0 = .ok (⟨5, 0xfc00000000000000⟩, 1) := by rfl

end Dec.C11GenLogb
