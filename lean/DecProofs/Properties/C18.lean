/-
  C18 — total_order is the IEEE total order on encodings (structure and clause-by-clause facts; the
  order axioms are in `DecProofs.Properties.C18Order`).
-/
import DecModel.Ops

namespace Dec.C18

/-- sign classes: every negative datum precedes every positive one (−NaN < … < −0 < +0 < … < +NaN) -/
theorem neg_before_pos (x y : Datum) (hx : x.neg = true) (hy : y.neg = false) :
    totalLe x y = true ∧ totalLe y x = false := by
  simp [totalLe, hx, hy]

/-- among positives: numbers < +Inf < +NaN; signalling before quiet; smaller payload first -/
theorem positive_classes (c p q : Nat) (e : Int) (g : Bool) :
    totalLe (.fin false c e) (.inf false) = true ∧ totalLe (.inf false) (.fin false c e) = false ∧
    totalLe (.inf false) (.nan false g p) = true ∧ totalLe (.nan false g p) (.inf false) = false ∧
    totalLe (.nan false true p) (.nan false false q) = true ∧ totalLe (.nan false false q) (.nan false true p) = false ∧
    totalLe (.nan false g p) (.nan false g q) = decide (p ≤ q) := by
  cases g <;> simp [totalLe, totalLeMag, Datum.neg]

/-- among negatives everything is reversed -/
theorem negative_reversed (x y : Datum) (hx : x.neg = true) (hy : y.neg = true) :
    totalLe x y = totalLeMag y x := by
  simp [totalLe, hx, hy]

/-- numerically equal finite values are ordered by exponent, smaller exponent first when positive -/
theorem equal_values_by_exponent (c1 c2 : Nat) (e1 e2 : Int) (h : cmpFin false c1 e1 false c2 e2 = .eq) :
    totalLe (.fin false c1 e1) (.fin false c2 e2) = decide (e1 ≤ e2) ∧
    totalLe (.fin true c1 e1) (.fin true c2 e2) = decide (e2 ≤ e1) := by
  have h' : cmpFin false c2 e2 false c1 e1 = .eq := by
    unfold cmpFin at *
    have hm : (if e2 ≤ e1 then e2 else e1) = (if e1 ≤ e2 then e1 else e2) := by split <;> split <;> omega
    rw [hm]
    simp only [sInt, Bool.false_eq_true, if_false] at *
    have := Int.compare_eq_eq.1 h
    exact Int.compare_eq_eq.2 this.symm
  simp [totalLe, totalLeMag, totalKeyFinLe, Datum.neg, h, h']

/-- different values: the numeric order decides -/
theorem by_value (c1 c2 : Nat) (e1 e2 : Int) (h : cmpFin false c1 e1 false c2 e2 = .lt) :
    totalLe (.fin false c1 e1) (.fin false c2 e2) = true := by
  simp [totalLe, totalLeMag, totalKeyFinLe, Datum.neg, h]

/-- total_order_mag is total_order on the absolute values -/
theorem mag_is_abs (x y : Datum) : totalLeMag x y = totalLe (x.setSign false) (y.setSign false) := by
  cases x <;> cases y <;> simp [totalLe, totalLeMag, Datum.setSign, Datum.neg]

/-- reflexive -/
theorem refl (x : Datum) : totalLe x x = true := by
  have hm : ∀ d : Datum, totalLeMag d d = true := by
    intro d
    cases d with
    | fin s c e =>
      have : cmpFin false c e false c e = .eq := by simp [cmpFin]
      simp [totalLeMag, totalKeyFinLe, this]
    | inf s => rfl
    | nan s g p => simp [totalLeMag]
  unfold totalLe
  cases h : x.neg <;> simp [hm]

example : totalLe (.fin false 10 (-1)) (.fin false 1 0) = true ∧ totalLe (.fin false 1 0) (.fin false 10 (-1)) = false := by decide
example : totalLe (.fin true 0 0) (.fin false 0 0) = true ∧ totalLe (.fin false 0 0) (.fin true 0 0) = false := by decide
example : totalLe (.nan true false 5) (.nan true true 5) = true := by decide   -- −qNaN before −sNaN

end Dec.C18
