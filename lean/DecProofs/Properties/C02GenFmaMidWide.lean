/-
  C02GenFmaMidWide — block "Mid" of `bid128_ext_fma` on its SECOND use.

  After the operand exchange of Cases (9), (10), (13), (14), (18) (C02GenFmaSwap: `swap_spec`, `swap_lands`; C02GenFmaAssembly:
  `run_swap`, then `run_mid` from the swapped state) the block of Cases (2)–(6) runs with the roles exchanged: `C3` is then the
  PRODUCT (at most 34 digits; its exponent `e3 = e1 + e2` anywhere in `[−12352, 12222]`, possibly below `emin` or above
  `emax`), `C4` is the original addend (at most 34 digits, two high words zero, `e4 ∈ [−6176, 6111]`).  `EntryInvW`
  (C02GenFmaMidWideDefs) is this mirrored invariant; `midBlock_spec_wide` is `midBlock_spec` (C02GenFmaMidTop) under it.

  How: the proofs of C02GenFmaMid used the range of `e3` only through (i) the position of the leading digit of `C3`
  (`LoopPreW.hlead`: not below `10^emin` because `delta ≥ 0`, not above `10^6177` because `delta ≤ 33`) and (ii) generous
  bounds that keep the biased exponent inside 14 bits; C02GenFmaMid's `loop_specW` is the loop theorem in that form, and the
  set-up of the cases in that form is C02GenFmaMidBW (by the C01GenDiv agent).  NO DEVIATION of the code was found: an
  exponent `e3 > emax` either overflows genuinely or is brought back into range by the scaling of `C3` (Cases (2)–(5): the
  result's exponent is `e3 − scale`, and `e3 − scale > emax` only if the sum is at least `10^(emax+34)`) — including the
  cancellation `10^6145 − 5·10^6143` that needs the second turn of the loop (example below); an exponent `e3 < emin` only
  occurs in Cases (4)–(6) and is handled by the underflow path like any other.

  Second part: the block's tail (`delta ≤ 1`, opposite signs) is, by `rfl`, the C19GenDpd agent's `arm26K`, whose theorems rest on
  `C02GenFmaLow.add_and_round_spec`; with it `midBlock_total_spec` / `midBlock_total_spec_wide`: the whole block, both uses, no
  case condition.
-/
import DecProofs.Properties.C02GenFmaMidTop
import DecProofs.Properties.C02GenFmaMidBW
import DecProofs.Properties.C02GenFmaWrapClosed

set_option linter.unusedSimpArgs false
set_option linter.unusedVariables false

namespace Dec.C02GenFmaMid
open Dec.RH (Ind)
open Dec.Rs Dec.Gen.Code
open Dec.C03GenCompare (val128 val256)
open Dec.C02GenCorrection (modeOf)
open Dec.C02GenFmaMidBW (setupK_spec_wide case_test_entry_wide setup_link_wide)
open Dec.C02GenFmaWrap (arm26K arm26_spec_closed)
open Dec.C02GenFmaSwap (sgnW)

set_option maxRecDepth 20000 in
set_option maxHeartbeats 2000000 in
/-- **Cases (2)–(6) of `bid128_ext_fma`, second use** (after the exchange of product and addend): under the mirrored entry
invariant `EntryInvW` (`C3` = the product `±c3·10^E3` with at most 34 digits and ANY exponent `−12352 ≤ E3 ≤ 12222`, `C4` = the
addend `±c4·10^E4` with at most 34 digits and `−6176 ≤ E4 ≤ 6111`, `0 ≤ delta ≤ 33`, indicators and `is_tiny` false) and the
case condition as the code tests it (not: `delta ≤ 1` with opposite signs), for every rounding mode and every incoming status
word the block returns `.ok`: the canonical encoding of the specification's `addFin` — the exact sum rounded once, preferred
exponent `min (E4, E3)` — and the status word with the specification's flags or-ed in.  Word for word the conclusion of
`midBlock_spec`. -/
theorem midBlock_spec_wide (p1 p2 p3 p4 : Bool) (rm : RoundingMode) (pf : UInt32) (res : U128) (z_sign p_sign tmp_sign : UInt64)
    (C3 : U128) (C4 : U256) (q3 q4 e3 e4 scale ind delta x0 p34 : Int32) (ML0 MG0 L0 G0 incr lsb : Bool)
    (R64 tmp64 : UInt64) (P128 R128 : U128) (P192 R192 : U192) (R256 : U256)
    (c3 c4 : Nat) (E3 E4 : Int) (sz sp : Bool)
    (h : EntryInvW C3 C4 q3 q4 e3 e4 delta p34 z_sign p_sign c3 c4 E3 E4 sz sp)
    (hcase : ¬ (delta.toInt ≤ 1 ∧ sp ≠ sz)) :
    ∃ a b c d : Bool,
      midBlock p1 p2 p3 p4 rm pf res z_sign p_sign tmp_sign C3 C4 q3 q4 e3 e4 scale ind delta x0 p34 false false false false
          ML0 MG0 L0 G0 incr lsb false R64 tmp64 P128 R128 P192 R192 R256 =
        .ok (Dec.C17GenNext.ofBits (encode (addFin (modeOf rm) sp c4 E4 sz c3 E3 (if E4 ≤ E3 then E4 else E3)).1), a, b, c, d,
             pf ||| UInt32.ofNat (addFin (modeOf rm) sp c4 E4 sz c3 E3 (if E4 ≤ E3 then E4 else E3)).2) := by
  rw [midBlock_eq, case_test_entry_wide h, if_pos (decide_eq_true hcase)]
  obtain ⟨C4', scale', x0', P128', c4', S, X, m, V, hk, hv4, hsc, hx0, hC4eq, lp, hm, hX0, hX1⟩ :=
    setupK_spec_wide h hcase scale x0 P128 (fun C4 scale x0 P128 =>
      loopLit p1 p2 p3 p4 rm pf res z_sign p_sign C3 C4 q3 q4 e3 scale ind x0 false false false false ML0 MG0 L0 G0 incr lsb false R64
        tmp64 P128 R128 P192 R192 R256)
  rw [hk]
  obtain ⟨hlink, hV0⟩ := setup_link_wide (modeOf rm) sp sz c3 c4 c4' S X E3 E4 m V lp hm hX0 hX1
  have hmx : m ≤ eMax := by
    rw [hm]; have := h.hE4; have : eMax = 6111 := rfl
    split <;> omega
  have hq4 : 1 ≤ X → q4.toInt = ndigits c4' := by
    intro hx
    rw [(hX1 hx).1]; exact h.hq4
  obtain ⟨a, b, c, d, hl⟩ := loop_specW p1 p2 p3 p4 rm pf res z_sign p_sign C3 C4' q3 q4 e3 scale' ind x0' ML0 MG0 L0 G0 incr lsb R64 tmp64
    P128' R128 P192 R192 R256 sz (sp == sz) c3 c4' S X E3 m V h.hC3 h.hq3 hsc hx0 h.he3 hv4 hq4
    (sign_words_beq z_sign p_sign sz sp h.hzs h.hps) h.hzs hmx lp
  refine ⟨a, b, c, d, ?_⟩
  rw [hl, hlink]
  rfl

/-- **the tail of the block, second use**: when the case condition fails the block is `tailK` (one call of
`bid_add_and_round`: `tailK_eq`) -/
theorem midBlock_tail_wide (p1 p2 p3 p4 : Bool) (rm : RoundingMode) (pf : UInt32) (res : U128) (z_sign p_sign tmp_sign : UInt64)
    (C3 : U128) (C4 : U256) (q3 q4 e3 e4 scale ind delta x0 p34 : Int32) (ML MG L G ML0 MG0 L0 G0 incr lsb tiny : Bool)
    (R64 tmp64 : UInt64) (P128 R128 : U128) (P192 R192 : U192) (R256 : U256)
    (c3 c4 : Nat) (E3 E4 : Int) (sz sp : Bool)
    (h : EntryInvW C3 C4 q3 q4 e3 e4 delta p34 z_sign p_sign c3 c4 E3 E4 sz sp)
    (hcase : delta.toInt ≤ 1 ∧ sp ≠ sz) :
    midBlock p1 p2 p3 p4 rm pf res z_sign p_sign tmp_sign C3 C4 q3 q4 e3 e4 scale ind delta x0 p34 ML MG L G
        ML0 MG0 L0 G0 incr lsb tiny R64 tmp64 P128 R128 P192 R192 R256 =
      tailK p1 p2 p3 p4 rm pf res z_sign p_sign tmp_sign C3 C4 q3 q4 e3 e4 ind delta p34 ML MG L G P128 := by
  rw [midBlock_eq, case_test_entry_wide h, if_neg (by rw [decide_eq_true_eq]; exact fun hn => hn hcase)]

/-! ### examples: the block on second-use operands with the product's exponent outside the format's range (by the kernel) -/

-- product 1e6145 (exponent above emax), addend −5·10^32e6111 (`delta = 2`): the difference 95·10^6143 is back in range; the
-- loop takes its second turn (the leading digit is cancelled) and returns 9500000000000000000000000000000000e6111, exact
example : midBlock false false false false .NearestEven 0 ⟨0, 0⟩ 0 0x8000000000000000 0 ⟨1, 0⟩ ⟨0x9c60ad8500000000, 0x18a6e32246c9, 0, 0⟩ 1 33 6145 6111 0 0 2 0 34
    false false false false false false false false false false false 0 0 ⟨0, 0⟩ ⟨0, 0⟩ ⟨0, 0, 0⟩ ⟨0, 0, 0⟩ ⟨0, 0, 0, 0⟩ =
    .ok (⟨0x9b2ce0df00000000, 0x5fffd462db8b40f6⟩, false, false, false, false, 0x0) := by decide +kernel
-- product 1e6145, addend −1000000000000000000000000000000001e6110, toward zero: 9899999999999999999999999999999999e6111, inexact
example : midBlock false false false false .TowardZero 0 ⟨0, 0⟩ 0 0x8000000000000000 0 ⟨1, 0⟩ ⟨0x38c15b0a00000001, 0x314dc6448d93, 0, 0⟩ 1 34 6145 6110 0 0 2 0 34
    false false false false false false false false false false false 0 0 ⟨0, 0⟩ ⟨0, 0⟩ ⟨0, 0, 0⟩ ⟨0, 0, 0⟩ ⟨0, 0, 0, 0⟩ =
    .ok (⟨0xb1e09ee2ffffffff, 0x5fffe81b91404664⟩, false, false, false, true, 0x20) := by decide +kernel
-- product 9999999999999999999999999999999999e6120 + 10^33e6111: a genuine overflow, +infinity with overflow and inexact
example : midBlock false false false false .NearestEven 0 ⟨0, 0⟩ 0 0 0 ⟨0x378d8e63ffffffff, 0x1ed09bead87c0⟩ ⟨0x38c15b0a00000000, 0x314dc6448d93, 0, 0⟩ 34 34 6120 6111 0 0 9 0 34
    false false false false false false false false false false false 0 0 ⟨0, 0⟩ ⟨0, 0⟩ ⟨0, 0, 0⟩ ⟨0, 0, 0⟩ ⟨0, 0, 0, 0⟩ =
    .ok (⟨0x0, 0x7800000000000000⟩, false, false, false, true, 0x28) := by decide +kernel
-- the same toward zero: the largest finite number
example : midBlock false false false false .TowardZero 0 ⟨0, 0⟩ 0 0 0 ⟨0x378d8e63ffffffff, 0x1ed09bead87c0⟩ ⟨0x38c15b0a00000000, 0x314dc6448d93, 0, 0⟩ 34 34 6120 6111 0 0 9 0 34
    false false false false false false false false false false false 0 0 ⟨0, 0⟩ ⟨0, 0⟩ ⟨0, 0, 0⟩ ⟨0, 0, 0⟩ ⟨0, 0, 0, 0⟩ =
    .ok (⟨0x378d8e63ffffffff, 0x5fffed09bead87c0⟩, false, false, false, true, 0x28) := by decide +kernel
-- product 999999999999999999999999999999999e6112 + 9e6111 (Case (3), `delta = 33`): exactly the largest finite number, no flag
example : midBlock false false false false .NearestEven 0 ⟨0, 0⟩ 0 0 0 ⟨0x38c15b09ffffffff, 0x314dc6448d93⟩ ⟨9, 0, 0, 0⟩ 33 1 6112 6111 0 0 33 0 34
    false false false false false false false false false false false 0 0 ⟨0, 0⟩ ⟨0, 0⟩ ⟨0, 0, 0⟩ ⟨0, 0, 0⟩ ⟨0, 0, 0, 0⟩ =
    .ok (⟨0x378d8e63ffffffff, 0x5fffed09bead87c0⟩, false, false, false, false, 0x0) := by decide +kernel
-- product 1234567890123456789012345678901234e−6200 (exponent below emin, Case (6)) + 1e−6176: 24 digits go, 1234567891e−6176,
-- underflow and inexact
example : midBlock false false false false .NearestEven 0 ⟨0, 0⟩ 0 0 0 ⟨0xde825cd07e96aff2, 0x3cde6fff9732⟩ ⟨1, 0, 0, 0⟩ 34 1 (-6200) (-6176) 0 0 9 0 34
    false false false false false false false false false false false 0 0 ⟨0, 0⟩ ⟨0, 0⟩ ⟨0, 0, 0⟩ ⟨0, 0, 0⟩ ⟨0, 0, 0, 0⟩ =
    .ok (⟨0x499602d3, 0x0⟩, false, false, true, false, 0x30) := by decide +kernel
-- the same with a negative addend, rounding upward: 1234567890e−6176
example : midBlock false false false false .Upward 0 ⟨0, 0⟩ 0 0x8000000000000000 0 ⟨0xde825cd07e96aff2, 0x3cde6fff9732⟩ ⟨1, 0, 0, 0⟩ 34 1 (-6200) (-6176) 0 0 9 0 34
    false false false false false false false false false false false 0 0 ⟨0, 0⟩ ⟨0, 0⟩ ⟨0, 0, 0⟩ ⟨0, 0, 0⟩ ⟨0, 0, 0, 0⟩ =
    .ok (⟨0x499602d2, 0x0⟩, false, false, true, false, 0x30) := by decide +kernel

/-- the mirrored invariant for the first example: product `+1·10^6145`, addend `−5·10^32·10^6111`, `delta = 2` -/
example : EntryInvW ⟨1, 0⟩ ⟨0x9c60ad8500000000, 0x18a6e32246c9, 0, 0⟩ 1 33 6145 6111 2 34 0 0x8000000000000000
    1 500000000000000000000000000000000 6145 6111 false true :=
  ⟨by decide, by decide, by decide +kernel, rfl, by decide, by decide, by decide, by decide +kernel, rfl, by decide, by decide +kernel,
    by decide, rfl, by decide, by decide⟩

/-- what the specification says there: `9500000000000000000000000000000000e6111`, exact -/
example : addFin .rne true 500000000000000000000000000000000 6111 false 1 6145 6111 =
    (.fin false 9500000000000000000000000000000000 6111, 0) := by decide +kernel

/-! ## The tail (lines 3161–3206): `delta ≤ 1` with opposite signs

`tailK` IS the C19GenDpd agent's `arm26K` (C02GenFmaWrap), by `rfl`: nothing had to be proved again; the arm's theorems
(`arm26_spec_closed`, `arm26_fma_closed`, `arm26_fma_swapped_closed` of C02GenFmaWrapClosed, which rest on
`C02GenFmaLow.add_and_round_spec`) are theorems about the block's tail.  Below they are restated in the block's own terms, and
joined with `midBlock_spec` / `midBlock_spec_wide` into theorems about the whole block without a case condition. -/

/-- **the block's tail is `arm26K`**, literally -/
theorem tailK_eq_arm26K (p1 p2 p3 p4 : Bool) (rm : RoundingMode) (pf : UInt32) (res : U128) (z_sign p_sign tmp_sign : UInt64)
    (C3 : U128) (C4 : U256) (q3 q4 e3 e4 ind delta p34 : Int32) (ML MG L G : Bool) (P128 : U128) :
    tailK p1 p2 p3 p4 rm pf res z_sign p_sign tmp_sign C3 C4 q3 q4 e3 e4 ind delta p34 ML MG L G P128 =
      arm26K q3 q4 e3 e4 delta p34 z_sign p_sign C3 C4 rm ML MG L G pf := rfl

/-- a sign word, as the arm's theorems want it -/
theorem sign_word_sgnW (w : UInt64) (s : Bool) (h : w.toNat = (if s = true then 1 else 0) * 2 ^ 63) : w = sgnW s := by
  rw [← UInt64.toNat_inj, h]; cases s <;> rfl

/-- `p34`, as a word -/
theorem p34_word (p34 : Int32) (h : p34.toInt = 34) : p34 = 34 := by
  rw [← Int32.toInt_inj, h]; rfl

/-- **the tail, first use**: under `EntryInv` and the tail's condition (`delta ≤ 1`, opposite signs — cancellation of leading
digits possible) the block returns the encoding of the specification's sum and the status word with its flags, for any
incoming indicators -/
theorem midBlock_cancel_spec (p1 p2 p3 p4 : Bool) (rm : RoundingMode) (pf : UInt32) (res : U128) (z_sign p_sign tmp_sign : UInt64)
    (C3 : U128) (C4 : U256) (q3 q4 e3 e4 scale ind delta x0 p34 : Int32) (ML MG L G ML0 MG0 L0 G0 incr lsb tiny : Bool)
    (R64 tmp64 : UInt64) (P128 R128 : U128) (P192 R192 : U192) (R256 : U256)
    (c3 c4 : Nat) (E3 E4 : Int) (sz sp : Bool)
    (h : EntryInv C3 C4 q3 q4 e3 e4 delta p34 z_sign p_sign c3 c4 E3 E4 sz sp)
    (hcase : delta.toInt ≤ 1 ∧ sp ≠ sz) :
    ∃ a b c d : Bool,
      midBlock p1 p2 p3 p4 rm pf res z_sign p_sign tmp_sign C3 C4 q3 q4 e3 e4 scale ind delta x0 p34 ML MG L G
          ML0 MG0 L0 G0 incr lsb tiny R64 tmp64 P128 R128 P192 R192 R256 =
        .ok (Dec.C17GenNext.ofBits (encode (addFin (modeOf rm) sp c4 E4 sz c3 E3 (if E4 ≤ E3 then E4 else E3)).1), a, b, c, d,
             pf ||| UInt32.ofNat (addFin (modeOf rm) sp c4 E4 sz c3 E3 (if E4 ≤ E3 then E4 else E3)).2) := by
  rw [midBlock_tail p1 p2 p3 p4 rm pf res z_sign p_sign tmp_sign C3 C4 q3 q4 e3 e4 scale ind delta x0 p34 ML MG L G ML0 MG0 L0 G0
    incr lsb tiny R64 tmp64 P128 R128 P192 R192 R256 c3 c4 E3 E4 sz sp h hcase, tailK_eq_arm26K,
    sign_word_sgnW z_sign sz h.hzs, sign_word_sgnW p_sign sp h.hps, p34_word p34 h.hp34]
  have e34 : P34 = 10 ^ 34 := by decide
  have hq3 := Dec.C02GenFmaMidBW.q_le_34 h.hc3
  have hq4 : ndigits c4 ≤ 68 := (ndigits_le_iff h.hc4.1).2 (by
    have := h.hc4.2; rw [e34, ← Nat.pow_add] at this; exact this)
  have hv3 : Dec.C02GenRound.v128 C3 = c3 := by rw [v128_val]; exact h.hC3
  have hv4 : Dec.C02GenRound.v256 C4 = c4 := by rw [v256_val]; exact h.hC4
  have := arm26_spec_closed rm pf sp sz C3 C4 (ndigits c3) (ndigits c4) E3 E4 q3 q4 e3 e4 delta ML MG L G h.hq3 h.hq4 hq3.1 hq3.2
    (by rw [hv3]; exact h.hc3.1) (by rw [hv3]; exact lt_pow_ndigits c3) (ndigits_pos h.hc4.1) hq4
    (by rw [hv4]; exact h.hc4.1) (by rw [hv4]; exact lt_pow_ndigits c4) (by have := h.hE3; omega) (by have := h.hE3; omega)
    h.hE4.1 h.hE4.2 (Or.inl h.hE3.2) h.he3 h.he4 h.hdelta h.hdr.1 hcase.1 hcase.2
  rw [hv3, hv4] at this
  exact this

/-- **the tail, second use** (after the exchange of product and addend): the same under `EntryInvW` -/
theorem midBlock_cancel_spec_wide (p1 p2 p3 p4 : Bool) (rm : RoundingMode) (pf : UInt32) (res : U128) (z_sign p_sign tmp_sign : UInt64)
    (C3 : U128) (C4 : U256) (q3 q4 e3 e4 scale ind delta x0 p34 : Int32) (ML MG L G ML0 MG0 L0 G0 incr lsb tiny : Bool)
    (R64 tmp64 : UInt64) (P128 R128 : U128) (P192 R192 : U192) (R256 : U256)
    (c3 c4 : Nat) (E3 E4 : Int) (sz sp : Bool)
    (h : EntryInvW C3 C4 q3 q4 e3 e4 delta p34 z_sign p_sign c3 c4 E3 E4 sz sp)
    (hcase : delta.toInt ≤ 1 ∧ sp ≠ sz) :
    ∃ a b c d : Bool,
      midBlock p1 p2 p3 p4 rm pf res z_sign p_sign tmp_sign C3 C4 q3 q4 e3 e4 scale ind delta x0 p34 ML MG L G
          ML0 MG0 L0 G0 incr lsb tiny R64 tmp64 P128 R128 P192 R192 R256 =
        .ok (Dec.C17GenNext.ofBits (encode (addFin (modeOf rm) sp c4 E4 sz c3 E3 (if E4 ≤ E3 then E4 else E3)).1), a, b, c, d,
             pf ||| UInt32.ofNat (addFin (modeOf rm) sp c4 E4 sz c3 E3 (if E4 ≤ E3 then E4 else E3)).2) := by
  rw [midBlock_tail_wide p1 p2 p3 p4 rm pf res z_sign p_sign tmp_sign C3 C4 q3 q4 e3 e4 scale ind delta x0 p34 ML MG L G ML0 MG0 L0 G0
    incr lsb tiny R64 tmp64 P128 R128 P192 R192 R256 c3 c4 E3 E4 sz sp h hcase, tailK_eq_arm26K,
    sign_word_sgnW z_sign sz h.hzs, sign_word_sgnW p_sign sp h.hps, p34_word p34 h.hp34]
  have hq3 := Dec.C02GenFmaMidBW.q_le_34 h.hc3
  have hq4 := Dec.C02GenFmaMidBW.q_le_34 h.hc4
  have hv3 : Dec.C02GenRound.v128 C3 = c3 := by rw [v128_val]; exact h.hC3
  have hv4 : Dec.C02GenRound.v256 C4 = c4 := by rw [v256_val]; exact h.hC4
  have := arm26_spec_closed rm pf sp sz C3 C4 (ndigits c3) (ndigits c4) E3 E4 q3 q4 e3 e4 delta ML MG L G h.hq3 h.hq4 hq3.1 hq3.2
    (by rw [hv3]; exact h.hc3.1) (by rw [hv3]; exact lt_pow_ndigits c3) hq4.1 (by have := hq4.2; omega)
    (by rw [hv4]; exact h.hc4.1) (by rw [hv4]; exact lt_pow_ndigits c4) h.hE3.1 h.hE3.2
    (by have := h.hE4; omega) (by have := h.hE4; omega) (Or.inr h.hE4.2) h.he3 h.he4 h.hdelta h.hdr.1 hcase.1 hcase.2
  rw [hv3, hv4] at this
  exact this

/-- **the whole block, first use** (lines 2515–3206, Cases (2)–(6) with their tail): under `EntryInv`, with the indicators
and `is_tiny` false on entry, for all signs, every rounding mode and every incoming status word the block returns `.ok`: the
encoding of the specification's sum of product and addend, rounded once, and the status word with the specification's flags -/
theorem midBlock_total_spec (p1 p2 p3 p4 : Bool) (rm : RoundingMode) (pf : UInt32) (res : U128) (z_sign p_sign tmp_sign : UInt64)
    (C3 : U128) (C4 : U256) (q3 q4 e3 e4 scale ind delta x0 p34 : Int32) (ML0 MG0 L0 G0 incr lsb : Bool)
    (R64 tmp64 : UInt64) (P128 R128 : U128) (P192 R192 : U192) (R256 : U256)
    (c3 c4 : Nat) (E3 E4 : Int) (sz sp : Bool)
    (h : EntryInv C3 C4 q3 q4 e3 e4 delta p34 z_sign p_sign c3 c4 E3 E4 sz sp) :
    ∃ a b c d : Bool,
      midBlock p1 p2 p3 p4 rm pf res z_sign p_sign tmp_sign C3 C4 q3 q4 e3 e4 scale ind delta x0 p34 false false false false
          ML0 MG0 L0 G0 incr lsb false R64 tmp64 P128 R128 P192 R192 R256 =
        .ok (Dec.C17GenNext.ofBits (encode (addFin (modeOf rm) sp c4 E4 sz c3 E3 (if E4 ≤ E3 then E4 else E3)).1), a, b, c, d,
             pf ||| UInt32.ofNat (addFin (modeOf rm) sp c4 E4 sz c3 E3 (if E4 ≤ E3 then E4 else E3)).2) := by
  by_cases hcase : delta.toInt ≤ 1 ∧ sp ≠ sz
  · exact midBlock_cancel_spec p1 p2 p3 p4 rm pf res z_sign p_sign tmp_sign C3 C4 q3 q4 e3 e4 scale ind delta x0 p34 false false false
      false ML0 MG0 L0 G0 incr lsb false R64 tmp64 P128 R128 P192 R192 R256 c3 c4 E3 E4 sz sp h hcase
  · exact midBlock_spec p1 p2 p3 p4 rm pf res z_sign p_sign tmp_sign C3 C4 q3 q4 e3 e4 scale ind delta x0 p34 ML0 MG0 L0 G0 incr lsb
      R64 tmp64 P128 R128 P192 R192 R256 c3 c4 E3 E4 sz sp h hcase

/-- **the whole block, second use**: the same under the mirrored invariant `EntryInvW` -/
theorem midBlock_total_spec_wide (p1 p2 p3 p4 : Bool) (rm : RoundingMode) (pf : UInt32) (res : U128) (z_sign p_sign tmp_sign : UInt64)
    (C3 : U128) (C4 : U256) (q3 q4 e3 e4 scale ind delta x0 p34 : Int32) (ML0 MG0 L0 G0 incr lsb : Bool)
    (R64 tmp64 : UInt64) (P128 R128 : U128) (P192 R192 : U192) (R256 : U256)
    (c3 c4 : Nat) (E3 E4 : Int) (sz sp : Bool)
    (h : EntryInvW C3 C4 q3 q4 e3 e4 delta p34 z_sign p_sign c3 c4 E3 E4 sz sp) :
    ∃ a b c d : Bool,
      midBlock p1 p2 p3 p4 rm pf res z_sign p_sign tmp_sign C3 C4 q3 q4 e3 e4 scale ind delta x0 p34 false false false false
          ML0 MG0 L0 G0 incr lsb false R64 tmp64 P128 R128 P192 R192 R256 =
        .ok (Dec.C17GenNext.ofBits (encode (addFin (modeOf rm) sp c4 E4 sz c3 E3 (if E4 ≤ E3 then E4 else E3)).1), a, b, c, d,
             pf ||| UInt32.ofNat (addFin (modeOf rm) sp c4 E4 sz c3 E3 (if E4 ≤ E3 then E4 else E3)).2) := by
  by_cases hcase : delta.toInt ≤ 1 ∧ sp ≠ sz
  · exact midBlock_cancel_spec_wide p1 p2 p3 p4 rm pf res z_sign p_sign tmp_sign C3 C4 q3 q4 e3 e4 scale ind delta x0 p34 false false
      false false ML0 MG0 L0 G0 incr lsb false R64 tmp64 P128 R128 P192 R192 R256 c3 c4 E3 E4 sz sp h hcase
  · exact midBlock_spec_wide p1 p2 p3 p4 rm pf res z_sign p_sign tmp_sign C3 C4 q3 q4 e3 e4 scale ind delta x0 p34 ML0 MG0 L0 G0 incr
      lsb R64 tmp64 P128 R128 P192 R192 R256 c3 c4 E3 E4 sz sp h hcase

-- the tail on concrete operands: 1000000000000000000000000000000000 − 9999999999999999999999999999999999e−1 (`delta = 1`, first
-- use): all but one digit cancel, 1e−1 exactly
example : midBlock false false false false .NearestEven 0 ⟨0, 0⟩ 0 0x8000000000000000 0 ⟨0x38c15b0a00000000, 0x314dc6448d93⟩
    ⟨0x378d8e63ffffffff, 0x1ed09bead87c0, 0, 0⟩ 34 34 0 (-1) 0 0 1 0 34
    false false false false false false false false false false false 0 0 ⟨0, 0⟩ ⟨0, 0⟩ ⟨0, 0, 0⟩ ⟨0, 0, 0⟩ ⟨0, 0, 0, 0⟩ =
    .ok (⟨0x1, 0x303e000000000000⟩, false, false, false, false, 0x0) := by decide +kernel
-- second use, product's exponent below emin: 1234567e−6182 − 1e−6176 (`delta = 0`), rounding downward: 0e−6176 with underflow
-- and inexact (the exact difference is 0.234567e−6176, rounded down)
example : midBlock false false false false .Downward 0 ⟨0, 0⟩ 0 0x8000000000000000 0 ⟨0x12d687, 0⟩ ⟨1, 0, 0, 0⟩ 7 1 (-6182) (-6176) 0 0 0 0 34
    false false false false false false false false false false false 0 0 ⟨0, 0⟩ ⟨0, 0⟩ ⟨0, 0, 0⟩ ⟨0, 0, 0⟩ ⟨0, 0, 0, 0⟩ =
    .ok (⟨0x0, 0x0⟩, false, false, true, false, 0x30) := by decide +kernel

end Dec.C02GenFmaMid
