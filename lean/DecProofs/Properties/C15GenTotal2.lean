/-
  NOTE (added after this file was written): the hypotheses `AddRounding` / `LoopRestRounding` carried below have since been
  discharged — `Dec.C01GenAddSpec.addRounding`, `loopRestRounding` — and `Dec.AllClosed.total_all` states totality for ALL 123
  dispatched methods with no hypothesis.  `stillOpen`, `total_all'`, `total_all''` and the `…_closed` forms below are kept as the
  record of how the statement was reached; cite `AllClosed.total_all`.
-/
/-
  C15 (generated-code level), second part — brings `C15GenTotal.lean` up to date with what landed after it, and states exactly how
  far the G-level statement of C15 ("no public operation panics for any operand bits, mode, integer or string") reaches.

  WHAT IS NEW
  * `fmaOk : FmaOk` — the named hypothesis of `C15GenTotal` for the fma blocks is discharged (`C02GenFmaAssembly3.bid128_fma_spec`,
    hypothesis-free); hence `ok_fused_multiply_add'`, `ok_multiplication'` (no hypothesis), and
    `total120 : ∀ p ∈ totalMethods ++ closedNow, TotalAt p` — **120 of the 123 dispatched methods never panic**
    (`totalMethods.length = 118`, `closedNow` = multiplication, fused_multiply_add).
  * `total_all' (Ha : AddRounding)` — all 123 under the ONE hypothesis left; `total_all'' (HR : LoopRestRounding)` — the same under
    the weaker, final form of it (`C01GenAddRound.LoopRestRounding`: only the rest of the rounding loop of `bid128_add`).
  * the unconditional PART of the three methods still open, as totality outside the open region
    `AddOpen dx dy := LoopRegion dx dy ∧ ¬ Loop1Region dx dy` (`addOpen_iff`):
      `ok_addition_closed`     : `¬ AddOpen (dOf x) (dOf y)`  ⇒ `addition` returns normally (every mode, every status word);
      `ok_subtraction_closed`  : `¬ AddOpen (dOf x) (dOf (negY y))` ⇒ `subtraction` returns normally;
      `ok_fdim_closed`         : (`x > y` ⇒ `¬ AddOpen (dOf x) (dOf (negY y))`) ⇒ `fdim` returns normally;
    and `addOpen_finite` : the open region contains only pairs of finite non-zero numbers — so NaNs, infinities, zeros (and every
    non-canonical pattern, which decodes to one of these or to a finite number) are never in it.
  * `stillOpen` (addition, subtraction, fdim) and `covered_split'` : `totalMethods ++ closedNow ++ stillOpen` is exactly the dispatch
    table of `Api.run` (120 + 3 = 123, no name twice).
  * routines behind public entry points that are NOT dispatched by `Api.run` but ARE translated: `routine_total_*` (never `.error`):
    `bid128_copy`, `bid128_copy_sign`, `bid128_is_canonical`, `bid128_negate`, `bid128_from_int32/int64/uint32/uint64`.

  THE PUBLIC ENTRY POINTS OF d128.rs THAT ARE NOT IN THE DISPATCH (from `DecGen/Inventory.lean`: 173 entries; 115 `fn:` entries are
  dispatched by `Api.run`, 2 by `Api2.run2`, and `impl:PartialEq`, `impl:PartialOrd`, `impl:std::hash::Hash`, `impl:From<f32>`,
  `impl:From<f64>` are dispatched under the method names `eq ne`, `partial_cmp lt le gt ge`, `hash`, `from_f32`, `from_f64`).
  Level: G = theorem about the translated source; H = theorem about a code-shaped model tied to the code by correspondence
  (`corr …` verdicts of the judge); V = only the differential run (every call under `catch_unwind`, a panic is never accepted).

    entry point                                   what it is                                  level for "never panics"
    --------------------------------------------  ------------------------------------------  ---------------------------------------
    fn:convert_from_decimal_character             `bid128_from_string` (text → decimal)       H: `C04Scan.scan_never_panics` (every text),
    impl:FromStr, impl:From<&str>                 one call of the same routine                   `C04ScanNum.fromStringCode_no_panic`; the glue
                                                                                                 (Option/`Result` wrapping, default mode) V
    impl:Display, impl:LowerExp, impl:UpperExp,   `bid128_to_string` (upper / lower `E`)      H: `C05Format.fmtCode_isSome` (every pattern:
    impl:Debug                                                                                   the formatter model returns a text),
                                                                                                 `fmtCode_eq_format`; the `Formatter` glue V
    fn:nan                                        `bid128_nan` (tag text → quiet NaN)         V (strings are outside the translated subset;
                                                                                                 the model only demands "no panic")
    fn:copy                                       `bid128_copy`                               G routine: `routine_total_copy`
                                                                                                 (`C13GenNoncomp.copy_spec`); one call: V
    fn:copy_sign                                  `bid128_copy_sign`                          G routine: `routine_total_copy_sign`; one call: V
    fn:is_canonical                               `bid128_is_canonical`                       G routine: `routine_total_is_canonical`; one call: V
    impl:From<i32>, From<i64>, From<u32>,         `bid128_from_int32 / int64 / uint32 /       G routine: `routine_total_from_*`
    From<u64>                                     uint64`                                        (`C06GenFromInt.from_*_spec`); one call: V
    impl:From<u128>, impl:Default                 `Self::new(hi, lo)`: no arithmetic          V (two shifts / a constant; nothing can fail)
    impl:Neg, impl-ref:Neg                        `bid128_negate`                             G routine: `routine_total_negate`; = method
                                                                                                 `negate` (in `totalMethods`); one call: V
    impl:Add, AddAssign (+ impl-ref)              method `addition` with the default mode     G as `addition`: `ok_addition_closed` /
                                                                                                 `total_all'`; one call: V
    impl:Sub, SubAssign (+ impl-ref)              method `subtraction`                        G as `subtraction`; one call: V
    impl:Mul, MulAssign (+ impl-ref)              method `multiplication`                     G, unconditional: `ok_multiplication'`; one call: V
    impl:Div, DivAssign (+ impl-ref)              method `division`                           G, unconditional: `C15GenTotal.ok_division`; one call: V
    impl:Rem, RemAssign (+ impl-ref)              `bid128_rem` = method `remainder`           G, unconditional: `C15GenTotal.ok_remainder`; one call: V
    impl:std::iter::Sum (+ `&'a d128`)            fold of `+` from `ZERO`                     each step G as `addition`; the fold V
    impl:std::iter::Product (+ `&'a d128`)        fold of `*` from `ONE`                      each step G (`ok_multiplication'`); the fold V
    impl:Eq                                       marker trait, no code                       —
    const:ZERO ONE MINUS_ONE MAX MIN EPSILON      twelve constants: bit patterns, no code     — (their values: P/V, `const_values` of the judge)
      INFINITY NEGATIVE_INFINITY NAN NEG_NAN
      SNAN NEG_SNAN

  So the G-level statement of C15 covers: 120 dispatched methods + 4 binary-float methods unconditionally; the 3 remaining methods
  outside `AddOpen` unconditionally and inside it under `LoopRestRounding`; the 8 routines listed above at routine level.  Outside
  G: the text entry points (H: scanner, numeric phase and formatter models never panic), `nan` and all one-call glue (V).
  Axioms used: `propext`, `Classical.choice`, `Quot.sound`.
-/
import DecProofs.Properties.C15GenTotal
import DecProofs.Properties.C02GenFmaAssembly3
import DecProofs.Properties.SourceLevel4
import DecProofs.Properties.C01GenAddRoundClosed

set_option linter.unusedVariables false

namespace Dec.C15GenTotal
open Dec Dec.Rs Dec.Gen.Code Dec.Gen.Api
open Dec.C01GenAddLoop (AddRounding)
open Dec.C01GenAddRound (LoopRestRounding LoopRegion Loop1Region)
open Dec.SourceLevel4 (AddOpen)
open Dec.C01GenAddLoop (negY)

/-! ## 1. The fma blocks are closed -/

/-- the named hypothesis of `C15GenTotal` for `multiplication` / `fused_multiply_add`, discharged -/
theorem fmaOk : FmaOk := fun x y z m f => ⟨_, Dec.C02GenFmaAssembly3.bid128_fma_spec x y z m f⟩

theorem ok_fused_multiply_add' (m : RoundingMode) (f : UInt32) (x y z : U128) :
    IsOk (run "fused_multiply_add" m f [.d x, .d y, .d z]) := ok_fused_multiply_add fmaOk m f x y z

theorem ok_multiplication' (m : RoundingMode) (f : UInt32) (x y : U128) :
    IsOk (run "multiplication" m f [.d x, .d y]) := ok_multiplication fmaOk m f x y

-- the same two, directly from the closed API theorems
example (m : RoundingMode) (f : UInt32) (x y z : U128) : IsOk (run "fused_multiply_add" m f [.d x, .d y, .d z]) :=
  ⟨_, Dec.C02GenFmaAssembly3.api_fused_multiply_add m f x y z⟩
example (m : RoundingMode) (f : UInt32) (x y : U128) : IsOk (run "multiplication" m f [.d x, .d y]) :=
  ⟨_, Dec.C02GenFmaAssembly3.api_multiplication m f x y⟩

/-- the two methods closed since `C15GenTotal` -/
def closedNow : List (String × Shape) := [("multiplication", .d2), ("fused_multiply_add", .d3)]

/-- **120 of the 123 dispatched methods never panic**, whatever the operand bits, the integer argument, the rounding mode and
the status word -/
theorem total120 : ∀ p ∈ totalMethods ++ closedNow, TotalAt p := by
  intro p hp
  rcases List.mem_append.1 hp with h | h
  · exact total p h
  · simp only [closedNow, List.mem_cons, List.not_mem_nil, or_false] at h
    rcases h with rfl | rfl
    · exact lift2 (fun m f => ok_multiplication' m f)
    · exact lift3 (fun m f => ok_fused_multiply_add' m f)

/-- **all 123**, under the one hypothesis left (`AddRounding`) -/
theorem total_all' (Ha : AddRounding) : ∀ p ∈ allMethods, TotalAt p := total_all Ha fmaOk

/-- **all 123**, under the final form of that hypothesis: the rest of the rounding loop of `bid128_add` -/
theorem total_all'' (HR : LoopRestRounding) : ∀ p ∈ allMethods, TotalAt p :=
  total_all' (Dec.C01GenAddRoundClosed.add_rounding_partial' HR)

/-! ## 2. `addition`, `subtraction`, `fdim`: total outside the open region -/

/-- the open region, spelled out -/
theorem addOpen_iff (dx dy : Datum) : AddOpen dx dy ↔ (LoopRegion dx dy ∧ ¬ Loop1Region dx dy) := Iff.rfl

/-- the open region contains only pairs of finite non-zero numbers -/
theorem addOpen_finite {dx dy : Datum} (h : AddOpen dx dy) :
    ∃ s1 c1 e1 s2 c2 e2, dx = .fin s1 c1 e1 ∧ dy = .fin s2 c2 e2 ∧ c1 ≠ 0 ∧ c2 ≠ 0 := by
  have h1 := h.1
  cases dx with
  | fin s1 c1 e1 =>
    cases dy with
    | fin s2 c2 e2 => exact ⟨s1, c1, e1, s2, c2, e2, rfl, rfl, h1.1, h1.2.1⟩
    | inf s => exact absurd h1 id
    | nan s g p => exact absurd h1 id
  | inf s => exact absurd h1 id
  | nan s g p => exact absurd h1 id

/-- `addition` never panics outside the open part of the rounding loop -/
theorem ok_addition_closed (m : RoundingMode) (f : UInt32) (x y : U128)
    (h : ¬ (LoopRegion (Dec.SourceLevel4.dOf x) (Dec.SourceLevel4.dOf y) ∧
            ¬ Loop1Region (Dec.SourceLevel4.dOf x) (Dec.SourceLevel4.dOf y))) :
    IsOk (run "addition" m f [.d x, .d y]) := ⟨_, Dec.SourceLevel4.addition_closed m f x y h⟩

/-- `subtraction` never panics when `(x, −y)` is outside the open part -/
theorem ok_subtraction_closed (m : RoundingMode) (f : UInt32) (x y : U128)
    (h : ¬ (LoopRegion (Dec.SourceLevel4.dOf x) (Dec.SourceLevel4.dOf (negY y)) ∧
            ¬ Loop1Region (Dec.SourceLevel4.dOf x) (Dec.SourceLevel4.dOf (negY y)))) :
    IsOk (run "subtraction" m f [.d x, .d y]) := ⟨_, Dec.SourceLevel4.subtraction_closed m f x y h⟩

/-- `fdim` never panics unless `x > y` with `(x, −y)` in the open part -/
theorem ok_fdim_closed (m : RoundingMode) (f : UInt32) (x y : U128)
    (h : cmpD (Dec.SourceLevel4.dOf x) (Dec.SourceLevel4.dOf y) = some .gt →
      ¬ (LoopRegion (Dec.SourceLevel4.dOf x) (Dec.SourceLevel4.dOf (negY y)) ∧
         ¬ Loop1Region (Dec.SourceLevel4.dOf x) (Dec.SourceLevel4.dOf (negY y)))) :
    IsOk (run "fdim" m f [.d x, .d y]) := ⟨_, Dec.SourceLevel4.fdim_closed m f x y h⟩

/-- in particular: an operand that is a NaN, an infinity or a zero — `addition` never panics -/
theorem ok_addition_special (m : RoundingMode) (f : UInt32) (x y : U128)
    (h : (∀ s c e, Dec.SourceLevel4.dOf x = .fin s c e → c = 0) ∨ (∀ s c e, Dec.SourceLevel4.dOf y = .fin s c e → c = 0)) :
    IsOk (run "addition" m f [.d x, .d y]) := by
  refine ok_addition_closed m f x y fun ho => ?_
  obtain ⟨s1, c1, e1, s2, c2, e2, hx, hy, h1, h2⟩ := addOpen_finite ho
  rcases h with h | h
  · exact h1 (h _ _ _ hx)
  · exact h2 (h _ _ _ hy)

/-! ## 3. The split of the dispatch table, now -/

/-- the dispatched methods not yet unconditional -/
def stillOpen : List (String × Shape) := [("addition", .d2), ("subtraction", .d2), ("fdim", .d2)]

/-- `totalMethods ++ closedNow ++ stillOpen` is exactly the dispatch table of `Api.run`: 120 + 3 = 123, no method twice -/
theorem covered_split' :
    (totalMethods ++ closedNow).length = 120 ∧ stillOpen.length = 3 ∧ Dec.Gen.Api.covered.length = 123 ∧
    ((totalMethods ++ closedNow ++ stillOpen).map Prod.fst).Nodup ∧
    (Dec.Gen.Api.covered.map Prod.fst).all (fun n => ((totalMethods ++ closedNow ++ stillOpen).map Prod.fst).contains n) = true ∧
    ((totalMethods ++ closedNow ++ stillOpen).map Prod.fst).all (fun n => (Dec.Gen.Api.covered.map Prod.fst).contains n) = true := by
  refine ⟨by decide, by decide, by decide, by decide +kernel, by decide +kernel, by decide +kernel⟩

/-- every member of `stillOpen` is total under the one hypothesis left -/
theorem stillOpen_total (HR : LoopRestRounding) : ∀ p ∈ stillOpen, TotalAt p := by
  intro p hp
  apply total_all'' HR
  simp only [stillOpen, List.mem_cons, List.not_mem_nil, or_false] at hp
  rcases hp with rfl | rfl | rfl <;> decide

/-! ## 4. Translated routines behind entry points that are not dispatched -/

theorem routine_total_copy (x : U128) : ∃ r, bid128_copy x = .ok r := ⟨_, Dec.C13GenNoncomp.copy_spec x⟩
theorem routine_total_copy_sign (x y : U128) : ∃ r, bid128_copy_sign x y = .ok r := ⟨_, Dec.C13GenNoncomp.copy_sign_spec x y⟩
theorem routine_total_is_canonical (x : U128) : ∃ r, bid128_is_canonical x = .ok r := ⟨_, Dec.C13GenNoncomp.is_canonical_spec x⟩
theorem routine_total_negate (x : U128) : ∃ r, bid128_negate x = .ok r := ⟨_, Dec.C13GenNoncomp.negate_spec x⟩
theorem routine_total_from_int32 (n : Int32) : ∃ r, bid128_from_int32 n = .ok r := ⟨_, Dec.C06GenFromInt.from_int32_spec n⟩
theorem routine_total_from_int64 (n : Int64) : ∃ r, bid128_from_int64 n = .ok r := ⟨_, Dec.C06GenFromInt.from_int64_spec n⟩
theorem routine_total_from_uint32 (n : UInt32) : ∃ r, bid128_from_uint32 n = .ok r := ⟨_, Dec.C06GenFromInt.from_uint32_spec n⟩
theorem routine_total_from_uint64 (n : UInt64) : ∃ r, bid128_from_uint64 n = .ok r := ⟨_, Dec.C06GenFromInt.from_uint64_spec n⟩

/-! ## 5. Examples -/

example (x y : U128) (f : UInt32) : IsOk (run "multiplication" .TowardZero f [.d x, .d y]) :=
  total120 ("multiplication", .d2) (by decide) _ _ _ ⟨x, y, rfl⟩
example (x y z : U128) : IsOk (run "fused_multiply_add" .NearestAway 0x3f [.d x, .d y, .d z]) := ok_fused_multiply_add' _ _ x y z
-- 1 + NaN, ∞ + 0, … : never in the open region
example (y : U128) : IsOk (run "addition" .NearestEven 0 [.d ⟨0, 0x7c00000000000000⟩, .d y]) :=
  ok_addition_special _ _ _ y (Or.inl fun s c e h => by
    have : Dec.SourceLevel4.dOf ⟨0, 0x7c00000000000000⟩ = .nan false false 0 := by decide +kernel
    rw [this] at h; exact Datum.noConfusion h)
example (HR : LoopRestRounding) (x y : U128) : IsOk (run "fdim" .Upward 0 [.d x, .d y]) :=
  stillOpen_total HR ("fdim", .d2) (by decide) _ _ _ ⟨x, y, rfl⟩

end Dec.C15GenTotal
