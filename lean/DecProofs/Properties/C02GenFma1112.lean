/-
  C02GenFma1112 — Cases (11), (12) of the fused multiply-add `bid128_ext_fma` (bid128_fma.rs lines 3480–3980 at the present
  HEAD), as translated in `DecGen/Code.lean`: `delta < 0`, and after `delta = −delta`
      (p34 ≤ delta && delta < q4 && q4 < delta + q3) || (delta < p34 && p34 < q4 && q4 < delta + q3)
  — the product has more than 34 digits and the addend reaches below its last digit without lying entirely below it.  The block
  rounds `C3` to the exponent of the product (`x0 = e4 − e3` digits removed), adds or subtracts, rounds the sum to 34 digits and
  repairs the double rounding with the indicators of the first rounding.

  STATE: the code side is complete; the block theorem is `case1112_partial` (see below for exactly what is missing).

  HOW.  `cond1112`, `case1112K`: literal text (the 32 mutable variables of the routine that the block touches are parameters, in
  the order of their declaration).  Five stages, again literal text, each handing ALL 32 variables to a continuation:
  `rnd1K` (round `C3`), `addK` (sum / difference, indicators turned round for a difference), `rnd2K` (digit count, second
  rounding, repair), `tinyK` (tininess), `endK` (packing, overflow to infinity in nearest-even, the underflow block,
  correction, flags).  `case1112K_eq`: the block is the chain of the stages — by a copy (§0) of the lock-step congruence prover
  of C02GenFmaFront.lean (`rfl` compares the remainder of the routine once per path and times out).

  PROVED (no hypotheses beyond the entry invariant):
    * `rnd1K_spec`  — the new `C3` IS `rne c3 x0` (after `×10` on a carry), indicators = `specInd` (both helper sizes).
    * `addK_spec`   — stage 2 computes `addF` (incl. the four-word `±1` chains `inc256`, `dec256`, `lsb_eq`).
    * `add_math`    — the mathematics of stage 2: the sum `c1` is within half a unit `10^x0` of the exact `V = C4·10^x0 ± C3`, the
                      indicators leaving the stage are `posInd V 10^x0 c1`, a tie of a difference has an even `c1` (that is what
                      the `lsb` adjustment is for), `c1 = C4 + r3` resp. `|c1 − (C4 − r3)| ≤ 1`.
    * `rnd2K_spec`  — stage 3 computes `rnd2F`: for 34 digits nothing; else the helper for the size (all three; the stale
                      `incr_exp` of stage 1 that is passed in is ignored by the helpers: `round192_incr`, `round256_incr`) and the
                      repair chain `repairC` = `combine` of C02GenFmaLow on the un-carried value, handed on as `deliver`
                      (`repair_spec`; the inner wrap `10^33 − 1 ↦ 10^34 − 1` is reached exactly after a carry).
    * `tinyK_spec`  — nothing is ever tiny in this block (`e4 > e3 ≥ −6176`); the trial correction's exponent field is read back
                      (`field_back`), its status word keeps at most `inexact`.
    * `endK_spec`   — stage 5 (the shape of `tailK_spec` of C02GenFmaSwap, exact results included): the underflow block (130
                      lines) is dead under the invariant; proved by stepping at the head (`head_step`/`take_pos`/`take_neg`
                      of C12GenNaN: normalising the stage with `simp` makes the kernel run out of stack).
    * `case1112_stages` — stages 1–4 composed: the block arrives at `endK` with `deliver cf ef`, `(cf, ef, F) = rnd2F …(addF …)`.
    * `case1112_partial` — + `endK_spec`: IF `(cf, ef, F)` is a nearest-even rounding of some `V/D` with truthful indicators,
                      the block returns `V/D` rounded once in the mode asked for, normalised, flags `f ||| …`.
  MISSING for `= fmaD` (pure arithmetic, no code):
    (i)  the hypotheses of `case1112_partial` for `V = C4·10^x0 ± C3`, `D = 10^(x0 + nd − 34)`: `add_math` + `two_step`
         (C02GenFmaLow) — except the sub-case `cf = 10^33` above the exact value (sum exactly `10^(nd−1)` after a first rounding
         upward): to be viewed one decade lower (`cf = 10^34` at `ef − 1`); there a tie is reported as `is_inexact_gt_midpoint`
         instead of `is_midpoint_lt_even` — harmless (the correction table has equal columns for the two), but the indicators
         are then not `posInd`;
    (ii) "rounded once and normalised" ⇒ `Dec.finish`: `finish_rounded` (C02GenFmaSwap / C02GenFmaLow) for inexact results, the
         exact clause of `FinishSpecStrict` for exact ones.
  FINDINGS: none (five spot checks through `bid128_fma` against `fmaD` at the end, incl. a tie of the first rounding).  Remarks:
  the un-masked exponent packing of stage 5 (`res.w[1] |= p_sign | ((e4+6176) << 49)`, no `& MASK_EXP`) would spill into the
  sign bit for `e4 > 10207`; in this block `e4 < q3 + e3 ≤ 6145`, so `e4 + 35 + 6176 < 2^14`.  The second helper call receives
  the `incr_exp` left by the first rounding; harmless, the helpers overwrite it.
-/
import Lean.Elab.Tactic
import Lean.Meta.AppBuilder
import DecGen.Code
import DecModel.Arith
import DecProofs.Core.FinishUnique
import DecProofs.Properties.C02GenRound
import DecProofs.Properties.C02GenCorrection
import DecProofs.Properties.C02GenFmaSwap
import DecProofs.Properties.C02GenFmaLow
import Mathlib.Tactic.Ring
import Mathlib.Tactic.Linarith

set_option linter.unusedVariables false
set_option linter.unusedSimpArgs false
set_option linter.unusedTactic false
set_option linter.unreachableTactic false

/-! ## 0. The lock-step congruence prover of C02GenFmaFront.lean (copied: that file is not always in a built state; see there
for the explanation) — `rfl` cannot compare a `do` block with its stages because the remainder of the routine is compared once
per path through the join points -/

namespace Lockstep1112
open Lean Meta

/-- one reduction step at the head that is not ζ: β, projection of a constructor, unfolding of a constant allowed by `unf` -/
def headStep (unf : Name → Bool) (e : Expr) : MetaM (Option Expr) := do
  let f := e.getAppFn
  match f with
  | .lam .. => return some (f.beta e.getAppArgs)
  | .mdata _ f' => return some (mkAppN f' e.getAppArgs)
  | .const n lvls =>
    if unf n then
      let some ci := (← getEnv).find? n | return none
      let some v := ci.value? | return none
      return some ((v.instantiateLevelParams ci.levelParams lvls).beta e.getAppArgs)
    else return none
  | .proj _ i s =>
    match ← projectCore? (← whnfCore s) i with
    | some r => return some (mkAppN r e.getAppArgs)
    | none => return none
  | .letE _ _ v b _ => if e.isApp then return some (mkAppN (b.instantiate1 v) e.getAppArgs) else return none
  | _ => return none

/-- number of nodes, capped -/
partial def smallSize (e : Expr) (cap : Nat) : Nat := Id.run do
  let rec go (e : Expr) (n : Nat) : Nat :=
    if n ≥ cap then n else
    match e with
    | .app f a => go a (go f (n + 1))
    | .lam _ t b _ => go b (go t (n + 1))
    | .forallE _ t b _ => go b (go t (n + 1))
    | .letE _ t v b _ => go b (go v (go t (n + 1)))
    | .mdata _ b => go b n
    | .proj _ _ b => go b (n + 1)
    | _ => n + 1
  go e 0

/-- explicit `funext` (no unification on the big terms) -/
def mkFunExtE (n : Name) (bi : BinderInfo) (α : Expr) (x : Expr) (fx gx h : Expr) : MetaM Expr := do
  let β ← inferType fx
  let u ← getLevel α
  let v ← getLevel β
  let f ← mkLambdaFVars #[x] fx
  let g ← mkLambdaFVars #[x] gx
  let hl ← mkLambdaFVars #[x] h
  let βl ← mkLambdaFVars #[x] β
  return mkApp5 (mkConst ``funext [u, v]) α βl f g hl

mutual
/-- proof of `a = b`, comparing every piece once: first bring both sides to a common shape by head steps -/
partial def prove (unf : Name → Bool) (a b : Expr) : MetaM Expr := do
  if a == b then return ← mkEqRefl a
  let mut a' := a
  let mut b' := b
  let mut fuel := 100000
  while fuel > 0 do
    fuel := fuel - 1
    if a' == b' then break
    if let some x ← headStep unf a' then a' := x; continue
    if let some x ← headStep unf b' then b' := x; continue
    match a', b' with
    | .letE _ t v body _, .letE _ t' v' body' _ =>
      if v != v' && v.isLambda && v'.isLambda && t == t' then break
      a' := body.instantiate1 v; b' := body'.instantiate1 v'
    | .letE _ _ v body _, _ => a' := body.instantiate1 v
    | _, .letE _ _ v body _ => b' := body.instantiate1 v
    | .mdata _ x, _ => a' := x
    | _, .mdata _ x => b' := x
    | _, _ => break
  let p ← core unf a' b'
  if a'.equal a && b'.equal b then return p
  mkExpectedTypeHint p (← mkEq a b)

/-- the structural step -/
partial def core (unf : Name → Bool) (a b : Expr) : MetaM Expr := do
  if a == b then return ← mkEqRefl a
  if smallSize a 4000 < 4000 && smallSize b 4000 < 4000 then
    -- small terms: leave it to the kernel
    return ← mkExpectedTypeHint (← mkEqRefl a) (← mkEq a b)
  match a, b with
  | .letE n t v body _, .letE _ _ v' body' _ =>
    -- a join point: compare the join points themselves, and the bodies with the join point opaque
    let hV ← prove unf v v'
    let fA := Expr.lam n t body .default
    let p1 ← mkCongrArg fA hV            -- body[v] = body[v']
    if body == body' then
      mkExpectedTypeHint p1 (← mkEq a b)
    else
      let hB ← withLocalDecl n .default t fun jp => do
        let l := body.instantiate1 jp
        let r := body'.instantiate1 jp
        let h ← prove unf l r
        mkFunExtE n .default t jp l r h
      let p2 ← mkCongrFun hB v'
      mkExpectedTypeHint (← mkEqTrans p1 p2) (← mkEq a b)
  | .lam n t body bi, .lam _ t' body' _ =>
    if t != t' then throwError "lockstep: binder types differ: {t} vs {t'}"
    withLocalDecl n bi t fun x => do
      let l := body.instantiate1 x
      let r := body'.instantiate1 x
      let h ← prove unf l r
      mkFunExtE n bi t x l r h
  | _, _ =>
    let f := a.getAppFn; let g := b.getAppFn
    let as := a.getAppArgs; let bs := b.getAppArgs
    if a.isApp && b.isApp && f == g && as.size == bs.size then
      let mut p ← mkEqRefl f
      for i in [0:as.size] do
        if as[i]! == bs[i]! then p ← mkCongrFun p as[i]!
        else
          let h ← prove unf as[i]! bs[i]!
          try
            p ← mkCongr p h
          catch _ =>
            throwError "lockstep: dependent argument {i} of {f} differs:\n{(toString (← ppExpr as[i]!)).take 1500}\nvs\n{(toString (← ppExpr bs[i]!)).take 1500}"
      return p
    else
      throwError "lockstep: cannot match\n{(toString (← ppExpr a)).take 600}\nwith\n{(toString (← ppExpr b)).take 600}"
end

open Elab Tactic in
/-- `lockstep pre`: prove an equation between two expansions of a translated routine, unfolding at the head the constants
whose name has the prefix `pre` and the routine itself (the head constant of the left-hand side) -/
elab "lockstep1112 " pre:ident : tactic => do
  let g ← getMainGoal
  let t := (← instantiateMVars (← g.getType)).consumeMData
  let some (_, lhs, rhs) := t.eq? | throwError "lockstep: not an equation"
  let p := pre.getId
  let top := lhs.getAppFn.constName?.getD Name.anonymous
  let prf ← prove (fun n => p.isPrefixOf n || n == top) lhs rhs
  g.assign prf


end Lockstep1112

namespace Dec.C02GenFma1112
open Dec Dec.Rs Dec.Gen.Code

/-! ## 1. The text of the block and of its stages -/

/-- the test of Cases (11), (12), literally -/
def cond1112 (q3 q4 delta p34 : Int32) : Bool :=
  (((((decide (p34 ≤ delta)) && (decide (delta < q4))) && (decide (q4 < (delta + q3))))) || ((((decide (delta < p34)) && (decide (p34 < q4))) && (decide (q4 < (delta + q3))))))

/-- the type of a continuation: it receives the 32 mutable variables of `bid128_ext_fma` that the block touches, in the order of
their declaration in the routine -/
abbrev K (α : Type) : Type := Bool → Bool → Bool → Bool → UInt32 → U128 → U128 → Int32 → Int32 → Int32 → Int32 → Int32 → Bool → Bool → Bool → Bool → Bool → Bool → Bool → Bool → Bool → Bool → Bool → Bool → Bool → Bool → UInt64 → U128 → U128 → U192 → U192 → U256 → Except String α

/-- Cases (11), (12) of `bid128_ext_fma` (Rust lines 3480–3980 at the present HEAD): the literal text of the translation; the
mutable variables at the entry as parameters -/
def case1112K (q3 p34 : Int32) (z_sign p_sign : UInt64) (C4 : U256) (rnd_mode : RoundingMode)
    (ptr_is_midpoint_lt_even_ : Bool) (ptr_is_midpoint_gt_even_ : Bool) (ptr_is_inexact_lt_midpoint_ : Bool) (ptr_is_inexact_gt_midpoint_ : Bool) (pfpsf_ : UInt32) (res_ : U128) (C3_ : U128) (e3_ : Int32) (e4_ : Int32) (scale_ : Int32) (ind_ : Int32) (x0_ : Int32) (is_midpoint_lt_even_ : Bool) (is_midpoint_gt_even_ : Bool) (is_inexact_lt_midpoint_ : Bool) (is_inexact_gt_midpoint_ : Bool) (is_midpoint_lt_even0_ : Bool) (is_midpoint_gt_even0_ : Bool) (is_inexact_lt_midpoint0_ : Bool) (is_inexact_gt_midpoint0_ : Bool) (incr_exp_ : Bool) (lsb_ : Bool) (lt_half_ulp_ : Bool) (eq_half_ulp_ : Bool) (gt_half_ulp_ : Bool) (is_tiny_ : Bool) (R64_ : UInt64) (P128_ : U128) (R128_ : U128) (P192_ : U192) (R192_ : U192) (R256_ : U256) : Except String (U128 × Bool × Bool × Bool × Bool × UInt32) := do
  let mut ptr_is_midpoint_lt_even : Bool := ptr_is_midpoint_lt_even_
  let mut ptr_is_midpoint_gt_even : Bool := ptr_is_midpoint_gt_even_
  let mut ptr_is_inexact_lt_midpoint : Bool := ptr_is_inexact_lt_midpoint_
  let mut ptr_is_inexact_gt_midpoint : Bool := ptr_is_inexact_gt_midpoint_
  let mut pfpsf : UInt32 := pfpsf_
  let mut res : U128 := res_
  let mut C3 : U128 := C3_
  let mut e3 : Int32 := e3_
  let mut e4 : Int32 := e4_
  let mut scale : Int32 := scale_
  let mut ind : Int32 := ind_
  let mut x0 : Int32 := x0_
  let mut is_midpoint_lt_even : Bool := is_midpoint_lt_even_
  let mut is_midpoint_gt_even : Bool := is_midpoint_gt_even_
  let mut is_inexact_lt_midpoint : Bool := is_inexact_lt_midpoint_
  let mut is_inexact_gt_midpoint : Bool := is_inexact_gt_midpoint_
  let mut is_midpoint_lt_even0 : Bool := is_midpoint_lt_even0_
  let mut is_midpoint_gt_even0 : Bool := is_midpoint_gt_even0_
  let mut is_inexact_lt_midpoint0 : Bool := is_inexact_lt_midpoint0_
  let mut is_inexact_gt_midpoint0 : Bool := is_inexact_gt_midpoint0_
  let mut incr_exp : Bool := incr_exp_
  let mut lsb : Bool := lsb_
  let mut lt_half_ulp : Bool := lt_half_ulp_
  let mut eq_half_ulp : Bool := eq_half_ulp_
  let mut gt_half_ulp : Bool := gt_half_ulp_
  let mut is_tiny : Bool := is_tiny_
  let mut R64 : UInt64 := R64_
  let mut P128 : U128 := P128_
  let mut R128 : U128 := R128_
  let mut P192 : U192 := P192_
  let mut R192 : U192 := R192_
  let mut R256 : U256 := R256_
  x0 := (e4 - e3)
  if (decide (q3 ≤ (0x12 : Int32))) then
    let t__55 ← bid_round64_2_18 q3 x0 C3.w0 incr_exp is_midpoint_lt_even is_midpoint_gt_even is_inexact_lt_midpoint is_inexact_gt_midpoint
    incr_exp := t__55.2.1
    is_midpoint_lt_even := t__55.2.2.1
    is_midpoint_gt_even := t__55.2.2.2.1
    is_inexact_lt_midpoint := t__55.2.2.2.2.1
    is_inexact_gt_midpoint := t__55.2.2.2.2.2
    R64 := t__55.1
    C3 := { C3 with w0 := R64 }
  else
    if (decide (q3 ≤ (0x26 : Int32))) then
      let t__56 ← bid_round128_19_38 q3 x0 C3 incr_exp is_midpoint_lt_even is_midpoint_gt_even is_inexact_lt_midpoint is_inexact_gt_midpoint
      incr_exp := t__56.2.1
      is_midpoint_lt_even := t__56.2.2.1
      is_midpoint_gt_even := t__56.2.2.2.1
      is_inexact_lt_midpoint := t__56.2.2.2.2.1
      is_inexact_gt_midpoint := t__56.2.2.2.2.2
      R128 := t__56.1
      C3 := { C3 with w1 := R128.w1 }
      C3 := { C3 with w0 := R128.w0 }
  if incr_exp then
    P128 := { P128 with w1 := C3.w1 }
    P128 := { P128 with w0 := C3.w0 }
    C3 := (← mul_64x128_to_128 (← tbl64 Dec.Gen.BID_TEN2K64 (UInt64.ofInt (toI 1))) P128)
  e3 := (e3 + x0)
  R256 := { R256 with w3 := (0 : UInt64) }
  R256 := { R256 with w2 := (0 : UInt64) }
  R256 := { R256 with w1 := C3.w1 }
  R256 := { R256 with w0 := C3.w0 }
  if (p_sign == z_sign) then
    R256 := (← bid_add256 C4 R256)
  else
    R256 := (← bid_sub256 C4 R256)
    lsb := (((C4.w0 &&& (1 : UInt64))) == (1 : UInt64))
    if is_inexact_lt_midpoint then
      is_inexact_lt_midpoint := false
      is_inexact_gt_midpoint := true
    else
      if is_inexact_gt_midpoint then
        is_inexact_gt_midpoint := false
        is_inexact_lt_midpoint := true
      else
        if (!lsb) then
          if is_midpoint_lt_even then
            is_midpoint_lt_even := false
            is_midpoint_gt_even := true
          else
            if is_midpoint_gt_even then
              is_midpoint_gt_even := false
              is_midpoint_lt_even := true
            else
              pure ()
        else
          if lsb then
            if is_midpoint_lt_even then
              R256 := { R256 with w0 := (R256.w0 + 1) }
              if (R256.w0 == (0 : UInt64)) then
                R256 := { R256 with w1 := (R256.w1 + 1) }
                if (R256.w1 == (0 : UInt64)) then
                  R256 := { R256 with w2 := (R256.w2 + 1) }
                  if (R256.w2 == (0 : UInt64)) then
                    R256 := { R256 with w3 := (R256.w3 + 1) }
            else
              if is_midpoint_gt_even then
                R256 := { R256 with w0 := (R256.w0 - 1) }
                if (R256.w0 == (0xffffffffffffffff : UInt64)) then
                  R256 := { R256 with w1 := (R256.w1 - 1) }
                  if (R256.w1 == (0xffffffffffffffff : UInt64)) then
                    R256 := { R256 with w2 := (R256.w2 - 1) }
                    if (R256.w2 == (0xffffffffffffffff : UInt64)) then
                      R256 := { R256 with w3 := (R256.w3 - 1) }
              else
                pure ()
          else
            pure ()
  ind := (← bid_bid_nr_digits256 R256)
  let t__57 : Int32 := ind
  if (let value := t__57; (decide (value < p34))) then
    let mut value : Int32 := t__57
    pure ()
  else
    if (let value := t__57; (value == p34)) then
      let mut value : Int32 := t__57
      res := { res with w1 := R256.w1 }
      res := { res with w0 := R256.w0 }
    else
      x0 := (ind - p34)
      is_inexact_lt_midpoint0 := is_inexact_lt_midpoint
      is_inexact_gt_midpoint0 := is_inexact_gt_midpoint
      is_midpoint_lt_even0 := is_midpoint_lt_even
      is_midpoint_gt_even0 := is_midpoint_gt_even
      is_inexact_lt_midpoint := false
      is_inexact_gt_midpoint := false
      is_midpoint_lt_even := false
      is_midpoint_gt_even := false
      if (decide (ind ≤ (0x26 : Int32))) then
        P128 := { P128 with w1 := R256.w1 }
        P128 := { P128 with w0 := R256.w0 }
        let t__58 ← bid_round128_19_38 ind x0 P128 incr_exp is_midpoint_lt_even is_midpoint_gt_even is_inexact_lt_midpoint is_inexact_gt_midpoint
        incr_exp := t__58.2.1
        is_midpoint_lt_even := t__58.2.2.1
        is_midpoint_gt_even := t__58.2.2.2.1
        is_inexact_lt_midpoint := t__58.2.2.2.2.1
        is_inexact_gt_midpoint := t__58.2.2.2.2.2
        R128 := t__58.1
      else
        if (decide (ind ≤ (0x39 : Int32))) then
          P192 := { P192 with w2 := R256.w2 }
          P192 := { P192 with w1 := R256.w1 }
          P192 := { P192 with w0 := R256.w0 }
          let t__59 ← bid_round192_39_57 ind x0 P192 incr_exp is_midpoint_lt_even is_midpoint_gt_even is_inexact_lt_midpoint is_inexact_gt_midpoint
          incr_exp := t__59.2.1
          is_midpoint_lt_even := t__59.2.2.1
          is_midpoint_gt_even := t__59.2.2.2.1
          is_inexact_lt_midpoint := t__59.2.2.2.2.1
          is_inexact_gt_midpoint := t__59.2.2.2.2.2
          R192 := t__59.1
          R128 := { R128 with w1 := R192.w1 }
          R128 := { R128 with w0 := R192.w0 }
        else
          let t__60 ← bid_round256_58_76 ind x0 R256 incr_exp is_midpoint_lt_even is_midpoint_gt_even is_inexact_lt_midpoint is_inexact_gt_midpoint
          incr_exp := t__60.2.1
          is_midpoint_lt_even := t__60.2.2.1
          is_midpoint_gt_even := t__60.2.2.2.1
          is_inexact_lt_midpoint := t__60.2.2.2.2.1
          is_inexact_gt_midpoint := t__60.2.2.2.2.2
          R256 := t__60.1
          R128 := { R128 with w1 := R256.w1 }
          R128 := { R128 with w0 := R256.w0 }
      e4 := ((e4 + x0) + (if incr_exp then 1 else 0))
      res := { res with w1 := R128.w1 }
      res := { res with w0 := R128.w0 }
      if (((is_inexact_gt_midpoint0 || is_midpoint_lt_even0)) && is_midpoint_lt_even) then
        res := { res with w0 := (res.w0 - 1) }
        if (res.w0 == (0xffffffffffffffff : UInt64)) then
          res := { res with w1 := (res.w1 - 1) }
        is_midpoint_lt_even := false
        is_inexact_lt_midpoint := true
        if ((res.w1 == (0x314dc6448d93 : UInt64)) && (res.w0 == (0x38c15b09ffffffff : UInt64))) then
          res := { res with w1 := (0x1ed09bead87c0 : UInt64) }
          res := { res with w0 := (0x378d8e63ffffffff : UInt64) }
          e4 := (e4 - 1)
      else
        if (((is_inexact_lt_midpoint0 || is_midpoint_gt_even0)) && is_midpoint_gt_even) then
          res := { res with w0 := (res.w0 + 1) }
          if (res.w0 == (0 : UInt64)) then
            res := { res with w1 := (res.w1 + 1) }
          is_midpoint_gt_even := false
          is_inexact_gt_midpoint := true
        else
          if ((((!is_midpoint_lt_even) && (!is_midpoint_gt_even)) && (!is_inexact_lt_midpoint)) && (!is_inexact_gt_midpoint)) then
            if (is_inexact_gt_midpoint0 || is_midpoint_lt_even0) then
              is_inexact_gt_midpoint := true
            if (is_inexact_lt_midpoint0 || is_midpoint_gt_even0) then
              is_inexact_lt_midpoint := true
          else
            if (is_midpoint_gt_even && ((is_inexact_gt_midpoint0 || is_midpoint_lt_even0))) then
              is_inexact_lt_midpoint := true
              is_inexact_gt_midpoint := false
              is_midpoint_lt_even := false
              is_midpoint_gt_even := false
            else
              if (is_midpoint_lt_even && ((is_inexact_lt_midpoint0 || is_midpoint_gt_even0))) then
                is_inexact_lt_midpoint := false
                is_inexact_gt_midpoint := true
                is_midpoint_lt_even := false
                is_midpoint_gt_even := false
              else
                pure ()
  if (rnd_mode == RoundingMode.NearestEven) then
    if (decide (e4 < c_EXP_MIN_UNBIASED)) then
      is_tiny := true
  else
    P128 := { P128 with w1 := ((p_sign ||| (0x3040000000000000 : UInt64)) ||| res.w1) }
    P128 := { P128 with w0 := res.w0 }
    let t__61 ← bid_rounding_correction rnd_mode is_inexact_lt_midpoint is_inexact_gt_midpoint is_midpoint_lt_even is_midpoint_gt_even (0 : Int32) P128 pfpsf
    P128 := t__61.1
    pfpsf := t__61.2
    scale := (Int32.ofInt (toI ((((((P128.w1 &&& c_MASK_EXP)) >>> 0x31)) - (0x1820 : UInt64)))))
    if (decide ((e4 + scale) < c_EXP_MIN_UNBIASED)) then
      is_tiny := true
  res := { res with w1 := (res.w1 ||| (p_sign ||| ((((UInt64.ofInt (toI ((e4 + (0x1820 : Int32)))))) <<< 0x31)))) }
  ind := p34
  if ((rnd_mode == RoundingMode.NearestEven) && (decide (((ind + e4)) > ((p34 + c_EXP_MAX_UNBIASED))))) then
    res := { res with w1 := (p_sign ||| (0x7800000000000000 : UInt64)) }
    res := { res with w0 := (0 : UInt64) }
    pfpsf := (pfpsf ||| (c_StatusFlags_BID_INEXACT_EXCEPTION ||| c_StatusFlags_BID_OVERFLOW_EXCEPTION))
    ptr_is_midpoint_lt_even := is_midpoint_lt_even
    ptr_is_midpoint_gt_even := is_midpoint_gt_even
    ptr_is_inexact_lt_midpoint := is_inexact_lt_midpoint
    ptr_is_inexact_gt_midpoint := is_inexact_gt_midpoint
    return (res, ptr_is_midpoint_lt_even, ptr_is_midpoint_gt_even, ptr_is_inexact_lt_midpoint, ptr_is_inexact_gt_midpoint, pfpsf)
  if (decide (e4 < c_EXP_MIN_UNBIASED)) then
    x0 := (c_EXP_MIN_UNBIASED - e4)
    is_inexact_lt_midpoint0 := is_inexact_lt_midpoint
    is_inexact_gt_midpoint0 := is_inexact_gt_midpoint
    is_midpoint_lt_even0 := is_midpoint_lt_even
    is_midpoint_gt_even0 := is_midpoint_gt_even
    is_inexact_lt_midpoint := false
    is_inexact_gt_midpoint := false
    is_midpoint_lt_even := false
    is_midpoint_gt_even := false
    let t__62 : Int32 := x0
    if (let value := t__62; (decide (value > ind))) then
      let mut value : Int32 := t__62
      is_inexact_lt_midpoint := true
      res := { res with w1 := (p_sign ||| (0 : UInt64)) }
      res := { res with w0 := (0 : UInt64) }
      e4 := c_EXP_MIN_UNBIASED
    else
      if (let value := t__62; (value == ind)) then
        let mut value : Int32 := t__62
        R128 := { R128 with w1 := (res.w1 &&& c_MASK_COEFF) }
        R128 := { R128 with w0 := res.w0 }
        if (decide (ind ≤ (0x13 : Int32))) then
          let t__63 : UInt64 := (← tbl64 Dec.Gen.BID_MIDPOINT64 (UInt64.ofInt (toI ((ind - (1 : Int32))))))
          if (let value := t__63; (decide (R128.w0 < value))) then
            let mut value_64 : UInt64 := t__63
            lt_half_ulp := true
            is_inexact_lt_midpoint := true
          else
            if (let value := t__63; (R128.w0 == value)) then
              let mut value_65 : UInt64 := t__63
              if (is_inexact_lt_midpoint0 || is_midpoint_gt_even0) then
                gt_half_ulp := true
                is_inexact_gt_midpoint := true
              else
                if (is_inexact_gt_midpoint0 || is_midpoint_lt_even0) then
                  lt_half_ulp := true
                  is_inexact_lt_midpoint := true
                else
                  eq_half_ulp := true
                  is_midpoint_gt_even := true
            else
              gt_half_ulp := true
              is_inexact_gt_midpoint := true
        else
          if (← (if (decide (R128.w1 < (← tbl128 Dec.Gen.BID_MIDPOINT128 (UInt64.ofInt (toI ((ind - (0x14 : Int32)))))).w1)) then pure true else (do pure ((← (if (R128.w1 == (← tbl128 Dec.Gen.BID_MIDPOINT128 (UInt64.ofInt (toI ((ind - (0x14 : Int32)))))).w1) then (do pure (decide (R128.w0 < (← tbl128 Dec.Gen.BID_MIDPOINT128 (UInt64.ofInt (toI ((ind - (0x14 : Int32)))))).w0))) else pure false)))))) then
            lt_half_ulp := true
            is_inexact_lt_midpoint := true
          else
            if (← (if (R128.w1 == (← tbl128 Dec.Gen.BID_MIDPOINT128 (UInt64.ofInt (toI ((ind - (0x14 : Int32)))))).w1) then (do pure (R128.w0 == (← tbl128 Dec.Gen.BID_MIDPOINT128 (UInt64.ofInt (toI ((ind - (0x14 : Int32)))))).w0)) else pure false)) then
              if (is_inexact_lt_midpoint0 || is_midpoint_gt_even0) then
                gt_half_ulp := true
                is_inexact_gt_midpoint := true
              else
                if (is_inexact_gt_midpoint0 || is_midpoint_lt_even0) then
                  lt_half_ulp := true
                  is_inexact_lt_midpoint := true
                else
                  eq_half_ulp := true
                  is_midpoint_gt_even := true
            else
              gt_half_ulp := true
              is_inexact_gt_midpoint := true
        if (lt_half_ulp || eq_half_ulp) then
          res := { res with w1 := (0 : UInt64) }
          res := { res with w0 := (0 : UInt64) }
        else
          res := { res with w1 := (0 : UInt64) }
          res := { res with w0 := (1 : UInt64) }
        res := { res with w1 := (res.w1 ||| p_sign) }
        e4 := c_EXP_MIN_UNBIASED
      else
        if (decide (ind ≤ (0x12 : Int32))) then
          let t__66 ← bid_round64_2_18 ind x0 res.w0 incr_exp is_midpoint_lt_even is_midpoint_gt_even is_inexact_lt_midpoint is_inexact_gt_midpoint
          incr_exp := t__66.2.1
          is_midpoint_lt_even := t__66.2.2.1
          is_midpoint_gt_even := t__66.2.2.2.1
          is_inexact_lt_midpoint := t__66.2.2.2.2.1
          is_inexact_gt_midpoint := t__66.2.2.2.2.2
          R64 := t__66.1
          res := { res with w1 := (0 : UInt64) }
          res := { res with w0 := R64 }
        else
          if (decide (ind ≤ (0x26 : Int32))) then
            P128 := { P128 with w1 := (res.w1 &&& c_MASK_COEFF) }
            P128 := { P128 with w0 := res.w0 }
            let t__67 ← bid_round128_19_38 ind x0 P128 incr_exp is_midpoint_lt_even is_midpoint_gt_even is_inexact_lt_midpoint is_inexact_gt_midpoint
            incr_exp := t__67.2.1
            is_midpoint_lt_even := t__67.2.2.1
            is_midpoint_gt_even := t__67.2.2.2.1
            is_inexact_lt_midpoint := t__67.2.2.2.2.1
            is_inexact_gt_midpoint := t__67.2.2.2.2.2
            res := t__67.1
        e4 := (e4 + x0)
        if incr_exp then
          P128 := { P128 with w1 := (res.w1 &&& c_MASK_COEFF) }
          P128 := { P128 with w0 := res.w0 }
          res := (← mul_64x128_to_128 (← tbl64 Dec.Gen.BID_TEN2K64 (UInt64.ofInt (toI 1))) P128)
        res := { res with w1 := ((p_sign ||| ((((UInt64.ofInt (toI ((e4 + (0x1820 : Int32)))))) <<< 0x31))) ||| ((res.w1 &&& c_MASK_COEFF))) }
        if (((is_inexact_gt_midpoint0 || is_midpoint_lt_even0)) && is_midpoint_lt_even) then
          res := { res with w0 := (res.w0 - 1) }
          if (res.w0 == (0xffffffffffffffff : UInt64)) then
            res := { res with w1 := (res.w1 - 1) }
          is_midpoint_lt_even := false
          is_inexact_lt_midpoint := true
        else
          if (((is_inexact_lt_midpoint0 || is_midpoint_gt_even0)) && is_midpoint_gt_even) then
            res := { res with w0 := (res.w0 + 1) }
            if (res.w0 == (0 : UInt64)) then
              res := { res with w1 := (res.w1 + 1) }
            is_midpoint_gt_even := false
            is_inexact_gt_midpoint := true
          else
            if ((((!is_midpoint_lt_even) && (!is_midpoint_gt_even)) && (!is_inexact_lt_midpoint)) && (!is_inexact_gt_midpoint)) then
              if (is_inexact_gt_midpoint0 || is_midpoint_lt_even0) then
                is_inexact_gt_midpoint := true
              if (is_inexact_lt_midpoint0 || is_midpoint_gt_even0) then
                is_inexact_lt_midpoint := true
            else
              if (is_midpoint_gt_even && ((is_inexact_gt_midpoint0 || is_midpoint_lt_even0))) then
                is_inexact_lt_midpoint := true
                is_inexact_gt_midpoint := false
                is_midpoint_lt_even := false
                is_midpoint_gt_even := false
              else
                if (is_midpoint_lt_even && ((is_inexact_lt_midpoint0 || is_midpoint_gt_even0))) then
                  is_inexact_lt_midpoint := false
                  is_inexact_gt_midpoint := true
                  is_midpoint_lt_even := false
                  is_midpoint_gt_even := false
                else
                  pure ()
  if (rnd_mode != RoundingMode.NearestEven) then
    let t__68 ← bid_rounding_correction rnd_mode is_inexact_lt_midpoint is_inexact_gt_midpoint is_midpoint_lt_even is_midpoint_gt_even e4 res pfpsf
    res := t__68.1
    pfpsf := t__68.2
  if (((((((res.w1 &&& (0x7fffffffffffffff : UInt64))) == (0x314dc6448d93 : UInt64))) && ((res.w0 == (0x38c15b0a00000000 : UInt64))))) && (((((((rnd_mode == RoundingMode.NearestEven) || (rnd_mode == RoundingMode.NearestAway))) && ((is_midpoint_lt_even || is_inexact_gt_midpoint)))) || ((((((((rnd_mode == RoundingMode.Upward)) && (((res.w1 &&& c_MASK_SIGN)) == (0 : UInt64)))) || ((((rnd_mode == RoundingMode.Downward)) && (((res.w1 &&& c_MASK_SIGN)) != (0 : UInt64)))))) && ((((is_midpoint_lt_even || is_midpoint_gt_even) || is_inexact_lt_midpoint) || is_inexact_gt_midpoint))))))) then
    is_tiny := true
  if (((is_midpoint_lt_even || is_midpoint_gt_even) || is_inexact_lt_midpoint) || is_inexact_gt_midpoint) then
    pfpsf := (pfpsf ||| c_StatusFlags_BID_INEXACT_EXCEPTION)
    if is_tiny then
      pfpsf := (pfpsf ||| c_StatusFlags_BID_UNDERFLOW_EXCEPTION)
  ptr_is_midpoint_lt_even := is_midpoint_lt_even
  ptr_is_midpoint_gt_even := is_midpoint_gt_even
  ptr_is_inexact_lt_midpoint := is_inexact_lt_midpoint
  ptr_is_inexact_gt_midpoint := is_inexact_gt_midpoint
  return (res, ptr_is_midpoint_lt_even, ptr_is_midpoint_gt_even, ptr_is_inexact_lt_midpoint, ptr_is_inexact_gt_midpoint, pfpsf)

/-- stage 1 (lines 1–25 of the block): `C3` rounded to `q3 − x0` digits, `x0 = e4 − e3`, and brought to the exponent `e4` -/
def rnd1K {α : Type} (q3 p34 : Int32) (z_sign p_sign : UInt64) (C4 : U256) (rnd_mode : RoundingMode)
    (ptr_is_midpoint_lt_even_ : Bool) (ptr_is_midpoint_gt_even_ : Bool) (ptr_is_inexact_lt_midpoint_ : Bool) (ptr_is_inexact_gt_midpoint_ : Bool) (pfpsf_ : UInt32) (res_ : U128) (C3_ : U128) (e3_ : Int32) (e4_ : Int32) (scale_ : Int32) (ind_ : Int32) (x0_ : Int32) (is_midpoint_lt_even_ : Bool) (is_midpoint_gt_even_ : Bool) (is_inexact_lt_midpoint_ : Bool) (is_inexact_gt_midpoint_ : Bool) (is_midpoint_lt_even0_ : Bool) (is_midpoint_gt_even0_ : Bool) (is_inexact_lt_midpoint0_ : Bool) (is_inexact_gt_midpoint0_ : Bool) (incr_exp_ : Bool) (lsb_ : Bool) (lt_half_ulp_ : Bool) (eq_half_ulp_ : Bool) (gt_half_ulp_ : Bool) (is_tiny_ : Bool) (R64_ : UInt64) (P128_ : U128) (R128_ : U128) (P192_ : U192) (R192_ : U192) (R256_ : U256)
    (k : K α) : Except String α := do
  let mut ptr_is_midpoint_lt_even : Bool := ptr_is_midpoint_lt_even_
  let mut ptr_is_midpoint_gt_even : Bool := ptr_is_midpoint_gt_even_
  let mut ptr_is_inexact_lt_midpoint : Bool := ptr_is_inexact_lt_midpoint_
  let mut ptr_is_inexact_gt_midpoint : Bool := ptr_is_inexact_gt_midpoint_
  let mut pfpsf : UInt32 := pfpsf_
  let mut res : U128 := res_
  let mut C3 : U128 := C3_
  let mut e3 : Int32 := e3_
  let mut e4 : Int32 := e4_
  let mut scale : Int32 := scale_
  let mut ind : Int32 := ind_
  let mut x0 : Int32 := x0_
  let mut is_midpoint_lt_even : Bool := is_midpoint_lt_even_
  let mut is_midpoint_gt_even : Bool := is_midpoint_gt_even_
  let mut is_inexact_lt_midpoint : Bool := is_inexact_lt_midpoint_
  let mut is_inexact_gt_midpoint : Bool := is_inexact_gt_midpoint_
  let mut is_midpoint_lt_even0 : Bool := is_midpoint_lt_even0_
  let mut is_midpoint_gt_even0 : Bool := is_midpoint_gt_even0_
  let mut is_inexact_lt_midpoint0 : Bool := is_inexact_lt_midpoint0_
  let mut is_inexact_gt_midpoint0 : Bool := is_inexact_gt_midpoint0_
  let mut incr_exp : Bool := incr_exp_
  let mut lsb : Bool := lsb_
  let mut lt_half_ulp : Bool := lt_half_ulp_
  let mut eq_half_ulp : Bool := eq_half_ulp_
  let mut gt_half_ulp : Bool := gt_half_ulp_
  let mut is_tiny : Bool := is_tiny_
  let mut R64 : UInt64 := R64_
  let mut P128 : U128 := P128_
  let mut R128 : U128 := R128_
  let mut P192 : U192 := P192_
  let mut R192 : U192 := R192_
  let mut R256 : U256 := R256_
  x0 := (e4 - e3)
  if (decide (q3 ≤ (0x12 : Int32))) then
    let t__55 ← bid_round64_2_18 q3 x0 C3.w0 incr_exp is_midpoint_lt_even is_midpoint_gt_even is_inexact_lt_midpoint is_inexact_gt_midpoint
    incr_exp := t__55.2.1
    is_midpoint_lt_even := t__55.2.2.1
    is_midpoint_gt_even := t__55.2.2.2.1
    is_inexact_lt_midpoint := t__55.2.2.2.2.1
    is_inexact_gt_midpoint := t__55.2.2.2.2.2
    R64 := t__55.1
    C3 := { C3 with w0 := R64 }
  else
    if (decide (q3 ≤ (0x26 : Int32))) then
      let t__56 ← bid_round128_19_38 q3 x0 C3 incr_exp is_midpoint_lt_even is_midpoint_gt_even is_inexact_lt_midpoint is_inexact_gt_midpoint
      incr_exp := t__56.2.1
      is_midpoint_lt_even := t__56.2.2.1
      is_midpoint_gt_even := t__56.2.2.2.1
      is_inexact_lt_midpoint := t__56.2.2.2.2.1
      is_inexact_gt_midpoint := t__56.2.2.2.2.2
      R128 := t__56.1
      C3 := { C3 with w1 := R128.w1 }
      C3 := { C3 with w0 := R128.w0 }
  if incr_exp then
    P128 := { P128 with w1 := C3.w1 }
    P128 := { P128 with w0 := C3.w0 }
    C3 := (← mul_64x128_to_128 (← tbl64 Dec.Gen.BID_TEN2K64 (UInt64.ofInt (toI 1))) P128)
  k ptr_is_midpoint_lt_even ptr_is_midpoint_gt_even ptr_is_inexact_lt_midpoint ptr_is_inexact_gt_midpoint pfpsf res C3 e3 e4 scale ind x0 is_midpoint_lt_even is_midpoint_gt_even is_inexact_lt_midpoint is_inexact_gt_midpoint is_midpoint_lt_even0 is_midpoint_gt_even0 is_inexact_lt_midpoint0 is_inexact_gt_midpoint0 incr_exp lsb lt_half_ulp eq_half_ulp gt_half_ulp is_tiny R64 P128 R128 P192 R192 R256

/-- stage 2 (lines 26–76): the sum or difference `C4 ± C3`, the indicators turned round for a difference -/
def addK {α : Type} (q3 p34 : Int32) (z_sign p_sign : UInt64) (C4 : U256) (rnd_mode : RoundingMode)
    (ptr_is_midpoint_lt_even_ : Bool) (ptr_is_midpoint_gt_even_ : Bool) (ptr_is_inexact_lt_midpoint_ : Bool) (ptr_is_inexact_gt_midpoint_ : Bool) (pfpsf_ : UInt32) (res_ : U128) (C3_ : U128) (e3_ : Int32) (e4_ : Int32) (scale_ : Int32) (ind_ : Int32) (x0_ : Int32) (is_midpoint_lt_even_ : Bool) (is_midpoint_gt_even_ : Bool) (is_inexact_lt_midpoint_ : Bool) (is_inexact_gt_midpoint_ : Bool) (is_midpoint_lt_even0_ : Bool) (is_midpoint_gt_even0_ : Bool) (is_inexact_lt_midpoint0_ : Bool) (is_inexact_gt_midpoint0_ : Bool) (incr_exp_ : Bool) (lsb_ : Bool) (lt_half_ulp_ : Bool) (eq_half_ulp_ : Bool) (gt_half_ulp_ : Bool) (is_tiny_ : Bool) (R64_ : UInt64) (P128_ : U128) (R128_ : U128) (P192_ : U192) (R192_ : U192) (R256_ : U256)
    (k : K α) : Except String α := do
  let mut ptr_is_midpoint_lt_even : Bool := ptr_is_midpoint_lt_even_
  let mut ptr_is_midpoint_gt_even : Bool := ptr_is_midpoint_gt_even_
  let mut ptr_is_inexact_lt_midpoint : Bool := ptr_is_inexact_lt_midpoint_
  let mut ptr_is_inexact_gt_midpoint : Bool := ptr_is_inexact_gt_midpoint_
  let mut pfpsf : UInt32 := pfpsf_
  let mut res : U128 := res_
  let mut C3 : U128 := C3_
  let mut e3 : Int32 := e3_
  let mut e4 : Int32 := e4_
  let mut scale : Int32 := scale_
  let mut ind : Int32 := ind_
  let mut x0 : Int32 := x0_
  let mut is_midpoint_lt_even : Bool := is_midpoint_lt_even_
  let mut is_midpoint_gt_even : Bool := is_midpoint_gt_even_
  let mut is_inexact_lt_midpoint : Bool := is_inexact_lt_midpoint_
  let mut is_inexact_gt_midpoint : Bool := is_inexact_gt_midpoint_
  let mut is_midpoint_lt_even0 : Bool := is_midpoint_lt_even0_
  let mut is_midpoint_gt_even0 : Bool := is_midpoint_gt_even0_
  let mut is_inexact_lt_midpoint0 : Bool := is_inexact_lt_midpoint0_
  let mut is_inexact_gt_midpoint0 : Bool := is_inexact_gt_midpoint0_
  let mut incr_exp : Bool := incr_exp_
  let mut lsb : Bool := lsb_
  let mut lt_half_ulp : Bool := lt_half_ulp_
  let mut eq_half_ulp : Bool := eq_half_ulp_
  let mut gt_half_ulp : Bool := gt_half_ulp_
  let mut is_tiny : Bool := is_tiny_
  let mut R64 : UInt64 := R64_
  let mut P128 : U128 := P128_
  let mut R128 : U128 := R128_
  let mut P192 : U192 := P192_
  let mut R192 : U192 := R192_
  let mut R256 : U256 := R256_
  e3 := (e3 + x0)
  R256 := { R256 with w3 := (0 : UInt64) }
  R256 := { R256 with w2 := (0 : UInt64) }
  R256 := { R256 with w1 := C3.w1 }
  R256 := { R256 with w0 := C3.w0 }
  if (p_sign == z_sign) then
    R256 := (← bid_add256 C4 R256)
  else
    R256 := (← bid_sub256 C4 R256)
    lsb := (((C4.w0 &&& (1 : UInt64))) == (1 : UInt64))
    if is_inexact_lt_midpoint then
      is_inexact_lt_midpoint := false
      is_inexact_gt_midpoint := true
    else
      if is_inexact_gt_midpoint then
        is_inexact_gt_midpoint := false
        is_inexact_lt_midpoint := true
      else
        if (!lsb) then
          if is_midpoint_lt_even then
            is_midpoint_lt_even := false
            is_midpoint_gt_even := true
          else
            if is_midpoint_gt_even then
              is_midpoint_gt_even := false
              is_midpoint_lt_even := true
            else
              pure ()
        else
          if lsb then
            if is_midpoint_lt_even then
              R256 := { R256 with w0 := (R256.w0 + 1) }
              if (R256.w0 == (0 : UInt64)) then
                R256 := { R256 with w1 := (R256.w1 + 1) }
                if (R256.w1 == (0 : UInt64)) then
                  R256 := { R256 with w2 := (R256.w2 + 1) }
                  if (R256.w2 == (0 : UInt64)) then
                    R256 := { R256 with w3 := (R256.w3 + 1) }
            else
              if is_midpoint_gt_even then
                R256 := { R256 with w0 := (R256.w0 - 1) }
                if (R256.w0 == (0xffffffffffffffff : UInt64)) then
                  R256 := { R256 with w1 := (R256.w1 - 1) }
                  if (R256.w1 == (0xffffffffffffffff : UInt64)) then
                    R256 := { R256 with w2 := (R256.w2 - 1) }
                    if (R256.w2 == (0xffffffffffffffff : UInt64)) then
                      R256 := { R256 with w3 := (R256.w3 - 1) }
              else
                pure ()
          else
            pure ()
  k ptr_is_midpoint_lt_even ptr_is_midpoint_gt_even ptr_is_inexact_lt_midpoint ptr_is_inexact_gt_midpoint pfpsf res C3 e3 e4 scale ind x0 is_midpoint_lt_even is_midpoint_gt_even is_inexact_lt_midpoint is_inexact_gt_midpoint is_midpoint_lt_even0 is_midpoint_gt_even0 is_inexact_lt_midpoint0 is_inexact_gt_midpoint0 incr_exp lsb lt_half_ulp eq_half_ulp gt_half_ulp is_tiny R64 P128 R128 P192 R192 R256

/-- stage 3 (lines 77–170): digit count, second rounding to 34 digits, repair of the double rounding -/
def rnd2K {α : Type} (q3 p34 : Int32) (z_sign p_sign : UInt64) (C4 : U256) (rnd_mode : RoundingMode)
    (ptr_is_midpoint_lt_even_ : Bool) (ptr_is_midpoint_gt_even_ : Bool) (ptr_is_inexact_lt_midpoint_ : Bool) (ptr_is_inexact_gt_midpoint_ : Bool) (pfpsf_ : UInt32) (res_ : U128) (C3_ : U128) (e3_ : Int32) (e4_ : Int32) (scale_ : Int32) (ind_ : Int32) (x0_ : Int32) (is_midpoint_lt_even_ : Bool) (is_midpoint_gt_even_ : Bool) (is_inexact_lt_midpoint_ : Bool) (is_inexact_gt_midpoint_ : Bool) (is_midpoint_lt_even0_ : Bool) (is_midpoint_gt_even0_ : Bool) (is_inexact_lt_midpoint0_ : Bool) (is_inexact_gt_midpoint0_ : Bool) (incr_exp_ : Bool) (lsb_ : Bool) (lt_half_ulp_ : Bool) (eq_half_ulp_ : Bool) (gt_half_ulp_ : Bool) (is_tiny_ : Bool) (R64_ : UInt64) (P128_ : U128) (R128_ : U128) (P192_ : U192) (R192_ : U192) (R256_ : U256)
    (k : K α) : Except String α := do
  let mut ptr_is_midpoint_lt_even : Bool := ptr_is_midpoint_lt_even_
  let mut ptr_is_midpoint_gt_even : Bool := ptr_is_midpoint_gt_even_
  let mut ptr_is_inexact_lt_midpoint : Bool := ptr_is_inexact_lt_midpoint_
  let mut ptr_is_inexact_gt_midpoint : Bool := ptr_is_inexact_gt_midpoint_
  let mut pfpsf : UInt32 := pfpsf_
  let mut res : U128 := res_
  let mut C3 : U128 := C3_
  let mut e3 : Int32 := e3_
  let mut e4 : Int32 := e4_
  let mut scale : Int32 := scale_
  let mut ind : Int32 := ind_
  let mut x0 : Int32 := x0_
  let mut is_midpoint_lt_even : Bool := is_midpoint_lt_even_
  let mut is_midpoint_gt_even : Bool := is_midpoint_gt_even_
  let mut is_inexact_lt_midpoint : Bool := is_inexact_lt_midpoint_
  let mut is_inexact_gt_midpoint : Bool := is_inexact_gt_midpoint_
  let mut is_midpoint_lt_even0 : Bool := is_midpoint_lt_even0_
  let mut is_midpoint_gt_even0 : Bool := is_midpoint_gt_even0_
  let mut is_inexact_lt_midpoint0 : Bool := is_inexact_lt_midpoint0_
  let mut is_inexact_gt_midpoint0 : Bool := is_inexact_gt_midpoint0_
  let mut incr_exp : Bool := incr_exp_
  let mut lsb : Bool := lsb_
  let mut lt_half_ulp : Bool := lt_half_ulp_
  let mut eq_half_ulp : Bool := eq_half_ulp_
  let mut gt_half_ulp : Bool := gt_half_ulp_
  let mut is_tiny : Bool := is_tiny_
  let mut R64 : UInt64 := R64_
  let mut P128 : U128 := P128_
  let mut R128 : U128 := R128_
  let mut P192 : U192 := P192_
  let mut R192 : U192 := R192_
  let mut R256 : U256 := R256_
  ind := (← bid_bid_nr_digits256 R256)
  let t__57 : Int32 := ind
  if (let value := t__57; (decide (value < p34))) then
    let mut value : Int32 := t__57
    pure ()
  else
    if (let value := t__57; (value == p34)) then
      let mut value : Int32 := t__57
      res := { res with w1 := R256.w1 }
      res := { res with w0 := R256.w0 }
    else
      x0 := (ind - p34)
      is_inexact_lt_midpoint0 := is_inexact_lt_midpoint
      is_inexact_gt_midpoint0 := is_inexact_gt_midpoint
      is_midpoint_lt_even0 := is_midpoint_lt_even
      is_midpoint_gt_even0 := is_midpoint_gt_even
      is_inexact_lt_midpoint := false
      is_inexact_gt_midpoint := false
      is_midpoint_lt_even := false
      is_midpoint_gt_even := false
      if (decide (ind ≤ (0x26 : Int32))) then
        P128 := { P128 with w1 := R256.w1 }
        P128 := { P128 with w0 := R256.w0 }
        let t__58 ← bid_round128_19_38 ind x0 P128 incr_exp is_midpoint_lt_even is_midpoint_gt_even is_inexact_lt_midpoint is_inexact_gt_midpoint
        incr_exp := t__58.2.1
        is_midpoint_lt_even := t__58.2.2.1
        is_midpoint_gt_even := t__58.2.2.2.1
        is_inexact_lt_midpoint := t__58.2.2.2.2.1
        is_inexact_gt_midpoint := t__58.2.2.2.2.2
        R128 := t__58.1
      else
        if (decide (ind ≤ (0x39 : Int32))) then
          P192 := { P192 with w2 := R256.w2 }
          P192 := { P192 with w1 := R256.w1 }
          P192 := { P192 with w0 := R256.w0 }
          let t__59 ← bid_round192_39_57 ind x0 P192 incr_exp is_midpoint_lt_even is_midpoint_gt_even is_inexact_lt_midpoint is_inexact_gt_midpoint
          incr_exp := t__59.2.1
          is_midpoint_lt_even := t__59.2.2.1
          is_midpoint_gt_even := t__59.2.2.2.1
          is_inexact_lt_midpoint := t__59.2.2.2.2.1
          is_inexact_gt_midpoint := t__59.2.2.2.2.2
          R192 := t__59.1
          R128 := { R128 with w1 := R192.w1 }
          R128 := { R128 with w0 := R192.w0 }
        else
          let t__60 ← bid_round256_58_76 ind x0 R256 incr_exp is_midpoint_lt_even is_midpoint_gt_even is_inexact_lt_midpoint is_inexact_gt_midpoint
          incr_exp := t__60.2.1
          is_midpoint_lt_even := t__60.2.2.1
          is_midpoint_gt_even := t__60.2.2.2.1
          is_inexact_lt_midpoint := t__60.2.2.2.2.1
          is_inexact_gt_midpoint := t__60.2.2.2.2.2
          R256 := t__60.1
          R128 := { R128 with w1 := R256.w1 }
          R128 := { R128 with w0 := R256.w0 }
      e4 := ((e4 + x0) + (if incr_exp then 1 else 0))
      res := { res with w1 := R128.w1 }
      res := { res with w0 := R128.w0 }
      if (((is_inexact_gt_midpoint0 || is_midpoint_lt_even0)) && is_midpoint_lt_even) then
        res := { res with w0 := (res.w0 - 1) }
        if (res.w0 == (0xffffffffffffffff : UInt64)) then
          res := { res with w1 := (res.w1 - 1) }
        is_midpoint_lt_even := false
        is_inexact_lt_midpoint := true
        if ((res.w1 == (0x314dc6448d93 : UInt64)) && (res.w0 == (0x38c15b09ffffffff : UInt64))) then
          res := { res with w1 := (0x1ed09bead87c0 : UInt64) }
          res := { res with w0 := (0x378d8e63ffffffff : UInt64) }
          e4 := (e4 - 1)
      else
        if (((is_inexact_lt_midpoint0 || is_midpoint_gt_even0)) && is_midpoint_gt_even) then
          res := { res with w0 := (res.w0 + 1) }
          if (res.w0 == (0 : UInt64)) then
            res := { res with w1 := (res.w1 + 1) }
          is_midpoint_gt_even := false
          is_inexact_gt_midpoint := true
        else
          if ((((!is_midpoint_lt_even) && (!is_midpoint_gt_even)) && (!is_inexact_lt_midpoint)) && (!is_inexact_gt_midpoint)) then
            if (is_inexact_gt_midpoint0 || is_midpoint_lt_even0) then
              is_inexact_gt_midpoint := true
            if (is_inexact_lt_midpoint0 || is_midpoint_gt_even0) then
              is_inexact_lt_midpoint := true
          else
            if (is_midpoint_gt_even && ((is_inexact_gt_midpoint0 || is_midpoint_lt_even0))) then
              is_inexact_lt_midpoint := true
              is_inexact_gt_midpoint := false
              is_midpoint_lt_even := false
              is_midpoint_gt_even := false
            else
              if (is_midpoint_lt_even && ((is_inexact_lt_midpoint0 || is_midpoint_gt_even0))) then
                is_inexact_lt_midpoint := false
                is_inexact_gt_midpoint := true
                is_midpoint_lt_even := false
                is_midpoint_gt_even := false
              else
                pure ()
  k ptr_is_midpoint_lt_even ptr_is_midpoint_gt_even ptr_is_inexact_lt_midpoint ptr_is_inexact_gt_midpoint pfpsf res C3 e3 e4 scale ind x0 is_midpoint_lt_even is_midpoint_gt_even is_inexact_lt_midpoint is_inexact_gt_midpoint is_midpoint_lt_even0 is_midpoint_gt_even0 is_inexact_lt_midpoint0 is_inexact_gt_midpoint0 incr_exp lsb lt_half_ulp eq_half_ulp gt_half_ulp is_tiny R64 P128 R128 P192 R192 R256

/-- stage 4 (lines 171–182): tininess -/
def tinyK {α : Type} (q3 p34 : Int32) (z_sign p_sign : UInt64) (C4 : U256) (rnd_mode : RoundingMode)
    (ptr_is_midpoint_lt_even_ : Bool) (ptr_is_midpoint_gt_even_ : Bool) (ptr_is_inexact_lt_midpoint_ : Bool) (ptr_is_inexact_gt_midpoint_ : Bool) (pfpsf_ : UInt32) (res_ : U128) (C3_ : U128) (e3_ : Int32) (e4_ : Int32) (scale_ : Int32) (ind_ : Int32) (x0_ : Int32) (is_midpoint_lt_even_ : Bool) (is_midpoint_gt_even_ : Bool) (is_inexact_lt_midpoint_ : Bool) (is_inexact_gt_midpoint_ : Bool) (is_midpoint_lt_even0_ : Bool) (is_midpoint_gt_even0_ : Bool) (is_inexact_lt_midpoint0_ : Bool) (is_inexact_gt_midpoint0_ : Bool) (incr_exp_ : Bool) (lsb_ : Bool) (lt_half_ulp_ : Bool) (eq_half_ulp_ : Bool) (gt_half_ulp_ : Bool) (is_tiny_ : Bool) (R64_ : UInt64) (P128_ : U128) (R128_ : U128) (P192_ : U192) (R192_ : U192) (R256_ : U256)
    (k : K α) : Except String α := do
  let mut ptr_is_midpoint_lt_even : Bool := ptr_is_midpoint_lt_even_
  let mut ptr_is_midpoint_gt_even : Bool := ptr_is_midpoint_gt_even_
  let mut ptr_is_inexact_lt_midpoint : Bool := ptr_is_inexact_lt_midpoint_
  let mut ptr_is_inexact_gt_midpoint : Bool := ptr_is_inexact_gt_midpoint_
  let mut pfpsf : UInt32 := pfpsf_
  let mut res : U128 := res_
  let mut C3 : U128 := C3_
  let mut e3 : Int32 := e3_
  let mut e4 : Int32 := e4_
  let mut scale : Int32 := scale_
  let mut ind : Int32 := ind_
  let mut x0 : Int32 := x0_
  let mut is_midpoint_lt_even : Bool := is_midpoint_lt_even_
  let mut is_midpoint_gt_even : Bool := is_midpoint_gt_even_
  let mut is_inexact_lt_midpoint : Bool := is_inexact_lt_midpoint_
  let mut is_inexact_gt_midpoint : Bool := is_inexact_gt_midpoint_
  let mut is_midpoint_lt_even0 : Bool := is_midpoint_lt_even0_
  let mut is_midpoint_gt_even0 : Bool := is_midpoint_gt_even0_
  let mut is_inexact_lt_midpoint0 : Bool := is_inexact_lt_midpoint0_
  let mut is_inexact_gt_midpoint0 : Bool := is_inexact_gt_midpoint0_
  let mut incr_exp : Bool := incr_exp_
  let mut lsb : Bool := lsb_
  let mut lt_half_ulp : Bool := lt_half_ulp_
  let mut eq_half_ulp : Bool := eq_half_ulp_
  let mut gt_half_ulp : Bool := gt_half_ulp_
  let mut is_tiny : Bool := is_tiny_
  let mut R64 : UInt64 := R64_
  let mut P128 : U128 := P128_
  let mut R128 : U128 := R128_
  let mut P192 : U192 := P192_
  let mut R192 : U192 := R192_
  let mut R256 : U256 := R256_
  if (rnd_mode == RoundingMode.NearestEven) then
    if (decide (e4 < c_EXP_MIN_UNBIASED)) then
      is_tiny := true
  else
    P128 := { P128 with w1 := ((p_sign ||| (0x3040000000000000 : UInt64)) ||| res.w1) }
    P128 := { P128 with w0 := res.w0 }
    let t__61 ← bid_rounding_correction rnd_mode is_inexact_lt_midpoint is_inexact_gt_midpoint is_midpoint_lt_even is_midpoint_gt_even (0 : Int32) P128 pfpsf
    P128 := t__61.1
    pfpsf := t__61.2
    scale := (Int32.ofInt (toI ((((((P128.w1 &&& c_MASK_EXP)) >>> 0x31)) - (0x1820 : UInt64)))))
    if (decide ((e4 + scale) < c_EXP_MIN_UNBIASED)) then
      is_tiny := true
  k ptr_is_midpoint_lt_even ptr_is_midpoint_gt_even ptr_is_inexact_lt_midpoint ptr_is_inexact_gt_midpoint pfpsf res C3 e3 e4 scale ind x0 is_midpoint_lt_even is_midpoint_gt_even is_inexact_lt_midpoint is_inexact_gt_midpoint is_midpoint_lt_even0 is_midpoint_gt_even0 is_inexact_lt_midpoint0 is_inexact_gt_midpoint0 incr_exp lsb lt_half_ulp eq_half_ulp gt_half_ulp is_tiny R64 P128 R128 P192 R192 R256

/-- stage 5 (lines 183–340): packing, overflow to infinity in nearest-even, the underflow block, correction, flags -/
def endK (q3 p34 : Int32) (z_sign p_sign : UInt64) (C4 : U256) (rnd_mode : RoundingMode)
    (ptr_is_midpoint_lt_even_ : Bool) (ptr_is_midpoint_gt_even_ : Bool) (ptr_is_inexact_lt_midpoint_ : Bool) (ptr_is_inexact_gt_midpoint_ : Bool) (pfpsf_ : UInt32) (res_ : U128) (C3_ : U128) (e3_ : Int32) (e4_ : Int32) (scale_ : Int32) (ind_ : Int32) (x0_ : Int32) (is_midpoint_lt_even_ : Bool) (is_midpoint_gt_even_ : Bool) (is_inexact_lt_midpoint_ : Bool) (is_inexact_gt_midpoint_ : Bool) (is_midpoint_lt_even0_ : Bool) (is_midpoint_gt_even0_ : Bool) (is_inexact_lt_midpoint0_ : Bool) (is_inexact_gt_midpoint0_ : Bool) (incr_exp_ : Bool) (lsb_ : Bool) (lt_half_ulp_ : Bool) (eq_half_ulp_ : Bool) (gt_half_ulp_ : Bool) (is_tiny_ : Bool) (R64_ : UInt64) (P128_ : U128) (R128_ : U128) (P192_ : U192) (R192_ : U192) (R256_ : U256) : Except String (U128 × Bool × Bool × Bool × Bool × UInt32) := do
  let mut ptr_is_midpoint_lt_even : Bool := ptr_is_midpoint_lt_even_
  let mut ptr_is_midpoint_gt_even : Bool := ptr_is_midpoint_gt_even_
  let mut ptr_is_inexact_lt_midpoint : Bool := ptr_is_inexact_lt_midpoint_
  let mut ptr_is_inexact_gt_midpoint : Bool := ptr_is_inexact_gt_midpoint_
  let mut pfpsf : UInt32 := pfpsf_
  let mut res : U128 := res_
  let mut C3 : U128 := C3_
  let mut e3 : Int32 := e3_
  let mut e4 : Int32 := e4_
  let mut scale : Int32 := scale_
  let mut ind : Int32 := ind_
  let mut x0 : Int32 := x0_
  let mut is_midpoint_lt_even : Bool := is_midpoint_lt_even_
  let mut is_midpoint_gt_even : Bool := is_midpoint_gt_even_
  let mut is_inexact_lt_midpoint : Bool := is_inexact_lt_midpoint_
  let mut is_inexact_gt_midpoint : Bool := is_inexact_gt_midpoint_
  let mut is_midpoint_lt_even0 : Bool := is_midpoint_lt_even0_
  let mut is_midpoint_gt_even0 : Bool := is_midpoint_gt_even0_
  let mut is_inexact_lt_midpoint0 : Bool := is_inexact_lt_midpoint0_
  let mut is_inexact_gt_midpoint0 : Bool := is_inexact_gt_midpoint0_
  let mut incr_exp : Bool := incr_exp_
  let mut lsb : Bool := lsb_
  let mut lt_half_ulp : Bool := lt_half_ulp_
  let mut eq_half_ulp : Bool := eq_half_ulp_
  let mut gt_half_ulp : Bool := gt_half_ulp_
  let mut is_tiny : Bool := is_tiny_
  let mut R64 : UInt64 := R64_
  let mut P128 : U128 := P128_
  let mut R128 : U128 := R128_
  let mut P192 : U192 := P192_
  let mut R192 : U192 := R192_
  let mut R256 : U256 := R256_
  res := { res with w1 := (res.w1 ||| (p_sign ||| ((((UInt64.ofInt (toI ((e4 + (0x1820 : Int32)))))) <<< 0x31)))) }
  ind := p34
  if ((rnd_mode == RoundingMode.NearestEven) && (decide (((ind + e4)) > ((p34 + c_EXP_MAX_UNBIASED))))) then
    res := { res with w1 := (p_sign ||| (0x7800000000000000 : UInt64)) }
    res := { res with w0 := (0 : UInt64) }
    pfpsf := (pfpsf ||| (c_StatusFlags_BID_INEXACT_EXCEPTION ||| c_StatusFlags_BID_OVERFLOW_EXCEPTION))
    ptr_is_midpoint_lt_even := is_midpoint_lt_even
    ptr_is_midpoint_gt_even := is_midpoint_gt_even
    ptr_is_inexact_lt_midpoint := is_inexact_lt_midpoint
    ptr_is_inexact_gt_midpoint := is_inexact_gt_midpoint
    return (res, ptr_is_midpoint_lt_even, ptr_is_midpoint_gt_even, ptr_is_inexact_lt_midpoint, ptr_is_inexact_gt_midpoint, pfpsf)
  if (decide (e4 < c_EXP_MIN_UNBIASED)) then
    x0 := (c_EXP_MIN_UNBIASED - e4)
    is_inexact_lt_midpoint0 := is_inexact_lt_midpoint
    is_inexact_gt_midpoint0 := is_inexact_gt_midpoint
    is_midpoint_lt_even0 := is_midpoint_lt_even
    is_midpoint_gt_even0 := is_midpoint_gt_even
    is_inexact_lt_midpoint := false
    is_inexact_gt_midpoint := false
    is_midpoint_lt_even := false
    is_midpoint_gt_even := false
    let t__62 : Int32 := x0
    if (let value := t__62; (decide (value > ind))) then
      let mut value : Int32 := t__62
      is_inexact_lt_midpoint := true
      res := { res with w1 := (p_sign ||| (0 : UInt64)) }
      res := { res with w0 := (0 : UInt64) }
      e4 := c_EXP_MIN_UNBIASED
    else
      if (let value := t__62; (value == ind)) then
        let mut value : Int32 := t__62
        R128 := { R128 with w1 := (res.w1 &&& c_MASK_COEFF) }
        R128 := { R128 with w0 := res.w0 }
        if (decide (ind ≤ (0x13 : Int32))) then
          let t__63 : UInt64 := (← tbl64 Dec.Gen.BID_MIDPOINT64 (UInt64.ofInt (toI ((ind - (1 : Int32))))))
          if (let value := t__63; (decide (R128.w0 < value))) then
            let mut value_64 : UInt64 := t__63
            lt_half_ulp := true
            is_inexact_lt_midpoint := true
          else
            if (let value := t__63; (R128.w0 == value)) then
              let mut value_65 : UInt64 := t__63
              if (is_inexact_lt_midpoint0 || is_midpoint_gt_even0) then
                gt_half_ulp := true
                is_inexact_gt_midpoint := true
              else
                if (is_inexact_gt_midpoint0 || is_midpoint_lt_even0) then
                  lt_half_ulp := true
                  is_inexact_lt_midpoint := true
                else
                  eq_half_ulp := true
                  is_midpoint_gt_even := true
            else
              gt_half_ulp := true
              is_inexact_gt_midpoint := true
        else
          if (← (if (decide (R128.w1 < (← tbl128 Dec.Gen.BID_MIDPOINT128 (UInt64.ofInt (toI ((ind - (0x14 : Int32)))))).w1)) then pure true else (do pure ((← (if (R128.w1 == (← tbl128 Dec.Gen.BID_MIDPOINT128 (UInt64.ofInt (toI ((ind - (0x14 : Int32)))))).w1) then (do pure (decide (R128.w0 < (← tbl128 Dec.Gen.BID_MIDPOINT128 (UInt64.ofInt (toI ((ind - (0x14 : Int32)))))).w0))) else pure false)))))) then
            lt_half_ulp := true
            is_inexact_lt_midpoint := true
          else
            if (← (if (R128.w1 == (← tbl128 Dec.Gen.BID_MIDPOINT128 (UInt64.ofInt (toI ((ind - (0x14 : Int32)))))).w1) then (do pure (R128.w0 == (← tbl128 Dec.Gen.BID_MIDPOINT128 (UInt64.ofInt (toI ((ind - (0x14 : Int32)))))).w0)) else pure false)) then
              if (is_inexact_lt_midpoint0 || is_midpoint_gt_even0) then
                gt_half_ulp := true
                is_inexact_gt_midpoint := true
              else
                if (is_inexact_gt_midpoint0 || is_midpoint_lt_even0) then
                  lt_half_ulp := true
                  is_inexact_lt_midpoint := true
                else
                  eq_half_ulp := true
                  is_midpoint_gt_even := true
            else
              gt_half_ulp := true
              is_inexact_gt_midpoint := true
        if (lt_half_ulp || eq_half_ulp) then
          res := { res with w1 := (0 : UInt64) }
          res := { res with w0 := (0 : UInt64) }
        else
          res := { res with w1 := (0 : UInt64) }
          res := { res with w0 := (1 : UInt64) }
        res := { res with w1 := (res.w1 ||| p_sign) }
        e4 := c_EXP_MIN_UNBIASED
      else
        if (decide (ind ≤ (0x12 : Int32))) then
          let t__66 ← bid_round64_2_18 ind x0 res.w0 incr_exp is_midpoint_lt_even is_midpoint_gt_even is_inexact_lt_midpoint is_inexact_gt_midpoint
          incr_exp := t__66.2.1
          is_midpoint_lt_even := t__66.2.2.1
          is_midpoint_gt_even := t__66.2.2.2.1
          is_inexact_lt_midpoint := t__66.2.2.2.2.1
          is_inexact_gt_midpoint := t__66.2.2.2.2.2
          R64 := t__66.1
          res := { res with w1 := (0 : UInt64) }
          res := { res with w0 := R64 }
        else
          if (decide (ind ≤ (0x26 : Int32))) then
            P128 := { P128 with w1 := (res.w1 &&& c_MASK_COEFF) }
            P128 := { P128 with w0 := res.w0 }
            let t__67 ← bid_round128_19_38 ind x0 P128 incr_exp is_midpoint_lt_even is_midpoint_gt_even is_inexact_lt_midpoint is_inexact_gt_midpoint
            incr_exp := t__67.2.1
            is_midpoint_lt_even := t__67.2.2.1
            is_midpoint_gt_even := t__67.2.2.2.1
            is_inexact_lt_midpoint := t__67.2.2.2.2.1
            is_inexact_gt_midpoint := t__67.2.2.2.2.2
            res := t__67.1
        e4 := (e4 + x0)
        if incr_exp then
          P128 := { P128 with w1 := (res.w1 &&& c_MASK_COEFF) }
          P128 := { P128 with w0 := res.w0 }
          res := (← mul_64x128_to_128 (← tbl64 Dec.Gen.BID_TEN2K64 (UInt64.ofInt (toI 1))) P128)
        res := { res with w1 := ((p_sign ||| ((((UInt64.ofInt (toI ((e4 + (0x1820 : Int32)))))) <<< 0x31))) ||| ((res.w1 &&& c_MASK_COEFF))) }
        if (((is_inexact_gt_midpoint0 || is_midpoint_lt_even0)) && is_midpoint_lt_even) then
          res := { res with w0 := (res.w0 - 1) }
          if (res.w0 == (0xffffffffffffffff : UInt64)) then
            res := { res with w1 := (res.w1 - 1) }
          is_midpoint_lt_even := false
          is_inexact_lt_midpoint := true
        else
          if (((is_inexact_lt_midpoint0 || is_midpoint_gt_even0)) && is_midpoint_gt_even) then
            res := { res with w0 := (res.w0 + 1) }
            if (res.w0 == (0 : UInt64)) then
              res := { res with w1 := (res.w1 + 1) }
            is_midpoint_gt_even := false
            is_inexact_gt_midpoint := true
          else
            if ((((!is_midpoint_lt_even) && (!is_midpoint_gt_even)) && (!is_inexact_lt_midpoint)) && (!is_inexact_gt_midpoint)) then
              if (is_inexact_gt_midpoint0 || is_midpoint_lt_even0) then
                is_inexact_gt_midpoint := true
              if (is_inexact_lt_midpoint0 || is_midpoint_gt_even0) then
                is_inexact_lt_midpoint := true
            else
              if (is_midpoint_gt_even && ((is_inexact_gt_midpoint0 || is_midpoint_lt_even0))) then
                is_inexact_lt_midpoint := true
                is_inexact_gt_midpoint := false
                is_midpoint_lt_even := false
                is_midpoint_gt_even := false
              else
                if (is_midpoint_lt_even && ((is_inexact_lt_midpoint0 || is_midpoint_gt_even0))) then
                  is_inexact_lt_midpoint := false
                  is_inexact_gt_midpoint := true
                  is_midpoint_lt_even := false
                  is_midpoint_gt_even := false
                else
                  pure ()
  if (rnd_mode != RoundingMode.NearestEven) then
    let t__68 ← bid_rounding_correction rnd_mode is_inexact_lt_midpoint is_inexact_gt_midpoint is_midpoint_lt_even is_midpoint_gt_even e4 res pfpsf
    res := t__68.1
    pfpsf := t__68.2
  if (((((((res.w1 &&& (0x7fffffffffffffff : UInt64))) == (0x314dc6448d93 : UInt64))) && ((res.w0 == (0x38c15b0a00000000 : UInt64))))) && (((((((rnd_mode == RoundingMode.NearestEven) || (rnd_mode == RoundingMode.NearestAway))) && ((is_midpoint_lt_even || is_inexact_gt_midpoint)))) || ((((((((rnd_mode == RoundingMode.Upward)) && (((res.w1 &&& c_MASK_SIGN)) == (0 : UInt64)))) || ((((rnd_mode == RoundingMode.Downward)) && (((res.w1 &&& c_MASK_SIGN)) != (0 : UInt64)))))) && ((((is_midpoint_lt_even || is_midpoint_gt_even) || is_inexact_lt_midpoint) || is_inexact_gt_midpoint))))))) then
    is_tiny := true
  if (((is_midpoint_lt_even || is_midpoint_gt_even) || is_inexact_lt_midpoint) || is_inexact_gt_midpoint) then
    pfpsf := (pfpsf ||| c_StatusFlags_BID_INEXACT_EXCEPTION)
    if is_tiny then
      pfpsf := (pfpsf ||| c_StatusFlags_BID_UNDERFLOW_EXCEPTION)
  ptr_is_midpoint_lt_even := is_midpoint_lt_even
  ptr_is_midpoint_gt_even := is_midpoint_gt_even
  ptr_is_inexact_lt_midpoint := is_inexact_lt_midpoint
  ptr_is_inexact_gt_midpoint := is_inexact_gt_midpoint
  return (res, ptr_is_midpoint_lt_even, ptr_is_midpoint_gt_even, ptr_is_inexact_lt_midpoint, ptr_is_inexact_gt_midpoint, pfpsf)

/-- **the block is the chain of its stages** (proved by the lock-step congruence prover: every piece compared once) -/
theorem case1112K_eq (q3 p34 : Int32) (z_sign p_sign : UInt64) (C4 : U256) (m : RoundingMode)
    (p1 : Bool) (p2 : Bool) (p3 : Bool) (p4 : Bool) (f : UInt32) (res : U128) (C3 : U128) (e3 : Int32) (e4 : Int32) (sc : Int32) (ind : Int32) (x0 : Int32) (a : Bool) (b : Bool) (c : Bool) (d : Bool) (a0 : Bool) (b0 : Bool) (c0 : Bool) (d0 : Bool) (i : Bool) (lsb : Bool) (l1 : Bool) (l2 : Bool) (l3 : Bool) (t : Bool) (R64 : UInt64) (P128 : U128) (R128 : U128) (P192 : U192) (R192 : U192) (R256 : U256) :
    case1112K q3 p34 z_sign p_sign C4 m p1 p2 p3 p4 f res C3 e3 e4 sc ind x0 a b c d a0 b0 c0 d0 i lsb l1 l2 l3 t R64 P128 R128 P192 R192 R256 =
      rnd1K q3 p34 z_sign p_sign C4 m p1 p2 p3 p4 f res C3 e3 e4 sc ind x0 a b c d a0 b0 c0 d0 i lsb l1 l2 l3 t R64 P128 R128 P192 R192 R256 (fun p1 p2 p3 p4 f res C3 e3 e4 sc ind x0 a b c d a0 b0 c0 d0 i lsb l1 l2 l3 t R64 P128 R128 P192 R192 R256 =>
      addK q3 p34 z_sign p_sign C4 m p1 p2 p3 p4 f res C3 e3 e4 sc ind x0 a b c d a0 b0 c0 d0 i lsb l1 l2 l3 t R64 P128 R128 P192 R192 R256 (fun p1 p2 p3 p4 f res C3 e3 e4 sc ind x0 a b c d a0 b0 c0 d0 i lsb l1 l2 l3 t R64 P128 R128 P192 R192 R256 =>
      rnd2K q3 p34 z_sign p_sign C4 m p1 p2 p3 p4 f res C3 e3 e4 sc ind x0 a b c d a0 b0 c0 d0 i lsb l1 l2 l3 t R64 P128 R128 P192 R192 R256 (fun p1 p2 p3 p4 f res C3 e3 e4 sc ind x0 a b c d a0 b0 c0 d0 i lsb l1 l2 l3 t R64 P128 R128 P192 R192 R256 =>
      tinyK q3 p34 z_sign p_sign C4 m p1 p2 p3 p4 f res C3 e3 e4 sc ind x0 a b c d a0 b0 c0 d0 i lsb l1 l2 l3 t R64 P128 R128 P192 R192 R256 (fun p1 p2 p3 p4 f res C3 e3 e4 sc ind x0 a b c d a0 b0 c0 d0 i lsb l1 l2 l3 t R64 P128 R128 P192 R192 R256 =>
      endK q3 p34 z_sign p_sign C4 m p1 p2 p3 p4 f res C3 e3 e4 sc ind x0 a b c d a0 b0 c0 d0 i lsb l1 l2 l3 t R64 P128 R128 P192 R192 R256)))) := by
  lockstep1112 Dec.C02GenFma1112

/-! ## 3. Stage 1: the first rounding -/

open Dec.C02GenRound (v128 v192 v256)
open Dec.C02RoundHelpers (Spec rne rne_eq specInd)
open Dec.RH (Ind)
open Dec.C02GenFmaLow (spec_ind spec_val ten_read round64_incr round128_incr)
open Dec.C02GenFmaSwap (ofNat_toInt le_ofNat i32_eq_ofNat)

theorem v128_toNat' (x : U128) : v128 x = x.toNat' := rfl
theorem v256_toNat' (x : U256) : v256 x = x.toNat' := rfl

/-- **stage 1**: `C3` (`q3` digits, `2 ≤ q3 ≤ 34`) is rounded to nearest-even by the helper for its size, `x0 = e4 − e3` digits
(`1 ≤ x0 ≤ q3 − 1`) are removed, and after a carry the result is multiplied by ten: the new `C3` IS `rne c3 x0`, the indicators
are those of the specification of the helpers -/
theorem rnd1K_spec {α : Type} (q3n x0n : Nat) (q3 p34 : Int32) (z_sign p_sign : UInt64) (C4 : U256) (m : RoundingMode)
    (p1 : Bool) (p2 : Bool) (p3 : Bool) (p4 : Bool) (f : UInt32) (res : U128) (C3 : U128) (e3 : Int32) (e4 : Int32) (sc : Int32) (ind : Int32) (x0 : Int32) (a0 : Bool) (b0 : Bool) (c0 : Bool) (d0 : Bool) (lsb : Bool) (l1 : Bool) (l2 : Bool) (l3 : Bool) (t : Bool) (R64 : UInt64) (P128 : U128) (R128 : U128) (P192 : U192) (R192 : U192) (R256 : U256) (k : K α)
    (hq3w : q3.toInt = q3n) (hq3 : 2 ≤ q3n) (hq3' : q3n ≤ 34) (hx : (e4 - e3).toInt = x0n) (hx1 : 1 ≤ x0n) (hx2 : x0n + 1 ≤ q3n)
    (hC3 : v128 C3 < 10 ^ q3n) :
    ∃ (C3' : U128) (incr lt gt ilt igt : Bool) (R64' : UInt64) (P128' R128' : U128),
      rnd1K q3 p34 z_sign p_sign C4 m p1 p2 p3 p4 f res C3 e3 e4 sc ind x0 false false false false a0 b0 c0 d0 false lsb l1 l2 l3 t R64 P128 R128 P192 R192 R256 k = k p1 p2 p3 p4 f res C3' e3 e4 sc ind (e4 - e3) lt gt ilt igt a0 b0 c0 d0 incr lsb l1 l2 l3 t R64' P128' R128' P192 R192 R256 ∧
      v128 C3' = rne (v128 C3) x0n ∧
      (⟨lt, gt, ilt, igt⟩ : Ind) = specInd (v128 C3 / 10 ^ x0n) (v128 C3 % 10 ^ x0n) (10 ^ x0n / 2) := by
  have hq : q3 = Int32.ofNat q3n := i32_eq_ofNat q3 q3n hq3w
  have hxe : e4 - e3 = Int32.ofNat x0n := i32_eq_ofNat _ x0n hx
  subst hq
  unfold rnd1K
  simp only [hxe, le_ofNat q3n 0x12 18 rfl (by omega), le_ofNat q3n 0x26 38 rfl (by omega)]
  have h0 := C3.w0.toNat_lt
  have hrl : rne (v128 C3) x0n < 10 ^ 34 := Dec.C02GenFmaLow.rne_lt _ _ q3n hx1 hC3 hq3'
  have tenmul : ∀ (P : U128) (n : Nat), v128 P = n → 10 * n < 2 ^ 128 →
      ∃ r, mul_64x128_to_128 10 P = .ok r ∧ v128 r = 10 * n := by
    intro P n hP hn
    obtain ⟨r, hr, hv⟩ := Dec.C01GenArith.gen_mul_64x128_to_128 10 P
    refine ⟨r, hr, ?_⟩
    rw [v128_toNat', hv, ← v128_toNat', hP, show (10 : UInt64).toNat = 10 from rfl, Nat.mod_eq_of_lt hn]
  by_cases c18 : q3n ≤ 18
  · simp only [c18, decide_true, if_true]
    have hp : (10:Nat) ^ q3n ≤ 10 ^ 18 := Nat.pow_le_pow_right (by decide) c18
    have hw1 : C3.w1.toNat = 0 := by unfold v128 at hC3; omega
    have hv : v128 C3 = C3.w0.toNat := by unfold v128; omega
    obtain ⟨cs, incr, lt, gt, ilt, igt, hr, sp⟩ := Dec.C02GenRound.bid_round64_2_18_spec q3n x0n C3.w0 hq3 c18 hx1 hx2
      (by rw [← hv]; exact hC3)
    rw [← hv] at sp
    have hval := spec_val sp hx2
    rw [hr]
    simp only [bind, Except.bind, pure, Except.pure]
    have hcs : v128 ⟨cs, C3.w1⟩ = cs.toNat := by unfold v128; simp only []; omega
    cases incr
    · simp only [Bool.false_eq_true, if_false] at hval ⊢
      exact ⟨_, _, _, _, _, _, _, _, _, rfl, by rw [hcs, hval], spec_ind sp⟩
    · simp only [if_true] at hval ⊢
      obtain ⟨r, hr2, hv2⟩ := tenmul ⟨cs, C3.w1⟩ cs.toNat hcs (by omega)
      rw [ten_read]
      simp only [hr2]
      exact ⟨_, _, _, _, _, _, _, _, _, rfl, by rw [hv2, hval], spec_ind sp⟩
  · simp only [c18, decide_false, if_false, Bool.false_eq_true, show decide (q3n ≤ 38) = true from decide_eq_true (by omega), if_true]
    obtain ⟨cs, incr, lt, gt, ilt, igt, hr, sp⟩ := Dec.C02GenRound.bid_round128_19_38_spec q3n x0n C3 (by omega) (by omega)
      hx1 hx2 hC3
    have hval := spec_val sp hx2
    rw [hr]
    simp only [bind, Except.bind, pure, Except.pure]
    have hcs : v128 ⟨cs.w0, cs.w1⟩ = v128 cs := rfl
    cases incr
    · simp only [Bool.false_eq_true, if_false] at hval ⊢
      exact ⟨_, _, _, _, _, _, _, _, _, rfl, by rw [hcs, hval], spec_ind sp⟩
    · simp only [if_true] at hval ⊢
      obtain ⟨r, hr2, hv2⟩ := tenmul ⟨cs.w0, cs.w1⟩ (v128 cs) hcs (by omega)
      rw [ten_read]
      simp only [hr2]
      exact ⟨_, _, _, _, _, _, _, _, _, rfl, by rw [hv2, hval], spec_ind sp⟩

/-! ## 4. Stage 2: the sum or difference -/

open Dec.C02GenFmaLow (posInd mk256 mk256_val add256_exact sub256_exact)
open Dec.C02GenFmaSwap (sgnW sgnW_beq)

/-- what stage 2 does, on numbers: `same` — equal signs; `lsb` — `C4` odd; `r3` the rounded `C3`; `i1` its indicators -/
def addF (same lsb : Bool) (c4 r3 : Nat) (i1 : Ind) : Nat × Ind :=
  if same = true then (c4 + r3, i1)
  else if i1.inexLtMid = true then (c4 - r3, { i1 with inexLtMid := false, inexGtMid := true })
  else if i1.inexGtMid = true then (c4 - r3, { i1 with inexGtMid := false, inexLtMid := true })
  else if (!lsb) = true then
    (if i1.midLtEven = true then (c4 - r3, { i1 with midLtEven := false, midGtEven := true })
     else if i1.midGtEven = true then (c4 - r3, { i1 with midGtEven := false, midLtEven := true })
     else (c4 - r3, i1))
  else
    (if i1.midLtEven = true then (c4 - r3 + 1, i1)
     else if i1.midGtEven = true then (c4 - r3 - 1, i1)
     else (c4 - r3, i1))

/-- the four-word increment -/
theorem inc256 (R : U256) (h : v256 R + 1 < 2 ^ 256) :
    v256 (if (R.w0 + 1 == (0 : UInt64)) = true then
            (if (R.w1 + 1 == (0 : UInt64)) = true then
              (if (R.w2 + 1 == (0 : UInt64)) = true then ⟨R.w0 + 1, R.w1 + 1, R.w2 + 1, R.w3 + 1⟩
               else ⟨R.w0 + 1, R.w1 + 1, R.w2 + 1, R.w3⟩)
             else ⟨R.w0 + 1, R.w1 + 1, R.w2, R.w3⟩)
          else ⟨R.w0 + 1, R.w1, R.w2, R.w3⟩) = v256 R + 1 := by
  have h0 := R.w0.toNat_lt; have h1 := R.w1.toNat_lt; have h2 := R.w2.toNat_lt; have h3 := R.w3.toNat_lt
  have hb : ∀ w : UInt64, (w + 1 == (0 : UInt64)) = decide (w.toNat = 2 ^ 64 - 1) := by
    intro w
    have := w.toNat_lt
    rw [Bool.eq_iff_iff, beq_iff_eq, decide_eq_true_eq, ← UInt64.toNat_inj, UInt64.toNat_add,
      show (1 : UInt64).toNat = 1 from rfl, show (0 : UInt64).toNat = 0 from rfl]
    omega
  have ha : ∀ w : UInt64, (w + 1).toNat = (w.toNat + 1) % 2 ^ 64 := fun w => by rw [UInt64.toNat_add]; rfl
  simp only [hb]
  unfold v256 at h ⊢
  by_cases z0 : R.w0.toNat = 2 ^ 64 - 1
  · rw [if_pos (by simpa using z0)]
    by_cases z1 : R.w1.toNat = 2 ^ 64 - 1
    · rw [if_pos (by simpa using z1)]
      by_cases z2 : R.w2.toNat = 2 ^ 64 - 1
      · rw [if_pos (by simpa using z2)]; simp only [ha]; omega
      · rw [if_neg (by simpa using z2)]; simp only [ha]; omega
    · rw [if_neg (by simpa using z1)]; simp only [ha]; omega
  · rw [if_neg (by simpa using z0)]; simp only [ha]; omega

/-- the four-word decrement -/
theorem dec256 (R : U256) (h : 1 ≤ v256 R) :
    v256 (if (R.w0 - 1 == (0xffffffffffffffff : UInt64)) = true then
            (if (R.w1 - 1 == (0xffffffffffffffff : UInt64)) = true then
              (if (R.w2 - 1 == (0xffffffffffffffff : UInt64)) = true then ⟨R.w0 - 1, R.w1 - 1, R.w2 - 1, R.w3 - 1⟩
               else ⟨R.w0 - 1, R.w1 - 1, R.w2 - 1, R.w3⟩)
             else ⟨R.w0 - 1, R.w1 - 1, R.w2, R.w3⟩)
          else ⟨R.w0 - 1, R.w1, R.w2, R.w3⟩) = v256 R - 1 := by
  have h0 := R.w0.toNat_lt; have h1 := R.w1.toNat_lt; have h2 := R.w2.toNat_lt; have h3 := R.w3.toNat_lt
  have hb : ∀ w : UInt64, (w - 1 == (0xffffffffffffffff : UInt64)) = decide (w.toNat = 0) := by
    intro w
    have := w.toNat_lt
    rw [Bool.eq_iff_iff, beq_iff_eq, decide_eq_true_eq, ← UInt64.toNat_inj, UInt64.toNat_sub,
      show (1 : UInt64).toNat = 1 from rfl, show (0xffffffffffffffff : UInt64).toNat = 2 ^ 64 - 1 from rfl]
    omega
  have ha : ∀ w : UInt64, (w - 1).toNat = (2 ^ 64 - 1 + w.toNat) % 2 ^ 64 := fun w => by
    rw [UInt64.toNat_sub]; rfl
  simp only [hb]
  unfold v256 at h ⊢
  by_cases z0 : R.w0.toNat = 0
  · rw [if_pos (by simpa using z0)]
    by_cases z1 : R.w1.toNat = 0
    · rw [if_pos (by simpa using z1)]
      by_cases z2 : R.w2.toNat = 0
      · rw [if_pos (by simpa using z2)]; simp only [ha]; omega
      · rw [if_neg (by simpa using z2)]; simp only [ha]; omega
    · rw [if_neg (by simpa using z1)]; simp only [ha]; omega
  · rw [if_neg (by simpa using z0)]; simp only [ha]; omega

theorem lsb_eq (C4 : U256) : ((C4.w0 &&& (1 : UInt64)) == (1 : UInt64)) = decide (v256 C4 % 2 = 1) := by
  have h : (C4.w0 &&& 1).toNat = C4.w0.toNat % 2 := by
    rw [UInt64.toNat_and, show (1 : UInt64).toNat = 2 ^ 1 - 1 from rfl, Nat.and_two_pow_sub_one_eq_mod]
  rw [Bool.eq_iff_iff, beq_iff_eq, decide_eq_true_eq, ← UInt64.toNat_inj, h, show (1 : UInt64).toNat = 1 from rfl]
  unfold v256; omega

/-- **stage 2 as translated computes `addF`** -/
theorem addK_spec {α : Type} (ps zs : Bool) (q3 p34 : Int32) (C4 : U256) (m : RoundingMode)
    (p1 : Bool) (p2 : Bool) (p3 : Bool) (p4 : Bool) (f : UInt32) (res : U128) (C3 : U128) (e3 : Int32) (e4 : Int32) (sc : Int32) (ind : Int32) (x0 : Int32) (a : Bool) (b : Bool) (c : Bool) (d : Bool) (a0 : Bool) (b0 : Bool) (c0 : Bool) (d0 : Bool) (i : Bool) (lsb : Bool) (l1 : Bool) (l2 : Bool) (l3 : Bool) (t : Bool) (R64 : UInt64) (P128 : U128) (R128 : U128) (P192 : U192) (R192 : U192) (R256 : U256) (k : K α) (h1 : v128 C3 + 1 ≤ v256 C4) (h2 : v256 C4 < 10 ^ 68) (h3 : v128 C3 ≤ 10 ^ 34) :
    ∃ (R256' : U256) (lsb' : Bool),
      addK q3 p34 (sgnW zs) (sgnW ps) C4 m p1 p2 p3 p4 f res C3 e3 e4 sc ind x0 a b c d a0 b0 c0 d0 i lsb l1 l2 l3 t R64 P128 R128 P192 R192 R256 k = k p1 p2 p3 p4 f res C3 (e3 + x0) e4 sc ind x0 ((addF (ps == zs) (decide (v256 C4 % 2 = 1)) (v256 C4) (v128 C3) ⟨a, b, c, d⟩).2.midLtEven) ((addF (ps == zs) (decide (v256 C4 % 2 = 1)) (v256 C4) (v128 C3) ⟨a, b, c, d⟩).2.midGtEven) ((addF (ps == zs) (decide (v256 C4 % 2 = 1)) (v256 C4) (v128 C3) ⟨a, b, c, d⟩).2.inexLtMid) ((addF (ps == zs) (decide (v256 C4 % 2 = 1)) (v256 C4) (v128 C3) ⟨a, b, c, d⟩).2.inexGtMid) a0 b0 c0 d0 i lsb' l1 l2 l3 t R64 P128 R128 P192 R192 R256' ∧
      v256 R256' = (addF (ps == zs) (decide (v256 C4 % 2 = 1)) (v256 C4) (v128 C3) ⟨a, b, c, d⟩).1 := by
  unfold addK addF
  simp only [sgnW_beq, lsb_eq]
  have hR : v256 ⟨C3.w0, C3.w1, 0, 0⟩ = v128 C3 := by unfold v256 v128; simp
  have hp68 : (10:Nat) ^ 68 < 2 ^ 255 := by decide
  by_cases hs : (ps == zs) = true
  · simp only [hs, if_true]
    rw [add256_exact _ _ (by rw [← v256_toNat', ← v256_toNat', hR]; omega)]
    refine ⟨_, _, rfl, ?_⟩
    rw [v256_toNat', mk256_val _ (by rw [← v256_toNat', ← v256_toNat', hR]; omega), ← v256_toNat', ← v256_toNat', hR]
  · simp only [hs, if_false, Bool.false_eq_true]
    rw [sub256_exact _ _ (by rw [← v256_toNat', ← v256_toNat', hR]; omega)]
    simp only [bind, Except.bind, pure, Except.pure]
    have hv : v256 (mk256 (C4.toNat' - (⟨C3.w0, C3.w1, 0, 0⟩ : U256).toNat')) = v256 C4 - v128 C3 := by
      rw [v256_toNat', mk256_val _ (by have := Dec.C02GenFmaLow.toNat'_lt C4; omega), ← v256_toNat', ← v256_toNat', hR]
    generalize mk256 (C4.toNat' - (⟨C3.w0, C3.w1, 0, 0⟩ : U256).toNat') = D at hv ⊢
    cases c
    · cases d
      · by_cases hl : v256 C4 % 2 = 1
        · simp only [hl, decide_true, Bool.not_true, Bool.false_eq_true, if_false, if_true]
          cases a
          · cases b
            · exact ⟨D, _, rfl, hv⟩
            · simp only [Bool.false_eq_true, if_false, if_true]
              have hd := dec256 D (by rw [hv]; omega)
              rw [hv] at hd
              refine ⟨_, true, ?_, hd⟩
              by_cases z0 : (D.w0 - 1 == (0xffffffffffffffff : UInt64)) = true
              · by_cases z1 : (D.w1 - 1 == (0xffffffffffffffff : UInt64)) = true
                · by_cases z2 : (D.w2 - 1 == (0xffffffffffffffff : UInt64)) = true
                  · simp only [z0, z1, z2, if_true]
                  · simp only [z0, z1, z2, if_true, if_false, Bool.false_eq_true]
                · simp only [z0, z1, if_true, if_false, Bool.false_eq_true]
              · simp only [z0, if_false, Bool.false_eq_true]
          · simp only [if_true]
            have hd := inc256 D (by rw [hv]; omega)
            rw [hv] at hd
            refine ⟨_, true, ?_, hd⟩
            by_cases z0 : (D.w0 + 1 == (0 : UInt64)) = true
            · by_cases z1 : (D.w1 + 1 == (0 : UInt64)) = true
              · by_cases z2 : (D.w2 + 1 == (0 : UInt64)) = true
                · simp only [z0, z1, z2, if_true]
                · simp only [z0, z1, z2, if_true, if_false, Bool.false_eq_true]
              · simp only [z0, z1, if_true, if_false, Bool.false_eq_true]
            · simp only [z0, if_false, Bool.false_eq_true]
        · simp only [hl, decide_false, Bool.not_false, if_true, Bool.false_eq_true, if_false]
          cases a
          · cases b
            · exact ⟨D, _, rfl, hv⟩
            · exact ⟨D, _, rfl, hv⟩
          · exact ⟨D, _, rfl, hv⟩
      · exact ⟨D, _, rfl, hv⟩
    · exact ⟨D, _, rfl, hv⟩

open Dec.C02GenCorrection (pow_split) in
/-- **stage 2, the mathematics**: the sum (or difference) `c1` of `c4` and the rounded `c3` is within half a unit `X = 10^x` of the
exact value `V = c4·X ± c3`, the indicators leaving the stage say where `V` lies relative to `c1` (`posInd`), and for a
difference a tie has an even `c1` (that is what the `lsb` adjustment is for) -/
theorem add_math (c3 c4 x : Nat) (same : Bool) (hx : 1 ≤ x) (hle : rne c3 x + 1 ≤ c4) :
    (2 * (if same = true then c4 * 10 ^ x + c3 else c4 * 10 ^ x - c3) ≤
        2 * ((addF same (decide (c4 % 2 = 1)) c4 (rne c3 x) (specInd (c3 / 10 ^ x) (c3 % 10 ^ x) (10 ^ x / 2))).1 * 10 ^ x) + 10 ^ x ∧
      2 * ((addF same (decide (c4 % 2 = 1)) c4 (rne c3 x) (specInd (c3 / 10 ^ x) (c3 % 10 ^ x) (10 ^ x / 2))).1 * 10 ^ x) ≤
        2 * (if same = true then c4 * 10 ^ x + c3 else c4 * 10 ^ x - c3) + 10 ^ x) ∧
    (addF same (decide (c4 % 2 = 1)) c4 (rne c3 x) (specInd (c3 / 10 ^ x) (c3 % 10 ^ x) (10 ^ x / 2))).2 =
      posInd (if same = true then c4 * 10 ^ x + c3 else c4 * 10 ^ x - c3) (10 ^ x)
        (addF same (decide (c4 % 2 = 1)) c4 (rne c3 x) (specInd (c3 / 10 ^ x) (c3 % 10 ^ x) (10 ^ x / 2))).1 ∧
    (same = false → (addF same (decide (c4 % 2 = 1)) c4 (rne c3 x) (specInd (c3 / 10 ^ x) (c3 % 10 ^ x) (10 ^ x / 2))).2.midLtEven = true ∨
        (addF same (decide (c4 % 2 = 1)) c4 (rne c3 x) (specInd (c3 / 10 ^ x) (c3 % 10 ^ x) (10 ^ x / 2))).2.midGtEven = true →
      (addF same (decide (c4 % 2 = 1)) c4 (rne c3 x) (specInd (c3 / 10 ^ x) (c3 % 10 ^ x) (10 ^ x / 2))).1 % 2 = 0) ∧
    (same = true → (addF same (decide (c4 % 2 = 1)) c4 (rne c3 x) (specInd (c3 / 10 ^ x) (c3 % 10 ^ x) (10 ^ x / 2))).1 = c4 + rne c3 x) ∧
    (same = false → c4 - rne c3 x - 1 ≤ (addF same (decide (c4 % 2 = 1)) c4 (rne c3 x) (specInd (c3 / 10 ^ x) (c3 % 10 ^ x) (10 ^ x / 2))).1 ∧
      (addF same (decide (c4 % 2 = 1)) c4 (rne c3 x) (specInd (c3 / 10 ^ x) (c3 % 10 ^ x) (10 ^ x / 2))).1 ≤ c4 - rne c3 x + 1) := by
  obtain ⟨h, hh0, hh, hh2⟩ := pow_split x hx
  have hr := rne_eq c3 x hx
  have hdm := Nat.div_add_mod c3 (10 ^ x)
  have hrl := Nat.mod_lt c3 (Nat.pow_pos (by decide) : 0 < 10 ^ x)
  rw [hh2] at hr ⊢
  generalize c3 / 10 ^ x = q at *
  generalize c3 % 10 ^ x = r at *
  generalize rne c3 x = r3 at *
  generalize 10 ^ x = X at *
  subst hh
  obtain ⟨P, hP⟩ : ∃ P, P = c4 * (2 * h) := ⟨_, rfl⟩
  obtain ⟨Q, hQ⟩ : ∃ Q, Q = q * (2 * h) := ⟨_, rfl⟩
  have hc3 : c3 = Q + r := by rw [hQ, ← hdm]; ring
  have eA : ∀ n, (c4 + n) * (2 * h) = P + n * (2 * h) := fun n => by rw [hP]; ring
  have eS : ∀ n, (c4 - n) * (2 * h) = P - n * (2 * h) := fun n => by rw [hP, Nat.sub_mul]
  have eq1 : (q + 1) * (2 * h) = Q + 2 * h := by rw [hQ]; ring
  have hr3 : (r3 = q ∨ r3 = q + 1) := by rw [hr]; split <;> (try split) <;> (try split) <;> omega
  have hP1 : (r3 + 1) * (2 * h) ≤ P := by rw [hP]; exact Nat.mul_le_mul_right _ hle
  have eq2 : (q + 1 + 1) * (2 * h) = Q + 2 * h + 2 * h := by rw [hQ]; ring
  have eQ : q * (2 * h) = Q := hQ.symm
  rw [← hP]
  have pI : ∀ (V c : Nat) (a b cc d : Bool), (a = decide (2 * V + 2 * h = 2 * (c * (2 * h)))) →
      (b = decide (2 * V = 2 * (c * (2 * h)) + 2 * h)) → (cc = decide (c * (2 * h) < V ∧ 2 * V < 2 * (c * (2 * h)) + 2 * h)) →
      (d = decide (V < c * (2 * h) ∧ 2 * (c * (2 * h)) < 2 * V + 2 * h)) → (⟨a, b, cc, d⟩ : Ind) = posInd V (2 * h) c := by
    intro V c a b cc d e1 e2 e3 e4; unfold posInd; rw [e1, e2, e3, e4]
  have hPe : c4 * (2 * h) = P := hP.symm
  obtain ⟨c1, F, hA⟩ : ∃ c1 F, addF same (decide (c4 % 2 = 1)) c4 r3 (specInd q r h) = (c1, F) := ⟨_, _, rfl⟩
  rw [hA]
  simp only []
  have hq1 : (q + 1) * (2 * h) ≤ P := by
    rcases hr3 with e | e
    · rw [e] at hP1; exact hP1
    · rw [e] at hP1; exact le_trans (Nat.mul_le_mul_right _ (by omega)) hP1
  rw [eq1] at hq1
  have hq2 : r3 = q + 1 → Q + 2 * h + 2 * h ≤ P := by
    intro e; rw [e, eq2] at hP1; exact hP1
  have hqc : q + 1 ≤ c4 := by omega
  unfold addF specInd at hA
  obtain ⟨fa, fb, fc, fd⟩ := F
  have fin : ∀ {c1' : Nat} {F' : Ind}, (c1', F') = (c1, (⟨fa, fb, fc, fd⟩ : Ind)) → c1 = c1' ∧ fa = F'.midLtEven ∧ fb = F'.midGtEven ∧
      fc = F'.inexLtMid ∧ fd = F'.inexGtMid := by
    intro c1' F' e
    obtain ⟨e1, e2⟩ := Prod.mk.inj e
    subst e1; subst e2; exact ⟨rfl, rfl, rfl, rfl, rfl⟩
  have tt : ∀ (p : Prop) [Decidable p], p → true = decide p := fun p _ hp => (decide_eq_true hp).symm
  have ff : ∀ (p : Prop) [Decidable p], ¬ p → false = decide p := fun p _ hp => (decide_eq_false hp).symm
  by_cases r0 : r = 0
  · have e1 : decide (r = h ∧ q % 2 = 1) = false := decide_eq_false (by omega)
    have e2 : decide (r = h ∧ q % 2 = 0) = false := decide_eq_false (by omega)
    have e3 : decide (0 < r ∧ r < h) = false := decide_eq_false (by omega)
    have e4 : decide (h < r) = false := decide_eq_false (by omega)
    have e5 : q = r3 := by rw [hr, if_pos (by omega)]
    subst e5
    simp only [e1, e2, e3, e4, Bool.false_eq_true, if_false, if_true, ite_self] at hA
    cases same
    · simp only [Bool.false_eq_true, ↓reduceIte] at hA ⊢
      have hf := fin hA; obtain ⟨rfl, rfl, rfl, rfl, rfl⟩ := hf
      refine ⟨⟨?_, ?_⟩, pI _ _ _ _ _ _ (ff _ ?_) (ff _ ?_) (ff _ ?_) (ff _ ?_), ?ev, ?_, ?_⟩
      case ev => first | (intro hs; exact Bool.noConfusion hs) | (intro hs; exact False.elim hs) | (intro _ hh; first | (rcases hh with hh | hh <;> exact Bool.noConfusion hh) | omega)
      all_goals ((try simp only [Nat.sub_mul, Nat.add_mul, Nat.one_mul, eQ, hPe]); first | (intro hh; exact Bool.noConfusion hh) | (intro hh; exact False.elim hh) | ((try intros); omega))
    · simp only [↓reduceIte] at hA ⊢
      have hf := fin hA; obtain ⟨rfl, rfl, rfl, rfl, rfl⟩ := hf
      refine ⟨⟨?_, ?_⟩, pI _ _ _ _ _ _ (ff _ ?_) (ff _ ?_) (ff _ ?_) (ff _ ?_), ?ev, ?_, ?_⟩
      case ev => first | (intro hs; exact Bool.noConfusion hs) | (intro hs; exact False.elim hs) | (intro _ hh; first | (rcases hh with hh | hh <;> exact Bool.noConfusion hh) | omega)
      all_goals ((try simp only [Nat.sub_mul, Nat.add_mul, Nat.one_mul, eQ, hPe]); first | (intro hh; exact Bool.noConfusion hh) | (intro hh; exact False.elim hh) | ((try intros); omega))
  by_cases rlt : r < h
  · have e1 : decide (r = h ∧ q % 2 = 1) = false := decide_eq_false (by omega)
    have e2 : decide (r = h ∧ q % 2 = 0) = false := decide_eq_false (by omega)
    have e3 : decide (0 < r ∧ r < h) = true := decide_eq_true (by omega)
    have e4 : decide (h < r) = false := decide_eq_false (by omega)
    have e5 : q = r3 := by rw [hr, if_pos rlt]
    subst e5
    simp only [e1, e2, e3, e4, Bool.false_eq_true, if_false, if_true, ite_self] at hA
    cases same
    · simp only [Bool.false_eq_true, ↓reduceIte] at hA ⊢
      have hf := fin hA; obtain ⟨rfl, rfl, rfl, rfl, rfl⟩ := hf
      refine ⟨⟨?_, ?_⟩, pI _ _ _ _ _ _ (ff _ ?_) (ff _ ?_) (ff _ ?_) (tt _ ?_), ?ev, ?_, ?_⟩
      case ev => first | (intro hs; exact Bool.noConfusion hs) | (intro hs; exact False.elim hs) | (intro _ hh; first | (rcases hh with hh | hh <;> exact Bool.noConfusion hh) | omega)
      all_goals ((try simp only [Nat.sub_mul, Nat.add_mul, Nat.one_mul, eQ, hPe]); first | (intro hh; exact Bool.noConfusion hh) | (intro hh; exact False.elim hh) | ((try intros); omega))
    · simp only [↓reduceIte] at hA ⊢
      have hf := fin hA; obtain ⟨rfl, rfl, rfl, rfl, rfl⟩ := hf
      refine ⟨⟨?_, ?_⟩, pI _ _ _ _ _ _ (ff _ ?_) (ff _ ?_) (tt _ ?_) (ff _ ?_), ?ev, ?_, ?_⟩
      case ev => first | (intro hs; exact Bool.noConfusion hs) | (intro hs; exact False.elim hs) | (intro _ hh; first | (rcases hh with hh | hh <;> exact Bool.noConfusion hh) | omega)
      all_goals ((try simp only [Nat.sub_mul, Nat.add_mul, Nat.one_mul, eQ, hPe]); first | (intro hh; exact Bool.noConfusion hh) | (intro hh; exact False.elim hh) | ((try intros); omega))
  by_cases rgt : h < r
  · have e1 : decide (r = h ∧ q % 2 = 1) = false := decide_eq_false (by omega)
    have e2 : decide (r = h ∧ q % 2 = 0) = false := decide_eq_false (by omega)
    have e3 : decide (0 < r ∧ r < h) = false := decide_eq_false (by omega)
    have e4 : decide (h < r) = true := decide_eq_true rgt
    have e5 : r3 = q + 1 := by rw [hr, if_neg rlt, if_pos rgt]
    have := hq2 e5
    subst e5
    simp only [e1, e2, e3, e4, Bool.false_eq_true, if_false, if_true, ite_self] at hA
    cases same
    · simp only [Bool.false_eq_true, ↓reduceIte] at hA ⊢
      have hf := fin hA; obtain ⟨rfl, rfl, rfl, rfl, rfl⟩ := hf
      refine ⟨⟨?_, ?_⟩, pI _ _ _ _ _ _ (ff _ ?_) (ff _ ?_) (tt _ ?_) (ff _ ?_), ?ev, ?_, ?_⟩
      case ev => first | (intro hs; exact Bool.noConfusion hs) | (intro hs; exact False.elim hs) | (intro _ hh; first | (rcases hh with hh | hh <;> exact Bool.noConfusion hh) | omega)
      all_goals ((try simp only [Nat.sub_mul, Nat.add_mul, Nat.one_mul, eQ, hPe]); first | (intro hh; exact Bool.noConfusion hh) | (intro hh; exact False.elim hh) | ((try intros); omega))
    · simp only [↓reduceIte] at hA ⊢
      have hf := fin hA; obtain ⟨rfl, rfl, rfl, rfl, rfl⟩ := hf
      refine ⟨⟨?_, ?_⟩, pI _ _ _ _ _ _ (ff _ ?_) (ff _ ?_) (ff _ ?_) (tt _ ?_), ?ev, ?_, ?_⟩
      case ev => first | (intro hs; exact Bool.noConfusion hs) | (intro hs; exact False.elim hs) | (intro _ hh; first | (rcases hh with hh | hh <;> exact Bool.noConfusion hh) | omega)
      all_goals ((try simp only [Nat.sub_mul, Nat.add_mul, Nat.one_mul, eQ, hPe]); first | (intro hh; exact Bool.noConfusion hh) | (intro hh; exact False.elim hh) | ((try intros); omega))
  have req : r = h := by omega
  by_cases hodd : q % 2 = 1
  · have e1 : decide (r = h ∧ q % 2 = 1) = true := decide_eq_true ⟨req, hodd⟩
    have e2 : decide (r = h ∧ q % 2 = 0) = false := decide_eq_false (by omega)
    have e3 : decide (0 < r ∧ r < h) = false := decide_eq_false (by omega)
    have e4 : decide (h < r) = false := decide_eq_false (by omega)
    have e5 : r3 = q + 1 := by rw [hr, if_neg rlt, if_neg rgt, if_neg (by omega)]
    have := hq2 e5
    subst e5
    simp only [e1, e2, e3, e4, Bool.false_eq_true, if_false, if_true, ite_self] at hA
    cases same
    · simp only [Bool.false_eq_true, ↓reduceIte] at hA ⊢
      by_cases hl : c4 % 2 = 1
      · simp only [hl, decide_true, Bool.not_true, Bool.false_eq_true, if_false, if_true] at hA
        have hf := fin hA; obtain ⟨rfl, rfl, rfl, rfl, rfl⟩ := hf
        refine ⟨⟨?_, ?_⟩, pI _ _ _ _ _ _ (tt _ ?_) (ff _ ?_) (ff _ ?_) (ff _ ?_), ?ev, ?_, ?_⟩
        case ev => first | (intro hs; exact Bool.noConfusion hs) | (intro hs; exact False.elim hs) | (intro _ hh; first | (rcases hh with hh | hh <;> exact Bool.noConfusion hh) | omega)
        all_goals ((try simp only [Nat.sub_mul, Nat.add_mul, Nat.one_mul, eQ, hPe]); first | (intro hh; exact Bool.noConfusion hh) | (intro hh; exact False.elim hh) | ((try intros); omega))
      · simp only [hl, decide_false, Bool.not_false, if_true, Bool.false_eq_true, if_false] at hA
        have hf := fin hA; obtain ⟨rfl, rfl, rfl, rfl, rfl⟩ := hf
        refine ⟨⟨?_, ?_⟩, pI _ _ _ _ _ _ (ff _ ?_) (tt _ ?_) (ff _ ?_) (ff _ ?_), ?ev, ?_, ?_⟩
        case ev => first | (intro hs; exact Bool.noConfusion hs) | (intro hs; exact False.elim hs) | (intro _ hh; first | (rcases hh with hh | hh <;> exact Bool.noConfusion hh) | omega)
        all_goals ((try simp only [Nat.sub_mul, Nat.add_mul, Nat.one_mul, eQ, hPe]); first | (intro hh; exact Bool.noConfusion hh) | (intro hh; exact False.elim hh) | ((try intros); omega))
    · simp only [↓reduceIte] at hA ⊢
      have hf := fin hA; obtain ⟨rfl, rfl, rfl, rfl, rfl⟩ := hf
      refine ⟨⟨?_, ?_⟩, pI _ _ _ _ _ _ (tt _ ?_) (ff _ ?_) (ff _ ?_) (ff _ ?_), ?ev, ?_, ?_⟩
      case ev => first | (intro hs; exact Bool.noConfusion hs) | (intro hs; exact False.elim hs) | (intro _ hh; first | (rcases hh with hh | hh <;> exact Bool.noConfusion hh) | omega)
      all_goals ((try simp only [Nat.sub_mul, Nat.add_mul, Nat.one_mul, eQ, hPe]); first | (intro hh; exact Bool.noConfusion hh) | (intro hh; exact False.elim hh) | ((try intros); omega))
  · have e1 : decide (r = h ∧ q % 2 = 1) = false := decide_eq_false (by omega)
    have e2 : decide (r = h ∧ q % 2 = 0) = true := decide_eq_true ⟨req, by omega⟩
    have e3 : decide (0 < r ∧ r < h) = false := decide_eq_false (by omega)
    have e4 : decide (h < r) = false := decide_eq_false (by omega)
    have e5 : q = r3 := by rw [hr, if_neg rlt, if_neg rgt, if_pos (by omega)]
    subst e5
    simp only [e1, e2, e3, e4, Bool.false_eq_true, if_false, if_true, ite_self] at hA
    cases same
    · simp only [Bool.false_eq_true, ↓reduceIte] at hA ⊢
      by_cases hl : c4 % 2 = 1
      · simp only [hl, decide_true, Bool.not_true, Bool.false_eq_true, if_false, if_true] at hA
        have hf := fin hA; obtain ⟨rfl, rfl, rfl, rfl, rfl⟩ := hf
        refine ⟨⟨?_, ?_⟩, pI _ _ _ _ _ _ (ff _ ?_) (tt _ ?_) (ff _ ?_) (ff _ ?_), ?ev, ?_, ?_⟩
        case ev => first | (intro hs; exact Bool.noConfusion hs) | (intro hs; exact False.elim hs) | (intro _ hh; first | (rcases hh with hh | hh <;> exact Bool.noConfusion hh) | omega)
        all_goals ((try simp only [Nat.sub_mul, Nat.add_mul, Nat.one_mul, eQ, hPe]); first | (intro hh; exact Bool.noConfusion hh) | (intro hh; exact False.elim hh) | ((try intros); omega))
      · simp only [hl, decide_false, Bool.not_false, if_true, Bool.false_eq_true, if_false] at hA
        have hf := fin hA; obtain ⟨rfl, rfl, rfl, rfl, rfl⟩ := hf
        refine ⟨⟨?_, ?_⟩, pI _ _ _ _ _ _ (tt _ ?_) (ff _ ?_) (ff _ ?_) (ff _ ?_), ?ev, ?_, ?_⟩
        case ev => first | (intro hs; exact Bool.noConfusion hs) | (intro hs; exact False.elim hs) | (intro _ hh; first | (rcases hh with hh | hh <;> exact Bool.noConfusion hh) | omega)
        all_goals ((try simp only [Nat.sub_mul, Nat.add_mul, Nat.one_mul, eQ, hPe]); first | (intro hh; exact Bool.noConfusion hh) | (intro hh; exact False.elim hh) | ((try intros); omega))
    · simp only [↓reduceIte] at hA ⊢
      have hf := fin hA; obtain ⟨rfl, rfl, rfl, rfl, rfl⟩ := hf
      refine ⟨⟨?_, ?_⟩, pI _ _ _ _ _ _ (ff _ ?_) (tt _ ?_) (ff _ ?_) (ff _ ?_), ?ev, ?_, ?_⟩
      case ev => first | (intro hs; exact Bool.noConfusion hs) | (intro hs; exact False.elim hs) | (intro _ hh; first | (rcases hh with hh | hh <;> exact Bool.noConfusion hh) | omega)
      all_goals ((try simp only [Nat.sub_mul, Nat.add_mul, Nat.one_mul, eQ, hPe]); first | (intro hh; exact Bool.noConfusion hh) | (intro hh; exact False.elim hh) | ((try intros); omega))

/-! ## 5. Stage 3: the second rounding and the repair of the double rounding -/

open Dec.C02GenFmaLow (combine nr_digits256_spec)
open Dec.C02GenCorrection (deliver)
open Dec.C02GenFmaSwap (dec128 inc128 is_P33m1 w_P34m1 deliver_lt deliver_34)
open Dec.C08GenRoundIntegral (i32_add i32_sub)

theorem round192_incr (q x : Int32) (C : U192) (b : Bool) :
    bid_round192_39_57 q x C b false false false false = bid_round192_39_57 q x C false false false false false := by
  cases b <;> rfl
theorem round256_incr (q x : Int32) (C : U256) (b : Bool) :
    bid_round256_58_76 q x C b false false false false = bid_round256_58_76 q x C false false false false false := by
  cases b <;> rfl


/-- the repair chain of stage 3 (the same text after each of the three helper calls), as a function of the helper's answer -/
def repairC {α : Type} (up0 dn0 : Bool) (w0 w1 : UInt64) (e : Int32) (lt gt ilt igt : Bool)
    (k' : U128 → Int32 → Bool → Bool → Bool → Bool → Except String α) : Except String α :=
  if (up0 && lt) = true then
    if (w0 - 1 == (0xffffffffffffffff : UInt64)) = true then
      if (w1 - 1 == (0x314dc6448d93 : UInt64) && w0 - 1 == (0x38c15b09ffffffff : UInt64)) = true then
        k' ⟨0x378d8e63ffffffff, 0x1ed09bead87c0⟩ (e - 1) false gt true igt
      else k' ⟨w0 - 1, w1 - 1⟩ e false gt true igt
    else
      if (w1 == (0x314dc6448d93 : UInt64) && w0 - 1 == (0x38c15b09ffffffff : UInt64)) = true then
        k' ⟨0x378d8e63ffffffff, 0x1ed09bead87c0⟩ (e - 1) false gt true igt
      else k' ⟨w0 - 1, w1⟩ e false gt true igt
  else if (dn0 && gt) = true then
    if (w0 + 1 == (0 : UInt64)) = true then k' ⟨w0 + 1, w1 + 1⟩ e lt false ilt true
    else k' ⟨w0 + 1, w1⟩ e lt false ilt true
  else if (!lt && !gt && !ilt && !igt) = true then
    if up0 = true then
      if dn0 = true then k' ⟨w0, w1⟩ e lt gt true true else k' ⟨w0, w1⟩ e lt gt ilt true
    else
      if dn0 = true then k' ⟨w0, w1⟩ e lt gt true igt else k' ⟨w0, w1⟩ e lt gt ilt igt
  else if (gt && up0) = true then k' ⟨w0, w1⟩ e false false true false
  else if (lt && dn0) = true then k' ⟨w0, w1⟩ e false false false true
  else k' ⟨w0, w1⟩ e lt gt ilt igt

theorem repair_spec {α : Type} (up0 dn0 : Bool) (w0 w1 : UInt64) (e : Int32) (lt gt ilt igt incr : Bool) (Eb : Int)
    (k' : U128 → Int32 → Bool → Bool → Bool → Bool → Except String α)
    (hcs1 : P33 ≤ v128 ⟨w0, w1⟩) (hcs2 : v128 ⟨w0, w1⟩ < P34) (hinc : incr = true → v128 ⟨w0, w1⟩ = P33)
    (hlt : lt = true → incr = false → P33 + 1 ≤ v128 ⟨w0, w1⟩) (hgt : gt = true → incr = false ∧ v128 ⟨w0, w1⟩ + 1 < P34)
    (he : e.toInt = Eb + (if incr = true then 1 else 0)) (hE1 : -2^19 < Eb) (hE2 : Eb < 2^19) :
    ∃ (res' : U128) (e' : Int32),
      repairC up0 dn0 w0 w1 e lt gt ilt igt k' =
        k' res' e' (combine up0 dn0 ⟨lt, gt, ilt, igt⟩ (if incr = true then P34 else v128 ⟨w0, w1⟩)).2.midLtEven
          (combine up0 dn0 ⟨lt, gt, ilt, igt⟩ (if incr = true then P34 else v128 ⟨w0, w1⟩)).2.midGtEven
          (combine up0 dn0 ⟨lt, gt, ilt, igt⟩ (if incr = true then P34 else v128 ⟨w0, w1⟩)).2.inexLtMid
          (combine up0 dn0 ⟨lt, gt, ilt, igt⟩ (if incr = true then P34 else v128 ⟨w0, w1⟩)).2.inexGtMid ∧
      v128 res' = (deliver (combine up0 dn0 ⟨lt, gt, ilt, igt⟩ (if incr = true then P34 else v128 ⟨w0, w1⟩)).1 Eb).1 ∧
      e'.toInt = (deliver (combine up0 dn0 ⟨lt, gt, ilt, igt⟩ (if incr = true then P34 else v128 ⟨w0, w1⟩)).1 Eb).2 := by
  have e34 : P34 = 10000000000000000000000000000000000 := rfl
  have e33 : P33 = 1000000000000000000000000000000000 := rfl
  have he' : e.toInt = Eb ∨ e.toInt = Eb + 1 := by rw [he]; cases incr <;> simp
  have hsub : (e - 1).toInt = e.toInt - 1 :=
    i32_sub _ _ ⟨by omega, by omega⟩ ⟨by decide, by decide⟩
  -- the unchanged coefficient is the delivery of the rounded value
  have hsame : v128 ⟨w0, w1⟩ = (deliver (if incr = true then P34 else v128 ⟨w0, w1⟩) Eb).1 ∧
      e.toInt = (deliver (if incr = true then P34 else v128 ⟨w0, w1⟩) Eb).2 := by
    cases incr
    · simp only [Bool.false_eq_true, if_false] at he ⊢
      rw [deliver_lt _ _ (by omega)]; exact ⟨rfl, by rw [he]; simp⟩
    · simp only [if_true] at he ⊢
      rw [deliver_34]; exact ⟨hinc rfl, by rw [he]⟩
  unfold repairC combine
  by_cases c1 : (up0 && lt) = true
  · simp only [c1, if_true]
    have hl : lt = true := by simp only [Bool.and_eq_true] at c1; exact c1.2
    have hd := dec128 ⟨w0, w1⟩ (by omega)
    simp only [] at hd
    obtain ⟨R, hR⟩ : ∃ R : U128, R = (if (w0 - 1 == (0xffffffffffffffff : UInt64)) = true then ⟨w0 - 1, w1 - 1⟩ else ⟨w0 - 1, w1⟩) :=
      ⟨_, rfl⟩
    rw [← hR] at hd
    have hchain : (if (w0 - 1 == (0xffffffffffffffff : UInt64)) = true then
          if (w1 - 1 == (0x314dc6448d93 : UInt64) && w0 - 1 == (0x38c15b09ffffffff : UInt64)) = true then
            k' ⟨0x378d8e63ffffffff, 0x1ed09bead87c0⟩ (e - 1) false gt true igt
          else k' ⟨w0 - 1, w1 - 1⟩ e false gt true igt
        else
          if (w1 == (0x314dc6448d93 : UInt64) && w0 - 1 == (0x38c15b09ffffffff : UInt64)) = true then
            k' ⟨0x378d8e63ffffffff, 0x1ed09bead87c0⟩ (e - 1) false gt true igt
          else k' ⟨w0 - 1, w1⟩ e false gt true igt) =
        (if (R.w1 == (0x314dc6448d93 : UInt64) && R.w0 == (0x38c15b09ffffffff : UInt64)) = true then
          k' ⟨0x378d8e63ffffffff, 0x1ed09bead87c0⟩ (e - 1) false gt true igt else k' R e false gt true igt) := by
      rw [hR]
      by_cases hz : (w0 - 1 == (0xffffffffffffffff : UInt64)) = true
      · simp only [hz, if_true]
      · simp only [hz, if_false, Bool.false_eq_true]
    rw [hchain, is_P33m1, hd]
    cases incr
    · have := hlt hl rfl
      simp only [Bool.false_eq_true, if_false] at he ⊢
      rw [if_neg (by rw [decide_eq_true_eq]; omega), deliver_lt _ _ (by omega)]
      exact ⟨R, e, rfl, hd, by rw [he]; simp⟩
    · have := hinc rfl
      simp only [if_true] at he ⊢
      rw [if_pos (by rw [decide_eq_true_eq]; omega), deliver_lt _ _ (by omega)]
      exact ⟨_, _, rfl, by rw [w_P34m1], by rw [hsub, he]; simp⟩
  · simp only [c1, if_false, Bool.false_eq_true]
    by_cases c2 : (dn0 && gt) = true
    · simp only [c2, if_true]
      have hg : gt = true := by simp only [Bool.and_eq_true] at c2; exact c2.2
      obtain ⟨hi0, hb⟩ := hgt hg
      subst hi0
      simp only [Bool.false_eq_true, if_false] at he ⊢
      have hd := inc128 ⟨w0, w1⟩ (by omega)
      simp only [] at hd
      rw [deliver_lt _ _ (by omega)]
      by_cases hz : (w0 + 1 == (0 : UInt64)) = true
      · simp only [hz, if_true] at hd ⊢
        exact ⟨_, e, rfl, hd, by rw [he]; simp⟩
      · simp only [hz, if_false, Bool.false_eq_true] at hd ⊢
        exact ⟨_, e, rfl, hd, by rw [he]; simp⟩
    · simp only [c2, if_false, Bool.false_eq_true]
      by_cases c3 : (!lt && !gt && !ilt && !igt) = true
      · simp only [c3, if_true]
        cases up0 <;> cases dn0 <;> simp only [Bool.false_eq_true, if_false, if_true] <;>
          exact ⟨⟨w0, w1⟩, e, rfl, hsame.1, hsame.2⟩
      · simp only [c3, if_false, Bool.false_eq_true]
        by_cases c4 : (gt && up0) = true
        · simp only [c4, if_true]
          exact ⟨⟨w0, w1⟩, e, rfl, hsame.1, hsame.2⟩
        · simp only [c4, if_false, Bool.false_eq_true]
          by_cases c5 : (lt && dn0) = true
          · simp only [c5, if_true]
            exact ⟨⟨w0, w1⟩, e, rfl, hsame.1, hsame.2⟩
          · simp only [c5, if_false, Bool.false_eq_true]
            exact ⟨⟨w0, w1⟩, e, rfl, hsame.1, hsame.2⟩
/-- what stage 3 hands on, on numbers: the coefficient before delivery, its exponent, the indicators — for a sum `c1` of `nd` digits at
exponent `E` with indicators `i1` of the first rounding -/
def rnd2F (nd c1 : Nat) (E : Int) (i1 : Ind) : Nat × Int × Ind :=
  if nd = 34 then (c1, E, i1)
  else ((combine (i1.inexGtMid || i1.midLtEven) (i1.inexLtMid || i1.midGtEven)
          (specInd (c1 / 10 ^ (nd - 34)) (c1 % 10 ^ (nd - 34)) (10 ^ (nd - 34) / 2)) (rne c1 (nd - 34))).1,
        E + ((nd - 34 : Nat) : Int),
        (combine (i1.inexGtMid || i1.midLtEven) (i1.inexLtMid || i1.midGtEven)
          (specInd (c1 / 10 ^ (nd - 34)) (c1 % 10 ^ (nd - 34)) (10 ^ (nd - 34) / 2)) (rne c1 (nd - 34))).2)

theorem rnd2K_spec {α : Type} (nd : Nat) (E : Int) (q3 : Int32) (z_sign p_sign : UInt64) (C4 : U256) (m : RoundingMode)
    (p1 : Bool) (p2 : Bool) (p3 : Bool) (p4 : Bool) (f : UInt32) (res : U128) (C3 : U128) (e3 : Int32) (e4 : Int32) (sc : Int32) (ind : Int32) (x0 : Int32) (a : Bool) (b : Bool) (c : Bool) (d : Bool) (a0 : Bool) (b0 : Bool) (c0 : Bool) (d0 : Bool) (i : Bool) (lsb : Bool) (l1 : Bool) (l2 : Bool) (l3 : Bool) (t : Bool) (R64 : UInt64) (P128 : U128) (R128 : U128) (P192 : U192) (R192 : U192) (R256 : U256) (k : K α)
    (hnd : 34 ≤ nd) (hnd' : nd ≤ 69) (hlo : 10 ^ (nd - 1) ≤ v256 R256) (hhi : v256 R256 < 10 ^ nd)
    (hE : e4.toInt = E) (hE1 : -2^18 < E) (hE2 : E < 2^18) :
    ∃ (res' : U128) (e4' ind' x0' : Int32) (a0' b0' c0' d0' i' : Bool) (P128' R128' : U128) (P192' R192' : U192) (R256' : U256),
      rnd2K q3 34 z_sign p_sign C4 m p1 p2 p3 p4 f res C3 e3 e4 sc ind x0 a b c d a0 b0 c0 d0 i lsb l1 l2 l3 t R64 P128 R128 P192 R192 R256 k = k p1 p2 p3 p4 f res' C3 e3 e4' sc ind' x0' ((rnd2F nd (v256 R256) E ⟨a, b, c, d⟩).2.2.midLtEven) ((rnd2F nd (v256 R256) E ⟨a, b, c, d⟩).2.2.midGtEven) ((rnd2F nd (v256 R256) E ⟨a, b, c, d⟩).2.2.inexLtMid) ((rnd2F nd (v256 R256) E ⟨a, b, c, d⟩).2.2.inexGtMid) a0' b0' c0' d0' i' lsb l1 l2 l3 t R64 P128' R128' P192' R192' R256' ∧
      v128 res' = (deliver (rnd2F nd (v256 R256) E ⟨a, b, c, d⟩).1 (rnd2F nd (v256 R256) E ⟨a, b, c, d⟩).2.1).1 ∧
      e4'.toInt = (deliver (rnd2F nd (v256 R256) E ⟨a, b, c, d⟩).1 (rnd2F nd (v256 R256) E ⟨a, b, c, d⟩).2.1).2 := by
  have hpos : 0 < v256 R256 := lt_of_lt_of_le (Nat.pow_pos (by decide)) hlo
  have hndg : ndigits (v256 R256) = nd := (ndigits_eq_iff hpos (by omega)).2 ⟨hlo, hhi⟩
  obtain ⟨ind0, hind, hindv⟩ := nr_digits256_spec R256
  rw [← v256_toNat', if_neg (by omega), hndg, Nat.min_eq_left hnd'] at hindv
  have hi : ind0 = Int32.ofNat nd := i32_eq_ofNat ind0 nd hindv
  subst hi
  unfold rnd2K rnd2F
  simp only [hind, bind, Except.bind, pure, Except.pure]
  have lt34 : decide (Int32.ofNat nd < (34 : Int32)) = false := by
    rw [decide_eq_false_iff_not, Int32.lt_iff_toInt_lt, hindv]; show ¬ ((nd : Int) < 34); omega
  have eq34 : (Int32.ofNat nd == (34 : Int32)) = decide (nd = 34) := by
    rw [Bool.eq_iff_iff, beq_iff_eq, decide_eq_true_eq, ← Int32.toInt_inj, hindv]; show ((nd : Int) = 34) ↔ _; omega
  simp only [lt34, eq34, Bool.false_eq_true, if_false]
  by_cases h34 : nd = 34
  · simp only [h34, decide_true, if_true]
    have e34 : P34 = 10 ^ 34 := rfl
    have hc : v256 R256 < P34 := by rw [e34, ← h34]; exact hhi
    have hv : v128 ⟨R256.w0, R256.w1⟩ = v256 R256 := by
      have := R256.w0.toNat_lt; have := R256.w1.toNat_lt
      rw [e34] at hc
      unfold v256 at hc ⊢; unfold v128; simp only []; omega
    refine ⟨_, _, _, _, _, _, _, _, _, _, _, _, _, _, rfl, ?_, ?_⟩
    · rw [deliver_lt _ _ (by omega)]; exact hv
    · rw [deliver_lt _ _ (by omega)]; exact hE
  · simp only [h34, decide_false, if_false, Bool.false_eq_true]
    obtain ⟨x2, rfl⟩ : ∃ x2, nd = 34 + x2 := ⟨nd - 34, by omega⟩
    have hx2 : 1 ≤ x2 := by omega
    rw [Dec.C02GenFmaSwap.x0_eq _ (by omega), Nat.add_sub_cancel_left]
    try simp only [Nat.add_sub_cancel_left]
    have e34 : P34 = 10000000000000000000000000000000000 := rfl
    have e33 : P33 = 1000000000000000000000000000000000 := rfl
    have hxI : (Int32.ofNat x2).toInt = x2 := ofNat_toInt x2 (by omega)
    have hQ2 : v256 R256 / 10 ^ x2 < P34 := by
      rw [Nat.div_lt_iff_lt_mul (Nat.pow_pos (by decide)), show P34 * 10 ^ x2 = 10 ^ (34 + x2) by rw [Nat.pow_add]; rfl]
      exact hhi
    obtain ⟨hh, hh0, hhe, _⟩ := Dec.C02GenCorrection.pow_split x2 hx2
    -- what every helper branch needs: from the specification to the repair chain
    have fromSpec : ∀ (cs : U128) (incr lt gt ilt igt : Bool)
        (k' : U128 → Int32 → Bool → Bool → Bool → Bool → Except String α),
        Spec (34 + x2) x2 (v256 R256) (v128 cs) incr ⟨lt, gt, ilt, igt⟩ →
        ∃ (res' : U128) (e' : Int32),
          repairC (d || a) (c || b) cs.w0 cs.w1 (e4 + Int32.ofNat x2 + if incr = true then 1 else 0) lt gt ilt igt k' =
            k' res' e'
              (combine (d || a) (c || b) (specInd (v256 R256 / 10 ^ x2) (v256 R256 % 10 ^ x2) (10 ^ x2 / 2)) (rne (v256 R256) x2)).2.midLtEven
              (combine (d || a) (c || b) (specInd (v256 R256 / 10 ^ x2) (v256 R256 % 10 ^ x2) (10 ^ x2 / 2)) (rne (v256 R256) x2)).2.midGtEven
              (combine (d || a) (c || b) (specInd (v256 R256 / 10 ^ x2) (v256 R256 % 10 ^ x2) (10 ^ x2 / 2)) (rne (v256 R256) x2)).2.inexLtMid
              (combine (d || a) (c || b) (specInd (v256 R256 / 10 ^ x2) (v256 R256 % 10 ^ x2) (10 ^ x2 / 2)) (rne (v256 R256) x2)).2.inexGtMid ∧
          v128 res' = (deliver (combine (d || a) (c || b) (specInd (v256 R256 / 10 ^ x2) (v256 R256 % 10 ^ x2) (10 ^ x2 / 2))
            (rne (v256 R256) x2)).1 (E + (x2 : Int))).1 ∧
          e'.toInt = (deliver (combine (d || a) (c || b) (specInd (v256 R256 / 10 ^ x2) (v256 R256 % 10 ^ x2) (10 ^ x2 / 2))
            (rne (v256 R256) x2)).1 (E + (x2 : Int))).2 := by
      intro cs incr lt gt ilt igt k' sp
      have hval := spec_val sp (by omega)
      have hind' := spec_ind sp
      have hdig := sp.digits hx2 (by omega) hlo hhi
      rw [show 34 + x2 - x2 = 34 by omega, show 34 - 1 = 33 by omega] at hdig
      have hcases := Dec.C02GenFmaSwap.spec_cases x2 (v256 R256) (v128 cs) incr ⟨lt, gt, ilt, igt⟩ hx2 hQ2 sp hh hhe
      have hQ1 : P33 ≤ v256 R256 / 10 ^ x2 := by
        rw [Nat.le_div_iff_mul_le (Nat.pow_pos (by decide)), show P33 * 10 ^ x2 = 10 ^ (34 + x2 - 1) by
          rw [show 34 + x2 - 1 = 33 + x2 by omega, Nat.pow_add]; rfl]
        exact hlo
      have hee : (e4 + Int32.ofNat x2 + if incr = true then 1 else 0).toInt = E + x2 + (if incr = true then 1 else 0) := by
        have a1 : (e4 + Int32.ofNat x2).toInt = E + x2 := by
          rw [i32_add _ _ (by rw [hE]; omega) (by rw [hxI]; omega), hE, hxI]
        cases incr
        · simp only [Bool.false_eq_true, if_false]
          rw [i32_add _ _ (by rw [a1]; omega) (by decide), a1]; rfl
        · simp only [if_true]
          rw [i32_add _ _ (by rw [a1]; omega) (by decide), a1]; rfl
      have hcv : v128 ⟨cs.w0, cs.w1⟩ = v128 cs := rfl
      have hrep := repair_spec (d || a) (c || b) cs.w0 cs.w1 (e4 + Int32.ofNat x2 + if incr = true then 1 else 0) lt gt ilt igt incr
        (E + x2) k' (by rw [hcv, e33]; exact hdig.1) (by rw [hcv, e34]; exact hdig.2)
        (by
          intro hi
          rw [hcv]
          rcases hcases with ⟨_, _, _, h⟩ | ⟨_, _, _, _, h⟩ | ⟨_, _, h | h⟩ | ⟨_, _, _, h | h⟩ | ⟨_, _, _, _, h⟩ <;>
            first | (rw [h] at hi; exact Bool.noConfusion hi) | exact h.2.1 | (rw [h.2.2] at hi; exact Bool.noConfusion hi))
        (by
          intro hl hi
          rw [hcv]
          rcases hcases with ⟨_, h, _⟩ | ⟨_, _, h, _⟩ | ⟨_, h, _⟩ | ⟨_, _, _, h | h⟩ | ⟨_, _, h, _⟩
          · rw [Ind.mk.injEq] at h; rw [h.1] at hl; exact Bool.noConfusion hl
          · rw [Ind.mk.injEq] at h; rw [h.1] at hl; exact Bool.noConfusion hl
          · rw [Ind.mk.injEq] at h; rw [h.1] at hl; exact Bool.noConfusion hl
          · rw [h.2.2] at hi; exact Bool.noConfusion hi
          · rw [h.2.1]; omega
          · rw [Ind.mk.injEq] at h; rw [h.1] at hl; exact Bool.noConfusion hl)
        (by
          intro hg
          rw [hcv]
          rcases hcases with ⟨_, h, _⟩ | ⟨_, _, h, _⟩ | ⟨_, h, _⟩ | ⟨_, _, h, _⟩ | ⟨_, hev, _, h1, h2⟩
          · rw [Ind.mk.injEq] at h; rw [h.2.1] at hg; exact Bool.noConfusion hg
          · rw [Ind.mk.injEq] at h; rw [h.2.1] at hg; exact Bool.noConfusion hg
          · rw [Ind.mk.injEq] at h; rw [h.2.1] at hg; exact Bool.noConfusion hg
          · rw [Ind.mk.injEq] at h; rw [h.2.1] at hg; exact Bool.noConfusion hg
          · exact ⟨h2, by rw [h1]; omega⟩)
        (by rw [hee]) (by omega) (by omega)
      have hc2 : (if incr = true then P34 else v128 ⟨cs.w0, cs.w1⟩) = rne (v256 R256) x2 := by
        rw [hcv, ← hval]
        cases incr
        · rfl
        · simp only [if_true]
          rcases hcases with ⟨_, _, _, h⟩ | ⟨_, _, _, _, h⟩ | ⟨_, _, h | h⟩ | ⟨_, _, _, h | h⟩ | ⟨_, _, _, _, h⟩ <;>
            first | exact Bool.noConfusion h | (rw [h.2.1]; rfl) | exact Bool.noConfusion h.2.2
      rw [hc2, hind'] at hrep
      exact hrep
    have h0 := R256.w0.toNat_lt; have h1' := R256.w1.toNat_lt; have h2' := R256.w2.toNat_lt
    simp only [le_ofNat (34 + x2) 0x26 38 rfl (by omega), le_ofNat (34 + x2) 0x39 57 rfl (by omega)]
    by_cases c38 : 34 + x2 ≤ 38
    · simp only [c38, decide_true, if_true, round128_incr]
      have hp : (10:Nat) ^ (34 + x2) ≤ 10 ^ 38 := Nat.pow_le_pow_right (by decide) c38
      have hv : v128 ⟨R256.w0, R256.w1⟩ = v256 R256 := by
        unfold v256 at hhi ⊢; unfold v128; simp only []; omega
      obtain ⟨cs, incr, lt, gt, ilt, igt, hr, sp⟩ := Dec.C02GenRound.bid_round128_19_38_spec (34 + x2) x2 ⟨R256.w0, R256.w1⟩
        (by omega) c38 hx2 (by omega) (by rw [hv]; exact hhi)
      rw [hv] at sp
      rw [hr]
      obtain ⟨res', e', g1, g2, g3⟩ := fromSpec cs incr lt gt ilt igt
        (fun r e a' b' c' d' => k p1 p2 p3 p4 f r C3 e3 e sc (Int32.ofNat (34 + x2)) (Int32.ofNat x2) a' b' c' d' a b c d incr lsb l1 l2 l3 t R64 (⟨R256.w0, R256.w1⟩) cs P192 R192 R256) sp
      exact ⟨res', e', _, _, _, _, _, _, _, _, _, _, _, _, g1, g2, g3⟩
    · simp only [c38, decide_false, if_false, Bool.false_eq_true]
      by_cases c57 : 34 + x2 ≤ 57
      · simp only [c57, decide_true, if_true, round192_incr]
        have hp : (10:Nat) ^ (34 + x2) ≤ 10 ^ 57 := Nat.pow_le_pow_right (by decide) c57
        have hv : v192 ⟨R256.w0, R256.w1, R256.w2⟩ = v256 R256 := by
          unfold v256 at hhi ⊢; unfold v192; simp only []; omega
        obtain ⟨cs, incr, lt, gt, ilt, igt, hr, sp⟩ := Dec.C02GenRound.bid_round192_39_57_spec (34 + x2) x2
          ⟨R256.w0, R256.w1, R256.w2⟩ (by omega) c57 hx2 (by omega) (by rw [hv]; exact hhi)
        rw [hv] at sp
        have hd := (sp.digits hx2 (by omega) hlo hhi).2
        rw [show 34 + x2 - x2 = 34 by omega] at hd
        have hcs : v128 ⟨cs.w0, cs.w1⟩ = v192 cs := by
          have := cs.w0.toNat_lt; have := cs.w1.toNat_lt
          unfold v192 at hd ⊢; unfold v128; simp only []; omega
        rw [← hcs] at sp
        rw [hr]
        obtain ⟨res', e', g1, g2, g3⟩ := fromSpec ⟨cs.w0, cs.w1⟩ incr lt gt ilt igt
          (fun r e a' b' c' d' => k p1 p2 p3 p4 f r C3 e3 e sc (Int32.ofNat (34 + x2)) (Int32.ofNat x2) a' b' c' d' a b c d incr lsb l1 l2 l3 t R64 P128 (⟨cs.w0, cs.w1⟩) (⟨R256.w0, R256.w1, R256.w2⟩) cs R256) sp
        exact ⟨res', e', _, _, _, _, _, _, _, _, _, _, _, _, g1, g2, g3⟩
      · simp only [c57, decide_false, if_false, Bool.false_eq_true, round256_incr]
        obtain ⟨cs, incr, lt, gt, ilt, igt, hr, sp⟩ := Dec.C02GenRound.bid_round256_58_76_spec (34 + x2) x2 R256
          (by omega) (by omega) (by omega) (by omega) hhi
        have hd := (sp.digits hx2 (by omega) hlo hhi).2
        rw [show 34 + x2 - x2 = 34 by omega] at hd
        have hcs : v128 ⟨cs.w0, cs.w1⟩ = v256 cs := by
          have := cs.w0.toNat_lt; have := cs.w1.toNat_lt
          unfold v256 at hd ⊢; unfold v128; simp only []; omega
        rw [← hcs] at sp
        rw [hr]
        obtain ⟨res', e', g1, g2, g3⟩ := fromSpec ⟨cs.w0, cs.w1⟩ incr lt gt ilt igt
          (fun r e a' b' c' d' => k p1 p2 p3 p4 f r C3 e3 e sc (Int32.ofNat (34 + x2)) (Int32.ofNat x2) a' b' c' d' a b c d incr lsb l1 l2 l3 t R64 P128 (⟨cs.w0, cs.w1⟩) P192 R192 cs) sp
        exact ⟨res', e', _, _, _, _, _, _, _, _, _, _, _, _, g1, g2, g3⟩

/-! ## 6. Stage 4: tininess (never, in this block) -/

open Dec.C02GenCorrection (correction_eval stepC outW outF upD downD ovfB ofBits)
open Dec.C03GenCompare (sigW negW toNat_and_field)
open Dec.C02GenFmaSwap (sgnW_toNat w1_small mode_ne)

/-- the exponent field of a packed finite pattern, read back as the code does -/
theorem field_back (S X c2 : Nat) (hS : S ≤ 1) (hX : X < 2 ^ 14) (hc : c2 < 2 ^ 113) :
    (((ofBits (S * 2 ^ 127 + X * 2 ^ 113 + c2)).w1 &&& c_MASK_EXP) >>> (0x31 : UInt64)).toNat = X := by
  have hw : (ofBits (S * 2 ^ 127 + X * 2 ^ 113 + c2)).w1.toNat = (S * 2 ^ 127 + X * 2 ^ 113 + c2) / 2 ^ 64 :=
    (Dec.C02GenFmaLow.ofBits_words _ (by omega)).2
  rw [UInt64.toNat_shiftRight, toNat_and_field _ _ 14 49 (by decide), hw, show (0x31 : UInt64).toNat % 64 = 49 from by decide,
    Nat.shiftRight_eq_div_pow, Nat.mul_div_cancel _ (by decide)]
  omega

theorem stepC_exp (up down : Bool) (c : Nat) (hc : c < P34) :
    (stepC up down c 0).2.1 = -1 ∨ (stepC up down c 0).2.1 = 0 ∨ (stepC up down c 0).2.1 = 1 := by
  unfold stepC
  cases up <;> cases down <;> simp only [Bool.false_eq_true, if_false, if_true] <;> (repeat' split) <;> simp

theorem stepC_tiny (up down : Bool) (c : Nat) : (stepC up down c 0).2.2 = false := by
  unfold stepC
  cases up <;> cases down <;> simp only [Bool.false_eq_true, if_false, if_true] <;> (repeat' split) <;> first | rfl | omega

theorem stepC_lt (up down : Bool) (c : Nat) (hc : c < P34) (h0 : 0 < c) : (stepC up down c 0).1 < P34 := by
  have e34 : P34 = 10000000000000000000000000000000000 := rfl
  have e33 : P33 = 1000000000000000000000000000000000 := rfl
  unfold stepC
  cases up <;> cases down <;> simp only [Bool.false_eq_true, if_false, if_true] <;> (repeat' split) <;> (try simp only []) <;> omega

/-- **stage 4**: with a result exponent of at least −6175 nothing is tiny; in the directed modes the trial correction leaves
`inexact` in the status word when some indicator is set, nothing else -/
theorem tinyK_spec {α : Type} (s : Bool) (E : Int) (q3 p34 : Int32) (z_sign : UInt64) (C4 : U256) (m : RoundingMode)
    (p1 : Bool) (p2 : Bool) (p3 : Bool) (p4 : Bool) (f : UInt32) (res : U128) (C3 : U128) (e3 : Int32) (e4 : Int32) (sc : Int32) (ind : Int32) (x0 : Int32) (a : Bool) (b : Bool) (c : Bool) (d : Bool) (a0 : Bool) (b0 : Bool) (c0 : Bool) (d0 : Bool) (i : Bool) (lsb : Bool) (l1 : Bool) (l2 : Bool) (l3 : Bool) (t : Bool) (R64 : UInt64) (P128 : U128) (R128 : U128) (P192 : U192) (R192 : U192) (R256 : U256) (k : K α)
    (hE : e4.toInt = E) (hE1 : -6175 ≤ E) (hE2 : E < 2^19) (hc0 : 0 < v128 res) (hc : v128 res < P34) :
    ∃ (sc' : Int32) (P128' : U128),
      tinyK q3 p34 z_sign (sgnW s) C4 m p1 p2 p3 p4 f res C3 e3 e4 sc ind x0 a b c d a0 b0 c0 d0 i lsb l1 l2 l3 t R64 P128 R128 P192 R192 R256 k = k p1 p2 p3 p4 ((if m = .NearestEven then f else (outF (c || d || a || b) false false f))) res C3 e3 e4 sc' ind x0 a b c d a0 b0 c0 d0 i lsb l1 l2 l3 t R64 P128' R128 P192 R192 R256 := by
  have e34 : P34 = 10000000000000000000000000000000000 := rfl
  unfold tinyK
  by_cases hm : m = .NearestEven
  · subst hm
    simp only [beq_self_eq_true, if_true]
    rw [if_neg (by rw [decide_eq_true_eq, Int32.lt_iff_toInt_lt, hE]; show ¬ (E < -6176); omega)]
    exact ⟨_, _, rfl⟩
  · obtain ⟨m1, m2⟩ := mode_ne m hm
    simp only [m1, Bool.false_eq_true, if_false]
    have hw := w1_small res _ rfl hc
    -- the trial word: sign, exponent 0, coefficient
    obtain ⟨W, hW⟩ : ∃ W : U128, W = ⟨res.w0, (sgnW s ||| (0x3040000000000000 : UInt64)) ||| res.w1⟩ := ⟨_, rfl⟩
    have hW1 : W.w1.toNat = (if s then 1 else 0) * 2 ^ 63 + 6176 * 2 ^ 49 + res.w1.toNat := by
      rw [hW]
      show ((sgnW s ||| (0x3040000000000000 : UInt64)) ||| res.w1).toNat = _
      rw [UInt64.toNat_or, UInt64.toNat_or, sgnW_toNat, show (0x3040000000000000 : UInt64).toNat = 6176 * 2 ^ 49 from rfl,
        Dec.C17GenNext.or3 _ _ _ (by split <;> omega) (by decide) hw]
    have hneg : negW W.w1.toNat = s := by
      unfold negW; rw [hW1]
      cases s <;> simp only [Bool.false_eq_true, if_false, if_true, decide_eq_true_eq, decide_eq_false_iff_not] <;> omega
    have hsig : sigW W.w1.toNat W.w0.toNat = v128 res := by
      unfold sigW; rw [hW1, hW]; unfold v128
      cases s <;> simp only [Bool.false_eq_true, if_false, if_true] <;> omega
    have hev := correction_eval m c d a b 0 W f 0 (v128 res) rfl (by decide) (by decide) hsig hc (fun _ _ => hc0)
    rw [hneg] at hev
    rw [← hW, hev]
    simp only [bind, Except.bind, pure, Except.pure]
    obtain ⟨c2, e2, uf, hst⟩ : ∃ c2 e2 uf, stepC (upD m s c b) (downD m s d a) (v128 res) 0 = (c2, e2, uf) := ⟨_, _, _, rfl⟩
    have he2 := stepC_exp (upD m s c b) (downD m s d a) (v128 res) hc
    have hc2 := stepC_lt (upD m s c b) (downD m s d a) (v128 res) hc hc0
    have huf := stepC_tiny (upD m s c b) (downD m s d a) (v128 res)
    rw [hst] at he2 hc2 huf ⊢
    simp only [] at he2 hc2 huf ⊢
    subst huf
    rw [show decide (6111 < e2) = false from decide_eq_false (by omega), if_neg hm]
    -- the exponent field of the corrected word
    have hfield : (((outW (ovfB m (W.w1 &&& c_MASK_SIGN)) W c2 e2).w1 &&& c_MASK_EXP) >>> (0x31 : UInt64)).toNat = (e2 + 6176).toNat := by
      unfold outW
      rw [if_neg (by omega)]
      have hS : W.w1.toNat / 2 ^ 63 % 2 ≤ 1 := by omega
      exact field_back _ _ _ hS (by omega) (by omega)
    have hscale : (Int32.ofInt (toI (((((outW (ovfB m (W.w1 &&& c_MASK_SIGN)) W c2 e2).w1 &&& c_MASK_EXP)) >>> (0x31 : UInt64)) -
        (0x1820 : UInt64)))).toInt = e2 := by
      generalize (((outW (ovfB m (W.w1 &&& c_MASK_SIGN)) W c2 e2).w1 &&& c_MASK_EXP) >>> (0x31 : UInt64)) = X at hfield ⊢
      have hX : X = UInt64.ofNat (e2 + 6176).toNat := by rw [← hfield, UInt64.ofNat_toNat]
      rw [hX]
      rcases he2 with h | h | h <;> rw [h] <;> decide
    rw [if_neg (by
      rw [decide_eq_true_eq, Int32.lt_iff_toInt_lt, i32_add _ _ (by rw [hE]; omega) (by rw [hscale]; omega), hE, hscale]
      show ¬ (E + e2 < -6176); omega)]
    exact ⟨_, _, rfl⟩

/-! ## 7. Stage 5: packing, overflow, correction, flags -/

open Dec.C02GenCorrection (expField modeOf i32_gt ovfDatum_model ovfDatum)
open Dec.C02GenFmaSwap (correction_spec' u32_or_28 u32_or_20 u32_or_828)

theorem packE (w1 : UInt64) (s : Bool) (e : Int32) (E : Int) (he : e.toInt = E) (h1 : -6176 ≤ E) (h2 : E + 6176 < 2 ^ 14)
    (hw : w1.toNat < 2^49) :
    (w1 ||| (sgnW s ||| (((UInt64.ofInt (toI (e + (0x1820 : Int32))))) <<< 0x31))).toNat =
      (if s then 1 else 0) * 2^63 + (E + 6176).toNat * 2^49 + w1.toNat := by
  have hf := expField e E he h1 (by omega)
  rw [UInt64.toNat_or, UInt64.toNat_or, hf, sgnW_toNat, Nat.or_comm, Dec.C17GenNext.or3 _ _ _ (by split <;> omega) (by omega) hw]

/-- the result is never the pattern `10^33·10^−6176` that the last tininess test looks for -/
theorem not_min_pattern (s : Bool) (mm : RoundingMode) (c2 : Nat) (e2 : Int) (hc : c2 < P34) (he : -6175 ≤ e2) :
    ((ofBits (encode (if 6111 < e2 then ovfDatum mm s else .fin s c2 e2))).w1 &&& (0x7fffffffffffffff : UInt64) ==
      (0x314dc6448d93 : UInt64)) = false := by
  have e34 : P34 = 10000000000000000000000000000000000 := rfl
  by_cases ho : 6111 < e2
  · rw [if_pos ho]; cases s <;> cases mm <;> decide +kernel
  · rw [if_neg ho]
    rw [← Bool.not_eq_true, beq_iff_eq, ← UInt64.toNat_inj, UInt64.toNat_and,
      show (0x7fffffffffffffff : UInt64).toNat = 2 ^ 63 - 1 from rfl, Nat.and_two_pow_sub_one_eq_mod,
      show (0x314dc6448d93 : UInt64).toNat = 0x314dc6448d93 from rfl]
    have hB : encode (.fin s c2 e2) < 2 ^ 128 := by
      unfold encode signBit; cases s <;> simp only [Bool.false_eq_true, if_false, if_true] <;> omega
    rw [(Dec.C02GenFmaLow.ofBits_words _ hB).2]
    unfold encode signBit
    cases s <;> simp only [Bool.false_eq_true, if_false, if_true] <;> omega

/-- **stage 5.**  Handed the nearest-even rounding `cf` (as `deliver cf ef`) of the exact magnitude `V/D` units of `10^ef`, `−6175 ≤ ef`,
with truthful indicators (possibly none: an exact result), `is_tiny = false`, and the status word left by stage 4: the block
returns the encoding of `± c2·10^e2`, `V/D` rounded once in the mode asked for and normalised — or the mode's overflow result —
with inexact (when some indicator is set) and overflow or-ed into the ENTRY status word `f` -/
theorem endK_spec (s : Bool) (q3 : Int32) (z_sign : UInt64) (C4 : U256) (m : RoundingMode) (f : UInt32)
    (p1 : Bool) (p2 : Bool) (p3 : Bool) (p4 : Bool) (res : U128) (C3 : U128) (e3 : Int32) (e4 : Int32) (sc : Int32) (ind : Int32) (x0 : Int32) (a : Bool) (b : Bool) (c : Bool) (d : Bool) (a0 : Bool) (b0 : Bool) (c0 : Bool) (d0 : Bool) (i : Bool) (lsb : Bool) (l1 : Bool) (l2 : Bool) (l3 : Bool) (R64 : UInt64) (P128 : U128) (R128 : U128) (P192 : U192) (R192 : U192) (R256 : U256)
    (V D cf : Nat) (ef : Int) (hD : 0 < D)
    (hne : RoundedInt .rne s V D cf)
    (hL : c = decide (cf * D < V ∧ 2 * V < 2 * (cf * D) + D)) (hG : d = decide (V < cf * D ∧ 2 * (cf * D) < 2 * V + D))
    (hML : a = decide (2 * V + D = 2 * (cf * D))) (hMG : b = decide (2 * V = 2 * (cf * D) + D))
    (hcf : cf ≤ P34) (hcarry : cf = P34 → V ≤ cf * D) (hlow : V < cf * D → cf ≠ P33)
    (hef1 : -6175 ≤ ef) (hef2 : ef ≤ 6200)
    (hc : v128 res = (deliver cf ef).1) (he : e4.toInt = (deliver cf ef).2) :
    ∃ (c2 : Nat) (e2 : Int),
      endK q3 34 z_sign (sgnW s) C4 m p1 p2 p3 p4 ((if m = .NearestEven then f else (outF (c || d || a || b) false false f))) res C3 e3 e4 sc ind x0 a b c d a0 b0 c0 d0 i lsb l1 l2 l3 false R64 P128 R128 P192 R192 R256 =
        .ok (ofBits (encode (if 6111 < e2 then overflowResult (modeOf m) s else .fin s c2 e2)), a, b, c, d,
             f ||| (if 6111 < e2 then 0x28 else if (c || d || a || b) = true then 0x20 else 0)) ∧
      RoundedInt (modeOf m) s V D (c2 * 10 ^ (e2 - ef).toNat) ∧
      ef ≤ e2 ∧ e2 ≤ ef + 1 ∧ c2 < P34 ∧ (e2 = ef + 1 → c2 = P33) := by
  have e34 : P34 = 10000000000000000000000000000000000 := rfl
  have e33 : P33 = 1000000000000000000000000000000000 := rfl
  have hd1 : (deliver cf ef).1 < P34 := by unfold deliver; split <;> simp only [] <;> omega
  have hd2 : ef ≤ (deliver cf ef).2 ∧ (deliver cf ef).2 ≤ ef + 1 := by unfold deliver; split <;> simp only [] <;> omega
  have hw := w1_small res _ hc hd1
  have hpk := packE res.w1 s e4 _ he (by omega) (by omega) hw
  have hany : (a || b || c || d) = (c || d || a || b) := by cases a <;> cases b <;> cases c <;> cases d <;> rfl
  have hnoE : decide (e4 < c_EXP_MIN_UNBIASED) = false :=
    decide_eq_false (by rw [Int32.lt_iff_toInt_lt, he]; show ¬ ((deliver cf ef).2 < -6176); omega)
  by_cases hm : m = .NearestEven
  · subst hm
    have hov : decide (((34 : Int32) + e4) > ((34 : Int32) + c_EXP_MAX_UNBIASED)) = decide (6111 < (deliver cf ef).2) := by
      have a1 : ((34 : Int32) + c_EXP_MAX_UNBIASED).toInt = 6145 := by
        rw [i32_add _ _ (by decide) (by decide)]; rfl
      have a2 : ((34 : Int32) + e4).toInt = 34 + (deliver cf ef).2 := by
        rw [i32_add _ _ (by decide) (by rw [he]; omega), he]; rfl
      rw [i32_gt, a1, a2, decide_eq_decide]; omega
    refine ⟨(deliver cf ef).1, (deliver cf ef).2, ?_, ?_, hd2.1, hd2.2, hd1, ?_⟩
    · have hres : (⟨res.w0, res.w1 ||| (sgnW s ||| (((UInt64.ofInt (toI (e4 + (0x1820 : Int32))))) <<< 0x31))⟩ : U128) =
          ofBits (encode (.fin s (deliver cf ef).1 (deliver cf ef).2)) := by
        apply Dec.C17GenNext.eq_ofBits
        show _ * 2^64 + _ = _
        rw [hpk]
        unfold v128 at hc
        unfold encode signBit
        cases s <;> simp only [Bool.false_eq_true, if_false, if_true] <;> omega
      unfold endK
      by_cases ho : 6111 < (deliver cf ef).2
      · rw [if_pos ho, if_pos ho]
        take_pos
        · rw [hov, decide_eq_true ho]; rfl
        head_step
        rw [if_pos rfl]
        refine congrArg Except.ok (Prod.ext ?_ (Prod.ext rfl (Prod.ext rfl (Prod.ext rfl (Prod.ext rfl ?_)))))
        · show (⟨0, sgnW s ||| 0x7800000000000000⟩ : U128) = ofBits (encode (overflowResult (modeOf RoundingMode.NearestEven) s))
          cases s <;> decide +kernel
        · rfl
      · rw [if_neg ho, if_neg ho]
        take_neg
        · rw [hov, decide_eq_false ho]; decide
        take_neg
        · rw [hnoE]; decide
        take_neg
        · decide
        rw [hres]
        have hnm : ((ofBits (encode (.fin s (deliver cf ef).1 (deliver cf ef).2))).w1 &&& (0x7fffffffffffffff : UInt64) ==
            (0x314dc6448d93 : UInt64)) = false := by
          have h := not_min_pattern s .NearestEven (deliver cf ef).1 (deliver cf ef).2 hd1 (by omega)
          rw [if_neg ho] at h; exact h
        take_neg
        · rw [hnm]; simp
        rw [if_pos rfl]
        by_cases hany' : (c || d || a || b) = true
        · rw [if_pos hany']
          take_pos
          · rw [hany]; exact hany'
          head_step
          rfl
        · rw [if_neg hany']
          take_neg
          · rw [hany]; exact hany'
          head_step
          rw [UInt32.or_zero]
          rfl
    · show RoundedInt .rne s V D _
      unfold deliver
      by_cases h : cf = P34
      · rw [if_pos h]
        simp only []
        rw [show ef + 1 - ef = 1 by omega, show P33 * 10 ^ (1 : Int).toNat = cf by rw [h]; rfl]
        exact hne
      · rw [if_neg h]
        simp only []
        rw [Int.sub_self, Int.toNat_zero, Nat.pow_zero, Nat.mul_one]
        exact hne
    · unfold deliver; split
      · intro _; rfl
      · simp only []; intro h; omega
  · obtain ⟨m1, m2⟩ := mode_ne m hm
    obtain ⟨W, hW⟩ : ∃ W : U128, W = ⟨res.w0, res.w1 ||| (sgnW s ||| (((UInt64.ofInt (toI (e4 + (0x1820 : Int32))))) <<< 0x31))⟩ := ⟨_, rfl⟩
    have hW1 : W.w1.toNat = (if s then 1 else 0) * 2^63 + ((deliver cf ef).2 + 6176).toNat * 2^49 + res.w1.toNat := by
      rw [hW]; exact hpk
    have hW0 : W.w0 = res.w0 := by rw [hW]
    have hneg : negW W.w1.toNat = s := by
      unfold negW; rw [hW1]
      cases s <;> simp only [Bool.false_eq_true, if_false, if_true, decide_eq_true_eq, decide_eq_false_iff_not] <;> omega
    have hsig : sigW W.w1.toNat W.w0.toNat = (deliver cf ef).1 := by
      unfold sigW; rw [hW1, hW0, ← hc]; unfold v128
      cases s <;> simp only [Bool.false_eq_true, if_false, if_true] <;> omega
    obtain ⟨c2, e2, h1, h2, h3, h4, h5, h6⟩ := correction_spec' m c d a b e4 W (outF (c || d || a || b) false false f) V D cf ef hD
      (by rw [hneg]; exact hne) hL hG hML hMG hcf hcarry hlow (by omega) (by omega) hsig he
    rw [hneg] at h1 h2
    refine ⟨c2, e2, ?_, h2, h3, h4, h5, h6⟩
    rw [ovfDatum_model m s hm] at h1
    have hnm := not_min_pattern s m c2 e2 h5 (by omega)
    rw [ovfDatum_model m s hm] at hnm
    unfold endK
    take_neg
    · rw [m1]; simp
    take_neg
    · rw [hnoE]; simp
    take_pos
    · exact m2
    rw [if_neg hm, ← hW]
    take_call h1
    head_step
    take_neg
    · rw [hnm]; simp
    by_cases hany' : (c || d || a || b) = true
    · take_pos
      · rw [hany]; exact hany'
      head_step
      refine congrArg Except.ok (Prod.ext rfl (Prod.ext rfl (Prod.ext rfl (Prod.ext rfl (Prod.ext rfl ?_)))))
      unfold outF
      simp only [hany', if_true, Bool.false_eq_true, if_false]
      by_cases ho : 6111 < e2
      · simp only [ho, decide_true, if_true]
        show ((((f ||| 0x20) ||| 0x20) ||| 0x28) ||| 0x20 : UInt32) = f ||| 0x28
        rw [UInt32.or_assoc, UInt32.or_assoc, UInt32.or_assoc]; rfl
      · simp only [ho, decide_false, Bool.false_eq_true, if_false]
        show (((f ||| 0x20) ||| 0x20) ||| 0x20 : UInt32) = f ||| 0x20
        rw [UInt32.or_assoc, UInt32.or_assoc]; rfl
    · take_neg
      · rw [hany]; exact hany'
      head_step
      refine congrArg Except.ok (Prod.ext rfl (Prod.ext rfl (Prod.ext rfl (Prod.ext rfl (Prod.ext rfl ?_)))))
      unfold outF
      simp only [hany', Bool.false_eq_true, if_false]
      by_cases ho : 6111 < e2
      · simp only [ho, decide_true, if_true]
      · simp only [ho, decide_false, Bool.false_eq_true, if_false, UInt32.or_zero]

/-! ## 8. The stages composed -/

theorem rne_bounds (c x : Nat) : c / 10 ^ x ≤ rne c x ∧ rne c x ≤ c / 10 ^ x + 1 := by
  unfold rne; exact ⟨Dec.le_roundInt _ _ _ _ _, Dec.roundInt_le _ _ _ _ _⟩

/-- the coefficient that stage 3 delivers is between `10^33 − 1` and `10^34` -/
theorem rnd2F_bounds (nd c1 : Nat) (E : Int) (i1 : Ind) (hnd : 34 ≤ nd) (hlo : 10 ^ (nd - 1) ≤ c1) (hhi : c1 < 10 ^ nd) :
    P33 - 1 ≤ (rnd2F nd c1 E i1).1 ∧ (rnd2F nd c1 E i1).1 ≤ P34 ∧ E ≤ (rnd2F nd c1 E i1).2.1 ∧
      (rnd2F nd c1 E i1).2.1 = E + ((nd - 34 : Nat) : Int) := by
  have e34 : P34 = 10 ^ 34 := rfl
  have e33 : P33 = 10 ^ 33 := rfl
  unfold rnd2F
  by_cases h : nd = 34
  · subst h
    simp only [if_true]
    refine ⟨by rw [e33]; omega, by rw [e34]; omega, le_refl _, by simp⟩
  · simp only [h, if_false]
    obtain ⟨x, rfl⟩ : ∃ x, nd = 34 + x := ⟨nd - 34, by omega⟩
    rw [Nat.add_sub_cancel_left]
    have hx : 1 ≤ x := by omega
    obtain ⟨b1, b2⟩ := rne_bounds c1 x
    have hp : 0 < 10 ^ x := Nat.pow_pos (by decide)
    have ha1 : P33 ≤ c1 / 10 ^ x := by
      rw [Nat.le_div_iff_mul_le hp, e33, ← Nat.pow_add]; rw [show 34 + x - 1 = 33 + x by omega] at hlo; exact hlo
    have ha2 : c1 / 10 ^ x < P34 := by
      rw [Nat.div_lt_iff_lt_mul hp, e34, ← Nat.pow_add]; exact hhi
    have hr := rne_eq c1 x hx
    refine ⟨?_, ?_, by omega, by first | rfl | trivial⟩
    · unfold combine; (repeat' split) <;> simp only [] <;> omega
    · unfold combine specInd
      generalize c1 / 10 ^ x = a at *
      generalize c1 % 10 ^ x = r at *
      generalize 10 ^ x / 2 = hf at *
      by_cases c1' : ((i1.inexGtMid || i1.midLtEven) && decide (r = hf ∧ a % 2 = 1)) = true
      · rw [if_pos c1']; simp only []; omega
      · rw [if_neg c1']
        by_cases c2' : ((i1.inexLtMid || i1.midGtEven) && decide (r = hf ∧ a % 2 = 0)) = true
        · rw [if_pos c2']
          simp only [Bool.and_eq_true, decide_eq_true_eq] at c2'
          have : rne c1 x = a := by rw [hr, if_neg (by omega), if_neg (by omega), if_pos c2'.2.2]
          simp only []
          have : P34 % 2 = 0 := by decide
          omega
        · rw [if_neg c2']; (repeat' split) <;> simp only [] <;> omega

/-- **stages 1–4 composed**: under the entry invariant the block arrives at its last stage with the coefficient and exponent
`deliver cf ef`, `(cf, ef, F) = rnd2F (ndigits c1) c1 E i1'`, `(c1, i1') = addF …` — the pure pipeline on numbers — the
indicators `F`, nothing tiny, and the status word of the trial correction -/
theorem case1112_stages (ps zs : Bool) (q3n q4n x0n : Nat) (E : Int) (q3 : Int32) (C4 : U256) (m : RoundingMode)
    (p1 : Bool) (p2 : Bool) (p3 : Bool) (p4 : Bool) (f : UInt32) (res : U128) (C3 : U128) (e3 : Int32) (e4 : Int32) (sc : Int32) (ind : Int32) (x0 : Int32) (a0 : Bool) (b0 : Bool) (c0 : Bool) (d0 : Bool) (lsb : Bool) (l1 : Bool) (l2 : Bool) (l3 : Bool) (R64 : UInt64) (P128 : U128) (R128 : U128) (P192 : U192) (R192 : U192) (R256 : U256)
    (hq3w : q3.toInt = q3n) (hq3 : 2 ≤ q3n) (hq3' : q3n ≤ 34) (hx : (e4 - e3).toInt = x0n) (hx1 : 1 ≤ x0n) (hx2 : x0n + 1 ≤ q3n)
    (hC3 : v128 C3 < 10 ^ q3n) (hq4 : 35 ≤ q4n) (hq4' : q4n ≤ 68) (hc4lo : 10 ^ (q4n - 1) ≤ v256 C4) (hc4 : v256 C4 < 10 ^ q4n)
    (hdel : q3n - x0n + 2 ≤ q4n) (hE : e4.toInt = E) (hE1 : -6175 ≤ E) (hE2 : E ≤ 6144) :
    ∃ (res' : U128) (e4' : Int32) (sc' ind' x0' : Int32) (a0' b0' c0' d0' i' lsb' : Bool) (R64' : UInt64) (P128' R128' : U128) (P192' R192' : U192) (R256' : U256) (C3' : U128) (e3' : Int32),
      case1112K q3 34 (sgnW zs) (sgnW ps) C4 m p1 p2 p3 p4 f res C3 e3 e4 sc ind x0 false false false false a0 b0 c0 d0 false lsb l1 l2 l3 false R64 P128 R128 P192 R192 R256 =
        endK q3 34 (sgnW zs) (sgnW ps) C4 m p1 p2 p3 p4 ((if m = .NearestEven then f else outF ((rnd2F (ndigits (addF (ps == zs) (decide (v256 C4 % 2 = 1)) (v256 C4) (rne (v128 C3) x0n) (specInd (v128 C3 / 10 ^ x0n) (v128 C3 % 10 ^ x0n) (10 ^ x0n / 2))).1) (addF (ps == zs) (decide (v256 C4 % 2 = 1)) (v256 C4) (rne (v128 C3) x0n) (specInd (v128 C3 / 10 ^ x0n) (v128 C3 % 10 ^ x0n) (10 ^ x0n / 2))).1 E ⟨(addF (ps == zs) (decide (v256 C4 % 2 = 1)) (v256 C4) (rne (v128 C3) x0n) (specInd (v128 C3 / 10 ^ x0n) (v128 C3 % 10 ^ x0n) (10 ^ x0n / 2))).2.midLtEven, (addF (ps == zs) (decide (v256 C4 % 2 = 1)) (v256 C4) (rne (v128 C3) x0n) (specInd (v128 C3 / 10 ^ x0n) (v128 C3 % 10 ^ x0n) (10 ^ x0n / 2))).2.midGtEven, (addF (ps == zs) (decide (v256 C4 % 2 = 1)) (v256 C4) (rne (v128 C3) x0n) (specInd (v128 C3 / 10 ^ x0n) (v128 C3 % 10 ^ x0n) (10 ^ x0n / 2))).2.inexLtMid, (addF (ps == zs) (decide (v256 C4 % 2 = 1)) (v256 C4) (rne (v128 C3) x0n) (specInd (v128 C3 / 10 ^ x0n) (v128 C3 % 10 ^ x0n) (10 ^ x0n / 2))).2.inexGtMid⟩).2.2.inexLtMid || (rnd2F (ndigits (addF (ps == zs) (decide (v256 C4 % 2 = 1)) (v256 C4) (rne (v128 C3) x0n) (specInd (v128 C3 / 10 ^ x0n) (v128 C3 % 10 ^ x0n) (10 ^ x0n / 2))).1) (addF (ps == zs) (decide (v256 C4 % 2 = 1)) (v256 C4) (rne (v128 C3) x0n) (specInd (v128 C3 / 10 ^ x0n) (v128 C3 % 10 ^ x0n) (10 ^ x0n / 2))).1 E ⟨(addF (ps == zs) (decide (v256 C4 % 2 = 1)) (v256 C4) (rne (v128 C3) x0n) (specInd (v128 C3 / 10 ^ x0n) (v128 C3 % 10 ^ x0n) (10 ^ x0n / 2))).2.midLtEven, (addF (ps == zs) (decide (v256 C4 % 2 = 1)) (v256 C4) (rne (v128 C3) x0n) (specInd (v128 C3 / 10 ^ x0n) (v128 C3 % 10 ^ x0n) (10 ^ x0n / 2))).2.midGtEven, (addF (ps == zs) (decide (v256 C4 % 2 = 1)) (v256 C4) (rne (v128 C3) x0n) (specInd (v128 C3 / 10 ^ x0n) (v128 C3 % 10 ^ x0n) (10 ^ x0n / 2))).2.inexLtMid, (addF (ps == zs) (decide (v256 C4 % 2 = 1)) (v256 C4) (rne (v128 C3) x0n) (specInd (v128 C3 / 10 ^ x0n) (v128 C3 % 10 ^ x0n) (10 ^ x0n / 2))).2.inexGtMid⟩).2.2.inexGtMid || (rnd2F (ndigits (addF (ps == zs) (decide (v256 C4 % 2 = 1)) (v256 C4) (rne (v128 C3) x0n) (specInd (v128 C3 / 10 ^ x0n) (v128 C3 % 10 ^ x0n) (10 ^ x0n / 2))).1) (addF (ps == zs) (decide (v256 C4 % 2 = 1)) (v256 C4) (rne (v128 C3) x0n) (specInd (v128 C3 / 10 ^ x0n) (v128 C3 % 10 ^ x0n) (10 ^ x0n / 2))).1 E ⟨(addF (ps == zs) (decide (v256 C4 % 2 = 1)) (v256 C4) (rne (v128 C3) x0n) (specInd (v128 C3 / 10 ^ x0n) (v128 C3 % 10 ^ x0n) (10 ^ x0n / 2))).2.midLtEven, (addF (ps == zs) (decide (v256 C4 % 2 = 1)) (v256 C4) (rne (v128 C3) x0n) (specInd (v128 C3 / 10 ^ x0n) (v128 C3 % 10 ^ x0n) (10 ^ x0n / 2))).2.midGtEven, (addF (ps == zs) (decide (v256 C4 % 2 = 1)) (v256 C4) (rne (v128 C3) x0n) (specInd (v128 C3 / 10 ^ x0n) (v128 C3 % 10 ^ x0n) (10 ^ x0n / 2))).2.inexLtMid, (addF (ps == zs) (decide (v256 C4 % 2 = 1)) (v256 C4) (rne (v128 C3) x0n) (specInd (v128 C3 / 10 ^ x0n) (v128 C3 % 10 ^ x0n) (10 ^ x0n / 2))).2.inexGtMid⟩).2.2.midLtEven || (rnd2F (ndigits (addF (ps == zs) (decide (v256 C4 % 2 = 1)) (v256 C4) (rne (v128 C3) x0n) (specInd (v128 C3 / 10 ^ x0n) (v128 C3 % 10 ^ x0n) (10 ^ x0n / 2))).1) (addF (ps == zs) (decide (v256 C4 % 2 = 1)) (v256 C4) (rne (v128 C3) x0n) (specInd (v128 C3 / 10 ^ x0n) (v128 C3 % 10 ^ x0n) (10 ^ x0n / 2))).1 E ⟨(addF (ps == zs) (decide (v256 C4 % 2 = 1)) (v256 C4) (rne (v128 C3) x0n) (specInd (v128 C3 / 10 ^ x0n) (v128 C3 % 10 ^ x0n) (10 ^ x0n / 2))).2.midLtEven, (addF (ps == zs) (decide (v256 C4 % 2 = 1)) (v256 C4) (rne (v128 C3) x0n) (specInd (v128 C3 / 10 ^ x0n) (v128 C3 % 10 ^ x0n) (10 ^ x0n / 2))).2.midGtEven, (addF (ps == zs) (decide (v256 C4 % 2 = 1)) (v256 C4) (rne (v128 C3) x0n) (specInd (v128 C3 / 10 ^ x0n) (v128 C3 % 10 ^ x0n) (10 ^ x0n / 2))).2.inexLtMid, (addF (ps == zs) (decide (v256 C4 % 2 = 1)) (v256 C4) (rne (v128 C3) x0n) (specInd (v128 C3 / 10 ^ x0n) (v128 C3 % 10 ^ x0n) (10 ^ x0n / 2))).2.inexGtMid⟩).2.2.midGtEven) false false f)) res' C3' e3' e4' sc' ind' x0' ((rnd2F (ndigits (addF (ps == zs) (decide (v256 C4 % 2 = 1)) (v256 C4) (rne (v128 C3) x0n) (specInd (v128 C3 / 10 ^ x0n) (v128 C3 % 10 ^ x0n) (10 ^ x0n / 2))).1) (addF (ps == zs) (decide (v256 C4 % 2 = 1)) (v256 C4) (rne (v128 C3) x0n) (specInd (v128 C3 / 10 ^ x0n) (v128 C3 % 10 ^ x0n) (10 ^ x0n / 2))).1 E ⟨(addF (ps == zs) (decide (v256 C4 % 2 = 1)) (v256 C4) (rne (v128 C3) x0n) (specInd (v128 C3 / 10 ^ x0n) (v128 C3 % 10 ^ x0n) (10 ^ x0n / 2))).2.midLtEven, (addF (ps == zs) (decide (v256 C4 % 2 = 1)) (v256 C4) (rne (v128 C3) x0n) (specInd (v128 C3 / 10 ^ x0n) (v128 C3 % 10 ^ x0n) (10 ^ x0n / 2))).2.midGtEven, (addF (ps == zs) (decide (v256 C4 % 2 = 1)) (v256 C4) (rne (v128 C3) x0n) (specInd (v128 C3 / 10 ^ x0n) (v128 C3 % 10 ^ x0n) (10 ^ x0n / 2))).2.inexLtMid, (addF (ps == zs) (decide (v256 C4 % 2 = 1)) (v256 C4) (rne (v128 C3) x0n) (specInd (v128 C3 / 10 ^ x0n) (v128 C3 % 10 ^ x0n) (10 ^ x0n / 2))).2.inexGtMid⟩).2.2.midLtEven) ((rnd2F (ndigits (addF (ps == zs) (decide (v256 C4 % 2 = 1)) (v256 C4) (rne (v128 C3) x0n) (specInd (v128 C3 / 10 ^ x0n) (v128 C3 % 10 ^ x0n) (10 ^ x0n / 2))).1) (addF (ps == zs) (decide (v256 C4 % 2 = 1)) (v256 C4) (rne (v128 C3) x0n) (specInd (v128 C3 / 10 ^ x0n) (v128 C3 % 10 ^ x0n) (10 ^ x0n / 2))).1 E ⟨(addF (ps == zs) (decide (v256 C4 % 2 = 1)) (v256 C4) (rne (v128 C3) x0n) (specInd (v128 C3 / 10 ^ x0n) (v128 C3 % 10 ^ x0n) (10 ^ x0n / 2))).2.midLtEven, (addF (ps == zs) (decide (v256 C4 % 2 = 1)) (v256 C4) (rne (v128 C3) x0n) (specInd (v128 C3 / 10 ^ x0n) (v128 C3 % 10 ^ x0n) (10 ^ x0n / 2))).2.midGtEven, (addF (ps == zs) (decide (v256 C4 % 2 = 1)) (v256 C4) (rne (v128 C3) x0n) (specInd (v128 C3 / 10 ^ x0n) (v128 C3 % 10 ^ x0n) (10 ^ x0n / 2))).2.inexLtMid, (addF (ps == zs) (decide (v256 C4 % 2 = 1)) (v256 C4) (rne (v128 C3) x0n) (specInd (v128 C3 / 10 ^ x0n) (v128 C3 % 10 ^ x0n) (10 ^ x0n / 2))).2.inexGtMid⟩).2.2.midGtEven) ((rnd2F (ndigits (addF (ps == zs) (decide (v256 C4 % 2 = 1)) (v256 C4) (rne (v128 C3) x0n) (specInd (v128 C3 / 10 ^ x0n) (v128 C3 % 10 ^ x0n) (10 ^ x0n / 2))).1) (addF (ps == zs) (decide (v256 C4 % 2 = 1)) (v256 C4) (rne (v128 C3) x0n) (specInd (v128 C3 / 10 ^ x0n) (v128 C3 % 10 ^ x0n) (10 ^ x0n / 2))).1 E ⟨(addF (ps == zs) (decide (v256 C4 % 2 = 1)) (v256 C4) (rne (v128 C3) x0n) (specInd (v128 C3 / 10 ^ x0n) (v128 C3 % 10 ^ x0n) (10 ^ x0n / 2))).2.midLtEven, (addF (ps == zs) (decide (v256 C4 % 2 = 1)) (v256 C4) (rne (v128 C3) x0n) (specInd (v128 C3 / 10 ^ x0n) (v128 C3 % 10 ^ x0n) (10 ^ x0n / 2))).2.midGtEven, (addF (ps == zs) (decide (v256 C4 % 2 = 1)) (v256 C4) (rne (v128 C3) x0n) (specInd (v128 C3 / 10 ^ x0n) (v128 C3 % 10 ^ x0n) (10 ^ x0n / 2))).2.inexLtMid, (addF (ps == zs) (decide (v256 C4 % 2 = 1)) (v256 C4) (rne (v128 C3) x0n) (specInd (v128 C3 / 10 ^ x0n) (v128 C3 % 10 ^ x0n) (10 ^ x0n / 2))).2.inexGtMid⟩).2.2.inexLtMid) ((rnd2F (ndigits (addF (ps == zs) (decide (v256 C4 % 2 = 1)) (v256 C4) (rne (v128 C3) x0n) (specInd (v128 C3 / 10 ^ x0n) (v128 C3 % 10 ^ x0n) (10 ^ x0n / 2))).1) (addF (ps == zs) (decide (v256 C4 % 2 = 1)) (v256 C4) (rne (v128 C3) x0n) (specInd (v128 C3 / 10 ^ x0n) (v128 C3 % 10 ^ x0n) (10 ^ x0n / 2))).1 E ⟨(addF (ps == zs) (decide (v256 C4 % 2 = 1)) (v256 C4) (rne (v128 C3) x0n) (specInd (v128 C3 / 10 ^ x0n) (v128 C3 % 10 ^ x0n) (10 ^ x0n / 2))).2.midLtEven, (addF (ps == zs) (decide (v256 C4 % 2 = 1)) (v256 C4) (rne (v128 C3) x0n) (specInd (v128 C3 / 10 ^ x0n) (v128 C3 % 10 ^ x0n) (10 ^ x0n / 2))).2.midGtEven, (addF (ps == zs) (decide (v256 C4 % 2 = 1)) (v256 C4) (rne (v128 C3) x0n) (specInd (v128 C3 / 10 ^ x0n) (v128 C3 % 10 ^ x0n) (10 ^ x0n / 2))).2.inexLtMid, (addF (ps == zs) (decide (v256 C4 % 2 = 1)) (v256 C4) (rne (v128 C3) x0n) (specInd (v128 C3 / 10 ^ x0n) (v128 C3 % 10 ^ x0n) (10 ^ x0n / 2))).2.inexGtMid⟩).2.2.inexGtMid) a0' b0' c0' d0' i' lsb' l1 l2 l3 false R64' P128' R128' P192' R192' R256' ∧
      v128 res' = (deliver (rnd2F (ndigits (addF (ps == zs) (decide (v256 C4 % 2 = 1)) (v256 C4) (rne (v128 C3) x0n)
          (specInd (v128 C3 / 10 ^ x0n) (v128 C3 % 10 ^ x0n) (10 ^ x0n / 2))).1)
          (addF (ps == zs) (decide (v256 C4 % 2 = 1)) (v256 C4) (rne (v128 C3) x0n)
          (specInd (v128 C3 / 10 ^ x0n) (v128 C3 % 10 ^ x0n) (10 ^ x0n / 2))).1 E
          (addF (ps == zs) (decide (v256 C4 % 2 = 1)) (v256 C4) (rne (v128 C3) x0n)
          (specInd (v128 C3 / 10 ^ x0n) (v128 C3 % 10 ^ x0n) (10 ^ x0n / 2))).2).1
        (rnd2F (ndigits (addF (ps == zs) (decide (v256 C4 % 2 = 1)) (v256 C4) (rne (v128 C3) x0n)
          (specInd (v128 C3 / 10 ^ x0n) (v128 C3 % 10 ^ x0n) (10 ^ x0n / 2))).1)
          (addF (ps == zs) (decide (v256 C4 % 2 = 1)) (v256 C4) (rne (v128 C3) x0n)
          (specInd (v128 C3 / 10 ^ x0n) (v128 C3 % 10 ^ x0n) (10 ^ x0n / 2))).1 E
          (addF (ps == zs) (decide (v256 C4 % 2 = 1)) (v256 C4) (rne (v128 C3) x0n)
          (specInd (v128 C3 / 10 ^ x0n) (v128 C3 % 10 ^ x0n) (10 ^ x0n / 2))).2).2.1).1 ∧
      e4'.toInt = (deliver (rnd2F (ndigits (addF (ps == zs) (decide (v256 C4 % 2 = 1)) (v256 C4) (rne (v128 C3) x0n)
          (specInd (v128 C3 / 10 ^ x0n) (v128 C3 % 10 ^ x0n) (10 ^ x0n / 2))).1)
          (addF (ps == zs) (decide (v256 C4 % 2 = 1)) (v256 C4) (rne (v128 C3) x0n)
          (specInd (v128 C3 / 10 ^ x0n) (v128 C3 % 10 ^ x0n) (10 ^ x0n / 2))).1 E
          (addF (ps == zs) (decide (v256 C4 % 2 = 1)) (v256 C4) (rne (v128 C3) x0n)
          (specInd (v128 C3 / 10 ^ x0n) (v128 C3 % 10 ^ x0n) (10 ^ x0n / 2))).2).1
        (rnd2F (ndigits (addF (ps == zs) (decide (v256 C4 % 2 = 1)) (v256 C4) (rne (v128 C3) x0n)
          (specInd (v128 C3 / 10 ^ x0n) (v128 C3 % 10 ^ x0n) (10 ^ x0n / 2))).1)
          (addF (ps == zs) (decide (v256 C4 % 2 = 1)) (v256 C4) (rne (v128 C3) x0n)
          (specInd (v128 C3 / 10 ^ x0n) (v128 C3 % 10 ^ x0n) (10 ^ x0n / 2))).1 E
          (addF (ps == zs) (decide (v256 C4 % 2 = 1)) (v256 C4) (rne (v128 C3) x0n)
          (specInd (v128 C3 / 10 ^ x0n) (v128 C3 % 10 ^ x0n) (10 ^ x0n / 2))).2).2.1).2 ∧
      (rnd2F (ndigits (addF (ps == zs) (decide (v256 C4 % 2 = 1)) (v256 C4) (rne (v128 C3) x0n) (specInd (v128 C3 / 10 ^ x0n) (v128 C3 % 10 ^ x0n) (10 ^ x0n / 2))).1) (addF (ps == zs) (decide (v256 C4 % 2 = 1)) (v256 C4) (rne (v128 C3) x0n) (specInd (v128 C3 / 10 ^ x0n) (v128 C3 % 10 ^ x0n) (10 ^ x0n / 2))).1 E ⟨(addF (ps == zs) (decide (v256 C4 % 2 = 1)) (v256 C4) (rne (v128 C3) x0n) (specInd (v128 C3 / 10 ^ x0n) (v128 C3 % 10 ^ x0n) (10 ^ x0n / 2))).2.midLtEven, (addF (ps == zs) (decide (v256 C4 % 2 = 1)) (v256 C4) (rne (v128 C3) x0n) (specInd (v128 C3 / 10 ^ x0n) (v128 C3 % 10 ^ x0n) (10 ^ x0n / 2))).2.midGtEven, (addF (ps == zs) (decide (v256 C4 % 2 = 1)) (v256 C4) (rne (v128 C3) x0n) (specInd (v128 C3 / 10 ^ x0n) (v128 C3 % 10 ^ x0n) (10 ^ x0n / 2))).2.inexLtMid, (addF (ps == zs) (decide (v256 C4 % 2 = 1)) (v256 C4) (rne (v128 C3) x0n) (specInd (v128 C3 / 10 ^ x0n) (v128 C3 % 10 ^ x0n) (10 ^ x0n / 2))).2.inexGtMid⟩).1 ≤ P34 ∧ E ≤ (rnd2F (ndigits (addF (ps == zs) (decide (v256 C4 % 2 = 1)) (v256 C4) (rne (v128 C3) x0n) (specInd (v128 C3 / 10 ^ x0n) (v128 C3 % 10 ^ x0n) (10 ^ x0n / 2))).1) (addF (ps == zs) (decide (v256 C4 % 2 = 1)) (v256 C4) (rne (v128 C3) x0n) (specInd (v128 C3 / 10 ^ x0n) (v128 C3 % 10 ^ x0n) (10 ^ x0n / 2))).1 E ⟨(addF (ps == zs) (decide (v256 C4 % 2 = 1)) (v256 C4) (rne (v128 C3) x0n) (specInd (v128 C3 / 10 ^ x0n) (v128 C3 % 10 ^ x0n) (10 ^ x0n / 2))).2.midLtEven, (addF (ps == zs) (decide (v256 C4 % 2 = 1)) (v256 C4) (rne (v128 C3) x0n) (specInd (v128 C3 / 10 ^ x0n) (v128 C3 % 10 ^ x0n) (10 ^ x0n / 2))).2.midGtEven, (addF (ps == zs) (decide (v256 C4 % 2 = 1)) (v256 C4) (rne (v128 C3) x0n) (specInd (v128 C3 / 10 ^ x0n) (v128 C3 % 10 ^ x0n) (10 ^ x0n / 2))).2.inexLtMid, (addF (ps == zs) (decide (v256 C4 % 2 = 1)) (v256 C4) (rne (v128 C3) x0n) (specInd (v128 C3 / 10 ^ x0n) (v128 C3 % 10 ^ x0n) (10 ^ x0n / 2))).2.inexGtMid⟩).2.1 ∧ (rnd2F (ndigits (addF (ps == zs) (decide (v256 C4 % 2 = 1)) (v256 C4) (rne (v128 C3) x0n) (specInd (v128 C3 / 10 ^ x0n) (v128 C3 % 10 ^ x0n) (10 ^ x0n / 2))).1) (addF (ps == zs) (decide (v256 C4 % 2 = 1)) (v256 C4) (rne (v128 C3) x0n) (specInd (v128 C3 / 10 ^ x0n) (v128 C3 % 10 ^ x0n) (10 ^ x0n / 2))).1 E ⟨(addF (ps == zs) (decide (v256 C4 % 2 = 1)) (v256 C4) (rne (v128 C3) x0n) (specInd (v128 C3 / 10 ^ x0n) (v128 C3 % 10 ^ x0n) (10 ^ x0n / 2))).2.midLtEven, (addF (ps == zs) (decide (v256 C4 % 2 = 1)) (v256 C4) (rne (v128 C3) x0n) (specInd (v128 C3 / 10 ^ x0n) (v128 C3 % 10 ^ x0n) (10 ^ x0n / 2))).2.midGtEven, (addF (ps == zs) (decide (v256 C4 % 2 = 1)) (v256 C4) (rne (v128 C3) x0n) (specInd (v128 C3 / 10 ^ x0n) (v128 C3 % 10 ^ x0n) (10 ^ x0n / 2))).2.inexLtMid, (addF (ps == zs) (decide (v256 C4 % 2 = 1)) (v256 C4) (rne (v128 C3) x0n) (specInd (v128 C3 / 10 ^ x0n) (v128 C3 % 10 ^ x0n) (10 ^ x0n / 2))).2.inexGtMid⟩).2.1 ≤ E + 35 := by
  have e34 : P34 = 10 ^ 34 := rfl
  have e33 : P33 = 10 ^ 33 := rfl
  rw [case1112K_eq]
  -- stage 1
  obtain ⟨C3', incr, lt, gt, ilt, igt, R64', P128', R128', h1, v1, f1⟩ := rnd1K_spec q3n x0n q3 34 (sgnW zs) (sgnW ps) C4 m
    p1 p2 p3 p4 f res C3 e3 e4 sc ind x0 a0 b0 c0 d0 lsb l1 l2 l3 false R64 P128 R128 P192 R192 R256 _ hq3w hq3 hq3' hx hx1 hx2 hC3
  rw [h1]
  -- bounds on the rounded addend
  obtain ⟨_, rb⟩ := rne_bounds (v128 C3) x0n
  have hdiv : v128 C3 / 10 ^ x0n < 10 ^ (q3n - x0n) := by
    rw [Nat.div_lt_iff_lt_mul (Nat.pow_pos (by decide)), ← Nat.pow_add, show q3n - x0n + x0n = q3n by omega]; exact hC3
  have hr3 : rne (v128 C3) x0n ≤ 10 ^ (q4n - 2) :=
    le_trans (by omega) (Nat.pow_le_pow_right (by decide) (show q3n - x0n ≤ q4n - 2 by omega))
  have hp1 : (10:Nat) ^ (q4n - 1) = 10 * 10 ^ (q4n - 2) := by rw [← Nat.pow_succ']; congr 1; omega
  have hp2 : (10:Nat) ^ 33 ≤ 10 ^ (q4n - 2) := Nat.pow_le_pow_right (by decide) (by omega)
  have hp3 : (10:Nat) ^ q4n ≤ 10 ^ 68 := Nat.pow_le_pow_right (by decide) hq4'
  have hp4 : (10:Nat) ^ (q4n - 2) ≤ 10 ^ 66 := Nat.pow_le_pow_right (by decide) (by omega)
  -- stage 2
  obtain ⟨R256', lsb', h2, v2⟩ := addK_spec ps zs q3 34 C4 m p1 p2 p3 p4 f res C3' e3 e4 sc ind (e4 - e3) lt gt ilt igt a0 b0 c0 d0 incr lsb l1 l2 l3 false R64' P128' R128' P192 R192 R256 _
    (by rw [v1]; omega) (by omega) (by rw [v1]; exact le_trans (by omega) (Nat.pow_le_pow_right (by decide) (show q3n - x0n ≤ 34 by omega)))
  rw [h2]
  rw [v1, f1] at v2
  obtain ⟨⟨_, _⟩, _, _, hs1, hs2⟩ := add_math (v128 C3) (v256 C4) x0n (ps == zs) hx1 (by omega)
  generalize hA : addF (ps == zs) (decide (v256 C4 % 2 = 1)) (v256 C4) (rne (v128 C3) x0n)
    (specInd (v128 C3 / 10 ^ x0n) (v128 C3 % 10 ^ x0n) (10 ^ x0n / 2)) = A at *
  rw [v1, f1, hA]
  have hc1lo : 10 ^ 33 ≤ A.1 := by
    cases hsame : (ps == zs)
    · have := hs2 hsame; omega
    · have := hs1 hsame; omega
  have hc1hi : A.1 < 10 ^ 69 := by
    have : (10:Nat) ^ 69 = 10 * 10 ^ 68 := by rw [Nat.pow_succ]; omega
    cases hsame : (ps == zs)
    · have := hs2 hsame; omega
    · have := hs1 hsame; omega
  have hpos : 0 < A.1 := lt_of_lt_of_le (Nat.pow_pos (by decide)) hc1lo
  obtain ⟨dl, dh⟩ := ndigits_spec hpos
  have hnd1 : 34 ≤ ndigits A.1 := by
    have := (Dec.C02GenFmaLow.pow_le_iff_lt_ndigits A.1 33).1 hc1lo; omega
  have hnd2 : ndigits A.1 ≤ 69 := (ndigits_le_iff hpos).2 hc1hi
  -- stage 3
  obtain ⟨res', e4', ind', x0', a0', b0', c0', d0', i', P128u, R128u, P192', R192', R256u, h3, v3, w3⟩ :=
    rnd2K_spec (ndigits A.1) E q3 (sgnW zs) (sgnW ps) C4 m p1 p2 p3 p4 f res C3' (e3 + (e4 - e3)) e4 sc ind (e4 - e3) A.2.midLtEven A.2.midGtEven A.2.inexLtMid A.2.inexGtMid a0 b0 c0 d0 incr lsb' l1 l2 l3 false R64' P128' R128' P192 R192 R256' _
      hnd1 hnd2 (by rw [v2]; exact dl) (by rw [v2]; exact dh) hE (by omega) (by omega)
  rw [v2] at h3 v3 w3
  rw [h3]
  obtain ⟨g1, g2, g3, g4⟩ := rnd2F_bounds (ndigits A.1) A.1 E ⟨A.2.midLtEven, A.2.midGtEven, A.2.inexLtMid, A.2.inexGtMid⟩ hnd1 dl dh
  have g5 : (rnd2F (ndigits A.1) A.1 E ⟨A.2.midLtEven, A.2.midGtEven, A.2.inexLtMid, A.2.inexGtMid⟩).2.1 ≤ E + 35 := by rw [g4]; omega
  generalize rnd2F (ndigits A.1) A.1 E ⟨A.2.midLtEven, A.2.midGtEven, A.2.inexLtMid, A.2.inexGtMid⟩ = F at *
  have hd1 : 0 < (deliver F.1 F.2.1).1 ∧ (deliver F.1 F.2.1).1 < P34 := by
    have : P33 = 1000000000000000000000000000000000 := rfl
    have : P34 = 10000000000000000000000000000000000 := rfl
    unfold deliver; split <;> simp only [] <;> omega
  have hd2 := Dec.C02GenFmaSwap.deliver_snd F.1 F.2.1
  -- stage 4
  clear hp1 hp2 hp3 hp4 hr3 hc1lo hc1hi dl dh hdiv rb hC3 hc4lo hc4 e34 e33 g1
  obtain ⟨sc', P128t, h4⟩ := tinyK_spec ps (deliver F.1 F.2.1).2 q3 34 (sgnW zs) C4 m _ _ _ _ _ _ _ _ _ _ _ _ _ _ _ _ _ _ _ _ _ _ _ _ _ _ _ _ _ _ _ _ _
    w3 (by omega) (by omega) (by rw [v3]; exact hd1.1) (by rw [v3]; exact hd1.2)
  rw [h4]
  exact ⟨res', e4', _, _, _, _, _, _, _, _, _, _, _, _, _, _, _, _, _, rfl, v3, w3, g2, g3, g5⟩

/-! ## 9. The block, up to the arithmetic of the two roundings -/

/-- **Cases (11), (12) — `…_partial`.**  PROVED: under the entry invariant (`C3`: `q3` digits, `2 ≤ q3 ≤ 34`; `C4`: `q4` digits,
`35 ≤ q4 ≤ 68`; `x0 = e4 − e3` with `1 ≤ x0 ≤ q3 − 1` — the addend reaches below the last digit of the product —;
`q3 − x0 + 2 ≤ q4` — it starts at least two places below its first digit: `delta ≥ 2`, which the case tests imply —;
`−6175 ≤ e4 ≤ 6144`; indicators, `incr_exp`, `is_tiny` false) the block computes on numbers the pipeline
`addF` (sum of `C4` and the rounded `C3`) → `rnd2F` (rounding to 34 digits with the repair `combine`) → `deliver`, and IF the
coefficient `cf`, exponent `ef` and indicators `F` so computed are a nearest-even rounding of some `V/D` with truthful
indicators (the hypotheses `hne` … `hlow`), THEN it returns the encoding of `V/D` rounded ONCE in the mode asked for,
normalised to 34 digits, or the mode's overflow result, with inexact (iff an indicator is set) and overflow or-ed into `f`.
MISSING for `= fmaD`: (i) the hypotheses `hne` … `hlow` for `V = C4·10^x0 ± C3`, `D = 10^(x0 + nd − 34)`: stage 2 is `add_math`
(proved here), stage 3 is `two_step` of C02GenFmaLow applied to it, EXCEPT the sub-case `cf = 10^33` lying above the exact value
(sum `= 10^(nd−1)` exactly after a first rounding upward), which has to be viewed one decade lower (`cf = 10^34` at `ef − 1`;
there a tie is reported as `is_inexact_gt_midpoint` — harmless, the correction table has equal columns for the two); (ii) the
step from "rounded once and normalised" to `Dec.finish` (`finish_rounded` of C02GenFmaSwap for inexact results; the exact
clause of `FinishSpecStrict` for exact ones, exponent `ef` being the least possible because `cf ≥ 10^33`). -/
theorem case1112_partial (ps zs : Bool) (q3n q4n x0n : Nat) (E : Int) (q3 : Int32) (C4 : U256) (m : RoundingMode)
    (p1 : Bool) (p2 : Bool) (p3 : Bool) (p4 : Bool) (f : UInt32) (res : U128) (C3 : U128) (e3 : Int32) (e4 : Int32) (sc : Int32) (ind : Int32) (x0 : Int32) (a0 : Bool) (b0 : Bool) (c0 : Bool) (d0 : Bool) (lsb : Bool) (l1 : Bool) (l2 : Bool) (l3 : Bool) (R64 : UInt64) (P128 : U128) (R128 : U128) (P192 : U192) (R192 : U192) (R256 : U256)
    (hq3w : q3.toInt = q3n) (hq3 : 2 ≤ q3n) (hq3' : q3n ≤ 34) (hx : (e4 - e3).toInt = x0n) (hx1 : 1 ≤ x0n) (hx2 : x0n + 1 ≤ q3n)
    (hC3 : v128 C3 < 10 ^ q3n) (hq4 : 35 ≤ q4n) (hq4' : q4n ≤ 68) (hc4lo : 10 ^ (q4n - 1) ≤ v256 C4) (hc4 : v256 C4 < 10 ^ q4n)
    (hdel : q3n - x0n + 2 ≤ q4n) (hE : e4.toInt = E) (hE1 : -6175 ≤ E) (hE2 : E ≤ 6144)
    (V D cf : Nat) (ef : Int) (hcfF : (rnd2F (ndigits (addF (ps == zs) (decide (v256 C4 % 2 = 1)) (v256 C4) (rne (v128 C3) x0n) (specInd (v128 C3 / 10 ^ x0n) (v128 C3 % 10 ^ x0n) (10 ^ x0n / 2))).1) (addF (ps == zs) (decide (v256 C4 % 2 = 1)) (v256 C4) (rne (v128 C3) x0n) (specInd (v128 C3 / 10 ^ x0n) (v128 C3 % 10 ^ x0n) (10 ^ x0n / 2))).1 E ⟨(addF (ps == zs) (decide (v256 C4 % 2 = 1)) (v256 C4) (rne (v128 C3) x0n) (specInd (v128 C3 / 10 ^ x0n) (v128 C3 % 10 ^ x0n) (10 ^ x0n / 2))).2.midLtEven, (addF (ps == zs) (decide (v256 C4 % 2 = 1)) (v256 C4) (rne (v128 C3) x0n) (specInd (v128 C3 / 10 ^ x0n) (v128 C3 % 10 ^ x0n) (10 ^ x0n / 2))).2.midGtEven, (addF (ps == zs) (decide (v256 C4 % 2 = 1)) (v256 C4) (rne (v128 C3) x0n) (specInd (v128 C3 / 10 ^ x0n) (v128 C3 % 10 ^ x0n) (10 ^ x0n / 2))).2.inexLtMid, (addF (ps == zs) (decide (v256 C4 % 2 = 1)) (v256 C4) (rne (v128 C3) x0n) (specInd (v128 C3 / 10 ^ x0n) (v128 C3 % 10 ^ x0n) (10 ^ x0n / 2))).2.inexGtMid⟩).1 = cf) (hefF : (rnd2F (ndigits (addF (ps == zs) (decide (v256 C4 % 2 = 1)) (v256 C4) (rne (v128 C3) x0n) (specInd (v128 C3 / 10 ^ x0n) (v128 C3 % 10 ^ x0n) (10 ^ x0n / 2))).1) (addF (ps == zs) (decide (v256 C4 % 2 = 1)) (v256 C4) (rne (v128 C3) x0n) (specInd (v128 C3 / 10 ^ x0n) (v128 C3 % 10 ^ x0n) (10 ^ x0n / 2))).1 E ⟨(addF (ps == zs) (decide (v256 C4 % 2 = 1)) (v256 C4) (rne (v128 C3) x0n) (specInd (v128 C3 / 10 ^ x0n) (v128 C3 % 10 ^ x0n) (10 ^ x0n / 2))).2.midLtEven, (addF (ps == zs) (decide (v256 C4 % 2 = 1)) (v256 C4) (rne (v128 C3) x0n) (specInd (v128 C3 / 10 ^ x0n) (v128 C3 % 10 ^ x0n) (10 ^ x0n / 2))).2.midGtEven, (addF (ps == zs) (decide (v256 C4 % 2 = 1)) (v256 C4) (rne (v128 C3) x0n) (specInd (v128 C3 / 10 ^ x0n) (v128 C3 % 10 ^ x0n) (10 ^ x0n / 2))).2.inexLtMid, (addF (ps == zs) (decide (v256 C4 % 2 = 1)) (v256 C4) (rne (v128 C3) x0n) (specInd (v128 C3 / 10 ^ x0n) (v128 C3 % 10 ^ x0n) (10 ^ x0n / 2))).2.inexGtMid⟩).2.1 = ef) (hD : 0 < D)
    (hne : RoundedInt .rne ps V D cf)
    (hL : (rnd2F (ndigits (addF (ps == zs) (decide (v256 C4 % 2 = 1)) (v256 C4) (rne (v128 C3) x0n) (specInd (v128 C3 / 10 ^ x0n) (v128 C3 % 10 ^ x0n) (10 ^ x0n / 2))).1) (addF (ps == zs) (decide (v256 C4 % 2 = 1)) (v256 C4) (rne (v128 C3) x0n) (specInd (v128 C3 / 10 ^ x0n) (v128 C3 % 10 ^ x0n) (10 ^ x0n / 2))).1 E ⟨(addF (ps == zs) (decide (v256 C4 % 2 = 1)) (v256 C4) (rne (v128 C3) x0n) (specInd (v128 C3 / 10 ^ x0n) (v128 C3 % 10 ^ x0n) (10 ^ x0n / 2))).2.midLtEven, (addF (ps == zs) (decide (v256 C4 % 2 = 1)) (v256 C4) (rne (v128 C3) x0n) (specInd (v128 C3 / 10 ^ x0n) (v128 C3 % 10 ^ x0n) (10 ^ x0n / 2))).2.midGtEven, (addF (ps == zs) (decide (v256 C4 % 2 = 1)) (v256 C4) (rne (v128 C3) x0n) (specInd (v128 C3 / 10 ^ x0n) (v128 C3 % 10 ^ x0n) (10 ^ x0n / 2))).2.inexLtMid, (addF (ps == zs) (decide (v256 C4 % 2 = 1)) (v256 C4) (rne (v128 C3) x0n) (specInd (v128 C3 / 10 ^ x0n) (v128 C3 % 10 ^ x0n) (10 ^ x0n / 2))).2.inexGtMid⟩).2.2.inexLtMid = decide (cf * D < V ∧ 2 * V < 2 * (cf * D) + D))
    (hG : (rnd2F (ndigits (addF (ps == zs) (decide (v256 C4 % 2 = 1)) (v256 C4) (rne (v128 C3) x0n) (specInd (v128 C3 / 10 ^ x0n) (v128 C3 % 10 ^ x0n) (10 ^ x0n / 2))).1) (addF (ps == zs) (decide (v256 C4 % 2 = 1)) (v256 C4) (rne (v128 C3) x0n) (specInd (v128 C3 / 10 ^ x0n) (v128 C3 % 10 ^ x0n) (10 ^ x0n / 2))).1 E ⟨(addF (ps == zs) (decide (v256 C4 % 2 = 1)) (v256 C4) (rne (v128 C3) x0n) (specInd (v128 C3 / 10 ^ x0n) (v128 C3 % 10 ^ x0n) (10 ^ x0n / 2))).2.midLtEven, (addF (ps == zs) (decide (v256 C4 % 2 = 1)) (v256 C4) (rne (v128 C3) x0n) (specInd (v128 C3 / 10 ^ x0n) (v128 C3 % 10 ^ x0n) (10 ^ x0n / 2))).2.midGtEven, (addF (ps == zs) (decide (v256 C4 % 2 = 1)) (v256 C4) (rne (v128 C3) x0n) (specInd (v128 C3 / 10 ^ x0n) (v128 C3 % 10 ^ x0n) (10 ^ x0n / 2))).2.inexLtMid, (addF (ps == zs) (decide (v256 C4 % 2 = 1)) (v256 C4) (rne (v128 C3) x0n) (specInd (v128 C3 / 10 ^ x0n) (v128 C3 % 10 ^ x0n) (10 ^ x0n / 2))).2.inexGtMid⟩).2.2.inexGtMid = decide (V < cf * D ∧ 2 * (cf * D) < 2 * V + D))
    (hML : (rnd2F (ndigits (addF (ps == zs) (decide (v256 C4 % 2 = 1)) (v256 C4) (rne (v128 C3) x0n) (specInd (v128 C3 / 10 ^ x0n) (v128 C3 % 10 ^ x0n) (10 ^ x0n / 2))).1) (addF (ps == zs) (decide (v256 C4 % 2 = 1)) (v256 C4) (rne (v128 C3) x0n) (specInd (v128 C3 / 10 ^ x0n) (v128 C3 % 10 ^ x0n) (10 ^ x0n / 2))).1 E ⟨(addF (ps == zs) (decide (v256 C4 % 2 = 1)) (v256 C4) (rne (v128 C3) x0n) (specInd (v128 C3 / 10 ^ x0n) (v128 C3 % 10 ^ x0n) (10 ^ x0n / 2))).2.midLtEven, (addF (ps == zs) (decide (v256 C4 % 2 = 1)) (v256 C4) (rne (v128 C3) x0n) (specInd (v128 C3 / 10 ^ x0n) (v128 C3 % 10 ^ x0n) (10 ^ x0n / 2))).2.midGtEven, (addF (ps == zs) (decide (v256 C4 % 2 = 1)) (v256 C4) (rne (v128 C3) x0n) (specInd (v128 C3 / 10 ^ x0n) (v128 C3 % 10 ^ x0n) (10 ^ x0n / 2))).2.inexLtMid, (addF (ps == zs) (decide (v256 C4 % 2 = 1)) (v256 C4) (rne (v128 C3) x0n) (specInd (v128 C3 / 10 ^ x0n) (v128 C3 % 10 ^ x0n) (10 ^ x0n / 2))).2.inexGtMid⟩).2.2.midLtEven = decide (2 * V + D = 2 * (cf * D)))
    (hMG : (rnd2F (ndigits (addF (ps == zs) (decide (v256 C4 % 2 = 1)) (v256 C4) (rne (v128 C3) x0n) (specInd (v128 C3 / 10 ^ x0n) (v128 C3 % 10 ^ x0n) (10 ^ x0n / 2))).1) (addF (ps == zs) (decide (v256 C4 % 2 = 1)) (v256 C4) (rne (v128 C3) x0n) (specInd (v128 C3 / 10 ^ x0n) (v128 C3 % 10 ^ x0n) (10 ^ x0n / 2))).1 E ⟨(addF (ps == zs) (decide (v256 C4 % 2 = 1)) (v256 C4) (rne (v128 C3) x0n) (specInd (v128 C3 / 10 ^ x0n) (v128 C3 % 10 ^ x0n) (10 ^ x0n / 2))).2.midLtEven, (addF (ps == zs) (decide (v256 C4 % 2 = 1)) (v256 C4) (rne (v128 C3) x0n) (specInd (v128 C3 / 10 ^ x0n) (v128 C3 % 10 ^ x0n) (10 ^ x0n / 2))).2.midGtEven, (addF (ps == zs) (decide (v256 C4 % 2 = 1)) (v256 C4) (rne (v128 C3) x0n) (specInd (v128 C3 / 10 ^ x0n) (v128 C3 % 10 ^ x0n) (10 ^ x0n / 2))).2.inexLtMid, (addF (ps == zs) (decide (v256 C4 % 2 = 1)) (v256 C4) (rne (v128 C3) x0n) (specInd (v128 C3 / 10 ^ x0n) (v128 C3 % 10 ^ x0n) (10 ^ x0n / 2))).2.inexGtMid⟩).2.2.midGtEven = decide (2 * V = 2 * (cf * D) + D))
    (hcarry : cf = P34 → V ≤ cf * D) (hlow : V < cf * D → cf ≠ P33) :
    ∃ (c2 : Nat) (e2 : Int) (lt gt ilt igt : Bool),
      case1112K q3 34 (sgnW zs) (sgnW ps) C4 m p1 p2 p3 p4 f res C3 e3 e4 sc ind x0 false false false false a0 b0 c0 d0 false lsb l1 l2 l3 false R64 P128 R128 P192 R192 R256 =
        .ok (ofBits (encode (if 6111 < e2 then overflowResult (modeOf m) ps else .fin ps c2 e2)), lt, gt, ilt, igt,
             f ||| (if 6111 < e2 then 0x28 else if (ilt || igt || lt || gt) = true then 0x20 else 0)) ∧
      RoundedInt (modeOf m) ps V D (c2 * 10 ^ (e2 - ef).toNat) ∧
      ef ≤ e2 ∧ e2 ≤ ef + 1 ∧ c2 < P34 ∧ (e2 = ef + 1 → c2 = P33) := by
  obtain ⟨res', e4', sc', ind', x0', a0', b0', c0', d0', i', lsb', R64', P128', R128', P192', R192', R256', C3', e3', hst, v3, w3, hb1, hb2, hb3⟩ :=
    case1112_stages ps zs q3n q4n x0n E q3 C4 m p1 p2 p3 p4 f res C3 e3 e4 sc ind x0 a0 b0 c0 d0 lsb l1 l2 l3 R64 P128 R128 P192 R192 R256 hq3w hq3 hq3' hx hx1 hx2 hC3 hq4 hq4' hc4lo hc4 hdel hE hE1 hE2
  rw [hst]
  generalize (rnd2F (ndigits (addF (ps == zs) (decide (v256 C4 % 2 = 1)) (v256 C4) (rne (v128 C3) x0n) (specInd (v128 C3 / 10 ^ x0n) (v128 C3 % 10 ^ x0n) (10 ^ x0n / 2))).1) (addF (ps == zs) (decide (v256 C4 % 2 = 1)) (v256 C4) (rne (v128 C3) x0n) (specInd (v128 C3 / 10 ^ x0n) (v128 C3 % 10 ^ x0n) (10 ^ x0n / 2))).1 E ⟨(addF (ps == zs) (decide (v256 C4 % 2 = 1)) (v256 C4) (rne (v128 C3) x0n) (specInd (v128 C3 / 10 ^ x0n) (v128 C3 % 10 ^ x0n) (10 ^ x0n / 2))).2.midLtEven, (addF (ps == zs) (decide (v256 C4 % 2 = 1)) (v256 C4) (rne (v128 C3) x0n) (specInd (v128 C3 / 10 ^ x0n) (v128 C3 % 10 ^ x0n) (10 ^ x0n / 2))).2.midGtEven, (addF (ps == zs) (decide (v256 C4 % 2 = 1)) (v256 C4) (rne (v128 C3) x0n) (specInd (v128 C3 / 10 ^ x0n) (v128 C3 % 10 ^ x0n) (10 ^ x0n / 2))).2.inexLtMid, (addF (ps == zs) (decide (v256 C4 % 2 = 1)) (v256 C4) (rne (v128 C3) x0n) (specInd (v128 C3 / 10 ^ x0n) (v128 C3 % 10 ^ x0n) (10 ^ x0n / 2))).2.inexGtMid⟩) = F at *
  subst hcfF hefF
  obtain ⟨c2, e2, h1, h2, h3, h4, h5, h6⟩ := endK_spec ps q3 (sgnW zs) C4 m f p1 p2 p3 p4 res' C3' e3' e4' sc' ind' x0' F.2.2.midLtEven F.2.2.midGtEven F.2.2.inexLtMid F.2.2.inexGtMid a0' b0' c0' d0' i' lsb' l1 l2 l3 R64' P128' R128' P192' R192' R256'
    V D F.1 F.2.1 hD hne hL hG hML hMG hb1 hcarry hlow (by omega) (by omega) v3 w3
  exact ⟨c2, e2, _, _, _, _, h1, h2, h3, h4, h5, h6⟩

/-! ### examples: inputs of Cases (11)/(12) through the whole routine, against the model -/

open Dec.C02GenCorrection (ofBits) in
-- product (10^17+3)(10^17+7) (35 digits, e4 = 0), addend ±123456789·10^−5 (delta = 31, Case (12), x0 = 5)
example : (bid128_fma (ofBits (encode (.fin false (10^17+3) 0))) (ofBits (encode (.fin false (10^17+7) 0)))
      (ofBits (encode (.fin false 123456789 (-5)))) .NearestEven 0).toOption =
    some (ofBits (encode (fmaD .rne false (.fin false (10^17+3) 0) (.fin false (10^17+7) 0) (.fin false 123456789 (-5))).1), 0x20) := by
  decide +kernel
open Dec.C02GenCorrection (ofBits) in
example : (bid128_fma (ofBits (encode (.fin false (10^17+3) 0))) (ofBits (encode (.fin false (10^17+7) 0)))
      (ofBits (encode (.fin true 123456789 (-5)))) .TowardZero 0).toOption =
    some (ofBits (encode (fmaD .rtz false (.fin false (10^17+3) 0) (.fin false (10^17+7) 0) (.fin true 123456789 (-5))).1), 0x20) := by
  decide +kernel
open Dec.C02GenCorrection (ofBits) in
-- a tie of the FIRST rounding: 10^34 − 1.5: nearest-even 10^34 − 2, upward 10^34 − 1
example : (bid128_fma (ofBits (encode (.fin false (10^17) 0))) (ofBits (encode (.fin false (10^17) 0)))
      (ofBits (encode (.fin true 15 (-1)))) .NearestEven 0).toOption = some (ofBits (encode (.fin false (10^34 - 2) 0)), 0x20) ∧
    (bid128_fma (ofBits (encode (.fin false (10^17) 0))) (ofBits (encode (.fin false (10^17) 0)))
      (ofBits (encode (.fin true 15 (-1)))) .Upward 0).toOption = some (ofBits (encode (.fin false (10^34 - 1) 0)), 0x20) ∧
    fmaD .rne false (.fin false (10^17) 0) (.fin false (10^17) 0) (.fin true 15 (-1)) = (.fin false (10^34 - 2) 0, 0x20) := by
  refine ⟨by decide +kernel, by decide +kernel, by decide +kernel⟩

end Dec.C02GenFma1112
