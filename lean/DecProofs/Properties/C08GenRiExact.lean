/-
  C08GenRiExact — `bid128_round_integral_exact` as translated in `DecGen/Code.lean` computes `toIntegralD mode` of the decoded
  operand in each of the five rounding modes and raises `inexact` exactly when the value changed, for ALL 128-bit patterns and
  status words (`round_integral_exact_spec`).
-/
import DecProofs.Properties.C08GenRiNearest
import DecProofs.Properties.C08GenRiDirected

set_option linter.unusedSimpArgs false
set_option linter.unusedVariables false

namespace Dec.C08GenRoundIntegral
open Dec.Rs Dec.Gen.Code Dec.C03GenCompare

/-! ## `bid128_round_integral_exact`: structure -/

/-- digit removal of `bid128_round_integral_exact`, nearest-even (the translated block) -/
def exEvenMain (C1_ : U128) (x_sign : UInt64) (exp : Int32) (pfpsf_ : UInt32) : Except String (U128 × UInt32) := do
  let mut res : U128 := (⟨(0xbaddbaddbaddbadd : UInt64), (0xbaddbaddbaddbadd : UInt64)⟩ : U128)
  let mut fstar : U256 := default
  let mut shift : Int32 := default
  let mut ind : Int32 := default
  let mut tmp64 : UInt64 := default
  let mut P256 : U256 := default
  let mut C1 : U128 := C1_
  let mut pfpsf : UInt32 := pfpsf_
  ind := (-exp)
  tmp64 := C1.w0
  if (decide (ind ≤ (0x13 : Int32))) then
    C1 := { C1 with w0 := (C1.w0 + (← tbl64 Dec.Gen.BID_MIDPOINT64 (UInt64.ofInt (toI ((ind - (1 : Int32))))))) }
  else
    C1 := { C1 with w0 := (C1.w0 + (← tbl128 Dec.Gen.BID_MIDPOINT128 (UInt64.ofInt (toI ((ind - (0x14 : Int32)))))).w0) }
    C1 := { C1 with w1 := (C1.w1 + (← tbl128 Dec.Gen.BID_MIDPOINT128 (UInt64.ofInt (toI ((ind - (0x14 : Int32)))))).w1) }
  if (decide (C1.w0 < tmp64)) then
    C1 := { C1 with w1 := (C1.w1 + 1) }
  P256 := (← mul_128x128_to_256 C1 (← tbl128 Dec.Gen.BID_TEN2MK128 (UInt64.ofInt (toI ((ind - (1 : Int32)))))))
  if (decide ((ind - (1 : Int32)) ≤ (2 : Int32))) then
    res := { res with w1 := P256.w3 }
    res := { res with w0 := P256.w2 }
    fstar := { fstar with w1 := P256.w1 }
    fstar := { fstar with w0 := P256.w0 }
    if (← (if (((res.w0 &&& (1 : UInt64))) == (1 : UInt64)) then (do pure ((← (if ((decide (fstar.w1 < ((← tbl128 Dec.Gen.BID_TEN2MK128 (UInt64.ofInt (toI ((ind - (1 : Int32)))))).w1)))) then pure true else (do pure ((← (if ((fstar.w1 == (← tbl128 Dec.Gen.BID_TEN2MK128 (UInt64.ofInt (toI ((ind - (1 : Int32)))))).w1)) then (do pure ((decide (fstar.w0 < (← tbl128 Dec.Gen.BID_TEN2MK128 (UInt64.ofInt (toI ((ind - (1 : Int32)))))).w0)))) else pure false)))))))) else pure false)) then
      res := { res with w0 := (res.w0 - 1) }
    if ((decide (fstar.w1 > (0x8000000000000000 : UInt64))) || (((fstar.w1 == (0x8000000000000000 : UInt64)) && (decide (fstar.w0 > (0 : UInt64)))))) then
      tmp64 := (fstar.w1 - (0x8000000000000000 : UInt64))
      if (← (if (decide (tmp64 > (← tbl128 Dec.Gen.BID_TEN2MK128 (UInt64.ofInt (toI ((ind - (1 : Int32)))))).w1)) then pure true else (do pure ((← (if (tmp64 == (← tbl128 Dec.Gen.BID_TEN2MK128 (UInt64.ofInt (toI ((ind - (1 : Int32)))))).w1) then (do pure (decide (fstar.w0 ≥ (← tbl128 Dec.Gen.BID_TEN2MK128 (UInt64.ofInt (toI ((ind - (1 : Int32)))))).w0))) else pure false)))))) then
        pfpsf := (pfpsf ||| c_StatusFlags_BID_INEXACT_EXCEPTION)
    else
      pfpsf := (pfpsf ||| c_StatusFlags_BID_INEXACT_EXCEPTION)
  else
    if (decide ((ind - (1 : Int32)) ≤ (0x15 : Int32))) then
      shift := (← tblI32 Dec.Gen.BID_SHIFTRIGHT128 (UInt64.ofInt (toI ((ind - (1 : Int32))))))
      res := { res with w1 := (P256.w3 >>> (UInt64.ofInt (toI shift))) }
      res := { res with w0 := (((P256.w3 <<< (UInt64.ofInt (toI (((0x40 : Int32) - shift)))))) ||| ((P256.w2 >>> (UInt64.ofInt (toI shift))))) }
      fstar := { fstar with w2 := (P256.w2 &&& (← tbl64 Dec.Gen.BID_MASKHIGH128 (UInt64.ofInt (toI ((ind - (1 : Int32))))))) }
      fstar := { fstar with w1 := P256.w1 }
      fstar := { fstar with w0 := P256.w0 }
      if (← (if ((((res.w0 &&& (1 : UInt64))) == (1 : UInt64)) && (fstar.w2 == (0 : UInt64))) then (do pure ((← (if (decide (fstar.w1 < (← tbl128 Dec.Gen.BID_TEN2MK128 (UInt64.ofInt (toI ((ind - (1 : Int32)))))).w1)) then pure true else (do pure ((← (if (fstar.w1 == (← tbl128 Dec.Gen.BID_TEN2MK128 (UInt64.ofInt (toI ((ind - (1 : Int32)))))).w1) then (do pure (decide (fstar.w0 < (← tbl128 Dec.Gen.BID_TEN2MK128 (UInt64.ofInt (toI ((ind - (1 : Int32)))))).w0))) else pure false)))))))) else pure false)) then
        res := { res with w0 := (res.w0 - 1) }
      if (← (if (decide (fstar.w2 > (← tbl64 Dec.Gen.BID_ONEHALF128 (UInt64.ofInt (toI ((ind - (1 : Int32)))))))) then pure true else (do pure (((fstar.w2 == (← tbl64 Dec.Gen.BID_ONEHALF128 (UInt64.ofInt (toI ((ind - (1 : Int32))))))) && (((fstar.w1 != (0 : UInt64)) || (fstar.w0 != (0 : UInt64))))))))) then
        tmp64 := (fstar.w2 - (← tbl64 Dec.Gen.BID_ONEHALF128 (UInt64.ofInt (toI ((ind - (1 : Int32)))))))
        if (← (if (← (if (tmp64 != (0 : UInt64)) then pure true else (do pure (decide (fstar.w1 > (← tbl128 Dec.Gen.BID_TEN2MK128 (UInt64.ofInt (toI ((ind - (1 : Int32)))))).w1))))) then pure true else (do pure ((← (if (fstar.w1 == (← tbl128 Dec.Gen.BID_TEN2MK128 (UInt64.ofInt (toI ((ind - (1 : Int32)))))).w1) then (do pure (decide (fstar.w0 ≥ (← tbl128 Dec.Gen.BID_TEN2MK128 (UInt64.ofInt (toI ((ind - (1 : Int32)))))).w0))) else pure false)))))) then
          pfpsf := (pfpsf ||| c_StatusFlags_BID_INEXACT_EXCEPTION)
      else
        pfpsf := (pfpsf ||| c_StatusFlags_BID_INEXACT_EXCEPTION)
    else
      shift := ((← tblI32 Dec.Gen.BID_SHIFTRIGHT128 (UInt64.ofInt (toI ((ind - (1 : Int32)))))) - (0x40 : Int32))
      res := { res with w1 := (0 : UInt64) }
      res := { res with w0 := (P256.w3 >>> (UInt64.ofInt (toI shift))) }
      fstar := { fstar with w3 := (P256.w3 &&& (← tbl64 Dec.Gen.BID_MASKHIGH128 (UInt64.ofInt (toI ((ind - (1 : Int32))))))) }
      fstar := { fstar with w2 := P256.w2 }
      fstar := { fstar with w1 := P256.w1 }
      fstar := { fstar with w0 := P256.w0 }
      if (← (if (((((res.w0 &&& (1 : UInt64))) == (1 : UInt64)) && (fstar.w3 == (0 : UInt64))) && (fstar.w2 == (0 : UInt64))) then (do pure ((← (if (decide (fstar.w1 < (← tbl128 Dec.Gen.BID_TEN2MK128 (UInt64.ofInt (toI ((ind - (1 : Int32)))))).w1)) then pure true else (do pure ((← (if (fstar.w1 == (← tbl128 Dec.Gen.BID_TEN2MK128 (UInt64.ofInt (toI ((ind - (1 : Int32)))))).w1) then (do pure (decide (fstar.w0 < (← tbl128 Dec.Gen.BID_TEN2MK128 (UInt64.ofInt (toI ((ind - (1 : Int32)))))).w0))) else pure false)))))))) else pure false)) then
        res := { res with w0 := (res.w0 - 1) }
      if (← (if (decide (fstar.w3 > (← tbl64 Dec.Gen.BID_ONEHALF128 (UInt64.ofInt (toI ((ind - (1 : Int32)))))))) then pure true else (do pure (((fstar.w3 == (← tbl64 Dec.Gen.BID_ONEHALF128 (UInt64.ofInt (toI ((ind - (1 : Int32))))))) && ((((fstar.w2 != (0 : UInt64)) || (fstar.w1 != (0 : UInt64))) || (fstar.w0 != (0 : UInt64))))))))) then
        tmp64 := (fstar.w3 - (← tbl64 Dec.Gen.BID_ONEHALF128 (UInt64.ofInt (toI ((ind - (1 : Int32)))))))
        if (← (if (← (if ((tmp64 != (0 : UInt64)) || (fstar.w2 != (0 : UInt64))) then pure true else (do pure (decide (fstar.w1 > (← tbl128 Dec.Gen.BID_TEN2MK128 (UInt64.ofInt (toI ((ind - (1 : Int32)))))).w1))))) then pure true else (do pure ((← (if (fstar.w1 == (← tbl128 Dec.Gen.BID_TEN2MK128 (UInt64.ofInt (toI ((ind - (1 : Int32)))))).w1) then (do pure (decide (fstar.w0 ≥ (← tbl128 Dec.Gen.BID_TEN2MK128 (UInt64.ofInt (toI ((ind - (1 : Int32)))))).w0))) else pure false)))))) then
          pfpsf := (pfpsf ||| c_StatusFlags_BID_INEXACT_EXCEPTION)
      else
        pfpsf := (pfpsf ||| c_StatusFlags_BID_INEXACT_EXCEPTION)
  res := { res with w1 := (res.w1 ||| (x_sign ||| (0x3040000000000000 : UInt64))) }
  return (res, pfpsf)

/-- digit removal of `bid128_round_integral_exact`, nearest-away (the translated block) -/
def exAwayMain (C1_ : U128) (x_sign : UInt64) (exp : Int32) (pfpsf_ : UInt32) : Except String (U128 × UInt32) := do
  let mut res : U128 := (⟨(0xbaddbaddbaddbadd : UInt64), (0xbaddbaddbaddbadd : UInt64)⟩ : U128)
  let mut fstar : U256 := default
  let mut shift : Int32 := default
  let mut ind : Int32 := default
  let mut tmp64 : UInt64 := default
  let mut P256 : U256 := default
  let mut C1 : U128 := C1_
  let mut pfpsf : UInt32 := pfpsf_
  ind := (-exp)
  tmp64 := C1.w0
  if (decide (ind ≤ (0x13 : Int32))) then
    C1 := { C1 with w0 := (C1.w0 + (← tbl64 Dec.Gen.BID_MIDPOINT64 (UInt64.ofInt (toI ((ind - (1 : Int32))))))) }
  else
    C1 := { C1 with w0 := (C1.w0 + (← tbl128 Dec.Gen.BID_MIDPOINT128 (UInt64.ofInt (toI ((ind - (0x14 : Int32)))))).w0) }
    C1 := { C1 with w1 := (C1.w1 + (← tbl128 Dec.Gen.BID_MIDPOINT128 (UInt64.ofInt (toI ((ind - (0x14 : Int32)))))).w1) }
  if (decide (C1.w0 < tmp64)) then
    C1 := { C1 with w1 := (C1.w1 + 1) }
  P256 := (← mul_128x128_to_256 C1 (← tbl128 Dec.Gen.BID_TEN2MK128 (UInt64.ofInt (toI ((ind - (1 : Int32)))))))
  if (decide ((ind - (1 : Int32)) ≤ (2 : Int32))) then
    res := { res with w1 := P256.w3 }
    res := { res with w0 := P256.w2 }
    fstar := { fstar with w1 := P256.w1 }
    fstar := { fstar with w0 := P256.w0 }
    if ((decide (fstar.w1 > (0x8000000000000000 : UInt64))) || (((fstar.w1 == (0x8000000000000000 : UInt64)) && (decide (fstar.w0 > (0 : UInt64)))))) then
      tmp64 := (fstar.w1 - (0x8000000000000000 : UInt64))
      if (← (if (decide (tmp64 > (← tbl128 Dec.Gen.BID_TEN2MK128 (UInt64.ofInt (toI ((ind - (1 : Int32)))))).w1)) then pure true else (do pure ((← (if (tmp64 == (← tbl128 Dec.Gen.BID_TEN2MK128 (UInt64.ofInt (toI ((ind - (1 : Int32)))))).w1) then (do pure (decide (fstar.w0 ≥ (← tbl128 Dec.Gen.BID_TEN2MK128 (UInt64.ofInt (toI ((ind - (1 : Int32)))))).w0))) else pure false)))))) then
        pfpsf := (pfpsf ||| c_StatusFlags_BID_INEXACT_EXCEPTION)
    else
      pfpsf := (pfpsf ||| c_StatusFlags_BID_INEXACT_EXCEPTION)
  else
    if (decide ((ind - (1 : Int32)) ≤ (0x15 : Int32))) then
      shift := (← tblI32 Dec.Gen.BID_SHIFTRIGHT128 (UInt64.ofInt (toI ((ind - (1 : Int32))))))
      res := { res with w1 := (P256.w3 >>> (UInt64.ofInt (toI shift))) }
      res := { res with w0 := (((P256.w3 <<< (UInt64.ofInt (toI (((0x40 : Int32) - shift)))))) ||| ((P256.w2 >>> (UInt64.ofInt (toI shift))))) }
      fstar := { fstar with w2 := (P256.w2 &&& (← tbl64 Dec.Gen.BID_MASKHIGH128 (UInt64.ofInt (toI ((ind - (1 : Int32))))))) }
      fstar := { fstar with w1 := P256.w1 }
      fstar := { fstar with w0 := P256.w0 }
      if (← (if (decide (fstar.w2 > (← tbl64 Dec.Gen.BID_ONEHALF128 (UInt64.ofInt (toI ((ind - (1 : Int32)))))))) then pure true else (do pure (((fstar.w2 == (← tbl64 Dec.Gen.BID_ONEHALF128 (UInt64.ofInt (toI ((ind - (1 : Int32))))))) && (((fstar.w1 != (0 : UInt64)) || (fstar.w0 != (0 : UInt64))))))))) then
        tmp64 := (fstar.w2 - (← tbl64 Dec.Gen.BID_ONEHALF128 (UInt64.ofInt (toI ((ind - (1 : Int32)))))))
        if (← (if (← (if (tmp64 != (0 : UInt64)) then pure true else (do pure (decide (fstar.w1 > (← tbl128 Dec.Gen.BID_TEN2MK128 (UInt64.ofInt (toI ((ind - (1 : Int32)))))).w1))))) then pure true else (do pure ((← (if (fstar.w1 == (← tbl128 Dec.Gen.BID_TEN2MK128 (UInt64.ofInt (toI ((ind - (1 : Int32)))))).w1) then (do pure (decide (fstar.w0 ≥ (← tbl128 Dec.Gen.BID_TEN2MK128 (UInt64.ofInt (toI ((ind - (1 : Int32)))))).w0))) else pure false)))))) then
          pfpsf := (pfpsf ||| c_StatusFlags_BID_INEXACT_EXCEPTION)
      else
        pfpsf := (pfpsf ||| c_StatusFlags_BID_INEXACT_EXCEPTION)
    else
      shift := ((← tblI32 Dec.Gen.BID_SHIFTRIGHT128 (UInt64.ofInt (toI ((ind - (1 : Int32)))))) - (0x40 : Int32))
      res := { res with w1 := (0 : UInt64) }
      res := { res with w0 := (P256.w3 >>> (UInt64.ofInt (toI shift))) }
      fstar := { fstar with w3 := (P256.w3 &&& (← tbl64 Dec.Gen.BID_MASKHIGH128 (UInt64.ofInt (toI ((ind - (1 : Int32))))))) }
      fstar := { fstar with w2 := P256.w2 }
      fstar := { fstar with w1 := P256.w1 }
      fstar := { fstar with w0 := P256.w0 }
      if (← (if (decide (fstar.w3 > (← tbl64 Dec.Gen.BID_ONEHALF128 (UInt64.ofInt (toI ((ind - (1 : Int32)))))))) then pure true else (do pure (((fstar.w3 == (← tbl64 Dec.Gen.BID_ONEHALF128 (UInt64.ofInt (toI ((ind - (1 : Int32))))))) && ((((fstar.w2 != (0 : UInt64)) || (fstar.w1 != (0 : UInt64))) || (fstar.w0 != (0 : UInt64))))))))) then
        tmp64 := (fstar.w3 - (← tbl64 Dec.Gen.BID_ONEHALF128 (UInt64.ofInt (toI ((ind - (1 : Int32)))))))
        if (← (if (← (if ((tmp64 != (0 : UInt64)) || (fstar.w2 != (0 : UInt64))) then pure true else (do pure (decide (fstar.w1 > (← tbl128 Dec.Gen.BID_TEN2MK128 (UInt64.ofInt (toI ((ind - (1 : Int32)))))).w1))))) then pure true else (do pure ((← (if (fstar.w1 == (← tbl128 Dec.Gen.BID_TEN2MK128 (UInt64.ofInt (toI ((ind - (1 : Int32)))))).w1) then (do pure (decide (fstar.w0 ≥ (← tbl128 Dec.Gen.BID_TEN2MK128 (UInt64.ofInt (toI ((ind - (1 : Int32)))))).w0))) else pure false)))))) then
          pfpsf := (pfpsf ||| c_StatusFlags_BID_INEXACT_EXCEPTION)
      else
        pfpsf := (pfpsf ||| c_StatusFlags_BID_INEXACT_EXCEPTION)
  res := { res with w1 := (res.w1 ||| (x_sign ||| (0x3040000000000000 : UInt64))) }
  return (res, pfpsf)

/-- digit removal of `bid128_round_integral_exact`, downward (the translated block) -/
def exFloorMain (C1_ : U128) (x_sign : UInt64) (exp : Int32) (pfpsf_ : UInt32) : Except String (U128 × UInt32) := do
  let mut res : U128 := (⟨(0xbaddbaddbaddbadd : UInt64), (0xbaddbaddbaddbadd : UInt64)⟩ : U128)
  let mut fstar : U256 := default
  let mut shift : Int32 := default
  let mut ind : Int32 := default
  let mut tmp64 : UInt64 := default
  let mut P256 : U256 := default
  let mut C1 : U128 := C1_
  let mut pfpsf : UInt32 := pfpsf_
  ind := (-exp)
  P256 := (← mul_128x128_to_256 C1 (← tbl128 Dec.Gen.BID_TEN2MK128 (UInt64.ofInt (toI ((ind - (1 : Int32)))))))
  if (decide ((ind - (1 : Int32)) ≤ (2 : Int32))) then
    res := { res with w1 := P256.w3 }
    res := { res with w0 := P256.w2 }
    if (← (if ((decide (P256.w1 > (← tbl128 Dec.Gen.BID_TEN2MK128 (UInt64.ofInt (toI ((ind - (1 : Int32)))))).w1))) then pure true else (do pure ((← (if (P256.w1 == (← tbl128 Dec.Gen.BID_TEN2MK128 (UInt64.ofInt (toI ((ind - (1 : Int32)))))).w1) then (do pure ((decide (P256.w0 ≥ (← tbl128 Dec.Gen.BID_TEN2MK128 (UInt64.ofInt (toI ((ind - (1 : Int32)))))).w0)))) else pure false)))))) then
      pfpsf := (pfpsf ||| c_StatusFlags_BID_INEXACT_EXCEPTION)
      if (x_sign != (0 : UInt64)) then
        res := { res with w0 := (res.w0 + 1) }
        if (res.w0 == (0 : UInt64)) then
          res := { res with w1 := (res.w1 + 1) }
  else
    if (decide ((ind - (1 : Int32)) ≤ (0x15 : Int32))) then
      shift := (← tblI32 Dec.Gen.BID_SHIFTRIGHT128 (UInt64.ofInt (toI ((ind - (1 : Int32))))))
      res := { res with w1 := (P256.w3 >>> (UInt64.ofInt (toI shift))) }
      res := { res with w0 := (((P256.w3 <<< (UInt64.ofInt (toI (((0x40 : Int32) - shift)))))) ||| ((P256.w2 >>> (UInt64.ofInt (toI shift))))) }
      fstar := { fstar with w2 := (P256.w2 &&& (← tbl64 Dec.Gen.BID_MASKHIGH128 (UInt64.ofInt (toI ((ind - (1 : Int32))))))) }
      fstar := { fstar with w1 := P256.w1 }
      fstar := { fstar with w0 := P256.w0 }
      if (← (if (← (if (fstar.w2 != (0 : UInt64)) then pure true else (do pure (decide (fstar.w1 > (← tbl128 Dec.Gen.BID_TEN2MK128 (UInt64.ofInt (toI ((ind - (1 : Int32)))))).w1))))) then pure true else (do pure ((← (if (fstar.w1 == (← tbl128 Dec.Gen.BID_TEN2MK128 (UInt64.ofInt (toI ((ind - (1 : Int32)))))).w1) then (do pure (decide (fstar.w0 ≥ (← tbl128 Dec.Gen.BID_TEN2MK128 (UInt64.ofInt (toI ((ind - (1 : Int32)))))).w0))) else pure false)))))) then
        pfpsf := (pfpsf ||| c_StatusFlags_BID_INEXACT_EXCEPTION)
        if (x_sign != (0 : UInt64)) then
          res := { res with w0 := (res.w0 + 1) }
          if (res.w0 == (0 : UInt64)) then
            res := { res with w1 := (res.w1 + 1) }
    else
      shift := ((← tblI32 Dec.Gen.BID_SHIFTRIGHT128 (UInt64.ofInt (toI ((ind - (1 : Int32)))))) - (0x40 : Int32))
      res := { res with w1 := (0 : UInt64) }
      res := { res with w0 := (P256.w3 >>> (UInt64.ofInt (toI shift))) }
      fstar := { fstar with w3 := (P256.w3 &&& (← tbl64 Dec.Gen.BID_MASKHIGH128 (UInt64.ofInt (toI ((ind - (1 : Int32))))))) }
      fstar := { fstar with w2 := P256.w2 }
      fstar := { fstar with w1 := P256.w1 }
      fstar := { fstar with w0 := P256.w0 }
      if (← (if (← (if ((fstar.w3 != (0 : UInt64)) || (fstar.w2 != (0 : UInt64))) then pure true else (do pure (decide (fstar.w1 > (← tbl128 Dec.Gen.BID_TEN2MK128 (UInt64.ofInt (toI ((ind - (1 : Int32)))))).w1))))) then pure true else (do pure ((← (if (fstar.w1 == (← tbl128 Dec.Gen.BID_TEN2MK128 (UInt64.ofInt (toI ((ind - (1 : Int32)))))).w1) then (do pure (decide (fstar.w0 ≥ (← tbl128 Dec.Gen.BID_TEN2MK128 (UInt64.ofInt (toI ((ind - (1 : Int32)))))).w0))) else pure false)))))) then
        pfpsf := (pfpsf ||| c_StatusFlags_BID_INEXACT_EXCEPTION)
        if (x_sign != (0 : UInt64)) then
          res := { res with w0 := (res.w0 + 1) }
          if (res.w0 == (0 : UInt64)) then
            res := { res with w1 := (res.w1 + 1) }
  res := { res with w1 := (res.w1 ||| (x_sign ||| (0x3040000000000000 : UInt64))) }
  return (res, pfpsf)

/-- digit removal of `bid128_round_integral_exact`, upward (the translated block) -/
def exCeilMain (C1_ : U128) (x_sign : UInt64) (exp : Int32) (pfpsf_ : UInt32) : Except String (U128 × UInt32) := do
  let mut res : U128 := (⟨(0xbaddbaddbaddbadd : UInt64), (0xbaddbaddbaddbadd : UInt64)⟩ : U128)
  let mut fstar : U256 := default
  let mut shift : Int32 := default
  let mut ind : Int32 := default
  let mut tmp64 : UInt64 := default
  let mut P256 : U256 := default
  let mut C1 : U128 := C1_
  let mut pfpsf : UInt32 := pfpsf_
  ind := (-exp)
  P256 := (← mul_128x128_to_256 C1 (← tbl128 Dec.Gen.BID_TEN2MK128 (UInt64.ofInt (toI ((ind - (1 : Int32)))))))
  if (decide ((ind - (1 : Int32)) ≤ (2 : Int32))) then
    res := { res with w1 := P256.w3 }
    res := { res with w0 := P256.w2 }
    if (← (if ((decide (P256.w1 > (← tbl128 Dec.Gen.BID_TEN2MK128 (UInt64.ofInt (toI ((ind - (1 : Int32)))))).w1))) then pure true else (do pure ((← (if (P256.w1 == (← tbl128 Dec.Gen.BID_TEN2MK128 (UInt64.ofInt (toI ((ind - (1 : Int32)))))).w1) then (do pure ((decide (P256.w0 ≥ (← tbl128 Dec.Gen.BID_TEN2MK128 (UInt64.ofInt (toI ((ind - (1 : Int32)))))).w0)))) else pure false)))))) then
      pfpsf := (pfpsf ||| c_StatusFlags_BID_INEXACT_EXCEPTION)
      if (x_sign == (0 : UInt64)) then
        res := { res with w0 := (res.w0 + 1) }
        if (res.w0 == (0 : UInt64)) then
          res := { res with w1 := (res.w1 + 1) }
  else
    if (decide ((ind - (1 : Int32)) ≤ (0x15 : Int32))) then
      shift := (← tblI32 Dec.Gen.BID_SHIFTRIGHT128 (UInt64.ofInt (toI ((ind - (1 : Int32))))))
      res := { res with w1 := (P256.w3 >>> (UInt64.ofInt (toI shift))) }
      res := { res with w0 := (((P256.w3 <<< (UInt64.ofInt (toI (((0x40 : Int32) - shift)))))) ||| ((P256.w2 >>> (UInt64.ofInt (toI shift))))) }
      fstar := { fstar with w2 := (P256.w2 &&& (← tbl64 Dec.Gen.BID_MASKHIGH128 (UInt64.ofInt (toI ((ind - (1 : Int32))))))) }
      fstar := { fstar with w1 := P256.w1 }
      fstar := { fstar with w0 := P256.w0 }
      if (← (if (← (if (fstar.w2 != (0 : UInt64)) then pure true else (do pure (decide (fstar.w1 > (← tbl128 Dec.Gen.BID_TEN2MK128 (UInt64.ofInt (toI ((ind - (1 : Int32)))))).w1))))) then pure true else (do pure ((← (if (fstar.w1 == (← tbl128 Dec.Gen.BID_TEN2MK128 (UInt64.ofInt (toI ((ind - (1 : Int32)))))).w1) then (do pure (decide (fstar.w0 ≥ (← tbl128 Dec.Gen.BID_TEN2MK128 (UInt64.ofInt (toI ((ind - (1 : Int32)))))).w0))) else pure false)))))) then
        pfpsf := (pfpsf ||| c_StatusFlags_BID_INEXACT_EXCEPTION)
        if (x_sign == (0 : UInt64)) then
          res := { res with w0 := (res.w0 + 1) }
          if (res.w0 == (0 : UInt64)) then
            res := { res with w1 := (res.w1 + 1) }
    else
      shift := ((← tblI32 Dec.Gen.BID_SHIFTRIGHT128 (UInt64.ofInt (toI ((ind - (1 : Int32)))))) - (0x40 : Int32))
      res := { res with w1 := (0 : UInt64) }
      res := { res with w0 := (P256.w3 >>> (UInt64.ofInt (toI shift))) }
      fstar := { fstar with w3 := (P256.w3 &&& (← tbl64 Dec.Gen.BID_MASKHIGH128 (UInt64.ofInt (toI ((ind - (1 : Int32))))))) }
      fstar := { fstar with w2 := P256.w2 }
      fstar := { fstar with w1 := P256.w1 }
      fstar := { fstar with w0 := P256.w0 }
      if (← (if (← (if ((fstar.w3 != (0 : UInt64)) || (fstar.w2 != (0 : UInt64))) then pure true else (do pure (decide (fstar.w1 > (← tbl128 Dec.Gen.BID_TEN2MK128 (UInt64.ofInt (toI ((ind - (1 : Int32)))))).w1))))) then pure true else (do pure ((← (if (fstar.w1 == (← tbl128 Dec.Gen.BID_TEN2MK128 (UInt64.ofInt (toI ((ind - (1 : Int32)))))).w1) then (do pure (decide (fstar.w0 ≥ (← tbl128 Dec.Gen.BID_TEN2MK128 (UInt64.ofInt (toI ((ind - (1 : Int32)))))).w0))) else pure false)))))) then
        pfpsf := (pfpsf ||| c_StatusFlags_BID_INEXACT_EXCEPTION)
        if (x_sign == (0 : UInt64)) then
          res := { res with w0 := (res.w0 + 1) }
          if (res.w0 == (0 : UInt64)) then
            res := { res with w1 := (res.w1 + 1) }
  res := { res with w1 := (res.w1 ||| (x_sign ||| (0x3040000000000000 : UInt64))) }
  return (res, pfpsf)

/-- digit removal of `bid128_round_integral_exact`, toward zero (the translated block) -/
def exTruncMain (C1_ : U128) (x_sign : UInt64) (exp : Int32) (pfpsf_ : UInt32) : Except String (U128 × UInt32) := do
  let mut res : U128 := (⟨(0xbaddbaddbaddbadd : UInt64), (0xbaddbaddbaddbadd : UInt64)⟩ : U128)
  let mut fstar : U256 := default
  let mut shift : Int32 := default
  let mut ind : Int32 := default
  let mut tmp64 : UInt64 := default
  let mut P256 : U256 := default
  let mut C1 : U128 := C1_
  let mut pfpsf : UInt32 := pfpsf_
  ind := (-exp)
  P256 := (← mul_128x128_to_256 C1 (← tbl128 Dec.Gen.BID_TEN2MK128 (UInt64.ofInt (toI ((ind - (1 : Int32)))))))
  if (decide ((ind - (1 : Int32)) ≤ (2 : Int32))) then
    res := { res with w1 := P256.w3 }
    res := { res with w0 := P256.w2 }
    if (← (if ((decide (P256.w1 > (← tbl128 Dec.Gen.BID_TEN2MK128 (UInt64.ofInt (toI ((ind - (1 : Int32)))))).w1))) then pure true else (do pure ((← (if (P256.w1 == (← tbl128 Dec.Gen.BID_TEN2MK128 (UInt64.ofInt (toI ((ind - (1 : Int32)))))).w1) then (do pure ((decide (P256.w0 ≥ (← tbl128 Dec.Gen.BID_TEN2MK128 (UInt64.ofInt (toI ((ind - (1 : Int32)))))).w0)))) else pure false)))))) then
      pfpsf := (pfpsf ||| c_StatusFlags_BID_INEXACT_EXCEPTION)
  else
    if (decide ((ind - (1 : Int32)) ≤ (0x15 : Int32))) then
      shift := (← tblI32 Dec.Gen.BID_SHIFTRIGHT128 (UInt64.ofInt (toI ((ind - (1 : Int32))))))
      res := { res with w1 := (P256.w3 >>> (UInt64.ofInt (toI shift))) }
      res := { res with w0 := (((P256.w3 <<< (UInt64.ofInt (toI (((0x40 : Int32) - shift)))))) ||| ((P256.w2 >>> (UInt64.ofInt (toI shift))))) }
      fstar := { fstar with w2 := (P256.w2 &&& (← tbl64 Dec.Gen.BID_MASKHIGH128 (UInt64.ofInt (toI ((ind - (1 : Int32))))))) }
      fstar := { fstar with w1 := P256.w1 }
      fstar := { fstar with w0 := P256.w0 }
      if (← (if (← (if (fstar.w2 != (0 : UInt64)) then pure true else (do pure (decide (fstar.w1 > (← tbl128 Dec.Gen.BID_TEN2MK128 (UInt64.ofInt (toI ((ind - (1 : Int32)))))).w1))))) then pure true else (do pure ((← (if (fstar.w1 == (← tbl128 Dec.Gen.BID_TEN2MK128 (UInt64.ofInt (toI ((ind - (1 : Int32)))))).w1) then (do pure (decide (fstar.w0 ≥ (← tbl128 Dec.Gen.BID_TEN2MK128 (UInt64.ofInt (toI ((ind - (1 : Int32)))))).w0))) else pure false)))))) then
        pfpsf := (pfpsf ||| c_StatusFlags_BID_INEXACT_EXCEPTION)
    else
      shift := ((← tblI32 Dec.Gen.BID_SHIFTRIGHT128 (UInt64.ofInt (toI ((ind - (1 : Int32)))))) - (0x40 : Int32))
      res := { res with w1 := (0 : UInt64) }
      res := { res with w0 := (P256.w3 >>> (UInt64.ofInt (toI shift))) }
      fstar := { fstar with w3 := (P256.w3 &&& (← tbl64 Dec.Gen.BID_MASKHIGH128 (UInt64.ofInt (toI ((ind - (1 : Int32))))))) }
      fstar := { fstar with w2 := P256.w2 }
      fstar := { fstar with w1 := P256.w1 }
      fstar := { fstar with w0 := P256.w0 }
      if (← (if (← (if ((fstar.w3 != (0 : UInt64)) || (fstar.w2 != (0 : UInt64))) then pure true else (do pure (decide (fstar.w1 > (← tbl128 Dec.Gen.BID_TEN2MK128 (UInt64.ofInt (toI ((ind - (1 : Int32)))))).w1))))) then pure true else (do pure ((← (if (fstar.w1 == (← tbl128 Dec.Gen.BID_TEN2MK128 (UInt64.ofInt (toI ((ind - (1 : Int32)))))).w1) then (do pure (decide (fstar.w0 ≥ (← tbl128 Dec.Gen.BID_TEN2MK128 (UInt64.ofInt (toI ((ind - (1 : Int32)))))).w0))) else pure false)))))) then
        pfpsf := (pfpsf ||| c_StatusFlags_BID_INEXACT_EXCEPTION)
  res := { res with w1 := (res.w1 ||| (x_sign ||| (0x3040000000000000 : UInt64))) }
  return (res, pfpsf)

/-- `bid128_round_integral_exact`, nearest-even, after the midpoint addition (the translated block) -/
def exEvenTail (C1_ : U128) (x_sign : UInt64) (exp : Int32) (pfpsf_ : UInt32) : Except String (U128 × UInt32) := do
  let mut res : U128 := (⟨(0xbaddbaddbaddbadd : UInt64), (0xbaddbaddbaddbadd : UInt64)⟩ : U128)
  let mut fstar : U256 := default
  let mut shift : Int32 := default
  let mut ind : Int32 := default
  let mut tmp64 : UInt64 := default
  let mut P256 : U256 := default
  let mut C1 : U128 := C1_
  let mut pfpsf : UInt32 := pfpsf_
  ind := (-exp)
  P256 := (← mul_128x128_to_256 C1 (← tbl128 Dec.Gen.BID_TEN2MK128 (UInt64.ofInt (toI ((ind - (1 : Int32)))))))
  if (decide ((ind - (1 : Int32)) ≤ (2 : Int32))) then
    res := { res with w1 := P256.w3 }
    res := { res with w0 := P256.w2 }
    fstar := { fstar with w1 := P256.w1 }
    fstar := { fstar with w0 := P256.w0 }
    if (← (if (((res.w0 &&& (1 : UInt64))) == (1 : UInt64)) then (do pure ((← (if ((decide (fstar.w1 < ((← tbl128 Dec.Gen.BID_TEN2MK128 (UInt64.ofInt (toI ((ind - (1 : Int32)))))).w1)))) then pure true else (do pure ((← (if ((fstar.w1 == (← tbl128 Dec.Gen.BID_TEN2MK128 (UInt64.ofInt (toI ((ind - (1 : Int32)))))).w1)) then (do pure ((decide (fstar.w0 < (← tbl128 Dec.Gen.BID_TEN2MK128 (UInt64.ofInt (toI ((ind - (1 : Int32)))))).w0)))) else pure false)))))))) else pure false)) then
      res := { res with w0 := (res.w0 - 1) }
    if ((decide (fstar.w1 > (0x8000000000000000 : UInt64))) || (((fstar.w1 == (0x8000000000000000 : UInt64)) && (decide (fstar.w0 > (0 : UInt64)))))) then
      tmp64 := (fstar.w1 - (0x8000000000000000 : UInt64))
      if (← (if (decide (tmp64 > (← tbl128 Dec.Gen.BID_TEN2MK128 (UInt64.ofInt (toI ((ind - (1 : Int32)))))).w1)) then pure true else (do pure ((← (if (tmp64 == (← tbl128 Dec.Gen.BID_TEN2MK128 (UInt64.ofInt (toI ((ind - (1 : Int32)))))).w1) then (do pure (decide (fstar.w0 ≥ (← tbl128 Dec.Gen.BID_TEN2MK128 (UInt64.ofInt (toI ((ind - (1 : Int32)))))).w0))) else pure false)))))) then
        pfpsf := (pfpsf ||| c_StatusFlags_BID_INEXACT_EXCEPTION)
    else
      pfpsf := (pfpsf ||| c_StatusFlags_BID_INEXACT_EXCEPTION)
  else
    if (decide ((ind - (1 : Int32)) ≤ (0x15 : Int32))) then
      shift := (← tblI32 Dec.Gen.BID_SHIFTRIGHT128 (UInt64.ofInt (toI ((ind - (1 : Int32))))))
      res := { res with w1 := (P256.w3 >>> (UInt64.ofInt (toI shift))) }
      res := { res with w0 := (((P256.w3 <<< (UInt64.ofInt (toI (((0x40 : Int32) - shift)))))) ||| ((P256.w2 >>> (UInt64.ofInt (toI shift))))) }
      fstar := { fstar with w2 := (P256.w2 &&& (← tbl64 Dec.Gen.BID_MASKHIGH128 (UInt64.ofInt (toI ((ind - (1 : Int32))))))) }
      fstar := { fstar with w1 := P256.w1 }
      fstar := { fstar with w0 := P256.w0 }
      if (← (if ((((res.w0 &&& (1 : UInt64))) == (1 : UInt64)) && (fstar.w2 == (0 : UInt64))) then (do pure ((← (if (decide (fstar.w1 < (← tbl128 Dec.Gen.BID_TEN2MK128 (UInt64.ofInt (toI ((ind - (1 : Int32)))))).w1)) then pure true else (do pure ((← (if (fstar.w1 == (← tbl128 Dec.Gen.BID_TEN2MK128 (UInt64.ofInt (toI ((ind - (1 : Int32)))))).w1) then (do pure (decide (fstar.w0 < (← tbl128 Dec.Gen.BID_TEN2MK128 (UInt64.ofInt (toI ((ind - (1 : Int32)))))).w0))) else pure false)))))))) else pure false)) then
        res := { res with w0 := (res.w0 - 1) }
      if (← (if (decide (fstar.w2 > (← tbl64 Dec.Gen.BID_ONEHALF128 (UInt64.ofInt (toI ((ind - (1 : Int32)))))))) then pure true else (do pure (((fstar.w2 == (← tbl64 Dec.Gen.BID_ONEHALF128 (UInt64.ofInt (toI ((ind - (1 : Int32))))))) && (((fstar.w1 != (0 : UInt64)) || (fstar.w0 != (0 : UInt64))))))))) then
        tmp64 := (fstar.w2 - (← tbl64 Dec.Gen.BID_ONEHALF128 (UInt64.ofInt (toI ((ind - (1 : Int32)))))))
        if (← (if (← (if (tmp64 != (0 : UInt64)) then pure true else (do pure (decide (fstar.w1 > (← tbl128 Dec.Gen.BID_TEN2MK128 (UInt64.ofInt (toI ((ind - (1 : Int32)))))).w1))))) then pure true else (do pure ((← (if (fstar.w1 == (← tbl128 Dec.Gen.BID_TEN2MK128 (UInt64.ofInt (toI ((ind - (1 : Int32)))))).w1) then (do pure (decide (fstar.w0 ≥ (← tbl128 Dec.Gen.BID_TEN2MK128 (UInt64.ofInt (toI ((ind - (1 : Int32)))))).w0))) else pure false)))))) then
          pfpsf := (pfpsf ||| c_StatusFlags_BID_INEXACT_EXCEPTION)
      else
        pfpsf := (pfpsf ||| c_StatusFlags_BID_INEXACT_EXCEPTION)
    else
      shift := ((← tblI32 Dec.Gen.BID_SHIFTRIGHT128 (UInt64.ofInt (toI ((ind - (1 : Int32)))))) - (0x40 : Int32))
      res := { res with w1 := (0 : UInt64) }
      res := { res with w0 := (P256.w3 >>> (UInt64.ofInt (toI shift))) }
      fstar := { fstar with w3 := (P256.w3 &&& (← tbl64 Dec.Gen.BID_MASKHIGH128 (UInt64.ofInt (toI ((ind - (1 : Int32))))))) }
      fstar := { fstar with w2 := P256.w2 }
      fstar := { fstar with w1 := P256.w1 }
      fstar := { fstar with w0 := P256.w0 }
      if (← (if (((((res.w0 &&& (1 : UInt64))) == (1 : UInt64)) && (fstar.w3 == (0 : UInt64))) && (fstar.w2 == (0 : UInt64))) then (do pure ((← (if (decide (fstar.w1 < (← tbl128 Dec.Gen.BID_TEN2MK128 (UInt64.ofInt (toI ((ind - (1 : Int32)))))).w1)) then pure true else (do pure ((← (if (fstar.w1 == (← tbl128 Dec.Gen.BID_TEN2MK128 (UInt64.ofInt (toI ((ind - (1 : Int32)))))).w1) then (do pure (decide (fstar.w0 < (← tbl128 Dec.Gen.BID_TEN2MK128 (UInt64.ofInt (toI ((ind - (1 : Int32)))))).w0))) else pure false)))))))) else pure false)) then
        res := { res with w0 := (res.w0 - 1) }
      if (← (if (decide (fstar.w3 > (← tbl64 Dec.Gen.BID_ONEHALF128 (UInt64.ofInt (toI ((ind - (1 : Int32)))))))) then pure true else (do pure (((fstar.w3 == (← tbl64 Dec.Gen.BID_ONEHALF128 (UInt64.ofInt (toI ((ind - (1 : Int32))))))) && ((((fstar.w2 != (0 : UInt64)) || (fstar.w1 != (0 : UInt64))) || (fstar.w0 != (0 : UInt64))))))))) then
        tmp64 := (fstar.w3 - (← tbl64 Dec.Gen.BID_ONEHALF128 (UInt64.ofInt (toI ((ind - (1 : Int32)))))))
        if (← (if (← (if ((tmp64 != (0 : UInt64)) || (fstar.w2 != (0 : UInt64))) then pure true else (do pure (decide (fstar.w1 > (← tbl128 Dec.Gen.BID_TEN2MK128 (UInt64.ofInt (toI ((ind - (1 : Int32)))))).w1))))) then pure true else (do pure ((← (if (fstar.w1 == (← tbl128 Dec.Gen.BID_TEN2MK128 (UInt64.ofInt (toI ((ind - (1 : Int32)))))).w1) then (do pure (decide (fstar.w0 ≥ (← tbl128 Dec.Gen.BID_TEN2MK128 (UInt64.ofInt (toI ((ind - (1 : Int32)))))).w0))) else pure false)))))) then
          pfpsf := (pfpsf ||| c_StatusFlags_BID_INEXACT_EXCEPTION)
      else
        pfpsf := (pfpsf ||| c_StatusFlags_BID_INEXACT_EXCEPTION)
  res := { res with w1 := (res.w1 ||| (x_sign ||| (0x3040000000000000 : UInt64))) }
  return (res, pfpsf)

/-- `bid128_round_integral_exact`, nearest-away, after the midpoint addition (the translated block) -/
def exAwayTail (C1_ : U128) (x_sign : UInt64) (exp : Int32) (pfpsf_ : UInt32) : Except String (U128 × UInt32) := do
  let mut res : U128 := (⟨(0xbaddbaddbaddbadd : UInt64), (0xbaddbaddbaddbadd : UInt64)⟩ : U128)
  let mut fstar : U256 := default
  let mut shift : Int32 := default
  let mut ind : Int32 := default
  let mut tmp64 : UInt64 := default
  let mut P256 : U256 := default
  let mut C1 : U128 := C1_
  let mut pfpsf : UInt32 := pfpsf_
  ind := (-exp)
  P256 := (← mul_128x128_to_256 C1 (← tbl128 Dec.Gen.BID_TEN2MK128 (UInt64.ofInt (toI ((ind - (1 : Int32)))))))
  if (decide ((ind - (1 : Int32)) ≤ (2 : Int32))) then
    res := { res with w1 := P256.w3 }
    res := { res with w0 := P256.w2 }
    fstar := { fstar with w1 := P256.w1 }
    fstar := { fstar with w0 := P256.w0 }
    if ((decide (fstar.w1 > (0x8000000000000000 : UInt64))) || (((fstar.w1 == (0x8000000000000000 : UInt64)) && (decide (fstar.w0 > (0 : UInt64)))))) then
      tmp64 := (fstar.w1 - (0x8000000000000000 : UInt64))
      if (← (if (decide (tmp64 > (← tbl128 Dec.Gen.BID_TEN2MK128 (UInt64.ofInt (toI ((ind - (1 : Int32)))))).w1)) then pure true else (do pure ((← (if (tmp64 == (← tbl128 Dec.Gen.BID_TEN2MK128 (UInt64.ofInt (toI ((ind - (1 : Int32)))))).w1) then (do pure (decide (fstar.w0 ≥ (← tbl128 Dec.Gen.BID_TEN2MK128 (UInt64.ofInt (toI ((ind - (1 : Int32)))))).w0))) else pure false)))))) then
        pfpsf := (pfpsf ||| c_StatusFlags_BID_INEXACT_EXCEPTION)
    else
      pfpsf := (pfpsf ||| c_StatusFlags_BID_INEXACT_EXCEPTION)
  else
    if (decide ((ind - (1 : Int32)) ≤ (0x15 : Int32))) then
      shift := (← tblI32 Dec.Gen.BID_SHIFTRIGHT128 (UInt64.ofInt (toI ((ind - (1 : Int32))))))
      res := { res with w1 := (P256.w3 >>> (UInt64.ofInt (toI shift))) }
      res := { res with w0 := (((P256.w3 <<< (UInt64.ofInt (toI (((0x40 : Int32) - shift)))))) ||| ((P256.w2 >>> (UInt64.ofInt (toI shift))))) }
      fstar := { fstar with w2 := (P256.w2 &&& (← tbl64 Dec.Gen.BID_MASKHIGH128 (UInt64.ofInt (toI ((ind - (1 : Int32))))))) }
      fstar := { fstar with w1 := P256.w1 }
      fstar := { fstar with w0 := P256.w0 }
      if (← (if (decide (fstar.w2 > (← tbl64 Dec.Gen.BID_ONEHALF128 (UInt64.ofInt (toI ((ind - (1 : Int32)))))))) then pure true else (do pure (((fstar.w2 == (← tbl64 Dec.Gen.BID_ONEHALF128 (UInt64.ofInt (toI ((ind - (1 : Int32))))))) && (((fstar.w1 != (0 : UInt64)) || (fstar.w0 != (0 : UInt64))))))))) then
        tmp64 := (fstar.w2 - (← tbl64 Dec.Gen.BID_ONEHALF128 (UInt64.ofInt (toI ((ind - (1 : Int32)))))))
        if (← (if (← (if (tmp64 != (0 : UInt64)) then pure true else (do pure (decide (fstar.w1 > (← tbl128 Dec.Gen.BID_TEN2MK128 (UInt64.ofInt (toI ((ind - (1 : Int32)))))).w1))))) then pure true else (do pure ((← (if (fstar.w1 == (← tbl128 Dec.Gen.BID_TEN2MK128 (UInt64.ofInt (toI ((ind - (1 : Int32)))))).w1) then (do pure (decide (fstar.w0 ≥ (← tbl128 Dec.Gen.BID_TEN2MK128 (UInt64.ofInt (toI ((ind - (1 : Int32)))))).w0))) else pure false)))))) then
          pfpsf := (pfpsf ||| c_StatusFlags_BID_INEXACT_EXCEPTION)
      else
        pfpsf := (pfpsf ||| c_StatusFlags_BID_INEXACT_EXCEPTION)
    else
      shift := ((← tblI32 Dec.Gen.BID_SHIFTRIGHT128 (UInt64.ofInt (toI ((ind - (1 : Int32)))))) - (0x40 : Int32))
      res := { res with w1 := (0 : UInt64) }
      res := { res with w0 := (P256.w3 >>> (UInt64.ofInt (toI shift))) }
      fstar := { fstar with w3 := (P256.w3 &&& (← tbl64 Dec.Gen.BID_MASKHIGH128 (UInt64.ofInt (toI ((ind - (1 : Int32))))))) }
      fstar := { fstar with w2 := P256.w2 }
      fstar := { fstar with w1 := P256.w1 }
      fstar := { fstar with w0 := P256.w0 }
      if (← (if (decide (fstar.w3 > (← tbl64 Dec.Gen.BID_ONEHALF128 (UInt64.ofInt (toI ((ind - (1 : Int32)))))))) then pure true else (do pure (((fstar.w3 == (← tbl64 Dec.Gen.BID_ONEHALF128 (UInt64.ofInt (toI ((ind - (1 : Int32))))))) && ((((fstar.w2 != (0 : UInt64)) || (fstar.w1 != (0 : UInt64))) || (fstar.w0 != (0 : UInt64))))))))) then
        tmp64 := (fstar.w3 - (← tbl64 Dec.Gen.BID_ONEHALF128 (UInt64.ofInt (toI ((ind - (1 : Int32)))))))
        if (← (if (← (if ((tmp64 != (0 : UInt64)) || (fstar.w2 != (0 : UInt64))) then pure true else (do pure (decide (fstar.w1 > (← tbl128 Dec.Gen.BID_TEN2MK128 (UInt64.ofInt (toI ((ind - (1 : Int32)))))).w1))))) then pure true else (do pure ((← (if (fstar.w1 == (← tbl128 Dec.Gen.BID_TEN2MK128 (UInt64.ofInt (toI ((ind - (1 : Int32)))))).w1) then (do pure (decide (fstar.w0 ≥ (← tbl128 Dec.Gen.BID_TEN2MK128 (UInt64.ofInt (toI ((ind - (1 : Int32)))))).w0))) else pure false)))))) then
          pfpsf := (pfpsf ||| c_StatusFlags_BID_INEXACT_EXCEPTION)
      else
        pfpsf := (pfpsf ||| c_StatusFlags_BID_INEXACT_EXCEPTION)
  res := { res with w1 := (res.w1 ||| (x_sign ||| (0x3040000000000000 : UInt64))) }
  return (res, pfpsf)

/-! the comparisons of distinct rounding modes (the mode dispatch of the translated `match`) -/
theorem rm_NE_NA : (RoundingMode.NearestEven == RoundingMode.NearestAway) = false := rfl
theorem rm_NE_Dn : (RoundingMode.NearestEven == RoundingMode.Downward) = false := rfl
theorem rm_NE_Up : (RoundingMode.NearestEven == RoundingMode.Upward) = false := rfl
theorem rm_NE_TZ : (RoundingMode.NearestEven == RoundingMode.TowardZero) = false := rfl
theorem rm_NA_NE : (RoundingMode.NearestAway == RoundingMode.NearestEven) = false := rfl
theorem rm_NA_Dn : (RoundingMode.NearestAway == RoundingMode.Downward) = false := rfl
theorem rm_NA_Up : (RoundingMode.NearestAway == RoundingMode.Upward) = false := rfl
theorem rm_NA_TZ : (RoundingMode.NearestAway == RoundingMode.TowardZero) = false := rfl
theorem rm_Dn_NE : (RoundingMode.Downward == RoundingMode.NearestEven) = false := rfl
theorem rm_Dn_NA : (RoundingMode.Downward == RoundingMode.NearestAway) = false := rfl
theorem rm_Dn_Up : (RoundingMode.Downward == RoundingMode.Upward) = false := rfl
theorem rm_Dn_TZ : (RoundingMode.Downward == RoundingMode.TowardZero) = false := rfl
theorem rm_Up_NE : (RoundingMode.Upward == RoundingMode.NearestEven) = false := rfl
theorem rm_Up_NA : (RoundingMode.Upward == RoundingMode.NearestAway) = false := rfl
theorem rm_Up_Dn : (RoundingMode.Upward == RoundingMode.Downward) = false := rfl
theorem rm_Up_TZ : (RoundingMode.Upward == RoundingMode.TowardZero) = false := rfl
theorem rm_TZ_NE : (RoundingMode.TowardZero == RoundingMode.NearestEven) = false := rfl
theorem rm_TZ_NA : (RoundingMode.TowardZero == RoundingMode.NearestAway) = false := rfl
theorem rm_TZ_Dn : (RoundingMode.TowardZero == RoundingMode.Downward) = false := rfl
theorem rm_TZ_Up : (RoundingMode.TowardZero == RoundingMode.Upward) = false := rfl

def exNEFin (x : U128) (f : UInt32) (s e : UInt64) (C : U128) : Except String (U128 × UInt32) :=
  if decide (e ≤ 0x2ffa000000000000) = true then
    .ok (⟨0, s ||| 0x3040000000000000⟩, f ||| c_StatusFlags_BID_INEXACT_EXCEPTION)
  else
    withQ C fun q =>
      if decide (expOf e ≥ 0) = true then .ok (⟨x.w0, x.w1⟩, f)
      else if decide (q + expOf e ≥ 0) = true then exEvenMain C s (expOf e) f
      else .ok (⟨0, s ||| 0x3040000000000000⟩, f ||| c_StatusFlags_BID_INEXACT_EXCEPTION)

def exNAFin (x : U128) (f : UInt32) (s e : UInt64) (C : U128) : Except String (U128 × UInt32) :=
  if decide (e ≤ 0x2ffa000000000000) = true then
    .ok (⟨0, s ||| 0x3040000000000000⟩, f ||| c_StatusFlags_BID_INEXACT_EXCEPTION)
  else
    withQ C fun q =>
      if decide (expOf e ≥ 0) = true then .ok (⟨x.w0, x.w1⟩, f)
      else if decide (q + expOf e ≥ 0) = true then exAwayMain C s (expOf e) f
      else .ok (⟨0, s ||| 0x3040000000000000⟩, f ||| c_StatusFlags_BID_INEXACT_EXCEPTION)

def exDownFin (x : U128) (f : UInt32) (s e : UInt64) (C : U128) : Except String (U128 × UInt32) :=
  if decide (e ≤ 0x2ffc000000000000) = true then
    if (s != 0) = true then .ok (⟨1, 0xb040000000000000⟩, f ||| c_StatusFlags_BID_INEXACT_EXCEPTION)
    else .ok (⟨0, 0x3040000000000000⟩, f ||| c_StatusFlags_BID_INEXACT_EXCEPTION)
  else
    withQ C fun q =>
      if decide (expOf e ≥ 0) = true then .ok (⟨x.w0, x.w1⟩, f)
      else if decide (q + expOf e > 0) = true then exFloorMain C s (expOf e) f
      else if (s != 0) = true then .ok (⟨1, 0xb040000000000000⟩, f ||| c_StatusFlags_BID_INEXACT_EXCEPTION)
      else .ok (⟨0, 0x3040000000000000⟩, f ||| c_StatusFlags_BID_INEXACT_EXCEPTION)

def exUpFin (x : U128) (f : UInt32) (s e : UInt64) (C : U128) : Except String (U128 × UInt32) :=
  if decide (e ≤ 0x2ffc000000000000) = true then
    if (s != 0) = true then .ok (⟨0, 0xb040000000000000⟩, f ||| c_StatusFlags_BID_INEXACT_EXCEPTION)
    else .ok (⟨1, 0x3040000000000000⟩, f ||| c_StatusFlags_BID_INEXACT_EXCEPTION)
  else
    withQ C fun q =>
      if decide (expOf e ≥ 0) = true then .ok (⟨x.w0, x.w1⟩, f)
      else if decide (q + expOf e > 0) = true then exCeilMain C s (expOf e) f
      else if (s != 0) = true then .ok (⟨0, 0xb040000000000000⟩, f ||| c_StatusFlags_BID_INEXACT_EXCEPTION)
      else .ok (⟨1, 0x3040000000000000⟩, f ||| c_StatusFlags_BID_INEXACT_EXCEPTION)

def exTZFin (x : U128) (f : UInt32) (s e : UInt64) (C : U128) : Except String (U128 × UInt32) :=
  if decide (e ≤ 0x2ffc000000000000) = true then
    .ok (⟨0, s ||| 0x3040000000000000⟩, f ||| c_StatusFlags_BID_INEXACT_EXCEPTION)
  else
    withQ C fun q =>
      if decide (expOf e ≥ 0) = true then .ok (⟨x.w0, x.w1⟩, f)
      else if decide (q + expOf e > 0) = true then exTruncMain C s (expOf e) f
      else .ok (⟨0, s ||| 0x3040000000000000⟩, f ||| c_StatusFlags_BID_INEXACT_EXCEPTION)

theorem exNE_unfold (x : U128) (f : UInt32) :
    bid128_round_integral_exact x .NearestEven f = frontEnd x f (exNEFin x f) := by
  rw [← frontEndB_eq]
  simp only [bid128_round_integral_exact, beq_self_eq_true, rm_NE_NA, rm_NE_Dn, rm_NE_Up, rm_NE_TZ, Bool.or_false, Bool.or_true, Bool.true_or,
    Bool.false_or, if_true, if_false, Bool.false_eq_true]
  simp only [frontEndB, exNEFin, exEvenMain, specialRes, withQ, expOf, bind, Except.bind, pure, Except.pure, beq_self_eq_true, Bool.and_self,
    if_true]

theorem exNA_unfold (x : U128) (f : UInt32) :
    bid128_round_integral_exact x .NearestAway f = frontEnd x f (exNAFin x f) := by
  rw [← frontEndB_eq]
  simp only [bid128_round_integral_exact, beq_self_eq_true, rm_NA_NE, rm_NA_Dn, rm_NA_Up, rm_NA_TZ, Bool.or_false, Bool.or_true, Bool.true_or,
    Bool.false_or, if_true, if_false, Bool.false_eq_true]
  simp only [frontEndB, exNAFin, exAwayMain, specialRes, withQ, expOf, bind, Except.bind, pure, Except.pure, beq_self_eq_true, Bool.and_self,
    if_true]

theorem exDn_unfold (x : U128) (f : UInt32) :
    bid128_round_integral_exact x .Downward f = frontEnd x f (exDownFin x f) := by
  rw [← frontEndB_eq]
  simp only [bid128_round_integral_exact, beq_self_eq_true, rm_Dn_NE, rm_Dn_NA, rm_Dn_Up, rm_Dn_TZ, Bool.or_false, Bool.or_true, Bool.true_or,
    Bool.false_or, if_true, if_false, Bool.false_eq_true]
  simp only [frontEndB, exDownFin, exFloorMain, specialRes, withQ, expOf, bind, Except.bind, pure, Except.pure, beq_self_eq_true, Bool.and_self,
    if_true]

theorem exUp_unfold (x : U128) (f : UInt32) :
    bid128_round_integral_exact x .Upward f = frontEnd x f (exUpFin x f) := by
  rw [← frontEndB_eq]
  simp only [bid128_round_integral_exact, beq_self_eq_true, rm_Up_NE, rm_Up_NA, rm_Up_Dn, rm_Up_TZ, Bool.or_false, Bool.or_true, Bool.true_or,
    Bool.false_or, if_true, if_false, Bool.false_eq_true]
  simp only [frontEndB, exUpFin, exCeilMain, specialRes, withQ, expOf, bind, Except.bind, pure, Except.pure, beq_self_eq_true, Bool.and_self,
    if_true]

theorem exTZ_unfold (x : U128) (f : UInt32) :
    bid128_round_integral_exact x .TowardZero f = frontEnd x f (exTZFin x f) := by
  rw [← frontEndB_eq]
  simp only [bid128_round_integral_exact, beq_self_eq_true, rm_TZ_NE, rm_TZ_NA, rm_TZ_Dn, rm_TZ_Up, Bool.or_false, Bool.or_true, Bool.true_or,
    Bool.false_or, if_true, if_false, Bool.false_eq_true]
  simp only [frontEndB, exTZFin, exTruncMain, specialRes, withQ, expOf, bind, Except.bind, pure, Except.pure, beq_self_eq_true, Bool.and_self,
    if_true]

/-! ## `bid128_round_integral_exact`: semantics -/

/-! ### the inexactness test of the nearest modes -/

/-- With `K·2H = 2·E₂ + δ`, `0 < δ`, `(q + 1)·δ < K` and `r < 2H`: the discarded part `F = q·δ + r·K` lies strictly above one
half `E₂` by less than `K` iff `r = H` — the remainder left after adding the midpoint is exactly the midpoint, i.e. the
operand was an integer. -/
theorem exact_iff (K δ q r H E2 : Nat) (hK : K * (2 * H) = 2 * E2 + δ) (hδ : 0 < δ) (hq : (q + 1) * δ < K) (hr : r < 2 * H) :
    (E2 < q * δ + r * K ∧ q * δ + r * K - E2 < K) ↔ r = H := by
  rw [Nat.add_mul, Nat.one_mul] at hq
  have hHK : 2 * (H * K) = 2 * E2 + δ := by rw [← hK]; ring
  generalize q * δ = a at *
  constructor
  · rintro ⟨h1, h2⟩
    by_contra hne
    rcases Nat.lt_or_gt_of_ne hne with hlt | hgt
    · -- r ≤ H − 1
      have : r * K + K ≤ H * K := by
        have := Nat.mul_le_mul_right K (show r + 1 ≤ H by omega)
        rwa [Nat.add_mul, Nat.one_mul] at this
      generalize r * K = rk at *
      generalize H * K = hk at *
      omega
    · have : H * K + K ≤ r * K := by
        have := Nat.mul_le_mul_right K (show H + 1 ≤ r by omega)
        rwa [Nat.add_mul, Nat.one_mul] at this
      generalize r * K = rk at *
      generalize H * K = hk at *
      omega
  · rintro rfl
    generalize r * K = hk at *
    omega

namespace Recip
variable {C : U128} {exp : Int32} {c x : Nat} {t : U128} {v : U256} {sh : Int32} {mk oh : UInt64} {sN δ : Nat}

/-- the exactness test at the Nat level: `f*` exceeds one half by less than the reciprocal iff the remainder is the midpoint -/
theorem exact_test (R : Recip C exp c x t v sh mk oh sN δ) (hx : 1 ≤ x) :
    (2 ^ (127 + sN) < c * val128 t % 2 ^ (128 + sN) ∧ c * val128 t % 2 ^ (128 + sN) - 2 ^ (127 + sN) < val128 t)
      ↔ c % 10 ^ x = 5 * 10 ^ (x - 1) := by
  rw [R.hmod]
  have hK := R.hK
  rw [half_pow x hx, show 128 + sN = (127 + sN) + 1 by omega, Nat.pow_succ, Nat.mul_comm (2 ^ (127 + sN)) 2] at hK
  have hr : c % 10 ^ x < 2 * (5 * 10 ^ (x - 1)) := by rw [← half_pow x hx]; exact Nat.mod_lt _ (Nat.pow_pos (by decide))
  exact exact_iff _ _ _ _ _ _ hK R.dpos R.small hr

/-- the whole inexactness test of the nearest modes, first word-position case: `a` = inexact, `b` = exact -/
theorem nearA (R : Recip C exp c x t v sh mk oh sN δ) (hx1 : 1 ≤ x) (hx : x ≤ 3) {α : Type} (a b : α) :
    (if (decide (v.w1 > 0x8000000000000000) || v.w1 == 0x8000000000000000 && decide (v.w0 > 0)) = true then
      (if (decide (v.w1 - 0x8000000000000000 > t.w1) || v.w1 - 0x8000000000000000 == t.w1 && decide (v.w0 ≥ t.w0)) = true
        then a else b)
     else a) = if c % 10 ^ x = 5 * 10 ^ (x - 1) then b else a := by
  have h0 := v.w0.toNat_lt; have h1 := v.w1.toNat_lt; have k0 := t.w0.toNat_lt; have k1 := t.w1.toNat_lt
  have hF := R.fA hx
  have hT := R.exact_test hx1
  rw [R.sA hx] at hF hT
  rw [← hF] at hT
  rw [gt128, show (0x8000000000000000 : UInt64).toNat = 2^63 from rfl, show (0 : UInt64).toNat = 0 from rfl]
  by_cases p1 : 2^63 * 2^64 + 0 < v.w1.toNat * 2^64 + v.w0.toNat
  · rw [if_pos (by simpa using p1)]
    have hsub : (v.w1 - 0x8000000000000000).toNat = v.w1.toNat - 2^63 := by
      rw [UInt64.toNat_sub_of_le _ _ (by rw [UInt64.le_iff_toNat_le]; show 2^63 ≤ _; omega)]; rfl
    rw [Dec.C06GenFromInt.ge128, hsub]
    by_cases p2 : (v.w1.toNat - 2^63) * 2^64 + v.w0.toNat ≥ t.w1.toNat * 2^64 + t.w0.toNat
    · rw [if_pos (by simpa using p2), if_neg (fun h => by have := hT.2 h; unfold val128 at this; omega)]
    · rw [if_neg (by simpa using p2), if_pos (hT.1 ⟨by omega, by unfold val128; omega⟩)]
  · rw [if_neg (by simpa using p1), if_neg (fun h => by have := hT.2 h; omega)]

/-- the whole inexactness test of the nearest modes, second word-position case -/
theorem nearB (R : Recip C exp c x t v sh mk oh sN δ) (hx1 : 3 < x) (hx2 : x ≤ 22) {α : Type} (a b : α) :
    (if (decide (v.w2 &&& mk > oh) || v.w2 &&& mk == oh && (v.w1 != 0 || v.w0 != 0)) = true then
      (if ((v.w2 &&& mk) - oh != 0 || decide (v.w1 > t.w1) || v.w1 == t.w1 && decide (v.w0 ≥ t.w0)) = true then a else b)
     else a) = if c % 10 ^ x = 5 * 10 ^ (x - 1) then b else a := by
  have h0 := v.w0.toNat_lt; have h1 := v.w1.toNat_lt; have k0 := t.w0.toNat_lt; have k1 := t.w1.toNat_lt
  obtain ⟨s1, s2⟩ := R.sB hx1 hx2
  have hF := R.fB hx1 hx2
  have hT := R.exact_test (by omega)
  have hoh : oh.toNat = 2 ^ (sN - 1) := by rw [R.ohv, Nat.mod_eq_of_lt (by omega), if_neg (by omega)]
  have hhalf : 2 ^ (127 + sN) = 2 ^ (sN - 1) * 2 ^ 128 := by rw [← Nat.pow_add]; congr 1; omega
  rw [← hF, hhalf, ← hoh] at hT
  unfold val128 at hT
  generalize (v.w2 &&& mk) = m at *
  have hm := m.toNat_lt
  have hol := oh.toNat_lt
  by_cases p1 : oh.toNat * 2^128 < m.toNat * 2^128 + v.w1.toNat * 2^64 + v.w0.toNat
  · have hle : oh ≤ m := by rw [UInt64.le_iff_toNat_le]; omega
    have c1 : (decide (m > oh) || m == oh && (v.w1 != 0 || v.w0 != 0)) = true := by
      simp only [Bool.or_eq_true, Bool.and_eq_true, decide_eq_true_eq, bne_iff_ne, ne_eq, beq_iff_eq, gt_iff_lt,
        UInt64.lt_iff_toNat_lt, ← UInt64.toNat_inj, UInt64.toNat_zero]
      omega
    rw [if_pos c1]
    by_cases p2 : t.w1.toNat * 2^64 + t.w0.toNat ≤ m.toNat * 2^128 + v.w1.toNat * 2^64 + v.w0.toNat - oh.toNat * 2^128
    · have c2 : (m - oh != 0 || decide (v.w1 > t.w1) || v.w1 == t.w1 && decide (v.w0 ≥ t.w0)) = true := by
        simp only [Bool.or_eq_true, Bool.and_eq_true, decide_eq_true_eq, bne_iff_ne, ne_eq, beq_iff_eq, gt_iff_lt, ge_iff_le,
          UInt64.lt_iff_toNat_lt, UInt64.le_iff_toNat_le, ← UInt64.toNat_inj, UInt64.toNat_zero, UInt64.toNat_sub_of_le _ _ hle]
        omega
      rw [if_pos c2, if_neg (fun h => by have := hT.2 h; omega)]
    · have c2 : ¬ (m - oh != 0 || decide (v.w1 > t.w1) || v.w1 == t.w1 && decide (v.w0 ≥ t.w0)) = true := by
        simp only [Bool.or_eq_true, Bool.and_eq_true, decide_eq_true_eq, bne_iff_ne, ne_eq, beq_iff_eq, gt_iff_lt, ge_iff_le,
          UInt64.lt_iff_toNat_lt, UInt64.le_iff_toNat_le, ← UInt64.toNat_inj, UInt64.toNat_zero, UInt64.toNat_sub_of_le _ _ hle]
        omega
      rw [if_neg c2, if_pos (hT.1 ⟨p1, by omega⟩)]
  · have c1 : ¬ (decide (m > oh) || m == oh && (v.w1 != 0 || v.w0 != 0)) = true := by
      simp only [Bool.or_eq_true, Bool.and_eq_true, decide_eq_true_eq, bne_iff_ne, ne_eq, beq_iff_eq, gt_iff_lt,
        UInt64.lt_iff_toNat_lt, ← UInt64.toNat_inj, UInt64.toNat_zero]
      omega
    rw [if_neg c1, if_neg (fun h => p1 (hT.2 h).1)]

/-- the whole inexactness test of the nearest modes, third word-position case -/
theorem nearC (R : Recip C exp c x t v sh mk oh sN δ) (hx : 22 < x) {α : Type} (a b : α) :
    (if (decide (v.w3 &&& mk > oh) || v.w3 &&& mk == oh && (v.w2 != 0 || v.w1 != 0 || v.w0 != 0)) = true then
      (if ((v.w3 &&& mk) - oh != 0 || v.w2 != 0 || decide (v.w1 > t.w1) || v.w1 == t.w1 && decide (v.w0 ≥ t.w0)) = true
        then a else b)
     else a) = if c % 10 ^ x = 5 * 10 ^ (x - 1) then b else a := by
  have h0 := v.w0.toNat_lt; have h1 := v.w1.toNat_lt; have h2 := v.w2.toNat_lt
  have k0 := t.w0.toNat_lt; have k1 := t.w1.toNat_lt
  obtain ⟨s1, s2⟩ := R.sC hx
  have hF := R.fC hx
  have hT := R.exact_test (by omega)
  have hoh : oh.toNat = 2 ^ (sN - 65) := by
    rw [R.ohv, show sN % 64 = sN - 64 by omega, if_neg (by omega), show sN - 64 - 1 = sN - 65 by omega]
  have hhalf : 2 ^ (127 + sN) = 2 ^ (sN - 65) * 2 ^ 192 := by rw [← Nat.pow_add]; congr 1; omega
  rw [← hF, hhalf, ← hoh] at hT
  unfold val128 at hT
  generalize (v.w3 &&& mk) = m at *
  have hm := m.toNat_lt
  have hol := oh.toNat_lt
  by_cases p1 : oh.toNat * 2^192 < m.toNat * 2^192 + v.w2.toNat * 2^128 + v.w1.toNat * 2^64 + v.w0.toNat
  · have hle : oh ≤ m := by rw [UInt64.le_iff_toNat_le]; omega
    have c1 : (decide (m > oh) || m == oh && (v.w2 != 0 || v.w1 != 0 || v.w0 != 0)) = true := by
      simp only [Bool.or_eq_true, Bool.and_eq_true, decide_eq_true_eq, bne_iff_ne, ne_eq, beq_iff_eq, gt_iff_lt,
        UInt64.lt_iff_toNat_lt, ← UInt64.toNat_inj, UInt64.toNat_zero]
      omega
    rw [if_pos c1]
    by_cases p2 : t.w1.toNat * 2^64 + t.w0.toNat ≤
        m.toNat * 2^192 + v.w2.toNat * 2^128 + v.w1.toNat * 2^64 + v.w0.toNat - oh.toNat * 2^192
    · have c2 : (m - oh != 0 || v.w2 != 0 || decide (v.w1 > t.w1) || v.w1 == t.w1 && decide (v.w0 ≥ t.w0)) = true := by
        simp only [Bool.or_eq_true, Bool.and_eq_true, decide_eq_true_eq, bne_iff_ne, ne_eq, beq_iff_eq, gt_iff_lt, ge_iff_le,
          UInt64.lt_iff_toNat_lt, UInt64.le_iff_toNat_le, ← UInt64.toNat_inj, UInt64.toNat_zero, UInt64.toNat_sub_of_le _ _ hle]
        omega
      rw [if_pos c2, if_neg (fun h => by have := hT.2 h; omega)]
    · have c2 : ¬ (m - oh != 0 || v.w2 != 0 || decide (v.w1 > t.w1) || v.w1 == t.w1 && decide (v.w0 ≥ t.w0)) = true := by
        simp only [Bool.or_eq_true, Bool.and_eq_true, decide_eq_true_eq, bne_iff_ne, ne_eq, beq_iff_eq, gt_iff_lt, ge_iff_le,
          UInt64.lt_iff_toNat_lt, UInt64.le_iff_toNat_le, ← UInt64.toNat_inj, UInt64.toNat_zero, UInt64.toNat_sub_of_le _ _ hle]
        omega
      rw [if_neg c2, if_pos (hT.1 ⟨p1, by omega⟩)]
  · have c1 : ¬ (decide (m > oh) || m == oh && (v.w2 != 0 || v.w1 != 0 || v.w0 != 0)) = true := by
      simp only [Bool.or_eq_true, Bool.and_eq_true, decide_eq_true_eq, bne_iff_ne, ne_eq, beq_iff_eq, gt_iff_lt,
        UInt64.lt_iff_toNat_lt, ← UInt64.toNat_inj, UInt64.toNat_zero]
      omega
    rw [if_neg c1, if_neg (fun h => p1 (hT.2 h).1)]

end Recip


/-! ### the specification with the inexact flag -/

/-- the rounding mode of the model for a rounding mode of the library (same numbering) -/
def modeOf : RoundingMode → Mode
  | .NearestEven => .rne | .Downward => .rdn | .Upward => .rup | .TowardZero => .rtz | .NearestAway => .rna

/-- the status word after `round_integral_exact`: `invalid` for a signalling NaN, `inexact` (0x20) iff the value changed -/
def riFlagsX (f : UInt32) (mode : Mode) (d : Datum) : UInt32 :=
  if d.isSNaN then f ||| 1 else if (toIntegralD mode d).2 then f ||| 0x20 else f

theorem riFlagsX_unchanged (f : UInt32) (mode : Mode) (d : Datum) (h : (toIntegralD mode d).2 = false) :
    riFlagsX f mode d = riFlags f d := by
  unfold riFlagsX riFlags
  rw [h]; simp

theorem riFlagsX_nonneg (f : UInt32) (mode : Mode) (s : Bool) (c E : Nat) (hE : 6176 ≤ E) :
    riFlagsX f mode (.fin s c ((E : Int) - 6176)) = f := by
  rw [riFlagsX_unchanged _ _ _ (by rw [C08.integral_unchanged mode s c _ (by omega)])]; rfl

theorem riFlagsX_neg (f : UInt32) (mode : Mode) (s : Bool) (c E : Nat) (hE : E < 6176) :
    riFlagsX f mode (.fin s c ((E : Int) - 6176)) =
      if c % 10 ^ (6176 - E) ≠ 0 then f ||| c_StatusFlags_BID_INEXACT_EXCEPTION else f := by
  unfold riFlagsX
  rw [C08.integral_rounded mode s c _ (by omega), show (-((E : Int) - 6176)).toNat = 6176 - E by omega]
  simp only [Datum.isSNaN, Bool.false_eq_true, if_false, bne_iff_ne, ne_eq]
  rfl

theorem mid_rem (c H D : Nat) (hD : D = 2 * H) (hH : 0 < H) : (c + H) % D = H ↔ c % D = 0 := by
  have hDpos : 0 < D := by omega
  have hdm := Nat.div_add_mod c D
  have hr := Nat.mod_lt c hDpos
  generalize c / D = q at *
  generalize c % D = r at *
  have e : c + H = D * q + (r + H) := by omega
  rw [e, Nat.mul_add_mod]
  by_cases h : r + H < D
  · rw [Nat.mod_eq_of_lt h]; omega
  · rw [Nat.mod_eq_sub_mod (by omega), Nat.mod_eq_of_lt (by omega)]; omega

/-! ### the five digit-removal blocks -/

theorem pair_flag {α β : Type} (p : Prop) [Decidable p] (r : α) (f g : β) :
    (if p then (r, f) else (r, g)) = (r, if p then f else g) := by split <;> rfl

/-- **`round_integral_exact`, nearest-away, after the midpoint addition**: the value as `awayTail`, `inexact` unless the
remainder left is exactly the midpoint -/
theorem exAwayTail_spec (C : U128) (S : UInt64) (exp : Int32) (f : UInt32) (s : Bool) (c x : Nat)
    (hc : val128 C = c) (hlt : c < 10 ^ 35) (hx1 : 1 ≤ x) (hx2 : x ≤ 34) (hexp : exp.toInt = -(x : Int))
    (hS : S.toNat = if s then 2^63 else 0) :
    exAwayTail C S exp f = .ok (ofBits (encode (.fin s (c / 10 ^ x) 0)),
      if c % 10 ^ x = 5 * 10 ^ (x - 1) then f else f ||| c_StatusFlags_BID_INEXACT_EXCEPTION) := by
  obtain ⟨t, v, sh, mk, oh, sN, δ, R⟩ := recip_exists C exp c x hc hlt hx1 hx2 hexp
  have hm := quot_lt c x hlt hx1
  simp only [exAwayTail, bind, pure, Except.pure, bind_ok', ite_ok, R.ht, R.hv, R.hsh, R.hmk, R.hoh, ite_true_bool, ite_false_bool,
    Bool.decide_eq_true]
  by_cases b1 : x ≤ 3
  · rw [if_pos (R.c1.2 b1), R.nearA hx1 b1, pair_flag, mk_result S s hS ⟨v.w2, v.w3⟩ _ (R.qA b1) hm]
  · rw [if_neg (fun h => b1 (R.c1.1 h))]
    by_cases b2 : x ≤ 22
    · rw [if_pos (R.c2.2 b2), R.nearB (by omega) b2, pair_flag]
      exact congrArg (fun r => Except.ok (r, _)) (mk_result S s hS _ _ (R.qB (by omega) b2) hm)
    · rw [if_neg (fun h => b2 (R.c2.1 h)), R.nearC (by omega), pair_flag]
      exact congrArg (fun r => Except.ok (r, _)) (mk_result S s hS _ _ (R.qC (by omega)) hm)

theorem even_finish_x (S : UInt64) (s : Bool) (hS : S.toNat = if s then 2^63 else 0) (r : U128) (q rem : Nat)
    (hq : val128 r = q) (hlt : q < 2^113) (f g : UInt32) (p : Prop) [Decidable p] :
    (if (r.w0 &&& 1 == 1 && decide (rem = 0)) = true then
        (if p then ((⟨r.w0 - 1, r.w1 ||| (S ||| 0x3040000000000000)⟩ : U128), f)
          else (⟨r.w0 - 1, r.w1 ||| (S ||| 0x3040000000000000)⟩, g))
      else (if p then (⟨r.w0, r.w1 ||| (S ||| 0x3040000000000000)⟩, f) else (⟨r.w0, r.w1 ||| (S ||| 0x3040000000000000)⟩, g)))
      = (ofBits (encode (.fin s (if rem = 0 ∧ q % 2 = 1 then q - 1 else q) 0)), if p then f else g) := by
  by_cases hp : p
  · simp only [hp, if_true]; exact even_finish S s hS r q rem hq hlt f
  · simp only [hp, if_false]; exact even_finish S s hS r q rem hq hlt g

/-- **`round_integral_exact`, nearest-even, after the midpoint addition** -/
theorem exEvenTail_spec (C : U128) (S : UInt64) (exp : Int32) (f : UInt32) (s : Bool) (c x : Nat)
    (hc : val128 C = c) (hlt : c < 10 ^ 35) (hx1 : 1 ≤ x) (hx2 : x ≤ 34) (hexp : exp.toInt = -(x : Int))
    (hS : S.toNat = if s then 2^63 else 0) :
    exEvenTail C S exp f = .ok (ofBits (encode (.fin s
      (if c % 10 ^ x = 0 ∧ c / 10 ^ x % 2 = 1 then c / 10 ^ x - 1 else c / 10 ^ x) 0)),
      if c % 10 ^ x = 5 * 10 ^ (x - 1) then f else f ||| c_StatusFlags_BID_INEXACT_EXCEPTION) := by
  obtain ⟨t, v, sh, mk, oh, sN, δ, R⟩ := recip_exists C exp c x hc hlt hx1 hx2 hexp
  have hm := quot_lt c x hlt hx1
  simp only [exEvenTail, bind, pure, Except.pure, bind_ok', ite_ok, R.ht, R.hv, R.hsh, R.hmk, R.hoh, ite_true_bool, ite_false_bool,
    Bool.decide_eq_true, Bool.and_assoc]
  by_cases b1 : x ≤ 3
  · rw [if_pos (R.c1.2 b1), R.ltA b1, R.nearA hx1 b1, R.nearA hx1 b1]
    exact congrArg Except.ok (even_finish_x S s hS ⟨v.w2, v.w3⟩ _ _ (R.qA b1) hm _ _ _)
  · rw [if_neg (fun h => b1 (R.c1.1 h))]
    by_cases b2 : x ≤ 22
    · rw [if_pos (R.c2.2 b2), R.ltB (by omega) b2, R.nearB (by omega) b2, R.nearB (by omega) b2]
      exact congrArg Except.ok (even_finish_x S s hS _ _ _ (R.qB (by omega) b2) hm _ _ _)
    · rw [if_neg (fun h => b2 (R.c2.1 h)), R.ltC (by omega), R.nearC (by omega), R.nearC (by omega)]
      exact congrArg Except.ok (even_finish_x S s hS _ _ _ (R.qC (by omega)) hm _ _ _)


theorem exAwayMain_eq (C : U128) (S : UInt64) (exp : Int32) (f : UInt32) :
    exAwayMain C S exp f = (addMid C exp).bind fun C' => exAwayTail C' S exp f := by
  ri_mid C exp [exAwayMain, exAwayTail]

theorem exEvenMain_eq (C : U128) (S : UInt64) (exp : Int32) (f : UInt32) :
    exEvenMain C S exp f = (addMid C exp).bind fun C' => exEvenTail C' S exp f := by
  ri_mid C exp [exEvenMain, exEvenTail]

/-- **`round_integral_exact`, toward zero: digit removal** -/
theorem exTruncMain_spec (C : U128) (S : UInt64) (exp : Int32) (f : UInt32) (s : Bool) (c x : Nat)
    (hc : val128 C = c) (hlt : c < P34) (hx1 : 1 ≤ x) (hx2 : x ≤ 33) (hexp : exp.toInt = -(x : Int))
    (hS : S.toNat = if s then 2^63 else 0) :
    exTruncMain C S exp f = .ok (ofBits (encode (.fin s (c / 10 ^ x) 0)),
      if c % 10 ^ x ≠ 0 then f ||| c_StatusFlags_BID_INEXACT_EXCEPTION else f) := by
  have hlt' : c < 10 ^ 35 := Nat.lt_trans hlt (by decide)
  obtain ⟨t, v, sh, mk, oh, sN, δ, R⟩ := recip_exists C exp c x hc hlt' hx1 (by omega) hexp
  have hm := quot_lt c x hlt' hx1
  simp only [exTruncMain, bind, pure, Except.pure, bind_ok', ite_ok, R.ht, R.hv, R.hsh, R.hmk, ite_true_bool, ite_false_bool,
    Bool.decide_eq_true]
  by_cases b1 : x ≤ 3
  · rw [if_pos (R.c1.2 b1), R.geA b1, pair_flag, mk_result S s hS ⟨v.w2, v.w3⟩ _ (R.qA b1) hm]
    simp only [decide_eq_true_eq]
  · rw [if_neg (fun h => b1 (R.c1.1 h))]
    by_cases b2 : x ≤ 22
    · rw [if_pos (R.c2.2 b2), R.geB (by omega) b2, pair_flag]
      simp only [decide_eq_true_eq]
      exact congrArg (fun r => Except.ok (r, _)) (mk_result S s hS _ _ (R.qB (by omega) b2) hm)
    · rw [if_neg (fun h => b2 (R.c2.1 h)), R.geC (by omega), pair_flag]
      simp only [decide_eq_true_eq]
      exact congrArg (fun r => Except.ok (r, _)) (mk_result S s hS _ _ (R.qC (by omega)) hm)

theorem exfloor_finish (S : UInt64) (s : Bool) (hS : S.toNat = if s then 2^63 else 0) (r : U128) (q rem : Nat)
    (hq : val128 r = q) (hlt : q + 1 < 2^113) (f g : UInt32) :
    (if decide (rem ≠ 0) = true then
        (if s = true then ((⟨(inc128 r).w0, (inc128 r).w1 ||| (S ||| 0x3040000000000000)⟩ : U128), g)
         else (⟨r.w0, r.w1 ||| (S ||| 0x3040000000000000)⟩, g))
      else (⟨r.w0, r.w1 ||| (S ||| 0x3040000000000000)⟩, f))
      = (ofBits (encode (.fin s (if rem ≠ 0 ∧ s = true then q + 1 else q) 0)), if rem ≠ 0 then g else f) := by
  have e1 := mk_result S s hS r q hq (by omega)
  have e2 := mk_result S s hS (inc128 r) (q + 1) (by rw [inc128_val r (by omega), hq]) hlt
  by_cases hr : rem = 0 <;> cases s <;>
    simp only [hr, e1, e2, ne_eq, decide_true, decide_false, if_true, if_false, Bool.false_eq_true, and_true, and_false,
      not_true_eq_false, not_false_eq_true, false_and, true_and, decide_not, Bool.not_true, Bool.not_false]

theorem exceil_finish (S : UInt64) (s : Bool) (hS : S.toNat = if s then 2^63 else 0) (r : U128) (q rem : Nat)
    (hq : val128 r = q) (hlt : q + 1 < 2^113) (f g : UInt32) :
    (if decide (rem ≠ 0) = true then
        (if (!s) = true then ((⟨(inc128 r).w0, (inc128 r).w1 ||| (S ||| 0x3040000000000000)⟩ : U128), g)
         else (⟨r.w0, r.w1 ||| (S ||| 0x3040000000000000)⟩, g))
      else (⟨r.w0, r.w1 ||| (S ||| 0x3040000000000000)⟩, f))
      = (ofBits (encode (.fin s (if rem ≠ 0 ∧ s = false then q + 1 else q) 0)), if rem ≠ 0 then g else f) := by
  have e1 := mk_result S s hS r q hq (by omega)
  have e2 := mk_result S s hS (inc128 r) (q + 1) (by rw [inc128_val r (by omega), hq]) hlt
  by_cases hr : rem = 0 <;> cases s <;>
    simp only [hr, e1, e2, ne_eq, decide_true, decide_false, if_true, if_false, Bool.false_eq_true, and_true, and_false,
      not_true_eq_false, not_false_eq_true, false_and, true_and, decide_not, Bool.not_true, Bool.not_false, Bool.true_eq_false]

/-- **`round_integral_exact`, downward: digit removal** -/
theorem exFloorMain_spec (C : U128) (S : UInt64) (exp : Int32) (f : UInt32) (s : Bool) (c x : Nat)
    (hc : val128 C = c) (hlt : c < P34) (hx1 : 1 ≤ x) (hx2 : x ≤ 33) (hexp : exp.toInt = -(x : Int))
    (hS : S.toNat = if s then 2^63 else 0) :
    exFloorMain C S exp f = .ok (ofBits (encode (.fin s (roundInt .rdn s (c / 10 ^ x) (c % 10 ^ x) (10 ^ x)) 0)),
      if c % 10 ^ x ≠ 0 then f ||| c_StatusFlags_BID_INEXACT_EXCEPTION else f) := by
  obtain ⟨t, v, sh, mk, oh, sN, δ, R⟩ := recip_exists C exp c x hc (Nat.lt_trans hlt (by decide)) hx1 (by omega) hexp
  have hm : c / 10 ^ x + 1 < 2 ^ 113 := by
    have : c / 10 ^ x ≤ c := Nat.div_le_self _ _
    have : c < 2^113 - 1 := Nat.lt_trans hlt (by decide)
    omega
  simp only [exFloorMain, bind, pure, Except.pure, bind_ok', ite_ok, R.ht, R.hv, R.hsh, R.hmk, ite_true_bool, ite_false_bool,
    Bool.decide_eq_true]
  rw [sign_ne_zero S s hS, roundInt_rdn]
  by_cases b1 : x ≤ 3
  · rw [if_pos (R.c1.2 b1), R.geA b1, inc_res]
    exact congrArg Except.ok (exfloor_finish S s hS ⟨v.w2, v.w3⟩ _ _ (R.qA b1) hm f _)
  · rw [if_neg (fun h => b1 (R.c1.1 h))]
    by_cases b2 : x ≤ 22
    · rw [if_pos (R.c2.2 b2), R.geB (by omega) b2, inc_res]
      exact congrArg Except.ok (exfloor_finish S s hS _ _ _ (R.qB (by omega) b2) hm f _)
    · rw [if_neg (fun h => b2 (R.c2.1 h)), R.geC (by omega), inc_res]
      exact congrArg Except.ok (exfloor_finish S s hS _ _ _ (R.qC (by omega)) hm f _)

/-- **`round_integral_exact`, upward: digit removal** -/
theorem exCeilMain_spec (C : U128) (S : UInt64) (exp : Int32) (f : UInt32) (s : Bool) (c x : Nat)
    (hc : val128 C = c) (hlt : c < P34) (hx1 : 1 ≤ x) (hx2 : x ≤ 33) (hexp : exp.toInt = -(x : Int))
    (hS : S.toNat = if s then 2^63 else 0) :
    exCeilMain C S exp f = .ok (ofBits (encode (.fin s (roundInt .rup s (c / 10 ^ x) (c % 10 ^ x) (10 ^ x)) 0)),
      if c % 10 ^ x ≠ 0 then f ||| c_StatusFlags_BID_INEXACT_EXCEPTION else f) := by
  obtain ⟨t, v, sh, mk, oh, sN, δ, R⟩ := recip_exists C exp c x hc (Nat.lt_trans hlt (by decide)) hx1 (by omega) hexp
  have hm : c / 10 ^ x + 1 < 2 ^ 113 := by
    have : c / 10 ^ x ≤ c := Nat.div_le_self _ _
    have : c < 2^113 - 1 := Nat.lt_trans hlt (by decide)
    omega
  simp only [exCeilMain, bind, pure, Except.pure, bind_ok', ite_ok, R.ht, R.hv, R.hsh, R.hmk, ite_true_bool, ite_false_bool,
    Bool.decide_eq_true]
  rw [sign_eq_zero S s hS, roundInt_rup]
  by_cases b1 : x ≤ 3
  · rw [if_pos (R.c1.2 b1), R.geA b1, inc_res]
    exact congrArg Except.ok (exceil_finish S s hS ⟨v.w2, v.w3⟩ _ _ (R.qA b1) hm f _)
  · rw [if_neg (fun h => b1 (R.c1.1 h))]
    by_cases b2 : x ≤ 22
    · rw [if_pos (R.c2.2 b2), R.geB (by omega) b2, inc_res]
      exact congrArg Except.ok (exceil_finish S s hS _ _ _ (R.qB (by omega) b2) hm f _)
    · rw [if_neg (fun h => b2 (R.c2.1 h)), R.geC (by omega), inc_res]
      exact congrArg Except.ok (exceil_finish S s hS _ _ _ (R.qC (by omega)) hm f _)


/-- **`bid128_round_integral_exact`, rne, on finite non-zero operands** -/
theorem exNEFin_spec (x : U128) (f : UInt32) (s : Bool) (c E : Nat) (hv : FinView x s c E) :
    exNEFin x f (x.w1 &&& c_MASK_SIGN) (x.w1 &&& c_MASK_EXP) ⟨x.w0, x.w1 &&& c_MASK_COEFF⟩
      = .ok (ofBits (encode (riD .rne (decode (bitsOf x)))), riFlagsX f .rne (decode (bitsOf x))) := by
  obtain ⟨hdec, hpos, hlt, hE, hS, he, hc, henc⟩ := hv
  have h34 := ndigits_le_34 c hlt
  rw [hdec]
  unfold exNEFin
  by_cases t1 : E ≤ 6141
  · have hsm := lt_pow_of_digits c (6176 - E - 1) (by omega)
    have hsm' : c < 10 ^ (6176 - E) := by rw [half_pow (6176 - E) (by omega)]; omega
    rw [if_pos ((expword_le _ E he 0x2ffa000000000000 6141 (by decide)).2 t1), riD_neg_exp _ _ _ _ (by omega),
      tiny_nearest .rne (Or.inr rfl) s c _ (by omega) hsm, mk_zero _ s hS,
      riFlagsX_neg _ _ _ _ _ (by omega), Nat.mod_eq_of_lt hsm', if_pos (by omega)]
  · rw [if_neg (fun h => t1 ((expword_le _ E he 0x2ffa000000000000 6141 (by decide)).1 h))]
    obtain ⟨q, hq, qv⟩ := countQ_spec ⟨x.w0, x.w1 &&& c_MASK_COEFF⟩ (by rw [hc]; exact hpos)
      (by rw [hc]; exact Nat.lt_trans hlt (by decide))
    rw [hc] at qv
    have hexp := expOf_toInt _ E hE he
    simp only [withQ_eq, hq, Except.bind]
    by_cases t2 : 6176 ≤ E
    · rw [if_pos (by rw [decide_eq_true_eq, ge_iff_le, Int32.le_iff_toInt_le, hexp]; show (0 : Int) ≤ _; omega),
        riD_nonneg_exp _ _ _ _ t2, riFlagsX_nonneg _ _ _ _ _ t2, ← henc]
      exact congrArg (fun r => Except.ok (r, f)) (Dec.C06GenFromInt.ofBits_bitsOf x).symm
    · rw [if_neg (by rw [decide_eq_true_eq, ge_iff_le, Int32.le_iff_toInt_le, hexp]; show ¬ (0 : Int) ≤ _; omega),
        riD_neg_exp _ _ _ _ (by omega), riFlagsX_neg _ _ _ _ _ (by omega)]
      have hsum : (q + expOf (x.w1 &&& c_MASK_EXP)).toInt = (ndigits c : Int) + ((E : Int) - 6176) := by
        rw [i32_add _ _ (by omega) (by omega), qv, hexp]
      by_cases t3 : 6176 ≤ ndigits c + E
      · rw [if_pos (by rw [decide_eq_true_eq, ge_iff_le, Int32.le_iff_toInt_le, hsum]; show (0 : Int) ≤ _; omega)]
        have hx1 : 1 ≤ 6176 - E := by omega
        have hexp' : (expOf (x.w1 &&& c_MASK_EXP)).toInt = -((6176 - E : Nat) : Int) := by rw [hexp]; omega
        obtain ⟨C', hadd, hval⟩ := addMid_spec _ _ c (6176 - E) hc hlt hx1 (by omega) hexp'
        have hH : 5 * 10 ^ (6176 - E - 1) ≤ 5 * 10 ^ 33 :=
          Nat.mul_le_mul_left 5 (Nat.pow_le_pow_right (by decide) (by omega))
        have hP : c < 10 ^ 34 := hlt
        have hHpos : 0 < 5 * 10 ^ (6176 - E - 1) := Nat.mul_pos (by decide) (Nat.pow_pos (by decide))
        rw [exEvenMain_eq, hadd]
        simp only [Except.bind]
        rw [exEvenTail_spec C' _ _ f s _ (6176 - E) hval (by omega) hx1 (by omega) hexp' hS,
          rne_formula s c _ _ (half_pow _ hx1) hHpos]
        have hmid := mid_rem c _ _ (half_pow _ hx1) hHpos
        by_cases hr : c % 10 ^ (6176 - E) = 0
        · rw [if_pos (hmid.2 hr), if_neg (show ¬ (c % 10 ^ (6176 - E) ≠ 0) from fun h => h hr)]
        · rw [if_neg (fun h => hr (hmid.1 h)), if_pos (show c % 10 ^ (6176 - E) ≠ 0 from hr)]
      · have hsm := lt_pow_of_digits c (6176 - E - 1) (by omega)
        have hsm' : c < 10 ^ (6176 - E) := by rw [half_pow (6176 - E) (by omega)]; omega
        rw [if_neg (by rw [decide_eq_true_eq, ge_iff_le, Int32.le_iff_toInt_le, hsum]; show ¬ (0 : Int) ≤ _; omega),
          tiny_nearest .rne (Or.inr rfl) s c _ (by omega) hsm, mk_zero _ s hS, Nat.mod_eq_of_lt hsm', if_pos (by omega)]

/-- **`bid128_round_integral_exact`, rna, on finite non-zero operands** -/
theorem exNAFin_spec (x : U128) (f : UInt32) (s : Bool) (c E : Nat) (hv : FinView x s c E) :
    exNAFin x f (x.w1 &&& c_MASK_SIGN) (x.w1 &&& c_MASK_EXP) ⟨x.w0, x.w1 &&& c_MASK_COEFF⟩
      = .ok (ofBits (encode (riD .rna (decode (bitsOf x)))), riFlagsX f .rna (decode (bitsOf x))) := by
  obtain ⟨hdec, hpos, hlt, hE, hS, he, hc, henc⟩ := hv
  have h34 := ndigits_le_34 c hlt
  rw [hdec]
  unfold exNAFin
  by_cases t1 : E ≤ 6141
  · have hsm := lt_pow_of_digits c (6176 - E - 1) (by omega)
    have hsm' : c < 10 ^ (6176 - E) := by rw [half_pow (6176 - E) (by omega)]; omega
    rw [if_pos ((expword_le _ E he 0x2ffa000000000000 6141 (by decide)).2 t1), riD_neg_exp _ _ _ _ (by omega),
      tiny_nearest .rna (Or.inl rfl) s c _ (by omega) hsm, mk_zero _ s hS,
      riFlagsX_neg _ _ _ _ _ (by omega), Nat.mod_eq_of_lt hsm', if_pos (by omega)]
  · rw [if_neg (fun h => t1 ((expword_le _ E he 0x2ffa000000000000 6141 (by decide)).1 h))]
    obtain ⟨q, hq, qv⟩ := countQ_spec ⟨x.w0, x.w1 &&& c_MASK_COEFF⟩ (by rw [hc]; exact hpos)
      (by rw [hc]; exact Nat.lt_trans hlt (by decide))
    rw [hc] at qv
    have hexp := expOf_toInt _ E hE he
    simp only [withQ_eq, hq, Except.bind]
    by_cases t2 : 6176 ≤ E
    · rw [if_pos (by rw [decide_eq_true_eq, ge_iff_le, Int32.le_iff_toInt_le, hexp]; show (0 : Int) ≤ _; omega),
        riD_nonneg_exp _ _ _ _ t2, riFlagsX_nonneg _ _ _ _ _ t2, ← henc]
      exact congrArg (fun r => Except.ok (r, f)) (Dec.C06GenFromInt.ofBits_bitsOf x).symm
    · rw [if_neg (by rw [decide_eq_true_eq, ge_iff_le, Int32.le_iff_toInt_le, hexp]; show ¬ (0 : Int) ≤ _; omega),
        riD_neg_exp _ _ _ _ (by omega), riFlagsX_neg _ _ _ _ _ (by omega)]
      have hsum : (q + expOf (x.w1 &&& c_MASK_EXP)).toInt = (ndigits c : Int) + ((E : Int) - 6176) := by
        rw [i32_add _ _ (by omega) (by omega), qv, hexp]
      by_cases t3 : 6176 ≤ ndigits c + E
      · rw [if_pos (by rw [decide_eq_true_eq, ge_iff_le, Int32.le_iff_toInt_le, hsum]; show (0 : Int) ≤ _; omega)]
        have hx1 : 1 ≤ 6176 - E := by omega
        have hexp' : (expOf (x.w1 &&& c_MASK_EXP)).toInt = -((6176 - E : Nat) : Int) := by rw [hexp]; omega
        obtain ⟨C', hadd, hval⟩ := addMid_spec _ _ c (6176 - E) hc hlt hx1 (by omega) hexp'
        have hH : 5 * 10 ^ (6176 - E - 1) ≤ 5 * 10 ^ 33 :=
          Nat.mul_le_mul_left 5 (Nat.pow_le_pow_right (by decide) (by omega))
        have hP : c < 10 ^ 34 := hlt
        have hHpos : 0 < 5 * 10 ^ (6176 - E - 1) := Nat.mul_pos (by decide) (Nat.pow_pos (by decide))
        rw [exAwayMain_eq, hadd]
        simp only [Except.bind]
        rw [exAwayTail_spec C' _ _ f s _ (6176 - E) hval (by omega) hx1 (by omega) hexp' hS,
          rna_formula s c _ _ (half_pow _ hx1) hHpos]
        have hmid := mid_rem c _ _ (half_pow _ hx1) hHpos
        by_cases hr : c % 10 ^ (6176 - E) = 0
        · rw [if_pos (hmid.2 hr), if_neg (show ¬ (c % 10 ^ (6176 - E) ≠ 0) from fun h => h hr)]
        · rw [if_neg (fun h => hr (hmid.1 h)), if_pos (show c % 10 ^ (6176 - E) ≠ 0 from hr)]
      · have hsm := lt_pow_of_digits c (6176 - E - 1) (by omega)
        have hsm' : c < 10 ^ (6176 - E) := by rw [half_pow (6176 - E) (by omega)]; omega
        rw [if_neg (by rw [decide_eq_true_eq, ge_iff_le, Int32.le_iff_toInt_le, hsum]; show ¬ (0 : Int) ≤ _; omega),
          tiny_nearest .rna (Or.inl rfl) s c _ (by omega) hsm, mk_zero _ s hS, Nat.mod_eq_of_lt hsm', if_pos (by omega)]

/-- **`bid128_round_integral_exact`, downward, on finite non-zero operands** -/
theorem exDownFin_spec (x : U128) (f : UInt32) (s : Bool) (c E : Nat) (hv : FinView x s c E) :
    exDownFin x f (x.w1 &&& c_MASK_SIGN) (x.w1 &&& c_MASK_EXP) ⟨x.w0, x.w1 &&& c_MASK_COEFF⟩
      = .ok (ofBits (encode (riD .rdn (decode (bitsOf x)))), riFlagsX f .rdn (decode (bitsOf x))) := by
  obtain ⟨hdec, hpos, hlt, hE, hS, he, hc, henc⟩ := hv
  have h34 := ndigits_le_34 c hlt
  rw [hdec]
  unfold exDownFin
  by_cases t1 : E ≤ 6142
  · have hsm := lt_pow_of_digits c (6176 - E) (by omega)
    rw [if_pos ((expword_le _ E he 0x2ffc000000000000 6142 (by decide)).2 t1), riD_neg_exp _ _ _ _ (by omega),
      riFlagsX_neg _ _ _ _ _ (by omega), if_pos (show c % 10 ^ (6176 - E) ≠ 0 from by rw [Nat.mod_eq_of_lt hsm]; omega)]
    exact below_one_floor _ s hS _ c _ hpos hsm
  · rw [if_neg (fun h => t1 ((expword_le _ E he 0x2ffc000000000000 6142 (by decide)).1 h))]
    obtain ⟨q, hq, qv⟩ := countQ_spec ⟨x.w0, x.w1 &&& c_MASK_COEFF⟩ (by rw [hc]; exact hpos)
      (by rw [hc]; exact Nat.lt_trans hlt (by decide))
    rw [hc] at qv
    have hexp := expOf_toInt _ E hE he
    simp only [withQ_eq, hq, Except.bind]
    by_cases t2 : 6176 ≤ E
    · rw [if_pos (by rw [decide_eq_true_eq, ge_iff_le, Int32.le_iff_toInt_le, hexp]; show (0 : Int) ≤ _; omega),
        riD_nonneg_exp _ _ _ _ t2, riFlagsX_nonneg _ _ _ _ _ t2, ← henc]
      exact congrArg (fun r => Except.ok (r, f)) (Dec.C06GenFromInt.ofBits_bitsOf x).symm
    · rw [if_neg (by rw [decide_eq_true_eq, ge_iff_le, Int32.le_iff_toInt_le, hexp]; show ¬ (0 : Int) ≤ _; omega),
        riD_neg_exp _ _ _ _ (by omega), riFlagsX_neg _ _ _ _ _ (by omega)]
      have hsum : (q + expOf (x.w1 &&& c_MASK_EXP)).toInt = (ndigits c : Int) + ((E : Int) - 6176) := by
        rw [i32_add _ _ (by omega) (by omega), qv, hexp]
      by_cases t3 : 6176 < ndigits c + E
      · rw [if_pos (by rw [decide_eq_true_eq, gt_iff_lt, Int32.lt_iff_toInt_lt, hsum]; show (0 : Int) < _; omega)]
        exact exFloorMain_spec _ _ _ f s c (6176 - E) hc hlt (by omega) (by omega) (by rw [hexp]; omega) hS
      · have hsm := lt_pow_of_digits c (6176 - E) (by omega)
        rw [if_neg (by rw [decide_eq_true_eq, gt_iff_lt, Int32.lt_iff_toInt_lt, hsum]; show ¬ (0 : Int) < _; omega),
          if_pos (show c % 10 ^ (6176 - E) ≠ 0 from by rw [Nat.mod_eq_of_lt hsm]; omega)]
        exact below_one_floor _ s hS _ c _ hpos hsm

/-- **`bid128_round_integral_exact`, upward, on finite non-zero operands** -/
theorem exUpFin_spec (x : U128) (f : UInt32) (s : Bool) (c E : Nat) (hv : FinView x s c E) :
    exUpFin x f (x.w1 &&& c_MASK_SIGN) (x.w1 &&& c_MASK_EXP) ⟨x.w0, x.w1 &&& c_MASK_COEFF⟩
      = .ok (ofBits (encode (riD .rup (decode (bitsOf x)))), riFlagsX f .rup (decode (bitsOf x))) := by
  obtain ⟨hdec, hpos, hlt, hE, hS, he, hc, henc⟩ := hv
  have h34 := ndigits_le_34 c hlt
  rw [hdec]
  unfold exUpFin
  by_cases t1 : E ≤ 6142
  · have hsm := lt_pow_of_digits c (6176 - E) (by omega)
    rw [if_pos ((expword_le _ E he 0x2ffc000000000000 6142 (by decide)).2 t1), riD_neg_exp _ _ _ _ (by omega),
      riFlagsX_neg _ _ _ _ _ (by omega), if_pos (show c % 10 ^ (6176 - E) ≠ 0 from by rw [Nat.mod_eq_of_lt hsm]; omega)]
    exact below_one_ceil _ s hS _ c _ hpos hsm
  · rw [if_neg (fun h => t1 ((expword_le _ E he 0x2ffc000000000000 6142 (by decide)).1 h))]
    obtain ⟨q, hq, qv⟩ := countQ_spec ⟨x.w0, x.w1 &&& c_MASK_COEFF⟩ (by rw [hc]; exact hpos)
      (by rw [hc]; exact Nat.lt_trans hlt (by decide))
    rw [hc] at qv
    have hexp := expOf_toInt _ E hE he
    simp only [withQ_eq, hq, Except.bind]
    by_cases t2 : 6176 ≤ E
    · rw [if_pos (by rw [decide_eq_true_eq, ge_iff_le, Int32.le_iff_toInt_le, hexp]; show (0 : Int) ≤ _; omega),
        riD_nonneg_exp _ _ _ _ t2, riFlagsX_nonneg _ _ _ _ _ t2, ← henc]
      exact congrArg (fun r => Except.ok (r, f)) (Dec.C06GenFromInt.ofBits_bitsOf x).symm
    · rw [if_neg (by rw [decide_eq_true_eq, ge_iff_le, Int32.le_iff_toInt_le, hexp]; show ¬ (0 : Int) ≤ _; omega),
        riD_neg_exp _ _ _ _ (by omega), riFlagsX_neg _ _ _ _ _ (by omega)]
      have hsum : (q + expOf (x.w1 &&& c_MASK_EXP)).toInt = (ndigits c : Int) + ((E : Int) - 6176) := by
        rw [i32_add _ _ (by omega) (by omega), qv, hexp]
      by_cases t3 : 6176 < ndigits c + E
      · rw [if_pos (by rw [decide_eq_true_eq, gt_iff_lt, Int32.lt_iff_toInt_lt, hsum]; show (0 : Int) < _; omega)]
        exact exCeilMain_spec _ _ _ f s c (6176 - E) hc hlt (by omega) (by omega) (by rw [hexp]; omega) hS
      · have hsm := lt_pow_of_digits c (6176 - E) (by omega)
        rw [if_neg (by rw [decide_eq_true_eq, gt_iff_lt, Int32.lt_iff_toInt_lt, hsum]; show ¬ (0 : Int) < _; omega),
          if_pos (show c % 10 ^ (6176 - E) ≠ 0 from by rw [Nat.mod_eq_of_lt hsm]; omega)]
        exact below_one_ceil _ s hS _ c _ hpos hsm

/-- **`bid128_round_integral_exact`, toward zero, on finite non-zero operands** -/
theorem exTZFin_spec (x : U128) (f : UInt32) (s : Bool) (c E : Nat) (hv : FinView x s c E) :
    exTZFin x f (x.w1 &&& c_MASK_SIGN) (x.w1 &&& c_MASK_EXP) ⟨x.w0, x.w1 &&& c_MASK_COEFF⟩
      = .ok (ofBits (encode (riD .rtz (decode (bitsOf x)))), riFlagsX f .rtz (decode (bitsOf x))) := by
  obtain ⟨hdec, hpos, hlt, hE, hS, he, hc, henc⟩ := hv
  have h34 := ndigits_le_34 c hlt
  rw [hdec]
  unfold exTZFin
  by_cases t1 : E ≤ 6142
  · have hsm := lt_pow_of_digits c (6176 - E) (by omega)
    rw [if_pos ((expword_le _ E he 0x2ffc000000000000 6142 (by decide)).2 t1), riD_neg_exp _ _ _ _ (by omega),
      riFlagsX_neg _ _ _ _ _ (by omega), if_pos (show c % 10 ^ (6176 - E) ≠ 0 from by rw [Nat.mod_eq_of_lt hsm]; omega)]
    rw [roundInt_rtz, (small_quot c (6176 - E) (by omega)).1, mk_zero _ s hS]
  · rw [if_neg (fun h => t1 ((expword_le _ E he 0x2ffc000000000000 6142 (by decide)).1 h))]
    obtain ⟨q, hq, qv⟩ := countQ_spec ⟨x.w0, x.w1 &&& c_MASK_COEFF⟩ (by rw [hc]; exact hpos)
      (by rw [hc]; exact Nat.lt_trans hlt (by decide))
    rw [hc] at qv
    have hexp := expOf_toInt _ E hE he
    simp only [withQ_eq, hq, Except.bind]
    by_cases t2 : 6176 ≤ E
    · rw [if_pos (by rw [decide_eq_true_eq, ge_iff_le, Int32.le_iff_toInt_le, hexp]; show (0 : Int) ≤ _; omega),
        riD_nonneg_exp _ _ _ _ t2, riFlagsX_nonneg _ _ _ _ _ t2, ← henc]
      exact congrArg (fun r => Except.ok (r, f)) (Dec.C06GenFromInt.ofBits_bitsOf x).symm
    · rw [if_neg (by rw [decide_eq_true_eq, ge_iff_le, Int32.le_iff_toInt_le, hexp]; show ¬ (0 : Int) ≤ _; omega),
        riD_neg_exp _ _ _ _ (by omega), riFlagsX_neg _ _ _ _ _ (by omega)]
      have hsum : (q + expOf (x.w1 &&& c_MASK_EXP)).toInt = (ndigits c : Int) + ((E : Int) - 6176) := by
        rw [i32_add _ _ (by omega) (by omega), qv, hexp]
      by_cases t3 : 6176 < ndigits c + E
      · rw [if_pos (by rw [decide_eq_true_eq, gt_iff_lt, Int32.lt_iff_toInt_lt, hsum]; show (0 : Int) < _; omega)]
        rw [roundInt_rtz]
        exact exTruncMain_spec _ _ _ f s c (6176 - E) hc hlt (by omega) (by omega) (by rw [hexp]; omega) hS
      · have hsm := lt_pow_of_digits c (6176 - E) (by omega)
        rw [if_neg (by rw [decide_eq_true_eq, gt_iff_lt, Int32.lt_iff_toInt_lt, hsum]; show ¬ (0 : Int) < _; omega),
          if_pos (show c % 10 ^ (6176 - E) ≠ 0 from by rw [Nat.mod_eq_of_lt hsm]; omega)]
        rw [roundInt_rtz, (small_quot c (6176 - E) (by omega)).1, mk_zero _ s hS]


/-- **`bid128_round_integral_exact`** (round to integral in the given rounding mode, signalling inexact), ALL 128-bit patterns,
all five rounding modes, every incoming status word: the result is the canonical encoding of `toIntegralD mode` of the decoded
operand (NaN: quieted canonical NaN; infinity: canonical infinity; zeros and non-canonical finite encodings: the zero of the
same sign with exponent `max(e, 0)`; exponent ≥ 0: the operand itself; otherwise the integer nearest in the direction of the
mode, exponent 0, sign kept); the status word gets `invalid` (0x01) or-ed in iff the operand is a signalling NaN and `inexact`
(0x20) iff the operand is finite and not an integer — nothing else; the routine never panics (in particular the
"non-exhaustive match" arm of the mode dispatch is unreachable). -/
theorem round_integral_exact_spec (x : U128) (m : RoundingMode) (f : UInt32) :
    bid128_round_integral_exact x m f =
      .ok (ofBits (encode (riD (modeOf m) (decode (bitsOf x)))), riFlagsX f (modeOf m) (decode (bitsOf x))) := by
  cases m
  · rw [exNE_unfold]
    rcases frontEnd_cases .rne x f (exNEFin x f) with ⟨h, hu⟩ | ⟨s, c, E, hv, h⟩
    · rw [h]; exact congrArg (fun g => Except.ok (_, g)) (riFlagsX_unchanged f _ _ hu).symm
    · rw [h]; exact exNEFin_spec x f s c E hv
  · rw [exDn_unfold]
    rcases frontEnd_cases .rdn x f (exDownFin x f) with ⟨h, hu⟩ | ⟨s, c, E, hv, h⟩
    · rw [h]; exact congrArg (fun g => Except.ok (_, g)) (riFlagsX_unchanged f _ _ hu).symm
    · rw [h]; exact exDownFin_spec x f s c E hv
  · rw [exUp_unfold]
    rcases frontEnd_cases .rup x f (exUpFin x f) with ⟨h, hu⟩ | ⟨s, c, E, hv, h⟩
    · rw [h]; exact congrArg (fun g => Except.ok (_, g)) (riFlagsX_unchanged f _ _ hu).symm
    · rw [h]; exact exUpFin_spec x f s c E hv
  · rw [exTZ_unfold]
    rcases frontEnd_cases .rtz x f (exTZFin x f) with ⟨h, hu⟩ | ⟨s, c, E, hv, h⟩
    · rw [h]; exact congrArg (fun g => Except.ok (_, g)) (riFlagsX_unchanged f _ _ hu).symm
    · rw [h]; exact exTZFin_spec x f s c E hv
  · rw [exNA_unfold]
    rcases frontEnd_cases .rna x f (exNAFin x f) with ⟨h, hu⟩ | ⟨s, c, E, hv, h⟩
    · rw [h]; exact congrArg (fun g => Except.ok (_, g)) (riFlagsX_unchanged f _ _ hu).symm
    · rw [h]; exact exNAFin_spec x f s c E hv

-- 2.5 in the five modes (inexact raised), 2.0 with exponent −1 (exact: no flag), a signalling NaN
example : bid128_round_integral_exact ⟨25, 0x303e000000000000⟩ .NearestEven 0 = .ok (⟨2, 0x3040000000000000⟩, 0x20) := by
  rw [round_integral_exact_spec]; decide +kernel
example : bid128_round_integral_exact ⟨25, 0x303e000000000000⟩ .NearestAway 0 = .ok (⟨3, 0x3040000000000000⟩, 0x20) := by rfl
example : bid128_round_integral_exact ⟨25, 0xb03e000000000000⟩ .Downward 0 = .ok (⟨3, 0xb040000000000000⟩, 0x20) := by rfl
example : bid128_round_integral_exact ⟨25, 0xb03e000000000000⟩ .Upward 0 = .ok (⟨2, 0xb040000000000000⟩, 0x20) := by rfl
example : bid128_round_integral_exact ⟨25, 0xb03e000000000000⟩ .TowardZero 1 = .ok (⟨2, 0xb040000000000000⟩, 0x21) := by rfl
example : bid128_round_integral_exact ⟨20, 0x303e000000000000⟩ .NearestEven 0 = .ok (⟨2, 0x3040000000000000⟩, 0) := by rfl
example : bid128_round_integral_exact ⟨7, 0xfe00000000000000⟩ .Upward 0x20 = .ok (⟨7, 0xfc00000000000000⟩, 0x21) := by rfl


end Dec.C08GenRoundIntegral
