/-
  C14 — Status flags only accumulate; outcomes do not depend on flag history.

  In the model every operation is a pure function of its arguments returning `(result, raised)`; the
  API call on a status word `s` is `call s op = (result, s ||| raised)` and this is also exactly what
  the judge demands of every observed call (`judge_flags_exact`).  The theorems below are the
  property for every history (induction over the list of operations, no bound).
-/
import DecModel.Judge

namespace Dec.C14

/-- one API call on status word `s` of an operation whose model outcome is `(r, raised)` -/
def call {α : Type} (s : Flags) (op : α × Flags) : α × Flags := (op.1, s ||| op.2)

/-- a history of calls sharing one status word -/
def run {α : Type} (s : Flags) : List (α × Flags) → List α × Flags
  | [] => ([], s)
  | op :: rest =>
    let (r, s') := call s op
    let (rs, sf) := run s' rest
    (r :: rs, sf)

/-- union of what each operation raises from a clear word -/
def raisedUnion {α : Type} (h : List (α × Flags)) : Flags := h.foldr (fun op acc => op.2 ||| acc) 0

/-- bits set before a call are still set after it -/
theorem call_mono {α : Type} (s : Flags) (op : α × Flags) (i : Nat) (h : s.testBit i = true) :
    (call s op).2.testBit i = true := by
  simp [call, Nat.testBit_or, h]

/-- the returned value does not depend on the incoming word -/
theorem call_result_indep {α : Type} (s t : Flags) (op : α × Flags) : (call s op).1 = (call t op).1 := rfl

/-- the bits newly raised do not depend on the incoming word: the outgoing word is the incoming one
OR-ed with what the operation raises from a clear word -/
theorem call_flags {α : Type} (s : Flags) (op : α × Flags) : (call s op).2 = s ||| (call 0 op).2 := by
  simp [call]

theorem run_results_indep {α : Type} (s t : Flags) (h : List (α × Flags)) : (run s h).1 = (run t h).1 := by
  induction h generalizing s t with
  | nil => rfl
  | cons op rest ih =>
    simp only [run, call]
    rw [ih (s ||| op.2) (t ||| op.2)]

/-- in any sequence of operations sharing one status word the final word is exactly the union of what
each operation raises from a clear word (OR-ed into the initial word) -/
theorem run_flags {α : Type} (s : Flags) (h : List (α × Flags)) : (run s h).2 = s ||| raisedUnion h := by
  induction h generalizing s with
  | nil => simp [run, raisedUnion]
  | cons op rest ih =>
    simp only [run, call, raisedUnion, List.foldr_cons]
    rw [ih (s ||| op.2)]
    simp [raisedUnion, Nat.or_assoc]

theorem run_mono {α : Type} (s : Flags) (h : List (α × Flags)) (i : Nat) (hs : s.testBit i = true) :
    (run s h).2.testBit i = true := by
  rw [run_flags]; simp [Nat.testBit_or, hs]

/-- What the judge accepts: whenever an observation is accepted against an `oneOf` expectation, the
outgoing status word is exactly the incoming one OR-ed with the model's raised set (so the observed
call has the `call` form above). -/
theorem judge_flags_exact (alts : List (List Val)) (raised : Flags) (o : Obs) (res : List Val) (fout : Flags)
    (hout : o.out = some (res, fout)) (c : String)
    (hok : judgeWith (.oneOf alts raised) o = .ok c) : fout = o.flagsIn ||| raised ∧ res ∈ alts := by
  unfold judgeWith at hok
  rw [hout] at hok
  simp only at hok
  split at hok
  · cases hok
  · split at hok
    · cases hok
    · rename_i h1 h2
      constructor
      · simpa using h2
      · simpa [List.contains_iff_mem] using h1

/-- a panic is never accepted, whatever the expectation -/
theorem judge_rejects_panic (e : Expect) (o : Obs) (h : o.out = none) (c : String) : judgeWith e o ≠ .ok c := by
  unfold judgeWith; rw [h]; cases e <;> simp

/-- non-vacuity: a concrete three-call history (inexact, then invalid, then nothing) from a word with
overflow already set -/
example : run (α := Nat) 0x08 [(1, 0x20), (2, 0x01), (3, 0)] = ([1, 2, 3], 0x29) := by decide

end Dec.C14
