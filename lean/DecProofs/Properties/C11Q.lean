/-
  C11Q — `scaleb` (and `ldexp`, `scalebln`) multiplies by a power of ten, correctly rounded: the ℚ-level
  statements, as corollaries of the specification of `finish`.
-/
import DecProofs.Core.FinishUnique

namespace Dec.C11Q

/-! ### helpers -/

theorem scalebD_fin (mode : Mode) (n : Int) (s : Bool) (c : Nat) (e : Int) (hc : c ≠ 0) :
    scalebD mode n (.fin s c e) = finish mode s c 1 (e + n) (e + n) := by
  simp [scalebD, hc]

theorem scaleb_val (c : Nat) (e n : Int) :
    fval false c e * (10 : ℚ) ^ n = (c : ℚ) / ((1 : Nat) : ℚ) * (10 : ℚ) ^ (e + n) := by
  rw [fval_false, zpow_add₀ ten_ne]; push_cast; ring

/-! ### scaleb is correctly rounded -/

/-- **`scaleb x n` is the correctly rounded `x·10^n`.**  For a finite non-zero `x = (-1)^s·c·10^e`, the
result has the sign of `x` and is the correct delivery (`FinishSpec`) of the exact magnitude `c·10^e·10^n`
with preferred exponent `e + n`: the exact value with the cohort exponent closest to `e + n` and no flag
when it is a member of the format; otherwise rounded once in `mode` (inexact, underflow when tiny), or the
mode's overflow result. -/
theorem scaleb_correct (mode : Mode) (n : Int) (s : Bool) (c : Nat) (e : Int) (hc : c ≠ 0) :
    FinishSpec mode s (fval false c e * (10 : ℚ) ^ n) (e + n) (scalebD mode n (.fin s c e)) := by
  rw [scalebD_fin mode n s c e hc, scaleb_val]
  exact finish_spec mode s c 1 (e + n) (e + n) (Nat.pos_of_ne_zero hc) (by omega)

/-- … and the tight form: an outcome is the model's `scaleb` result *iff* it is the single-valued correct
delivery of `x·10^n`. -/
theorem scaleb_eq_iff (mode : Mode) (n : Int) (s : Bool) (c : Nat) (e : Int) (hc : c ≠ 0) (out : Datum × Flags) :
    scalebD mode n (.fin s c e) = out ↔
      FinishSpecStrict mode s (fval false c e * (10 : ℚ) ^ n) (e + n) out := by
  rw [scalebD_fin mode n s c e hc, scaleb_val]
  exact finish_eq_iff mode s c 1 (e + n) (e + n) (Nat.pos_of_ne_zero hc) (by omega) out

/-- **Exactness of `scaleb`**: if the coefficient with the moved exponent is still a member of the format,
the result is exactly that: same sign, same coefficient, exponent `e + n`, no flag — in every rounding mode. -/
theorem scaleb_exact (mode : Mode) (n : Int) (s : Bool) (c : Nat) (e : Int) (hc : c ≠ 0)
    (hr : Representable c (e + n)) : scalebD mode n (.fin s c e) = (.fin s c (e + n), 0) := by
  rw [scalebD_fin mode n s c e hc]
  exact finish_representable mode s c (e + n) hc hr.1 hr.2.1 hr.2.2

example : scalebD .rne 3 (.fin true 15 (-1)) = (.fin true 15 2, 0) :=
  scaleb_exact _ _ _ _ _ (by decide) ⟨by decide, by decide, by decide⟩
-- not representable at `e + n`: zero padding under the clamp at `eMax`, rounding at `eMin`, overflow
example : scalebD .rne 6111 (.fin false 15 1) = (.fin false 150 6111, 0) := by decide +kernel
example : scalebD .rne (-6176) (.fin false 15 (-1)) = (.fin false 2 (-6176), fUnderflow ||| fInexact) := by
  decide +kernel
example : scalebD .rne 6112 (.fin false P33 0) = (.inf false, fOverflow ||| fInexact) := by decide +kernel

/-- when no flag is raised, the value was scaled exactly -/
theorem scaleb_flags_zero_iff (mode : Mode) (n : Int) (s : Bool) (c : Nat) (e : Int) (hc : c ≠ 0) :
    (scalebD mode n (.fin s c e)).2 = 0 ↔ IsMember (fval false c e * (10 : ℚ) ^ n) := by
  rw [scalebD_fin mode n s c e hc, scaleb_val]
  exact finish_flags_zero_iff mode s c 1 (e + n) (e + n) (Nat.pos_of_ne_zero hc) (by omega)

/-! ### saturation: far outside the exponent range the count no longer matters -/

/-- `⌊log₁₀ c⌋` of a coefficient is in `[0, 33]` -/
theorem ilog_coeff_bounds {c : Nat} (h0 : 0 < c) (h : c < P34) :
    0 ≤ ilog10Ratio c 1 ∧ ilog10Ratio c 1 ≤ 33 := by
  obtain ⟨h1, h2⟩ := ilog10Ratio_spec h0 (by omega : 0 < 1)
  simp only [Nat.cast_one, div_one] at h1 h2
  have hc1 : (1 : ℚ) ≤ c := by exact_mod_cast h0
  have hc2 : (c : ℚ) < (10 : ℚ) ^ (34 : ℤ) := by rw [← P34_cast]; exact_mod_cast h
  constructor
  · have : (10 : ℚ) ^ (0 : ℤ) < (10 : ℚ) ^ (ilog10Ratio c 1 + 1) := by rw [zpow_zero]; linarith
    have := (zpow_lt_zpow_iff_right₀ one_lt_ten).mp this
    omega
  · have : (10 : ℚ) ^ (ilog10Ratio c 1) < (10 : ℚ) ^ (34 : ℤ) := lt_of_le_of_lt h1 hc2
    have := (zpow_lt_zpow_iff_right₀ one_lt_ten).mp this
    omega

/-- a huge positive count: a zero goes to the largest exponent, anything else overflows — whatever the count -/
theorem scaleb_huge (mode : Mode) (n : Int) (s : Bool) (c : Nat) (e : Int) (hwf : (Datum.fin s c e).WF)
    (hn : 20000 ≤ n) :
    scalebD mode n (.fin s c e) =
      if c = 0 then (.fin s 0 eMax, 0) else (overflowResult mode s, fOverflow ||| fInexact) := by
  obtain ⟨h1, h2, h3⟩ := hwf
  by_cases hc : c = 0
  · subst hc
    simp only [scalebD, if_true, zeroAt, clampInt]
    unfold eMin eMax at *
    rw [if_neg (by omega), if_pos (by omega)]
  · rw [if_neg hc, scalebD_fin mode n s c e hc, finish_eq]
    obtain ⟨l1, l2⟩ := ilog_coeff_bounds (Nat.pos_of_ne_zero hc) h1
    unfold eMin eMax at *
    rw [if_pos (by omega)]

/-- a huge negative count: a zero goes to the least exponent, anything else underflows to zero or to the
least subnormal (by the rounding direction) — whatever the count -/
theorem scaleb_tiny (mode : Mode) (n : Int) (s : Bool) (c : Nat) (e : Int) (hwf : (Datum.fin s c e).WF)
    (hn : n ≤ -20000) :
    scalebD mode n (.fin s c e) =
      if c = 0 then (.fin s 0 eMin, 0) else (.fin s (roundInt mode s 0 1 4) eMin, fUnderflow ||| fInexact) := by
  obtain ⟨h1, h2, h3⟩ := hwf
  by_cases hc : c = 0
  · subst hc
    simp only [scalebD, if_true, zeroAt, clampInt]
    unfold eMin eMax at *
    rw [if_pos (by omega)]
  · rw [if_neg hc, scalebD_fin mode n s c e hc, finish_eq]
    obtain ⟨l1, l2⟩ := ilog_coeff_bounds (Nat.pos_of_ne_zero hc) h1
    unfold eMin eMax at *
    rw [if_neg (by omega), if_pos (by omega)]

/-- **`scaleb` saturates**: for a well-formed operand, a count beyond `±20000` gives the same result (datum
and flags) as the count `±20000` — certain overflow / certain total underflow, independent of the exact count;
so clamping a wide count (as `scalebln` does) cannot change the outcome. -/
theorem scaleb_saturates (mode : Mode) (n : Int) (x : Datum) (hwf : x.WF) :
    scalebD mode n x = scalebD mode (clampInt (-20000) 20000 n) x := by
  cases x with
  | fin s c e =>
    unfold clampInt
    split
    · rw [scaleb_tiny mode n s c e hwf (by omega), scaleb_tiny mode (-20000) s c e hwf (by omega)]
    · split
      · rw [scaleb_huge mode n s c e hwf (by omega), scaleb_huge mode 20000 s c e hwf (by omega)]
      · rfl
  | inf s => rfl
  | nan s g p => rfl

example : scalebD .rne (10 ^ 12) (.fin false 5 0) = scalebD .rne 20000 (.fin false 5 0) :=
  scaleb_saturates .rne (10 ^ 12) (.fin false 5 0) (by decide)
example : scalebD .rup (-30000) (.fin false 5 0) = (.fin false 1 eMin, fUnderflow ||| fInexact) := by decide +kernel

end Dec.C11Q
