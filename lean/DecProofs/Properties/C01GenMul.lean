/-
  C01 (generated-code level) — `bid128_mul` as translated into `DecGen/Code.lean` (bid128_mul.rs).

  What the routine is.  Unlike Intel's `bid128_mul`, this port has NO multiplication of its own and no "direct path" for
  small coefficients: it
    (a) tests for a NaN or an infinity among the operands (`specialTest`); if there is one it goes straight to (c);
    (b) otherwise unpacks both operands itself (`unpC`: the two non-canonical finite encodings — steering bits `11`,
        coefficient field ≥ 10^34 — read as zero, as `decode` does), and if a coefficient is zero returns the zero with the
        XOR of the signs and the exponent sum clamped into [−6176, 6111], status word untouched;
    (c) on everything else returns `bid128_fma (y, x, z0)` with `z0 = +0E+6111` (`⟨0, 0x5ffe000000000000⟩`) — operands
        swapped so that a NaN in `x` keeps precedence.

  Theorems (all patterns, all rounding modes, every incoming status word):
    (1) `mul_zero` / `mul_zero_mulD`: a zero among two numbers ⟹ `.ok (encode (zeroAt (s1≠s2) (e1+e2)), f)` = `mulD`, no flag;
    (2) the direct path asked for does not exist in this source (`mul_eq_fma` covers all non-zero pairs);
    (3) `mul_eq_fma`: unless both operands are numbers and one is a zero, `bid128_mul x y m f = bid128_fma y x z0 m f`
        (infinite operands — `mul_inf` — and NaN operands included); `mul_cases`: the two cases as one equation;
        spec level `fmaD_z0_eq_mulD`: `fmaD m dy dx (+0E+6111) = mulD m dx dy` for all data outside the zero case (extends
        `C02Q.fma_zero_addend_is_mul` to exponent sums above 6111, via `finish_pref_high`: a preferred exponent at or above
        `eMax` acts as `eMax`); `mul_correct_of_fma`: so multiplication is correct wherever the fused multiply-add is.
  Findings: none — on the zero case the code is `mulD`; elsewhere it is, by construction, whatever `bid128_fma` is.
  Why the zero case cannot be left to `fma`: `(−0)·(+5) + (+0)` is `+0` (or `−0` when rounding down), not `−0`.

  Second part: the FRONT END of `bid128_div` (bid128_div.rs).  `div_wrapper` / `div_of_clear`: `bid128_div` is
  `bid128_div_clear_status` run from a clear status word, its flags OR-ed into the caller's.  For operands that are not NaNs
  (NaNs: `C12GenNaN.div_nan`) and not both non-zero numbers, `div_front` / `div_front'`: the result is the canonical encoding
  of the model's `divD` datum with `divD`'s flags — case by case `div_inf_inf` (invalid), `div_inf_fin`, `div_fin_inf`
  (±0 at the least exponent), `div_zero_zero` (invalid), `div_fin_zero` (zero-divide, ±∞), `div_zero_fin` (±0 with the
  exponent difference clamped into [−6176, 6111] — the place of the former defect D2; correct in the source as it is now).
  Two non-zero numbers go on to the division algorithm proper, which is not covered here.  Findings: none.
-/
import DecProofs.Properties.C12GenNaN
import DecProofs.Properties.C13GenNoncomp
import DecProofs.Properties.C13GenPack
import DecProofs.Properties.C02Q
import DecProofs.Core.FinishUnique

set_option linter.unusedSimpArgs false
set_option linter.unusedVariables false

namespace Dec.C01GenMul
open Dec.Rs Dec.Gen.Code
open Dec.C06GenFromInt (bitsOf ofBits)
open Dec.C12GenNaN

/-- the third operand `bid128_mul` passes to `bid128_fma`: `+0E+6111` -/
def z0 : U128 := ⟨0, 0x5ffe000000000000⟩

abbrev tS (w : U128) : Bool := (w.w1 &&& (0x6000000000000000 : UInt64)) == (0x6000000000000000 : UInt64)
abbrev tB (w : U128) : Bool :=
  decide ((w.w1 &&& c_MASK_COEFF) > (0x1ed09bead87c0 : UInt64)) ||
    (((w.w1 &&& c_MASK_COEFF) == (0x1ed09bead87c0 : UInt64)) && decide (w.w0 > (0x378d8e63ffffffff : UInt64)))

/-- the unpacking `bid128_mul` does itself: the exponent field (still shifted left 49 bits) and the coefficient, zero for
the non-canonical encodings -/
def unpC (w : U128) : UInt64 × U128 :=
  if tS w = true then ((w.w1 <<< 2) &&& c_MASK_EXP, ⟨0, 0⟩)
  else (w.w1 &&& c_MASK_EXP, if tB w = true then ⟨0, 0⟩ else ⟨w.w0, w.w1 &&& c_MASK_COEFF⟩)

def specialTest (x y : U128) : Bool :=
  ((((x.w1 &&& c_MASK_NAN) == c_MASK_NAN) || ((y.w1 &&& c_MASK_NAN) == c_MASK_NAN)) ||
    ((x.w1 &&& c_MASK_ANY_INF) == c_MASK_INF)) || ((y.w1 &&& c_MASK_ANY_INF) == c_MASK_INF)

def truePExp (x y : U128) : Int32 :=
  Int32.ofInt (toI ((((Int64.ofInt (toI ((unpC x).1 >>> 0x31))) - (0x1820 : Int64)) + (Int64.ofInt (toI ((unpC y).1 >>> 0x31)))) - (0x1820 : Int64)))

def pExp (x y : U128) : UInt64 :=
  if (decide (truePExp x y < (-0x1820))) = true then (0 : UInt64)
  else if (decide (truePExp x y > (0x17df : Int32))) = true then ((UInt64.ofInt (toI (0x2fff))) <<< 0x31)
  else ((UInt64.ofInt (toI (truePExp x y + (0x1820 : Int32)))) <<< 0x31)

def isZ (c : U128) : Bool := (c.w1 == (0 : UInt64)) && (c.w0 == (0 : UInt64))

theorem bind_eta {α β : Type} (a : Except String (α × β)) : (a >>= fun t => pure (t.1, t.2)) = a := by
  cases a <;> rfl

theorem unpC_s {w : U128} (h : tS w = true) : unpC w = ((w.w1 <<< 2) &&& c_MASK_EXP, ⟨0, 0⟩) := by
  unfold unpC; rw [if_pos h]
theorem unpC_b {w : U128} (h1 : ¬ tS w = true) (h2 : tB w = true) : unpC w = (w.w1 &&& c_MASK_EXP, ⟨0, 0⟩) := by
  unfold unpC; rw [if_neg h1, if_pos h2]
theorem unpC_c {w : U128} (h1 : ¬ tS w = true) (h2 : ¬ tB w = true) :
    unpC w = (w.w1 &&& c_MASK_EXP, ⟨w.w0, w.w1 &&& c_MASK_COEFF⟩) := by
  unfold unpC; rw [if_neg h1, if_neg h2]

theorem ite_cong3 {α : Type} {c : Prop} [Decidable c] {a a' b b' : α} (h1 : a = a') (h2 : b = b') :
    (if c then a else b) = (if c then a' else b') := by rw [h1, h2]

/-- take the branch of the test at the head whose condition (or its negation) is among the hypotheses -/
macro "branch" : tactic => `(tactic| first | (take_pos; · assumption) | (take_neg; · assumption))

/-- NaN or infinity among the operands: straight to `bid128_fma (y, x, +0E+6111)` -/
theorem mul_special (x y : U128) (m : RoundingMode) (f : UInt32) (hs : specialTest x y = true) :
    bid128_mul x y m f = bid128_fma y x z0 m f := by
  unfold bid128_mul
  take_neg
  · simp only [specialTest] at hs; simp only [hs]; decide
  head_step
  exact bind_eta _

/-- neither: the zero test on the coefficients as the code unpacks them -/
theorem mul_finite (x y : U128) (m : RoundingMode) (f : UInt32) (hs : specialTest x y = false) :
    bid128_mul x y m f =
      if (isZ (unpC x).2 || isZ (unpC y).2) = true then
        .ok (⟨0, ((x.w1 &&& c_MASK_SIGN) ^^^ (y.w1 &&& c_MASK_SIGN)) ||| pExp x y⟩, f)
      else bid128_fma y x z0 m f := by
  unfold bid128_mul
  take_pos
  · simp only [specialTest] at hs; simp only [hs]; rfl
  unfold pExp truePExp
  by_cases hsx : tS x = true <;> by_cases hbx : tB x = true <;> by_cases hsy : tS y = true <;>
    by_cases hby : tB y = true
  all_goals
    repeat branch
    try rw [unpC_s hsx]
    try rw [unpC_b hsx hbx]
    try rw [unpC_c hsx hbx]
    try rw [unpC_s hsy]
    try rw [unpC_b hsy hby]
    try rw [unpC_c hsy hby]
    head_step
    refine ite_cong3 ?_ (bind_eta _)
    rfl
/-! ### the tests and fields, in terms of the decoded operand -/

open Dec.C13GenNoncomp (decodeW decodeW_cases)

/-- the datum a pair of words stands for -/
abbrev dOf (x : U128) : Datum := decode (bitsOf x)

theorem dOf_W (x : U128) : dOf x = decodeW x.w1.toNat x.w0.toNat := C13GenNoncomp.decode_bitsOf x

theorem tS_eq (w : U128) : tS w = decide (w.w1.toNat / 2^61 % 4 = 3) := C13GenNoncomp.steer_test w.w1
theorem tB_eq (w : U128) : tB w = decide (P34 ≤ w.w1.toNat % 2^49 * 2^64 + w.w0.toNat) := by
  unfold tB
  rw [C13GenNoncomp.gt128, show c_MASK_COEFF = (0x1ffffffffffff : UInt64) from rfl, C13GenNoncomp.coeff_hi,
    show (0x1ed09bead87c0 : UInt64).toNat = 0x1ed09bead87c0 from rfl,
    show (0x378d8e63ffffffff : UInt64).toNat = 0x378d8e63ffffffff from rfl]
  unfold P34
  congr 1
theorem tNaN_eq (w : U128) : ((w.w1 &&& c_MASK_NAN) == c_MASK_NAN) = decide (w.w1.toNat / 2^58 % 32 = 31) :=
  C13GenNoncomp.nan_test w.w1
theorem tInf_eq (w : U128) : ((w.w1 &&& c_MASK_ANY_INF) == c_MASK_INF) = decide (w.w1.toNat / 2^58 % 32 = 30) :=
  C06GenFromInt.test_field w.w1 _ _ 5 58 30 (by rfl) (by rfl)

/-- the first test of `bid128_mul` fails exactly when both operands are numbers -/
theorem specialTest_eq (x y : U128) : specialTest x y = !((dOf x).isFin && (dOf y).isFin) := by
  have hx : (((x.w1 &&& c_MASK_NAN) == c_MASK_NAN) || ((x.w1 &&& c_MASK_ANY_INF) == c_MASK_INF)) = !(dOf x).isFin := by
    rw [tNaN_eq, tInf_eq, dOf_W]
    have hh := x.w1.toNat_lt
    rcases decodeW_cases x.w1.toNat x.w0.toNat with ⟨h1, h2, hd⟩ | ⟨h1, h2, h3, hd⟩ | ⟨h1, h2, h3, hd⟩ | ⟨h1, h2, hd⟩ |
      ⟨h1, h2, h3, hd⟩ | ⟨h1, h2, h3, hd⟩ <;> rw [hd, Bool.eq_iff_iff] <;>
      simp only [Datum.isFin, Bool.not_true, Bool.not_false] <;> bool_omega
  have hy : (((y.w1 &&& c_MASK_NAN) == c_MASK_NAN) || ((y.w1 &&& c_MASK_ANY_INF) == c_MASK_INF)) = !(dOf y).isFin := by
    rw [tNaN_eq, tInf_eq, dOf_W]
    have hh := y.w1.toNat_lt
    rcases decodeW_cases y.w1.toNat y.w0.toNat with ⟨h1, h2, hd⟩ | ⟨h1, h2, h3, hd⟩ | ⟨h1, h2, h3, hd⟩ | ⟨h1, h2, hd⟩ |
      ⟨h1, h2, h3, hd⟩ | ⟨h1, h2, h3, hd⟩ <;> rw [hd, Bool.eq_iff_iff] <;>
      simp only [Datum.isFin, Bool.not_true, Bool.not_false] <;> bool_omega
  unfold specialTest
  rw [Bool.not_and, ← hx, ← hy]
  cases ((x.w1 &&& c_MASK_NAN) == c_MASK_NAN) <;> cases ((y.w1 &&& c_MASK_NAN) == c_MASK_NAN) <;>
    cases ((x.w1 &&& c_MASK_ANY_INF) == c_MASK_INF) <;> cases ((y.w1 &&& c_MASK_ANY_INF) == c_MASK_INF) <;> rfl

theorem shl2_exp (w : UInt64) : (((w <<< 2) &&& c_MASK_EXP) >>> 49).toNat = w.toNat / 2^47 % 2^14 := by
  rw [UInt64.toNat_shiftRight, C13GenNoncomp.toNat_and_field _ c_MASK_EXP 14 49 (by decide), UInt64.toNat_shiftLeft,
    show (49 : UInt64).toNat % 64 = 49 from by decide, show (2 : UInt64).toNat % 64 = 2 from by decide,
    Nat.shiftRight_eq_div_pow, Nat.shiftLeft_eq, Nat.mul_div_cancel _ (by decide)]
  have := w.toNat_lt
  omega
theorem exp_field (w : UInt64) : ((w &&& c_MASK_EXP) >>> 49).toNat = w.toNat / 2^49 % 2^14 := by
  rw [UInt64.toNat_shiftRight, C13GenNoncomp.toNat_and_field _ c_MASK_EXP 14 49 (by decide),
    show (49 : UInt64).toNat % 64 = 49 from by decide, Nat.shiftRight_eq_div_pow, Nat.mul_div_cancel _ (by decide)]

/-- a finite operand as `bid128_mul` unpacks it: the coefficient is zero exactly when the datum's is, the exponent
field is the datum's biased exponent, the sign word its sign -/
theorem fin_view (x : U128) (s : Bool) (c : Nat) (e : Int) (hD : dOf x = .fin s c e) :
    isZ (unpC x).2 = decide (c = 0) ∧ ((((unpC x).1 >>> 49).toNat : Nat) : Int) = e + 6176
      ∧ -6176 ≤ e ∧ e ≤ 6111 ∧ (x.w1 &&& c_MASK_SIGN).toNat = if s then 2^63 else 0 := by
  have hwf := decode_WF (bitsOf x)
  have hsgn : (x.w1 &&& c_MASK_SIGN).toNat = (x.w1.toNat / 2^63 % 2^1) * 2^63 :=
    C13GenNoncomp.toNat_and_field _ c_MASK_SIGN 1 63 (by decide)
  have hl := x.w0.toNat_lt
  have hh := x.w1.toNat_lt
  rw [dOf_W] at hD
  change (decode (bitsOf x)).WF at hwf
  rw [show decode (bitsOf x) = dOf x from rfl, dOf_W] at hwf
  rcases decodeW_cases x.w1.toNat x.w0.toNat with ⟨h1, h2, hd⟩ | ⟨h1, h2, h3, hd⟩ | ⟨h1, h2, h3, hd⟩ | ⟨h1, h2, hd⟩ |
    ⟨h1, h2, h3, hd⟩ | ⟨h1, h2, h3, hd⟩ <;> rw [hd] at hD hwf <;> cases hD
  · -- steering bits 11
    have ts : tS x = true := by rw [tS_eq]; simpa using h2
    obtain ⟨-, w2, w3⟩ := hwf
    simp only [eMin, eMax] at w2 w3
    rw [unpC_s ts]
    refine ⟨rfl, ?_, w2, w3, ?_⟩
    · show ((((x.w1 <<< 2) &&& c_MASK_EXP) >>> 49).toNat : Int) = _
      rw [shl2_exp]; omega
    · rw [hsgn]
      by_cases hb : x.w1.toNat / 2^63 % 2 = 1
      · rw [if_pos (by simpa using hb)]; omega
      · rw [if_neg (by simpa using hb)]; omega
  · -- canonical
    have ts : ¬ tS x = true := by rw [tS_eq]; simpa using h2
    have tb : ¬ tB x = true := by rw [tB_eq]; simp only [decide_eq_true_eq]; omega
    obtain ⟨-, w2, w3⟩ := hwf
    simp only [eMin, eMax] at w2 w3
    rw [unpC_c ts tb]
    refine ⟨?_, ?_, w2, w3, ?_⟩
    · show ((x.w1 &&& c_MASK_COEFF) == 0 && x.w0 == 0) = _
      rw [C13GenNoncomp.zero128, show c_MASK_COEFF = (0x1ffffffffffff : UInt64) from rfl, C13GenNoncomp.coeff_hi]
    · show (((x.w1 &&& c_MASK_EXP) >>> 49).toNat : Int) = _
      rw [exp_field]; omega
    · rw [hsgn]
      by_cases hb : x.w1.toNat / 2^63 % 2 = 1
      · rw [if_pos (by simpa using hb)]; omega
      · rw [if_neg (by simpa using hb)]; omega
  · -- coefficient field ≥ 10^34
    have ts : ¬ tS x = true := by rw [tS_eq]; simpa using h2
    have tb : tB x = true := by rw [tB_eq]; simp only [decide_eq_true_eq]; omega
    obtain ⟨-, w2, w3⟩ := hwf
    simp only [eMin, eMax] at w2 w3
    rw [unpC_b ts tb]
    refine ⟨rfl, ?_, w2, w3, ?_⟩
    · show (((x.w1 &&& c_MASK_EXP) >>> 49).toNat : Int) = _
      rw [exp_field]; omega
    · rw [hsgn]
      by_cases hb : x.w1.toNat / 2^63 % 2 = 1
      · rw [if_pos (by simpa using hb)]; omega
      · rw [if_neg (by simpa using hb)]; omega

/-! ### the exponent of a zero product -/

theorem bmod64 {x : Int} (h1 : -9223372036854775808 ≤ x) (h2 : x < 9223372036854775808) : x.bmod (2^64) = x := by
  simp only [Int.bmod]; split <;> omega
theorem bmod32 {x : Int} (h1 : -2147483648 ≤ x) (h2 : x < 2147483648) : x.bmod (2^32) = x := by
  simp only [Int.bmod]; split <;> omega

/-- `true_p_exp` is the sum of the two unbiased exponents (no wrap: each field is below 2^14) -/
theorem truePExp_val (x y : U128) (E1 E2 : Nat) (h1 : ((unpC x).1 >>> 49).toNat = E1)
    (h2 : ((unpC y).1 >>> 49).toNat = E2) (b1 : E1 < 16384) (b2 : E2 < 16384) :
    (truePExp x y).toInt = (E1 : Int) + E2 - 12352 := by
  have k : (6176 : Int64).toInt = 6176 := by decide
  have a1 : (Int64.ofInt (toI ((unpC x).1 >>> 49))).toInt = E1 := by
    show (Int64.ofInt ((((unpC x).1 >>> 49).toNat : Nat) : Int)).toInt = _
    rw [h1, Int64.toInt_ofInt]; exact bmod64 (by omega) (by omega)
  have a2 : (Int64.ofInt (toI ((unpC y).1 >>> 49))).toInt = E2 := by
    show (Int64.ofInt ((((unpC y).1 >>> 49).toNat : Nat) : Int)).toInt = _
    rw [h2, Int64.toInt_ofInt]; exact bmod64 (by omega) (by omega)
  have a3 : (Int64.ofInt (toI ((unpC x).1 >>> 49)) - (6176 : Int64)).toInt = (E1 : Int) - 6176 := by
    rw [Int64.toInt_sub, a1, k]; exact bmod64 (by omega) (by omega)
  have a4 : (Int64.ofInt (toI ((unpC x).1 >>> 49)) - (6176 : Int64) + Int64.ofInt (toI ((unpC y).1 >>> 49))).toInt
      = (E1 : Int) - 6176 + E2 := by
    rw [Int64.toInt_add, a3, a2]; exact bmod64 (by omega) (by omega)
  have a5 : (Int64.ofInt (toI ((unpC x).1 >>> 49)) - (6176 : Int64) + Int64.ofInt (toI ((unpC y).1 >>> 49))
      - (6176 : Int64)).toInt = (E1 : Int) - 6176 + E2 - 6176 := by
    rw [Int64.toInt_sub, a4, k]; exact bmod64 (by omega) (by omega)
  unfold truePExp
  show (Int32.ofInt ((Int64.ofInt (toI ((unpC x).1 >>> 49)) - (6176 : Int64) + Int64.ofInt (toI ((unpC y).1 >>> 49))
    - (6176 : Int64)).toInt)).toInt = _
  rw [a5, Int32.toInt_ofInt]
  rw [show Int32.size = 2^32 from rfl, bmod32 (by omega) (by omega)]
  omega

theorem toNat_ofInt64' (i : Int) : (UInt64.ofInt i).toNat = (i % 18446744073709551616).toNat := by
  simp only [UInt64.ofInt, UInt64.toNat_ofNat']
  omega

/-- `p_exp`: the exponent sum clamped into `[−6176, 6111]`, biased, in field position -/
theorem pExp_val (x y : U128) (t : Int) (ht : (truePExp x y).toInt = t) (hlo : -12352 ≤ t) (hhi : t ≤ 20414) :
    (pExp x y).toNat = (clampInt (-6176) 6111 t + 6176).toNat * 2^49 := by
  have k1 : (-0x1820 : Int32).toInt = -6176 := by decide
  have k2 : (0x17df : Int32).toInt = 6111 := by decide
  have k3 : (0x1820 : Int32).toInt = 6176 := by decide
  unfold pExp clampInt
  by_cases c1 : t < -6176
  · rw [if_pos (by rw [decide_eq_true_eq, Int32.lt_iff_toInt_lt, ht, k1]; exact c1), if_pos c1]; rfl
  · rw [if_neg (by rw [decide_eq_true_eq, Int32.lt_iff_toInt_lt, ht, k1]; exact c1), if_neg c1]
    by_cases c2 : t > 6111
    · rw [if_pos (by rw [decide_eq_true_eq, gt_iff_lt, Int32.lt_iff_toInt_lt, ht, k2]; exact c2), if_pos c2]; rfl
    · rw [if_neg (by rw [decide_eq_true_eq, gt_iff_lt, Int32.lt_iff_toInt_lt, ht, k2]; exact c2), if_neg c2]
      have a : (truePExp x y + 6176).toInt = t + 6176 := by
        rw [Int32.toInt_add, ht, k3]; exact bmod32 (by omega) (by omega)
      show ((UInt64.ofInt ((truePExp x y + 6176).toInt)) <<< 49).toNat = _
      rw [UInt64.toNat_shiftLeft, toNat_ofInt64', a, show (49 : UInt64).toNat % 64 = 49 from by decide, Nat.shiftLeft_eq]
      omega

theorem encode_fin (b : Bool) (c : Nat) (e : Int) : encode (.fin b c e) = signBit b + (e + 6176).toNat * 2^113 + c := rfl
theorem encode_zeroAt (b : Bool) (t : Int) :
    encode (zeroAt b t) = signBit b + (clampInt (-6176) 6111 t + 6176).toNat * 2^113 := by
  unfold zeroAt
  rw [encode_fin, Nat.add_zero]
  rfl

/-! ### (1) zero operands -/

/-- **`bid128_mul`, a zero among two numbers** (canonical zeros and the non-canonical encodings, which are zeros): the
result is the zero with the XOR of the signs and the exponent sum clamped into the format's range — `mulD`'s
`zeroAt (s1 ≠ s2) (e1 + e2)` — for every rounding mode; the status word is untouched. -/
theorem mul_zero (x y : U128) (m : RoundingMode) (f : UInt32) {s1 s2 : Bool} {c1 c2 : Nat} {e1 e2 : Int}
    (hx : dOf x = .fin s1 c1 e1) (hy : dOf y = .fin s2 c2 e2) (hz : c1 = 0 ∨ c2 = 0) :
    bid128_mul x y m f = .ok (ofBits (encode (zeroAt (s1 != s2) (e1 + e2))), f) := by
  obtain ⟨z1, x1, l1, u1, g1⟩ := fin_view x s1 c1 e1 hx
  obtain ⟨z2, x2, l2, u2, g2⟩ := fin_view y s2 c2 e2 hy
  rw [mul_finite x y m f (by rw [specialTest_eq, hx, hy]; rfl)]
  rw [if_pos (by rw [z1, z2, Bool.or_eq_true, decide_eq_true_eq, decide_eq_true_eq]; exact hz)]
  have ht := truePExp_val x y _ _ rfl rfl (by omega) (by omega)
  have hp := pExp_val x y (e1 + e2) (by rw [ht]; omega) (by omega) (by omega)
  have hxor : ((x.w1 &&& c_MASK_SIGN) ^^^ (y.w1 &&& c_MASK_SIGN)).toNat = if (s1 != s2) then 2^63 else 0 := by
    rw [UInt64.toNat_xor, g1, g2]; cases s1 <;> cases s2 <;> decide
  have hK : (clampInt (-6176) 6111 (e1 + e2) + 6176).toNat ≤ 12287 := by
    unfold clampInt; split <;> [skip; split] <;> omega
  have henc : encode (zeroAt (s1 != s2) (e1 + e2))
      = (if (s1 != s2) then 2^127 else 0) + (clampInt (-6176) 6111 (e1 + e2) + 6176).toNat * 2^113 := by
    rw [encode_zeroAt]; rfl
  generalize (clampInt (-6176) 6111 (e1 + e2) + 6176).toNat = K at hp hK henc
  have hor : (((x.w1 &&& c_MASK_SIGN) ^^^ (y.w1 &&& c_MASK_SIGN)) ||| pExp x y).toNat
      = (if (s1 != s2) then 2^63 else 0) + K * 2^49 := by
    rw [UInt64.toNat_or, hxor, hp]
    cases (s1 != s2)
    · simp
    · have hb : K * 2^49 < 2^63 := by omega
      have := Nat.two_pow_add_eq_or_of_lt hb 1
      simpa using this.symm
  rw [henc]
  unfold ofBits
  have e0 : ((if (s1 != s2) = true then 2^127 else 0) + K * 2^113) % 2^64 = 0 := by
    cases (s1 != s2) <;> simp <;> omega
  have e1' : ((if (s1 != s2) = true then 2^127 else 0) + K * 2^113) / 2^64
      = (if (s1 != s2) = true then 2^63 else 0) + K * 2^49 := by
    cases (s1 != s2) <;> simp <;> omega
  rw [e0, e1', ← hor, UInt64.ofNat_toNat]
  rfl

/-- in the vocabulary of the model: the datum is `mulD`'s and no flag is raised -/
theorem mul_zero_mulD (x y : U128) (m : RoundingMode) (f : UInt32) {s1 s2 : Bool} {c1 c2 : Nat} {e1 e2 : Int}
    (hx : dOf x = .fin s1 c1 e1) (hy : dOf y = .fin s2 c2 e2) (hz : c1 = 0 ∨ c2 = 0) :
    bid128_mul x y m f = .ok (ofBits (encode (mulD (C13GenPack.md m) (dOf x) (dOf y)).1), f)
      ∧ (mulD (C13GenPack.md m) (dOf x) (dOf y)).2 = 0 := by
  have hp : c1 * c2 = 0 := by rcases hz with h | h <;> simp [h]
  have hm : mulD (C13GenPack.md m) (dOf x) (dOf y) = (zeroAt (s1 != s2) (e1 + e2), 0) := by
    rw [hx, hy]; simp only [mulD, hp, if_true]
  rw [hm]
  exact ⟨mul_zero x y m f hx hy hz, rfl⟩

example : bid128_mul ⟨0, 0xb040000000000000⟩ ⟨5, 0x5ffe000000000000⟩ .NearestEven 0x20 = .ok (⟨0, 0xdffe000000000000⟩, 0x20) := by
  rw [mul_zero (s1 := true) (c1 := 0) (e1 := 0) (s2 := false) (c2 := 5) (e2 := 6111) _ _ _ _ (by decide +kernel)
    (by decide +kernel) (Or.inl rfl)]
  decide +kernel

/-! ### (3) everything else is `bid128_fma (y, x, +0E+6111)` -/

/-- **the reduction**: unless both operands are numbers and one of them is a zero, `bid128_mul (x, y)` IS
`bid128_fma (y, x, z0)` with `z0 = +0E+6111` — same result word, same status word, same panic behaviour.  This covers
NaN operands, infinite operands (∞·0 included) and all pairs of non-zero numbers: the routine has no multiplication of
its own (unlike Intel's, this port has no direct path for small coefficients). -/
theorem mul_eq_fma (x y : U128) (m : RoundingMode) (f : UInt32)
    (h : ¬ ((dOf x).isFin = true ∧ (dOf y).isFin = true ∧ ((dOf x).isZero = true ∨ (dOf y).isZero = true))) :
    bid128_mul x y m f = bid128_fma y x z0 m f := by
  by_cases hs : specialTest x y = true
  · exact mul_special x y m f hs
  · have hs' : specialTest x y = false := by simpa using hs
    have hf := hs'
    rw [specialTest_eq, Bool.not_eq_false', Bool.and_eq_true] at hf
    obtain ⟨fx, fy⟩ := hf
    obtain ⟨s1, c1, e1, hx⟩ : ∃ s c e, dOf x = .fin s c e := by
      rcases hx : dOf x with ⟨s1, c1, e1⟩ | _ | _ <;> rw [hx] at fx
      · exact ⟨_, _, _, rfl⟩
      · exact absurd fx (by simp [Datum.isFin])
      · exact absurd fx (by simp [Datum.isFin])
    obtain ⟨s2, c2, e2, hy⟩ : ∃ s c e, dOf y = .fin s c e := by
      rcases hy : dOf y with ⟨s2, c2, e2⟩ | _ | _ <;> rw [hy] at fy
      · exact ⟨_, _, _, rfl⟩
      · exact absurd fy (by simp [Datum.isFin])
      · exact absurd fy (by simp [Datum.isFin])
    obtain ⟨z1, -⟩ := fin_view x s1 c1 e1 hx
    obtain ⟨z2, -⟩ := fin_view y s2 c2 e2 hy
    rw [mul_finite x y m f hs', if_neg]
    rw [z1, z2, Bool.or_eq_true, decide_eq_true_eq, decide_eq_true_eq]
    intro hz
    apply h
    rw [hx, hy]
    refine ⟨rfl, rfl, ?_⟩
    rcases hz with hz | hz
    · left; simp [Datum.isZero, hz]
    · right; simp [Datum.isZero, hz]

theorem dOf_z0 : dOf z0 = .fin false 0 6111 := by decide +kernel

/-! #### the same at the level of the specification: `fma (y, x, +0E+6111) = x · y` -/

/-- a preferred exponent at or above the top of the range acts as the top of the range -/
theorem strict_pref_high {mode : Mode} {neg : Bool} {v : ℚ} {p1 p2 : Int} {out : Datum × Flags}
    (h1 : eMax ≤ p1) (h2 : eMax ≤ p2) (h : FinishSpecStrict mode neg v p1 out) : FinishSpecStrict mode neg v p2 out := by
  rcases h with ⟨hm, m, x, ho, hval, hr, hc⟩ | h | h
  · refine Or.inl ⟨hm, m, x, ho, hval, hr, ?_⟩
    intro m' x' hr' hv'
    have := hc m' x' hr' hv'
    have a1 := hr.2.2; have a2 := hr'.2.2
    rw [abs_of_nonpos (by omega), abs_of_nonpos (by omega)] at this ⊢
    omega
  · exact Or.inr (Or.inl h)
  · exact Or.inr (Or.inr h)

theorem finish_pref_high (mode : Mode) (neg : Bool) (n d : Nat) (e p1 p2 : Int) (hn : 0 < n) (hd : 0 < d)
    (h1 : eMax ≤ p1) (h2 : eMax ≤ p2) : finish mode neg n d e p1 = finish mode neg n d e p2 :=
  ((finish_eq_iff mode neg n d e p2 hn hd _).2
    (strict_pref_high h1 h2 (finish_spec_strict mode neg n d e p1 hn hd))).symm

/-- the same value written with a lower exponent and a longer numerator -/
theorem finish_shift (mode : Mode) (neg : Bool) (c k : Nat) (e p : Int) (hc : 0 < c) :
    finish mode neg (c * 10 ^ k) 1 e p = finish mode neg c 1 (e + k) p := by
  apply (finish_eq_iff mode neg (c * 10 ^ k) 1 e p (Nat.mul_pos hc (Nat.pow_pos (by decide))) (by decide) _).2
  have := finish_spec_strict mode neg c 1 (e + k) p hc (by decide)
  have hv : ((c * 10 ^ k : Nat) : ℚ) / ((1 : Nat) : ℚ) * (10 : ℚ) ^ e = ((c : Nat) : ℚ) / ((1 : Nat) : ℚ) * (10 : ℚ) ^ (e + k) := by
    rw [zpow_add₀ (by norm_num : (10 : ℚ) ≠ 0), zpow_natCast]
    push_cast; ring
  rw [hv]; exact this

theorem bne_comm' (a b : Bool) : (a != b) = (b != a) := by cases a <;> cases b <;> rfl

/-- multiplication of data is commutative -/
theorem mulD_comm (mode : Mode) (x y : Datum) : mulD mode y x = mulD mode x y := by
  rcases x with ⟨s1, c1, e1⟩ | ⟨s1⟩ | ⟨s1, g1, p1⟩ <;> rcases y with ⟨s2, c2, e2⟩ | ⟨s2⟩ | ⟨s2, g2, p2⟩
  · simp only [mulD, bne_comm' s2 s1, Nat.mul_comm c2 c1, Int.add_comm e2 e1]
  · simp only [mulD, bne_comm' s2 s1]
  · rfl
  · simp only [mulD, bne_comm' s2 s1]
  · simp only [mulD, bne_comm' s2 s1]
  · rfl
  · rfl
  · rfl
  · rfl

/-- **`fma (y, x, +0E+6111)` is `x · y`** at the level of the model, datum and flags, for all data except a zero product of
two numbers (there `fma` would give the sign of `(±0) + (+0)`, which is why `bid128_mul` answers those itself).  Beyond
`C02Q.fma_zero_addend_is_mul` this includes exponent sums above 6111, where the addend's exponent lowers the preferred
exponent to 6111 — the top of the range, so the delivered member is the same. -/
theorem fmaD_z0_eq_mulD (mode : Mode) (dx dy : Datum)
    (h : ¬ (dx.isFin = true ∧ dy.isFin = true ∧ (dx.isZero = true ∨ dy.isZero = true))) :
    fmaD mode false dy dx (.fin false 0 6111) = mulD mode dx dy := by
  rcases dx with ⟨s1, c1, e1⟩ | ⟨s1⟩ | ⟨s1, g1, p1⟩ <;> rcases dy with ⟨s2, c2, e2⟩ | ⟨s2⟩ | ⟨s2, g2, p2⟩
  · -- two numbers, neither zero
    have hc1 : c1 ≠ 0 := by intro h0; exact h ⟨rfl, rfl, Or.inl (by simp [Datum.isZero, h0])⟩
    have hc2 : c2 ≠ 0 := by intro h0; exact h ⟨rfl, rfl, Or.inr (by simp [Datum.isZero, h0])⟩
    have hc : c2 * c1 ≠ 0 := Nat.mul_ne_zero hc2 hc1
    rw [← mulD_comm]
    by_cases he : e2 + e1 ≤ 6111
    · exact C02Q.fma_zero_addend_is_mul mode s2 c2 e2 s1 c1 e1 false 6111 hc he
    · have h1 : fmaD mode false (.fin s2 c2 e2) (.fin s1 c1 e1) (.fin false 0 6111) =
          addFin mode (s2 != s1) (c2 * c1) (e2 + e1) false 0 6111 (if e2 + e1 ≤ 6111 then e2 + e1 else 6111) := rfl
      have h2 : mulD mode (.fin s2 c2 e2) (.fin s1 c1 e1) =
          if c2 * c1 = 0 then (zeroAt (s2 != s1) (e2 + e1), 0)
          else finish mode (s2 != s1) (c2 * c1) 1 (e2 + e1) (e2 + e1) := rfl
      rw [h1, h2, if_neg hc, if_neg he]
      unfold addFin
      simp only [if_neg he, sub_self, Int.toNat_zero, pow_zero, Nat.mul_one]
      generalize hkk : (e2 + e1 - 6111).toNat = k
      have hke : e2 + e1 = 6111 + (k : Int) := by omega
      have hpos : 0 < c2 * c1 * 10 ^ k := Nat.mul_pos (Nat.pos_of_ne_zero hc) (Nat.pow_pos (by decide))
      have hz : sInt false 0 = 0 := by simp [sInt]
      rw [hz, add_zero]
      have hfin : finish mode (s2 != s1) (c2 * c1 * 10 ^ k) 1 6111 6111
          = finish mode (s2 != s1) (c2 * c1) 1 (e2 + e1) (e2 + e1) := by
        rw [finish_shift mode _ (c2 * c1) k 6111 6111 (Nat.pos_of_ne_zero hc), ← hke]
        exact finish_pref_high mode _ _ _ _ _ _ (Nat.pos_of_ne_zero hc) (by decide) (by simp [eMax]) (by simp [eMax]; omega)
      cases hs : (s2 != s1)
      · have e : sInt false (c2 * c1 * 10 ^ k) = ((c2 * c1 * 10 ^ k : Nat) : Int) := by simp [sInt]
        rw [hs] at hfin
        rw [e, if_neg (by omega), Int.natAbs_natCast]
        have : decide (((c2 * c1 * 10 ^ k : Nat) : Int) < 0) = false := by
          simp only [decide_eq_false_iff_not]; omega
        rw [this]; exact hfin
      · have e : sInt true (c2 * c1 * 10 ^ k) = -((c2 * c1 * 10 ^ k : Nat) : Int) := by simp [sInt]
        rw [hs] at hfin
        rw [e, if_neg (by omega), Int.natAbs_neg, Int.natAbs_natCast]
        have : decide (-((c2 * c1 * 10 ^ k : Nat) : Int) < 0) = true := by
          simp only [decide_eq_true_eq]; omega
        rw [this]; exact hfin
  · by_cases hc : c1 = 0 <;> simp [fmaD, mulD, invalidResult, hc, defaultNaN, bne_comm' s2 s1]
  · simp [fmaD, mulD, invalidResult, defaultNaN]
  · by_cases hc : c2 = 0 <;> simp [fmaD, mulD, invalidResult, hc, defaultNaN, bne_comm' s2 s1]
  · simp [fmaD, mulD, bne_comm' s2 s1]
  · simp [fmaD, mulD, invalidResult, defaultNaN]
  · simp [fmaD, mulD, invalidResult, defaultNaN]
  · simp [fmaD, mulD, invalidResult, defaultNaN]
  · simp [fmaD, mulD, invalidResult, defaultNaN]

/-! ### multiplication is correct wherever the fused multiply-add is -/

/-- **Transfer**: outside the zero case, if `bid128_fma` delivers the model's `fmaD` for the operands `(y, x, +0E+6111)`
(canonical encoding of the datum, flags OR-ed into the status word), then `bid128_mul` delivers the model's `mulD` for
`(x, y)`.  (For NaN operands the model is the NaN rule, not `mulD`: see `C12GenNaN.mul_nan`.) -/
theorem mul_correct_of_fma (x y : U128) (m : RoundingMode) (f : UInt32)
    (h : ¬ ((dOf x).isFin = true ∧ (dOf y).isFin = true ∧ ((dOf x).isZero = true ∨ (dOf y).isZero = true)))
    (hf : bid128_fma y x z0 m f =
      .ok (ofBits (encode (fmaD (C13GenPack.md m) false (dOf y) (dOf x) (dOf z0)).1),
           f ||| UInt32.ofNat (fmaD (C13GenPack.md m) false (dOf y) (dOf x) (dOf z0)).2)) :
    bid128_mul x y m f =
      .ok (ofBits (encode (mulD (C13GenPack.md m) (dOf x) (dOf y)).1),
           f ||| UInt32.ofNat (mulD (C13GenPack.md m) (dOf x) (dOf y)).2) := by
  rw [mul_eq_fma x y m f h, hf, dOf_z0, fmaD_z0_eq_mulD _ _ _ h]

/-- the two cases together: what `bid128_mul` does on every pair of patterns -/
theorem mul_cases (x y : U128) (m : RoundingMode) (f : UInt32) :
    bid128_mul x y m f =
      if ((dOf x).isFin && (dOf y).isFin && ((dOf x).isZero || (dOf y).isZero)) = true then
        .ok (ofBits (encode (mulD (C13GenPack.md m) (dOf x) (dOf y)).1), f)
      else bid128_fma y x z0 m f := by
  by_cases hc : ((dOf x).isFin && (dOf y).isFin && ((dOf x).isZero || (dOf y).isZero)) = true
  · rw [if_pos hc]
    simp only [Bool.and_eq_true, Bool.or_eq_true] at hc
    obtain ⟨⟨fx, fy⟩, hz⟩ := hc
    rcases hx : dOf x with ⟨s1, c1, e1⟩ | _ | _ <;> rw [hx] at fx hz <;> simp [Datum.isFin] at fx
    rcases hy : dOf y with ⟨s2, c2, e2⟩ | _ | _ <;> rw [hy] at fy hz <;> simp [Datum.isFin] at fy
    have hz' : c1 = 0 ∨ c2 = 0 := by simpa [Datum.isZero] using hz
    have := (mul_zero_mulD x y m f hx hy hz').1
    rw [hx, hy] at this
    exact this
  · rw [if_neg hc]
    apply mul_eq_fma
    intro ⟨fx, fy, hz⟩
    apply hc
    simp only [Bool.and_eq_true, Bool.or_eq_true]
    exact ⟨⟨fx, fy⟩, hz⟩

/-- infinite operands are among those handed to `bid128_fma`: `bid128_mul` has no code of its own for them -/
theorem mul_inf (x y : U128) (m : RoundingMode) (f : UInt32) (h : (dOf x).isInf = true ∨ (dOf y).isInf = true) :
    bid128_mul x y m f = bid128_fma y x z0 m f := by
  apply mul_eq_fma
  intro ⟨fx, fy, _⟩
  rcases h with h | h
  · cases hd : dOf x <;> rw [hd] at fx h <;> simp [Datum.isFin, Datum.isInf] at fx h
  · cases hd : dOf y <;> rw [hd] at fy h <;> simp [Datum.isFin, Datum.isInf] at fy h

/-- and at the level of the model `fma (y, x, +0E+6111)` then is `mulD`: `∞·∞`, `∞·n` (signs XOR-ed), `∞·0` invalid -/
example : fmaD .rne false (.fin false 0 3) (.inf true) (.fin false 0 6111) = mulD .rne (.inf true) (.fin false 0 3) ∧
    mulD .rne (.inf true) (.fin false 0 3) = (.nan false false 0, fInvalid) := by decide
example : fmaD .rne false (.fin true 7 3) (.inf true) (.fin false 0 6111) = (.inf false, 0) := by decide

/-! ## `bid128_div`: the front end -/

/-- **the wrapper**: `bid128_div` runs `bid128_div_clear_status` from a clear status word and ORs what it raised into the
caller's -/
theorem div_wrapper (x y : U128) (m : RoundingMode) (f : UInt32) :
    bid128_div x y m f = (bid128_div_clear_status x y m 0 >>= fun t => pure (t.1, f ||| t.2)) := rfl

theorem div_of_clear (x y : U128) (m : RoundingMode) (f : UInt32) {r : U128} {g : UInt32}
    (h : bid128_div_clear_status x y m 0 = .ok (r, g)) : bid128_div x y m f = .ok (r, f ||| g) := by
  rw [div_wrapper, h]; rfl

/-! ### the tests of the front end -/

theorem tSpec_lit (w : U128) : (w.w1 &&& 0x7800000000000000 == 0x7800000000000000) = !(dOf w).isFin := by
  have e : (w.w1 &&& 0x7800000000000000 == 0x7800000000000000) = decide (w.w1.toNat / 2^59 % 16 = 15) :=
    C13GenNoncomp.inf_test w.w1
  rw [e, dOf_W]
  have hh := w.w1.toNat_lt
  rcases decodeW_cases w.w1.toNat w.w0.toNat with ⟨h1, h2, hd⟩ | ⟨h1, h2, h3, hd⟩ | ⟨h1, h2, h3, hd⟩ | ⟨h1, h2, hd⟩ |
    ⟨h1, h2, h3, hd⟩ | ⟨h1, h2, h3, hd⟩ <;> rw [hd, Bool.eq_iff_iff] <;>
    simp only [Datum.isFin, Bool.not_true, Bool.not_false] <;> bool_omega

theorem tLt78_lit (w : U128) : decide (w.w1 &&& 0x7800000000000000 < 0x7800000000000000) = (dOf w).isFin := by
  have e : (w.w1 &&& 0x7800000000000000).toNat = w.w1.toNat / 2^59 % 2^4 * 2^59 :=
    C13GenNoncomp.toNat_and_field _ _ 4 59 (by decide)
  have k : (0x7800000000000000 : UInt64).toNat = 8646911284551352320 := by decide
  have e2 : (w.w1 &&& 0x7800000000000000 < 0x7800000000000000) ↔ w.w1.toNat / 2^59 % 16 ≠ 15 := by
    rw [UInt64.lt_iff_toNat_lt, e, k]; omega
  rw [show decide (w.w1 &&& 0x7800000000000000 < 0x7800000000000000) = decide (w.w1.toNat / 2^59 % 16 ≠ 15) from
    decide_eq_decide.2 e2, dOf_W]
  have hh := w.w1.toNat_lt
  rcases decodeW_cases w.w1.toNat w.w0.toNat with ⟨h1, h2, hd⟩ | ⟨h1, h2, h3, hd⟩ | ⟨h1, h2, h3, hd⟩ | ⟨h1, h2, hd⟩ |
    ⟨h1, h2, h3, hd⟩ | ⟨h1, h2, h3, hd⟩ <;> rw [hd, Bool.eq_iff_iff] <;>
    simp only [Datum.isFin] <;> bool_omega

theorem tInf_lit (w : U128) : (w.w1 &&& 0x7c00000000000000 == 0x7800000000000000) = (dOf w).isInf := by
  have e := tInf_eq w
  rw [show c_MASK_ANY_INF = (0x7c00000000000000 : UInt64) from rfl, show c_MASK_INF = (0x7800000000000000 : UInt64) from rfl] at e
  rw [e, dOf_W]
  have hh := w.w1.toNat_lt
  rcases decodeW_cases w.w1.toNat w.w0.toNat with ⟨h1, h2, hd⟩ | ⟨h1, h2, h3, hd⟩ | ⟨h1, h2, h3, hd⟩ | ⟨h1, h2, hd⟩ |
    ⟨h1, h2, h3, hd⟩ | ⟨h1, h2, h3, hd⟩ <;> rw [hd, Bool.eq_iff_iff] <;>
    simp only [Datum.isInf] <;> bool_omega

theorem tNaN_lit (w : U128) : (w.w1 &&& 0x7c00000000000000 == 0x7c00000000000000) = (dOf w).isNaN := nan_lit w

/-- the sign bit of `x ^ y` is the XOR of the two signs -/
theorem xor_sign (x y : U128) :
    ((x.w1 ^^^ y.w1) &&& 0x8000000000000000).toNat = if ((dOf x).neg != (dOf y).neg) then 2^63 else 0 := by
  have e : (x.w1 ^^^ y.w1) &&& 0x8000000000000000 = (x.w1 &&& 0x8000000000000000) ^^^ (y.w1 &&& 0x8000000000000000) := by
    apply UInt64.toNat_inj.1
    simp only [UInt64.toNat_and, UInt64.toNat_xor, Nat.and_xor_distrib_right]
  rw [e, UInt64.toNat_xor, C06GenFromInt.sign_word, C06GenFromInt.sign_word]
  cases (dOf x).neg <;> cases (dOf y).neg <;> decide

theorem unp_fin (s0 : UInt64) (e0 : Int32) (c0 x : U128) {s : Bool} {c : Nat} {e : Int} (hD : dOf x = .fin s c e) :
    unpack_BID128_value s0 e0 c0 x =
      .ok ((ofBits c).w0 ||| (ofBits c).w1, x.w1 &&& 0x8000000000000000, Int32.ofInt (e + 6176), ofBits c) := by
  have hD' : decode (bitsOf x) = .fin s c e := hD
  rw [C06GenFromInt.unpack_value_spec, hD']
theorem unp_inf (s0 : UInt64) (e0 : Int32) (c0 x : U128) {s : Bool} (hD : dOf x = .inf s) :
    unpack_BID128_value s0 e0 c0 x = .ok (0, x.w1 &&& 0x8000000000000000, 0, ofBits (canon (bitsOf x))) := by
  have hD' : decode (bitsOf x) = .inf s := hD
  rw [C06GenFromInt.unpack_value_spec, hD']

/-- the pattern of `±∞` / of the default NaN, as pairs of words -/
theorem ofBits_inf (b : Bool) (w : UInt64) (hw : w.toNat = if b then 2^63 else 0) :
    (⟨0, w ||| 0x7800000000000000⟩ : U128) = ofBits (encode (.inf b)) := by
  have hor : (w ||| 0x7800000000000000).toNat = (if b then 2^63 else 0) + 0x7800000000000000 := by
    rw [UInt64.toNat_or, hw]; cases b <;> decide
  unfold ofBits
  have e0 : encode (.inf b) % 2^64 = 0 := by cases b <;> decide
  have e1 : encode (.inf b) / 2^64 = (if b then 2^63 else 0) + 0x7800000000000000 := by cases b <;> decide
  rw [e0, e1, ← hor, UInt64.ofNat_toNat]; rfl
theorem ofBits_dnan : (⟨0, 0x7c00000000000000⟩ : U128) = ofBits (encode defaultNaN) := by decide

/-- **∞ / ∞**: invalid, the default NaN -/
theorem div_inf_inf (x y : U128) (m : RoundingMode) (f : UInt32) {s1 s2 : Bool}
    (hx : dOf x = .inf s1) (hy : dOf y = .inf s2) :
    bid128_div_clear_status x y m f = .ok (ofBits (encode defaultNaN), f ||| 1) := by
  have hxn : ¬ (x.w1 &&& 0x7c00000000000000 == 0x7c00000000000000) = true := by rw [tNaN_lit, hx]; simp [Datum.isNaN]
  unfold bid128_div_clear_status
  take_call (unp_inf _ _ _ y hy)
  take_call (unp_inf _ _ _ x hx)
  take_pos
  · rfl
  take_neg
  · exact hxn
  take_pos
  · rw [tSpec_lit, hx]; rfl
  take_pos
  · rw [tInf_lit, hy]; rfl
  rw [← ofBits_dnan]; rfl

example : bid128_div ⟨0, 0x7800000000000000⟩ ⟨0, 0xf800000000000000⟩ .NearestEven 0x20 = .ok (⟨0, 0x7c00000000000000⟩, 0x21) := by
  rw [div_of_clear _ _ _ _ (div_inf_inf (s1 := false) (s2 := true) _ _ _ _ (by decide +kernel) (by decide +kernel))]
  decide +kernel

theorem neg_inf' (s : Bool) : (Datum.inf s).neg = s := rfl
theorem neg_fin' (s : Bool) (c : Nat) (e : Int) : (Datum.fin s c e).neg = s := rfl

/-- **∞ / n** (`n` any number, zero included): `∞` with the XOR of the signs, no flag -/
theorem div_inf_fin (x y : U128) (m : RoundingMode) (f : UInt32) {s1 s2 : Bool} {c2 : Nat} {e2 : Int}
    (hx : dOf x = .inf s1) (hy : dOf y = .fin s2 c2 e2) :
    bid128_div_clear_status x y m f = .ok (ofBits (encode (.inf (s1 != s2))), f) := by
  unfold bid128_div_clear_status
  take_call (unp_fin _ _ _ y hy)
  take_call (unp_inf _ _ _ x hx)
  take_pos
  · rfl
  take_neg
  · rw [tNaN_lit, hx]; simp [Datum.isNaN]
  take_pos
  · rw [tSpec_lit, hx]; rfl
  take_neg
  · rw [tInf_lit, hy]; simp [Datum.isInf]
  take_pos
  · rw [bne, tNaN_lit, hy]; rfl
  head_step
  rw [← ofBits_inf (s1 != s2) ((x.w1 ^^^ y.w1) &&& 0x8000000000000000) (by rw [xor_sign, hx, hy, neg_inf', neg_fin'])]
  rfl

theorem ind_zero : (((ofBits 0).w0 ||| (ofBits 0).w1) == (0 : UInt64)) = true := by decide
theorem ind_nonzero {c : Nat} (hc : c ≠ 0) (hl : c < P34) : (((ofBits c).w0 ||| (ofBits c).w1) == (0 : UInt64)) = false := by
  have h128 : c < 2^128 := by unfold P34 at hl; omega
  rw [Bool.eq_false_iff, ne_eq, beq_iff_eq, C06GenFromInt.indicator_zero_iff h128]; exact hc
theorem cy_zero : (((ofBits 0).w0 == (0 : UInt64)) && (((ofBits 0).w1 &&& 0x1ffffffffffff) == (0 : UInt64))) = true := by decide
theorem cy_nonzero {c : Nat} (hc : c ≠ 0) (hl : c < P34) :
    (((ofBits c).w0 == (0 : UInt64)) && (((ofBits c).w1 &&& 0x1ffffffffffff) == (0 : UInt64))) = false := by
  unfold P34 at hl
  rw [Bool.eq_false_iff, ne_eq, Bool.and_eq_true, beq_iff_eq, beq_iff_eq, ← UInt64.toNat_inj, ← UInt64.toNat_inj,
    C13GenNoncomp.coeff_hi]
  simp only [ofBits, UInt64.toNat_ofNat', UInt64.toNat_zero]
  omega

theorem fin_WF (x : U128) {s : Bool} {c : Nat} {e : Int} (hD : dOf x = .fin s c e) : c < P34 ∧ -6176 ≤ e ∧ e ≤ 6111 := by
  have := decode_WF (bitsOf x)
  rw [show decode (bitsOf x) = .fin s c e from hD] at this
  exact this

/-- **0 / 0**: invalid, the default NaN -/
theorem div_zero_zero (x y : U128) (m : RoundingMode) (f : UInt32) {s1 s2 : Bool} {e1 e2 : Int}
    (hx : dOf x = .fin s1 0 e1) (hy : dOf y = .fin s2 0 e2) :
    bid128_div_clear_status x y m f = .ok (ofBits (encode defaultNaN), f ||| 1) := by
  unfold bid128_div_clear_status
  take_call (unp_fin _ _ _ y hy)
  take_call (unp_fin _ _ _ x hx)
  take_pos
  · exact ind_zero
  take_neg
  · rw [tNaN_lit, hx]; simp [Datum.isNaN]
  take_neg
  · rw [tSpec_lit, hx]; simp [Datum.isFin]
  take_pos
  · rw [tLt78_lit, hy]; rfl
  take_pos
  · exact cy_zero
  rw [← ofBits_dnan]; rfl

/-- **n / 0**, `n` a non-zero number: zero-divide, `∞` with the XOR of the signs -/
theorem div_fin_zero (x y : U128) (m : RoundingMode) (f : UInt32) {s1 s2 : Bool} {c1 : Nat} {e1 e2 : Int}
    (hx : dOf x = .fin s1 c1 e1) (hc1 : c1 ≠ 0) (hy : dOf y = .fin s2 0 e2) :
    bid128_div_clear_status x y m f = .ok (ofBits (encode (.inf (s1 != s2))), f ||| 4) := by
  unfold bid128_div_clear_status
  take_call (unp_fin _ _ _ y hy)
  take_call (unp_fin _ _ _ x hx)
  take_neg
  · rw [ind_nonzero hc1 (fin_WF x hx).1]; decide
  take_pos
  · exact ind_zero
  take_neg
  · rw [tNaN_lit, hy]; simp [Datum.isNaN]
  take_neg
  · rw [tSpec_lit, hy]; simp [Datum.isFin]
  rw [← ofBits_inf (s1 != s2) ((x.w1 ^^^ y.w1) &&& 0x8000000000000000) (by rw [xor_sign, hx, hy, neg_fin', neg_fin'])]
  rfl

/-- the pattern of a signed zero at the least exponent -/
theorem ofBits_zero_min (b : Bool) (w : UInt64) (hw : w.toNat = if b then 2^63 else 0) :
    (⟨0, w⟩ : U128) = ofBits (encode (.fin b 0 eMin)) := by
  unfold ofBits
  have e0 : encode (.fin b 0 eMin) % 2^64 = 0 := by cases b <;> decide
  have e1 : encode (.fin b 0 eMin) / 2^64 = (if b then 2^63 else 0) := by cases b <;> decide
  rw [e0, e1, ← hw, UInt64.ofNat_toNat]; rfl

theorem sign_xor (x y : U128) :
    ((x.w1 &&& 0x8000000000000000) ^^^ (y.w1 &&& 0x8000000000000000)).toNat
      = if ((dOf x).neg != (dOf y).neg) then 2^63 else 0 := by
  rw [UInt64.toNat_xor, C06GenFromInt.sign_word, C06GenFromInt.sign_word]
  cases (dOf x).neg <;> cases (dOf y).neg <;> decide

/-- **n / ∞** (`n` any number, zero included): the zero with the XOR of the signs at the least exponent, no flag -/
theorem div_fin_inf (x y : U128) (m : RoundingMode) (f : UInt32) {s1 s2 : Bool} {c1 : Nat} {e1 : Int}
    (hx : dOf x = .fin s1 c1 e1) (hy : dOf y = .inf s2) :
    bid128_div_clear_status x y m f = .ok (ofBits (encode (.fin (s1 != s2) 0 eMin)), f) := by
  unfold bid128_div_clear_status
  take_call (unp_inf _ _ _ y hy)
  take_call (unp_fin _ _ _ x hx)
  by_cases hc : c1 = 0
  · subst hc
    take_pos
    · exact ind_zero
    take_neg
    · rw [tNaN_lit, hx]; simp [Datum.isNaN]
    take_neg
    · rw [tSpec_lit, hx]; simp [Datum.isFin]
    take_neg
    · rw [tLt78_lit, hy]; simp [Datum.isFin]
    take_pos
    · rfl
    take_neg
    · rw [tNaN_lit, hy]; simp [Datum.isNaN]
    take_pos
    · rw [tSpec_lit, hy]; rfl
    head_step
    rw [← ofBits_zero_min (s1 != s2) ((x.w1 &&& 0x8000000000000000) ^^^ (y.w1 &&& 0x8000000000000000))
      (by rw [sign_xor, hx, hy, neg_fin', neg_inf'])]
    rfl
  · take_neg
    · rw [ind_nonzero hc (fin_WF x hx).1]; decide
    take_pos
    · rfl
    take_neg
    · rw [tNaN_lit, hy]; simp [Datum.isNaN]
    take_pos
    · rw [tSpec_lit, hy]; rfl
    head_step
    rw [← ofBits_zero_min (s1 != s2) ((x.w1 &&& 0x8000000000000000) ^^^ (y.w1 &&& 0x8000000000000000))
      (by rw [sign_xor, hx, hy, neg_fin', neg_inf'])]
    rfl

/-- the pattern of a signed zero with a clamped exponent, from its sign word and exponent field -/
theorem ofBits_zeroAt (b : Bool) (w p : UInt64) (t : Int) (hw : w.toNat = if b then 2^63 else 0)
    (hp : p.toNat = (clampInt (-6176) 6111 t + 6176).toNat * 2^49) :
    (⟨0, w ||| p⟩ : U128) = ofBits (encode (zeroAt b t)) := by
  have hK : (clampInt (-6176) 6111 t + 6176).toNat ≤ 12287 := by
    unfold clampInt; split <;> [skip; split] <;> omega
  have henc : encode (zeroAt b t) = (if b then 2^127 else 0) + (clampInt (-6176) 6111 t + 6176).toNat * 2^113 := by
    rw [encode_zeroAt]; rfl
  generalize (clampInt (-6176) 6111 t + 6176).toNat = K at hp hK henc
  have hor : (w ||| p).toNat = (if b then 2^63 else 0) + K * 2^49 := by
    rw [UInt64.toNat_or, hw, hp]
    cases b
    · simp
    · have hb : K * 2^49 < 2^63 := by omega
      have := Nat.two_pow_add_eq_or_of_lt hb 1
      simpa using this.symm
  rw [henc]
  unfold ofBits
  have e0 : ((if b = true then 2^127 else 0) + K * 2^113) % 2^64 = 0 := by
    cases b <;> simp <;> omega
  have e1' : ((if b = true then 2^127 else 0) + K * 2^113) / 2^64 = (if b = true then 2^63 else 0) + K * 2^49 := by
    cases b <;> simp <;> omega
  rw [e0, e1', ← hor, UInt64.ofNat_toNat]
  rfl

/-- **0 / n**, `n` a non-zero number: the zero with the XOR of the signs and the exponent difference clamped into the
format's range (`divD`'s `zeroAt (s1 ≠ s2) (e1 − e2)`), no flag -/
theorem div_zero_fin (x y : U128) (m : RoundingMode) (f : UInt32) {s1 s2 : Bool} {c2 : Nat} {e1 e2 : Int}
    (hx : dOf x = .fin s1 0 e1) (hy : dOf y = .fin s2 c2 e2) (hc2 : c2 ≠ 0) :
    bid128_div_clear_status x y m f = .ok (ofBits (encode (zeroAt (s1 != s2) (e1 - e2))), f) := by
  obtain ⟨-, l1, u1⟩ := fin_WF x hx
  obtain ⟨hl2, l2, u2⟩ := fin_WF y hy
  have k1 : (c_DECIMAL_EXPONENT_BIAS_128).toInt = 6176 := by decide
  have k2 : (c_DECIMAL_MAX_EXPON_128).toInt = 12287 := by decide
  have a1 : (Int32.ofInt (e1 + 6176)).toInt = e1 + 6176 := by
    rw [Int32.toInt_ofInt, show Int32.size = 2^32 from rfl]; exact bmod32 (by omega) (by omega)
  have a2 : (Int32.ofInt (e2 + 6176)).toInt = e2 + 6176 := by
    rw [Int32.toInt_ofInt, show Int32.size = 2^32 from rfl]; exact bmod32 (by omega) (by omega)
  have a3 : (Int32.ofInt (e1 + 6176) - Int32.ofInt (e2 + 6176)).toInt = e1 - e2 := by
    rw [Int32.toInt_sub, a1, a2]; exact (bmod32 (by omega) (by omega)).trans (by omega)
  have hT : (Int32.ofInt (e1 + 6176) - Int32.ofInt (e2 + 6176) + c_DECIMAL_EXPONENT_BIAS_128).toInt = e1 - e2 + 6176 := by
    rw [Int32.toInt_add, a3, k1]; exact bmod32 (by omega) (by omega)
  have hsg := xor_sign x y
  rw [hx, hy, neg_fin', neg_fin'] at hsg
  unfold bid128_div_clear_status
  take_call (unp_fin _ _ _ y hy)
  take_call (unp_fin _ _ _ x hx)
  take_pos
  · exact ind_zero
  take_neg
  · rw [tNaN_lit, hx]; simp [Datum.isNaN]
  take_neg
  · rw [tSpec_lit, hx]; simp [Datum.isFin]
  take_pos
  · rw [tLt78_lit, hy]; rfl
  take_neg
  · rw [cy_nonzero hc2 hl2]; decide
  head_step
  dsimp only
  generalize hTT : (Int32.ofInt (e1 + 6176) - Int32.ofInt (e2 + 6176) + c_DECIMAL_EXPONENT_BIAS_128) = T at hT ⊢
  by_cases c1 : e1 - e2 + 6176 > 12287
  · take_pos
    · rw [decide_eq_true_eq, gt_iff_lt, Int32.lt_iff_toInt_lt, k2, hT]; exact c1
    rw [← ofBits_zeroAt (s1 != s2) ((x.w1 ^^^ y.w1) &&& 0x8000000000000000)
      (UInt64.ofInt (toI c_DECIMAL_MAX_EXPON_128) <<< 49) (e1 - e2) hsg
      (by rw [show (UInt64.ofInt (toI c_DECIMAL_MAX_EXPON_128) <<< 49).toNat = 12287 * 2^49 from by decide]
          unfold clampInt; rw [if_neg (by omega), if_pos (by omega)]; rfl)]
    rfl
  · take_neg
    · rw [decide_eq_true_eq, gt_iff_lt, Int32.lt_iff_toInt_lt, k2, hT]; exact c1
    by_cases c2' : e1 - e2 + 6176 < 0
    · take_pos
      · rw [decide_eq_true_eq, Int32.lt_iff_toInt_lt, hT]; exact c2'
      rw [← ofBits_zeroAt (s1 != s2) ((x.w1 ^^^ y.w1) &&& 0x8000000000000000)
        (UInt64.ofInt (toI (0 : Int32)) <<< 49) (e1 - e2) hsg
        (by rw [show (UInt64.ofInt (toI (0 : Int32)) <<< 49).toNat = 0 from by decide]
            unfold clampInt; rw [if_pos (by omega)]; rfl)]
      rfl
    · take_neg
      · rw [decide_eq_true_eq, Int32.lt_iff_toInt_lt, hT]; exact c2'
      have hp : (UInt64.ofInt (toI T) <<< 49).toNat = (clampInt (-6176) 6111 (e1 - e2) + 6176).toNat * 2^49 := by
        show (UInt64.ofInt T.toInt <<< 49).toNat = _
        rw [UInt64.toNat_shiftLeft, toNat_ofInt64', hT, show (49 : UInt64).toNat % 64 = 49 from by decide, Nat.shiftLeft_eq]
        unfold clampInt; rw [if_neg (by omega), if_neg (by omega)]
        omega
      rw [← ofBits_zeroAt (s1 != s2) ((x.w1 ^^^ y.w1) &&& 0x8000000000000000) (UInt64.ofInt (toI T) <<< 49) (e1 - e2) hsg hp]
      rfl

/-! ### the front end as a whole -/

theorem or0 (f : UInt32) : f ||| UInt32.ofNat 0 = f := by
  show f ||| 0 = f
  exact UInt32.or_zero

/-- **`bid128_div_clear_status`, front end**: for operands that are not NaNs and not both non-zero numbers — ∞/∞, ∞/n, n/∞,
0/0, n/0, 0/n — the routine returns the canonical encoding of the model's `divD` datum and ORs `divD`'s flags (invalid for
∞/∞ and 0/0, zero-divide for n/0, none otherwise) into the status word; for every rounding mode. -/
theorem div_front (x y : U128) (m : RoundingMode) (f : UInt32)
    (hnx : (dOf x).isNaN = false) (hny : (dOf y).isNaN = false)
    (h : ¬ ((dOf x).isFin = true ∧ (dOf y).isFin = true ∧ (dOf x).isZero = false ∧ (dOf y).isZero = false)) :
    bid128_div_clear_status x y m f =
      .ok (ofBits (encode (divD (C13GenPack.md m) (dOf x) (dOf y)).1),
           f ||| UInt32.ofNat (divD (C13GenPack.md m) (dOf x) (dOf y)).2) := by
  rcases hx : dOf x with ⟨s1, c1, e1⟩ | ⟨s1⟩ | ⟨s1, g1, p1⟩ <;> rcases hy : dOf y with ⟨s2, c2, e2⟩ | ⟨s2⟩ | ⟨s2, g2, p2⟩
  · -- number / number
    by_cases hc2 : c2 = 0
    · subst hc2
      by_cases hc1 : c1 = 0
      · subst hc1
        rw [div_zero_zero x y m f hx hy]
        simp only [divD, if_true]; rfl
      · rw [div_fin_zero x y m f hx hc1 hy]
        simp only [divD, if_true, hc1, if_false]; rfl
    · by_cases hc1 : c1 = 0
      · subst hc1
        rw [div_zero_fin x y m f hx hy hc2]
        simp only [divD, hc2, if_false, if_true, or0]
      · exfalso; apply h
        rw [hx, hy]
        exact ⟨rfl, rfl, by simp [Datum.isZero, hc1], by simp [Datum.isZero, hc2]⟩
  · rw [div_fin_inf x y m f hx hy]; simp only [divD, or0]
  · rw [hy] at hny; simp [Datum.isNaN] at hny
  · rw [div_inf_fin x y m f hx hy]; simp only [divD, or0]
  · rw [div_inf_inf x y m f hx hy]; rfl
  · rw [hy] at hny; simp [Datum.isNaN] at hny
  · rw [hx] at hnx; simp [Datum.isNaN] at hnx
  · rw [hx] at hnx; simp [Datum.isNaN] at hnx
  · rw [hx] at hnx; simp [Datum.isNaN] at hnx

/-- the same for `bid128_div` itself: the flags raised are OR-ed into the caller's status word -/
theorem div_front' (x y : U128) (m : RoundingMode) (f : UInt32)
    (hnx : (dOf x).isNaN = false) (hny : (dOf y).isNaN = false)
    (h : ¬ ((dOf x).isFin = true ∧ (dOf y).isFin = true ∧ (dOf x).isZero = false ∧ (dOf y).isZero = false)) :
    bid128_div x y m f =
      .ok (ofBits (encode (divD (C13GenPack.md m) (dOf x) (dOf y)).1),
           f ||| UInt32.ofNat (divD (C13GenPack.md m) (dOf x) (dOf y)).2) := by
  rw [div_of_clear x y m f (div_front x y m 0 hnx hny h), UInt32.zero_or]

-- 0E+6111 / 5E-6176: the exponent difference 12287 is clamped to 6111 (where defect D2 was)
example : bid128_div ⟨0, 0xdffe000000000000⟩ ⟨5, 0x0000000000000000⟩ .NearestEven 0 = .ok (⟨0, 0xdffe000000000000⟩, 0) := by
  decide +kernel
example : bid128_div ⟨7, 0x3040000000000000⟩ ⟨0, 0xb040000000000000⟩ .Upward 0x20 = .ok (⟨0, 0xf800000000000000⟩, 0x24) := by
  decide +kernel

end Dec.C01GenMul
