/-
  C02GenFmaFrontSpec — what the FRONT END of `bid128_ext_fma` (bid128_fma.rs lines 666–1775; the stages of
  `C02GenFmaFront.lean`: `ext_fma_shape : bid128_ext_fma p1 p2 p3 p4 x y z m f = frontK x y z m f (caseLoop p1 p2 p3 p4)`)
  computes, for ALL operands.  `dOf x = decode (bitsOf x)` (C01GenMul.dOf): non-canonical finite patterns are zeros.

  (1) THE HAND-OVERS.
      `front_spec`   three numbers, `c1·c2 ≠ 0`, `c3 ≠ 0`: nothing is answered in the front; `bid128_ext_fma … = caseLoop … zs ps
                     ze pe C3 C4 q3 q4 e3w e4w tmp` with `Handover`: sign words `sgnW s3`, `sgnW (s1 != s2)`, `v128 C3 = c3`,
                     `v256 C4 = c1·c2` (the EXACT product), `q3 = ndigits c3`, `q4 = ndigits (c1·c2)`, `e3w = e3`,
                     `e4w = e1 + e2`, the exponent FIELDS in place (`ze = (e3+6176)·2^49`, `pe = max (e1+e2+6176) 0 · 2^49`, not
                     clamped above), and the operands' ranges — the entry hypotheses of `C02GenFmaSwap.case7_spec_vars` etc.
      `front_z0`     `x·y + (±0)`, `c1·c2 ≠ 0`, `z` a zero (canonical or not): `bid128_ext_fma … = z0K C3 C4 q4 e3w e4w ze ps m f k`
                     with `Z0Handover` (for C02GenFmaZ0.lean; the status word is handed over untouched).
  (2) THE CASES ANSWERED IN THE FRONT, each `= fmaD` (result word = canonical encoding of `fmaD`'s datum, the four indicators
      `false`, status word = `f ||| fmaD's flags`):
      NaN operands   `C12GenNaN.ext_fma_nan` (the NaN rule);
      `front_inf`        some operand infinite, no NaN: `∞·0` invalid, `∞ + (−∞)` invalid, else the infinity of the product or of
                         the addend (`infK_eval`: the decision tree of the source = `infDecide`; `fmaD_inf`: the model's);
      `front_zero_zero`  product zero and addend zero: the zero at `min (e1+e2, e3)` clamped into the range, sign by the IEEE rule
                         (`−` iff both negative, or signs differ and the mode is `Downward`);
      `front_prod_zero`  product zero, addend not: the addend with `min (34 − q3, e3 − max (e1+e2, −6176))` zeros appended
                         (none if `e3 ≤ e1+e2`), no flag (`prodZeroK_eval`; model: `fmaD_prod_zero` via `finish_exact'`, the
                         universal rounding step on a member of the format with a preferred exponent possibly below the range).
  Stage lemmas: `nanK_skip`, `unpackK_eval`, `fin_unpack` (sign word, exponent field, coefficient VALUE of a finite operand),
  `infK_skip` / `infK_eval`, `zeroK_skip` / `zeroK_zero`, `pExpW_val`, `digitsK_zero` / `digitsK_spec` / `digitsK_any`
  (the f64 bit-length trick + `BID_NR_DIGITS` = `ndigits`), `prodZeroK_skip` / `prodZeroK_eval`, `productK_spec` (the exact
  256-bit product and its digit count on all eight multiplication paths: one word; 64×64; 128×64 (two ways); 128×128 at 39
  digits; 64×128 full (two ways) / 128×128 up to 57 digits; 58 digits; up to 68 digits — each with its word-wise comparison
  against `BID_TEN2K64/128/256`), `z0K_skip`, `unbias`.
  (3) (the `z = 0` path `z0K` = `mulD`, the `bid128_mul` headline) is C02GenFmaZ0.lean (strFormat).
  Findings: none — on everything above the code is `fmaD`.  No `sorry`; axioms: the three standard ones.
  (The clean start of this file — `nanK_skip` … `digitsK_zero` — is genNext's.)
-/
import DecProofs.Properties.C02GenFmaFront
import DecProofs.Properties.C02GenFmaSwap
import DecProofs.Properties.C02GenFmaLow
import DecProofs.Properties.C13GenNoncomp
import DecProofs.Properties.C17GenNext
import DecProofs.Properties.C01GenMul
import DecProofs.Properties.C01GenArith
import DecProofs.Properties.C12GenNaN
import Mathlib.Tactic.Ring
import Mathlib.Tactic.Linarith

set_option linter.unusedSimpArgs false
set_option linter.unusedVariables false

namespace Dec.C02GenFmaFrontSpec
open Dec.Rs Dec.Gen.Code Dec.C12GenNaN Dec.C02GenFmaFront
open Dec.C06GenFromInt (bitsOf ofBits)
open Dec.C01GenMul (dOf dOf_W unpC tS tB tS_eq tB_eq tNaN_eq tInf_eq isZ unpC_s unpC_b unpC_c fin_view)
open Dec.C02GenRound (v128 v256)
open Dec.C02GenFmaSwap (sgnW)

local notation "Out" => (U128 × Bool × Bool × Bool × Bool × UInt32)

/-! ## 1. The stages that only filter: NaNs, infinities, zeros -/

/-- no NaN among the operands: the NaN front end does nothing -/
theorem nanK_skip (x y z : U128) (f : UInt32) (k : Except String Out)
    (hx : (dOf x).isNaN = false) (hy : (dOf y).isNaN = false) (hz : (dOf z).isNaN = false) : nanK x y z f k = k := by
  unfold nanK
  take_neg
  · rw [nan_c y]; exact ne_true_of_eq_false hy
  take_neg
  · rw [nan_c z]; exact ne_true_of_eq_false hz
  take_neg
  · rw [nan_c x]; exact ne_true_of_eq_false hx
  rfl

/-- the test "not an infinity" of the unpacking (an infinity or a NaN has the five bits `11110` / `11111`) -/
def notInf (x : U128) : Bool := ((x.w1 &&& c_MASK_ANY_INF)) != c_MASK_INF

/-- unpacking, evaluated: the sign word; for a number the exponent field and coefficient as `bid128_mul` unpacks them
(`C01GenMul.unpC`: the non-canonical forms read as zero); for an infinity the exponent stays `0` and the coefficient is the
raw field -/
theorem unpackK_eval {α : Type} (x : U128) (k : UInt64 → UInt64 → U128 → Except String α) :
    unpackK x k = k (x.w1 &&& c_MASK_SIGN) (if notInf x = true then (unpC x).1 else 0)
      (if notInf x = true then (unpC x).2 else ⟨x.w0, x.w1 &&& c_MASK_COEFF⟩) := by
  unfold unpackK notInf
  by_cases hi : (((x.w1 &&& c_MASK_ANY_INF)) != c_MASK_INF) = true
  · take_pos
    · exact hi
    by_cases hs : tS x = true
    · take_pos
      · exact hs
      rw [if_pos hi, if_pos hi, unpC_s hs]
    · take_neg
      · exact hs
      by_cases hb : tB x = true
      · take_pos
        · exact hb
        rw [if_pos hi, if_pos hi, unpC_b hs hb]
      · take_neg
        · exact hb
        rw [if_pos hi, if_pos hi, unpC_c hs hb]
  · take_neg
    · exact hi
    rw [if_neg hi, if_neg hi]


/-- no infinity among the operands: only the sign of the product is computed -/
theorem infK_skip (x y z : U128) (xs ys zs : UInt64) (C1 C2 : U128) (f : UInt32) (k : UInt64 → Except String Out)
    (hx : notInf x = true) (hy : notInf y = true) (hz : notInf z = true) :
    infK x y z xs ys zs C1 C2 f k = k (xs ^^^ ys) := by
  unfold notInf at hx hy hz
  rw [bne, Bool.not_eq_true'] at hx hy hz
  unfold infK
  take_neg
  · rw [hx]; exact Bool.false_ne_true
  take_neg
  · rw [hy]; exact Bool.false_ne_true
  take_neg
  · rw [hz]; exact Bool.false_ne_true
  rfl

/-- the exponent field of the product as the routine forms it: the sum of the two unbiased exponents, biased again, `0` if
that is negative (no clamp above) -/
def pExpW (x_exp y_exp : UInt64) : UInt64 :=
  (if (decide ((Int32.ofInt (toI ((((((Int64.ofInt (toI ((x_exp >>> 0x31))))) - (0x1820 : Int64)) + ((Int64.ofInt (toI ((y_exp >>> 0x31)))))) - (0x1820 : Int64))))) < (-0x1820))) then 0 else (((UInt64.ofInt (toI (((Int32.ofInt (toI ((((((Int64.ofInt (toI ((x_exp >>> 0x31))))) - (0x1820 : Int64)) + ((Int64.ofInt (toI ((y_exp >>> 0x31)))))) - (0x1820 : Int64))))) + (0x1820 : Int32)))))) <<< 0x31))

/-- not (product zero and addend zero): the stage only computes the exponent field of the product -/
theorem zeroK_skip (xe ye ze : UInt64) (C1 C2 C3 : U128) (ps zs : UInt64) (m : RoundingMode) (f : UInt32)
    (k : UInt64 → Except String Out) (h : ¬ ((isZ C1 || isZ C2) && isZ C3) = true) :
    zeroK xe ye ze C1 C2 C3 ps zs m f k = k (pExpW xe ye) := by
  unfold zeroK
  take_neg
  · intro hc; apply h
    unfold isZ
    rw [← hc]
    cases (C1.w1 == 0) <;> cases (C1.w0 == 0) <;> cases (C2.w1 == 0) <;> cases (C2.w0 == 0) <;> cases (C3.w1 == 0) <;>
      cases (C3.w0 == 0) <;> rfl
  rfl

theorem isZ_ne (C : U128) : ((C.w1 != (0 : UInt64)) || (C.w0 != (0 : UInt64))) = !isZ C := by
  unfold isZ; simp only [bne]; cases (C.w1 == 0) <;> cases (C.w0 == 0) <;> rfl

/-- a non-zero product: nothing happens -/
theorem prodZeroK_skip (z C1 C2 C3 : U128) (ze pe zs : UInt64) (q3 : Int32) (f : UInt32) (k : Except String Out)
    (h1 : isZ C1 = false) (h2 : isZ C2 = false) : prodZeroK z C1 C2 C3 ze pe zs q3 f k = k := by
  unfold prodZeroK
  take_neg
  · unfold isZ at h1 h2; rw [h1, h2]; exact Bool.false_ne_true
  rfl

/-- a non-zero addend: the `z = 0` path is not taken -/
theorem z0K_skip (C3 : U128) (C4 : U256) (q4 e3 e4 : Int32) (ze ps : UInt64) (m : RoundingMode) (f : UInt32)
    (k : Except String Out) (h : isZ C3 = false) : z0K C3 C4 q4 e3 e4 ze ps m f k = k := by
  unfold z0K
  rw [if_neg]
  unfold isZ at h; rw [h]; exact Bool.false_ne_true


/-! ## 2. The digit counts -/

open Dec.C03GenCompare (val128)
open Dec.C13GenNoncomp (nr_bits_idx)

theorem digitsK_zero {α : Type} (C1 : U128) (tmp : F64U) (k : Int32 → F64U → Except String α) (h : isZ C1 = true) :
    digitsK C1 tmp k = k 0 tmp := by
  unfold digitsK
  take_neg
  · rw [isZ_ne, h]; decide
  rfl


open Dec.C13GenNoncomp (tblDD_nr nr_q nr_bound log2_shift log2_hi shr32)

/-- the tail of the digit count once the row of `BID_NR_DIGITS` is known -/
theorem digits_tail_eval {α : Type} (C1 : U128) (idx : UInt64) (tmp : F64U) (k : Int32 → F64U → Except String α)
    (D D1 : UInt32) (THI TLO : UInt64) (ht : tblDD Dec.Gen.BID_NR_DIGITS idx = .ok ⟨D, THI, TLO, D1⟩) :
    (do
      let mut q1 : Int32 := (Int32.ofInt (toI ((← tblDD Dec.Gen.BID_NR_DIGITS idx).digits)))
      if (q1 == (0 : Int32)) then
        q1 := (Int32.ofInt (toI ((← tblDD Dec.Gen.BID_NR_DIGITS idx).digits1)))
        if (← (if (decide (C1.w1 > (← tblDD Dec.Gen.BID_NR_DIGITS idx).threshold_hi)) then pure true else (do pure ((← (if (C1.w1 == (← tblDD Dec.Gen.BID_NR_DIGITS idx).threshold_hi) then (do pure (decide (C1.w0 ≥ (← tblDD Dec.Gen.BID_NR_DIGITS idx).threshold_lo))) else pure false)))))) then
          q1 := (q1 + 1)
      k q1 tmp) =
      k (if Int32.ofInt (toI D) = 0 then
          (if THI.toNat * 2^64 + TLO.toNat ≤ C1.w1.toNat * 2^64 + C1.w0.toNat then Int32.ofInt (toI D1) + 1 else Int32.ofInt (toI D1))
        else Int32.ofInt (toI D)) tmp := by
  obtain ⟨c0, c1⟩ := C1
  have := c0.toNat_lt; have := TLO.toNat_lt
  simp only [bind, Except.bind, pure, Except.pure, ht]
  by_cases h0 : Int32.ofInt (toI D) = 0
  · simp only [h0, beq_self_eq_true, if_true]
    by_cases h1 : c1 > THI
    · have : THI.toNat * 2^64 + TLO.toNat ≤ c1.toNat * 2^64 + c0.toNat := by
        rw [gt_iff_lt, UInt64.lt_iff_toNat_lt] at h1; omega
      simp only [h1, decide_true, if_true, this]
    · by_cases h2 : c1 = THI
      · subst h2
        by_cases h3 : c0 ≥ TLO
        · have : c1.toNat * 2^64 + TLO.toNat ≤ c1.toNat * 2^64 + c0.toNat := by
            rw [ge_iff_le, UInt64.le_iff_toNat_le] at h3; omega
          simp only [h1, decide_false, Bool.false_eq_true, if_false, beq_self_eq_true, if_true, h3, decide_true, this]
        · have : ¬ c1.toNat * 2^64 + TLO.toNat ≤ c1.toNat * 2^64 + c0.toNat := by
            rw [ge_iff_le, UInt64.le_iff_toNat_le] at h3; omega
          simp only [h1, decide_false, Bool.false_eq_true, if_false, beq_self_eq_true, if_true, h3, this]
      · have : ¬ THI.toNat * 2^64 + TLO.toNat ≤ c1.toNat * 2^64 + c0.toNat := by
          rw [gt_iff_lt, UInt64.lt_iff_toNat_lt] at h1
          rw [← UInt64.toNat_inj] at h2
          omega
        have h2' : (c1 == THI) = false := by rw [beq_eq_false_iff_ne]; exact h2
        simp only [h1, decide_false, Bool.false_eq_true, if_false, h2', this]
  · have h0' : (Int32.ofInt (toI D) == 0) = false := by rw [beq_eq_false_iff_ne]; exact h0
    simp only [h0', Bool.false_eq_true, if_false, h0]

/-- **the digit count stage**: a non-zero coefficient below `2^113`: the stage hands on the number of decimal digits (and
some value of the scratch variable) -/
theorem digitsK_spec {α : Type} (C1 : U128) (tmp : F64U) (k : Int32 → F64U → Except String α)
    (h0 : 0 < v128 C1) (h1 : v128 C1 < 2^113) :
    ∃ (q : Int32) (tmp' : F64U), digitsK C1 tmp k = k q tmp' ∧ q.toInt = (ndigits (v128 C1) : Int) := by
  have hl := C1.w0.toNat_lt
  have hv : v128 C1 = C1.w1.toNat * 2^64 + C1.w0.toNat := by unfold v128; omega
  rw [hv] at h0 h1 ⊢
  have hL : (C1.w1.toNat * 2^64 + C1.w0.toNat).log2 < 113 := (Nat.log2_lt (by omega)).2 h1
  have hrow := tblDD_nr _ hL
  have hq := nr_q _ h0 h1
  have hnz : ((C1.w1 != (0 : UInt64)) || (C1.w0 != (0 : UInt64))) = true := by
    rw [isZ_ne, Bool.not_eq_true']
    unfold isZ
    rw [Bool.and_eq_false_iff, beq_eq_false_iff_ne, beq_eq_false_iff_ne, ne_eq, ne_eq, ← UInt64.toNat_inj, ← UInt64.toNat_inj]
    show ¬ C1.w1.toNat = 0 ∨ ¬ C1.w0.toNat = 0
    omega
  unfold digitsK
  simp only []
  rw [if_pos hnz]
  by_cases c5 : C1.w1.toNat = 0
  · rw [if_pos (by rw [beq_iff_eq, ← UInt64.toNat_inj]; exact c5)]
    by_cases c6 : 2^53 ≤ C1.w0.toNat
    · rw [if_pos (by rw [decide_eq_true_eq, ge_iff_le, UInt64.le_iff_toNat_le]; exact c6)]
      have hidx := Dec.C13GenNoncomp.nr_bits_idx (C1.w0 >>> 0x20) 0x21 (by rw [shr32]; omega) (by rw [shr32]; omega)
        (by decide) (by decide)
      rw [shr32, show UInt32.toNat 0x21 - 1 = 32 from by decide, log2_shift _ c6] at hidx
      have hL' : C1.w0.toNat.log2 = (C1.w1.toNat * 2^64 + C1.w0.toNat).log2 := by rw [c5]; simp
      rw [hL'] at hidx
      rw [hidx, digits_tail_eval C1 _ _ k _ _ _ _ hrow]
      exact ⟨_, _, rfl, hq⟩
    · rw [if_neg (by rw [decide_eq_true_eq, ge_iff_le, UInt64.le_iff_toNat_le]; exact c6)]
      have hidx := Dec.C13GenNoncomp.nr_bits_idx C1.w0 1 (by omega) (by omega) (by decide) (by decide)
      have hL' : UInt32.toNat 1 - 1 + C1.w0.toNat.log2 = (C1.w1.toNat * 2^64 + C1.w0.toNat).log2 := by
        rw [c5, show UInt32.toNat 1 - 1 = 0 from by decide]; simp
      rw [hL'] at hidx
      rw [hidx, digits_tail_eval C1 _ _ k _ _ _ _ hrow]
      exact ⟨_, _, rfl, hq⟩
  · rw [if_neg (by rw [beq_iff_eq, ← UInt64.toNat_inj]; exact c5)]
    have hidx := Dec.C13GenNoncomp.nr_bits_idx C1.w1 0x41 (by omega) (by omega) (by decide) (by decide)
    rw [show UInt32.toNat 0x41 - 1 = 64 from by decide, log2_hi _ C1.w0.toNat c5 hl] at hidx
    rw [hidx, digits_tail_eval C1 _ _ k _ _ _ _ hrow]
    exact ⟨_, _, rfl, hq⟩


/-! ## 3. A finite operand, unpacked -/

open Dec.C13GenNoncomp (decodeW_cases toNat_and_field)

/-- a finite operand (canonical or not) as the front end unpacks it: not an infinity; the sign word; the exponent FIELD
(still shifted left 49 bits) and the coefficient — the datum's -/
theorem fin_unpack (x : U128) (s : Bool) (c : Nat) (e : Int) (hD : dOf x = .fin s c e) :
    notInf x = true ∧ x.w1 &&& c_MASK_SIGN = sgnW s ∧ (unpC x).1.toNat = (e + 6176).toNat * 2^49 ∧
      v128 (unpC x).2 = c ∧ c < 10^34 ∧ -6176 ≤ e ∧ e ≤ 6111 := by
  have hwf := decode_WF (bitsOf x)
  have hsgn : (x.w1 &&& c_MASK_SIGN).toNat = (x.w1.toNat / 2^63 % 2^1) * 2^63 :=
    toNat_and_field _ c_MASK_SIGN 1 63 (by decide)
  have hexp : ∀ w : UInt64, (w &&& c_MASK_EXP).toNat = (w.toNat / 2^49 % 2^14) * 2^49 :=
    fun w => toNat_and_field _ c_MASK_EXP 14 49 (by decide)
  have hco : (x.w1 &&& c_MASK_COEFF).toNat = (x.w1.toNat / 2^0 % 2^49) * 2^0 :=
    toNat_and_field _ c_MASK_COEFF 49 0 (by decide)
  have hl := x.w0.toNat_lt
  have hh := x.w1.toNat_lt
  have hni : notInf x = true := by
    unfold notInf
    rw [bne, tInf_eq, Bool.not_eq_true', decide_eq_false_iff_not]
    intro h30
    rw [dOf_W] at hD
    rcases decodeW_cases x.w1.toNat x.w0.toNat with ⟨h1, h2, hd⟩ | ⟨h1, h2, h3, hd⟩ | ⟨h1, h2, h3, hd⟩ | ⟨h1, h2, hd⟩ |
      ⟨h1, h2, h3, hd⟩ | ⟨h1, h2, h3, hd⟩ <;> rw [hd] at hD <;> first | exact Datum.noConfusion hD | omega
  have hsw : ∀ b : Bool, (x.w1.toNat / 2^63 % 2 = 1 ↔ b = true) → x.w1 &&& c_MASK_SIGN = sgnW b := by
    intro b hb
    rw [← UInt64.toNat_inj, hsgn, Dec.C02GenFmaSwap.sgnW_toNat]
    cases b
    · have : ¬ x.w1.toNat / 2^63 % 2 = 1 := fun h => Bool.noConfusion (hb.1 h)
      simp only [Bool.false_eq_true, if_false]; omega
    · have : x.w1.toNat / 2^63 % 2 = 1 := hb.2 rfl
      simp only [if_true]; omega
  rw [dOf_W] at hD
  change (decode (bitsOf x)).WF at hwf
  rw [show decode (bitsOf x) = dOf x from rfl, dOf_W] at hwf
  rcases decodeW_cases x.w1.toNat x.w0.toNat with ⟨h1, h2, hd⟩ | ⟨h1, h2, h3, hd⟩ | ⟨h1, h2, h3, hd⟩ | ⟨h1, h2, hd⟩ |
    ⟨h1, h2, h3, hd⟩ | ⟨h1, h2, h3, hd⟩ <;> rw [hd] at hD hwf <;> cases hD
  · -- steering bits 11
    have ts : tS x = true := by rw [tS_eq]; simpa using h2
    obtain ⟨-, w2, w3⟩ := hwf
    simp only [eMin, eMax] at w2 w3
    rw [unpC_s ts]
    refine ⟨hni, hsw _ (by simp), ?_, rfl, by norm_num, w2, w3⟩
    show ((x.w1 <<< 2) &&& c_MASK_EXP).toNat = _
    rw [hexp, UInt64.toNat_shiftLeft, show (2 : UInt64).toNat % 64 = 2 from by decide, Nat.shiftLeft_eq]
    have : x.w1.toNat * 2^2 % 2^64 / 2^49 % 2^14 = x.w1.toNat / 2^47 % 2^14 := by omega
    rw [this]; omega
  · -- canonical
    have ts : ¬ tS x = true := by rw [tS_eq]; simpa using h2
    have tb : ¬ tB x = true := by rw [tB_eq]; simp only [decide_eq_true_eq]; omega
    obtain ⟨w1, w2, w3⟩ := hwf
    simp only [eMin, eMax] at w2 w3
    rw [unpC_c ts tb]
    refine ⟨hni, hsw _ (by simp), ?_, ?_, by unfold P34 at w1; exact w1, w2, w3⟩
    · show (x.w1 &&& c_MASK_EXP).toNat = _
      rw [hexp]; omega
    · show v128 ⟨x.w0, x.w1 &&& c_MASK_COEFF⟩ = _
      unfold v128
      show x.w0.toNat + 2^64 * (x.w1 &&& c_MASK_COEFF).toNat = _
      rw [hco]; omega
  · -- coefficient field ≥ 10^34
    have ts : ¬ tS x = true := by rw [tS_eq]; simpa using h2
    have tb : tB x = true := by rw [tB_eq]; simp only [decide_eq_true_eq]; omega
    obtain ⟨-, w2, w3⟩ := hwf
    simp only [eMin, eMax] at w2 w3
    rw [unpC_b ts tb]
    refine ⟨hni, hsw _ (by simp), ?_, rfl, by norm_num, w2, w3⟩
    show (x.w1 &&& c_MASK_EXP).toNat = _
    rw [hexp]; omega


/-! ## 4. Exponent arithmetic -/

open Dec.C01GenMul (bmod64 bmod32)

theorem shr49_field (w : UInt64) (E : Nat) (hw : w.toNat = E * 2^49) : (w >>> 0x31).toNat = E := by
  rw [UInt64.toNat_shiftRight, show (0x31 : UInt64).toNat % 64 = 49 from by decide, Nat.shiftRight_eq_div_pow, hw,
    Nat.mul_div_cancel _ (by decide)]

/-- `(field >> 49) as i64 − 6176` as an `i32` -/
theorem unbias (w : UInt64) (E : Nat) (hw : w.toNat = E * 2^49) (hE : E < 2^15) :
    (Int32.ofInt (toI ((((Int64.ofInt (toI ((w >>> 0x31))))) - (0x1820 : Int64))))).toInt = (E : Int) - 6176 := by
  have k : (0x1820 : Int64).toInt = 6176 := by decide
  have a1 : (Int64.ofInt (toI (w >>> 0x31))).toInt = E := by
    show (Int64.ofInt (((w >>> 0x31).toNat : Nat) : Int)).toInt = _
    rw [shr49_field w E hw, Int64.toInt_ofInt]; exact bmod64 (by omega) (by omega)
  show (Int32.ofInt ((Int64.ofInt (toI (w >>> 0x31)) - (0x1820 : Int64)).toInt)).toInt = _
  rw [Int64.toInt_sub, a1, k, bmod64 (by omega) (by omega), Int32.toInt_ofInt, show Int32.size = 2^32 from rfl,
    bmod32 (by omega) (by omega)]

/-- the sum of the two unbiased exponents as the routine forms it -/
theorem true_p_exp_val (xe ye : UInt64) (E1 E2 : Nat) (h1 : xe.toNat = E1 * 2^49) (h2 : ye.toNat = E2 * 2^49)
    (b1 : E1 < 2^14) (b2 : E2 < 2^14) :
    (Int32.ofInt (toI ((((((Int64.ofInt (toI ((xe >>> 0x31))))) - (0x1820 : Int64)) + ((Int64.ofInt (toI ((ye >>> 0x31)))))) - (0x1820 : Int64))))).toInt
      = (E1 : Int) + E2 - 12352 := by
  have k : (0x1820 : Int64).toInt = 6176 := by decide
  have a1 : (Int64.ofInt (toI (xe >>> 0x31))).toInt = E1 := by
    show (Int64.ofInt (((xe >>> 0x31).toNat : Nat) : Int)).toInt = _
    rw [shr49_field xe E1 h1, Int64.toInt_ofInt]; exact bmod64 (by omega) (by omega)
  have a2 : (Int64.ofInt (toI (ye >>> 0x31))).toInt = E2 := by
    show (Int64.ofInt (((ye >>> 0x31).toNat : Nat) : Int)).toInt = _
    rw [shr49_field ye E2 h2, Int64.toInt_ofInt]; exact bmod64 (by omega) (by omega)
  have a3 : (Int64.ofInt (toI (xe >>> 0x31)) - (0x1820 : Int64)).toInt = (E1 : Int) - 6176 := by
    rw [Int64.toInt_sub, a1, k]; exact bmod64 (by omega) (by omega)
  have a4 : (Int64.ofInt (toI (xe >>> 0x31)) - (0x1820 : Int64) + Int64.ofInt (toI (ye >>> 0x31))).toInt
      = (E1 : Int) - 6176 + E2 := by
    rw [Int64.toInt_add, a3, a2]; exact bmod64 (by omega) (by omega)
  have a5 : (Int64.ofInt (toI (xe >>> 0x31)) - (0x1820 : Int64) + Int64.ofInt (toI (ye >>> 0x31))
      - (0x1820 : Int64)).toInt = (E1 : Int) - 6176 + E2 - 6176 := by
    rw [Int64.toInt_sub, a4, k]; exact bmod64 (by omega) (by omega)
  show (Int32.ofInt ((Int64.ofInt (toI (xe >>> 0x31)) - (0x1820 : Int64) + Int64.ofInt (toI (ye >>> 0x31))
    - (0x1820 : Int64)).toInt)).toInt = _
  rw [a5, Int32.toInt_ofInt, show Int32.size = 2^32 from rfl, bmod32 (by omega) (by omega)]
  omega

/-- the exponent field of the product: the biased sum shifted left 49 bits, `0` if the sum is below the least exponent
(no clamp above: up to `18398·2^49 < 2^64`) -/
theorem pExpW_val (xe ye : UInt64) (E1 E2 : Nat) (h1 : xe.toNat = E1 * 2^49) (h2 : ye.toNat = E2 * 2^49)
    (b1 : E1 < 2^14) (b2 : E2 < 2^14) :
    (pExpW xe ye).toNat = (if (E1 : Int) + E2 - 12352 < -6176 then 0 else (E1 + E2 - 6176) * 2^49) := by
  have ht := true_p_exp_val xe ye E1 E2 h1 h2 b1 b2
  unfold pExpW
  generalize (Int32.ofInt (toI ((((((Int64.ofInt (toI ((xe >>> 0x31))))) - (0x1820 : Int64)) + ((Int64.ofInt (toI ((ye >>> 0x31)))))) - (0x1820 : Int64))))) = T at ht
  have hlt : decide (T < (-0x1820 : Int32)) = decide ((E1 : Int) + E2 - 12352 < -6176) := by
    rw [decide_eq_decide, Int32.lt_iff_toInt_lt, ht, show (-0x1820 : Int32).toInt = -6176 from by decide]
  rw [hlt]
  by_cases hc : (E1 : Int) + E2 - 12352 < -6176
  · rw [if_pos (by simpa using hc), if_pos hc]; rfl
  · rw [if_neg (by simpa using hc), if_neg hc]
    have hs : (T + (0x1820 : Int32)).toInt = (E1 : Int) + E2 - 6176 := by
      rw [Int32.toInt_add, ht, show (0x1820 : Int32).toInt = 6176 from by decide]
      rw [bmod32 (by omega) (by omega)]; omega
    rw [UInt64.toNat_shiftLeft, show (0x31 : UInt64).toNat % 64 = 49 from by decide, Nat.shiftLeft_eq]
    have : (UInt64.ofInt (toI (T + (0x1820 : Int32)))).toNat = E1 + E2 - 6176 := by
      rw [Dec.C13GenPack.ofInt_nonneg _ (by rw [hs]; omega), hs]
      omega
    rw [this, Nat.mod_eq_of_lt]
    have : E1 + E2 - 6176 < 2^15 := by omega
    calc (E1 + E2 - 6176) * 2^49 < 2^15 * 2^49 := Nat.mul_lt_mul_of_pos_right this (by decide)
      _ = 2^64 := by norm_num


/-! ## 5. The exact product and its digit count -/

/-- the number of digits of a product: the sum of the digit counts, or one less -/
theorem ndigits_prod (c1 c2 : Nat) (p1 : 0 < c1) (p2 : 0 < c2) :
    10 ^ (ndigits c1 + ndigits c2 - 2) ≤ c1 * c2 ∧ c1 * c2 < 10 ^ (ndigits c1 + ndigits c2) ∧
    ndigits (c1 * c2) = (if c1 * c2 < 10 ^ (ndigits c1 + ndigits c2 - 1) then ndigits c1 + ndigits c2 - 1
      else ndigits c1 + ndigits c2) := by
  obtain ⟨a1, a2⟩ := ndigits_spec p1
  obtain ⟨b1, b2⟩ := ndigits_spec p2
  have n1 := ndigits_pos p1
  have n2 := ndigits_pos p2
  have hP : 0 < c1 * c2 := Nat.mul_pos p1 p2
  have lo : 10 ^ (ndigits c1 + ndigits c2 - 2) ≤ c1 * c2 := by
    have : ndigits c1 + ndigits c2 - 2 = (ndigits c1 - 1) + (ndigits c2 - 1) := by omega
    rw [this, Nat.pow_add]; exact Nat.mul_le_mul a1 b1
  have hi : c1 * c2 < 10 ^ (ndigits c1 + ndigits c2) := by
    rw [Nat.pow_add]; exact Nat.mul_lt_mul'' a2 b2
  refine ⟨lo, hi, ?_⟩
  by_cases h : c1 * c2 < 10 ^ (ndigits c1 + ndigits c2 - 1)
  · rw [if_pos h]
    by_cases h2 : ndigits c1 + ndigits c2 - 1 = 0
    · omega
    · exact (ndigits_eq_iff hP (by omega)).2 ⟨by
        have : ndigits c1 + ndigits c2 - 1 - 1 = ndigits c1 + ndigits c2 - 2 := by omega
        rw [this]; exact lo, h⟩
  · rw [if_neg h]
    exact (ndigits_eq_iff hP (by omega)).2 ⟨by omega, hi⟩

theorem ok_ite {β : Type} (c : Prop) [Decidable c] (a b : β) :
    (if c then (Except.ok a : Except String β) else Except.ok b) = Except.ok (if c then a else b) := by
  split <;> rfl

/-- two-word lexicographic `<` -/
theorem lex2 (a1 a0 t1 t0 : UInt64) :
    (if decide (a1 < t1) = true then true else if (a1 == t1) = true then decide (a0 < t0) else false)
      = decide (a0.toNat + 2^64 * a1.toNat < t0.toNat + 2^64 * t1.toNat) := by
  have := a0.toNat_lt; have := t0.toNat_lt
  by_cases h1 : a1 < t1
  · rw [if_pos (by simpa using h1)]
    rw [UInt64.lt_iff_toNat_lt] at h1
    exact (decide_eq_true (by omega)).symm
  · rw [if_neg (by simpa using h1)]
    rw [UInt64.lt_iff_toNat_lt] at h1
    by_cases h2 : a1 = t1
    · subst h2
      rw [if_pos (by simp), decide_eq_decide, UInt64.lt_iff_toNat_lt]; omega
    · rw [if_neg (by simpa using h2)]
      rw [← UInt64.toNat_inj] at h2
      exact (decide_eq_false (by omega)).symm

/-- one more word on top -/
theorem lex_step (a t : UInt64) (A T : Nat) (B : Nat) (hA : A < B) (hT : T < B) (rest : Bool) (hr : rest = decide (A < T)) :
    (if decide (a < t) = true then true else if (a == t) = true then rest else false)
      = decide (A + B * a.toNat < T + B * t.toNat) := by
  subst hr
  by_cases h1 : a < t
  · rw [if_pos (by simpa using h1)]
    rw [UInt64.lt_iff_toNat_lt] at h1
    refine (decide_eq_true ?_).symm
    have : B * (a.toNat + 1) ≤ B * t.toNat := Nat.mul_le_mul_left B (by omega)
    rw [Nat.mul_add, Nat.mul_one] at this
    omega
  · rw [if_neg (by simpa using h1)]
    rw [UInt64.lt_iff_toNat_lt] at h1
    by_cases h2 : a = t
    · subst h2
      rw [if_pos (by simp), decide_eq_decide]; omega
    · rw [if_neg (by simpa using h2)]
      rw [← UInt64.toNat_inj] at h2
      refine (decide_eq_false ?_).symm
      have : B * (t.toNat + 1) ≤ B * a.toNat := Nat.mul_le_mul_left B (by omega)
      rw [Nat.mul_add, Nat.mul_one] at this
      omega


open Dec.C13GenNoncomp (u64_ofInt_nat)
open Dec.C02GenFmaLow (ten2k64_get ten2k128_get ten2k256_get mk128 mk256 mk128_val mk256_val)

theorem idx_of (a : Int32) (n : Nat) (h : a.toInt = n) : UInt64.ofInt (toI a) = UInt64.ofNat n := by
  show UInt64.ofInt a.toInt = _
  rw [h, u64_ofInt_nat]

theorem i32_sub_small (a : Int32) (n k : Nat) (h : a.toInt = n) (hn : n < 1000) (b : Int32) (hb : b.toInt = k) (hk : k ≤ n) :
    (a - b).toInt = (n - k : Nat) := by
  rw [Int32.toInt_sub, h, hb, bmod32 (by omega) (by omega)]; omega

theorem i32_le_lit (a : Int32) (n : Nat) (h : a.toInt = n) (b : Int32) (k : Nat) (hb : b.toInt = k) :
    decide (a ≤ b) = decide (n ≤ k) := by
  rw [decide_eq_decide, Int32.le_iff_toInt_le, h, hb]; omega

theorem i32_beq_lit (a : Int32) (n : Nat) (h : a.toInt = n) (b : Int32) (k : Nat) (hb : b.toInt = k) :
    (a == b) = decide (n = k) := by
  rw [Bool.eq_iff_iff, beq_iff_eq, decide_eq_true_eq, ← Int32.toInt_inj, h, hb]; omega

theorem v128_w0 (C : U128) (h : v128 C < 2^64) : C.w0.toNat = v128 C ∧ C.w1 = 0 := by
  unfold v128 at h ⊢
  have := C.w0.toNat_lt
  have h1 : C.w1.toNat = 0 := by omega
  exact ⟨by omega, by rw [← UInt64.toNat_inj]; exact h1⟩

set_option maxHeartbeats 1000000 in
/-- **the product stage**: for two non-zero coefficients below `10^34` with their digit counts, the stage hands on the
unbiased exponents `e3`, `e4 = e1 + e2`, the EXACT product as a 256-bit number and its number of decimal digits -/
theorem productK_spec {α : Type} (xe ye ze : UInt64) (C1 C2 : U128) (q1 q2 : Int32)
    (k : Int32 → Int32 → U256 → Int32 → Except String α) (E1 E2 E3 : Nat)
    (h1 : xe.toNat = E1 * 2^49) (h2 : ye.toNat = E2 * 2^49) (h3 : ze.toNat = E3 * 2^49)
    (b1 : E1 < 2^14) (b2 : E2 < 2^14) (b3 : E3 < 2^14)
    (p1 : 0 < v128 C1) (l1 : v128 C1 < 10^34) (p2 : 0 < v128 C2) (l2 : v128 C2 < 10^34)
    (hq1 : q1.toInt = (ndigits (v128 C1) : Nat)) (hq2 : q2.toInt = (ndigits (v128 C2) : Nat)) :
    ∃ (e3 e4 : Int32) (C4 : U256) (q4 : Int32), productK xe ye ze C1 C2 q1 q2 k = k e3 e4 C4 q4 ∧
      e3.toInt = (E3 : Int) - 6176 ∧ e4.toInt = (E1 : Int) + E2 - 12352 ∧ v256 C4 = v128 C1 * v128 C2 ∧
      q4.toInt = (ndigits (v128 C1 * v128 C2) : Nat) := by
  obtain ⟨c1, hc1⟩ : ∃ c1, c1 = v128 C1 := ⟨_, rfl⟩
  obtain ⟨c2, hc2⟩ : ∃ c2, c2 = v128 C2 := ⟨_, rfl⟩
  rw [← hc1] at p1 l1 hq1 ⊢
  rw [← hc2] at p2 l2 hq2 ⊢
  obtain ⟨n1, hn1⟩ : ∃ n1, n1 = ndigits c1 := ⟨_, rfl⟩
  obtain ⟨n2, hn2⟩ : ∃ n2, n2 = ndigits c2 := ⟨_, rfl⟩
  obtain ⟨plo, phi, pnd⟩ := ndigits_prod c1 c2 p1 p2
  obtain ⟨a1, a2⟩ := ndigits_spec p1
  obtain ⟨d1, d2⟩ := ndigits_spec p2
  have n1p := ndigits_pos p1
  have n2p := ndigits_pos p2
  have n1l : ndigits c1 ≤ 34 := (ndigits_le_iff p1).2 l1
  have n2l : ndigits c2 ≤ 34 := (ndigits_le_iff p2).2 l2
  rw [← hn1] at hq1 plo phi pnd a1 a2 n1p n1l
  rw [← hn2] at hq2 plo phi pnd d1 d2 n2p n2l
  have hQ : (q1 + q2).toInt = (n1 + n2 : Nat) := by
    rw [Int32.toInt_add, hq1, hq2, bmod32 (by omega) (by omega)]; omega
  have he3 := unbias ze E3 h3 (by omega)
  have he1 := unbias xe E1 h1 (by omega)
  have he2 := unbias ye E2 h2 (by omega)
  have he4 : (Int32.ofInt (toI ((((Int64.ofInt (toI ((xe >>> 0x31))))) - (0x1820 : Int64)))) +
      Int32.ofInt (toI ((((Int64.ofInt (toI ((ye >>> 0x31))))) - (0x1820 : Int64))))).toInt = (E1 : Int) + E2 - 12352 := by
    rw [Int32.toInt_add, he1, he2, bmod32 (by omega) (by omega)]; omega
  unfold productK
  simp only []
  by_cases c19 : n1 + n2 ≤ 19
  · -- at most 19 digits: one word
    rw [if_pos (by rw [i32_le_lit _ _ hQ 0x13 19 (by decide)]; simpa using c19)]
    have hs1 : (q1 + q2 - 1).toInt = (n1 + n2 - 1 : Nat) := i32_sub_small _ _ 1 hQ (by omega) 1 (by decide) (by omega)
    rw [idx_of _ _ hs1, ten2k64_get _ (by omega)]
    have w1 := v128_w0 C1 (by rw [← hc1]; have : (10:Nat)^n1 ≤ 10^18 := Nat.pow_le_pow_right (by decide) (by omega); omega)
    have w2 := v128_w0 C2 (by rw [← hc2]; have : (10:Nat)^n2 ≤ 10^18 := Nat.pow_le_pow_right (by decide) (by omega); omega)
    rw [← hc1] at w1; rw [← hc2] at w2
    have hP19 : c1 * c2 < 10^19 := lt_of_lt_of_le phi (Nat.pow_le_pow_right (by decide) c19)
    have hmul : (C1.w0 * C2.w0).toNat = c1 * c2 := by
      rw [UInt64.toNat_mul, w1.1, w2.1, Nat.mod_eq_of_lt (by omega)]
    have hpow : (UInt64.ofNat (10 ^ (n1 + n2 - 1))).toNat = 10 ^ (n1 + n2 - 1) := by
      rw [UInt64.toNat_ofNat', Nat.mod_eq_of_lt]
      have : (10:Nat)^(n1+n2-1) ≤ 10^18 := Nat.pow_le_pow_right (by decide) (by omega)
      omega
    refine ⟨_, _, _, _, rfl, he3, he4, ?_, ?_⟩
    · show (C1.w0 * C2.w0).toNat + 2^64 * (0 : UInt64).toNat + 2^128 * (0 : UInt64).toNat + 2^192 * (0 : UInt64).toNat = _
      rw [hmul]; simp
    · rw [pnd]
      have hcmp : decide (C1.w0 * C2.w0 < UInt64.ofNat (10 ^ (n1 + n2 - 1))) = decide (c1 * c2 < 10 ^ (n1 + n2 - 1)) := by
        rw [decide_eq_decide, UInt64.lt_iff_toNat_lt, hmul, hpow]
      rw [hcmp]
      by_cases hlt : c1 * c2 < 10 ^ (n1 + n2 - 1)
      · rw [if_pos (by simpa using hlt), if_pos hlt]; exact hs1
      · rw [if_neg (by simpa using hlt), if_neg hlt]; exact hQ
  rw [if_neg (by rw [i32_le_lit _ _ hQ 0x13 19 (by decide)]; simpa using c19)]
  by_cases c20 : n1 + n2 = 20
  · rw [if_pos (by rw [i32_beq_lit _ _ hQ 0x14 20 (by decide)]; simpa using c20)]
    have i19 : UInt64.ofInt (toI (19 : Nat)) = UInt64.ofNat 19 := u64_ofInt_nat 19
    have w1 := v128_w0 C1 (by rw [← hc1]; have : (10:Nat)^n1 ≤ 10^19 := Nat.pow_le_pow_right (by decide) (by omega); omega)
    have w2 := v128_w0 C2 (by rw [← hc2]; have : (10:Nat)^n2 ≤ 10^19 := Nat.pow_le_pow_right (by decide) (by omega); omega)
    rw [← hc1] at w1; rw [← hc2] at w2
    obtain ⟨R, hm, hR⟩ := Dec.C01GenArith.gen_mul_64x64_to_128MACH C1.w0 C2.w0
    rw [w1.1, w2.1] at hR
    rw [hm, i19, ten2k64_get 19 (by decide)]
    simp only [bind, Except.bind, pure, Except.pure, ok_ite]
    have hRv : R.w0.toNat + 2^64 * R.w1.toNat = c1 * c2 := hR
    refine ⟨_, _, _, _, rfl, he3, he4, ?_, ?_⟩
    · show R.w0.toNat + 2^64 * R.w1.toNat + 2^128 * (0 : UInt64).toNat + 2^192 * (0 : UInt64).toNat = _
      rw [hRv]; simp
    · rw [pnd, c20]
      have hcmp : (if (R.w1 == 0) = true then decide (R.w0 < UInt64.ofNat (10 ^ 19)) else false) = decide (c1 * c2 < 10 ^ 19) := by
        have r0 := R.w0.toNat_lt
        have hp : (UInt64.ofNat (10 ^ 19)).toNat = 10^19 := by decide
        by_cases hz : R.w1 = 0
        · rw [if_pos (by simpa using hz), decide_eq_decide, UInt64.lt_iff_toNat_lt, hp]
          have : R.w1.toNat = 0 := by rw [hz]; rfl
          omega
        · rw [if_neg (by simpa using hz)]
          have : R.w1.toNat ≠ 0 := by rw [ne_eq, ← UInt64.toNat_zero, UInt64.toNat_inj]; exact hz
          exact (decide_eq_false (by omega)).symm
      rw [hcmp]
      by_cases hlt : c1 * c2 < 10 ^ 19
      · rw [if_pos (by simpa using hlt), if_pos hlt]; decide
      · rw [if_neg (by simpa using hlt), if_neg hlt]; decide
  rw [if_neg (by rw [i32_beq_lit _ _ hQ 0x14 20 (by decide)]; simpa using c20)]
  by_cases c38 : n1 + n2 ≤ 38
  · rw [if_pos (by rw [i32_le_lit _ _ hQ 0x26 38 (by decide)]; simpa using c38)]
    have hs21 : (q1 + q2 - 0x15).toInt = (n1 + n2 - 21 : Nat) := i32_sub_small _ _ 21 hQ (by omega) 0x15 (by decide) (by omega)
    have hP38 : c1 * c2 < 2^128 := by
      have : (10:Nat)^(n1+n2) ≤ 10^38 := Nat.pow_le_pow_right (by decide) c38
      omega
    have hT : (mk128 (10 ^ (n1 + n2 - 21 + 20))).toNat' = 10 ^ (n1 + n2 - 1) := by
      rw [show n1 + n2 - 21 + 20 = n1 + n2 - 1 from by omega]
      apply mk128_val
      have : (10:Nat)^(n1+n2-1) ≤ 10^37 := Nat.pow_le_pow_right (by decide) (by omega)
      omega
    -- the common end of the two sub-branches
    have fin : ∀ R : U128, R.toNat' = c1 * c2 →
        ∃ e3 e4 C4 q4,
          k (Int32.ofInt (toI (Int64.ofInt (toI (ze >>> 49)) - 6176)))
              (Int32.ofInt (toI (Int64.ofInt (toI (xe >>> 49)) - 6176)) +
                Int32.ofInt (toI (Int64.ofInt (toI (ye >>> 49)) - 6176)))
              { w0 := R.w0, w1 := R.w1, w2 := 0, w3 := 0 }
              (if (if decide (R.w1 < (mk128 (10 ^ (n1 + n2 - 21 + 20))).w1) = true then true
                  else if (R.w1 == (mk128 (10 ^ (n1 + n2 - 21 + 20))).w1) = true then
                    decide (R.w0 < (mk128 (10 ^ (n1 + n2 - 21 + 20))).w0) else false) = true
                then q1 + q2 - 1 else q1 + q2) = k e3 e4 C4 q4 ∧
          e3.toInt = ↑E3 - 6176 ∧ e4.toInt = ↑E1 + ↑E2 - 12352 ∧ v256 C4 = c1 * c2 ∧ q4.toInt = ↑(ndigits (c1 * c2)) := by
      intro R hR
      have hs1 : (q1 + q2 - 1).toInt = (n1 + n2 - 1 : Nat) := i32_sub_small _ _ 1 hQ (by omega) 1 (by decide) (by omega)
      have hRv : R.w0.toNat + 2^64 * R.w1.toNat = c1 * c2 := hR
      refine ⟨_, _, _, _, rfl, he3, he4, ?_, ?_⟩
      · show R.w0.toNat + 2^64 * R.w1.toNat + 2^128 * (0 : UInt64).toNat + 2^192 * (0 : UInt64).toNat = _
        rw [hRv]; simp
      · rw [pnd, lex2]
        have hTv : (mk128 (10 ^ (n1 + n2 - 21 + 20))).w0.toNat + 2^64 * (mk128 (10 ^ (n1 + n2 - 21 + 20))).w1.toNat
            = 10 ^ (n1 + n2 - 1) := hT
        rw [hRv, hTv]
        by_cases hlt : c1 * c2 < 10 ^ (n1 + n2 - 1)
        · rw [if_pos (by simpa using hlt), if_pos hlt]; exact hs1
        · rw [if_neg (by simpa using hlt), if_neg hlt]; exact hQ
    by_cases cq : n1 ≤ 19
    · rw [if_pos (by rw [i32_le_lit _ _ hq1 0x13 19 (by decide)]; simpa using cq)]
      have w1 := v128_w0 C1 (by rw [← hc1]; have : (10:Nat)^n1 ≤ 10^19 := Nat.pow_le_pow_right (by decide) (by omega); omega)
      rw [← hc1] at w1
      obtain ⟨R, hm, hR⟩ := Dec.C01GenArith.gen_mul_128x64_to_128_exact C1.w0 C2 (by
        rw [w1.1]; show c1 * v128 C2 < _; rw [← hc2]; exact hP38)
      rw [w1.1] at hR
      have hR' : R.toNat' = c1 * c2 := by rw [hR, hc2]; rfl
      rw [hm, idx_of _ _ hs21, ten2k128_get _ (by omega)]
      simp only [bind, Except.bind, pure, Except.pure, ok_ite]
      exact fin R hR'
    · rw [if_neg (by rw [i32_le_lit _ _ hq1 0x13 19 (by decide)]; simpa using cq)]
      have w2 := v128_w0 C2 (by rw [← hc2]; have : (10:Nat)^n2 ≤ 10^18 := Nat.pow_le_pow_right (by decide) (by omega); omega)
      rw [← hc2] at w2
      obtain ⟨R, hm, hR⟩ := Dec.C01GenArith.gen_mul_128x64_to_128_exact C2.w0 C1 (by
        rw [w2.1]; show c2 * v128 C1 < _; rw [← hc1, Nat.mul_comm]; exact hP38)
      rw [w2.1] at hR
      have hR' : R.toNat' = c1 * c2 := by rw [hR, hc1, Nat.mul_comm]; rfl
      rw [hm, idx_of _ _ hs21, ten2k128_get _ (by omega)]
      simp only [bind, Except.bind, pure, Except.pure, ok_ite]
      exact fin R hR'
  rw [if_neg (by rw [i32_le_lit _ _ hQ 0x26 38 (by decide)]; simpa using c38)]
  have v256_def : ∀ C : U256, v256 C = C.w0.toNat + 2^64 * C.w1.toNat + 2^128 * C.w2.toNat + 2^192 * C.w3.toNat := fun _ => rfl
  obtain ⟨R, hmR, hRR⟩ := Dec.C01GenArith.gen_mul_128x128_to_256 C1 C2
  have hR : v256 R = c1 * c2 := by rw [hc1, hc2]; exact hRR
  by_cases c39 : n1 + n2 = 39
  · rw [if_pos (by rw [i32_beq_lit _ _ hQ 0x27 39 (by decide)]; simpa using c39)]
    have i18 : UInt64.ofInt (toI (18 : Nat)) = UInt64.ofNat 18 := u64_ofInt_nat 18
    rw [hmR, i18, ten2k128_get 18 (by decide)]
    simp only [bind, Except.bind, pure, Except.pure, ok_ite]
    refine ⟨_, _, _, _, rfl, he3, he4, hR, ?_⟩
    rw [pnd, c39, lex2]
    have hTv : (mk128 (10 ^ (18 + 20))).w0.toNat + 2^64 * (mk128 (10 ^ (18 + 20))).w1.toNat = 10 ^ 38 :=
      mk128_val _ (by norm_num)
    rw [hTv]
    have hcmp : (if (R.w2 == 0) = true then decide (R.w0.toNat + 2^64 * R.w1.toNat < 10^38) else false)
        = decide (c1 * c2 < 10 ^ (39 - 1)) := by
      have r0 := R.w0.toNat_lt; have r1 := R.w1.toNat_lt
      rw [← hR, v256_def]
      by_cases hz : R.w2 = 0
      · have z2 : R.w2.toNat = 0 := by rw [hz]; rfl
        have z3 : R.w3.toNat = 0 := by
          have : v256 R < 10^39 := by rw [hR]; rw [c39] at phi; exact phi
          rw [v256_def] at this
          by_contra hne
          have : 2^192 * 1 ≤ 2^192 * R.w3.toNat := Nat.mul_le_mul_left _ (by omega)
          omega
        rw [if_pos (by simpa using hz), z2, z3]
        simp
      · rw [if_neg (by simpa using hz)]
        have : R.w2.toNat ≠ 0 := by rw [ne_eq, ← UInt64.toNat_zero, UInt64.toNat_inj]; exact hz
        refine (decide_eq_false ?_).symm
        have : 2^128 * 1 ≤ 2^128 * R.w2.toNat := Nat.mul_le_mul_left _ (by omega)
        omega
    rw [hcmp]
    by_cases hlt : c1 * c2 < 10 ^ (39 - 1)
    · rw [if_pos (by simpa using hlt), if_pos hlt]; decide
    · rw [if_neg (by simpa using hlt), if_neg hlt]; decide
  rw [if_neg (by rw [i32_beq_lit _ _ hQ 0x27 39 (by decide)]; simpa using c39)]
  have hs40 : (q1 + q2 - 0x28).toInt = (n1 + n2 - 40 : Nat) := i32_sub_small _ _ 40 hQ (by omega) 0x28 (by decide) (by omega)
  have hs1 : (q1 + q2 - 1).toInt = (n1 + n2 - 1 : Nat) := i32_sub_small _ _ 1 hQ (by omega) 1 (by decide) (by omega)
  have hTN : ∀ N, N < 2^256 → (mk256 N).w0.toNat + 2^64 * (mk256 N).w1.toNat + 2^128 * (mk256 N).w2.toNat
      + 2^192 * (mk256 N).w3.toNat = N := fun N hN => mk256_val N hN
  by_cases c57 : n1 + n2 ≤ 57
  · rw [if_pos (by rw [i32_le_lit _ _ hQ 0x39 57 (by decide)]; simpa using c57)]
    have hidx : n1 + n2 - 40 + 39 = n1 + n2 - 1 := by omega
    have hN : (10:Nat) ^ (n1 + n2 - 1) < 2^192 := by
      have : (10:Nat)^(n1+n2-1) ≤ 10^56 := Nat.pow_le_pow_right (by decide) (by omega)
      have : (10:Nat)^56 < 2^192 := by norm_num
      omega
    have hP57 : c1 * c2 < 2^192 := by
      have : (10:Nat)^(n1+n2) ≤ 10^57 := Nat.pow_le_pow_right (by decide) c57
      have : (10:Nat)^57 < 2^192 := by norm_num
      omega
    have fin3 : ∀ C4 : U256, v256 C4 = c1 * c2 →
        ∃ e3 e4 C4' q4,
          k (Int32.ofInt (toI (Int64.ofInt (toI (ze >>> 49)) - 6176)))
              (Int32.ofInt (toI (Int64.ofInt (toI (xe >>> 49)) - 6176)) +
                Int32.ofInt (toI (Int64.ofInt (toI (ye >>> 49)) - 6176)))
              C4
              (if (if decide (C4.w2 < (mk256 (10 ^ (n1 + n2 - 40 + 39))).w2) = true then true
                  else if (C4.w2 == (mk256 (10 ^ (n1 + n2 - 40 + 39))).w2) = true then
                    if decide (C4.w1 < (mk256 (10 ^ (n1 + n2 - 40 + 39))).w1) = true then true
                    else if (C4.w1 == (mk256 (10 ^ (n1 + n2 - 40 + 39))).w1) = true then
                      decide (C4.w0 < (mk256 (10 ^ (n1 + n2 - 40 + 39))).w0) else false
                  else false) = true
                then q1 + q2 - 1 else q1 + q2) = k e3 e4 C4' q4 ∧
          e3.toInt = ↑E3 - 6176 ∧ e4.toInt = ↑E1 + ↑E2 - 12352 ∧ v256 C4' = c1 * c2 ∧ q4.toInt = ↑(ndigits (c1 * c2)) := by
      intro C4 hC4
      refine ⟨_, _, _, _, rfl, he3, he4, hC4, ?_⟩
      rw [hidx]
      have c0 := C4.w0.toNat_lt; have c1' := C4.w1.toNat_lt
      have t0 := (mk256 (10 ^ (n1 + n2 - 1))).w0.toNat_lt; have t1 := (mk256 (10 ^ (n1 + n2 - 1))).w1.toNat_lt
      have hT := hTN (10 ^ (n1 + n2 - 1)) (lt_trans hN (by norm_num))
      have hC := hC4; rw [v256_def] at hC
      have c3z : C4.w3.toNat = 0 := by
        by_contra hne
        have : 2^192 * 1 ≤ 2^192 * C4.w3.toNat := Nat.mul_le_mul_left _ (by omega)
        omega
      have t3z : (mk256 (10 ^ (n1 + n2 - 1))).w3.toNat = 0 := by
        by_contra hne
        have : 2^192 * 1 ≤ 2^192 * (mk256 (10 ^ (n1 + n2 - 1))).w3.toNat := Nat.mul_le_mul_left _ (by omega)
        omega
      rw [pnd, lex2, lex_step C4.w2 _ _ _ (2^128) (by omega) (by omega) _ rfl]
      have e1 : C4.w0.toNat + 2 ^ 64 * C4.w1.toNat + 2 ^ 128 * C4.w2.toNat = c1 * c2 := by omega
      have e2 : (mk256 (10 ^ (n1 + n2 - 1))).w0.toNat + 2 ^ 64 * (mk256 (10 ^ (n1 + n2 - 1))).w1.toNat +
          2 ^ 128 * (mk256 (10 ^ (n1 + n2 - 1))).w2.toNat = 10 ^ (n1 + n2 - 1) := by omega
      rw [e1, e2]
      by_cases hlt : c1 * c2 < 10 ^ (n1 + n2 - 1)
      · rw [if_pos (by simpa using hlt), if_pos hlt]; exact hs1
      · rw [if_neg (by simpa using hlt), if_neg hlt]; exact hQ
    by_cases cz1 : C1.w1 = 0
    · rw [if_pos (by simpa using cz1)]
      obtain ⟨r, hm, hr⟩ := Dec.C01GenArith.gen_mul_64x128_full C1.w0 C2
      rw [hm, idx_of _ _ hs40, ten2k256_get _ (by omega)]
      simp only [bind, Except.bind, pure, Except.pure, ok_ite]
      refine fin3 ⟨r.2.w0, r.2.w1, r.1, 0⟩ ?_
      have : C1.w0.toNat = c1 := by
        rw [hc1]; unfold v128; rw [cz1]; simp
      rw [this] at hr
      rw [v256_def]
      show r.2.w0.toNat + 2^64 * r.2.w1.toNat + 2^128 * r.1.toNat + 2^192 * (0 : UInt64).toNat = _
      have : r.2.toNat' = r.2.w0.toNat + 2^64 * r.2.w1.toNat := rfl
      rw [hc2]
      show _ = c1 * C2.toNat'
      rw [← hr, this]; simp
    · rw [if_neg (by simpa using cz1)]
      by_cases cz2 : C2.w1 = 0
      · rw [if_pos (by simpa using cz2)]
        obtain ⟨r, hm, hr⟩ := Dec.C01GenArith.gen_mul_64x128_full C2.w0 C1
        rw [hm, idx_of _ _ hs40, ten2k256_get _ (by omega)]
        simp only [bind, Except.bind, pure, Except.pure, ok_ite]
        refine fin3 ⟨r.2.w0, r.2.w1, r.1, 0⟩ ?_
        have : C2.w0.toNat = c2 := by
          rw [hc2]; unfold v128; rw [cz2]; simp
        rw [this] at hr
        rw [v256_def]
        show r.2.w0.toNat + 2^64 * r.2.w1.toNat + 2^128 * r.1.toNat + 2^192 * (0 : UInt64).toNat = _
        have : r.2.toNat' = r.2.w0.toNat + 2^64 * r.2.w1.toNat := rfl
        rw [Nat.mul_comm c1 c2, hc1]
        show _ = c2 * C1.toNat'
        rw [← hr, this]; simp
      · rw [if_neg (by simpa using cz2)]
        rw [hmR, idx_of _ _ hs40, ten2k256_get _ (by omega)]
        simp only [bind, Except.bind, pure, Except.pure, ok_ite]
        exact fin3 R hR
  rw [if_neg (by rw [i32_le_lit _ _ hQ 0x39 57 (by decide)]; simpa using c57)]
  have hC := hR; rw [v256_def] at hC
  have r0 := R.w0.toNat_lt; have r1 := R.w1.toNat_lt; have r2 := R.w2.toNat_lt
  by_cases c58 : n1 + n2 = 58
  · rw [if_pos (by rw [i32_beq_lit _ _ hQ 0x3a 58 (by decide)]; simpa using c58)]
    have i18 : UInt64.ofInt (toI (18 : Nat)) = UInt64.ofNat 18 := u64_ofInt_nat 18
    rw [hmR, i18, ten2k256_get 18 (by decide)]
    simp only [bind, Except.bind, pure, Except.pure, ok_ite]
    refine ⟨_, _, _, _, rfl, he3, he4, hR, ?_⟩
    have hN : (10:Nat) ^ (18 + 39) < 2^192 := by norm_num
    have hT := hTN (10 ^ (18 + 39)) (lt_trans hN (by norm_num))
    have t0 := (mk256 (10 ^ (18 + 39))).w0.toNat_lt; have t1 := (mk256 (10 ^ (18 + 39))).w1.toNat_lt
    have t3z : (mk256 (10 ^ (18 + 39))).w3.toNat = 0 := by
      by_contra hne
      have : 2^192 * 1 ≤ 2^192 * (mk256 (10 ^ (18 + 39))).w3.toNat := Nat.mul_le_mul_left _ (by omega)
      omega
    rw [pnd, c58, lex2, lex_step R.w2 _ _ _ (2^128) (by omega) (by omega) _ rfl]
    have e2 : (mk256 (10 ^ (18 + 39))).w0.toNat + 2 ^ 64 * (mk256 (10 ^ (18 + 39))).w1.toNat +
        2 ^ 128 * (mk256 (10 ^ (18 + 39))).w2.toNat = 10 ^ 57 := by omega
    rw [e2]
    have hcmp : (if (R.w3 == 0) = true then decide (R.w0.toNat + 2^64 * R.w1.toNat + 2^128 * R.w2.toNat < 10^57) else false)
        = decide (c1 * c2 < 10 ^ (58 - 1)) := by
      by_cases hz : R.w3 = 0
      · have z3 : R.w3.toNat = 0 := by rw [hz]; rfl
        rw [if_pos (by simpa using hz), decide_eq_decide]
        omega
      · rw [if_neg (by simpa using hz)]
        have : R.w3.toNat ≠ 0 := by rw [ne_eq, ← UInt64.toNat_zero, UInt64.toNat_inj]; exact hz
        refine (decide_eq_false ?_).symm
        have : 2^192 * 1 ≤ 2^192 * R.w3.toNat := Nat.mul_le_mul_left _ (by omega)
        have : (10:Nat)^57 < 2^192 := by norm_num
        omega
    rw [hcmp]
    by_cases hlt : c1 * c2 < 10 ^ (58 - 1)
    · rw [if_pos (by simpa using hlt), if_pos hlt]; decide
    · rw [if_neg (by simpa using hlt), if_neg hlt]; decide
  rw [if_neg (by rw [i32_beq_lit _ _ hQ 0x3a 58 (by decide)]; simpa using c58)]
  rw [hmR, idx_of _ _ hs40, ten2k256_get _ (by omega)]
  simp only [bind, Except.bind, pure, Except.pure, ok_ite]
  refine ⟨_, _, _, _, rfl, he3, he4, hR, ?_⟩
  have hidx : n1 + n2 - 40 + 39 = n1 + n2 - 1 := by omega
  rw [hidx]
  have hN : (10:Nat) ^ (n1 + n2 - 1) < 2^256 := by
    have : (10:Nat)^(n1+n2-1) ≤ 10^67 := Nat.pow_le_pow_right (by decide) (by omega)
    have : (10:Nat)^67 < 2^256 := by norm_num
    omega
  have hT := hTN (10 ^ (n1 + n2 - 1)) hN
  have t0 := (mk256 (10 ^ (n1 + n2 - 1))).w0.toNat_lt; have t1 := (mk256 (10 ^ (n1 + n2 - 1))).w1.toNat_lt
  have t2 := (mk256 (10 ^ (n1 + n2 - 1))).w2.toNat_lt
  rw [pnd, lex2, lex_step R.w2 _ _ _ (2^128) (by omega) (by omega) _ rfl,
    lex_step R.w3 _ _ _ (2^192) (by omega) (by omega) _ rfl, hC, hT]
  by_cases hlt : c1 * c2 < 10 ^ (n1 + n2 - 1)
  · rw [if_pos (by simpa using hlt), if_pos hlt]; exact hs1
  · rw [if_neg (by simpa using hlt), if_neg hlt]; exact hQ


/-! ## 6. `front_spec`: what the front end hands to the case loop -/

/-- what the front end hands to the case loop, for three numbers with non-zero product and non-zero addend -/
structure Handover (s1 s2 s3 : Bool) (c1 c2 c3 : Nat) (e1 e2 e3 : Int)
    (zs ps ze pe : UInt64) (C3 : U128) (C4 : U256) (q3 q4 e3w e4w : Int32) : Prop where
  hzs : zs = sgnW s3
  hps : ps = sgnW (s1 != s2)
  hC3 : v128 C3 = c3
  hC4 : v256 C4 = c1 * c2
  hq3 : q3.toInt = (ndigits c3 : Int)
  hq4 : q4.toInt = (ndigits (c1 * c2) : Int)
  he3 : e3w.toInt = e3
  he4 : e4w.toInt = e1 + e2
  /-- the exponent field of `z`, in place -/
  hze : ze.toNat = (e3 + 6176).toNat * 2^49
  /-- the exponent field of the product: the biased sum, `0` if negative, NOT clamped above (at most `18398·2^49 < 2^64`) -/
  hpe : pe.toNat = (max (e1 + e2 + 6176) 0).toNat * 2^49
  /-- the operands are members of the format -/
  hc1 : c1 < 10^34
  hc2 : c2 < 10^34
  hc3 : c3 < 10^34
  hr1 : -6176 ≤ e1 ∧ e1 ≤ 6111
  hr2 : -6176 ≤ e2 ∧ e2 ≤ 6111
  hr3 : -6176 ≤ e3 ∧ e3 ≤ 6111

theorem sgnW_xor (a b : Bool) : sgnW a ^^^ sgnW b = sgnW (a != b) := by cases a <;> cases b <;> rfl

theorem isZ_of_val (C : U128) : isZ C = decide (v128 C = 0) := by
  unfold isZ v128
  rw [Bool.eq_iff_iff, Bool.and_eq_true, beq_iff_eq, beq_iff_eq, decide_eq_true_eq, ← UInt64.toNat_inj, ← UInt64.toNat_inj]
  show (C.w1.toNat = 0 ∧ C.w0.toNat = 0) ↔ _
  omega

set_option maxHeartbeats 1000000 in
/-- **the front end of `bid128_ext_fma`** on three finite operands (canonical or not) with non-zero product and non-zero
addend: nothing is returned in the front; the case loop is entered with the sign words, the exponent fields, the
coefficient of `z`, the EXACT product `c1·c2` as a 256-bit number, the digit counts and the unbiased exponents -/
theorem front_spec (p1 p2 p3 p4 : Bool) (x y z : U128) (m : RoundingMode) (f : UInt32)
    {s1 s2 s3 : Bool} {c1 c2 c3 : Nat} {e1 e2 e3 : Int}
    (hx : dOf x = .fin s1 c1 e1) (hy : dOf y = .fin s2 c2 e2) (hz : dOf z = .fin s3 c3 e3)
    (h12 : c1 * c2 ≠ 0) (h3 : c3 ≠ 0) :
    ∃ zs ps ze pe C3 C4 q3 q4 e3w e4w tmp, Handover s1 s2 s3 c1 c2 c3 e1 e2 e3 zs ps ze pe C3 C4 q3 q4 e3w e4w ∧
      bid128_ext_fma p1 p2 p3 p4 x y z m f = caseLoop p1 p2 p3 p4 m f zs ps ze pe C3 C4 q3 q4 e3w e4w tmp := by
  have hc1 : c1 ≠ 0 := fun h => h12 (by rw [h]; simp)
  have hc2 : c2 ≠ 0 := fun h => h12 (by rw [h]; simp)
  obtain ⟨nx, sx, ex, vx, lx, rx1, rx2⟩ := fin_unpack x s1 c1 e1 hx
  obtain ⟨ny, sy, ey, vy, ly, ry1, ry2⟩ := fin_unpack y s2 c2 e2 hy
  obtain ⟨nz, sz, ez, vz, lz, rz1, rz2⟩ := fin_unpack z s3 c3 e3 hz
  have z1 : isZ (unpC x).2 = false := by rw [isZ_of_val, vx]; simpa using hc1
  have z2 : isZ (unpC y).2 = false := by rw [isZ_of_val, vy]; simpa using hc2
  have z3 : isZ (unpC z).2 = false := by rw [isZ_of_val, vz]; simpa using h3
  have h113 : (10:Nat)^34 < 2^113 := by norm_num
  rw [ext_fma_shape]
  unfold frontK
  rw [nanK_skip x y z f _ (by rw [hx]; rfl) (by rw [hy]; rfl) (by rw [hz]; rfl),
    unpackK_eval x, unpackK_eval y, unpackK_eval z, if_pos nx, if_pos nx, if_pos ny, if_pos ny, if_pos nz, if_pos nz,
    infK_skip x y z _ _ _ _ _ f _ nx ny nz,
    zeroK_skip _ _ _ _ _ _ _ _ m f _ (by rw [z1, z2, z3]; decide)]
  -- the three digit counts
  generalize hk1 : (fun (q1 : Int32) (tmp : F64U) => digitsK (unpC y).2 tmp _) = K1
  obtain ⟨q1, t1, hd1, hq1⟩ := digitsK_spec (unpC x).2 default K1 (by rw [vx]; omega) (by rw [vx]; omega)
  rw [hd1]; subst hk1
  simp only []
  generalize hk2 : (fun (q2 : Int32) (tmp : F64U) => digitsK (unpC z).2 tmp _) = K2
  obtain ⟨q2, t2, hd2, hq2⟩ := digitsK_spec (unpC y).2 t1 K2 (by rw [vy]; omega) (by rw [vy]; omega)
  rw [hd2]; subst hk2
  simp only []
  generalize hk3 : (fun (q3 : Int32) (tmp : F64U) => prodZeroK z _ _ _ _ _ _ q3 f _) = K3
  obtain ⟨q3, t3, hd3, hq3⟩ := digitsK_spec (unpC z).2 t2 K3 (by rw [vz]; omega) (by rw [vz]; omega)
  rw [hd3]; subst hk3
  simp only []
  rw [prodZeroK_skip z _ _ _ _ _ _ q3 f _ z1 z2]
  -- the product
  generalize hk4 : (fun (e3 e4 : Int32) (C4 : U256) (q4 : Int32) => z0K (unpC z).2 C4 q4 e3 e4 _ _ m f _) = K4
  obtain ⟨e3w, e4w, C4, q4, hp, he3w, he4w, hC4, hq4⟩ := productK_spec (unpC x).1 (unpC y).1 (unpC z).1 (unpC x).2 (unpC y).2
    q1 q2 K4 (e1 + 6176).toNat (e2 + 6176).toNat (e3 + 6176).toNat ex ey ez (by omega) (by omega) (by omega)
    (by rw [vx]; omega) (by rw [vx]; exact lx) (by rw [vy]; omega) (by rw [vy]; exact ly) hq1 hq2
  rw [hp]; subst hk4
  simp only []
  rw [z0K_skip _ _ _ _ _ _ _ m f _ z3]
  rw [vx, vy] at hC4 hq4
  rw [vz] at hq3
  refine ⟨_, _, _, _, _, _, _, _, _, _, _, ?_, rfl⟩
  refine ⟨sz, by rw [sx, sy, sgnW_xor], vz, hC4, hq3, hq4, by rw [he3w]; omega, by rw [he4w]; omega, ez, ?_, lx, ly, lz,
    ⟨rx1, rx2⟩, ⟨ry1, ry2⟩, ⟨rz1, rz2⟩⟩
  rw [pExpW_val _ _ _ _ ex ey (by omega) (by omega)]
  by_cases hneg : ((e1 + 6176).toNat : Int) + (e2 + 6176).toNat - 12352 < -6176
  · rw [if_pos hneg]
    have : max (e1 + e2 + 6176) 0 = 0 := by omega
    rw [this]; rfl
  · rw [if_neg hneg]
    have : max (e1 + e2 + 6176) 0 = e1 + e2 + 6176 := by omega
    rw [this]
    have e : (e1 + 6176).toNat + (e2 + 6176).toNat - 6176 = (e1 + e2 + 6176).toNat := by omega
    rw [e]


/-! ## 7. `front_z0`: the hand-over to the `z = 0` path -/

/-- what the front end hands to `z0K` when the addend is a zero (of either sign, canonical or not) and the product is not -/
structure Z0Handover (s1 s2 s3 : Bool) (c1 c2 : Nat) (e1 e2 e3 : Int)
    (C3 : U128) (C4 : U256) (q4 e3w e4w : Int32) (ze ps : UInt64) : Prop where
  hC3 : C3.w1 = 0 ∧ C3.w0 = 0
  hC4 : v256 C4 = c1 * c2
  hN0 : 0 < c1 * c2
  hN : c1 * c2 < 10^68
  hq4 : q4.toInt = (ndigits (c1 * c2) : Int)
  he4 : e4w.toInt = e1 + e2
  hE : -12352 ≤ e1 + e2 ∧ e1 + e2 ≤ 12222
  he3 : e3w.toInt = e3
  hE3 : -6176 ≤ e3 ∧ e3 ≤ 6111
  hze : ze.toNat = (e3 + 6176).toNat * 2^49
  hps : ps = sgnW (s1 != s2)
  hc1 : c1 < 10^34
  hc2 : c2 < 10^34
  hr1 : -6176 ≤ e1 ∧ e1 ≤ 6111
  hr2 : -6176 ≤ e2 ∧ e2 ≤ 6111

set_option maxHeartbeats 1000000 in
/-- **the front end on `x·y + (±0)`**, `x`, `y` non-zero numbers (canonical or not), `z` a zero of either sign (a canonical
zero or a non-canonical pattern): the routine is the `z = 0` path `z0K` on the exact product (the continuation `k` is not
reached: `z0K` tests `C3 = 0` first).  The status word `f` is handed over untouched. -/
theorem front_z0 (p1 p2 p3 p4 : Bool) (x y z : U128) (m : RoundingMode) (f : UInt32)
    {s1 s2 s3 : Bool} {c1 c2 : Nat} {e1 e2 e3 : Int}
    (hx : dOf x = .fin s1 c1 e1) (hy : dOf y = .fin s2 c2 e2) (hz : dOf z = .fin s3 0 e3) (h12 : c1 * c2 ≠ 0) :
    ∃ C3 C4 q4 e3w e4w ze ps k, Z0Handover s1 s2 s3 c1 c2 e1 e2 e3 C3 C4 q4 e3w e4w ze ps ∧
      bid128_ext_fma p1 p2 p3 p4 x y z m f = z0K C3 C4 q4 e3w e4w ze ps m f k := by
  have hc1 : c1 ≠ 0 := fun h => h12 (by rw [h]; simp)
  have hc2 : c2 ≠ 0 := fun h => h12 (by rw [h]; simp)
  obtain ⟨nx, sx, ex, vx, lx, rx1, rx2⟩ := fin_unpack x s1 c1 e1 hx
  obtain ⟨ny, sy, ey, vy, ly, ry1, ry2⟩ := fin_unpack y s2 c2 e2 hy
  obtain ⟨nz, sz, ez, vz, lz, rz1, rz2⟩ := fin_unpack z s3 0 e3 hz
  have z1 : isZ (unpC x).2 = false := by rw [isZ_of_val, vx]; simpa using hc1
  have z2 : isZ (unpC y).2 = false := by rw [isZ_of_val, vy]; simpa using hc2
  have z3 : isZ (unpC z).2 = true := by rw [isZ_of_val, vz]; rfl
  rw [ext_fma_shape]
  unfold frontK
  rw [nanK_skip x y z f _ (by rw [hx]; rfl) (by rw [hy]; rfl) (by rw [hz]; rfl),
    unpackK_eval x, unpackK_eval y, unpackK_eval z, if_pos nx, if_pos nx, if_pos ny, if_pos ny, if_pos nz, if_pos nz,
    infK_skip x y z _ _ _ _ _ f _ nx ny nz,
    zeroK_skip _ _ _ _ _ _ _ _ m f _ (by rw [z1, z2, z3]; decide)]
  generalize hk1 : (fun (q1 : Int32) (tmp : F64U) => digitsK (unpC y).2 tmp _) = K1
  obtain ⟨q1, t1, hd1, hq1⟩ := digitsK_spec (unpC x).2 default K1 (by rw [vx]; omega) (by rw [vx]; omega)
  rw [hd1]; subst hk1
  simp only []
  generalize hk2 : (fun (q2 : Int32) (tmp : F64U) => digitsK (unpC z).2 tmp _) = K2
  obtain ⟨q2, t2, hd2, hq2⟩ := digitsK_spec (unpC y).2 t1 K2 (by rw [vy]; omega) (by rw [vy]; omega)
  rw [hd2]; subst hk2
  simp only []
  rw [digitsK_zero _ _ _ z3, prodZeroK_skip z _ _ _ _ _ _ 0 f _ z1 z2]
  generalize hk4 : (fun (e3 e4 : Int32) (C4 : U256) (q4 : Int32) => z0K (unpC z).2 C4 q4 e3 e4 _ _ m f _) = K4
  obtain ⟨e3w, e4w, C4, q4, hp, he3w, he4w, hC4, hq4⟩ := productK_spec (unpC x).1 (unpC y).1 (unpC z).1 (unpC x).2 (unpC y).2
    q1 q2 K4 (e1 + 6176).toNat (e2 + 6176).toNat (e3 + 6176).toNat ex ey ez (by omega) (by omega) (by omega)
    (by rw [vx]; omega) (by rw [vx]; exact lx) (by rw [vy]; omega) (by rw [vy]; exact ly) hq1 hq2
  rw [hp]; subst hk4
  simp only []
  rw [vx, vy] at hC4 hq4
  refine ⟨_, _, _, _, _, _, _, _, ?_, rfl⟩
  have hz0 : (unpC z).2.w1 = 0 ∧ (unpC z).2.w0 = 0 := by
    unfold isZ at z3
    simpa using z3
  have hN : c1 * c2 < 10^68 := by
    calc c1 * c2 < 10^34 * 10^34 := Nat.mul_lt_mul'' lx ly
      _ = 10^68 := by norm_num
  exact ⟨hz0, hC4, Nat.pos_of_ne_zero h12, hN, hq4, by rw [he4w]; omega, ⟨by omega, by omega⟩, by rw [he3w]; omega,
    ⟨rz1, rz2⟩, ez, by rw [sx, sy, sgnW_xor], lx, ly, ⟨rx1, rx2⟩, ⟨ry1, ry2⟩⟩


/-! ## 8. The special cases answered in the front: infinities -/

/-- the test "is an infinity" of the front end -/
def tInf (x : U128) : Bool := ((x.w1 &&& c_MASK_ANY_INF)) == c_MASK_INF

/-- the result word of `infK`: an infinity with the sign word `s`, or the default NaN -/
def infW (s : UInt64) : U128 := ⟨0, s ||| c_MASK_INF⟩
def nanW : U128 := ⟨0, 0x7c00000000000000⟩

/-- what `infK` answers when some operand is an infinity (`none`: invalid, the default NaN; `some s`: the infinity with
sign word `s`) — the decision tree of the source on the three "is infinite" tests, the zero tests and the sign words -/
def infDecide (ix iy iz : Bool) (z1 z2 : Bool) (ps zs : UInt64) : Option UInt64 :=
  if ix then
    if iy then (if iz then (if ps == zs then some zs else none) else some ps)
    else if !z2 then (if iz then (if ps == zs then some zs else none) else some ps) else none
  else if iy then
    (if iz then (if (ps != zs) || z1 then none else some zs) else if z1 then none else some ps)
  else some zs

theorem infK_eval (x y z : U128) (xs ys zs : UInt64) (C1 C2 : U128) (f : UInt32) (k : UInt64 → Except String Out) :
    infK x y z xs ys zs C1 C2 f k =
      if (tInf x || tInf y || tInf z) = true then
        (match infDecide (tInf x) (tInf y) (tInf z) (isZ C1) (isZ C2) (xs ^^^ ys) zs with
         | some s => .ok (infW s, false, false, false, false, f)
         | none => .ok (nanW, false, false, false, false, f ||| c_StatusFlags_BID_INVALID_EXCEPTION))
      else k (xs ^^^ ys) := by
  unfold infK tInf infDecide isZ infW nanW
  simp only [isZ_ne, bne]
  generalize (x.w1 &&& c_MASK_ANY_INF == c_MASK_INF) = ix
  generalize (y.w1 &&& c_MASK_ANY_INF == c_MASK_INF) = iy
  generalize (z.w1 &&& c_MASK_ANY_INF == c_MASK_INF) = iz
  generalize (C1.w1 == 0) = a1
  generalize (C1.w0 == 0) = b1
  generalize (C2.w1 == 0) = a2
  generalize (C2.w0 == 0) = b2
  by_cases hq : (xs ^^^ ys == zs) = true
  · simp only [hq]
    cases ix <;> cases iy <;> cases iz <;> cases a1 <;> cases b1 <;> cases a2 <;> cases b2 <;> rfl
  · have hq' : (xs ^^^ ys == zs) = false := by simpa using hq
    simp only [hq']
    cases ix <;> cases iy <;> cases iz <;> cases a1 <;> cases b1 <;> cases a2 <;> cases b2 <;> rfl


/-- the same decision on Boolean signs -/
def infDecideB (ix iy iz : Bool) (z1 z2 : Bool) (ps zs : Bool) : Option Bool :=
  if ix then
    if iy then (if iz then (if ps == zs then some zs else none) else some ps)
    else if !z2 then (if iz then (if ps == zs then some zs else none) else some ps) else none
  else if iy then
    (if iz then (if (ps != zs) || z1 then none else some zs) else if z1 then none else some ps)
  else some zs

theorem sgnW_beq (a b : Bool) : (sgnW a == sgnW b) = (a == b) := by cases a <;> cases b <;> rfl

theorem infDecide_sgn (ix iy iz z1 z2 ps zs : Bool) :
    infDecide ix iy iz z1 z2 (sgnW ps) (sgnW zs) = (infDecideB ix iy iz z1 z2 ps zs).map sgnW := by
  unfold infDecide infDecideB
  rw [bne, sgnW_beq]
  cases ix <;> cases iy <;> cases iz <;> cases z1 <;> cases z2 <;> cases ps <;> cases zs <;> rfl

/-- the model on an infinite operand (no NaN): the same decision -/
theorem fmaD_inf (mode : Mode) (dx dy dz : Datum) (hx : dx.isNaN = false) (hy : dy.isNaN = false) (hz : dz.isNaN = false)
    (hi : (dx.isInf || dy.isInf || dz.isInf) = true) :
    fmaD mode false dx dy dz =
      (match infDecideB dx.isInf dy.isInf dz.isInf dx.isZero dy.isZero (dx.neg != dy.neg) dz.neg with
       | some s => (.inf s, 0)
       | none => invalidResult) := by
  cases dx with
  | nan _ _ _ => exact Bool.noConfusion hx
  | inf s1 =>
    cases dy with
    | nan _ _ _ => exact Bool.noConfusion hy
    | inf s2 =>
      cases dz with
      | nan _ _ _ => exact Bool.noConfusion hz
      | inf s3 => cases s1 <;> cases s2 <;> cases s3 <;> rfl
      | fin s3 c3 e3 => cases s1 <;> cases s2 <;> rfl
    | fin s2 c2 e2 =>
      by_cases h2 : c2 = 0
      · subst h2
        cases dz with
        | nan _ _ _ => exact Bool.noConfusion hz
        | inf s3 => rfl
        | fin s3 c3 e3 => rfl
      · have hz2 : (Datum.fin s2 c2 e2).isZero = false := by simp [Datum.isZero, h2]
        cases dz with
        | nan _ _ _ => exact Bool.noConfusion hz
        | inf s3 =>
          simp only [fmaD, mulD, h2, if_false, infDecideB, Datum.isInf, hz2, Datum.neg, Bool.not_false, if_true,
            Bool.false_eq_true]
          cases s1 <;> cases s2 <;> cases s3 <;> rfl
        | fin s3 c3 e3 =>
          simp only [fmaD, mulD, h2, if_false, infDecideB, Datum.isInf, hz2, Datum.neg, Bool.not_false, if_true,
            Bool.false_eq_true]
  | fin s1 c1 e1 =>
    cases dy with
    | nan _ _ _ => exact Bool.noConfusion hy
    | inf s2 =>
      by_cases h1 : c1 = 0
      · subst h1
        cases dz with
        | nan _ _ _ => exact Bool.noConfusion hz
        | inf s3 =>
          simp only [fmaD, mulD, if_true, infDecideB, Datum.isInf, Datum.isZero, Datum.neg, beq_self_eq_true,
            Bool.or_true, Bool.false_eq_true, if_false]
          rfl
        | fin s3 c3 e3 =>
          simp only [fmaD, mulD, if_true, infDecideB, Datum.isInf, Datum.isZero, Datum.neg, beq_self_eq_true,
            Bool.false_eq_true, if_false]
          rfl
      · have hz1 : (Datum.fin s1 c1 e1).isZero = false := by simp [Datum.isZero, h1]
        cases dz with
        | nan _ _ _ => exact Bool.noConfusion hz
        | inf s3 =>
          simp only [fmaD, mulD, h1, if_false, infDecideB, Datum.isInf, hz1, Datum.neg, if_true, Bool.false_eq_true,
            Bool.or_false]
          cases s1 <;> cases s2 <;> cases s3 <;> rfl
        | fin s3 c3 e3 =>
          simp only [fmaD, mulD, h1, if_false, infDecideB, Datum.isInf, hz1, Datum.neg, if_true, Bool.false_eq_true]
    | fin s2 c2 e2 =>
      cases dz with
      | nan _ _ _ => exact Bool.noConfusion hz
      | inf s3 => rfl
      | fin s3 c3 e3 => exact absurd hi (by simp [Datum.isInf])


/-- an operand that is not a NaN, as the front end sees it: the infinity test, the sign word, the zero test -/
theorem nonnan_view (x : U128) (hn : (dOf x).isNaN = false) :
    tInf x = (dOf x).isInf ∧ notInf x = !(dOf x).isInf ∧ x.w1 &&& c_MASK_SIGN = sgnW (dOf x).neg ∧
    (!tInf x && isZ (if notInf x = true then (unpC x).2 else ⟨x.w0, x.w1 &&& c_MASK_COEFF⟩)) = (dOf x).isZero := by
  have hni : notInf x = !tInf x := rfl
  cases hd : dOf x with
  | nan _ _ _ => rw [hd] at hn; exact Bool.noConfusion hn
  | fin s c e =>
    obtain ⟨nx, sx, ex, vx, lx, r1, r2⟩ := fin_unpack x s c e hd
    have ti : tInf x = false := by rw [hni] at nx; simpa using nx
    refine ⟨ti, nx, sx, ?_⟩
    rw [ti, if_pos nx, isZ_of_val, vx]
    show (true && decide (c = 0)) = (c == 0)
    rw [Bool.true_and, Bool.eq_iff_iff, decide_eq_true_eq, beq_iff_eq]
  | inf s =>
    have ti : tInf x = true := by
      unfold tInf
      rw [tInf_eq, decide_eq_true_eq]
      have hD := hd
      rw [dOf_W] at hD
      have hh := x.w1.toNat_lt
      rcases decodeW_cases x.w1.toNat x.w0.toNat with ⟨h1, h2, hd'⟩ | ⟨h1, h2, h3, hd'⟩ | ⟨h1, h2, h3, hd'⟩ | ⟨h1, h2, hd'⟩ |
        ⟨h1, h2, h3, hd'⟩ | ⟨h1, h2, h3, hd'⟩ <;> rw [hd'] at hD <;> first | exact Datum.noConfusion hD | omega
    refine ⟨ti, by rw [hni, ti]; rfl, ?_, by rw [ti]; rfl⟩
    have hsw := Dec.C06GenFromInt.sign_word x
    rw [show decode (Dec.C06GenFromInt.bitsOf x) = dOf x from rfl, hd] at hsw
    rw [← UInt64.toNat_inj, Dec.C02GenFmaSwap.sgnW_toNat]
    show (x.w1 &&& 0x8000000000000000).toNat = _
    rw [hsw]
    show (if s = true then 2^63 else 0) = _
    cases s <;> rfl

theorem infDecide_irrel (ix iy iz z1 z2 : Bool) (ps zs : UInt64) :
    infDecide ix iy iz z1 z2 ps zs = infDecide ix iy iz (!ix && z1) (!iy && z2) ps zs := by
  unfold infDecide
  cases ix <;> cases iy <;> cases iz <;> cases z1 <;> cases z2 <;> rfl

theorem infW_word (s : Bool) : infW (sgnW s) = ofBits (encode (.inf s)) := by cases s <;> decide +kernel
theorem nanW_word : nanW = ofBits (encode defaultNaN) := by decide +kernel

/-- **an infinite operand (no NaN)**: the front end answers, and the answer is `fmaD`: `∞·0` invalid, `∞ + (−∞)` invalid,
otherwise the infinity of the product or of the addend; the indicators are `false`; the status word gets `invalid` or
nothing -/
theorem front_inf (p1 p2 p3 p4 : Bool) (x y z : U128) (m : RoundingMode) (f : UInt32)
    (hx : (dOf x).isNaN = false) (hy : (dOf y).isNaN = false) (hz : (dOf z).isNaN = false)
    (hi : ((dOf x).isInf || (dOf y).isInf || (dOf z).isInf) = true) :
    bid128_ext_fma p1 p2 p3 p4 x y z m f =
      .ok (ofBits (encode (fmaD (Dec.C02GenCorrection.modeOf m) false (dOf x) (dOf y) (dOf z)).1), false, false, false, false,
        f ||| UInt32.ofNat (fmaD (Dec.C02GenCorrection.modeOf m) false (dOf x) (dOf y) (dOf z)).2) := by
  obtain ⟨ix, nx, sx, zx⟩ := nonnan_view x hx
  obtain ⟨iy, ny, sy, zy⟩ := nonnan_view y hy
  obtain ⟨iz, nz, sz, zz⟩ := nonnan_view z hz
  rw [ext_fma_shape]
  unfold frontK
  rw [nanK_skip x y z f _ hx hy hz, unpackK_eval x, unpackK_eval y, unpackK_eval z, infK_eval,
    if_pos (by rw [ix, iy, iz]; exact hi), infDecide_irrel, zx, zy, ix, iy, iz, sx, sy, sz, sgnW_xor, infDecide_sgn,
    fmaD_inf (Dec.C02GenCorrection.modeOf m) _ _ _ hx hy hz hi]
  cases infDecideB (dOf x).isInf (dOf y).isInf (dOf z).isInf (dOf x).isZero (dOf y).isZero ((dOf x).neg != (dOf y).neg)
    (dOf z).neg with
  | none =>
    show Except.ok (nanW, false, false, false, false, f ||| c_StatusFlags_BID_INVALID_EXCEPTION) = _
    rw [nanW_word]; rfl
  | some s =>
    show Except.ok (infW (sgnW s), false, false, false, false, f) = _
    rw [infW_word]
    exact congrArg (fun g => Except.ok (_, false, false, false, false, g)) (UInt32.or_zero).symm


/-! ## 9. The special cases answered in the front: product zero and addend zero -/

/-- the high word of the zero `zeroK` returns: the smaller exponent field, with the sign of the IEEE rule -/
def zzWord (pe ze ps zs : UInt64) (m : RoundingMode) : UInt64 :=
  if (ps == zs) = true then (if decide (pe < ze) = true then pe else ze) ||| zs
  else if (m == RoundingMode.Downward) = true then (if decide (pe < ze) = true then pe else ze) ||| c_MASK_SIGN
  else (if decide (pe < ze) = true then pe else ze)

theorem zeroK_zero (xe ye ze : UInt64) (C1 C2 C3 : U128) (ps zs : UInt64) (m : RoundingMode) (f : UInt32)
    (k : UInt64 → Except String Out) (h : ((isZ C1 || isZ C2) && isZ C3) = true) :
    zeroK xe ye ze C1 C2 C3 ps zs m f k = .ok (⟨0, zzWord (pExpW xe ye) ze ps zs m⟩, false, false, false, false, f) := by
  unfold zeroK
  take_pos
  · rw [← h]; unfold isZ
    cases (C1.w1 == 0) <;> cases (C1.w0 == 0) <;> cases (C2.w1 == 0) <;> cases (C2.w0 == 0) <;> cases (C3.w1 == 0) <;>
      cases (C3.w0 == 0) <;> rfl
  unfold zzWord
  by_cases hs : (ps == zs) = true
  · take_pos
    · exact hs
    rw [if_pos hs]; rfl
  · take_neg
    · exact hs
    rw [if_neg hs]
    by_cases hd : (m == RoundingMode.Downward) = true
    · take_pos
      · exact hd
      rw [if_pos hd]; rfl
    · take_neg
      · exact hd
      rw [if_neg hd]; rfl


theorem or_sgnW (w : UInt64) (s : Bool) (hw : w.toNat < 2^63) : (w ||| sgnW s).toNat = (if s then 2^63 else 0) + w.toNat := by
  cases s
  · show (w ||| 0).toNat = _
    rw [UInt64.or_zero]; simp
  · rw [UInt64.toNat_or, show (sgnW true).toNat = 1 * 2^63 from rfl, Nat.or_comm,
      Dec.C06GenFromInt.or_disjoint 1 w.toNat 63 hw]
    simp

/-- a zero result word: sign bit and exponent field -/
theorem zero_word_enc (W : UInt64) (s : Bool) (F : Nat) (hF : F < 2^14)
    (hW : W.toNat = (if s then 2^63 else 0) + F * 2^49) : (⟨0, W⟩ : U128) = ofBits (encode (.fin s 0 ((F : Int) - 6176))) := by
  apply Dec.C06GenFromInt.eq_ofBits
  unfold Dec.C06GenFromInt.bitsOf
  show W.toNat * 2^64 + (0 : UInt64).toNat = signBit s + ((F : Int) - 6176 + 6176).toNat * 2^113 + 0
  rw [hW, show ((F : Int) - 6176 + 6176).toNat = F from by omega]
  unfold signBit
  cases s <;> simp <;> ring

theorem modeOf_rdn (m : RoundingMode) : (m == RoundingMode.Downward) = (Dec.C02GenCorrection.modeOf m == Mode.rdn) := by
  cases m <;> rfl

set_option maxHeartbeats 1000000 in
/-- **zero product and zero addend** (three finite operands, canonical or not): the front end answers, and the answer is
`fmaD`: the zero with the smaller of the two exponents `e1 + e2`, `e3` (clamped into the format's range), negative iff
both the product and the addend are negative, or their signs differ and the mode is `Downward`; no flag -/
theorem front_zero_zero (p1 p2 p3 p4 : Bool) (x y z : U128) (m : RoundingMode) (f : UInt32)
    {s1 s2 s3 : Bool} {c1 c2 : Nat} {e1 e2 e3 : Int}
    (hx : dOf x = .fin s1 c1 e1) (hy : dOf y = .fin s2 c2 e2) (hz : dOf z = .fin s3 0 e3) (h12 : c1 * c2 = 0) :
    bid128_ext_fma p1 p2 p3 p4 x y z m f =
      .ok (ofBits (encode (fmaD (Dec.C02GenCorrection.modeOf m) false (dOf x) (dOf y) (dOf z)).1), false, false, false, false,
        f ||| UInt32.ofNat (fmaD (Dec.C02GenCorrection.modeOf m) false (dOf x) (dOf y) (dOf z)).2) := by
  obtain ⟨nx, sx, ex, vx, lx, rx1, rx2⟩ := fin_unpack x s1 c1 e1 hx
  obtain ⟨ny, sy, ey, vy, ly, ry1, ry2⟩ := fin_unpack y s2 c2 e2 hy
  obtain ⟨nz, sz, ez, vz, lz, rz1, rz2⟩ := fin_unpack z s3 0 e3 hz
  have z3 : isZ (unpC z).2 = true := by rw [isZ_of_val, vz]; rfl
  have z12 : (isZ (unpC x).2 || isZ (unpC y).2) = true := by
    rw [isZ_of_val, isZ_of_val, vx, vy]
    rcases Nat.mul_eq_zero.1 h12 with h | h <;> simp [h]
  -- the model
  have hmodel : fmaD (Dec.C02GenCorrection.modeOf m) false (dOf x) (dOf y) (dOf z) =
      (zeroAt (zeroSumSign (Dec.C02GenCorrection.modeOf m) (s1 != s2) s3) (if e1 + e2 ≤ e3 then e1 + e2 else e3), 0) := by
    rw [hx, hy, hz]
    show addFin _ (s1 != s2) (c1 * c2) (e1 + e2) s3 0 e3 _ false = _
    rw [h12]
    unfold addFin sInt
    simp
  rw [hmodel, ext_fma_shape]
  unfold frontK
  rw [nanK_skip x y z f _ (by rw [hx]; rfl) (by rw [hy]; rfl) (by rw [hz]; rfl),
    unpackK_eval x, unpackK_eval y, unpackK_eval z, if_pos nx, if_pos nx, if_pos ny, if_pos ny, if_pos nz, if_pos nz,
    infK_skip x y z _ _ _ _ _ f _ nx ny nz, zeroK_zero _ _ _ _ _ _ _ _ m f _ (by rw [z12, z3]; rfl)]
  rw [show f ||| UInt32.ofNat (0 : Flags) = f from UInt32.or_zero]
  refine congrArg (fun p : U128 => Except.ok (p, false, false, false, false, f)) ?_
  show (⟨0, zzWord _ _ _ _ m⟩ : U128) = _
  -- the word
  have hpe := pExpW_val (unpC x).1 (unpC y).1 _ _ ex ey (by omega) (by omega)
  obtain ⟨PE, hPE⟩ : ∃ PE : Nat, PE = (max (e1 + e2 + 6176) 0).toNat := ⟨_, rfl⟩
  have hpe' : (pExpW (unpC x).1 (unpC y).1).toNat = PE * 2^49 := by
    rw [hpe]
    by_cases hneg : ((e1 + 6176).toNat : Int) + (e2 + 6176).toNat - 12352 < -6176
    · rw [if_pos hneg]; have : PE = 0 := by omega
      rw [this, Nat.zero_mul]
    · rw [if_neg hneg]; have : (e1 + 6176).toNat + (e2 + 6176).toNat - 6176 = PE := by omega
      rw [this]
  obtain ⟨F, hF⟩ : ∃ F : Nat, F = min PE (e3 + 6176).toNat := ⟨_, rfl⟩
  have hmin : (if decide (pExpW (unpC x).1 (unpC y).1 < (unpC z).1) = true then pExpW (unpC x).1 (unpC y).1
      else (unpC z).1).toNat = F * 2^49 := by
    by_cases hlt : pExpW (unpC x).1 (unpC y).1 < (unpC z).1
    · rw [if_pos (by simpa using hlt), hpe']
      rw [UInt64.lt_iff_toNat_lt, hpe', ez] at hlt
      have : PE < (e3 + 6176).toNat := by
        by_contra hge
        have : (e3 + 6176).toNat * 2^49 ≤ PE * 2^49 := Nat.mul_le_mul_right _ (by omega)
        omega
      have : F = PE := by omega
      rw [this]
    · rw [if_neg (by simpa using hlt), ez]
      rw [UInt64.lt_iff_toNat_lt, hpe', ez] at hlt
      have : (e3 + 6176).toNat ≤ PE := by
        by_contra hge
        have : (PE + 1) * 2^49 ≤ (e3 + 6176).toNat * 2^49 := Nat.mul_le_mul_right _ (by omega)
        rw [Nat.add_mul] at this
        omega
      have : F = (e3 + 6176).toNat := by omega
      rw [this]
  have hF14 : F < 2^14 := by omega
  have hFlt : F * 2^49 < 2^63 := by
    calc F * 2^49 < 2^14 * 2^49 := Nat.mul_lt_mul_of_pos_right hF14 (by decide)
      _ = 2^63 := by norm_num
  have hexp : zeroAt (zeroSumSign (Dec.C02GenCorrection.modeOf m) (s1 != s2) s3) (if e1 + e2 ≤ e3 then e1 + e2 else e3)
      = .fin (zeroSumSign (Dec.C02GenCorrection.modeOf m) (s1 != s2) s3) 0 ((F : Int) - 6176) := by
    unfold zeroAt clampInt eMin eMax
    congr 1
    split <;> split <;> (try split) <;> omega
  rw [hexp]
  apply zero_word_enc _ _ _ hF14
  unfold zzWord zeroSumSign
  rw [sx, sy, sz, sgnW_xor, sgnW_beq, modeOf_rdn]
  generalize hmn : (if decide (pExpW (unpC x).1 (unpC y).1 < (unpC z).1) = true then pExpW (unpC x).1 (unpC y).1
      else (unpC z).1) = mn at hmin
  by_cases hs : ((s1 != s2) == s3) = true
  · rw [if_pos hs, if_pos hs, or_sgnW _ _ (by rw [hmin]; exact hFlt), hmin]
    have : s3 = (s1 != s2) := (beq_iff_eq.1 hs).symm
    rw [this]
  · rw [if_neg hs, if_neg hs]
    by_cases hd : (Dec.C02GenCorrection.modeOf m == Mode.rdn) = true
    · rw [if_pos hd, hd, show c_MASK_SIGN = sgnW true from rfl, or_sgnW _ _ (by rw [hmin]; exact hFlt), hmin]
    · rw [if_neg hd]
      have : (Dec.C02GenCorrection.modeOf m == Mode.rdn) = false := by simpa using hd
      rw [this, hmin]; simp


/-! ## 10. The special cases answered in the front: zero product, non-zero addend -/

/-- the universal rounding step on a member of the format, preferred exponent possibly below the range: with
`N = M·10^(X−m)`, `M·10^X` a member, and `X` the exponent closest to `m` from above — `X = m`, or `M` cannot be padded, or
`X` is the least exponent — `finish` delivers `M·10^X` without a flag -/
theorem finish_exact' (mode : Mode) (neg : Bool) (N : Nat) (m : Int) (hN : 0 < N) (M : Nat) (X : Int) (hX : m ≤ X)
    (hval : M * 10 ^ (X - m).toNat = N) (hrep : Representable M X) (hclose : X = m ∨ P34 ≤ M * 10 ∨ X = eMin) :
    finish mode neg N 1 m m = (.fin neg M X, 0) := by
  rw [finish_eq_iff mode neg N 1 m m hN (by norm_num)]
  left
  have ten_ne : (10 : ℚ) ≠ 0 := by norm_num
  have hv : fval false M X = (N : ℚ) / ((1 : Nat) : ℚ) * (10 : ℚ) ^ m := by
    rw [fval_false, ← hval]
    push_cast
    rw [div_one, mul_assoc, ← zpow_natCast, ← zpow_add₀ ten_ne]
    congr 2
    omega
  refine ⟨⟨M, X, hrep, hv⟩, M, X, rfl, hv, hrep, ?_⟩
  intro m' x' hr' hv'
  rcases hclose with h | h | h
  · rw [h, sub_self, abs_zero]; exact abs_nonneg _
  · by_cases hx : X ≤ x'
    · rw [abs_of_nonneg (by omega), abs_of_nonneg (by omega)]; omega
    · exfalso
      rw [← hv, fval_false, fval_false] at hv'
      have hk : X = x' + ((X - x').toNat : Int) := by omega
      rw [hk, zpow_add₀ ten_ne, zpow_natCast] at hv'
      have h10 : (10 : ℚ) ^ x' ≠ 0 := zpow_ne_zero _ ten_ne
      have e1 : (m' : ℚ) = (M : ℚ) * (10 : ℚ) ^ (X - x').toNat := by
        have : (m' : ℚ) * (10 : ℚ) ^ x' = ((M : ℚ) * (10 : ℚ) ^ (X - x').toNat) * (10 : ℚ) ^ x' := by rw [hv']; ring
        exact mul_right_cancel₀ h10 this
      have e2 : m' = M * 10 ^ (X - x').toNat := by exact_mod_cast e1
      obtain ⟨k, hk'⟩ : ∃ k, (X - x').toNat = k + 1 := ⟨(X - x').toNat - 1, by omega⟩
      rw [hk', Nat.pow_succ] at e2
      have : M * 10 ≤ m' := by
        rw [e2, Nat.mul_comm (10 ^ k) 10, ← Nat.mul_assoc]
        exact Nat.le_mul_of_pos_right _ (Nat.pow_pos (by decide))
      have := hr'.1
      omega
  · have hx : X ≤ x' := by rw [h]; exact hr'.2.1
    rw [abs_of_nonneg (by omega), abs_of_nonneg (by omega)]; omega

theorem addFin_zero_left' (mode : Mode) (s1 : Bool) (e1 : Int) (s2 : Bool) (c2 : Nat) (e2 pref : Int) (hc2 : 0 < c2) :
    addFin mode s1 0 e1 s2 c2 e2 pref =
      finish mode s2 (c2 * 10 ^ (e2 - (if e1 ≤ e2 then e1 else e2)).toNat) 1 (if e1 ≤ e2 then e1 else e2) pref := by
  have hp : 0 < c2 * 10 ^ (e2 - (if e1 ≤ e2 then e1 else e2)).toNat := Nat.mul_pos hc2 (Nat.pow_pos (by decide))
  unfold addFin sInt
  simp only [Nat.zero_mul, Nat.cast_zero, neg_zero, ite_self, zero_add]
  generalize c2 * 10 ^ (e2 - (if e1 ≤ e2 then e1 else e2)).toNat = N at *
  cases s2
  · simp only [Bool.false_eq_true, if_false]
    rw [if_neg (by omega)]
    congr 1
  · simp only [if_true]
    rw [if_neg (by omega)]
    have : decide (-(N : Int) < 0) = true := by simpa using hp
    rw [this]
    congr 1
    omega

/-- **the model on a zero product and a non-zero addend**: the addend with its coefficient padded by
`scale = min (34 − q3, e3 − max (pe, −6176))` zeros (none if `e3 ≤ pe`), no flag -/
theorem fmaD_prod_zero (mode : Mode) (ps s3 : Bool) (pe : Int) (c3 : Nat) (e3 : Int) (h0 : 0 < c3) (hc : c3 < 10^34)
    (h1 : -6176 ≤ e3) (h2 : e3 ≤ 6111) (scale : Nat)
    (hs : scale = if e3 ≤ pe then 0 else min (34 - ndigits c3) (e3 - max pe (-6176)).toNat) :
    addFin mode ps 0 pe s3 c3 e3 (if pe ≤ e3 then pe else e3) = (.fin s3 (c3 * 10 ^ scale) (e3 - scale), 0) := by
  rw [addFin_zero_left' mode ps pe s3 c3 e3 _ h0]
  obtain ⟨a1, a2⟩ := ndigits_spec h0
  have nq : ndigits c3 ≤ 34 := (ndigits_le_iff h0).2 hc
  have nq0 := ndigits_pos h0
  by_cases hle : e3 ≤ pe
  · rw [if_pos hle] at hs
    subst hs
    have hm : (if pe ≤ e3 then pe else e3) = e3 := by split <;> omega
    rw [hm]
    simp only [Int.sub_self, Int.toNat_zero, Nat.pow_zero, Nat.mul_one, Nat.cast_zero, Int.sub_zero]
    exact finish_exact' mode s3 c3 e3 h0 c3 e3 (le_refl _) (by simp) ⟨by unfold P34; exact hc, by unfold eMin; omega,
      by unfold eMax; omega⟩ (Or.inl rfl)
  · rw [if_neg hle] at hs
    have hm : (if pe ≤ e3 then pe else e3) = pe := by split <;> omega
    rw [hm]
    have hsc1 : scale ≤ 34 - ndigits c3 := by omega
    have hsc2 : (scale : Int) ≤ e3 - max pe (-6176) := by omega
    have hM : c3 * 10 ^ scale < 10 ^ 34 := by
      calc c3 * 10 ^ scale < 10 ^ ndigits c3 * 10 ^ scale := Nat.mul_lt_mul_of_pos_right a2 (Nat.pow_pos (by decide))
        _ = 10 ^ (ndigits c3 + scale) := (Nat.pow_add _ _ _).symm
        _ ≤ 10 ^ 34 := Nat.pow_le_pow_right (by decide) (by omega)
    refine finish_exact' mode s3 _ pe (Nat.mul_pos h0 (Nat.pow_pos (by decide))) (c3 * 10 ^ scale) (e3 - scale) (by omega) ?_
      ⟨by unfold P34; exact hM, by unfold eMin; omega, by unfold eMax; omega⟩ ?_
    · rw [Nat.mul_assoc, ← Nat.pow_add]
      congr 2
      omega
    · by_cases hk : scale = 34 - ndigits c3
      · right; left
        unfold P34
        have : 10 ^ (ndigits c3 - 1) * 10 ^ scale ≤ c3 * 10 ^ scale := Nat.mul_le_mul_right _ a1
        rw [← Nat.pow_add, show ndigits c3 - 1 + scale = 33 from by omega] at this
        omega
      · have : (scale : Int) = e3 - max pe (-6176) := by omega
        by_cases hp : -6176 ≤ pe
        · left; omega
        · right; right; unfold eMin; omega


/-- the three fields of a result word laid side by side -/
theorem pack_fields (r1 zs fe : UInt64) (hr : r1.toNat < 2^49) (s : Bool) (hzs : zs = sgnW s) (F : Nat) (hF : F < 2^14)
    (hfe : fe.toNat = F * 2^49) : (r1 ||| (zs ||| fe)).toNat = (if s then 2^63 else 0) + F * 2^49 + r1.toNat := by
  have hfe63 : fe.toNat < 2^63 := by
    rw [hfe]
    calc F * 2^49 < 2^14 * 2^49 := Nat.mul_lt_mul_of_pos_right hF (by decide)
      _ = 2^63 := by norm_num
  have h1 : (zs ||| fe).toNat = (if s then 2^63 else 0) + F * 2^49 := by
    rw [UInt64.or_comm, hzs, or_sgnW _ _ hfe63, hfe]
  rw [UInt64.toNat_or, h1, Nat.or_comm]
  have hdis : ((if s then 2^63 else 0) + F * 2^49) = ((if s then 2^14 else 0) + F) * 2^49 := by
    cases s <;> simp; ring
  rw [hdis, Dec.C06GenFromInt.or_disjoint _ _ 49 hr]

/-- a finite result word is the canonical encoding of its fields -/
theorem fin_word_enc (R : U128) (W : UInt64) (s : Bool) (F : Nat) (hF : F < 2^14)
    (hW : W.toNat = (if s then 2^63 else 0) + F * 2^49 + R.w1.toNat) (hR : R.w1.toNat < 2^49) :
    (⟨R.w0, W⟩ : U128) = ofBits (encode (.fin s (v128 R) ((F : Int) - 6176))) := by
  apply Dec.C06GenFromInt.eq_ofBits
  unfold Dec.C06GenFromInt.bitsOf
  show W.toNat * 2^64 + R.w0.toNat = signBit s + ((F : Int) - 6176 + 6176).toNat * 2^113 + v128 R
  rw [hW, show ((F : Int) - 6176 + 6176).toNat = F from by omega]
  unfold signBit v128
  cases s <;> simp <;> ring


theorem mask_exp_id (w : UInt64) (F : Nat) (hw : w.toNat = F * 2^49) (hF : F < 2^14) : w &&& c_MASK_EXP = w := by
  rw [← UInt64.toNat_inj, toNat_and_field _ c_MASK_EXP 14 49 (by decide), hw, Nat.mul_div_cancel _ (by decide),
    Nat.mod_eq_of_lt hF]

/-- the common end of the branches of `prodZeroK`: the exponent field moved down by `scale`, the fields packed -/
theorem pz_finish (R : U128) (ze zs : UInt64) (SC : Int32) (scale E3 : Nat) (s3 : Bool) (hzs : zs = sgnW s3)
    (hze : ze.toNat = E3 * 2^49) (hE3 : E3 < 2^14) (hSC : SC.toInt = scale) (hsE : scale ≤ E3) (hR34 : v128 R < 10^34)
    (f : UInt32) :
    (Except.ok ((⟨R.w0, R.w1 ||| (zs ||| (ze - (UInt64.ofInt (toI SC)) <<< 49) &&& c_MASK_EXP)⟩ : U128), false, false, false,
      false, f) : Except String Out)
      = .ok (ofBits (encode (.fin s3 (v128 R) ((E3 : Int) - 6176 - scale))), false, false, false, false, f) := by
  refine congrArg (fun p : U128 => Except.ok (p, false, false, false, false, f)) ?_
  have hw1 : R.w1.toNat < 2^49 := by
    have : (10:Nat)^34 < 2^113 := by norm_num
    unfold v128 at hR34; omega
  have hsh : ((UInt64.ofInt (toI SC)) <<< 49).toNat = scale * 2^49 := by
    rw [UInt64.toNat_shiftLeft, show (49 : UInt64).toNat % 64 = 49 from by decide, Nat.shiftLeft_eq,
      Dec.C13GenPack.ofInt_nonneg _ (by rw [hSC]; omega), hSC, Int.toNat_natCast, Nat.mod_eq_of_lt]
    calc scale * 2^49 < 2^14 * 2^49 := Nat.mul_lt_mul_of_pos_right (by omega) (by decide)
      _ < 2^64 := by norm_num
  have hze' : (ze - (UInt64.ofInt (toI SC)) <<< 49).toNat = (E3 - scale) * 2^49 := by
    have hle : scale * 2^49 ≤ E3 * 2^49 := Nat.mul_le_mul_right _ hsE
    have hlt : E3 * 2^49 < 2^64 := by
      calc E3 * 2^49 < 2^14 * 2^49 := Nat.mul_lt_mul_of_pos_right hE3 (by decide)
        _ < 2^64 := by norm_num
    rw [UInt64.toNat_sub, hsh, hze, Nat.sub_mul]
    omega
  have hF : E3 - scale < 2^14 := by omega
  rw [show ((E3 : Int) - 6176 - scale) = ((E3 - scale : Nat) : Int) - 6176 from by omega]
  refine fin_word_enc R _ s3 (E3 - scale) hF ?_ hw1
  rw [mask_exp_id _ (E3 - scale) hze' hF, pack_fields R.w1 zs _ hw1 s3 hzs (E3 - scale) hF hze']

set_option maxHeartbeats 2000000 in
/-- **the stage "zero product, non-zero addend"**: the addend with `scale` zeros appended to its coefficient — none if its
exponent is not above the product's, else as many as the gap to the product's exponent (clamped at the least exponent) and
34 digits allow; status word untouched -/
theorem prodZeroK_eval (z C1 C2 C3 : U128) (ze pe zs : UInt64) (q3 : Int32) (f : UInt32) (k : Except String Out)
    (hz12 : (isZ C1 || isZ C2) = true) (E3 PE : Nat) (hze : ze.toNat = E3 * 2^49) (hpe : pe.toNat = PE * 2^49)
    (hE3 : E3 < 2^14) (hPE : PE < 2^15) (c3pos : 0 < v128 C3) (c3lt : v128 C3 < 10^34)
    (hq3 : q3.toInt = (ndigits (v128 C3) : Nat)) (s3 : Bool) (hzs : zs = sgnW s3)
    (hzw : z.w0 = C3.w0 ∧ z.w1 = C3.w1 ||| (zs ||| ze)) (scale : Nat)
    (hsc : scale = if E3 ≤ PE then 0 else min (34 - ndigits (v128 C3)) (E3 - PE)) :
    prodZeroK z C1 C2 C3 ze pe zs q3 f k =
      .ok (ofBits (encode (.fin s3 (v128 C3 * 10 ^ scale) ((E3 : Int) - 6176 - scale))), false, false, false, false, f) := by
  obtain ⟨c3, hc3⟩ : ∃ c3, c3 = v128 C3 := ⟨_, rfl⟩
  rw [← hc3] at c3pos c3lt hq3 hsc ⊢
  obtain ⟨a1, a2⟩ := ndigits_spec c3pos
  have nq : ndigits c3 ≤ 34 := (ndigits_le_iff c3pos).2 c3lt
  have nq0 := ndigits_pos c3pos
  have hw1 : C3.w1.toNat < 2^49 := by
    have : v128 C3 < 2^113 := by rw [← hc3]; have : (10:Nat)^34 < 2^113 := by norm_num
                                 omega
    unfold v128 at this; omega
  have hle : decide (ze ≤ pe) = decide (E3 ≤ PE) := by
    rw [decide_eq_decide, UInt64.le_iff_toNat_le, hze, hpe]
    constructor
    · intro h; by_contra hn
      have : (PE + 1) * 2^49 ≤ E3 * 2^49 := Nat.mul_le_mul_right _ (by omega)
      rw [Nat.add_mul] at this; omega
    · intro h; exact Nat.mul_le_mul_right _ h
  unfold prodZeroK
  take_pos
  · rw [← hz12]; unfold isZ; rfl
  by_cases c0 : E3 ≤ PE
  · rw [if_pos c0] at hsc; subst hsc
    take_pos
    · rw [hle]; simpa using c0
    head_step
    simp only [Nat.pow_zero, Nat.mul_one, Nat.cast_zero, Int.sub_zero]
    refine congrArg (fun p : U128 => Except.ok (p, false, false, false, false, f)) ?_
    rw [hc3]
    refine fin_word_enc C3 _ s3 E3 hE3 ?_ hw1
    rw [mask_exp_id ze E3 hze hE3, UInt64.or_comm, pack_fields C3.w1 zs ze hw1 s3 hzs E3 hE3 hze]
  · rw [if_neg c0] at hsc
    take_neg
    · rw [hle]; simpa using c0
    have hgap : (ze - pe).toNat = (E3 - PE) * 2^49 := by
      have hle' : PE * 2^49 ≤ E3 * 2^49 := Nat.mul_le_mul_right _ (by omega)
      have hlt : E3 * 2^49 < 2^64 := by
        calc E3 * 2^49 < 2^14 * 2^49 := Nat.mul_lt_mul_of_pos_right hE3 (by decide)
          _ < 2^64 := by norm_num
      rw [UInt64.toNat_sub, hze, hpe, Nat.sub_mul]; omega
    have hind : (Int32.ofInt (toI ((ze - pe) >>> 49))).toInt = ((E3 - PE : Nat) : Int) := by
      show (Int32.ofInt ((((ze - pe) >>> 49).toNat : Nat) : Int)).toInt = _
      rw [shr49_field _ _ hgap, Int32.toInt_ofInt, show Int32.size = 2^32 from rfl, bmod32 (by omega) (by omega)]
    have hp34 : (c_P34 - q3).toInt = ((34 - ndigits c3 : Nat) : Int) := by
      rw [Int32.toInt_sub, hq3, show c_P34.toInt = 34 from by decide, bmod32 (by omega) (by omega)]; omega
    by_cases cI : E3 - PE < 34 - ndigits c3
    · take_pos
      · rw [decide_eq_true_eq, Int32.lt_iff_toInt_lt, hind, hp34]; omega
      head_step
      generalize hSCg : Int32.ofInt (toI ((ze - pe) >>> 49)) = SC
      have hSC : SC.toInt = scale := by rw [← hSCg]; rw [hind]; omega
      have hsE : scale ≤ E3 := by omega
      have hM34 : c3 * 10 ^ scale < 10 ^ 34 := by
        calc c3 * 10 ^ scale < 10 ^ ndigits c3 * 10 ^ scale := Nat.mul_lt_mul_of_pos_right a2 (Nat.pow_pos (by decide))
          _ = 10 ^ (ndigits c3 + scale) := (Nat.pow_add _ _ _).symm
          _ ≤ 10 ^ 34 := Nat.pow_le_pow_right (by decide) (by omega)
      have h128 : (10:Nat)^34 < 2^128 := by norm_num
      by_cases s0 : scale = 0
      · take_pos
        · rw [i32_beq_lit _ _ hSC 0 0 (by decide)]; simpa using s0
        head_step
        rw [hzw.1, hzw.2]
        have hze0 : ze - (UInt64.ofInt (toI SC)) <<< 49 = ze := by
          rw [← UInt64.toNat_inj, UInt64.toNat_sub, UInt64.toNat_shiftLeft, show (49 : UInt64).toNat % 64 = 49 from by decide,
            Nat.shiftLeft_eq, Dec.C13GenPack.ofInt_nonneg _ (by rw [hSC]; omega), hSC, s0]
          have := ze.toNat_lt
          simp
        have habs : C3.w1 ||| (zs ||| ze) ||| (zs ||| ze &&& c_MASK_EXP) = C3.w1 ||| (zs ||| ze &&& c_MASK_EXP) := by
          rw [mask_exp_id ze E3 hze hE3, UInt64.or_assoc, UInt64.or_self]
        show Except.ok ((⟨C3.w0, C3.w1 ||| (zs ||| ze) ||| (zs ||| (ze - (UInt64.ofInt (toI SC)) <<< 49) &&& c_MASK_EXP)⟩ : U128),
          false, false, false, false, f) = _
        rw [hze0, habs, ← hze0]
        have := pz_finish C3 ze zs SC scale E3 s3 hzs hze hE3 hSC hsE (by rw [← hc3]; exact c3lt) f
        rw [this, ← hc3, s0]
        simp
      · take_neg
        · rw [i32_beq_lit _ _ hSC 0 0 (by decide)]; simpa using s0
        by_cases cq : ndigits c3 ≤ 19
        · take_pos
          · rw [i32_le_lit _ _ hq3 19 19 (by decide)]; simpa using cq
          have w3 := v128_w0 C3 (by rw [← hc3]; have : (10:Nat)^(ndigits c3) ≤ 10^19 := Nat.pow_le_pow_right (by decide) cq
                                    omega)
          rw [← hc3] at w3
          by_cases cs : scale ≤ 19
          · take_pos
            · rw [i32_le_lit _ _ hSC 19 19 (by decide)]; simpa using cs
            take_call (show tbl64 Dec.Gen.BID_TEN2K64 (UInt64.ofInt (toI SC)) = .ok (UInt64.ofNat (10 ^ scale)) by
              rw [idx_of _ _ hSC]; exact ten2k64_get _ (by omega))
            obtain ⟨R, hm, hR⟩ := Dec.C01GenArith.gen_mul_64x64_to_128MACH C3.w0 (UInt64.ofNat (10 ^ scale))
            take_call hm
            head_step
            have hp : (UInt64.ofNat (10 ^ scale)).toNat = 10 ^ scale := by
              rw [UInt64.toNat_ofNat', Nat.mod_eq_of_lt]
              have : (10:Nat)^scale ≤ 10^19 := Nat.pow_le_pow_right (by decide) cs
              omega
            have hRv : v128 R = c3 * 10 ^ scale := by rw [← w3.1, ← hp]; exact hR
            have := pz_finish R ze zs SC scale E3 s3 hzs hze hE3 hSC hsE (by rw [hRv]; exact hM34) f
            rw [hRv] at this
            exact this
          · take_neg
            · rw [i32_le_lit _ _ hSC 19 19 (by decide)]; simpa using cs
            have hs20 : (SC - 20).toInt = (scale - 20 : Nat) := i32_sub_small _ _ 20 hSC (by omega) 20 (by decide) (by omega)
            take_call (show tbl128 Dec.Gen.BID_TEN2K128 (UInt64.ofInt (toI (SC - 20))) = .ok (mk128 (10 ^ (scale - 20 + 20))) by
              rw [idx_of _ _ hs20]; exact ten2k128_get _ (by omega))
            have hT : (mk128 (10 ^ (scale - 20 + 20))).toNat' = 10 ^ scale := by
              rw [show scale - 20 + 20 = scale from by omega]
              apply mk128_val
              have : (10:Nat)^scale ≤ 10^33 := Nat.pow_le_pow_right (by decide) (by omega)
              omega
            obtain ⟨R, hm, hR⟩ := Dec.C01GenArith.gen_mul_128x64_to_128_exact C3.w0 (mk128 (10 ^ (scale - 20 + 20))) (by
              rw [hT, w3.1]; omega)
            take_call hm
            head_step
            have hRv : v128 R = c3 * 10 ^ scale := by rw [← w3.1, ← hT]; exact hR
            have := pz_finish R ze zs SC scale E3 s3 hzs hze hE3 hSC hsE (by rw [hRv]; exact hM34) f
            rw [hRv] at this
            exact this
        · take_neg
          · rw [i32_le_lit _ _ hq3 19 19 (by decide)]; simpa using cq
          take_call (show tbl64 Dec.Gen.BID_TEN2K64 (UInt64.ofInt (toI SC)) = .ok (UInt64.ofNat (10 ^ scale)) by
            rw [idx_of _ _ hSC]; exact ten2k64_get _ (by omega))
          have hp : (UInt64.ofNat (10 ^ scale)).toNat = 10 ^ scale := by
            rw [UInt64.toNat_ofNat', Nat.mod_eq_of_lt]
            have : (10:Nat)^scale ≤ 10^14 := Nat.pow_le_pow_right (by decide) (by omega)
            omega
          obtain ⟨R, hm, hR⟩ := Dec.C01GenArith.gen_mul_128x64_to_128_exact (UInt64.ofNat (10 ^ scale)) C3 (by
            rw [hp]; show 10 ^ scale * v128 C3 < _; rw [← hc3, Nat.mul_comm]; omega)
          take_call hm
          head_step
          have hRv : v128 R = c3 * 10 ^ scale := by rw [Nat.mul_comm, ← hp, hc3]; exact hR
          have := pz_finish R ze zs SC scale E3 s3 hzs hze hE3 hSC hsE (by rw [hRv]; exact hM34) f
          rw [hRv] at this
          exact this

    · take_neg
      · rw [decide_eq_true_eq, Int32.lt_iff_toInt_lt, hind, hp34]; omega
      head_step
      generalize hSCg : c_P34 - q3 = SC
      have hSC : SC.toInt = scale := by rw [← hSCg]; rw [hp34]; omega
      have hsE : scale ≤ E3 := by omega
      have hM34 : c3 * 10 ^ scale < 10 ^ 34 := by
        calc c3 * 10 ^ scale < 10 ^ ndigits c3 * 10 ^ scale := Nat.mul_lt_mul_of_pos_right a2 (Nat.pow_pos (by decide))
          _ = 10 ^ (ndigits c3 + scale) := (Nat.pow_add _ _ _).symm
          _ ≤ 10 ^ 34 := Nat.pow_le_pow_right (by decide) (by omega)
      have h128 : (10:Nat)^34 < 2^128 := by norm_num
      by_cases s0 : scale = 0
      · take_pos
        · rw [i32_beq_lit _ _ hSC 0 0 (by decide)]; simpa using s0
        head_step
        rw [hzw.1, hzw.2]
        have hze0 : ze - (UInt64.ofInt (toI SC)) <<< 49 = ze := by
          rw [← UInt64.toNat_inj, UInt64.toNat_sub, UInt64.toNat_shiftLeft, show (49 : UInt64).toNat % 64 = 49 from by decide,
            Nat.shiftLeft_eq, Dec.C13GenPack.ofInt_nonneg _ (by rw [hSC]; omega), hSC, s0]
          have := ze.toNat_lt
          simp
        have habs : C3.w1 ||| (zs ||| ze) ||| (zs ||| ze &&& c_MASK_EXP) = C3.w1 ||| (zs ||| ze &&& c_MASK_EXP) := by
          rw [mask_exp_id ze E3 hze hE3, UInt64.or_assoc, UInt64.or_self]
        show Except.ok ((⟨C3.w0, C3.w1 ||| (zs ||| ze) ||| (zs ||| (ze - (UInt64.ofInt (toI SC)) <<< 49) &&& c_MASK_EXP)⟩ : U128),
          false, false, false, false, f) = _
        rw [hze0, habs, ← hze0]
        have := pz_finish C3 ze zs SC scale E3 s3 hzs hze hE3 hSC hsE (by rw [← hc3]; exact c3lt) f
        rw [this, ← hc3, s0]
        simp
      · take_neg
        · rw [i32_beq_lit _ _ hSC 0 0 (by decide)]; simpa using s0
        by_cases cq : ndigits c3 ≤ 19
        · take_pos
          · rw [i32_le_lit _ _ hq3 19 19 (by decide)]; simpa using cq
          have w3 := v128_w0 C3 (by rw [← hc3]; have : (10:Nat)^(ndigits c3) ≤ 10^19 := Nat.pow_le_pow_right (by decide) cq
                                    omega)
          rw [← hc3] at w3
          by_cases cs : scale ≤ 19
          · take_pos
            · rw [i32_le_lit _ _ hSC 19 19 (by decide)]; simpa using cs
            take_call (show tbl64 Dec.Gen.BID_TEN2K64 (UInt64.ofInt (toI SC)) = .ok (UInt64.ofNat (10 ^ scale)) by
              rw [idx_of _ _ hSC]; exact ten2k64_get _ (by omega))
            obtain ⟨R, hm, hR⟩ := Dec.C01GenArith.gen_mul_64x64_to_128MACH C3.w0 (UInt64.ofNat (10 ^ scale))
            take_call hm
            head_step
            have hp : (UInt64.ofNat (10 ^ scale)).toNat = 10 ^ scale := by
              rw [UInt64.toNat_ofNat', Nat.mod_eq_of_lt]
              have : (10:Nat)^scale ≤ 10^19 := Nat.pow_le_pow_right (by decide) cs
              omega
            have hRv : v128 R = c3 * 10 ^ scale := by rw [← w3.1, ← hp]; exact hR
            have := pz_finish R ze zs SC scale E3 s3 hzs hze hE3 hSC hsE (by rw [hRv]; exact hM34) f
            rw [hRv] at this
            exact this
          · take_neg
            · rw [i32_le_lit _ _ hSC 19 19 (by decide)]; simpa using cs
            have hs20 : (SC - 20).toInt = (scale - 20 : Nat) := i32_sub_small _ _ 20 hSC (by omega) 20 (by decide) (by omega)
            take_call (show tbl128 Dec.Gen.BID_TEN2K128 (UInt64.ofInt (toI (SC - 20))) = .ok (mk128 (10 ^ (scale - 20 + 20))) by
              rw [idx_of _ _ hs20]; exact ten2k128_get _ (by omega))
            have hT : (mk128 (10 ^ (scale - 20 + 20))).toNat' = 10 ^ scale := by
              rw [show scale - 20 + 20 = scale from by omega]
              apply mk128_val
              have : (10:Nat)^scale ≤ 10^33 := Nat.pow_le_pow_right (by decide) (by omega)
              omega
            obtain ⟨R, hm, hR⟩ := Dec.C01GenArith.gen_mul_128x64_to_128_exact C3.w0 (mk128 (10 ^ (scale - 20 + 20))) (by
              rw [hT, w3.1]; omega)
            take_call hm
            head_step
            have hRv : v128 R = c3 * 10 ^ scale := by rw [← w3.1, ← hT]; exact hR
            have := pz_finish R ze zs SC scale E3 s3 hzs hze hE3 hSC hsE (by rw [hRv]; exact hM34) f
            rw [hRv] at this
            exact this
        · take_neg
          · rw [i32_le_lit _ _ hq3 19 19 (by decide)]; simpa using cq
          take_call (show tbl64 Dec.Gen.BID_TEN2K64 (UInt64.ofInt (toI SC)) = .ok (UInt64.ofNat (10 ^ scale)) by
            rw [idx_of _ _ hSC]; exact ten2k64_get _ (by omega))
          have hp : (UInt64.ofNat (10 ^ scale)).toNat = 10 ^ scale := by
            rw [UInt64.toNat_ofNat', Nat.mod_eq_of_lt]
            have : (10:Nat)^scale ≤ 10^14 := Nat.pow_le_pow_right (by decide) (by omega)
            omega
          obtain ⟨R, hm, hR⟩ := Dec.C01GenArith.gen_mul_128x64_to_128_exact (UInt64.ofNat (10 ^ scale)) C3 (by
            rw [hp]; show 10 ^ scale * v128 C3 < _; rw [← hc3, Nat.mul_comm]; omega)
          take_call hm
          head_step
          have hRv : v128 R = c3 * 10 ^ scale := by rw [Nat.mul_comm, ← hp, hc3]; exact hR
          have := pz_finish R ze zs SC scale E3 s3 hzs hze hE3 hSC hsE (by rw [hRv]; exact hM34) f
          rw [hRv] at this
          exact this



/-- the digit count stage on any coefficient below `2^113` hands on SOME count and scratch value -/
theorem digitsK_any {α : Type} (C1 : U128) (tmp : F64U) (k : Int32 → F64U → Except String α) (h1 : v128 C1 < 2^113) :
    ∃ (q : Int32) (tmp' : F64U), digitsK C1 tmp k = k q tmp' := by
  by_cases hz : isZ C1 = true
  · exact ⟨0, tmp, digitsK_zero C1 tmp k hz⟩
  · have h0 : 0 < v128 C1 := by
      rw [isZ_of_val] at hz
      have : v128 C1 ≠ 0 := by simpa using hz
      omega
    obtain ⟨q, t, h, -⟩ := digitsK_spec C1 tmp k h0 h1
    exact ⟨q, t, h⟩

/-- a finite operand with a non-zero coefficient is canonical: its words are the three fields side by side -/
theorem canon_words (z : U128) (s : Bool) (c : Nat) (e : Int) (hD : dOf z = .fin s c e) (hc : c ≠ 0) :
    z.w0 = (unpC z).2.w0 ∧ z.w1 = (unpC z).2.w1 ||| ((z.w1 &&& c_MASK_SIGN) ||| (unpC z).1) := by
  have hl := z.w0.toNat_lt
  have hh := z.w1.toNat_lt
  have hD' := hD
  rw [dOf_W] at hD'
  rcases decodeW_cases z.w1.toNat z.w0.toNat with ⟨h1, h2, hd⟩ | ⟨h1, h2, h3, hd⟩ | ⟨h1, h2, h3, hd⟩ | ⟨h1, h2, hd⟩ |
    ⟨h1, h2, h3, hd⟩ | ⟨h1, h2, h3, hd⟩ <;> rw [hd] at hD' <;> cases hD'
  · exact absurd rfl hc
  · have ts : ¬ tS z = true := by rw [tS_eq]; simpa using h2
    have tb : ¬ tB z = true := by rw [tB_eq]; simp only [decide_eq_true_eq]; omega
    rw [unpC_c ts tb]
    refine ⟨rfl, ?_⟩
    show z.w1 = (z.w1 &&& c_MASK_COEFF) ||| ((z.w1 &&& c_MASK_SIGN) ||| (z.w1 &&& c_MASK_EXP))
    rw [← UInt64.toNat_inj]
    have hco : (z.w1 &&& c_MASK_COEFF).toNat = (z.w1.toNat / 2^0 % 2^49) * 2^0 := toNat_and_field _ c_MASK_COEFF 49 0 (by decide)
    have hex : (z.w1 &&& c_MASK_EXP).toNat = (z.w1.toNat / 2^49 % 2^14) * 2^49 := toNat_and_field _ c_MASK_EXP 14 49 (by decide)
    have hsg : (z.w1 &&& c_MASK_SIGN).toNat = (z.w1.toNat / 2^63 % 2^1) * 2^63 := toNat_and_field _ c_MASK_SIGN 1 63 (by decide)
    have hsw : z.w1 &&& c_MASK_SIGN = sgnW (decide (z.w1.toNat / 2^63 % 2 = 1)) := by
      rw [← UInt64.toNat_inj, hsg, Dec.C02GenFmaSwap.sgnW_toNat]
      by_cases hb : z.w1.toNat / 2^63 % 2 = 1
      · rw [decide_eq_true hb]; simp only [if_true]; omega
      · rw [decide_eq_false hb]; simp only [Bool.false_eq_true, if_false]; omega
    rw [pack_fields _ _ _ (by rw [hco]; omega) _ hsw (z.w1.toNat / 2^49 % 2^14) (Nat.mod_lt _ (by decide)) hex, hco]
    by_cases hb : z.w1.toNat / 2^63 % 2 = 1
    · simp only [hb, decide_true, if_true]; omega
    · simp only [hb, decide_false, Bool.false_eq_true, if_false]; omega
  · exact absurd rfl hc

set_option maxHeartbeats 1000000 in
/-- **zero product, non-zero addend** (three finite operands; `x` or `y` a zero or a non-canonical pattern): the front end
answers, and the answer is `fmaD`: the addend, its coefficient padded with zeros towards the preferred exponent
`min (e1 + e2, e3)` as far as 34 digits and the least exponent allow; no flag, whatever the rounding mode -/
theorem front_prod_zero (p1 p2 p3 p4 : Bool) (x y z : U128) (m : RoundingMode) (f : UInt32)
    {s1 s2 s3 : Bool} {c1 c2 c3 : Nat} {e1 e2 e3 : Int}
    (hx : dOf x = .fin s1 c1 e1) (hy : dOf y = .fin s2 c2 e2) (hz : dOf z = .fin s3 c3 e3) (h12 : c1 * c2 = 0) (h3 : c3 ≠ 0) :
    bid128_ext_fma p1 p2 p3 p4 x y z m f =
      .ok (ofBits (encode (fmaD (Dec.C02GenCorrection.modeOf m) false (dOf x) (dOf y) (dOf z)).1), false, false, false, false,
        f ||| UInt32.ofNat (fmaD (Dec.C02GenCorrection.modeOf m) false (dOf x) (dOf y) (dOf z)).2) := by
  obtain ⟨nx, sx, ex, vx, lx, rx1, rx2⟩ := fin_unpack x s1 c1 e1 hx
  obtain ⟨ny, sy, ey, vy, ly, ry1, ry2⟩ := fin_unpack y s2 c2 e2 hy
  obtain ⟨nz, sz, ez, vz, lz, rz1, rz2⟩ := fin_unpack z s3 c3 e3 hz
  have z3 : isZ (unpC z).2 = false := by rw [isZ_of_val, vz]; simpa using h3
  have z12 : (isZ (unpC x).2 || isZ (unpC y).2) = true := by
    rw [isZ_of_val, isZ_of_val, vx, vy]
    rcases Nat.mul_eq_zero.1 h12 with h | h <;> simp [h]
  have h113 : (10:Nat)^34 < 2^113 := by norm_num
  have c3pos : 0 < c3 := Nat.pos_of_ne_zero h3
  obtain ⟨scale, hscale⟩ : ∃ scale : Nat, scale = if e3 ≤ e1 + e2 then 0 else
      min (34 - ndigits c3) (e3 - max (e1 + e2) (-6176)).toNat := ⟨_, rfl⟩
  have hmodel : fmaD (Dec.C02GenCorrection.modeOf m) false (dOf x) (dOf y) (dOf z) =
      (.fin s3 (c3 * 10 ^ scale) (e3 - scale), 0) := by
    rw [hx, hy, hz]
    show addFin _ (s1 != s2) (c1 * c2) (e1 + e2) s3 c3 e3 _ false = _
    rw [h12]
    exact fmaD_prod_zero _ _ s3 (e1 + e2) c3 e3 c3pos lz rz1 rz2 scale hscale
  rw [hmodel, ext_fma_shape]
  unfold frontK
  rw [nanK_skip x y z f _ (by rw [hx]; rfl) (by rw [hy]; rfl) (by rw [hz]; rfl),
    unpackK_eval x, unpackK_eval y, unpackK_eval z, if_pos nx, if_pos nx, if_pos ny, if_pos ny, if_pos nz, if_pos nz,
    infK_skip x y z _ _ _ _ _ f _ nx ny nz,
    zeroK_skip _ _ _ _ _ _ _ _ m f _ (by rw [z3]; simp)]
  generalize hk1 : (fun (q1 : Int32) (tmp : F64U) => digitsK (unpC y).2 tmp _) = K1
  obtain ⟨q1, t1, hd1⟩ := digitsK_any (unpC x).2 default K1 (by rw [vx]; omega)
  rw [hd1]; subst hk1
  simp only []
  generalize hk2 : (fun (q2 : Int32) (tmp : F64U) => digitsK (unpC z).2 tmp _) = K2
  obtain ⟨q2, t2, hd2⟩ := digitsK_any (unpC y).2 t1 K2 (by rw [vy]; omega)
  rw [hd2]; subst hk2
  simp only []
  generalize hk3 : (fun (q3 : Int32) (tmp : F64U) => prodZeroK z _ _ _ _ _ _ q3 f _) = K3
  obtain ⟨q3, t3, hd3, hq3⟩ := digitsK_spec (unpC z).2 t2 K3 (by rw [vz]; omega) (by rw [vz]; omega)
  rw [hd3]; subst hk3
  simp only []
  -- the stage
  have hpe := pExpW_val (unpC x).1 (unpC y).1 _ _ ex ey (by omega) (by omega)
  obtain ⟨PE, hPE⟩ : ∃ PE : Nat, PE = (max (e1 + e2 + 6176) 0).toNat := ⟨_, rfl⟩
  have hpe' : (pExpW (unpC x).1 (unpC y).1).toNat = PE * 2^49 := by
    rw [hpe]
    by_cases hneg : ((e1 + 6176).toNat : Int) + (e2 + 6176).toNat - 12352 < -6176
    · rw [if_pos hneg]; have : PE = 0 := by omega
      rw [this, Nat.zero_mul]
    · rw [if_neg hneg]; have : (e1 + 6176).toNat + (e2 + 6176).toNat - 6176 = PE := by omega
      rw [this]
  obtain ⟨w0, w1⟩ := canon_words z s3 c3 e3 hz h3
  rw [prodZeroK_eval z _ _ (unpC z).2 (unpC z).1 _ _ q3 f _ z12 (e3 + 6176).toNat PE ez hpe' (by omega) (by omega)
    (by rw [vz]; exact c3pos) (by rw [vz]; exact lz) hq3 s3 sz ⟨w0, w1⟩ scale (by
      rw [hscale, vz]
      by_cases hle : e3 ≤ e1 + e2
      · rw [if_pos hle, if_pos (by omega)]
      · rw [if_neg hle]
        by_cases hz0 : (e3 + 6176).toNat ≤ PE
        · rw [if_pos hz0]
          have : (e3 - max (e1 + e2) (-6176)).toNat = 0 := by omega
          rw [this]; simp
        · rw [if_neg hz0]
          congr 1
          omega)]
  rw [vz, show f ||| UInt32.ofNat (0 : Flags) = f from UInt32.or_zero,
    show (((e3 + 6176).toNat : Nat) : Int) - 6176 - scale = e3 - scale from by omega]


/-! ## 11. Together, and examples -/

/-- **everything the front end answers itself, for operands that are not NaNs** (NaNs: `C12GenNaN.ext_fma_nan`): an
infinite operand, or a zero (or non-canonical) factor — the result is `fmaD`'s datum canonically encoded, the four
indicators are `false`, `fmaD`'s flags are OR-ed into the status word -/
theorem front_answers (p1 p2 p3 p4 : Bool) (x y z : U128) (m : RoundingMode) (f : UInt32)
    (hx : (dOf x).isNaN = false) (hy : (dOf y).isNaN = false) (hz : (dOf z).isNaN = false)
    (h : ((dOf x).isInf || (dOf y).isInf || (dOf z).isInf) = true ∨ ((dOf x).isZero || (dOf y).isZero) = true) :
    bid128_ext_fma p1 p2 p3 p4 x y z m f =
      .ok (ofBits (encode (fmaD (Dec.C02GenCorrection.modeOf m) false (dOf x) (dOf y) (dOf z)).1), false, false, false, false,
        f ||| UInt32.ofNat (fmaD (Dec.C02GenCorrection.modeOf m) false (dOf x) (dOf y) (dOf z)).2) := by
  by_cases hi : ((dOf x).isInf || (dOf y).isInf || (dOf z).isInf) = true
  · exact front_inf p1 p2 p3 p4 x y z m f hx hy hz hi
  · have hz0 : ((dOf x).isZero || (dOf y).isZero) = true := by
      rcases h with h | h
      · exact absurd h hi
      · exact h
    simp only [Bool.or_eq_true, not_or, Bool.not_eq_true] at hi
    obtain ⟨⟨ix, iy⟩, iz⟩ := hi
    cases hdx : dOf x with
    | nan _ _ _ => rw [hdx] at hx; exact Bool.noConfusion hx
    | inf _ => rw [hdx] at ix; exact Bool.noConfusion ix
    | fin s1 c1 e1 =>
      cases hdy : dOf y with
      | nan _ _ _ => rw [hdy] at hy; exact Bool.noConfusion hy
      | inf _ => rw [hdy] at iy; exact Bool.noConfusion iy
      | fin s2 c2 e2 =>
        cases hdz : dOf z with
        | nan _ _ _ => rw [hdz] at hz; exact Bool.noConfusion hz
        | inf _ => rw [hdz] at iz; exact Bool.noConfusion iz
        | fin s3 c3 e3 =>
          have h12 : c1 * c2 = 0 := by
            rw [hdx, hdy] at hz0
            simp only [Datum.isZero, Bool.or_eq_true, beq_iff_eq] at hz0
            rcases hz0 with h | h <;> rw [h] <;> simp
          rw [← hdx, ← hdy, ← hdz]
          by_cases h3 : c3 = 0
          · subst h3; exact front_zero_zero p1 p2 p3 p4 x y z m f hdx hdy hdz h12
          · exact front_prod_zero p1 p2 p3 p4 x y z m f hdx hdy hdz h12 h3

-- Inf·0 + 1: invalid; Inf·2 + (−Inf): invalid; (−Inf)·(−2) + Inf = +Inf (status word 0x20 on entry)
example : bid128_ext_fma false false false false ⟨0, 0x7800000000000000⟩ ⟨0, 0x3040000000000000⟩ ⟨1, 0x3040000000000000⟩
    .NearestEven 0x20 = .ok (⟨0, 0x7c00000000000000⟩, false, false, false, false, 0x21) := by decide +kernel
example : bid128_ext_fma false false false false ⟨0, 0x7800000000000000⟩ ⟨2, 0x3040000000000000⟩ ⟨0, 0xf800000000000000⟩
    .NearestEven 0x20 = .ok (⟨0, 0x7c00000000000000⟩, false, false, false, false, 0x21) := by decide +kernel
example : bid128_ext_fma false false false false ⟨0, 0xf800000000000000⟩ ⟨2, 0xb040000000000000⟩ ⟨0, 0x7800000000000000⟩
    .NearestEven 0x20 = .ok (⟨0, 0x7800000000000000⟩, false, false, false, false, 0x20) := by decide +kernel
-- 0·5 + (−0) = +0 (nearest); (−0)·5 + (+0E+2) toward −∞ = −0E+0
example : bid128_ext_fma false false false false ⟨0, 0x3040000000000000⟩ ⟨5, 0x3040000000000000⟩ ⟨0, 0xb040000000000000⟩
    .NearestEven 0x20 = .ok (⟨0, 0x3040000000000000⟩, false, false, false, false, 0x20) := by decide +kernel
example : bid128_ext_fma false false false false ⟨0, 0xb040000000000000⟩ ⟨5, 0x3040000000000000⟩ ⟨0, 0x3044000000000000⟩
    .Downward 0x20 = .ok (⟨0, 0xb040000000000000⟩, false, false, false, false, 0x20) := by decide +kernel
-- 0E+10·5 + 7E+3 = 7E+3 (the addend's exponent is the smaller one); 0·5E−3 + 123 = 123000E−3 (padded to the product's exponent);
-- a non-canonical x (coefficient 10^34) is a zero: the same; 0E−6176·0E−6176 + 1E−6175 = 10E−6176 (clamped at the least exponent)
example : bid128_ext_fma false false false false ⟨0, 0x3054000000000000⟩ ⟨5, 0x3040000000000000⟩ ⟨7, 0x3046000000000000⟩
    .NearestEven 0x20 = .ok (⟨7, 0x3046000000000000⟩, false, false, false, false, 0x20) := by decide +kernel
example : bid128_ext_fma false false false false ⟨0, 0x3040000000000000⟩ ⟨5, 0x303a000000000000⟩ ⟨123, 0x3040000000000000⟩
    .Upward 0x20 = .ok (⟨123000, 0x303a000000000000⟩, false, false, false, false, 0x20) := by decide +kernel
example : bid128_ext_fma false false false false ⟨0x378d8e6400000000, 0x3041ed09bead87c0⟩ ⟨5, 0x303a000000000000⟩
    ⟨123, 0x3040000000000000⟩ .Upward 0x20 = .ok (⟨123000, 0x303a000000000000⟩, false, false, false, false, 0x20) := by
  decide +kernel
example : bid128_ext_fma false false false false ⟨0, 0⟩ ⟨0, 0⟩ ⟨1, 0x0002000000000000⟩ .NearestEven 0x20
    = .ok (⟨10, 0⟩, false, false, false, false, 0x20) := by decide +kernel
-- the model says the same (through `front_answers`)
example : fmaD .rup false (dOf ⟨0, 0x3040000000000000⟩) (dOf ⟨5, 0x303a000000000000⟩) (dOf ⟨123, 0x3040000000000000⟩)
    = (.fin false 123000 (-3), 0) := by decide +kernel
-- the hand-over on 2·3 + 4: the case loop is entered with C4 = 6, q4 = 1, q3 = 1, e3 = e4 = 0
example : ∃ zs ps ze pe C3 C4 q3 q4 e3w e4w tmp,
    Handover false false false 2 3 4 0 0 0 zs ps ze pe C3 C4 q3 q4 e3w e4w ∧
    bid128_ext_fma false false false false ⟨2, 0x3040000000000000⟩ ⟨3, 0x3040000000000000⟩ ⟨4, 0x3040000000000000⟩ .NearestEven 0
      = caseLoop false false false false .NearestEven 0 zs ps ze pe C3 C4 q3 q4 e3w e4w tmp :=
  front_spec false false false false _ _ _ .NearestEven 0 (by decide +kernel) (by decide +kernel) (by decide +kernel)
    (by decide) (by decide)

end Dec.C02GenFmaFrontSpec
