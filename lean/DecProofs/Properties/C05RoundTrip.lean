/-
  C05 (digit level) — the printed form of a datum denotes exactly its sign, coefficient and quantum
  exponent, and parsing it gives the datum back with no flag.
-/
import DecModel.Ops
import DecProofs.Core.DigitStr
import DecProofs.Core.Finish

namespace Dec.C05RoundTrip

/-- The exactness of the universal finishing step on members of the format: a non-zero value that
already is `c · 10^e` with `c < 10^34` and `e` in range, asked for at its own exponent, comes back
unchanged with no flag.  (Proved separately as `Dec.finish_representable`.) -/
def FinishExact : Prop :=
  ∀ (mode : Mode) (s : Bool) (c : Nat) (e : Int),
    c ≠ 0 → c < P34 → eMin ≤ e → e ≤ eMax → finish mode s c 1 e e = (.fin s c e, 0)

/-! ### The text denotes exactly sign, coefficient and quantum exponent -/

/-- the exponent printed as sign and magnitude reads back as the exponent -/
theorem signed_natAbs (e : Int) :
    (if decide (e < 0) then -((e.natAbs : Nat) : Int) else ((e.natAbs : Nat) : Int)) = e := by
  by_cases h : e < 0
  · rw [decide_eq_true h, if_pos rfl]; omega
  · rw [decide_eq_false h, if_neg (by decide)]; omega

/-- Parsing the printed form of any finite datum (either exponent letter, any coefficient, any
exponent — no range restriction) with the strict grammar yields the literal whose sign is the datum's
sign, whose integer digits are the decimal digits of the coefficient, with no fraction digits, and
whose exponent is the datum's exponent. -/
theorem parse_format_finite (up s : Bool) (c : Nat) (e : Int) :
    parseLiteral (format up (.fin s c e)) =
      some { neg := s, intDigits := digitBytes c, fracDigits := [], exp := e } := by
  have h := parseLiteral_sci (if s then 45 else 43) (if up then 69 else 101)
    (if e < 0 then 45 else 43) (digitBytes c) (digitBytes e.natAbs) s (decide (e < 0)) rfl
    (by cases up <;> simp) (by by_cases he : e < 0 <;> simp [he])
    (digitBytes_isDigit c) (digitBytes_ne_nil c) (digitBytes_isDigit _) (digitBytes_ne_nil _)
  rw [digitsVal_digitBytes, signed_natAbs] at h
  rw [← h]
  simp [format]

example : parseLiteral (format true (.fin true 1234 (-6176))) =
    some { neg := true, intDigits := [49, 50, 51, 52], fracDigits := [], exp := -6176 } := by
  rw [parse_format_finite]; rfl

/-- the literal read back from the printed form of `±c·10^e` -/
def lit (s : Bool) (c : Nat) (e : Int) : Literal :=
  { neg := s, intDigits := digitBytes c, fracDigits := [], exp := e }

/-- the literal read back has coefficient `c` -/
theorem lit_coeff (s : Bool) (c : Nat) (e : Int) : (lit s c e).coeff = c := by
  simp [lit, Literal.coeff, digitsVal_digitBytes]

/-- the literal read back has decimal exponent `e` -/
theorem lit_exp10 (s : Bool) (c : Nat) (e : Int) : (lit s c e).exp10 = e := by
  simp [lit, Literal.exp10]

/-- the literal read back has the datum's sign -/
theorem lit_neg (s : Bool) (c : Nat) (e : Int) : (lit s c e).neg = s := rfl

/-- a coefficient below `10^34` prints with at most 34 significant digits (so the printed form of every
well-formed datum is within the 100-digit range in which the parsing expectation is exact) -/
theorem lit_sigDigits_le (s : Bool) (c : Nat) (e : Int) (hc : c < P34) :
    (lit s c e).sigDigits.length ≤ 34 := by
  have h1 : (lit s c e).sigDigits.length ≤ (digitBytes c).length := by
    simp only [lit, Literal.sigDigits, List.append_nil]
    exact (List.dropWhile_sublist _).length_le
  have h2 : (digitBytes c).length ≤ 34 :=
    digitBytes_length_le c 34 (by decide) (by simpa [P34] using hc)
  omega

/-- Reading the printed form of a finite datum: sign, coefficient and exponent are exactly the
datum's (for every coefficient and exponent), and at most 34 significant digits when `c < 10^34`. -/
theorem parse_format_fields (up s : Bool) (c : Nat) (e : Int) :
    (parseLiteral (format up (.fin s c e))).map (fun l => (l.neg, l.coeff, l.exp10)) = some (s, c, e) ∧
    (c < P34 → ((parseLiteral (format up (.fin s c e))).map (fun l => l.sigDigits.length ≤ 34)) = some True) := by
  rw [parse_format_finite]
  refine ⟨?_, fun hc => ?_⟩
  · simp only [Option.map_some]
    rw [show ({ neg := s, intDigits := digitBytes c, fracDigits := [], exp := e } : Literal) = lit s c e from rfl,
      lit_coeff, lit_exp10]
  · simp only [Option.map_some]
    rw [show ({ neg := s, intDigits := digitBytes c, fracDigits := [], exp := e } : Literal) = lit s c e from rfl]
    simp [lit_sigDigits_le s c e hc]

example : (parseLiteral (format false (.fin false 9999999999999999999999999999999999 6111))).map
    (fun l => (l.neg, l.coeff, l.exp10)) = some (false, 9999999999999999999999999999999999, 6111) :=
  (parse_format_fields _ _ _ _).1

/-! ### Infinities and NaNs -/

/-- the printed form of an infinity is classified as that infinity -/
theorem classify_format_inf (up s : Bool) : classifyText (format up (.inf s)) = .inf s := by
  cases s <;> rfl

/-- the printed form of a quiet NaN (any payload; the text does not carry it) is classified as a quiet
NaN of that sign -/
theorem classify_format_qnan (up s : Bool) (p : Nat) :
    classifyText (format up (.nan s false p)) = .qnan s := by
  cases s <;> rfl

/-- the printed form of a signalling NaN is classified as a signalling NaN of that sign -/
theorem classify_format_snan (up s : Bool) (p : Nat) :
    classifyText (format up (.nan s true p)) = .snan s := by
  cases s <;> rfl

/-- the printed form of a finite datum is classified as a well-formed literal, never as a special
value, ill-formed or lenient text -/
theorem classify_format_finite (up s : Bool) (c : Nat) (e : Int) :
    classifyText (format up (.fin s c e)) = .literal (lit s c e) := by
  simp only [classifyText, parse_format_finite]
  rfl

/-! ### The round trip -/

/-- an in-range exponent is not clamped -/
theorem clamp_inRange (e : Int) (h1 : eMin ≤ e) (h2 : e ≤ eMax) : clampInt eMin eMax e = e := by
  unfold clampInt
  rw [if_neg (by omega), if_neg (by omega)]

/-- the value a literal read back from the printed form of a well-formed finite datum converts to is
that datum, with no flag (given exactness of `finish` on members of the format) -/
theorem spec_lit (hF : FinishExact) (mode : Mode) (s : Bool) (c : Nat) (e : Int)
    (hc : c < P34) (h1 : eMin ≤ e) (h2 : e ≤ eMax) :
    parseLiteralSpec mode (lit s c e) = (.fin s c e, 0) := by
  unfold parseLiteralSpec
  rw [lit_coeff, lit_exp10, lit_neg]
  by_cases h0 : c = 0
  · subst h0
    simp only [if_true, zeroAt, clamp_inRange e h1 h2]
  · rw [if_neg h0]
    exact hF mode s c e h0 hc h1 h2

/-- **Round trip.**  For every well-formed finite datum `d = ±c·10^e` (`c < 10^34`, `eMin ≤ e ≤ eMax`;
zeros of either sign and every cohort member included), either exponent letter and every rounding
mode: the printed form of `d` is a well-formed literal, and the value that literal must convert to is
`d` itself — same sign, same coefficient, same exponent — with no flag raised. -/
theorem roundtrip_of_finishExact (hF : FinishExact) (up : Bool) (mode : Mode) (s : Bool) (c : Nat) (e : Int)
    (hwf : (Datum.fin s c e).WF) :
    (parseLiteral (format up (.fin s c e))).map (parseLiteralSpec mode) = some (.fin s c e, 0) := by
  obtain ⟨hc, h1, h2⟩ := hwf
  rw [parse_format_finite, Option.map_some]
  exact congrArg some (spec_lit hF mode s c e hc h1 h2)

/-- the hypotheses of the round trip are satisfiable: the largest finite number, a negative zero at the
smallest exponent, and `-1234E-6176` are well-formed -/
example : (Datum.fin false 9999999999999999999999999999999999 6111).WF ∧ (Datum.fin true 0 (-6176)).WF ∧
    (Datum.fin true 1234 (-6176)).WF := by decide

/-- zeros round-trip without any assumption on `finish` -/
theorem roundtrip_zero (up : Bool) (mode : Mode) (s : Bool) (e : Int) (h1 : eMin ≤ e) (h2 : e ≤ eMax) :
    (parseLiteral (format up (.fin s 0 e))).map (parseLiteralSpec mode) = some (.fin s 0 e, 0) := by
  rw [parse_format_finite, Option.map_some]
  refine congrArg some ?_
  show parseLiteralSpec mode (lit s 0 e) = _
  unfold parseLiteralSpec
  rw [lit_coeff, lit_exp10, lit_neg]
  simp only [if_true, zeroAt, clamp_inRange e h1 h2]

/-! ### The same, at the level of the judge's expectation for `parse` -/

/-- The expectation the judge computes for parsing the printed form of a well-formed finite datum is:
exactly the canonical encoding of that datum, no flag. -/
theorem parseE_format_finite (hF : FinishExact) (up : Bool) (mode : Mode) (s : Bool) (c : Nat) (e : Int)
    (hwf : (Datum.fin s c e).WF) :
    expectCore.parseE mode (format up (.fin s c e)) = exactly [.d (encode (.fin s c e))] 0 := by
  obtain ⟨hc, h1, h2⟩ := hwf
  have hlen : (lit s c e).sigDigits.length ≤ 100 := by
    have := lit_sigDigits_le s c e hc; omega
  simp only [expectCore.parseE, classify_format_finite, hlen, if_true,
    spec_lit hF mode s c e hc h1 h2, exactD, exactly]

/-- The expectation the judge computes for parsing the printed form of an infinity or a NaN is exactly
that infinity, resp. the NaN of the same sign and signalling-ness with zero payload, no flag. -/
theorem parseE_format_specials (up : Bool) (mode : Mode) (s sig : Bool) (p : Nat) :
    expectCore.parseE mode (format up (.inf s)) = exactly [.d (encode (.inf s))] 0 ∧
    expectCore.parseE mode (format up (.nan s sig p)) = exactly [.d (encode (.nan s sig 0))] 0 := by
  constructor
  · simp only [expectCore.parseE, classify_format_inf]
  · cases sig
    · simp only [expectCore.parseE, classify_format_qnan]
    · simp only [expectCore.parseE, classify_format_snan]

/-! ### The printed form determines the datum -/

/-- a NaN without its payload (the text does not carry the payload); other data unchanged -/
def noPayload : Datum → Datum
  | .nan s g _ => .nan s g 0
  | d => d

/-- Two finite data with the same printed form (even with different exponent letters) have the same sign,
coefficient and exponent: no information is lost or altered by printing. -/
theorem format_finite_inj (up up' s s' : Bool) (c c' : Nat) (e e' : Int)
    (h : format up (.fin s c e) = format up' (.fin s' c' e')) : s = s' ∧ c = c' ∧ e = e' := by
  have h1 := congrArg parseLiteral h
  rw [parse_format_finite, parse_format_finite] at h1
  injection h1 with h1
  injection h1 with hs hc _ he
  refine ⟨hs, ?_, he⟩
  have := congrArg digitsVal hc
  rwa [digitsVal_digitBytes, digitsVal_digitBytes] at this

/-- Printing is injective on all data up to the NaN payload: equal texts come from equal data. -/
theorem format_inj (up up' : Bool) (d d' : Datum) (h : format up d = format up' d') :
    noPayload d = noPayload d' := by
  have hc := congrArg classifyText h
  rcases d with ⟨s, c, e⟩ | s | ⟨s, g, p⟩ <;> rcases d' with ⟨s', c', e'⟩ | s' | ⟨s', g', p'⟩
  · obtain ⟨rfl, rfl, rfl⟩ := format_finite_inj _ _ _ _ _ _ _ _ h; rfl
  · rw [classify_format_finite, classify_format_inf] at hc; cases hc
  · cases g' <;> simp only [classify_format_finite, classify_format_qnan, classify_format_snan] at hc <;> cases hc
  · rw [classify_format_finite, classify_format_inf] at hc; cases hc
  · rw [classify_format_inf, classify_format_inf] at hc; cases hc; rfl
  · cases g' <;> simp only [classify_format_inf, classify_format_qnan, classify_format_snan] at hc <;> cases hc
  · cases g <;> simp only [classify_format_finite, classify_format_qnan, classify_format_snan] at hc <;> cases hc
  · cases g <;> simp only [classify_format_inf, classify_format_qnan, classify_format_snan] at hc <;> cases hc
  · cases g <;> cases g' <;> simp only [classify_format_qnan, classify_format_snan] at hc <;> cases hc <;> rfl

example : format true (.fin false 10 (-1)) ≠ format true (.fin false 1 0) := by
  intro h; have := (format_finite_inj _ _ _ _ _ _ _ _ h).2.1; omega

/-! ### Discharging `FinishExact`; the unconditional round trip -/

/-- `finish` is exact on members of the format asked for at their own exponent
(`Dec.finish_representable`, from the specification of `finish`). -/
theorem finishExact : FinishExact :=
  fun mode s c e hc0 hc h1 h2 => finish_representable mode s c e hc0 hc h1 h2

/-- **Round trip (unconditional).**  For every well-formed finite datum `d = ±c·10^e` (`c < 10^34`,
`eMin ≤ e ≤ eMax`; zeros, subnormals and every cohort member included), either exponent letter and every
rounding mode: the printed form of `d` is a well-formed literal, and the value that literal must convert to is
`d` itself — same sign, same coefficient, same exponent — with no flag raised. -/
theorem roundtrip (up : Bool) (mode : Mode) (s : Bool) (c : Nat) (e : Int) (hwf : (Datum.fin s c e).WF) :
    (parseLiteral (format up (.fin s c e))).map (parseLiteralSpec mode) = some (.fin s c e, 0) :=
  roundtrip_of_finishExact finishExact up mode s c e hwf

/-- The expectation the judge computes for parsing the printed form of any well-formed datum `d` (finite,
infinite or NaN) is exactly the canonical encoding of `d` (NaN: without its payload), with no flag. -/
theorem parseE_format (up : Bool) (mode : Mode) (d : Datum) (hwf : d.WF) :
    expectCore.parseE mode (format up d) = exactly [.d (encode (noPayload d))] 0 := by
  rcases d with ⟨s, c, e⟩ | s | ⟨s, g, p⟩
  · exact parseE_format_finite finishExact up mode s c e hwf
  · exact (parseE_format_specials up mode s false 0).1
  · exact (parseE_format_specials up mode s g p).2

example : (Datum.fin true 1000000000000000000000000000000000 (-6176)).WF ∧ (Datum.nan true true 5).WF ∧
    (Datum.inf false).WF := by decide

end Dec.C05RoundTrip
