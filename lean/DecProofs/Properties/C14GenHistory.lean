import DecProofs.Properties.C14GenFrame
import DecGen.Api
import DecModel.Ops

/-
C14 at the level of the public API: the FRAME property of the status word for the dispatch `Dec.Gen.Api.run`, and for
histories of calls on one status word.

`C14GenFrame` proves, routine by routine, `R args (f ||| g) = (R args g).map (fun (r, h) => (r, f ||| h))` (`Framed`).
Here this is lifted

  1. to the public dispatch: `api_frame` — for EVERY method name `op` (covered or not), rounding mode, argument list and
     words `f g`,
        `run op mode (f ||| g) args = (run op mode g args).map (orInto f)`,  `orInto f = Except.map fun (rs, h) => (rs, f ||| h)`.
     No method of the dispatch is excepted.  Every arm either hands the word to ONE routine that has an unconditional
     `_frame` theorem in `C14GenFrame`, or takes no word and returns the caller's unchanged.  The six internal routines
     that are framed only for incoming words without `inexact` (`handle_UF_128`, `bid_handle_UF_128_rem`, `bid_get_BID128`,
     `bid128_div/scalbn/ldexp_clear_status`) are never an arm's routine: `division`, `scaleb`, `ldexp` go through the
     wrappers `bid128_div/scalbn/ldexp`, which run them from a clear word and OR the caller's word in afterwards.
     Names the dispatch does not know, and known names with ill-shaped argument lists, give `none` on both sides.
     Technique: `run` is one 124-arm matcher that Lean compiles to a chain of `dite (op = "literal")`; `split` and the
     splitter equations time out on it.  So: (a) one theorem per literal (`api_frame_<op>`, generated) — the kernel
     evaluates the string chain once (`api_reduce`), then the argument list is taken apart by `cases` and each leaf is
     closed by `api_leaf` (kernel whnf; `none = none`, or the routine's `_frame` theorem through `arm_framed`, or `cases` on
     the result of a word-less routine); (b) for a variable `op` the chain is walked (`api_chain`): `by_cases op = "lit"`,
     positive: the per-literal theorem, negative: `dif_neg` on both sides; at the end `none = none`.
  2. to histories: `runHistory f h` threads one word through a list of calls and stops at the first panic.
     `runHistory_frame` (results independent of the initial word; final = initial ||| final-from-clear),
     `runHistory_mono` (initial ⊆ final), `runHistory_flags` (final = initial ||| OR of the sets the calls raise when made
     alone from a clear word; results = results of those separate calls; panics agree), `orAll_bit` (flag by flag).
  3. methods without a status word (`wordless`, 26 of them, among them the `d128` glue `eq ne lt le gt ge partial_cmp hash`):
     `api_silent` — the word comes back unchanged and the results do not depend on it.
  4. the judge: `expect "twice"` is the relation `twiceRel` (`expect_twice`), and an observation pair produced by the
     translated dispatch satisfies it (`twice_accepted`, `twice_panic`).

Maintenance: the blocks `api_frame_<op>` (one per arm of `Api.run`) and `api_silent_<op>` (one per arm without a word)
are generated text, `by apiN` with N = number of arguments of the arm.  When `DecGen/Api.lean` gains an arm, `api_chain`
stops with "unknown identifier api_frame_<new op>": add the line for it (its routine needs a `_frame` theorem in
`C14GenFrame` if it takes the word).

No `sorry`, no axioms beyond the three standard ones.
-/
namespace Dec.C14GenHistory
open Dec.Rs Dec.Gen.Code Dec.Gen.Api Dec.C14GenFrame Dec
open Lean Meta Elab Tactic

/-- what the incoming extra word `f` does to an API result -/
def orInto (f : UInt32) (r : Except String (List AVal × UInt32)) : Except String (List AVal × UInt32) :=
  r.map fun p => (p.1, f ||| p.2)

theorem arm_framed {α : Type} {R : UInt32 → Except String (α × UInt32)} (hR : Framed R)
    (F : α × UInt32 → List AVal × UInt32)
    (hF : ∀ r h f, F (r, f ||| h) = ((F (r, h)).1, f ||| (F (r, h)).2)) (f g : UInt32) :
    some ((R (f ||| g)).map F) = (some ((R g).map F)).map (orInto f) := by
  rw [hR f g trivial]
  cases R g with
  | error e => rfl
  | ok v => exact congrArg (fun x => some (Except.ok x)) (hF v.1 v.2 f)

def kwhnf (e : Expr) : MetaM Expr := do
  let env ← getEnv
  let lctx ← getLCtx
  match Lean.Kernel.whnf env lctx e with
  | .ok r => return r
  | .error _ => throwError "api_leaf: kernel whnf failed"

/-- one leaf of the case analysis on the argument list: evaluate the dispatch (by the kernel) on both sides; no such method:
`none = none`; else one call of a routine — without status word (cases on its result) or framed (its frame theorem) -/
elab "api_leaf" : tactic => withMainContext do
  let g ← getMainGoal
  let t := (← instantiateMVars (← g.getType)).consumeMData
  let some (ty, lhs, rhs) := t.eq? | throwError "api_leaf: not an equation"
  let lhs' ← kwhnf lhs
  if lhs'.isAppOfArity ``Option.none 1 then
    g.assign (← mkEqRefl lhs')
    replaceMainGoal []
    return
  unless lhs'.isAppOfArity ``Option.some 2 do throwError "api_leaf: dispatch did not reduce: {lhs'}"
  -- rhs = Option.map H (run …)
  let inner := rhs.appArg!
  let inner' ← kwhnf inner
  let newT := mkApp3 (mkConst ``Eq [Level.succ Level.zero]) ty lhs' (mkApp rhs.appFn! inner')
  let g' ← mkFreshExprSyntheticOpaqueMVar newT
  g.assign g'
  replaceMainGoal [g'.mvarId!]
  let X := lhs'.appArg!.headBeta
  -- X = Except.map F call
  unless X.isAppOfArity ``Except.map 5 do throwError "api_leaf: unexpected arm {X}"
  let call := X.appArg!
  let .const c _ := call.getAppFn | throwError "api_leaf: no routine"
  let args := call.getAppArgs
  let lem := callName c
  if args.size > 0 && args.back!.isAppOfArity ``HOr.hOr 6 then
    unless (← getEnv).contains lem do throwError "api_leaf: `{c}` has no frame theorem"
    let hR := mkAppN (mkConst lem) args.pop
    let hRs ← Term.exprToSyntax hR
    evalTactic (← `(tactic| exact arm_framed $hRs _ (fun _ _ _ => rfl) _ _))
  else
    let cs ← Term.exprToSyntax call
    evalTactic (← `(tactic| (generalize $cs = m; cases m <;> rfl)))

/-- evaluate the string dispatch once (by the kernel), leaving the match on the argument list -/
elab "api_reduce" : tactic => withMainContext do
  let g ← getMainGoal
  let t := (← instantiateMVars (← g.getType)).consumeMData
  let some (ty, lhs, rhs) := t.eq? | throwError "api_reduce: not an equation"
  let lhs' ← kwhnf lhs
  let inner' ← kwhnf rhs.appArg!
  let newT := mkApp3 (mkConst ``Eq [Level.succ Level.zero]) ty lhs' (mkApp rhs.appFn! inner')
  let g' ← mkFreshExprSyntheticOpaqueMVar newT
  g.assign g'
  replaceMainGoal [g'.mvarId!]

macro "api1" : tactic => `(tactic| (
  intro args
  api_reduce
  cases args with
  | nil => api_leaf
  | cons h t =>
    cases h with
    | d a0 => cases t with
      | nil => api_leaf
      | cons _ _ => api_leaf
    | _ => api_leaf))

macro "api2" : tactic => `(tactic| (
  intro args
  api_reduce
  cases args with
  | nil => api_leaf
  | cons h t =>
    cases h with
    | d a0 => cases t with
      | nil => api_leaf
      | cons h1 t1 =>
        cases h1 with
        | d a1 => cases t1 with
          | nil => api_leaf
          | cons _ _ => api_leaf
        | i a1 => cases t1 with
          | nil => api_leaf
          | cons _ _ => api_leaf
        | _ => api_leaf
    | _ => api_leaf))

macro "api3" : tactic => `(tactic| (
  intro args
  api_reduce
  cases args with
  | nil => api_leaf
  | cons h t =>
    cases h with
    | d a0 => cases t with
      | nil => api_leaf
      | cons h1 t1 =>
        cases h1 with
        | d a1 => cases t1 with
          | nil => api_leaf
          | cons h2 t2 =>
            cases h2 with
            | d a2 => cases t2 with
              | nil => api_leaf
              | cons _ _ => api_leaf
            | _ => api_leaf
        | _ => api_leaf
    | _ => api_leaf))

theorem api_frame_encode_decimal (mode : RoundingMode) (f g : UInt32) : ∀ args : List AVal,
    run "encode_decimal" mode (f ||| g) args = (run "encode_decimal" mode g args).map (orInto f) := by api1

theorem api_frame_decode_decimal (mode : RoundingMode) (f g : UInt32) : ∀ args : List AVal,
    run "decode_decimal" mode (f ||| g) args = (run "decode_decimal" mode g args).map (orInto f) := by api1

theorem api_frame_abs (mode : RoundingMode) (f g : UInt32) : ∀ args : List AVal,
    run "abs" mode (f ||| g) args = (run "abs" mode g args).map (orInto f) := by api1

theorem api_frame_class (mode : RoundingMode) (f g : UInt32) : ∀ args : List AVal,
    run "class" mode (f ||| g) args = (run "class" mode g args).map (orInto f) := by api1

theorem api_frame_is_finite (mode : RoundingMode) (f g : UInt32) : ∀ args : List AVal,
    run "is_finite" mode (f ||| g) args = (run "is_finite" mode g args).map (orInto f) := by api1

theorem api_frame_is_infinite (mode : RoundingMode) (f g : UInt32) : ∀ args : List AVal,
    run "is_infinite" mode (f ||| g) args = (run "is_infinite" mode g args).map (orInto f) := by api1

theorem api_frame_is_nan (mode : RoundingMode) (f g : UInt32) : ∀ args : List AVal,
    run "is_nan" mode (f ||| g) args = (run "is_nan" mode g args).map (orInto f) := by api1

theorem api_frame_is_normal (mode : RoundingMode) (f g : UInt32) : ∀ args : List AVal,
    run "is_normal" mode (f ||| g) args = (run "is_normal" mode g args).map (orInto f) := by api1

theorem api_frame_is_signaling (mode : RoundingMode) (f g : UInt32) : ∀ args : List AVal,
    run "is_signaling" mode (f ||| g) args = (run "is_signaling" mode g args).map (orInto f) := by api1

theorem api_frame_is_sign_minus (mode : RoundingMode) (f g : UInt32) : ∀ args : List AVal,
    run "is_sign_minus" mode (f ||| g) args = (run "is_sign_minus" mode g args).map (orInto f) := by api1

theorem api_frame_is_subnormal (mode : RoundingMode) (f g : UInt32) : ∀ args : List AVal,
    run "is_subnormal" mode (f ||| g) args = (run "is_subnormal" mode g args).map (orInto f) := by api1

theorem api_frame_is_zero (mode : RoundingMode) (f g : UInt32) : ∀ args : List AVal,
    run "is_zero" mode (f ||| g) args = (run "is_zero" mode g args).map (orInto f) := by api1

theorem api_frame_negate (mode : RoundingMode) (f g : UInt32) : ∀ args : List AVal,
    run "negate" mode (f ||| g) args = (run "negate" mode g args).map (orInto f) := by api1

theorem api_frame_same_quantum (mode : RoundingMode) (f g : UInt32) : ∀ args : List AVal,
    run "same_quantum" mode (f ||| g) args = (run "same_quantum" mode g args).map (orInto f) := by api2

theorem api_frame_total_order (mode : RoundingMode) (f g : UInt32) : ∀ args : List AVal,
    run "total_order" mode (f ||| g) args = (run "total_order" mode g args).map (orInto f) := by api2

theorem api_frame_total_order_mag (mode : RoundingMode) (f g : UInt32) : ∀ args : List AVal,
    run "total_order_mag" mode (f ||| g) args = (run "total_order_mag" mode g args).map (orInto f) := by api2

theorem api_frame_fdim (mode : RoundingMode) (f g : UInt32) : ∀ args : List AVal,
    run "fdim" mode (f ||| g) args = (run "fdim" mode g args).map (orInto f) := by api2

theorem api_frame_fused_multiply_add (mode : RoundingMode) (f g : UInt32) : ∀ args : List AVal,
    run "fused_multiply_add" mode (f ||| g) args = (run "fused_multiply_add" mode g args).map (orInto f) := by api3

theorem api_frame_fmod (mode : RoundingMode) (f g : UInt32) : ∀ args : List AVal,
    run "fmod" mode (f ||| g) args = (run "fmod" mode g args).map (orInto f) := by api2

theorem api_frame_frexp (mode : RoundingMode) (f g : UInt32) : ∀ args : List AVal,
    run "frexp" mode (f ||| g) args = (run "frexp" mode g args).map (orInto f) := by api1

theorem api_frame_ldexp (mode : RoundingMode) (f g : UInt32) : ∀ args : List AVal,
    run "ldexp" mode (f ||| g) args = (run "ldexp" mode g args).map (orInto f) := by api2

theorem api_frame_llquantexp (mode : RoundingMode) (f g : UInt32) : ∀ args : List AVal,
    run "llquantexp" mode (f ||| g) args = (run "llquantexp" mode g args).map (orInto f) := by api1

theorem api_frame_logb (mode : RoundingMode) (f g : UInt32) : ∀ args : List AVal,
    run "logb" mode (f ||| g) args = (run "logb" mode g args).map (orInto f) := by api1

theorem api_frame_lrint (mode : RoundingMode) (f g : UInt32) : ∀ args : List AVal,
    run "lrint" mode (f ||| g) args = (run "lrint" mode g args).map (orInto f) := by api1

theorem api_frame_llrint (mode : RoundingMode) (f g : UInt32) : ∀ args : List AVal,
    run "llrint" mode (f ||| g) args = (run "llrint" mode g args).map (orInto f) := by api1

theorem api_frame_lround (mode : RoundingMode) (f g : UInt32) : ∀ args : List AVal,
    run "lround" mode (f ||| g) args = (run "lround" mode g args).map (orInto f) := by api1

theorem api_frame_llround (mode : RoundingMode) (f g : UInt32) : ∀ args : List AVal,
    run "llround" mode (f ||| g) args = (run "llround" mode g args).map (orInto f) := by api1

theorem api_frame_log_b (mode : RoundingMode) (f g : UInt32) : ∀ args : List AVal,
    run "log_b" mode (f ||| g) args = (run "log_b" mode g args).map (orInto f) := by api1

theorem api_frame_max_num (mode : RoundingMode) (f g : UInt32) : ∀ args : List AVal,
    run "max_num" mode (f ||| g) args = (run "max_num" mode g args).map (orInto f) := by api2

theorem api_frame_max_num_mag (mode : RoundingMode) (f g : UInt32) : ∀ args : List AVal,
    run "max_num_mag" mode (f ||| g) args = (run "max_num_mag" mode g args).map (orInto f) := by api2

theorem api_frame_min_num (mode : RoundingMode) (f g : UInt32) : ∀ args : List AVal,
    run "min_num" mode (f ||| g) args = (run "min_num" mode g args).map (orInto f) := by api2

theorem api_frame_min_num_mag (mode : RoundingMode) (f g : UInt32) : ∀ args : List AVal,
    run "min_num_mag" mode (f ||| g) args = (run "min_num_mag" mode g args).map (orInto f) := by api2

theorem api_frame_modf (mode : RoundingMode) (f g : UInt32) : ∀ args : List AVal,
    run "modf" mode (f ||| g) args = (run "modf" mode g args).map (orInto f) := by api1

theorem api_frame_nearbyint (mode : RoundingMode) (f g : UInt32) : ∀ args : List AVal,
    run "nearbyint" mode (f ||| g) args = (run "nearbyint" mode g args).map (orInto f) := by api1

theorem api_frame_next_after (mode : RoundingMode) (f g : UInt32) : ∀ args : List AVal,
    run "next_after" mode (f ||| g) args = (run "next_after" mode g args).map (orInto f) := by api2

theorem api_frame_next_down (mode : RoundingMode) (f g : UInt32) : ∀ args : List AVal,
    run "next_down" mode (f ||| g) args = (run "next_down" mode g args).map (orInto f) := by api1

theorem api_frame_next_toward (mode : RoundingMode) (f g : UInt32) : ∀ args : List AVal,
    run "next_toward" mode (f ||| g) args = (run "next_toward" mode g args).map (orInto f) := by api2

theorem api_frame_next_up (mode : RoundingMode) (f g : UInt32) : ∀ args : List AVal,
    run "next_up" mode (f ||| g) args = (run "next_up" mode g args).map (orInto f) := by api1

theorem api_frame_quantexp (mode : RoundingMode) (f g : UInt32) : ∀ args : List AVal,
    run "quantexp" mode (f ||| g) args = (run "quantexp" mode g args).map (orInto f) := by api1

theorem api_frame_quantize (mode : RoundingMode) (f g : UInt32) : ∀ args : List AVal,
    run "quantize" mode (f ||| g) args = (run "quantize" mode g args).map (orInto f) := by api2

theorem api_frame_quantum (mode : RoundingMode) (f g : UInt32) : ∀ args : List AVal,
    run "quantum" mode (f ||| g) args = (run "quantum" mode g args).map (orInto f) := by api1

theorem api_frame_scaleb (mode : RoundingMode) (f g : UInt32) : ∀ args : List AVal,
    run "scaleb" mode (f ||| g) args = (run "scaleb" mode g args).map (orInto f) := by api2

theorem api_frame_scalebln (mode : RoundingMode) (f g : UInt32) : ∀ args : List AVal,
    run "scalebln" mode (f ||| g) args = (run "scalebln" mode g args).map (orInto f) := by api2

theorem api_frame_square_root (mode : RoundingMode) (f g : UInt32) : ∀ args : List AVal,
    run "square_root" mode (f ||| g) args = (run "square_root" mode g args).map (orInto f) := by api1

theorem api_frame_convert_to_i32_ties_to_even (mode : RoundingMode) (f g : UInt32) : ∀ args : List AVal,
    run "convert_to_i32_ties_to_even" mode (f ||| g) args = (run "convert_to_i32_ties_to_even" mode g args).map (orInto f) := by api1

theorem api_frame_convert_to_i32_exact_ties_to_even (mode : RoundingMode) (f g : UInt32) : ∀ args : List AVal,
    run "convert_to_i32_exact_ties_to_even" mode (f ||| g) args = (run "convert_to_i32_exact_ties_to_even" mode g args).map (orInto f) := by api1

theorem api_frame_convert_to_i32_toward_negative (mode : RoundingMode) (f g : UInt32) : ∀ args : List AVal,
    run "convert_to_i32_toward_negative" mode (f ||| g) args = (run "convert_to_i32_toward_negative" mode g args).map (orInto f) := by api1

theorem api_frame_convert_to_i32_exact_toward_negative (mode : RoundingMode) (f g : UInt32) : ∀ args : List AVal,
    run "convert_to_i32_exact_toward_negative" mode (f ||| g) args = (run "convert_to_i32_exact_toward_negative" mode g args).map (orInto f) := by api1

theorem api_frame_convert_to_i32_toward_positive (mode : RoundingMode) (f g : UInt32) : ∀ args : List AVal,
    run "convert_to_i32_toward_positive" mode (f ||| g) args = (run "convert_to_i32_toward_positive" mode g args).map (orInto f) := by api1

theorem api_frame_convert_to_i32_exact_toward_positive (mode : RoundingMode) (f g : UInt32) : ∀ args : List AVal,
    run "convert_to_i32_exact_toward_positive" mode (f ||| g) args = (run "convert_to_i32_exact_toward_positive" mode g args).map (orInto f) := by api1

theorem api_frame_convert_to_i32_toward_zero (mode : RoundingMode) (f g : UInt32) : ∀ args : List AVal,
    run "convert_to_i32_toward_zero" mode (f ||| g) args = (run "convert_to_i32_toward_zero" mode g args).map (orInto f) := by api1

theorem api_frame_convert_to_i32_exact_toward_zero (mode : RoundingMode) (f g : UInt32) : ∀ args : List AVal,
    run "convert_to_i32_exact_toward_zero" mode (f ||| g) args = (run "convert_to_i32_exact_toward_zero" mode g args).map (orInto f) := by api1

theorem api_frame_convert_to_i32_ties_to_away (mode : RoundingMode) (f g : UInt32) : ∀ args : List AVal,
    run "convert_to_i32_ties_to_away" mode (f ||| g) args = (run "convert_to_i32_ties_to_away" mode g args).map (orInto f) := by api1

theorem api_frame_convert_to_i32_exact_ties_to_away (mode : RoundingMode) (f g : UInt32) : ∀ args : List AVal,
    run "convert_to_i32_exact_ties_to_away" mode (f ||| g) args = (run "convert_to_i32_exact_ties_to_away" mode g args).map (orInto f) := by api1

theorem api_frame_convert_to_i64_toward_positive (mode : RoundingMode) (f g : UInt32) : ∀ args : List AVal,
    run "convert_to_i64_toward_positive" mode (f ||| g) args = (run "convert_to_i64_toward_positive" mode g args).map (orInto f) := by api1

theorem api_frame_convert_to_i64_toward_negative (mode : RoundingMode) (f g : UInt32) : ∀ args : List AVal,
    run "convert_to_i64_toward_negative" mode (f ||| g) args = (run "convert_to_i64_toward_negative" mode g args).map (orInto f) := by api1

theorem api_frame_convert_to_i64_toward_zero (mode : RoundingMode) (f g : UInt32) : ∀ args : List AVal,
    run "convert_to_i64_toward_zero" mode (f ||| g) args = (run "convert_to_i64_toward_zero" mode g args).map (orInto f) := by api1

theorem api_frame_convert_to_i64_ties_to_even (mode : RoundingMode) (f g : UInt32) : ∀ args : List AVal,
    run "convert_to_i64_ties_to_even" mode (f ||| g) args = (run "convert_to_i64_ties_to_even" mode g args).map (orInto f) := by api1

theorem api_frame_convert_to_i64_ties_to_away (mode : RoundingMode) (f g : UInt32) : ∀ args : List AVal,
    run "convert_to_i64_ties_to_away" mode (f ||| g) args = (run "convert_to_i64_ties_to_away" mode g args).map (orInto f) := by api1

theorem api_frame_convert_to_i64_exact_toward_positive (mode : RoundingMode) (f g : UInt32) : ∀ args : List AVal,
    run "convert_to_i64_exact_toward_positive" mode (f ||| g) args = (run "convert_to_i64_exact_toward_positive" mode g args).map (orInto f) := by api1

theorem api_frame_convert_to_i64_exact_toward_negative (mode : RoundingMode) (f g : UInt32) : ∀ args : List AVal,
    run "convert_to_i64_exact_toward_negative" mode (f ||| g) args = (run "convert_to_i64_exact_toward_negative" mode g args).map (orInto f) := by api1

theorem api_frame_convert_to_i64_exact_toward_zero (mode : RoundingMode) (f g : UInt32) : ∀ args : List AVal,
    run "convert_to_i64_exact_toward_zero" mode (f ||| g) args = (run "convert_to_i64_exact_toward_zero" mode g args).map (orInto f) := by api1

theorem api_frame_convert_to_i64_exact_ties_to_even (mode : RoundingMode) (f g : UInt32) : ∀ args : List AVal,
    run "convert_to_i64_exact_ties_to_even" mode (f ||| g) args = (run "convert_to_i64_exact_ties_to_even" mode g args).map (orInto f) := by api1

theorem api_frame_convert_to_i64_exact_ties_to_away (mode : RoundingMode) (f g : UInt32) : ∀ args : List AVal,
    run "convert_to_i64_exact_ties_to_away" mode (f ||| g) args = (run "convert_to_i64_exact_ties_to_away" mode g args).map (orInto f) := by api1

theorem api_frame_convert_to_u32_toward_positive (mode : RoundingMode) (f g : UInt32) : ∀ args : List AVal,
    run "convert_to_u32_toward_positive" mode (f ||| g) args = (run "convert_to_u32_toward_positive" mode g args).map (orInto f) := by api1

theorem api_frame_convert_to_u32_toward_negative (mode : RoundingMode) (f g : UInt32) : ∀ args : List AVal,
    run "convert_to_u32_toward_negative" mode (f ||| g) args = (run "convert_to_u32_toward_negative" mode g args).map (orInto f) := by api1

theorem api_frame_convert_to_u32_toward_zero (mode : RoundingMode) (f g : UInt32) : ∀ args : List AVal,
    run "convert_to_u32_toward_zero" mode (f ||| g) args = (run "convert_to_u32_toward_zero" mode g args).map (orInto f) := by api1

theorem api_frame_convert_to_u32_ties_to_even (mode : RoundingMode) (f g : UInt32) : ∀ args : List AVal,
    run "convert_to_u32_ties_to_even" mode (f ||| g) args = (run "convert_to_u32_ties_to_even" mode g args).map (orInto f) := by api1

theorem api_frame_convert_to_u32_ties_to_away (mode : RoundingMode) (f g : UInt32) : ∀ args : List AVal,
    run "convert_to_u32_ties_to_away" mode (f ||| g) args = (run "convert_to_u32_ties_to_away" mode g args).map (orInto f) := by api1

theorem api_frame_convert_to_u32_exact_toward_positive (mode : RoundingMode) (f g : UInt32) : ∀ args : List AVal,
    run "convert_to_u32_exact_toward_positive" mode (f ||| g) args = (run "convert_to_u32_exact_toward_positive" mode g args).map (orInto f) := by api1

theorem api_frame_convert_to_u32_exact_toward_negative (mode : RoundingMode) (f g : UInt32) : ∀ args : List AVal,
    run "convert_to_u32_exact_toward_negative" mode (f ||| g) args = (run "convert_to_u32_exact_toward_negative" mode g args).map (orInto f) := by api1

theorem api_frame_convert_to_u32_exact_toward_zero (mode : RoundingMode) (f g : UInt32) : ∀ args : List AVal,
    run "convert_to_u32_exact_toward_zero" mode (f ||| g) args = (run "convert_to_u32_exact_toward_zero" mode g args).map (orInto f) := by api1

theorem api_frame_convert_to_u32_exact_ties_to_even (mode : RoundingMode) (f g : UInt32) : ∀ args : List AVal,
    run "convert_to_u32_exact_ties_to_even" mode (f ||| g) args = (run "convert_to_u32_exact_ties_to_even" mode g args).map (orInto f) := by api1

theorem api_frame_convert_to_u32_exact_ties_to_away (mode : RoundingMode) (f g : UInt32) : ∀ args : List AVal,
    run "convert_to_u32_exact_ties_to_away" mode (f ||| g) args = (run "convert_to_u32_exact_ties_to_away" mode g args).map (orInto f) := by api1

theorem api_frame_convert_to_u64_toward_positive (mode : RoundingMode) (f g : UInt32) : ∀ args : List AVal,
    run "convert_to_u64_toward_positive" mode (f ||| g) args = (run "convert_to_u64_toward_positive" mode g args).map (orInto f) := by api1

theorem api_frame_convert_to_u64_toward_negative (mode : RoundingMode) (f g : UInt32) : ∀ args : List AVal,
    run "convert_to_u64_toward_negative" mode (f ||| g) args = (run "convert_to_u64_toward_negative" mode g args).map (orInto f) := by api1

theorem api_frame_convert_to_u64_toward_zero (mode : RoundingMode) (f g : UInt32) : ∀ args : List AVal,
    run "convert_to_u64_toward_zero" mode (f ||| g) args = (run "convert_to_u64_toward_zero" mode g args).map (orInto f) := by api1

theorem api_frame_convert_to_u64_ties_to_even (mode : RoundingMode) (f g : UInt32) : ∀ args : List AVal,
    run "convert_to_u64_ties_to_even" mode (f ||| g) args = (run "convert_to_u64_ties_to_even" mode g args).map (orInto f) := by api1

theorem api_frame_convert_to_u64_ties_to_away (mode : RoundingMode) (f g : UInt32) : ∀ args : List AVal,
    run "convert_to_u64_ties_to_away" mode (f ||| g) args = (run "convert_to_u64_ties_to_away" mode g args).map (orInto f) := by api1

theorem api_frame_convert_to_u64_exact_toward_positive (mode : RoundingMode) (f g : UInt32) : ∀ args : List AVal,
    run "convert_to_u64_exact_toward_positive" mode (f ||| g) args = (run "convert_to_u64_exact_toward_positive" mode g args).map (orInto f) := by api1

theorem api_frame_convert_to_u64_exact_toward_negative (mode : RoundingMode) (f g : UInt32) : ∀ args : List AVal,
    run "convert_to_u64_exact_toward_negative" mode (f ||| g) args = (run "convert_to_u64_exact_toward_negative" mode g args).map (orInto f) := by api1

theorem api_frame_convert_to_u64_exact_toward_zero (mode : RoundingMode) (f g : UInt32) : ∀ args : List AVal,
    run "convert_to_u64_exact_toward_zero" mode (f ||| g) args = (run "convert_to_u64_exact_toward_zero" mode g args).map (orInto f) := by api1

theorem api_frame_convert_to_u64_exact_ties_to_even (mode : RoundingMode) (f g : UInt32) : ∀ args : List AVal,
    run "convert_to_u64_exact_ties_to_even" mode (f ||| g) args = (run "convert_to_u64_exact_ties_to_even" mode g args).map (orInto f) := by api1

theorem api_frame_convert_to_u64_exact_ties_to_away (mode : RoundingMode) (f g : UInt32) : ∀ args : List AVal,
    run "convert_to_u64_exact_ties_to_away" mode (f ||| g) args = (run "convert_to_u64_exact_ties_to_away" mode g args).map (orInto f) := by api1

theorem api_frame_addition (mode : RoundingMode) (f g : UInt32) : ∀ args : List AVal,
    run "addition" mode (f ||| g) args = (run "addition" mode g args).map (orInto f) := by api2

theorem api_frame_division (mode : RoundingMode) (f g : UInt32) : ∀ args : List AVal,
    run "division" mode (f ||| g) args = (run "division" mode g args).map (orInto f) := by api2

theorem api_frame_multiplication (mode : RoundingMode) (f g : UInt32) : ∀ args : List AVal,
    run "multiplication" mode (f ||| g) args = (run "multiplication" mode g args).map (orInto f) := by api2

theorem api_frame_remainder (mode : RoundingMode) (f g : UInt32) : ∀ args : List AVal,
    run "remainder" mode (f ||| g) args = (run "remainder" mode g args).map (orInto f) := by api2

theorem api_frame_subtraction (mode : RoundingMode) (f g : UInt32) : ∀ args : List AVal,
    run "subtraction" mode (f ||| g) args = (run "subtraction" mode g args).map (orInto f) := by api2

theorem api_frame_compare_quiet_equal (mode : RoundingMode) (f g : UInt32) : ∀ args : List AVal,
    run "compare_quiet_equal" mode (f ||| g) args = (run "compare_quiet_equal" mode g args).map (orInto f) := by api2

theorem api_frame_compare_quiet_greater (mode : RoundingMode) (f g : UInt32) : ∀ args : List AVal,
    run "compare_quiet_greater" mode (f ||| g) args = (run "compare_quiet_greater" mode g args).map (orInto f) := by api2

theorem api_frame_compare_quiet_unordered (mode : RoundingMode) (f g : UInt32) : ∀ args : List AVal,
    run "compare_quiet_unordered" mode (f ||| g) args = (run "compare_quiet_unordered" mode g args).map (orInto f) := by api2

theorem api_frame_compare_quiet_ordered (mode : RoundingMode) (f g : UInt32) : ∀ args : List AVal,
    run "compare_quiet_ordered" mode (f ||| g) args = (run "compare_quiet_ordered" mode g args).map (orInto f) := by api2

theorem api_frame_compare_quiet_greater_equal (mode : RoundingMode) (f g : UInt32) : ∀ args : List AVal,
    run "compare_quiet_greater_equal" mode (f ||| g) args = (run "compare_quiet_greater_equal" mode g args).map (orInto f) := by api2

theorem api_frame_compare_quiet_greater_unordered (mode : RoundingMode) (f g : UInt32) : ∀ args : List AVal,
    run "compare_quiet_greater_unordered" mode (f ||| g) args = (run "compare_quiet_greater_unordered" mode g args).map (orInto f) := by api2

theorem api_frame_compare_quiet_less (mode : RoundingMode) (f g : UInt32) : ∀ args : List AVal,
    run "compare_quiet_less" mode (f ||| g) args = (run "compare_quiet_less" mode g args).map (orInto f) := by api2

theorem api_frame_compare_quiet_less_equal (mode : RoundingMode) (f g : UInt32) : ∀ args : List AVal,
    run "compare_quiet_less_equal" mode (f ||| g) args = (run "compare_quiet_less_equal" mode g args).map (orInto f) := by api2

theorem api_frame_compare_quiet_less_unordered (mode : RoundingMode) (f g : UInt32) : ∀ args : List AVal,
    run "compare_quiet_less_unordered" mode (f ||| g) args = (run "compare_quiet_less_unordered" mode g args).map (orInto f) := by api2

theorem api_frame_compare_quiet_not_equal (mode : RoundingMode) (f g : UInt32) : ∀ args : List AVal,
    run "compare_quiet_not_equal" mode (f ||| g) args = (run "compare_quiet_not_equal" mode g args).map (orInto f) := by api2

theorem api_frame_compare_quiet_not_greater (mode : RoundingMode) (f g : UInt32) : ∀ args : List AVal,
    run "compare_quiet_not_greater" mode (f ||| g) args = (run "compare_quiet_not_greater" mode g args).map (orInto f) := by api2

theorem api_frame_compare_quiet_not_less (mode : RoundingMode) (f g : UInt32) : ∀ args : List AVal,
    run "compare_quiet_not_less" mode (f ||| g) args = (run "compare_quiet_not_less" mode g args).map (orInto f) := by api2

theorem api_frame_compare_signaling_greater (mode : RoundingMode) (f g : UInt32) : ∀ args : List AVal,
    run "compare_signaling_greater" mode (f ||| g) args = (run "compare_signaling_greater" mode g args).map (orInto f) := by api2

theorem api_frame_compare_signaling_greater_equal (mode : RoundingMode) (f g : UInt32) : ∀ args : List AVal,
    run "compare_signaling_greater_equal" mode (f ||| g) args = (run "compare_signaling_greater_equal" mode g args).map (orInto f) := by api2

theorem api_frame_compare_signaling_greater_unordered (mode : RoundingMode) (f g : UInt32) : ∀ args : List AVal,
    run "compare_signaling_greater_unordered" mode (f ||| g) args = (run "compare_signaling_greater_unordered" mode g args).map (orInto f) := by api2

theorem api_frame_compare_signaling_less (mode : RoundingMode) (f g : UInt32) : ∀ args : List AVal,
    run "compare_signaling_less" mode (f ||| g) args = (run "compare_signaling_less" mode g args).map (orInto f) := by api2

theorem api_frame_compare_signaling_less_equal (mode : RoundingMode) (f g : UInt32) : ∀ args : List AVal,
    run "compare_signaling_less_equal" mode (f ||| g) args = (run "compare_signaling_less_equal" mode g args).map (orInto f) := by api2

theorem api_frame_compare_signaling_less_unordered (mode : RoundingMode) (f g : UInt32) : ∀ args : List AVal,
    run "compare_signaling_less_unordered" mode (f ||| g) args = (run "compare_signaling_less_unordered" mode g args).map (orInto f) := by api2

theorem api_frame_compare_signaling_not_greater (mode : RoundingMode) (f g : UInt32) : ∀ args : List AVal,
    run "compare_signaling_not_greater" mode (f ||| g) args = (run "compare_signaling_not_greater" mode g args).map (orInto f) := by api2

theorem api_frame_compare_signaling_not_less (mode : RoundingMode) (f g : UInt32) : ∀ args : List AVal,
    run "compare_signaling_not_less" mode (f ||| g) args = (run "compare_signaling_not_less" mode g args).map (orInto f) := by api2

theorem api_frame_round_to_integral_exact (mode : RoundingMode) (f g : UInt32) : ∀ args : List AVal,
    run "round_to_integral_exact" mode (f ||| g) args = (run "round_to_integral_exact" mode g args).map (orInto f) := by api1

theorem api_frame_round_to_integral_ties_to_away (mode : RoundingMode) (f g : UInt32) : ∀ args : List AVal,
    run "round_to_integral_ties_to_away" mode (f ||| g) args = (run "round_to_integral_ties_to_away" mode g args).map (orInto f) := by api1

theorem api_frame_round_to_integral_ties_to_even (mode : RoundingMode) (f g : UInt32) : ∀ args : List AVal,
    run "round_to_integral_ties_to_even" mode (f ||| g) args = (run "round_to_integral_ties_to_even" mode g args).map (orInto f) := by api1

theorem api_frame_round_to_integral_ties_toward_negative (mode : RoundingMode) (f g : UInt32) : ∀ args : List AVal,
    run "round_to_integral_ties_toward_negative" mode (f ||| g) args = (run "round_to_integral_ties_toward_negative" mode g args).map (orInto f) := by api1

theorem api_frame_round_to_integral_ties_toward_positive (mode : RoundingMode) (f g : UInt32) : ∀ args : List AVal,
    run "round_to_integral_ties_toward_positive" mode (f ||| g) args = (run "round_to_integral_ties_toward_positive" mode g args).map (orInto f) := by api1

theorem api_frame_round_to_integral_ties_toward_zero (mode : RoundingMode) (f g : UInt32) : ∀ args : List AVal,
    run "round_to_integral_ties_toward_zero" mode (f ||| g) args = (run "round_to_integral_ties_toward_zero" mode g args).map (orInto f) := by api1

theorem api_frame_eq (mode : RoundingMode) (f g : UInt32) : ∀ args : List AVal,
    run "eq" mode (f ||| g) args = (run "eq" mode g args).map (orInto f) := by api2

theorem api_frame_lt (mode : RoundingMode) (f g : UInt32) : ∀ args : List AVal,
    run "lt" mode (f ||| g) args = (run "lt" mode g args).map (orInto f) := by api2

theorem api_frame_le (mode : RoundingMode) (f g : UInt32) : ∀ args : List AVal,
    run "le" mode (f ||| g) args = (run "le" mode g args).map (orInto f) := by api2

theorem api_frame_gt (mode : RoundingMode) (f g : UInt32) : ∀ args : List AVal,
    run "gt" mode (f ||| g) args = (run "gt" mode g args).map (orInto f) := by api2

theorem api_frame_ge (mode : RoundingMode) (f g : UInt32) : ∀ args : List AVal,
    run "ge" mode (f ||| g) args = (run "ge" mode g args).map (orInto f) := by api2

theorem api_frame_partial_cmp (mode : RoundingMode) (f g : UInt32) : ∀ args : List AVal,
    run "partial_cmp" mode (f ||| g) args = (run "partial_cmp" mode g args).map (orInto f) := by api2

theorem api_frame_ne (mode : RoundingMode) (f g : UInt32) : ∀ args : List AVal,
    run "ne" mode (f ||| g) args = (run "ne" mode g args).map (orInto f) := by api2

theorem api_frame_hash (mode : RoundingMode) (f g : UInt32) : ∀ args : List AVal,
    run "hash" mode (f ||| g) args = (run "hash" mode g args).map (orInto f) := by api1

/-- unfold the dispatch on both sides down to its chain of string tests -/
def unfoldRun (e : Expr) : MetaM Expr := do
  -- e = run op mode fl args
  let some e1 ← unfoldDefinition? e | throwError "cannot unfold run"
  let e1 := e1.headBeta
  let .const c lvls := e1.getAppFn | throwError "cannot unfold the matcher in {e1.getAppFn}"
  let info ← getConstInfo c
  let val := info.value!.instantiateLevelParams info.levelParams lvls
  return (mkAppN val e1.getAppArgs).headBeta

elab "api_unfold" : tactic => withMainContext do
  let g ← getMainGoal
  let t := (← instantiateMVars (← g.getType)).consumeMData
  let some (ty, lhs, rhs) := t.eq? | throwError "not an equation"
  let lhs' ← unfoldRun lhs
  let inner' ← unfoldRun rhs.appArg!
  let newT := mkApp3 (mkConst ``Eq [Level.succ Level.zero]) ty lhs' (mkApp rhs.appFn! inner')
  let g' ← mkFreshExprSyntheticOpaqueMVar newT
  g.assign g'
  replaceMainGoal [g'.mvarId!]

/-- close the goal with a term without checking at elaboration time (the kernel checks) -/
elab "exact_unchecked " t:term : tactic => withMainContext do
  let g ← getMainGoal
  let e ← Term.elabTerm t none
  let e ← instantiateMVars e
  g.assign e
  replaceMainGoal []

/-- walk down the chain of tests `op = "…"`: equal — the per-method theorem; different — next test -/
partial def chainLoop : TacticM Unit := withMainContext do
  let g ← getMainGoal
  let t := (← instantiateMVars (← g.getType)).consumeMData
  let some (_, lhs, _) := t.eq? | throwError "not an equation"
  if lhs.isAppOfArity ``dite 5 then
    let c := lhs.getArg! 1
    let lit := c.appArg!
    let .lit (.strVal s) := lit | throwError "api_chain: not a string literal test {c}"
    let lem := mkIdent (`Dec.C14GenHistory ++ Name.mkSimple ("api_frame_" ++ s))
    let cs ← Term.exprToSyntax c
    evalTactic (← `(tactic| by_cases hop : $cs))
    -- positive case first
    evalTactic (← `(tactic| (subst hop; exact_unchecked ($lem $(mkIdent `mode) $(mkIdent `f) $(mkIdent `g) $(mkIdent `args)))))
    evalTactic (← `(tactic| (rw [dif_neg hop, dif_neg hop]; clear hop)))
    chainLoop
  else
    evalTactic (← `(tactic| rfl))

elab "api_chain" : tactic => chainLoop

/-- **the frame property of the public dispatch**, for every method name, mode, argument list and incoming word -/
theorem api_frame (op : String) (mode : RoundingMode) (args : List AVal) (f g : UInt32) :
    run op mode (f ||| g) args = (run op mode g args).map (orInto f) := by
  api_unfold
  api_chain

/-- the form with a clear word on the right -/
theorem api_frame0 (op : String) (mode : RoundingMode) (args : List AVal) (f : UInt32) :
    run op mode f args = (run op mode 0 args).map (orInto f) := by
  have := api_frame op mode args f 0
  rwa [UInt32.or_zero] at this

/-- flags only accumulate across one public call -/
theorem api_mono (op : String) (mode : RoundingMode) (args : List AVal) (f : UInt32) (rs : List AVal) (out : UInt32)
    (h : run op mode f args = some (.ok (rs, out))) : f ||| out = out := by
  rw [api_frame0] at h
  cases h0 : run op mode 0 args with
  | none => rw [h0] at h; cases h
  | some r =>
    rw [h0] at h
    cases r with
    | error e => cases h
    | ok p =>
      have e : out = f ||| p.2 := by
        injection h with h; injection h with h; injection h with _ h; exact h.symm
      rw [e, ← UInt32.or_assoc, UInt32.or_self]

-- 1/3 from the word 0x04 (division-by-zero left by an earlier call): same digits, 0x04 ||| 0x20
example : run "division" .NearestEven 0x04 [.d ⟨1, 0x3040000000000000⟩, .d ⟨3, 0x3040000000000000⟩]
    = some (.ok ([.d ⟨7483252092553221461, 3457819314275779221⟩], 0x24)) := by decide +kernel
example : run "division" .NearestEven 0 [.d ⟨1, 0x3040000000000000⟩, .d ⟨3, 0x3040000000000000⟩]
    = some (.ok ([.d ⟨7483252092553221461, 3457819314275779221⟩], 0x20)) := by decide +kernel
-- the witness against the full frame of `bid128_div_clear_status` (10E-6176 / 1E+1 from 0x20) is harmless at the API:
example : run "division" .NearestEven 0x20 [.d ⟨10, 0⟩, .d ⟨1, 0x3042000000000000⟩]
    = some (.ok ([.d ⟨1, 0⟩], 0x20)) := by decide +kernel
-- unknown method, ill-shaped arguments
example : run "nosuch" .NearestEven 0x11 [.d ⟨1, 0x3040000000000000⟩] = none := by decide +kernel
example : run "division" .NearestEven 0x11 [.d ⟨1, 0x3040000000000000⟩] = none := by decide +kernel

/-! ## 3. Histories -/

/-- one call of a public method: name, rounding mode (used by the methods that take one), arguments -/
abbrev Call := String × RoundingMode × List AVal

/-- a history: the calls are made one after the other on ONE status word, which starts as `f`; the results are collected;
the first panic (or unknown method) stops everything -/
def runHistory (f : UInt32) : List Call → Except String (List (List AVal) × UInt32)
  | [] => .ok ([], f)
  | c :: h =>
    match run c.1 c.2.1 f c.2.2 with
    | none => .error ("no such method: " ++ c.1)
    | some r => r.bind fun p => (runHistory p.2 h).map fun q => (p.1 :: q.1, q.2)

/-- the history clause, general form: an extra word `f` in the initial status word changes nothing but is OR-ed into the
final word -/
theorem runHistory_frame' (f : UInt32) : ∀ (h : List Call) (g : UInt32),
    runHistory (f ||| g) h = (runHistory g h).map fun p => (p.1, f ||| p.2) := by
  intro h
  induction h with
  | nil => intro g; rfl
  | cons c h ih =>
    intro g
    unfold runHistory
    rw [api_frame c.1 c.2.1 c.2.2 f g]
    cases run c.1 c.2.1 g c.2.2 with
    | none => rfl
    | some r =>
      cases r with
      | error e => rfl
      | ok p =>
        show (runHistory (f ||| p.2) h).map (fun q => (p.1 :: q.1, q.2)) =
          ((runHistory p.2 h).map fun q => (p.1 :: q.1, q.2)).map fun p => (p.1, f ||| p.2)
        rw [ih p.2]
        cases runHistory p.2 h with
        | error e => rfl
        | ok q => rfl

/-- **the history clause of C14**: the results of a history do not depend on the initial status word, and the final word
is the initial one OR-ed with a set that does not depend on it (the one obtained from a clear word) -/
theorem runHistory_frame (f : UInt32) (h : List Call) :
    runHistory f h = (runHistory 0 h).map fun p => (p.1, f ||| p.2) := by
  have := runHistory_frame' f h 0
  rwa [UInt32.or_zero] at this

theorem and_or_absorb (f p : UInt32) : f &&& (f ||| p) = f := by
  apply UInt32.eq_of_toBitVec_eq
  simp only [UInt32.toBitVec_and, UInt32.toBitVec_or]
  ext i hi
  simp only [BitVec.getElem_and, BitVec.getElem_or]
  cases f.toBitVec[i] <;> simp

/-- flags only accumulate: every bit of the initial word is in the final word -/
theorem runHistory_mono (f : UInt32) (h : List Call) (rs : List (List AVal)) (fin : UInt32)
    (hr : runHistory f h = .ok (rs, fin)) : f ||| fin = fin ∧ f &&& fin = f := by
  rw [runHistory_frame] at hr
  cases h0 : runHistory 0 h with
  | error e => rw [h0] at hr; cases hr
  | ok p =>
    rw [h0] at hr
    have e : fin = f ||| p.2 := by injection hr with hr; injection hr with _ h2; exact h2.symm
    subst e
    constructor
    · rw [← UInt32.or_assoc, UInt32.or_self]
    · exact and_or_absorb f p.2

/-- every call of the history made on its own from a CLEAR status word (stop at the first panic / unknown method): the
list of (results, flags this call raises) -/
def runClear : List Call → Except String (List (List AVal × UInt32))
  | [] => .ok []
  | c :: h =>
    match run c.1 c.2.1 0 c.2.2 with
    | none => .error ("no such method: " ++ c.1)
    | some r => r.bind fun p => (runClear h).map fun l => p :: l

/-- OR of the words of a list into `f` -/
def orAll (f : UInt32) (l : List UInt32) : UInt32 := l.foldl (· ||| ·) f

theorem orAll_cons (f w : UInt32) (l : List UInt32) : orAll f (w :: l) = orAll (f ||| w) l := rfl

/-- **the final word of a history** is the initial word OR the flags each call raises when it is made alone from a clear
word; the results are the results of those separate calls; and the history panics iff one of the separate calls does
(with the same message). -/
theorem runHistory_flags : ∀ (h : List Call) (f : UInt32),
    runHistory f h = (runClear h).map fun l => (l.map Prod.fst, orAll f (l.map Prod.snd)) := by
  intro h
  induction h with
  | nil => intro f; rfl
  | cons c h ih =>
    intro f
    unfold runHistory runClear
    have hf := api_frame c.1 c.2.1 c.2.2 f 0
    rw [UInt32.or_zero] at hf
    rw [hf]
    cases run c.1 c.2.1 0 c.2.2 with
    | none => rfl
    | some r =>
      cases r with
      | error e => rfl
      | ok p =>
        show (runHistory (f ||| p.2) h).map (fun q => (p.1 :: q.1, q.2)) =
          ((runClear h).map fun l => p :: l).map fun l => (l.map Prod.fst, orAll f (l.map Prod.snd))
        rw [ih (f ||| p.2)]
        cases runClear h with
        | error e => rfl
        | ok l => rfl

/-- the order of OR-ing does not matter: the final word is `f` OR (the OR of the raised sets) -/
theorem orAll_eq (f : UInt32) (l : List UInt32) : orAll f l = f ||| orAll 0 l := by
  induction l generalizing f with
  | nil => exact (UInt32.or_zero).symm
  | cons w l ih =>
    rw [orAll_cons, orAll_cons, ih (f ||| w), ih (0 ||| w), UInt32.zero_or, UInt32.or_assoc]

theorem or_and_distrib (f w m : UInt32) : (f ||| w) &&& m = (f &&& m) ||| (w &&& m) := by
  apply UInt32.eq_of_toBitVec_eq
  simp only [UInt32.toBitVec_and, UInt32.toBitVec_or]
  ext i hi
  simp only [BitVec.getElem_and, BitVec.getElem_or]
  cases m.toBitVec[i] <;> simp

/-- a flag is set at the end of a history iff it was set at the start or one of the calls, made alone from a clear word,
raises it -/
theorem orAll_bit (f : UInt32) (l : List UInt32) (m : UInt32) :
    orAll f l &&& m ≠ 0 ↔ (f &&& m ≠ 0 ∨ ∃ w ∈ l, w &&& m ≠ 0) := by
  induction l generalizing f with
  | nil => simp [orAll]
  | cons w l ih =>
    rw [orAll_cons, ih]
    have : (f ||| w) &&& m ≠ 0 ↔ (f &&& m ≠ 0 ∨ w &&& m ≠ 0) := by
      rw [or_and_distrib, ne_eq, UInt32.or_eq_zero_iff, Classical.not_and_iff_not_or_not]
    rw [this]
    simp only [List.mem_cons, exists_eq_or_imp, or_assoc]

-- 1/3 (inexact 0x20), sqrt(-1) (invalid 0x01), 1 == 3 (no word), 1/0 (division by zero 0x04), from the word 0x10:
example : runHistory 0x10
    [("division", .NearestEven, [.d ⟨1, 0x3040000000000000⟩, .d ⟨3, 0x3040000000000000⟩]),
     ("square_root", .NearestEven, [.d ⟨1, 0xB040000000000000⟩]),
     ("eq", .NearestEven, [.d ⟨1, 0x3040000000000000⟩, .d ⟨3, 0x3040000000000000⟩]),
     ("division", .NearestEven, [.d ⟨1, 0x3040000000000000⟩, .d ⟨0, 0x3040000000000000⟩])]
    = .ok ([[.d ⟨7483252092553221461, 3457819314275779221⟩], [.d ⟨0, 8935141660703064064⟩], [.b false],
            [.d ⟨0, 8646911284551352320⟩]], 0x35) := by decide +kernel
example : runClear
    [("division", .NearestEven, [.d ⟨1, 0x3040000000000000⟩, .d ⟨3, 0x3040000000000000⟩]),
     ("square_root", .NearestEven, [.d ⟨1, 0xB040000000000000⟩]),
     ("eq", .NearestEven, [.d ⟨1, 0x3040000000000000⟩, .d ⟨3, 0x3040000000000000⟩]),
     ("division", .NearestEven, [.d ⟨1, 0x3040000000000000⟩, .d ⟨0, 0x3040000000000000⟩])]
    = .ok [([.d ⟨7483252092553221461, 3457819314275779221⟩], 0x20), ([.d ⟨0, 8935141660703064064⟩], 0x01),
           ([.b false], 0), ([.d ⟨0, 8646911284551352320⟩], 0x04)] := by decide +kernel
example : orAll 0x10 [0x20, 0x01, 0, 0x04] = 0x35 := by decide
-- an unknown method stops the history
example : runHistory 0x10
    [("square_root", .NearestEven, [.d ⟨1, 0xB040000000000000⟩]), ("nosuch", .NearestEven, [])]
    = .error "no such method: nosuch" := by decide +kernel

/-! ## 4. The methods without a status word

`abs`, `class`, the `is_*` predicates, `negate`, `same_quantum`, `total_order(_mag)`, `frexp`, `quantum`, the DPD pair and the
`d128` glue of the Rust traits (`eq ne lt le gt ge partial_cmp hash`: they run the comparison routines on a LOCAL status
word that starts clear and is dropped) take no status word.  For them the frame property is trivial and more is true: the
caller's word comes back unchanged, whatever it is, and the results do not depend on it. -/

/-- replace the outgoing word -/
def setWord (f : UInt32) (r : Except String (List AVal × UInt32)) : Except String (List AVal × UInt32) :=
  r.map fun p => (p.1, f)

theorem api_silent_encode_decimal (mode : RoundingMode) (f g : UInt32) : ∀ args : List AVal,
    run "encode_decimal" mode f args = (run "encode_decimal" mode g args).map (setWord f) := by api1

theorem api_silent_decode_decimal (mode : RoundingMode) (f g : UInt32) : ∀ args : List AVal,
    run "decode_decimal" mode f args = (run "decode_decimal" mode g args).map (setWord f) := by api1

theorem api_silent_abs (mode : RoundingMode) (f g : UInt32) : ∀ args : List AVal,
    run "abs" mode f args = (run "abs" mode g args).map (setWord f) := by api1

theorem api_silent_class (mode : RoundingMode) (f g : UInt32) : ∀ args : List AVal,
    run "class" mode f args = (run "class" mode g args).map (setWord f) := by api1

theorem api_silent_is_finite (mode : RoundingMode) (f g : UInt32) : ∀ args : List AVal,
    run "is_finite" mode f args = (run "is_finite" mode g args).map (setWord f) := by api1

theorem api_silent_is_infinite (mode : RoundingMode) (f g : UInt32) : ∀ args : List AVal,
    run "is_infinite" mode f args = (run "is_infinite" mode g args).map (setWord f) := by api1

theorem api_silent_is_nan (mode : RoundingMode) (f g : UInt32) : ∀ args : List AVal,
    run "is_nan" mode f args = (run "is_nan" mode g args).map (setWord f) := by api1

theorem api_silent_is_normal (mode : RoundingMode) (f g : UInt32) : ∀ args : List AVal,
    run "is_normal" mode f args = (run "is_normal" mode g args).map (setWord f) := by api1

theorem api_silent_is_signaling (mode : RoundingMode) (f g : UInt32) : ∀ args : List AVal,
    run "is_signaling" mode f args = (run "is_signaling" mode g args).map (setWord f) := by api1

theorem api_silent_is_sign_minus (mode : RoundingMode) (f g : UInt32) : ∀ args : List AVal,
    run "is_sign_minus" mode f args = (run "is_sign_minus" mode g args).map (setWord f) := by api1

theorem api_silent_is_subnormal (mode : RoundingMode) (f g : UInt32) : ∀ args : List AVal,
    run "is_subnormal" mode f args = (run "is_subnormal" mode g args).map (setWord f) := by api1

theorem api_silent_is_zero (mode : RoundingMode) (f g : UInt32) : ∀ args : List AVal,
    run "is_zero" mode f args = (run "is_zero" mode g args).map (setWord f) := by api1

theorem api_silent_negate (mode : RoundingMode) (f g : UInt32) : ∀ args : List AVal,
    run "negate" mode f args = (run "negate" mode g args).map (setWord f) := by api1

theorem api_silent_same_quantum (mode : RoundingMode) (f g : UInt32) : ∀ args : List AVal,
    run "same_quantum" mode f args = (run "same_quantum" mode g args).map (setWord f) := by api2

theorem api_silent_total_order (mode : RoundingMode) (f g : UInt32) : ∀ args : List AVal,
    run "total_order" mode f args = (run "total_order" mode g args).map (setWord f) := by api2

theorem api_silent_total_order_mag (mode : RoundingMode) (f g : UInt32) : ∀ args : List AVal,
    run "total_order_mag" mode f args = (run "total_order_mag" mode g args).map (setWord f) := by api2

theorem api_silent_frexp (mode : RoundingMode) (f g : UInt32) : ∀ args : List AVal,
    run "frexp" mode f args = (run "frexp" mode g args).map (setWord f) := by api1

theorem api_silent_quantum (mode : RoundingMode) (f g : UInt32) : ∀ args : List AVal,
    run "quantum" mode f args = (run "quantum" mode g args).map (setWord f) := by api1

theorem api_silent_eq (mode : RoundingMode) (f g : UInt32) : ∀ args : List AVal,
    run "eq" mode f args = (run "eq" mode g args).map (setWord f) := by api2

theorem api_silent_lt (mode : RoundingMode) (f g : UInt32) : ∀ args : List AVal,
    run "lt" mode f args = (run "lt" mode g args).map (setWord f) := by api2

theorem api_silent_le (mode : RoundingMode) (f g : UInt32) : ∀ args : List AVal,
    run "le" mode f args = (run "le" mode g args).map (setWord f) := by api2

theorem api_silent_gt (mode : RoundingMode) (f g : UInt32) : ∀ args : List AVal,
    run "gt" mode f args = (run "gt" mode g args).map (setWord f) := by api2

theorem api_silent_ge (mode : RoundingMode) (f g : UInt32) : ∀ args : List AVal,
    run "ge" mode f args = (run "ge" mode g args).map (setWord f) := by api2

theorem api_silent_partial_cmp (mode : RoundingMode) (f g : UInt32) : ∀ args : List AVal,
    run "partial_cmp" mode f args = (run "partial_cmp" mode g args).map (setWord f) := by api2

theorem api_silent_ne (mode : RoundingMode) (f g : UInt32) : ∀ args : List AVal,
    run "ne" mode f args = (run "ne" mode g args).map (setWord f) := by api2

theorem api_silent_hash (mode : RoundingMode) (f g : UInt32) : ∀ args : List AVal,
    run "hash" mode f args = (run "hash" mode g args).map (setWord f) := by api1

/-- the public methods that take no status word -/
def wordless : List String :=
  ["encode_decimal", "decode_decimal", "abs", "class", "is_finite", "is_infinite", "is_nan", "is_normal", "is_signaling", "is_sign_minus", "is_subnormal", "is_zero", "negate", "same_quantum", "total_order", "total_order_mag", "frexp", "quantum", "eq", "lt", "le", "gt", "ge", "partial_cmp", "ne", "hash"]

/-- **methods without a status word**: the result does not depend on the caller's word, and that word is handed back
unchanged (also on the `d128` glue `eq … hash`, whose comparison routines raise flags on a local word that is dropped) -/
theorem api_silent (op : String) (hop : op ∈ wordless) (mode : RoundingMode) (args : List AVal) (f g : UInt32) :
    run op mode f args = (run op mode g args).map (setWord f) := by
  simp only [wordless, List.mem_cons, List.not_mem_nil, or_false] at hop
  rcases hop with rfl | rfl | rfl | rfl | rfl | rfl | rfl | rfl | rfl | rfl | rfl | rfl | rfl | rfl | rfl | rfl | rfl | rfl | rfl | rfl | rfl | rfl | rfl | rfl | rfl | rfl
  · exact api_silent_encode_decimal mode f g args
  · exact api_silent_decode_decimal mode f g args
  · exact api_silent_abs mode f g args
  · exact api_silent_class mode f g args
  · exact api_silent_is_finite mode f g args
  · exact api_silent_is_infinite mode f g args
  · exact api_silent_is_nan mode f g args
  · exact api_silent_is_normal mode f g args
  · exact api_silent_is_signaling mode f g args
  · exact api_silent_is_sign_minus mode f g args
  · exact api_silent_is_subnormal mode f g args
  · exact api_silent_is_zero mode f g args
  · exact api_silent_negate mode f g args
  · exact api_silent_same_quantum mode f g args
  · exact api_silent_total_order mode f g args
  · exact api_silent_total_order_mag mode f g args
  · exact api_silent_frexp mode f g args
  · exact api_silent_quantum mode f g args
  · exact api_silent_eq mode f g args
  · exact api_silent_lt mode f g args
  · exact api_silent_le mode f g args
  · exact api_silent_gt mode f g args
  · exact api_silent_ge mode f g args
  · exact api_silent_partial_cmp mode f g args
  · exact api_silent_ne mode f g args
  · exact api_silent_hash mode f g args

/-- in particular such a call returns exactly the word it was given -/
theorem api_silent_word (op : String) (hop : op ∈ wordless) (mode : RoundingMode) (args : List AVal) (f : UInt32)
    (rs : List AVal) (out : UInt32) (h : run op mode f args = some (.ok (rs, out))) : out = f := by
  rw [api_silent op hop mode args f 0] at h
  cases h0 : run op mode 0 args with
  | none => rw [h0] at h; cases h
  | some r =>
    rw [h0] at h
    cases r with
    | error e => cases h
    | ok p => injection h with h; injection h with h; injection h with _ h; exact h.symm

-- `1 == sNaN` through the trait glue (`d128::eq`): the caller's word 0x11 comes back as it is
example : run "eq" .NearestEven 0x11 [.d ⟨1, 0x3040000000000000⟩, .d ⟨0, 0x7E00000000000000⟩]
    = some (.ok ([.b false], 0x11)) := by decide +kernel
-- `1 < sNaN`: `bid128_quiet_less` raises invalid on its local word, which `d128::lt` drops
example : run "lt" .NearestEven 0x20 [.d ⟨1, 0x3040000000000000⟩, .d ⟨0, 0x7E00000000000000⟩]
    = some (.ok ([.b false], 0x20)) := by decide +kernel
example : bid128_quiet_less ⟨1, 0x3040000000000000⟩ ⟨0, 0x7E00000000000000⟩ 0 = .ok (false, 0x01) := by decide +kernel

/-! ## 5. The judge's relation for the `twice` observations -/

/-- the relation `expect "twice"` uses (copied from `DecModel/Ops.lean`; `expect_twice` shows it is the same function) -/
def twiceRel (r : List Val) (fin : Flags) (_out : Flags) : Bool :=
  let k := (r.length - 2) / 2
  r.length ≥ 2 && r.length == 2 * k + 2 &&
  r.take k == (r.drop (k + 1)).take k &&
  (match r[k]?, r[2 * k + 1]? with
   | some (.i o0), some (.i o1) => o0 ≥ 0 && o1 == ((fin ||| o0.toNat : Nat) : Int)
   | _, _ => false)

/-- the judge's expectation for every `twice` observation is this relation -/
theorem expect_twice (mode : Mode) (args : List Val) (t : Bool) :
    ∃ d, expect "twice" mode args t = .rel d twiceRel := ⟨_, rfl⟩

/-- the harness's `twice` observation: results and outgoing word from a clear word, then from `fin` -/
def twiceObs (φ : AVal → Val) (r0 : List AVal) (o0 : UInt32) (r1 : List AVal) (o1 : UInt32) : List Val :=
  r0.map φ ++ [.i (o0.toNat : Int)] ++ (r1.map φ ++ [.i (o1.toNat : Int)])

theorem twiceRel_obs (a : List Val) (o0 fin out : Nat) :
    twiceRel (a ++ [.i (o0 : Int)] ++ (a ++ [.i ((fin ||| o0 : Nat) : Int)])) fin out = true := by
  have hlen : (a ++ [Val.i (o0 : Int)] ++ (a ++ [Val.i ((fin ||| o0 : Nat) : Int)])).length = 2 * a.length + 2 := by
    simp only [List.length_append, List.length_cons, List.length_nil]; omega
  have hk : (2 * a.length + 2 - 2) / 2 = a.length := by omega
  unfold twiceRel
  simp only [hlen, hk]
  have h1 : (a ++ [Val.i (o0 : Int)] ++ (a ++ [Val.i ((fin ||| o0 : Nat) : Int)])).take a.length = a := by
    rw [List.append_assoc, List.take_left]
  have h2 : ((a ++ [Val.i (o0 : Int)] ++ (a ++ [Val.i ((fin ||| o0 : Nat) : Int)])).drop (a.length + 1)).take a.length = a := by
    have : (a ++ [Val.i (o0 : Int)]).length = a.length + 1 := by simp
    rw [← this, List.drop_left, List.take_left]
  have h3 : (a ++ [Val.i (o0 : Int)] ++ (a ++ [Val.i ((fin ||| o0 : Nat) : Int)]))[a.length]? = some (.i o0) := by
    rw [List.append_assoc, List.getElem?_append_right (Nat.le_refl _)]; simp
  have h4 : (a ++ [Val.i (o0 : Int)] ++ (a ++ [Val.i ((fin ||| o0 : Nat) : Int)]))[2 * a.length + 1]? =
      some (.i ((fin ||| o0 : Nat) : Int)) := by
    have : (a ++ [Val.i (o0 : Int)]).length = a.length + 1 := by simp
    rw [List.getElem?_append_right (by omega), this, List.getElem?_append_right (by omega)]
    have : 2 * a.length + 1 - (a.length + 1) - a.length = 0 := by omega
    rw [this]; rfl
  rw [h1, h2, h3, h4]
  simp

/-- **`api_frame` against the judge**: whenever the two calls of a `twice` observation (the method from a clear word and
from the word `fin`) are made with the translated dispatch and the first returns, the second returns too and the
observation the harness builds from them satisfies the judge's C14 relation — whatever the method, the mode, the
arguments, the incoming word and the rendering `φ` of the results (the judge's is `Dec.ofAVal`). -/
theorem twice_accepted (φ : AVal → Val) (op : String) (mode : RoundingMode) (args : List AVal) (fin : UInt32)
    (r0 : List AVal) (o0 : UInt32) (h0 : run op mode 0 args = some (.ok (r0, o0))) :
    run op mode fin args = some (.ok (r0, fin ||| o0)) ∧
    ∀ out, twiceRel (twiceObs φ r0 o0 r0 (fin ||| o0)) fin.toNat out = true := by
  constructor
  · have := api_frame op mode args fin 0
    rw [UInt32.or_zero, h0] at this
    exact this
  · intro out
    unfold twiceObs
    rw [UInt32.toNat_or]
    exact twiceRel_obs _ _ _ _

/-- … and when the call from a clear word panics, so does the call from any other word, with the same message (the
harness then reports a panic for the whole observation) -/
theorem twice_panic (op : String) (mode : RoundingMode) (args : List AVal) (fin : UInt32) (e : String)
    (h0 : run op mode 0 args = some (.error e)) : run op mode fin args = some (.error e) := by
  have := api_frame op mode args fin 0
  rw [UInt32.or_zero, h0] at this
  exact this

-- the observation of 1/3 from the word 0x04: accepted; with a lost incoming flag, or a changed result: rejected
example : twiceRel [.d 5, .i 0x20, .d 5, .i 0x24] 0x04 0x24 = true := by decide
example : twiceRel [.d 5, .i 0x20, .d 5, .i 0x20] 0x04 0x20 = false := by decide
example : twiceRel [.d 5, .i 0x20, .d 6, .i 0x24] 0x04 0x24 = false := by decide

end Dec.C14GenHistory
